import VpnCloud.Model.Node
import VpnCloud.Proofs.Lemmas.NodeLemmas
import VpnCloud.Proofs.Lemmas.NodeLemmas2
import VpnCloud.Proofs.Lemmas.InitLemmas
import VpnCloud.Proofs.Lemmas.TableLemmas
import VpnCloud.Proofs.C12
import VpnCloud.Proofs.C15
/-
  Helper lemmas for the node-level invariants of C12 (`Proofs/C12Node.lean`: the routing table only names peers) and
  C08 (`Proofs/C08Node.lean`: no operation panics; the node never seals an empty plaintext):

  * generic facts about association lists,
  * the claim table relative to a set of peer addresses (`TP`),
  * what the session layer (`Init.handleInit`, `PeerCrypto.handleMessage`, `PeerCrypto.everySecond`) does to the
    well-formedness predicates of a session object (`InitWF` / `PendOK` / `PeerOK` for C08, `FreshPC` for C12,
    `PayOK` / `LogNE` for the seals), with `handleInitMessage`, `handleMessage`, `everySecond` and `housekeep`
    restated in stages (`…_eq`, all by `rfl`),
  * a GENERIC node invariant `GI S` (structure `SI`: a predicate for pending sessions, one for peer sessions, and
    switches for the table, the panic flag and the seal log).  Every building block of `Model/Node.lean` is traversed
    once for `GI S`; the three instances (`C12Node.SA`, `C08Node.SB`, `C08Node.SC`) only have to supply what the
    session layer returns (`SOK`, `TOK`).
-/
namespace VpnCloud.Proofs.NodeInvLemmas

open VpnCloud VpnCloud.Node
open VpnCloud.Proofs.NodeLemmas VpnCloud.Proofs.NodeLemmas2 VpnCloud.Proofs.InitLemmas

/-! ## association lists -/

theorem keys_eraseA {α} (l : List (NAddr × α)) (a : NAddr) : (eraseA l a).map (·.1) = (l.map (·.1)).filter (fun b => b ≠ a) := by
  unfold eraseA
  rw [List.filter_map]
  rfl

theorem key_mem_eraseA_iff {α} (l : List (NAddr × α)) (a b : NAddr) : b ∈ (eraseA l a).map (·.1) ↔ b ∈ l.map (·.1) ∧ b ≠ a := by
  rw [keys_eraseA, List.mem_filter]
  simp

theorem key_mem_insertA_of_mem {α} (l : List (NAddr × α)) (a b : NAddr) (v : α) (h : b ∈ l.map (·.1)) : b ∈ (insertA l a v).map (·.1) := by
  unfold insertA
  split
  · rw [List.map_map]
    rcases List.mem_map.1 h with ⟨x, hx, rfl⟩
    refine List.mem_map.2 ⟨x, hx, ?_⟩
    by_cases hxa : x.1 = a <;> simp [hxa]
  · rw [List.map_append]
    exact List.mem_append_left _ h

theorem key_mem_insertA_self {α} (l : List (NAddr × α)) (a : NAddr) (v : α) : a ∈ (insertA l a v).map (·.1) := by
  unfold insertA
  split
  · rename_i h
    rw [List.any_eq_true] at h
    obtain ⟨x, hx, hxa⟩ := h
    rw [List.map_map]
    refine List.mem_map.2 ⟨x, hx, ?_⟩
    have : x.1 = a := by simpa using hxa
    simp [this]
  · rw [List.map_append]
    exact List.mem_append_right _ (by simp)

theorem lookupA_eraseA_self {α} (l : List (NAddr × α)) (a : NAddr) : lookupA (eraseA l a) a = none := by
  rw [lookupA_none_iff, key_mem_eraseA_iff]
  exact fun h => h.2 rfl

theorem mem_key {α} {l : List (NAddr × α)} {a : NAddr} {v : α} (h : (a, v) ∈ l) : a ∈ l.map (·.1) :=
  List.mem_map.2 ⟨(a, v), h, rfl⟩

/-- what `lookupA` finds after `insertA` under the same key -/
theorem lookupA_insertA_self {α} (l : List (NAddr × α)) (a : NAddr) (v : α) : lookupA (insertA l a v) a = some v := by
  unfold insertA
  split
  · rename_i h
    unfold lookupA
    induction l with
    | nil => simp at h
    | cons x l ih =>
      by_cases hx : x.1 = a
      · simp [hx]
      · have h' : l.any (fun p => decide (p.1 = a)) = true := by simpa [hx] using h
        simp only [List.map_cons, hx, if_false, List.find?_cons, decide_false]
        exact ih h'
  · rename_i h
    unfold lookupA
    have : l.find? (fun p => decide (p.1 = a)) = none := by
      rw [List.find?_eq_none]
      intro x hx hxa
      apply h
      rw [List.any_eq_true]
      exact ⟨x, hx, hxa⟩
    rw [List.find?_append, this]
    simp

/-! ## the claim table relative to a set of peer addresses -/

/-- every claim and every cached decision names the id of one of the addresses `keys` -/
def TP (keys : List NAddr) (t : Table) : Prop :=
  (∀ e ∈ t.claims, ∃ a ∈ keys, addrId a = e.peer) ∧ (∀ v ∈ t.cache, ∃ a ∈ keys, addrId a = v.peer)

theorem TP.mono {keys keys' : List NAddr} {t : Table} (h : TP keys t) (hk : ∀ a ∈ keys, a ∈ keys') : TP keys' t :=
  ⟨fun e he => let ⟨a, ha, hp⟩ := h.1 e he; ⟨a, hk a ha, hp⟩, fun v hv => let ⟨a, ha, hp⟩ := h.2 v hv; ⟨a, hk a ha, hp⟩⟩

theorem TP.housekeep {keys : List NAddr} {t : Table} (h : TP keys t) (now : Int) : TP keys (t.housekeep now) :=
  ⟨fun e he => h.1 e (List.mem_filter.1 he).1, fun v hv => h.2 v (List.mem_filter.1 hv).1⟩

theorem TP.cacheInsert {keys : List NAddr} {t : Table} (h : TP keys t) (v : CacheEntry) (hv : ∃ a ∈ keys, addrId a = v.peer) :
    TP keys { t with cache := Table.cacheInsert t.cache v } := by
  refine ⟨h.1, ?_⟩
  intro w hw
  rcases List.mem_cons.1 hw with rfl | hw
  · exact hv
  · exact h.2 w (List.mem_filter.1 hw).1

theorem TP.learn {keys : List NAddr} {t : Table} (h : TP keys t) (now : Int) (addr : Addr) (a : NAddr) (ha : a ∈ keys) :
    TP keys (t.learn now addr (addrId a)) :=
  h.cacheInsert _ ⟨a, ha, rfl⟩

/-- the entries the first loop of `set_claims` returns carry the peer ids of the entries it was given -/
theorem loop_peer (p : PeerId) (fresh : Int) (es : List ClaimEntry) (cs : List Range) (rm : Bool) :
    ∀ x ∈ (Table.setClaimsLoop p fresh es cs rm).1, ∃ e ∈ es, e.peer = x.peer := by
  induction es generalizing cs rm with
  | nil => intro x hx; simp [Table.setClaimsLoop] at hx
  | cons e es ih =>
    rw [TableLemmas.loop_cons]
    intro x hx
    split at hx
    · split at hx
      · rcases List.mem_cons.1 hx with rfl | hx
        · exact ⟨e, List.mem_cons_self, rfl⟩
        · obtain ⟨e0, h0, hp⟩ := ih _ _ x hx
          exact ⟨e0, List.mem_cons_of_mem _ h0, hp⟩
      · rcases List.mem_cons.1 hx with rfl | hx
        · exact ⟨e, List.mem_cons_self, rfl⟩
        · obtain ⟨e0, h0, hp⟩ := ih _ _ x hx
          exact ⟨e0, List.mem_cons_of_mem _ h0, hp⟩
    · rcases List.mem_cons.1 hx with rfl | hx
      · exact ⟨x, List.mem_cons_self, rfl⟩
      · obtain ⟨e0, h0, hp⟩ := ih _ _ x hx
        exact ⟨e0, List.mem_cons_of_mem _ h0, hp⟩

theorem TP.setClaims {keys : List NAddr} {t : Table} (h : TP keys t) (now : Int) (a : NAddr) (ha : a ∈ keys) (cs : List Range) :
    TP keys (t.setClaims now (addrId a) cs) := by
  constructor
  · intro e he
    rw [C12.setClaims_claims, List.mem_filter, List.mem_append] at he
    rcases he.1 with he | he
    · obtain ⟨e0, h0, hp⟩ := loop_peer _ _ _ _ _ e he
      rw [← hp]
      exact h.1 e0 h0
    · rcases List.mem_map.1 he with ⟨c, _, rfl⟩
      exact ⟨a, ha, rfl⟩
  · intro v hv
    rw [C12.setClaims_cache, List.mem_filter] at hv
    have hv1 := hv.1
    split at hv1
    · rcases List.mem_map.1 hv1 with ⟨w, hw, rfl⟩
      obtain ⟨b, hb, hp⟩ := h.2 w hw
      refine ⟨b, hb, ?_⟩
      split <;> exact hp
    · exact h.2 v hv1

/-- `remove_claims` for the id of `a`: what is left names addresses other than `a` -/
theorem TP.removeClaims {keys : List NAddr} {t : Table} (h : TP keys t) (now : Int) (hnow : 0 < now) (a : NAddr) :
    TP (keys.filter (fun b => b ≠ a)) (t.removeClaims now (addrId a)) := by
  constructor
  · intro e he
    rw [C12.removeClaims_claims t now _ hnow, List.mem_filter] at he
    obtain ⟨b, hb, hp⟩ := h.1 e he.1
    refine ⟨b, ?_, hp⟩
    rw [List.mem_filter]
    refine ⟨hb, ?_⟩
    have hne : e.peer ≠ addrId a := by
      have := he.2
      simp only [Bool.and_eq_true, decide_eq_true_eq] at this
      exact this.1
    simp only [ne_eq, decide_not, Bool.not_eq_true', decide_eq_false_iff_not]
    intro hba
    exact hne (by rw [← hp, hba])
  · intro v hv
    rw [C12.removeClaims_cache t now _ hnow, List.mem_filter] at hv
    obtain ⟨b, hb, hp⟩ := h.2 v hv.1
    refine ⟨b, ?_, hp⟩
    rw [List.mem_filter]
    refine ⟨hb, ?_⟩
    have hne : v.peer ≠ addrId a := by
      have := hv.2
      simp only [Bool.and_eq_true, decide_eq_true_eq] at this
      exact this.1
    simp only [ne_eq, decide_not, Bool.not_eq_true', decide_eq_false_iff_not]
    intro hba
    exact hne (by rw [← hp, hba])

theorem TP.lookup {keys : List NAddr} {t : Table} (h : TP keys t) (now : Int) (dst : Addr) : TP keys (t.lookup now dst).1 := by
  unfold Table.lookup
  split
  · exact h
  · split
    · rename_i e he
      apply h.cacheInsert
      rcases (TableLemmas.scan_some dst t.claims none e he).1 with ⟨hm, _⟩ | hn
      · exact h.1 e hm
      · cases hn
    · exact h

theorem TP.lookup_result {keys : List NAddr} {t : Table} (h : TP keys t) (now : Int) (dst : Addr) (pid : PeerId)
    (hl : (t.lookup now dst).2 = some pid) : ∃ a ∈ keys, addrId a = pid := by
  rcases C12.lookup_result_mem t now dst pid hl with ⟨v, hv, hp⟩ | ⟨e, he, hp⟩
  · rw [← hp]; exact h.2 v hv
  · rw [← hp]; exact h.1 e he

/-! ## the handshake object -/

/-- a handshake object that awaits a pong holds its ephemeral key -/
def InitWF (st : InitSt) : Prop := st.stage = Generated.STAGE_PONG → st.ecdh.isSome = true

theorem selectAlgorithm_err (own peer : Algos) (e : InitErr) (h : Init.selectAlgorithm own peer = .error e) : e = .cryptoInitFatal := by
  unfold Init.selectAlgorithm at h
  split at h
  · cases h
  · simp only at h
    split at h
    · simp only [Except.error.injEq] at h; exact h.symm
    · cases h

/-- what a run of the per-message part of `handle_init` may return for an object that is well-formed -/
def GoodRes (st0 : InitSt) : Res → Prop
  | .panic => False
  | .err st' e => (e = .cryptoInitFatal ∨ InitWF st') ∧ st'.stage = st0.stage
  | .ok st' _ => st'.stage ≠ Generated.STAGE_PONG

theorem pongSt_stage (st0 : InitSt) (own eb hb : Bytes) (sel : Option Cipher) (rnd : Rand) :
    (pongSt st0 own eb hb sel rnd).stage = st0.stage := by cases sel <;> rfl

theorem decryptPayload_stage (s s' : InitSt) (bodyOf : Init.BodyOf) (data : Bytes) (r : Option Bytes)
    (h : Init.decryptPayload s bodyOf data = (s', r)) : s'.stage = s.stage := by
  obtain ⟨cr, rfl⟩ := decryptPayload_frame s s' bodyOf data r h
  rfl

theorem handleMsg_good (env : CryptoEnv) (bodyOf : Init.BodyOf) (ok : Bytes → Bool) (st0 : InitSt) (msg : InitMsg) (rnd : Rand)
    (hs : msg.stage = st0.stage) (hwf : InitWF st0) : GoodRes st0 (handleMsg env bodyOf ok st0 msg rnd) := by
  cases msg with
  | ping h ecdh algos =>
    simp only [handleMsg]
    split
    · exact ⟨Or.inr hwf, rfl⟩
    · split <;> exact (by decide : Generated.STAGE_PENG ≠ Generated.STAGE_PONG)
  | pong h ecdh algos payload =>
    simp only [handleMsg]
    split
    · rename_i hn
      have := hwf hs.symm
      rw [hn] at this
      cases this
    · split
      · rename_i e he
        exact ⟨Or.inl (selectAlgorithm_err _ _ _ he), rfl⟩
      · split
        · rename_i st5 hd
          exact ⟨Or.inl rfl, (decryptPayload_stage _ _ _ _ _ hd).trans (pongSt_stage ..)⟩
        · rename_i st5 p hd
          split
          · exact ⟨Or.inl rfl, (decryptPayload_stage _ _ _ _ _ hd).trans (pongSt_stage ..)⟩
          · exact (by decide : Generated.WAITING_TO_CLOSE ≠ Generated.STAGE_PONG)
  | peng h payload =>
    simp only [handleMsg]
    split
    · rename_i st2 hd
      exact ⟨Or.inl rfl, decryptPayload_stage { st0 with retries := 0 } _ _ _ _ hd⟩
    · rename_i st2 p hd
      split
      · exact ⟨Or.inl rfl, decryptPayload_stage { st0 with retries := 0 } _ _ _ _ hd⟩
      · exact (by decide : Generated.CLOSING ≠ Generated.STAGE_PONG)

/-- what `handle_init` may return for a well-formed object -/
def GoodInit (st : InitSt) : Res → Prop
  | .panic => False
  | .err st' e => (e = .cryptoInitFatal ∨ InitWF st') ∧ (st.stage ≠ Generated.STAGE_PONG → st'.stage ≠ Generated.STAGE_PONG)
  | .ok st' (_, res, _) => InitWF st' ∧ (st.stage ≠ Generated.STAGE_PONG → st'.stage ≠ Generated.STAGE_PONG) ∧
      (∀ p b, res = .success p b → st'.stage ≠ Generated.STAGE_PONG)

theorem GoodRes.toInit {st st0 : InitSt} {r : Res} (h : GoodRes st0 r)
    (hst : st.stage ≠ Generated.STAGE_PONG → st0.stage ≠ Generated.STAGE_PONG) : GoodInit st r := by
  cases r with
  | panic => exact h
  | err st' e => exact ⟨h.1, fun hne => by rw [h.2]; exact hst hne⟩
  | ok st' x =>
    obtain ⟨out, res, log⟩ := x
    exact ⟨fun hp => absurd hp h, fun _ => h, fun _ _ _ => h⟩

theorem stageCheck_inr' (st : InitSt) (stage : Nat) (hash : Bytes) (o : Res) (h : stageCheck st stage hash = .inr o) :
    (∃ x, o = .ok st (x, .continue, [])) ∨ o = .err st .cryptoInitFatal := by
  unfold stageCheck at h
  repeat' split at h
  all_goals first
    | (simp only [Sum.inr.injEq] at h; subst h; first | exact Or.inl ⟨_, rfl⟩ | exact Or.inr rfl)
    | cases h

/-- `handle_init` on a well-formed handshake object: no panic; the object stays well-formed unless the error is fatal;
    an object that does not await a pong never comes to await one; after a success it does not await a pong -/
theorem handleInit_good (env : CryptoEnv) (bodyOf : Init.BodyOf) (ok : Bytes → Bool) (st : InitSt) (w : Bytes) (rnd : Rand)
    (hwf : InitWF st) : GoodInit st (Init.handleInit env bodyOf ok st w rnd) := by
  rw [handleInit_eq]
  split
  · exact ⟨Or.inr hwf, id⟩
  · rename_i m k hr
    split
    · exact ⟨Or.inl rfl, id⟩
    · split
      · rename_i o ho
        rcases stageCheck_inr' _ _ _ _ ho with ⟨x, rfl⟩ | rfl
        · exact ⟨hwf, id, fun p b h => by cases h⟩
        · exact ⟨Or.inl rfl, id⟩
      · rename_i ho
        rcases stageCheck_inl _ _ _ _ ho with ⟨h1, _⟩ | ⟨h1, _⟩ <;> cases h1
      · rename_i st0 ho
        rcases stageCheck_inl _ _ _ _ ho with ⟨h1, h2⟩ | ⟨h1, h2⟩
        · simp only [Option.some.injEq] at h1
          subst h1
          exact (handleMsg_good env bodyOf ok _ m rnd h2 hwf).toInit id
        · simp only [Option.some.injEq] at h1
          subst h1
          refine (handleMsg_good env bodyOf ok _ m rnd h2 ?_).toInit ?_
          · intro hp; exact absurd hp (by decide : Generated.STAGE_PING ≠ Generated.STAGE_PONG)
          · intro _; exact (by decide : Generated.STAGE_PING ≠ Generated.STAGE_PONG)

/-- a successful `handle_init` has checked the peer's payload -/
theorem handleInit_success_ok (env : CryptoEnv) (bodyOf : Init.BodyOf) (ok : Bytes → Bool) (st st' : InitSt) (w : Bytes) (rnd : Rand)
    (out p : Bytes) (ini : Bool) (log : Init.SealLog)
    (h : Init.handleInit env bodyOf ok st w rnd = .ok st' (out, .success p ini, log)) : ok p = true := by
  obtain ⟨m, k, _, _, hm⟩ := handleInit_success env bodyOf ok st st' w rnd out p ini log h
  cases m with
  | ping hb e a => exact absurd hm (handleMsg_ping _ _ _ _ _ _ _ _ _ _ _ _ _)
  | pong hb eb ab pl =>
    obtain ⟨_, _, _, _, _, _, _, hok, _⟩ := handleMsg_pong _ _ _ _ _ _ _ _ _ _ _ _ _ _ hm
    exact hok
  | peng hb pl =>
    obtain ⟨_, _, _, hok, _⟩ := handleMsg_peng _ _ _ _ _ _ _ _ _ _ _ _ hm
    exact hok

/-- `every_second` of the handshake object: the stage stays or becomes `CLOSING`, the ephemeral key is not touched -/
theorem init_everySecond_frame (st : InitSt) :
    ((Init.everySecond st).1.stage = st.stage ∨ (Init.everySecond st).1.stage = Generated.CLOSING) ∧ (Init.everySecond st).1.ecdh = st.ecdh := by
  unfold Init.everySecond
  repeat' split
  all_goals first
    | exact ⟨Or.inl rfl, rfl⟩
    | exact ⟨Or.inr rfl, rfl⟩

/-! ## the session object -/

/-- session of a pending handshake as C12 needs it: it cannot open or pass on payload messages -/
def FreshPC (pc : PeerCrypto) : Prop := pc.unencrypted = false ∧ pc.core = none

/-- session well-formedness for a pending handshake: a handshake object that awaits a pong holds its ephemeral key -/
def PendOK (pc : PeerCrypto) : Prop := ∀ i, pc.init = some i → InitWF i

/-- session well-formedness for an established peer: its handshake object (if it still has one) does not await a pong -/
def PeerOK (pc : PeerCrypto) : Prop := ∀ i, pc.init = some i → i.stage ≠ Generated.STAGE_PONG

theorem PeerOK.pendOK {pc : PeerCrypto} (h : PeerOK pc) : PendOK pc := fun i hi hp => absurd hp (h i hi)

theorem PeerOK.of_init {pc pc' : PeerCrypto} (h : PeerOK pc) (hi : pc'.init = pc.init) : PeerOK pc' := by
  intro i h'; rw [hi] at h'; exact h i h'

theorem PendOK.of_init {pc pc' : PeerCrypto} (h : PendOK pc) (hi : pc'.init = pc.init) : PendOK pc' := by
  intro i h'; rw [hi] at h'; exact h i h'

theorem sealMsg_init (pc : PeerCrypto) (plain ct : Bytes) : (PeerCrypto.sealMsg pc plain ct).1.init = pc.init := by
  unfold PeerCrypto.sealMsg
  split
  · rfl
  · split <;> rfl

theorem sealMsg_err (pc : PeerCrypto) (plain ct : Bytes) (e : InitErr) (h : (PeerCrypto.sealMsg pc plain ct).2 = .error e) :
    pc.unencrypted = false ∧ pc.core = none ∧ (PeerCrypto.sealMsg pc plain ct).1 = pc := by
  unfold PeerCrypto.sealMsg at h ⊢
  cases hu : pc.unencrypted with
  | true => simp [hu] at h
  | false =>
    cases hc : pc.core with
    | none => simp
    | some c => simp [hu, hc] at h

theorem installKey_init (pc : PeerCrypto) (key : Rot.Key) (id : Nat) (use : Bool) (starts : List Nat) :
    (PeerCrypto.installKey pc key id use starts).init = pc.init := by
  unfold PeerCrypto.installKey
  split <;> rfl

theorem installKey_fresh (pc : PeerCrypto) (key : Rot.Key) (id : Nat) (use : Bool) (starts : List Nat) (h : pc.core = none) :
    PeerCrypto.installKey pc key id use starts = pc := by
  unfold PeerCrypto.installKey
  rw [h]

theorem handleRotate_init (pc : PeerCrypto) (data : Bytes) (rr : RotRand) : (PeerCrypto.handleRotate pc data rr).1.init = pc.init := by
  unfold PeerCrypto.handleRotate
  split
  · rfl
  · split
    · rfl
    · split
      · rfl
      · simp only []
        repeat' split
        all_goals first
          | rfl
          | exact installKey_init ..

/-- hypothesis on the ideal AEAD: a genuine seal contains at least the type byte -/
def NonEmptySeals (bodyOf : Init.BodyOf) : Prop := ∀ ct k n p, bodyOf ct = .sealed k n p → p ≠ []

/-- the body of a rotation message carries X25519 public keys: if it parses, the proposed key and (if present) the confirmed key
    have exactly 32 bytes -/
def RotKeysOK (data : Bytes) : Prop :=
  ∀ bm, Codec.readRotMsg data = some bm → bm.propose.length = 32 ∧ ∀ c, bm.confirm = some c → c.length = 32

/-- hypothesis on the ideal AEAD: every plaintext that opens as a genuine seal of a ROTATION message carries keys of 32 bytes
    (what `create_key` produces; a key holder that does not run this code can seal anything) -/
def ValidRotKeys (bodyOf : Init.BodyOf) : Prop :=
  ∀ ct k n body, bodyOf ct = .sealed k n (Generated.MESSAGE_TYPE_ROTATION :: body) → RotKeysOK body

theorem derivePanics_false (sd : Rot.Side) (bm : Codec.RotMsg) (h1 : bm.propose.length = 32) (h2 : ∀ c, bm.confirm = some c → c.length = 32) :
    PeerCrypto.derivePanics sd bm = false := by
  unfold PeerCrypto.derivePanics PeerCrypto.ROT_KEY_LEN
  split
  · rfl
  · split
    · rename_i h; exact absurd h1 h
    · split
      · rename_i c _ hc _
        simp only [decide_eq_false_iff_not, Decidable.not_not]
        exact h2 c hc
      · rfl

theorem rotatePanics_of_keysOK (pc : PeerCrypto) (data : Bytes) (h : RotKeysOK data) : PeerCrypto.rotatePanics pc data = false := by
  unfold PeerCrypto.rotatePanics
  split
  · rfl
  · split
    · rfl
    · split
      · rfl
      · rename_i bm hbm
        exact derivePanics_false _ bm (h bm hbm).1 (h bm hbm).2

theorem rotatePanics_unencrypted (pc : PeerCrypto) (data : Bytes) (h : pc.unencrypted = true) : PeerCrypto.rotatePanics pc data = false := by
  unfold PeerCrypto.rotatePanics
  rw [if_pos h]

theorem rotatePanics_no_rot (pc : PeerCrypto) (data : Bytes) (h : pc.rot = none) : PeerCrypto.rotatePanics pc data = false := by
  unfold PeerCrypto.rotatePanics
  rw [h]
  split <;> rfl

/-- what the session layer may return for a well-formed session -/
def GoodOut (pc : PeerCrypto) : POutcome MsgResult → Prop
  | .panic => False
  | .err pc' e => (e = .cryptoInitFatal ∨ PendOK pc') ∧ (PeerOK pc → PeerOK pc')
  | .ok pc' _ res _ => PendOK pc' ∧ (PeerOK pc → PeerOK pc') ∧ (∀ p, res = .initialized p ∨ res = .initializedWithReply p → PeerOK pc')

theorem GoodOut.ok_of_peerOK {pc pc' : PeerCrypto} {out : Bytes} {res : MsgResult} {log : Init.SealLog} (h : PeerOK pc') :
    GoodOut pc (.ok pc' out res log) := ⟨h.pendOK, fun _ => h, fun _ _ => h⟩

theorem GoodOut.err_of_peerOK {pc pc' : PeerCrypto} {e : InitErr} (h : PeerOK pc') : GoodOut pc (.err pc' e) :=
  ⟨Or.inr h.pendOK, fun _ => h⟩

theorem GoodOut.ok_of_init {pc pc' : PeerCrypto} {out : Bytes} {res : MsgResult} {log : Init.SealLog} (hp : PendOK pc) (hi : pc'.init = pc.init)
    (hres : ∀ p, res ≠ .initialized p ∧ res ≠ .initializedWithReply p) : GoodOut pc (.ok pc' out res log) :=
  ⟨hp.of_init hi, fun h => h.of_init hi, fun p h => by rcases h with h | h; exact absurd h (hres p).1; exact absurd h (hres p).2⟩

theorem GoodOut.err_of_init {pc pc' : PeerCrypto} {e : InitErr} (hp : PendOK pc) (hi : pc'.init = pc.init) : GoodOut pc (.err pc' e) :=
  ⟨Or.inr (hp.of_init hi), fun h => h.of_init hi⟩

/-- the part of `handle_init_message` after a successful `handle_init`: `pc1` is the session with the new core installed -/
def successOut (pc1 : PeerCrypto) (core : Option Core) (isInitiator : Bool) (out1 payload : Bytes) (ilog : Init.SealLog) (rr : RotRand) :
    POutcome MsgResult :=
  if core.isNone then
    if !isInitiator then .ok pc1 out1 (.initialized payload) ilog
    else .ok pc1 out1 (.initializedWithReply payload) ilog
  else
    if !isInitiator then
      let side := PeerCrypto.initSide true rr.freshProp
      let m : Codec.RotMsg := PeerCrypto.rotMsgToBytes ⟨1, rr.freshProp, none⟩
      let plain := Generated.MESSAGE_TYPE_ROTATION :: Codec.writeRotMsg m
      match PeerCrypto.sealMsg { pc1 with rot := some side } plain rr.ct with
      | (pc2, .ok (bytes, log)) => .ok pc2 bytes (.initializedWithReply payload) (ilog ++ log)
      | (pc2, .error e) => .err pc2 e
    else
      .ok { pc1 with rot := some (PeerCrypto.initSide false 0) } out1 (.initializedWithReply payload) ilog

/-- the session after a successful `handle_init` -/
def successPc (pc : PeerCrypto) (ist' : InitSt) : PeerCrypto :=
  { pc with core := ist'.crypto, unencrypted := ist'.crypto.isNone, cipher := ist'.selected,
            master := (ist'.crypto.bind (fun c => c.slots[0]?.map (·.key))).getD 0,
            init := if ({ ist' with crypto := none } : InitSt).stage = Generated.CLOSING then none else some { ist' with crypto := none } }

theorem handleInitMessage_eq (env : CryptoEnv) (bodyOf : Init.BodyOf) (ok : Bytes → Bool) (pc : PeerCrypto) (w : Bytes) (rnd : Rand) (rr : RotRand) :
    PeerCrypto.handleInitMessage env bodyOf ok pc w rnd rr =
    match pc.init with
    | none => .err pc .state
    | some ist =>
      match Init.handleInit env bodyOf ok ist w rnd with
      | .panic => .panic
      | .err ist' e => .err { pc with init := some ist' } e
      | .ok ist' (out, res, ilog) =>
        match res with
        | .continue => .ok { pc with init := some ist' } (if out.isEmpty then [] else Generated.INIT_MESSAGE_FIRST_BYTE :: out) .reply ilog
        | .success payload isInitiator =>
          successOut (successPc pc ist') ist'.crypto isInitiator (if out.isEmpty then [] else Generated.INIT_MESSAGE_FIRST_BYTE :: out) payload ilog rr := by
  rfl

/-- every result of `successOut` carries the handshake object of `pc1`; it reports the completed handshake, and it fails only
    if the session cannot seal although it has a core -/
def SuccSpec (pc1 : PeerCrypto) (core : Option Core) (payload : Bytes) : POutcome MsgResult → Prop
  | .panic => False
  | .err pc' _ => pc'.init = pc1.init ∧ core.isNone = false ∧ pc1.unencrypted = false ∧ pc1.core = none
  | .ok pc' _ res _ => pc'.init = pc1.init ∧ (res = .initialized payload ∨ res = .initializedWithReply payload)

theorem successOut_cases (pc1 : PeerCrypto) (core : Option Core) (ini : Bool) (out1 payload : Bytes) (ilog : Init.SealLog) (rr : RotRand) :
    SuccSpec pc1 core payload (successOut pc1 core ini out1 payload ilog rr) := by
  unfold successOut
  split
  · split
    · exact ⟨rfl, Or.inl rfl⟩
    · exact ⟨rfl, Or.inr rfl⟩
  · rename_i hc
    split
    · simp only []
      split
      · rename_i pc2 bytes log hs
        exact ⟨(congrArg (fun x => x.1.init) hs).symm.trans (sealMsg_init _ _ _) |>.symm ▸ rfl, Or.inr rfl⟩
      · rename_i pc2 e hs
        have h2 : (PeerCrypto.sealMsg { pc1 with rot := some (PeerCrypto.initSide true rr.freshProp) }
            (Generated.MESSAGE_TYPE_ROTATION :: Codec.writeRotMsg (PeerCrypto.rotMsgToBytes ⟨1, rr.freshProp, none⟩)) rr.ct).2 = .error e := by
          rw [hs]
        obtain ⟨hu, hcn, _⟩ := sealMsg_err _ _ _ _ h2
        refine ⟨?_, by cases core <;> simp_all, hu, hcn⟩
        have := sealMsg_init { pc1 with rot := some (PeerCrypto.initSide true rr.freshProp) }
            (Generated.MESSAGE_TYPE_ROTATION :: Codec.writeRotMsg (PeerCrypto.rotMsgToBytes ⟨1, rr.freshProp, none⟩)) rr.ct
        rw [hs] at this
        exact this
    · exact ⟨rfl, Or.inr rfl⟩

theorem successPc_peerOK (pc : PeerCrypto) (ist' : InitSt) (hst : ist'.stage ≠ Generated.STAGE_PONG) : PeerOK (successPc pc ist') := by
  intro i hi
  unfold successPc at hi
  simp only at hi
  split at hi
  · cases hi
  · simp only [Option.some.injEq] at hi; subst hi; exact hst

/-- `handle_init_message` on a well-formed session -/
theorem handleInitMessage_good (env : CryptoEnv) (bodyOf : Init.BodyOf) (ok : Bytes → Bool) (pc : PeerCrypto) (w : Bytes) (rnd : Rand) (rr : RotRand)
    (hp : PendOK pc) : GoodOut pc (PeerCrypto.handleInitMessage env bodyOf ok pc w rnd rr) := by
  rw [handleInitMessage_eq]
  split
  · exact GoodOut.err_of_init hp rfl
  · rename_i ist hi
    have hg := handleInit_good env bodyOf ok ist w rnd (hp ist hi)
    generalize Init.handleInit env bodyOf ok ist w rnd = r at hg
    cases r with
    | panic => exact hg
    | err ist' e =>
      refine ⟨hg.1.imp id (fun h i hi' => ?_), fun hpeer i hi' => ?_⟩
      · simp only [Option.some.injEq] at hi'; subst hi'; exact h
      · simp only [Option.some.injEq] at hi'; subst hi'; exact hg.2 (hpeer ist hi)
    | ok ist' x =>
      obtain ⟨out, res, ilog⟩ := x
      cases res with
      | «continue» =>
        refine ⟨fun i hi' => ?_, fun hpeer i hi' => ?_, fun p h => by rcases h with h | h <;> cases h⟩
        · simp only [Option.some.injEq] at hi'; subst hi'; exact hg.1
        · simp only [Option.some.injEq] at hi'; subst hi'; exact hg.2.1 (hpeer ist hi)
      | success payload isInit =>
        have hpk := successPc_peerOK pc ist' (hg.2.2 payload isInit rfl)
        have hc := successOut_cases (successPc pc ist') ist'.crypto isInit (if out.isEmpty then [] else Generated.INIT_MESSAGE_FIRST_BYTE :: out) payload ilog rr
        simp only []
        generalize successOut (successPc pc ist') ist'.crypto isInit (if out.isEmpty then [] else Generated.INIT_MESSAGE_FIRST_BYTE :: out) payload ilog rr = r at hc
        cases r with
        | panic => exact hc
        | err pc' e => exact GoodOut.err_of_peerOK (hpk.of_init hc.1)
        | ok pc' o res log => exact GoodOut.ok_of_peerOK (hpk.of_init hc.1)

/-- what the session layer may return for the session of a pending handshake (no core, not unencrypted) -/
def FreshOut (ok : Bytes → Bool) : POutcome MsgResult → Prop
  | .panic => True
  | .err pc' _ => FreshPC pc'
  | .ok pc' _ res _ => (res = .reply ∧ FreshPC pc') ∨ ∃ p, (res = .initialized p ∨ res = .initializedWithReply p) ∧ ok p = true

theorem handleInitMessage_fresh (env : CryptoEnv) (bodyOf : Init.BodyOf) (ok : Bytes → Bool) (pc : PeerCrypto) (w : Bytes) (rnd : Rand) (rr : RotRand)
    (hf : FreshPC pc) : FreshOut ok (PeerCrypto.handleInitMessage env bodyOf ok pc w rnd rr) := by
  rw [handleInitMessage_eq]
  split
  · exact hf
  · rename_i ist hi
    cases hr : Init.handleInit env bodyOf ok ist w rnd with
    | panic => trivial
    | err ist' e => exact hf
    | ok ist' x =>
      obtain ⟨out, res, ilog⟩ := x
      cases res with
      | «continue» => exact Or.inl ⟨rfl, hf⟩
      | success payload isInit =>
        have hok := handleInit_success_ok env bodyOf ok ist ist' w rnd out payload isInit ilog hr
        have hc := successOut_cases (successPc pc ist') ist'.crypto isInit (if out.isEmpty then [] else Generated.INIT_MESSAGE_FIRST_BYTE :: out) payload ilog rr
        simp only []
        generalize successOut (successPc pc ist') ist'.crypto isInit (if out.isEmpty then [] else Generated.INIT_MESSAGE_FIRST_BYTE :: out) payload ilog rr = r at hc
        cases r with
        | panic => trivial
        | err pc' e =>
          obtain ⟨_, h1, _, h3⟩ := hc
          have h3' : ist'.crypto = none := h3
          rw [h3'] at h1
          cases h1
        | ok pc' o res log => exact Or.inr ⟨payload, hc.2, hok⟩

/-- `decrypt_message` -/
def decMsg (bodyOf : Init.BodyOf) (pc : PeerCrypto) (datagram : Bytes) : PeerCrypto × Except InitErr Bytes :=
  if pc.unencrypted then (pc, .ok datagram)
  else match pc.core with
    | none => (pc, .error .state)
    | some c =>
      let (c', r) := c.decrypt { hdr := datagram.take 8, body := bodyOf (datagram.drop 8) }
      match r with
      | .ok p => ({ pc with core := some c' }, .ok p)
      | .error _ => ({ pc with core := some c' }, .error .crypto)

theorem handleMessage_eq (env : CryptoEnv) (bodyOf : Init.BodyOf) (ok : Bytes → Bool) (pc : PeerCrypto) (datagram tail : Bytes) (rnd : Rand) (rr : RotRand) :
    PeerCrypto.handleMessage env bodyOf ok pc datagram tail rnd rr =
    match datagram with
    | [] => .err pc .state
    | b0 :: rest =>
      if b0 = Generated.INIT_MESSAGE_FIRST_BYTE then
        if rest.isEmpty then .err pc .parse
        else PeerCrypto.handleInitMessage env bodyOf ok pc rest rnd rr
      else
        match decMsg bodyOf pc (b0 :: rest) with
        | (pc1, .error e) => .err pc1 e
        | (pc1, .ok plain) =>
          match plain with
          | [] => .panic
          | ty :: body =>
            if ty = Generated.MESSAGE_TYPE_ROTATION then
              if PeerCrypto.rotatePanics pc1 (body ++ (if pc1.unencrypted then tail else [])) then .panic
              else match PeerCrypto.handleRotate pc1 (body ++ (if pc1.unencrypted then tail else [])) rr with
              | (pc2, .ok ()) => .ok pc2 [] .none []
              | (pc2, .error e) => .err pc2 e
            else .ok pc1 [] (.message ty body) [] := by
  cases datagram with
  | nil => rfl
  | cons b0 rest => rfl

theorem decMsg_init (bodyOf : Init.BodyOf) (pc : PeerCrypto) (d : Bytes) : (decMsg bodyOf pc d).1.init = pc.init := by
  unfold decMsg
  split
  · rfl
  · split
    · rfl
    · simp only []
      split <;> rfl

theorem decMsg_fresh (bodyOf : Init.BodyOf) (pc : PeerCrypto) (d : Bytes) (hf : FreshPC pc) : decMsg bodyOf pc d = (pc, .error .state) := by
  unfold decMsg
  rw [hf.1, hf.2]
  rfl

theorem decMsg_nonempty (bodyOf : Init.BodyOf) (pc : PeerCrypto) (d plain : Bytes) (hb : NonEmptySeals bodyOf) (hd : d ≠ [])
    (h : (decMsg bodyOf pc d).2 = .ok plain) : plain ≠ [] := by
  unfold decMsg at h
  split at h
  · simp only [Except.ok.injEq] at h
    rw [← h]; exact hd
  · split at h
    · cases h
    · rename_i c hc
      simp only [] at h
      split at h
      · rename_i p hp
        simp only [Except.ok.injEq] at h
        subst h
        obtain ⟨_, _, k, _, hbody⟩ := VpnCloud.Proofs.C02.accepted_is_genuine c _ p hp
        exact hb _ _ _ _ hbody
      · cases h

/-- a rotation message that `decrypt_message` hands over does not reach a panicking `derive_key`, given that genuine seals of
    rotation messages carry 32-byte keys (plain sessions ignore rotation messages) -/
theorem decMsg_rot_ok (bodyOf : Init.BodyOf) (pc pc1 : PeerCrypto) (d body tail : Bytes) (hv : ValidRotKeys bodyOf)
    (h : decMsg bodyOf pc d = (pc1, .ok (Generated.MESSAGE_TYPE_ROTATION :: body))) :
    PeerCrypto.rotatePanics pc1 (body ++ (if pc1.unencrypted then tail else [])) = false := by
  unfold decMsg at h
  split at h
  · rename_i hu
    simp only [Prod.mk.injEq] at h
    rw [← h.1]
    exact rotatePanics_unencrypted pc _ hu
  · rename_i hu
    split at h
    · cases h
    · rename_i c hc
      simp only [] at h
      split at h
      · rename_i p hp
        simp only [Prod.mk.injEq, Except.ok.injEq] at h
        obtain ⟨h1, h2⟩ := h
        subst h2
        obtain ⟨_, _, k, _, hbody⟩ := VpnCloud.Proofs.C02.accepted_is_genuine c _ _ hp
        subst h1
        simp only [hu, Bool.false_eq_true, if_false, List.append_nil]
        exact rotatePanics_of_keysOK _ body (hv _ _ _ _ hbody)
      · cases h

/-- `handle_message` on a well-formed session: no panic (given that genuine seals are not empty and that genuine seals of rotation
    messages carry 32-byte keys), the session stays well-formed unless the error is fatal, a session that does not await a pong does not
    come to await one -/
theorem handleMessage_good (env : CryptoEnv) (bodyOf : Init.BodyOf) (ok : Bytes → Bool) (pc : PeerCrypto) (datagram tail : Bytes) (rnd : Rand) (rr : RotRand)
    (hb : NonEmptySeals bodyOf) (hv : ValidRotKeys bodyOf) (hp : PendOK pc) : GoodOut pc (PeerCrypto.handleMessage env bodyOf ok pc datagram tail rnd rr) := by
  rw [handleMessage_eq]
  split
  · exact GoodOut.err_of_init hp rfl
  · rename_i b0 rest
    split
    · split
      · exact GoodOut.err_of_init hp rfl
      · exact handleInitMessage_good env bodyOf ok pc rest rnd rr hp
    · have hi := decMsg_init bodyOf pc (b0 :: rest)
      have hne := decMsg_nonempty bodyOf pc (b0 :: rest)
      rcases hd : decMsg bodyOf pc (b0 :: rest) with ⟨pc1, r⟩
      rw [hd] at hi hne
      cases r with
      | error e => exact GoodOut.err_of_init hp hi
      | ok plain =>
        cases plain with
        | nil => exact absurd rfl (hne [] hb (by simp) rfl)
        | cons ty body =>
          simp only []
          split
          · rename_i hty
            subst hty
            rw [decMsg_rot_ok bodyOf pc pc1 (b0 :: rest) body tail hv hd]
            simp only [Bool.false_eq_true, if_false]
            have hr := handleRotate_init pc1 (body ++ (if pc1.unencrypted then tail else [])) rr
            rcases hrot : PeerCrypto.handleRotate pc1 (body ++ (if pc1.unencrypted then tail else [])) rr with ⟨pc2, r2⟩
            rw [hrot] at hr
            cases r2 with
            | error e => exact GoodOut.err_of_init hp (hr.trans hi)
            | ok u => exact GoodOut.ok_of_init hp (hr.trans hi) (fun p => ⟨(by intro h; cases h), (by intro h; cases h)⟩)
          · exact GoodOut.ok_of_init hp hi (fun p => ⟨(by intro h; cases h), (by intro h; cases h)⟩)

theorem handleMessage_fresh (env : CryptoEnv) (bodyOf : Init.BodyOf) (ok : Bytes → Bool) (pc : PeerCrypto) (datagram tail : Bytes) (rnd : Rand) (rr : RotRand)
    (hf : FreshPC pc) : FreshOut ok (PeerCrypto.handleMessage env bodyOf ok pc datagram tail rnd rr) := by
  rw [handleMessage_eq]
  split
  · exact hf
  · rename_i b0 rest
    split
    · split
      · exact hf
      · exact handleInitMessage_fresh env bodyOf ok pc rest rnd rr hf
    · rw [decMsg_fresh bodyOf pc _ hf]
      exact hf

/-! ## the seals a node produces are not empty -/

/-- every genuine seal recorded in the log has a non-empty plaintext -/
def LogNE (log : Init.SealLog) : Prop := ∀ ct b, (ct, b) ∈ log → ∀ k n p, b = .sealed k n p → p ≠ []

theorem logNE_nil : LogNE [] := fun _ _ h => by cases h

theorem LogNE.append {l1 l2 : Init.SealLog} (h1 : LogNE l1) (h2 : LogNE l2) : LogNE (l1 ++ l2) := by
  intro ct b hm
  rcases List.mem_append.1 hm with h | h
  · exact h1 ct b h
  · exact h2 ct b h

theorem core_encrypt_body (c : Core) (plain : Bytes) (k : KeyRef) (n : Nat) (p : Bytes)
    (h : (c.encrypt plain).2.body = .sealed k n p) : p = plain := by
  unfold Core.encrypt at h
  split at h
  · cases h
  · simp only [Body.sealed.injEq] at h
    exact h.2.2.symm

theorem sealMsg_log (pc : PeerCrypto) (plain ct bytes : Bytes) (log : Init.SealLog)
    (h : (PeerCrypto.sealMsg pc plain ct).2 = .ok (bytes, log)) (hp : plain ≠ []) : LogNE log := by
  unfold PeerCrypto.sealMsg at h
  split at h
  · simp only [Except.ok.injEq, Prod.mk.injEq] at h
    rw [← h.2]; exact logNE_nil
  · split at h
    · cases h
    · rename_i c hc
      simp only [Except.ok.injEq, Prod.mk.injEq] at h
      rw [← h.2]
      intro ct' b hm k n p hb
      simp only [List.mem_singleton, Prod.mk.injEq] at hm
      rw [hm.2] at hb
      rw [core_encrypt_body c plain k n p hb]
      exact hp

/-- the handshake objects of a session carry a non-empty own payload -/
def PayOK (pc : PeerCrypto) : Prop := ∀ i, pc.init = some i → i.payload ≠ []

theorem PayOK.of_init {pc pc' : PeerCrypto} (h : PayOK pc) (hi : pc'.init = pc.init) : PayOK pc' := by
  intro i h'; rw [hi] at h'; exact h i h'

theorem encryptPayload_payload (st : InitSt) (rnd : Rand) : (Init.encryptPayload st rnd).1.payload = st.payload := by
  rw [encryptPayload_fst]

theorem encryptPayload_log (st : InitSt) (rnd : Rand) (hp : st.payload ≠ []) : LogNE (Init.encryptPayload st rnd).2.2 := by
  unfold Init.encryptPayload
  split
  · rename_i c hc
    intro ct' b hm k n p hb
    simp only [List.mem_singleton, Prod.mk.injEq] at hm
    rw [hm.2] at hb
    rw [core_encrypt_body c st.payload k n p hb]
    exact hp
  · exact logNE_nil

/-- the state and the log `send_message` works with, before the message is written -/
theorem init_sendMessage_core (env : CryptoEnv) (st : InitSt) (stage : Nat) (rnd : Rand) :
    ((Init.sendMessage env st stage rnd).1.payload = st.payload) ∧
    ((Init.sendMessage env st stage rnd).2.2 = [] ∨ (Init.sendMessage env st stage rnd).2.2 = (Init.encryptPayload st rnd).2.2) := by
  unfold Init.sendMessage
  split
  rename_i st1 msg log heq
  show st1.payload = st.payload ∧ (log = [] ∨ log = (Init.encryptPayload st rnd).2.2)
  split at heq
  · cases heq; exact ⟨rfl, Or.inl rfl⟩
  · split at heq
    · split at heq
      rename_i s p l he
      cases heq
      have h1 := encryptPayload_payload st rnd
      rw [he] at h1
      exact ⟨h1, Or.inr (by rw [he])⟩
    · split at heq
      rename_i s p l he
      cases heq
      have h1 := encryptPayload_payload st rnd
      rw [he] at h1
      exact ⟨h1, Or.inr (by rw [he])⟩

theorem init_sendMessage_payload (env : CryptoEnv) (st : InitSt) (stage : Nat) (rnd : Rand) :
    (Init.sendMessage env st stage rnd).1.payload = st.payload := (init_sendMessage_core env st stage rnd).1

theorem init_sendMessage_log (env : CryptoEnv) (st : InitSt) (stage : Nat) (rnd : Rand) (hp : st.payload ≠ []) :
    LogNE (Init.sendMessage env st stage rnd).2.2 := by
  rcases (init_sendMessage_core env st stage rnd).2 with h | h
  · rw [h]; exact logNE_nil
  · rw [h]; exact encryptPayload_log st rnd hp

/-- `handle_init` never changes the own payload of the handshake object, and what it seals is that payload -/
def PayRes (st : InitSt) : Res → Prop
  | .panic => True
  | .err st' _ => st'.payload = st.payload
  | .ok st' (_, _, log) => st'.payload = st.payload ∧ (st.payload ≠ [] → LogNE log)

theorem decryptPayload_payload (s s' : InitSt) (bodyOf : Init.BodyOf) (data : Bytes) (r : Option Bytes)
    (h : Init.decryptPayload s bodyOf data = (s', r)) : s'.payload = s.payload := by
  obtain ⟨cr, rfl⟩ := decryptPayload_frame s s' bodyOf data r h
  rfl

theorem pongSt_payload (st0 : InitSt) (own eb hb : Bytes) (sel : Option Cipher) (rnd : Rand) :
    (pongSt st0 own eb hb sel rnd).payload = st0.payload := by cases sel <;> rfl

theorem handleMsg_pay (env : CryptoEnv) (bodyOf : Init.BodyOf) (ok : Bytes → Bool) (st0 : InitSt) (msg : InitMsg) (rnd : Rand) :
    PayRes st0 (handleMsg env bodyOf ok st0 msg rnd) := by
  cases msg with
  | ping h ecdh algos =>
    simp only [handleMsg]
    split
    · exact rfl
    · split
      · unfold PayRes
        dsimp only
        refine ⟨?_, fun hp => ?_⟩
        · exact init_sendMessage_payload env _ Generated.STAGE_PONG rnd
        · exact init_sendMessage_log env _ Generated.STAGE_PONG rnd hp
      · unfold PayRes
        dsimp only
        refine ⟨?_, fun hp => ?_⟩
        · exact init_sendMessage_payload env _ Generated.STAGE_PONG rnd
        · exact init_sendMessage_log env _ Generated.STAGE_PONG rnd hp
  | pong h ecdh algos payload =>
    simp only [handleMsg]
    split
    · trivial
    · split
      · exact rfl
      · split
        · rename_i st5 hd
          exact (decryptPayload_payload _ _ _ _ _ hd).trans (pongSt_payload ..)
        · rename_i st5 p hd
          have h5 : st5.payload = st0.payload := (decryptPayload_payload _ _ _ _ _ hd).trans (pongSt_payload ..)
          split
          · exact h5
          · unfold PayRes
            dsimp only
            refine ⟨?_, fun hp => ?_⟩
            · exact (init_sendMessage_payload env st5 Generated.STAGE_PENG rnd).trans h5
            · exact init_sendMessage_log env st5 Generated.STAGE_PENG rnd (by rw [h5]; exact hp)
  | peng h payload =>
    simp only [handleMsg]
    split
    · rename_i st2 hd
      exact decryptPayload_payload { st0 with retries := 0 } _ _ _ _ hd
    · rename_i st2 p hd
      split
      · exact decryptPayload_payload { st0 with retries := 0 } _ _ _ _ hd
      · exact ⟨decryptPayload_payload { st0 with retries := 0 } st2 _ _ _ hd, fun _ => logNE_nil⟩

theorem handleInit_pay (env : CryptoEnv) (bodyOf : Init.BodyOf) (ok : Bytes → Bool) (st : InitSt) (w : Bytes) (rnd : Rand) :
    PayRes st (Init.handleInit env bodyOf ok st w rnd) := by
  rw [handleInit_eq]
  split
  · exact rfl
  · split
    · exact rfl
    · split
      · rename_i o ho
        rcases stageCheck_inr' _ _ _ _ ho with ⟨x, rfl⟩ | rfl
        · exact ⟨rfl, fun _ => logNE_nil⟩
        · exact rfl
      · trivial
      · rename_i st0 ho
        rcases stageCheck_inl _ _ _ _ ho with ⟨h1, _⟩ | ⟨h1, _⟩
        · simp only [Option.some.injEq] at h1
          subst h1
          exact handleMsg_pay ..
        · simp only [Option.some.injEq] at h1
          subst h1
          exact handleMsg_pay env bodyOf ok { st with stage := Generated.STAGE_PING, last := none, ecdh := none } _ rnd

theorem init_everySecond_payload (st : InitSt) : (Init.everySecond st).1.payload = st.payload := by
  unfold Init.everySecond
  repeat' split
  all_goals rfl

/-- what the session layer returns for a session whose handshake object has a non-empty payload -/
def PayOut (pc : PeerCrypto) : POutcome MsgResult → Prop
  | .panic => True
  | .err pc' _ => PayOK pc → PayOK pc'
  | .ok pc' _ _ log => PayOK pc → (PayOK pc' ∧ LogNE log)

def SuccLog (ilog : Init.SealLog) : POutcome MsgResult → Prop
  | .ok _ _ _ log => LogNE ilog → LogNE log
  | _ => True

theorem successOut_log (pc1 : PeerCrypto) (core : Option Core) (ini : Bool) (out1 payload : Bytes) (ilog : Init.SealLog) (rr : RotRand) :
    SuccLog ilog (successOut pc1 core ini out1 payload ilog rr) := by
  unfold successOut
  split
  · split
    · exact id
    · exact id
  · split
    · simp only []
      split
      · rename_i pc2 bytes log hs
        intro hi
        exact hi.append (sealMsg_log _ _ _ bytes log (congrArg Prod.snd hs) (by simp))
      · trivial
    · exact id

theorem successPc_payOK (pc : PeerCrypto) (ist' : InitSt) (hp : ist'.payload ≠ []) : PayOK (successPc pc ist') := by
  intro i hi
  unfold successPc at hi
  simp only at hi
  split at hi
  · cases hi
  · simp only [Option.some.injEq] at hi; subst hi; exact hp

theorem handleInitMessage_pay (env : CryptoEnv) (bodyOf : Init.BodyOf) (ok : Bytes → Bool) (pc : PeerCrypto) (w : Bytes) (rnd : Rand) (rr : RotRand) :
    PayOut pc (PeerCrypto.handleInitMessage env bodyOf ok pc w rnd rr) := by
  rw [handleInitMessage_eq]
  split
  · exact id
  · rename_i ist hi
    have hg := handleInit_pay env bodyOf ok ist w rnd
    generalize Init.handleInit env bodyOf ok ist w rnd = r at hg
    cases r with
    | panic => trivial
    | err ist' e =>
      intro hp i hi'
      simp only [Option.some.injEq] at hi'
      subst hi'
      rw [hg]; exact hp ist hi
    | ok ist' x =>
      obtain ⟨out, res, ilog⟩ := x
      cases res with
      | «continue» =>
        intro hp
        refine ⟨fun i hi' => ?_, hg.2 (hp ist hi)⟩
        simp only [Option.some.injEq] at hi'
        subst hi'
        rw [hg.1]; exact hp ist hi
      | success payload isInit =>
        have hc := successOut_cases (successPc pc ist') ist'.crypto isInit (if out.isEmpty then [] else Generated.INIT_MESSAGE_FIRST_BYTE :: out) payload ilog rr
        have hl := successOut_log (successPc pc ist') ist'.crypto isInit (if out.isEmpty then [] else Generated.INIT_MESSAGE_FIRST_BYTE :: out) payload ilog rr
        simp only []
        generalize successOut (successPc pc ist') ist'.crypto isInit (if out.isEmpty then [] else Generated.INIT_MESSAGE_FIRST_BYTE :: out) payload ilog rr = r at hc hl
        cases r with
        | panic => trivial
        | err pc' e =>
          intro hp
          exact (successPc_payOK pc ist' (by rw [hg.1]; exact hp ist hi)).of_init hc.1
        | ok pc' o res log =>
          intro hp
          exact ⟨(successPc_payOK pc ist' (by rw [hg.1]; exact hp ist hi)).of_init hc.1, hl (hg.2 (hp ist hi))⟩

theorem handleMessage_pay (env : CryptoEnv) (bodyOf : Init.BodyOf) (ok : Bytes → Bool) (pc : PeerCrypto) (datagram tail : Bytes) (rnd : Rand) (rr : RotRand) :
    PayOut pc (PeerCrypto.handleMessage env bodyOf ok pc datagram tail rnd rr) := by
  rw [handleMessage_eq]
  split
  · exact id
  · rename_i b0 rest
    split
    · split
      · exact id
      · exact handleInitMessage_pay env bodyOf ok pc rest rnd rr
    · have hi := decMsg_init bodyOf pc (b0 :: rest)
      rcases hd : decMsg bodyOf pc (b0 :: rest) with ⟨pc1, r⟩
      rw [hd] at hi
      cases r with
      | error e => exact fun hp => hp.of_init hi
      | ok plain =>
        cases plain with
        | nil => trivial
        | cons ty body =>
          simp only []
          split
          · by_cases hpan : PeerCrypto.rotatePanics pc1 (body ++ (if pc1.unencrypted then tail else [])) = true
            · rw [if_pos hpan]; trivial
            rw [if_neg hpan]
            have hr := handleRotate_init pc1 (body ++ (if pc1.unencrypted then tail else [])) rr
            rcases hrot : PeerCrypto.handleRotate pc1 (body ++ (if pc1.unencrypted then tail else [])) rr with ⟨pc2, r2⟩
            rw [hrot] at hr
            cases r2 with
            | error e => exact fun hp => hp.of_init (hr.trans hi)
            | ok u => exact fun hp => ⟨hp.of_init (hr.trans hi), logNE_nil⟩
          · exact fun hp => ⟨hp.of_init hi, logNE_nil⟩

theorem sendMessage_pay (pc : PeerCrypto) (ty : Nat) (body ct bytes : Bytes) (log : Init.SealLog)
    (h : (PeerCrypto.sendMessage pc ty body ct).2 = .ok (bytes, log)) : LogNE log :=
  sealMsg_log pc (ty :: body) ct bytes log h (by simp)

/-! ## `every_second` of a session, in stages -/

def tick1 (pc : PeerCrypto) : PeerCrypto × Except InitErr Bytes :=
  let pc0 := { pc with core := pc.core.map Core.everySecond }
  match pc0.init with
  | some ist =>
    let (ist', r) := Init.everySecond ist
    ({ pc0 with init := some ist' }, r)
  | none => (pc0, .ok [])

def tick2 (pc1 : PeerCrypto) : PeerCrypto :=
  { pc1 with init := match pc1.init with
                  | some i => if i.stage = Generated.CLOSING then none else some i
                  | none => none }

def tickRot (pc2 : PeerCrypto) (rr : RotRand) : POutcome MsgResult :=
  match pc2.rot with
  | none => .ok pc2 [] .none []
  | some sd =>
    let cnt := pc2.rotateCounter + 1
    if cnt < Generated.ROTATE_INTERVAL then .ok { pc2 with rotateCounter := cnt } [] .none []
    else
      let rotated := sd.proposed.isNone && sd.pending.isSome
      let (sd', m) := Rot.cycle sd rr.freshProp
      let pc3 := { pc2 with rotateCounter := 0, rot := some sd' }
      let pc4 := if rotated then PeerCrypto.installKey pc3 (sd'.slots (sd'.id % 4)) sd'.id false rr.starts else pc3
      match m with
      | none => .ok pc4 [] .none []
      | some m =>
        let plain := Generated.MESSAGE_TYPE_ROTATION :: Codec.writeRotMsg (PeerCrypto.rotMsgToBytes m)
        match PeerCrypto.sealMsg pc4 plain rr.ct with
        | (pc5, .ok (bytes, log)) => .ok pc5 bytes .reply log
        | (pc5, .error e) => .err pc5 e

theorem everySecond_eq (pc : PeerCrypto) (rr : RotRand) :
    PeerCrypto.everySecond pc rr =
    match tick1 pc with
    | (pc1, .error e) => .err pc1 e
    | (pc1, .ok out) =>
      if !out.isEmpty then .ok (tick2 pc1) (Generated.INIT_MESSAGE_FIRST_BYTE :: out) .reply []
      else tickRot (tick2 pc1) rr := by
  rfl

def TickSpec (pc : PeerCrypto) : POutcome MsgResult → Prop
  | .panic => False
  | .err _ _ => True
  | .ok pc' _ _ log => pc'.init = pc.init ∧ (FreshPC pc → FreshPC pc') ∧ LogNE log

theorem sealMsg_fresh (pc : PeerCrypto) (plain ct : Bytes) (hf : FreshPC pc) : PeerCrypto.sealMsg pc plain ct = (pc, .error .state) := by
  unfold PeerCrypto.sealMsg
  rw [hf.1, hf.2]
  rfl

theorem sealMsg_ok_spec (pc4 pc5 : PeerCrypto) (plain ct bytes : Bytes) (log : Init.SealLog)
    (hs : PeerCrypto.sealMsg pc4 plain ct = (pc5, .ok (bytes, log))) : pc5.init = pc4.init ∧ ¬ FreshPC pc4 := by
  refine ⟨?_, fun hf => ?_⟩
  · have := sealMsg_init pc4 plain ct
    rw [hs] at this
    exact this
  · rw [sealMsg_fresh _ _ _ hf] at hs
    cases hs

theorem installKey_freshPC (pc : PeerCrypto) (key : Rot.Key) (id : Nat) (use : Bool) (starts : List Nat) (hf : FreshPC pc) :
    FreshPC (PeerCrypto.installKey pc key id use starts) := by
  rw [installKey_fresh _ _ _ _ _ hf.2]; exact hf

theorem tickRot_spec (pc2 : PeerCrypto) (rr : RotRand) : TickSpec pc2 (tickRot pc2 rr) := by
  unfold tickRot
  split
  · exact ⟨rfl, id, logNE_nil⟩
  · simp only []
    split
    · exact ⟨rfl, id, logNE_nil⟩
    · repeat' split
      all_goals first
        | exact ⟨rfl, id, logNE_nil⟩
        | trivial
        | skip
      · refine ⟨installKey_init .., fun hf => ?_, logNE_nil⟩
        exact installKey_freshPC _ _ _ _ _ ⟨hf.1, hf.2⟩
      · rename_i hs
        obtain ⟨h1, h2⟩ := sealMsg_ok_spec _ _ _ _ _ _ hs
        refine ⟨h1.trans ?_, fun hf => absurd ?_ h2, sealMsg_log _ _ _ _ _ (congrArg Prod.snd hs) (by simp)⟩
        · split
          · exact installKey_init ..
          · rfl
        · split
          · exact installKey_freshPC _ _ _ _ _ ⟨hf.1, hf.2⟩
          · exact hf

theorem tick1_init (pc : PeerCrypto) : (tick1 pc).1.init = pc.init.map (fun i => (Init.everySecond i).1) := by
  unfold tick1
  cases hi : pc.init with
  | none => rfl
  | some ist => rfl

theorem tick1_fresh (pc : PeerCrypto) (hf : FreshPC pc) : FreshPC (tick1 pc).1 := by
  unfold tick1
  cases hi : pc.init with
  | none => exact ⟨hf.1, by simp [hf.2]⟩
  | some ist => exact ⟨hf.1, by simp [hf.2]⟩

/-- the handshake object of a session after `every_second` -/
def tickInit (pc : PeerCrypto) : Option InitSt :=
  match pc.init with
  | some ist => if (Init.everySecond ist).1.stage = Generated.CLOSING then none else some (Init.everySecond ist).1
  | none => none

theorem tick2_init (pc : PeerCrypto) : (tick2 (tick1 pc).1).init = tickInit pc := by
  unfold tick2 tickInit
  simp only [tick1_init]
  cases pc.init <;> rfl

/-- `every_second` of a session: no panic; if the session survives, its handshake object is `tickInit`, and a session without core keeps being one -/
def TickOut (pc : PeerCrypto) : POutcome MsgResult → Prop
  | .panic => False
  | .err _ _ => True
  | .ok pc' _ _ log => pc'.init = tickInit pc ∧ (FreshPC pc → FreshPC pc') ∧ LogNE log

theorem everySecond_spec (pc : PeerCrypto) (rr : RotRand) : TickOut pc (PeerCrypto.everySecond pc rr) := by
  rw [everySecond_eq]
  have h2 := tick2_init pc
  have hf1 := tick1_fresh pc
  rcases h1 : tick1 pc with ⟨pc1, r⟩
  rw [h1] at h2 hf1
  cases r with
  | error e => trivial
  | ok out =>
    simp only []
    split
    · exact ⟨h2, fun hf => hf1 hf, logNE_nil⟩
    · have := tickRot_spec (tick2 pc1) rr
      generalize tickRot (tick2 pc1) rr = r at this
      cases r with
      | panic => exact this
      | err _ _ => trivial
      | ok pc' o res log => exact ⟨this.1.trans h2, fun hf => this.2.1 (hf1 hf), this.2.2⟩

theorem tickInit_pendOK (pc : PeerCrypto) (h : PendOK pc) : ∀ i, tickInit pc = some i → InitWF i := by
  intro i hi
  unfold tickInit at hi
  split at hi
  · rename_i ist hist
    split at hi
    · cases hi
    · simp only [Option.some.injEq] at hi
      subst hi
      intro hp
      have hfr := init_everySecond_frame ist
      rw [hfr.2]
      rcases hfr.1 with h1 | h1
      · exact h ist hist (h1 ▸ hp)
      · rw [h1] at hp; exact absurd hp (by decide)
  · cases hi

theorem tickInit_peerOK (pc : PeerCrypto) (h : PeerOK pc) : ∀ i, tickInit pc = some i → i.stage ≠ Generated.STAGE_PONG := by
  intro i hi
  unfold tickInit at hi
  split at hi
  · rename_i ist hist
    split at hi
    · cases hi
    · simp only [Option.some.injEq] at hi
      subst hi
      have hfr := init_everySecond_frame ist
      rcases hfr.1 with h1 | h1
      · rw [h1]; exact h ist hist
      · rw [h1]; decide
  · cases hi

theorem tickInit_payOK (pc : PeerCrypto) (h : PayOK pc) : ∀ i, tickInit pc = some i → i.payload ≠ [] := by
  intro i hi
  unfold tickInit at hi
  split at hi
  · rename_i ist hist
    split at hi
    · cases hi
    · simp only [Option.some.injEq] at hi
      subst hi
      rw [init_everySecond_payload]
      exact h ist hist
  · cases hi

/-! ## a generic node invariant

  `Q` is required of the session of every pending handshake, `R` of the session of every peer; if `T` holds the table is
  required to name only peers, if `P` holds the panic flag of the step is required to be off, if `L` holds the seals logged
  by the step are required to have non-empty plaintexts.  The building blocks of the
  node model are traversed once for this generic invariant; C12 and C08 instantiate it. -/

structure SI where
  Q : PeerCrypto → Prop
  R : PeerCrypto → Prop
  T : Prop
  P : Prop
  /-- the log of genuine seals of the step is tracked: every seal has a non-empty plaintext -/
  L : Prop
  /-- the session `connect_sock` creates -/
  q_new : ∀ (env : CryptoEnv) (n : Node) (hash : Bytes) (rnd : Rand) (ist : InitSt),
    (newAttempt n hash).init = some ist → Q { newAttempt n hash with init := some (Init.sendPing env ist rnd).1 }
  /-- the throw-away responder -/
  q_att : ∀ (n : Node) (hash : Bytes), Q (newAttempt n hash)
  /-- sealing a message -/
  r_seal : ∀ (pc : PeerCrypto) (ty : Nat) (body ct : Bytes), R pc → R (PeerCrypto.sendMessage pc ty body ct).1
  /-- the predicate on the seal log of a step that is tracked when `L` holds (default: every seal has a non-empty plaintext) -/
  LG : Init.SealLog → Prop := LogNE
  lg_nil : LG [] := by exact logNE_nil
  lg_append : ∀ l1 l2 : Init.SealLog, LG l1 → LG l2 → LG (l1 ++ l2) := by exact fun _ _ h1 h2 => LogNE.append h1 h2
  /-- what the node seals with `send_message`: `type :: body` with a type other than ROTATION (`assert_ne!` in the Rust) -/
  lg_send : ∀ (pc : PeerCrypto) (ty : Nat) (body ct bytes : Bytes) (log : Init.SealLog), ty ≠ Generated.MESSAGE_TYPE_ROTATION →
    (PeerCrypto.sendMessage pc ty body ct).2 = .ok (bytes, log) → LG log := by
      exact fun pc ty body ct bytes log _ h => sendMessage_pay pc ty body ct bytes log h

/-- the invariant, with the pending handshake of the address `x` (if any) exempt from `Q` -/
def GIx (S : SI) (x : Option NAddr) (c : Ctx) : Prop :=
  (∀ a pc, (a, pc) ∈ c.node.pending → some a ≠ x → S.Q pc) ∧
  (∀ a p, (a, p) ∈ c.node.peers → S.R p.crypto) ∧
  (S.T → TP (c.node.peers.map (·.1)) c.node.table) ∧
  (S.P → c.panicked = false) ∧
  (S.L → S.LG c.log)

abbrev GI (S : SI) (c : Ctx) : Prop := GIx S none c

theorem GIx.weaken {S : SI} {x : Option NAddr} {c : Ctx} (h : GI S c) : GIx S x c :=
  ⟨fun a pc hm _ => h.1 a pc hm (by simp), h.2⟩

theorem GIx.send {S : SI} {x : Option NAddr} {c : Ctx} (h : GIx S x c) (a : NAddr) (b : Bytes) : GIx S x (c.send a b) := h
theorem GIx.addLog {S : SI} {x : Option NAddr} {c : Ctx} (h : GIx S x c) (l : Init.SealLog) (hl : S.L → S.LG l) : GIx S x (addLog l c) :=
  ⟨h.1, h.2.1, h.2.2.1, h.2.2.2.1, fun hL => S.lg_append _ _ (h.2.2.2.2 hL) (hl hL)⟩
theorem GIx.countInvalid {S : SI} {x : Option NAddr} {c : Ctx} (h : GIx S x c) : GIx S x (countInvalid c) := h

theorem connectSock_GI (S : SI) (x : Option NAddr) (env : CryptoEnv) (o : Oracle) (c : Ctx) (a : NAddr) (h : GIx S x c) :
    GIx S x (connectSock env o c a) := by
  unfold connectSock
  simp only []
  split
  · exact h
  · split
    · exact h
    · rename_i ist hist
      refine ⟨?_, h.2.1, h.2.2.1, h.2.2.2⟩
      intro b pc hb hne
      rcases mem_insertA hb with heq | hb
      · cases heq
        exact S.q_new env c.node _ _ ist hist
      · exact h.1 b pc hb hne

theorem connect_GI (S : SI) (x : Option NAddr) (env : CryptoEnv) (o : Oracle) (c : Ctx) (l : List NAddr) (h : GIx S x c) :
    GIx S x (connect env o c l) := by
  unfold connect
  simp only []
  split
  · exact h
  · exact foldl_inv (GIx S x) _ (fun c a hc => connectSock_GI S x env o c a hc) _ _ h

theorem connectToPeers_GI (S : SI) (x : Option NAddr) (env : CryptoEnv) (o : Oracle) (c : Ctx) (l : List PeerInfo) (h : GIx S x c) :
    GIx S x (connectToPeers env o c l) := by
  unfold connectToPeers
  apply foldl_inv (GIx S x) _ _ _ _ h
  intro c p hc
  simp only []
  split
  · exact hc
  · split
    · split
      · exact ⟨hc.1, hc.2.1, hc.2.2.1, hc.2.2.2⟩
      · split
        · exact hc
        · exact connect_GI S x env o c _ hc
    · exact connect_GI S x env o c _ hc

/-- replacing the entry of a peer by one with the same session -/
theorem GIx.insertPeer {S : SI} {x : Option NAddr} {c : Ctx} (h : GIx S x c) {a : NAddr} {p q : Peer} (hp : lookupA c.node.peers a = some p)
    (hq : S.R p.crypto → S.R q.crypto) (t : Table) (ht : S.T → TP (c.node.peers.map (·.1)) t) :
    GIx S x { c with node := { c.node with peers := insertA c.node.peers a q, table := t } } := by
  refine ⟨h.1, ?_, ?_, h.2.2.2⟩
  · intro b r hb
    rcases mem_insertA hb with heq | hb
    · cases heq
      exact hq (h.2.1 a p (lookupA_some_mem hp))
    · exact h.2.1 b r hb
  · intro hT
    show TP ((insertA c.node.peers a q).map (·.1)) t
    rw [insertA_keys_of_some _ _ _ _ hp]
    exact ht hT

theorem updatePeerInfo_GI (S : SI) (x : Option NAddr) (env : CryptoEnv) (o : Oracle) (c : Ctx) (now : Int) (a : NAddr) (info : Option NodeInfo)
    (h : GIx S x c) : GIx S x (updatePeerInfo env o c now a info) := by
  unfold updatePeerInfo
  simp only []
  split
  · exact h
  · rename_i p hp
    have ha : a ∈ c.node.peers.map (·.1) := mem_key (lookupA_some_mem hp)
    cases info with
    | none =>
      refine h.insertPeer hp ?_ _ h.2.2.1
      exact fun hr => hr
    | some i =>
      apply connectToPeers_GI
      refine h.insertPeer hp ?_ _ (fun hT => (h.2.2.1 hT).setClaims now a ha i.claims)
      exact fun hr => hr

theorem addNewPeer_GI (S : SI) (x y : Option NAddr) (env : CryptoEnv) (o : Oracle) (c : Ctx) (now : Int) (a : NAddr) (info : NodeInfo)
    (h : GIx S x c) (hxy : ∀ b, b ≠ a → some b ≠ y → some b ≠ x) (hR : ∀ pc, lookupA c.node.pending a = some pc → S.R pc) :
    GIx S y (addNewPeer env o c now a info) := by
  unfold addNewPeer
  simp only []
  split
  · rename_i hn
    refine ⟨fun b pc hb hne => h.1 b pc hb (hxy b ?_ hne), h.2⟩
    rintro rfl
    exact (lookupA_none_iff _ _).1 hn (mem_key hb)
  · rename_i pc hpc
    apply updatePeerInfo_GI
    refine ⟨?_, ?_, ?_, h.2.2.2⟩
    · intro b q hb hne
      have := mem_eraseA hb
      exact h.1 b q this.1 (hxy b this.2 hne)
    · intro b r hb
      rcases mem_insertA hb with heq | hb
      · cases heq
        exact hR pc hpc
      · exact h.2.1 b r hb
    · intro hT
      exact (h.2.2.1 hT).mono (fun b hb => key_mem_insertA_of_mem _ _ _ _ hb)

/-- dropping a peer together with its claims -/
theorem GIx.erasePeer {S : SI} {x : Option NAddr} {c : Ctx} (h : GIx S x c) (now : Int) (hnow : S.T → 0 < now) (a : NAddr) :
    GIx S x { c with node := { c.node with peers := eraseA c.node.peers a, table := c.node.table.removeClaims now (addrId a) } } := by
  refine ⟨h.1, fun b r hb => h.2.1 b r (mem_eraseA hb).1, ?_, h.2.2.2⟩
  intro hT
  show TP ((eraseA c.node.peers a).map (·.1)) _
  rw [keys_eraseA]
  exact (h.2.2.1 hT).removeClaims now (hnow hT) a

theorem removePeer_GI (S : SI) (x : Option NAddr) (c : Ctx) (now : Int) (hnow : S.T → 0 < now) (a : NAddr) (h : GIx S x c) :
    GIx S x (removePeer c now a) := by
  unfold removePeer
  simp only []
  split
  · exact h
  · exact h.erasePeer now hnow a

theorem sendMsg_GI (S : SI) (x : Option NAddr) (o : Oracle) (c : Ctx) (a : NAddr) (ty : Nat) (body : Bytes)
    (hty : ty ≠ Generated.MESSAGE_TYPE_ROTATION) (h : GIx S x c) :
    GIx S x ((sendMsg o c a ty body).getD c) := by
  unfold sendMsg
  split
  · exact h
  · rename_i p hp
    simp only []
    split
    · rename_i pc' bytes log hs
      simp only [Option.getD_some]
      have hpc : pc' = (PeerCrypto.sendMessage p.crypto ty body (rndFor o c a).2.1.ct).1 := by rw [hs]
      have := h.insertPeer (q := { p with crypto := pc' }) hp (fun hr => by rw [hpc]; exact S.r_seal _ _ _ _ hr) c.node.table h.2.2.1
      exact (this.addLog log (fun _ => S.lg_send _ _ _ _ _ _ hty (congrArg Prod.snd hs))).send _ _
    · exact h

theorem broadcastMsg_GI (S : SI) (x : Option NAddr) (o : Oracle) (c : Ctx) (ty : Nat) (body : Bytes)
    (hty : ty ≠ Generated.MESSAGE_TYPE_ROTATION) (h : GIx S x c) :
    GIx S x (broadcastMsg o c ty body) := by
  unfold broadcastMsg
  exact foldl_inv (GIx S x) _ (fun c a hc => sendMsg_GI S x o c a ty body hty hc) _ _ h

theorem reconnectToPeers_GI (S : SI) (x : Option NAddr) (env : CryptoEnv) (o : Oracle) (c : Ctx) (now : Int) (h : GIx S x c) :
    GIx S x (reconnectToPeers env o c now) := by
  unfold reconnectToPeers
  simp only []
  have h1 : GIx S x (c.node.reconnect.foldl (fun c e => if Generated.reconnectNotDue e.next now then c else connect env o c e.resolved) c) := by
    apply foldl_inv (GIx S x) _ _ _ _ h
    intro c e hc
    split
    · exact hc
    · exact connect_GI S x env o c _ hc
  exact ⟨h1.1, h1.2.1, h1.2.2.1, h1.2.2.2⟩

/-! ## the generic invariant under `handle_net_message` -/

def IsInitRes (res : MsgResult) : Prop := ∃ p, res = .initialized p ∨ res = .initializedWithReply p


theorem GIx.full {S : SI} {x : NAddr} {c : Ctx} (h : GIx S (some x) c) (hx : ∀ pc, (x, pc) ∈ c.node.pending → S.Q pc) : GI S c := by
  refine ⟨fun a pc hm _ => ?_, h.2⟩
  by_cases ha : a = x
  · subst ha; exact hx pc hm
  · exact h.1 a pc hm (by simpa using ha)

theorem handleResult_GI (S : SI) (env : CryptoEnv) (o : Oracle) (c : Ctx) (now : Int) (src : NAddr) (res : MsgResult) (out : Bytes)
    (h : GIx S (some src) c)
    (hsrc : (∀ pc, (src, pc) ∈ c.node.pending → S.Q pc) ∨
      (∃ p, (res = .initialized p ∨ res = .initializedWithReply p) ∧ payloadOk p = true ∧ (lookupA c.node.pending src).isSome = true))
    (hR : IsInitRes res → ∀ pc, lookupA c.node.pending src = some pc → S.R pc)
    (hT : S.T → ∀ ty d, res = .message ty d → src ∈ c.node.peers.map (·.1))
    (hnow : S.T → 0 < now) : GI S (handleResult env o c now src res out).1 := by
  have hxy : ∀ b, b ≠ src → some b ≠ (none : Option NAddr) → some b ≠ some src := fun b hb _ => by simpa using hb
  unfold handleResult
  cases res with
  | message ty data =>
    have hc : GI S c := by
      rcases hsrc with hl | ⟨p, hp, _⟩
      · exact h.full hl
      · rcases hp with hp | hp <;> cases hp
    simp only []
    split
    · split
      · exact hc
      · rename_i saddr _ _
        split
        · exact ⟨hc.1, hc.2.1, fun ht => (hc.2.2.1 ht).learn now saddr src (hT ht _ _ rfl), hc.2.2.2⟩
        · exact hc
    · split
      · split
        · exact hc
        · exact updatePeerInfo_GI S none env o c now src _ hc
      · split
        · exact updatePeerInfo_GI S none env o c now src _ hc
        · split
          · exact removePeer_GI S none c now hnow src hc
          · exact hc
  | initialized payload =>
    simp only []
    split
    · exact addNewPeer_GI S (some src) none env o c now src _ h hxy (hR ⟨payload, Or.inl rfl⟩)
    · rename_i hdec
      rcases hsrc with hl | ⟨p, hp, hok, _⟩
      · exact h.full hl
      · have : p = payload := by rcases hp with hp | hp <;> cases hp; rfl
        subst this
        simp only [payloadOk, hdec] at hok
        cases hok
  | initializedWithReply payload =>
    simp only []
    split
    · exact (addNewPeer_GI S (some src) none env o c now src _ h hxy (hR ⟨payload, Or.inr rfl⟩)).send _ _
    · rename_i hdec
      rcases hsrc with hl | ⟨p, hp, hok, _⟩
      · exact h.full hl
      · have : p = payload := by rcases hp with hp | hp <;> cases hp; rfl
        subst this
        simp only [payloadOk, hdec] at hok
        cases hok
  | reply =>
    rcases hsrc with hl | ⟨p, hp, _⟩
    · exact (h.full hl).send _ _
    · rcases hp with hp | hp <;> cases hp
  | none =>
    rcases hsrc with hl | ⟨p, hp, _⟩
    · exact h.full hl
    · rcases hp with hp | hp <;> cases hp

/-- what the generic invariant needs from an outcome of the session layer, for a session stored in `peers` (`inPeers`) or in `pending` -/
structure SOK (S : SI) (inPeers : Bool) (r : POutcome MsgResult) : Prop where
  no_panic : S.P → r ≠ .panic
  err_peers : inPeers = true → ∀ pc' e, r = .err pc' e → S.R pc'
  err_pend : inPeers = false → ∀ pc' e, r = .err pc' e → e = .cryptoInitFatal ∨ S.Q pc'
  ok_peers : inPeers = true → ∀ pc' out res log, r = .ok pc' out res log → S.R pc'
  ok_pend : inPeers = false → ∀ pc' out res log, r = .ok pc' out res log →
    (¬ IsInitRes res ∧ S.Q pc') ∨ (∃ p, (res = .initialized p ∨ res = .initializedWithReply p) ∧ S.R pc' ∧ (S.Q pc' ∨ payloadOk p = true))
  msg : S.T → ∀ pc' out ty d log, r = .ok pc' out (.message ty d) log → inPeers = true
  log_ok : S.L → ∀ pc' out res log, r = .ok pc' out res log → S.LG log

/-- the state after `handle_net_message`, before the error handling of `handle_socket_event` -/
def PostD (S : SI) (src : NAddr) (r : Ctx × Option InitErr) : Prop :=
  GIx S (some src) r.1 ∧ (r.2 ≠ some .cryptoInitFatal → ∀ pc, (src, pc) ∈ r.1.node.pending → S.Q pc)

theorem PostD.of_GI {S : SI} {src : NAddr} {r : Ctx × Option InitErr} (h : GI S r.1) : PostD S src r :=
  ⟨GIx.weaken h, fun _ pc hm => h.1 src pc hm (by simp)⟩

theorem finish_GI (S : SI) (src : NAddr) (r : Ctx × Option InitErr) (h : PostD S src r) : GI S (finish src r).1 := by
  rcases r with ⟨c, e⟩
  by_cases he : e = some .cryptoInitFatal
  · subst he
    have h1 : GIx S (some src) c := h.1
    refine ⟨fun a pc hm _ => ?_, h1.2⟩
    have := mem_eraseA (l := c.node.pending) hm
    exact h1.1 a pc this.1 (by simpa using this.2)
  · rw [finish_of_not_fatal _ _ _ he]
    exact h.1.full (h.2 he)

/-- `store` of `applyOutcome` -/
def storePc (c : Ctx) (src : NAddr) (inPeers : Bool) (pc : PeerCrypto) : Ctx :=
  let n := c.node
  if inPeers then
    match lookupA n.peers src with
    | some p => { c with node := { n with peers := insertA n.peers src { p with crypto := pc } } }
    | none => c
  else { c with node := { n with pending := insertA n.pending src pc } }

theorem applyOutcome_eq (env : CryptoEnv) (o : Oracle) (c : Ctx) (now : Int) (src : NAddr) (inPeers : Bool) (r : POutcome MsgResult) :
    applyOutcome env o c now src inPeers r =
    match r with
    | .panic => ({ c with panicked := true }, none)
    | .err pc e => (countInvalid (storePc c src inPeers pc), some e)
    | .ok pc out res log => handleResult env o (addLog log (storePc c src inPeers pc)) now src res out := by
  cases r <;> rfl

theorem storePc_peers_GI {S : SI} {c : Ctx} (h : GI S c) (src : NAddr) (pc : PeerCrypto) (hpc : S.R pc) : GI S (storePc c src true pc) := by
  unfold storePc
  simp only [if_true]
  split
  · rename_i p hp
    exact h.insertPeer hp (fun _ => hpc) c.node.table h.2.2.1
  · exact h

theorem storePc_peers_pending (c : Ctx) (src : NAddr) (pc : PeerCrypto) : (storePc c src true pc).node.pending = c.node.pending := by
  unfold storePc
  simp only [if_true]
  split <;> rfl

theorem storePc_peers_keys (c : Ctx) (src : NAddr) (pc : PeerCrypto) : (storePc c src true pc).node.peers.map (·.1) = c.node.peers.map (·.1) := by
  unfold storePc
  simp only [if_true]
  split
  · rename_i p hp
    exact insertA_keys_of_some _ _ _ _ hp
  · rfl

theorem storePc_pend_GIx {S : SI} {c : Ctx} (h : GI S c) (src : NAddr) (pc : PeerCrypto) : GIx S (some src) (storePc c src false pc) := by
  refine ⟨fun a q hm hne => ?_, h.2⟩
  rcases mem_insertA hm with heq | hm
  · cases heq; exact absurd rfl hne
  · exact h.1 a q hm (by simp)

theorem storePc_pend_mem {S : SI} {c : Ctx} (h : GI S c) (src : NAddr) (pc : PeerCrypto) (hq : S.Q pc) :
    ∀ q, (src, q) ∈ (storePc c src false pc).node.pending → S.Q q := by
  intro q hm
  rcases mem_insertA hm with heq | hm
  · cases heq; exact hq
  · exact h.1 src q hm (by simp)

/-- a session-layer result for a pending handshake, stored and handed to `handle_message` -/
theorem okPend_GI (S : SI) (env : CryptoEnv) (o : Oracle) (c : Ctx) (now : Int) (src : NAddr) (pc : PeerCrypto) (out : Bytes) (res : MsgResult) (log : Init.SealLog)
    (h : GI S c)
    (hok : (¬ IsInitRes res ∧ S.Q pc) ∨ (∃ p, (res = .initialized p ∨ res = .initializedWithReply p) ∧ S.R pc ∧ (S.Q pc ∨ payloadOk p = true)))
    (hmsg : S.T → ∀ ty d, res ≠ .message ty d) (hnow : S.T → 0 < now) (hlog : S.L → S.LG log) :
    GI S (handleResult env o (addLog log (storePc c src false pc)) now src res out).1 := by
  have hlk : lookupA (storePc c src false pc).node.pending src = some pc := lookupA_insertA_self _ _ _
  apply handleResult_GI S env o _ now src res out ((storePc_pend_GIx h src pc).addLog log hlog)
  · rcases hok with ⟨_, hq⟩ | ⟨p, hp, _, hq | hq⟩
    · exact Or.inl (storePc_pend_mem h src pc hq)
    · exact Or.inl (storePc_pend_mem h src pc hq)
    · refine Or.inr ⟨p, hp, hq, ?_⟩
      show (lookupA (storePc c src false pc).node.pending src).isSome = true
      rw [hlk]; rfl
  · intro hi q hq
    have hq' : lookupA (storePc c src false pc).node.pending src = some q := hq
    rw [hlk] at hq'
    cases hq'
    rcases hok with ⟨hn, _⟩ | ⟨p, _, hr, _⟩
    · exact absurd hi hn
    · exact hr
  · intro ht ty d hres
    exact absurd hres (hmsg ht ty d)
  · exact hnow

theorem applyOutcome_PostD (S : SI) (env : CryptoEnv) (o : Oracle) (c : Ctx) (now : Int) (src : NAddr) (inPeers : Bool) (r : POutcome MsgResult)
    (h : GI S c) (hin : inPeers = true → src ∈ c.node.peers.map (·.1)) (hr : SOK S inPeers r)
    (hpn : inPeers = true → ∀ pc' out res log, r = .ok pc' out res log → IsInitRes res → lookupA c.node.pending src = none)
    (hnow : S.T → 0 < now) : PostD S src (applyOutcome env o c now src inPeers r) := by
  rw [applyOutcome_eq]
  cases r with
  | panic =>
    apply PostD.of_GI
    exact ⟨h.1, h.2.1, h.2.2.1, fun hP => absurd rfl (hr.no_panic hP), h.2.2.2.2⟩
  | err pc e =>
    cases inPeers with
    | true =>
      apply PostD.of_GI
      exact (storePc_peers_GI h src pc (hr.err_peers rfl pc e rfl)).countInvalid
    | false =>
      refine ⟨(storePc_pend_GIx h src pc).countInvalid, fun hne q hm => ?_⟩
      simp only [ne_eq, Option.some.injEq] at hne
      rcases hr.err_pend rfl pc e rfl with he | hq
      · exact absurd he hne
      · exact storePc_pend_mem h src pc hq q hm
  | ok pc out res log =>
    apply PostD.of_GI
    cases inPeers with
    | true =>
      have hg := storePc_peers_GI h src pc (hr.ok_peers rfl pc out res log rfl)
      apply handleResult_GI S env o _ now src res out (GIx.weaken (hg.addLog log (fun hl => hr.log_ok hl pc out res log rfl)))
      · exact Or.inl (fun q hm => hg.1 src q hm (by simp))
      · intro hi q hq
        have hq' : lookupA (storePc c src true pc).node.pending src = some q := hq
        rw [storePc_peers_pending, hpn rfl pc out res log rfl hi] at hq'
        cases hq'
      · intro _ ty d _
        show src ∈ (storePc c src true pc).node.peers.map (·.1)
        rw [storePc_peers_keys]
        exact hin rfl
      · exact hnow
    | false =>
      apply okPend_GI S env o c now src pc out res log h (hr.ok_pend rfl pc out res log rfl) _ hnow (fun hl => hr.log_ok hl pc out res log rfl)
      intro ht ty d hres
      subst hres
      exact absurd (hr.msg ht pc out ty d log rfl) (by simp)

theorem responder_PostD (S : SI) (env : CryptoEnv) (bodyOf : Init.BodyOf) (o : Oracle) (n : Node) (now : Int) (src : NAddr) (data tail : Bytes)
    (rnd : Rand) (rr : RotRand) (hash : Option Bytes)
    (h : GI S { node := n }) (hr : SOK S false (PeerCrypto.handleMessage env bodyOf payloadOk (newAttempt n (hash.getD [])) data tail rnd rr))
    (hnow : S.T → 0 < now) : PostD S src (responder env bodyOf o n now src data tail rnd rr hash) := by
  unfold responder
  simp only []
  generalize PeerCrypto.handleMessage env bodyOf payloadOk (newAttempt n (hash.getD [])) data tail rnd rr = r at hr
  apply PostD.of_GI
  cases r with
  | panic => exact ⟨h.1, h.2.1, h.2.2.1, fun hP => absurd rfl (hr.no_panic hP), h.2.2.2.2⟩
  | err pc e => exact h.countInvalid
  | ok pc out res log =>
    apply okPend_GI S env o { node := n } now src pc out res log h (hr.ok_pend rfl pc out res log rfl) _ hnow (fun hl => hr.log_ok hl pc out res log rfl)
    intro ht ty d hres
    subst hres
    exact absurd (hr.msg ht pc out ty d log rfl) (by simp)

theorem plainRes_not_init {res : MsgResult} (h : PlainRes res) : ¬ IsInitRes res := by
  rintro ⟨p, hp⟩
  rcases h with rfl | ⟨ty, body, rfl⟩ <;> rcases hp with hp | hp <;> cases hp

/-- `handle_net_message` keeps the generic invariant (up to the pending handshake of the sender, which the caller closes after a fatal error) -/
theorem dispatch_PostD (S : SI) (env : CryptoEnv) (bodyOf : Init.BodyOf) (o : Oracle) (n : Node) (now : Int) (src : NAddr) (data tail : Bytes)
    (h : GI S { node := n })
    (hm : ∀ (pc : PeerCrypto) (inPeers : Bool) (rnd : Rand) (rr : RotRand), (if inPeers then S.R pc else S.Q pc) →
      SOK S inPeers (PeerCrypto.handleMessage env bodyOf payloadOk pc data tail rnd rr))
    (hnow : S.T → 0 < now) : PostD S src (dispatch env bodyOf o n now src data tail) := by
  unfold dispatch
  simp only []
  split
  · rename_i p hp
    have hpm : (src, p) ∈ n.peers := lookupA_some_mem hp
    have hkey : src ∈ n.peers.map (·.1) := mem_key hpm
    have hRp : S.R p.crypto := h.2.1 src p hpm
    split
    · rename_i hni
      have hinit : data.head? ≠ some Generated.INIT_MESSAGE_FIRST_BYTE := by simpa using hni
      apply applyOutcome_PostD S env o _ now src true _ h (fun _ => hkey) (hm _ true _ _ (by simpa using hRp)) _ hnow
      intro _ pc' out res log hres hi
      exact absurd hi (plainRes_not_init (handleMessage_plain env bodyOf payloadOk _ data tail _ _ hinit pc' out res log hres))
    · split
      · rename_i pc hq
        have hQ : S.Q pc := h.1 src pc (lookupA_some_mem hq) (by simp)
        exact applyOutcome_PostD S env o _ now src false _ h (fun hf => by cases hf) (hm _ false _ _ (by simpa using hQ)) (fun hf => by cases hf) hnow
      · rename_i hq
        split
        · apply applyOutcome_PostD S env o _ now src true _ h (fun _ => hkey) (hm _ true _ _ (by simpa using hRp)) _ hnow
          intro _ _ _ _ _ _ _
          exact hq
        · exact responder_PostD S env bodyOf o n now src data tail _ _ _ h (hm _ false _ _ (by simpa using S.q_att n _)) hnow
  · rename_i pc hp hq
    have hQ : S.Q pc := h.1 src pc (lookupA_some_mem hq) (by simp)
    exact applyOutcome_PostD S env o _ now src false _ h (fun hf => by cases hf) (hm _ false _ _ (by simpa using hQ)) (fun hf => by cases hf) hnow
  · split
    · exact responder_PostD S env bodyOf o n now src data tail _ _ _ h (hm _ false _ _ (by simpa using S.q_att n _)) hnow
    · exact PostD.of_GI h.countInvalid

theorem handleNet_GI (S : SI) (env : CryptoEnv) (bodyOf : Init.BodyOf) (o : Oracle) (n : Node) (now : Int) (src0 : NAddr) (data tail : Bytes)
    (h : GI S { node := n })
    (hm : ∀ (pc : PeerCrypto) (inPeers : Bool) (rnd : Rand) (rr : RotRand), (if inPeers then S.R pc else S.Q pc) →
      SOK S inPeers (PeerCrypto.handleMessage env bodyOf payloadOk pc data tail rnd rr))
    (hnow : S.T → 0 < now) : GI S (handleNet env bodyOf o n now src0 data tail).1 := by
  rw [handleNet_eq]
  exact finish_GI S _ _ (dispatch_PostD S env bodyOf o n now _ data tail h hm hnow)

/-! ## the generic invariant under `handle_interface_data`, `housekeep`, `connect` -/

theorem handleIface_GI (S : SI) (o : Oracle) (n : Node) (now : Int) (data : Bytes) (h : GI S { node := n }) :
    GI S (handleIface o n now data) := by
  unfold handleIface
  simp only []
  split
  · exact h
  · rename_i sa dst hpa
    have h1 : GI S { node := { n with table := (n.table.lookup now dst).1 } } :=
      ⟨h.1, h.2.1, fun ht => (h.2.2.1 ht).lookup now dst, h.2.2.2⟩
    split
    · split
      · exact sendMsg_GI S none o _ _ _ _ (by decide) h1
      · exact h1
    · split
      · exact broadcastMsg_GI S none o _ _ _ (by decide) h1
      · exact ⟨h1.1, h1.2.1, h1.2.2.1, h1.2.2.2⟩

/-- what the generic invariant needs from `every_second` of a session -/
structure TOK (S : SI) (X : PeerCrypto → Prop) (r : POutcome MsgResult) : Prop where
  no_panic : S.P → r ≠ .panic
  ok : ∀ pc' out res log, r = .ok pc' out res log → X pc'
  log_ok : S.L → ∀ pc' out res log, r = .ok pc' out res log → S.LG log

theorem cryptoHousekeep_GI (S : SI) (env : CryptoEnv) (o : Oracle) (c : Ctx) (now : Int) (h : GI S c)
    (ht : ∀ pc rr, (S.Q pc → TOK S S.Q (PeerCrypto.everySecond pc rr)) ∧ (S.R pc → TOK S S.R (PeerCrypto.everySecond pc rr)))
    (hnow : S.T → 0 < now) : GI S (cryptoHousekeep env o c now) := by
  unfold cryptoHousekeep
  apply foldl_inv (GI S)
  · intro c a hc
    split
    · exact hc
    · rename_i p hp
      have hR : S.R p.crypto := hc.2.1 a p (lookupA_some_mem hp)
      split
      rename_i rr _ _
      have hk := (ht p.crypto rr).2 hR
      split
      · apply connectSock_GI
        exact hc.erasePeer now hnow a
      · rename_i hpanic
        exact ⟨hc.1, hc.2.1, hc.2.2.1, fun hP => absurd hpanic (hk.no_panic hP), hc.2.2.2.2⟩
      · rename_i pc' out res log hok
        have hins : GI S (addLog log { c with node := { c.node with peers := insertA c.node.peers a { p with crypto := pc' } } }) :=
          (hc.insertPeer hp (fun _ => hk.ok pc' out res log hok) c.node.table hc.2.2.1).addLog log (fun hl => hk.log_ok hl pc' out res log hok)
        split
        · exact hins.send _ _
        · exact hins
  · apply foldl_inv (GI S)
    · intro c a hc
      split
      · exact hc
      · rename_i pc hp
        have hQ : S.Q pc := hc.1 a pc (lookupA_some_mem hp) (by simp)
        split
        rename_i rr _ _
        have hk := (ht pc rr).1 hQ
        split
        · refine ⟨fun b q hm _ => hc.1 b q (mem_eraseA hm).1 (by simp), hc.2⟩
        · rename_i hpanic
          exact ⟨hc.1, hc.2.1, hc.2.2.1, fun hP => absurd hpanic (hk.no_panic hP), hc.2.2.2.2⟩
        · rename_i pc' out res log hok
          have hins : GI S (addLog log { c with node := { c.node with pending := insertA c.node.pending a pc' } }) := by
            have hbase : GI S { c with node := { c.node with pending := insertA c.node.pending a pc' } } := by
              refine ⟨fun b q hm _ => ?_, hc.2⟩
              rcases mem_insertA hm with heq | hm
              · cases heq; exact hk.ok pc' out res log hok
              · exact hc.1 b q hm (by simp)
            exact hbase.addLog log (fun hl => hk.log_ok hl pc' out res log hok)
          split
          · exact hins.send _ _
          · exact hins
    · exact h

/-! ### `housekeep` in stages -/

def hkDead (env : CryptoEnv) (o : Oracle) (n : Node) (now : Int) : Ctx :=
  ((n.peers.filter (fun (_, p) => Generated.peerExpired p.timeout now)).map (·.1)).foldl (fun c a =>
    let n := c.node
    connectSock env o { c with node := { n with peers := eraseA n.peers a, table := n.table.removeClaims now (addrId a) } } a) { node := n }

def hkSweep (c1 : Ctx) (now : Int) : Ctx := { c1 with node := { c1.node with table := c1.node.table.housekeep now } }

def hkAnnounce (o : Oracle) (c3 : Ctx) (now : Int) : Ctx :=
  if Generated.announceDue c3.node.nextPeers now then
    let info := Codec.encodeNodeInfo (createNodeInfo c3.node)
    let c' := broadcastMsg o c3 Generated.MESSAGE_TYPE_NODE_INFO info
    let minPt := (c'.node.peers.map (fun (_, p) => p.peerTimeout)).foldl min (if c'.node.peers.isEmpty then Generated.DEFAULT_PEER_TIMEOUT else 65535)
    match announceInterval c'.node.cfg.updateFreq minPt with
    | some d => { c' with node := { c'.node with nextPeers := now + d } }
    | none => { c' with panicked := true }
  else c3

def hkOwn (c5 : Ctx) (now : Int) : Ctx :=
  if Generated.ownResetDue c5.node.nextOwnReset now then
    { c5 with node := { c5.node with own := c5.node.cfg.advertise ++ [c5.node.addr], nextOwnReset := now + 300 } }
  else c5

theorem housekeep_eq (env : CryptoEnv) (o : Oracle) (n : Node) (now : Int) :
    housekeep env o n now =
      hkOwn (reconnectToPeers env o (hkAnnounce o (cryptoHousekeep env o (hkSweep (hkDead env o n now) now) now) now) now) now := rfl

theorem hkDead_GI (S : SI) (env : CryptoEnv) (o : Oracle) (n : Node) (now : Int) (h : GI S { node := n }) (hnow : S.T → 0 < now) :
    GI S (hkDead env o n now) := by
  unfold hkDead
  apply foldl_inv (GI S) _ _ _ _ h
  intro c a hc
  apply connectSock_GI
  exact hc.erasePeer now hnow a

theorem hkSweep_GI (S : SI) (c : Ctx) (now : Int) (h : GI S c) : GI S (hkSweep c now) :=
  ⟨h.1, h.2.1, fun ht => (h.2.2.1 ht).housekeep now, h.2.2.2⟩

theorem hkAnnounce_GI (S : SI) (o : Oracle) (c : Ctx) (now : Int) (h : GI S c) : GI S (hkAnnounce o c now) := by
  unfold hkAnnounce
  split
  · simp only []
    have hb := broadcastMsg_GI S none o c Generated.MESSAGE_TYPE_NODE_INFO (Codec.encodeNodeInfo (createNodeInfo c.node)) (by decide) h
    split
    · exact ⟨hb.1, hb.2.1, hb.2.2.1, hb.2.2.2⟩
    · rename_i hnone
      obtain ⟨d, hd, _⟩ := C15.interval_safe _ _
      unfold announceInterval at hnone
      rw [hd] at hnone
      cases hnone
  · exact h

theorem hkOwn_GI (S : SI) (c : Ctx) (now : Int) (h : GI S c) : GI S (hkOwn c now) := by
  unfold hkOwn
  split
  · exact ⟨h.1, h.2.1, h.2.2.1, h.2.2.2⟩
  · exact h

theorem housekeep_GI (S : SI) (env : CryptoEnv) (o : Oracle) (n : Node) (now : Int) (h : GI S { node := n })
    (ht : ∀ pc rr, (S.Q pc → TOK S S.Q (PeerCrypto.everySecond pc rr)) ∧ (S.R pc → TOK S S.R (PeerCrypto.everySecond pc rr)))
    (hnow : S.T → 0 < now) : GI S (housekeep env o n now) := by
  rw [housekeep_eq]
  apply hkOwn_GI
  apply reconnectToPeers_GI
  apply hkAnnounce_GI
  apply cryptoHousekeep_GI S env o _ now _ ht hnow
  apply hkSweep_GI
  exact hkDead_GI S env o n now h hnow

end VpnCloud.Proofs.NodeInvLemmas
