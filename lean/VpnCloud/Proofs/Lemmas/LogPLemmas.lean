import VpnCloud.Proofs.Lemmas.NodeInvLemmas
/-
  The chain of lemmas `sealMsg_log … handleMessage_pay, tickInit_payOK` of `NodeInvLemmas.lean` ("the seals a node produces are not
  empty"), for an ARBITRARY predicate `P` on plaintexts instead of `· ≠ []`: if the own payload of the handshake objects of a session
  satisfies `P` (`PayP`), and every rotation message `write_to` writes satisfies `P` (`hrot`), then every seal the session layer logs in
  `handle_message` has a plaintext with `P` (`LogP`).  Proofs are those of `NodeInvLemmas.lean` with `P` for `· ≠ []`.
  Used by `Proofs/RotPanic.lean` with `P` = "if it is a ROTATION message, its keys have 32 bytes".
-/
namespace VpnCloud.Proofs.LogPLemmas

open VpnCloud VpnCloud.Node
open VpnCloud.Proofs.NodeLemmas VpnCloud.Proofs.NodeLemmas2 VpnCloud.Proofs.InitLemmas VpnCloud.Proofs.NodeInvLemmas

/-- every genuine seal recorded in the log has a plaintext with `P` -/
def LogP (P : Bytes → Prop) (log : Init.SealLog) : Prop := ∀ ct b, (ct, b) ∈ log → ∀ k n p, b = .sealed k n p → P p

variable {P : Bytes → Prop}

theorem logP_nil : LogP P [] := fun _ _ h => by cases h

theorem LogP.append {l1 l2 : Init.SealLog} (h1 : LogP P l1) (h2 : LogP P l2) : LogP P (l1 ++ l2) := by
  intro ct b hm
  rcases List.mem_append.1 hm with h | h
  · exact h1 ct b h
  · exact h2 ct b h

theorem logNE_iff (log : Init.SealLog) : LogNE log ↔ LogP (fun p => p ≠ []) log := Iff.rfl

theorem sealMsg_logP (pc : PeerCrypto) (plain ct bytes : Bytes) (log : Init.SealLog)
    (h : (PeerCrypto.sealMsg pc plain ct).2 = .ok (bytes, log)) (hp : P plain) : LogP P log := by
  unfold PeerCrypto.sealMsg at h
  split at h
  · simp only [Except.ok.injEq, Prod.mk.injEq] at h
    rw [← h.2]; exact logP_nil
  · split at h
    · cases h
    · rename_i c hc
      simp only [Except.ok.injEq, Prod.mk.injEq] at h
      rw [← h.2]
      intro ct' b hm k n p hb
      simp only [List.mem_singleton, Prod.mk.injEq] at hm
      rw [hm.2] at hb
      rw [core_encrypt_body c plain k n p hb]
      exact hp

def PayP (P : Bytes → Prop) (pc : PeerCrypto) : Prop := ∀ i, pc.init = some i → P i.payload

theorem PayP.of_init {pc pc' : PeerCrypto} (h : PayP P pc) (hi : pc'.init = pc.init) : PayP P pc' := by
  intro i h'; rw [hi] at h'; exact h i h'

theorem encryptPayload_logP (st : InitSt) (rnd : Rand) (hp : P st.payload) : LogP P (Init.encryptPayload st rnd).2.2 := by
  unfold Init.encryptPayload
  split
  · rename_i c hc
    intro ct' b hm k n p hb
    simp only [List.mem_singleton, Prod.mk.injEq] at hm
    rw [hm.2] at hb
    rw [core_encrypt_body c st.payload k n p hb]
    exact hp
  · exact logP_nil

theorem init_sendMessage_logP (env : CryptoEnv) (st : InitSt) (stage : Nat) (rnd : Rand) (hp : P st.payload) :
    LogP P (Init.sendMessage env st stage rnd).2.2 := by
  rcases (init_sendMessage_core env st stage rnd).2 with h | h
  · rw [h]; exact logP_nil
  · rw [h]; exact encryptPayload_logP st rnd hp

def PayResP (P : Bytes → Prop) (st : InitSt) : Res → Prop
  | .panic => True
  | .err st' _ => st'.payload = st.payload
  | .ok st' (_, _, log) => st'.payload = st.payload ∧ (P st.payload → LogP P log)

theorem handleMsg_payP (env : CryptoEnv) (bodyOf : Init.BodyOf) (ok : Bytes → Bool) (st0 : InitSt) (msg : InitMsg) (rnd : Rand) :
    PayResP P st0 (handleMsg env bodyOf ok st0 msg rnd) := by
  cases msg with
  | ping h ecdh algos =>
    simp only [handleMsg]
    split
    · exact rfl
    · split
      · unfold PayResP
        dsimp only
        refine ⟨?_, fun hp => ?_⟩
        · exact init_sendMessage_payload env _ Generated.STAGE_PONG rnd
        · exact init_sendMessage_logP env _ Generated.STAGE_PONG rnd hp
      · unfold PayResP
        dsimp only
        refine ⟨?_, fun hp => ?_⟩
        · exact init_sendMessage_payload env _ Generated.STAGE_PONG rnd
        · exact init_sendMessage_logP env _ Generated.STAGE_PONG rnd hp
  | pong h ecdh algos payload =>
    simp only [handleMsg]
    split
    · trivial
    · split
      · exact rfl
      · split
        · rename_i st5 hd
          exact (decryptPayload_payload _ _ _ _ _ hd).trans (pongSt_payload ..)
        · rename_i st5 p hd
          have h5 : st5.payload = st0.payload := (decryptPayload_payload _ _ _ _ _ hd).trans (pongSt_payload ..)
          split
          · exact h5
          · unfold PayResP
            dsimp only
            refine ⟨?_, fun hp => ?_⟩
            · exact (init_sendMessage_payload env st5 Generated.STAGE_PENG rnd).trans h5
            · exact init_sendMessage_logP env st5 Generated.STAGE_PENG rnd (by rw [h5]; exact hp)
  | peng h payload =>
    simp only [handleMsg]
    split
    · rename_i st2 hd
      exact decryptPayload_payload { st0 with retries := 0 } _ _ _ _ hd
    · rename_i st2 p hd
      split
      · exact decryptPayload_payload { st0 with retries := 0 } _ _ _ _ hd
      · exact ⟨decryptPayload_payload { st0 with retries := 0 } st2 _ _ _ hd, fun _ => logP_nil⟩

theorem handleInit_payP (env : CryptoEnv) (bodyOf : Init.BodyOf) (ok : Bytes → Bool) (st : InitSt) (w : Bytes) (rnd : Rand) :
    PayResP P st (Init.handleInit env bodyOf ok st w rnd) := by
  rw [handleInit_eq]
  split
  · exact rfl
  · split
    · exact rfl
    · split
      · rename_i o ho
        rcases stageCheck_inr' _ _ _ _ ho with ⟨x, rfl⟩ | rfl
        · exact ⟨rfl, fun _ => logP_nil⟩
        · exact rfl
      · trivial
      · rename_i st0 ho
        rcases stageCheck_inl _ _ _ _ ho with ⟨h1, _⟩ | ⟨h1, _⟩
        · simp only [Option.some.injEq] at h1
          subst h1
          exact handleMsg_payP ..
        · simp only [Option.some.injEq] at h1
          subst h1
          exact handleMsg_payP env bodyOf ok { st with stage := Generated.STAGE_PING, last := none, ecdh := none } _ rnd

def PayOutP (P : Bytes → Prop) (pc : PeerCrypto) : POutcome MsgResult → Prop
  | .panic => True
  | .err pc' _ => PayP P pc → PayP P pc'
  | .ok pc' _ _ log => PayP P pc → (PayP P pc' ∧ LogP P log)

def SuccLogP (P : Bytes → Prop) (ilog : Init.SealLog) : POutcome MsgResult → Prop
  | .ok _ _ _ log => LogP P ilog → LogP P log
  | _ => True

theorem successOut_logP (hrot : ∀ m : Rot.Msg, P (Generated.MESSAGE_TYPE_ROTATION :: Codec.writeRotMsg (PeerCrypto.rotMsgToBytes m)))
    (pc1 : PeerCrypto) (core : Option Core) (ini : Bool) (out1 payload : Bytes) (ilog : Init.SealLog) (rr : RotRand) :
    SuccLogP P ilog (successOut pc1 core ini out1 payload ilog rr) := by
  unfold successOut
  split
  · split
    · exact id
    · exact id
  · split
    · simp only []
      split
      · rename_i pc2 bytes log hs
        intro hi
        exact hi.append (sealMsg_logP _ _ _ bytes log (congrArg Prod.snd hs) (hrot _))
      · trivial
    · exact id

theorem successPc_payP (pc : PeerCrypto) (ist' : InitSt) (hp : P ist'.payload) : PayP P (successPc pc ist') := by
  intro i hi
  unfold successPc at hi
  simp only at hi
  split at hi
  · cases hi
  · simp only [Option.some.injEq] at hi; subst hi; exact hp

theorem handleInitMessage_payP (hrot : ∀ m : Rot.Msg, P (Generated.MESSAGE_TYPE_ROTATION :: Codec.writeRotMsg (PeerCrypto.rotMsgToBytes m)))
    (env : CryptoEnv) (bodyOf : Init.BodyOf) (ok : Bytes → Bool) (pc : PeerCrypto) (w : Bytes) (rnd : Rand) (rr : RotRand) :
    PayOutP P pc (PeerCrypto.handleInitMessage env bodyOf ok pc w rnd rr) := by
  rw [handleInitMessage_eq]
  split
  · exact id
  · rename_i ist hi
    have hg := handleInit_payP (P := P) env bodyOf ok ist w rnd
    generalize Init.handleInit env bodyOf ok ist w rnd = r at hg
    cases r with
    | panic => trivial
    | err ist' e =>
      intro hp i hi'
      simp only [Option.some.injEq] at hi'
      subst hi'
      rw [hg]; exact hp ist hi
    | ok ist' x =>
      obtain ⟨out, res, ilog⟩ := x
      cases res with
      | «continue» =>
        intro hp
        refine ⟨fun i hi' => ?_, hg.2 (hp ist hi)⟩
        simp only [Option.some.injEq] at hi'
        subst hi'
        rw [hg.1]; exact hp ist hi
      | success payload isInit =>
        have hc := successOut_cases (successPc pc ist') ist'.crypto isInit (if out.isEmpty then [] else Generated.INIT_MESSAGE_FIRST_BYTE :: out) payload ilog rr
        have hl := successOut_logP hrot (successPc pc ist') ist'.crypto isInit (if out.isEmpty then [] else Generated.INIT_MESSAGE_FIRST_BYTE :: out) payload ilog rr
        simp only []
        generalize successOut (successPc pc ist') ist'.crypto isInit (if out.isEmpty then [] else Generated.INIT_MESSAGE_FIRST_BYTE :: out) payload ilog rr = r at hc hl
        cases r with
        | panic => trivial
        | err pc' e =>
          intro hp
          exact (successPc_payP pc ist' (by rw [hg.1]; exact hp ist hi)).of_init hc.1
        | ok pc' o res log =>
          intro hp
          exact ⟨(successPc_payP pc ist' (by rw [hg.1]; exact hp ist hi)).of_init hc.1, hl (hg.2 (hp ist hi))⟩

theorem handleMessage_payP (hrot : ∀ m : Rot.Msg, P (Generated.MESSAGE_TYPE_ROTATION :: Codec.writeRotMsg (PeerCrypto.rotMsgToBytes m)))
    (env : CryptoEnv) (bodyOf : Init.BodyOf) (ok : Bytes → Bool) (pc : PeerCrypto) (datagram tail : Bytes) (rnd : Rand) (rr : RotRand) :
    PayOutP P pc (PeerCrypto.handleMessage env bodyOf ok pc datagram tail rnd rr) := by
  rw [handleMessage_eq]
  split
  · exact id
  · rename_i b0 rest
    split
    · split
      · exact id
      · exact handleInitMessage_payP hrot env bodyOf ok pc rest rnd rr
    · have hi := decMsg_init bodyOf pc (b0 :: rest)
      rcases hd : decMsg bodyOf pc (b0 :: rest) with ⟨pc1, r⟩
      rw [hd] at hi
      cases r with
      | error e => exact fun hp => hp.of_init hi
      | ok plain =>
        cases plain with
        | nil => trivial
        | cons ty body =>
          simp only []
          split
          · by_cases hpan : PeerCrypto.rotatePanics pc1 (body ++ (if pc1.unencrypted then tail else [])) = true
            · rw [if_pos hpan]; trivial
            rw [if_neg hpan]
            have hr := handleRotate_init pc1 (body ++ (if pc1.unencrypted then tail else [])) rr
            rcases hrot : PeerCrypto.handleRotate pc1 (body ++ (if pc1.unencrypted then tail else [])) rr with ⟨pc2, r2⟩
            rw [hrot] at hr
            cases r2 with
            | error e => exact fun hp => hp.of_init (hr.trans hi)
            | ok u => exact fun hp => ⟨hp.of_init (hr.trans hi), logP_nil⟩
          · exact fun hp => ⟨hp.of_init hi, logP_nil⟩

theorem sendMessage_payP (pc : PeerCrypto) (ty : Nat) (body ct bytes : Bytes) (log : Init.SealLog)
    (h : (PeerCrypto.sendMessage pc ty body ct).2 = .ok (bytes, log)) (hp : P (ty :: body)) : LogP P log :=
  sealMsg_logP pc (ty :: body) ct bytes log h hp

theorem tickInit_payP (pc : PeerCrypto) (h : PayP P pc) : ∀ i, tickInit pc = some i → P i.payload := by
  intro i hi
  unfold tickInit at hi
  split at hi
  · rename_i ist hist
    split at hi
    · cases hi
    · simp only [Option.some.injEq] at hi
      subst hi
      rw [init_everySecond_payload]
      exact h ist hist
  · cases hi

end VpnCloud.Proofs.LogPLemmas
