import VpnCloud.Model.Node
import VpnCloud.Proofs.Lemmas.NodeInvLemmas
import VpnCloud.Proofs.Lemmas.C01MoreLemmas
import VpnCloud.Proofs.Lemmas.C09MoreLemmas
import VpnCloud.Proofs.Lemmas.C15MoreLemmas
import VpnCloud.Proofs.C12
/-
  Helper lemmas for `Proofs/C12More.lean` (C12 at node level, step by step):

  * `NoRoutes pid t`: the table `t` holds no claim and no cached decision of the peer id `pid`; `Gone a c`: the address
    `a` is no key of the peer list of `c` and the table of `c` holds nothing of `addrId a`;
  * `Shrinks c c'`: from `c` to `c'` the peer list lost keys at most and the table lost entries at most (no entry was
    added or rewritten).  Every building block of `housekeep` shrinks (at a time `now > 0`), so `Gone a` — once
    established by one of the removal steps — survives to the end of the tick;
  * the fold lemmas for the two loops of `housekeep` that remove peers (expired peers, failed sessions), in both
    directions (a removal step leaves nothing behind / a key that disappeared was removed by such a step);
  * which results of the session layer make `handle_message` drop a key of the peer list (only a CLOSE message);
  * `Announced`: the Prop-level reading of `TableSpec.announceOk`.
-/
namespace VpnCloud.Proofs.C12MoreLemmas

open VpnCloud VpnCloud.Node
open VpnCloud.Proofs.NodeLemmas VpnCloud.Proofs.NodeLemmas2 VpnCloud.Proofs.NodeInvLemmas
open VpnCloud.Proofs.C09MoreLemmas (pendLoop peerLoop peerStep pendStep cryptoHousekeep_eq pendLoop_peers pendLoop_table peerStep_lookup_ne)
open VpnCloud.Proofs.C15MoreLemmas (deadStep hkDead_eq foldl_proj)

/-! ## tables that hold nothing of a peer id; tables that only lose entries -/

/-- no claim and no cached / learned decision of the table names the peer id `pid` -/
def NoRoutes (pid : PeerId) (t : Table) : Prop :=
  (∀ e ∈ t.claims, e.peer ≠ pid) ∧ (∀ v ∈ t.cache, v.peer ≠ pid)

instance (pid : PeerId) (t : Table) : Decidable (NoRoutes pid t) := by unfold NoRoutes; exact inferInstance

/-- every entry of `t'` is an entry of `t` (nothing added, nothing rewritten) -/
def TSub (t' t : Table) : Prop := (∀ e ∈ t'.claims, e ∈ t.claims) ∧ (∀ v ∈ t'.cache, v ∈ t.cache)

theorem TSub.refl (t : Table) : TSub t t := ⟨fun _ h => h, fun _ h => h⟩

theorem TSub.trans {t1 t2 t3 : Table} (h1 : TSub t2 t1) (h2 : TSub t3 t2) : TSub t3 t1 :=
  ⟨fun e he => h1.1 e (h2.1 e he), fun v hv => h1.2 v (h2.2 v hv)⟩

theorem NoRoutes.of_tsub {pid : PeerId} {t t' : Table} (h : NoRoutes pid t) (hs : TSub t' t) : NoRoutes pid t' :=
  ⟨fun e he => h.1 e (hs.1 e he), fun v hv => h.2 v (hs.2 v hv)⟩

theorem housekeep_tsub (t : Table) (now : Int) : TSub (t.housekeep now) t :=
  ⟨fun _ he => (List.mem_filter.1 he).1, fun _ hv => (List.mem_filter.1 hv).1⟩

theorem removeClaims_tsub (t : Table) (now : Int) (hnow : 0 < now) (pid : PeerId) : TSub (t.removeClaims now pid) t := by
  constructor
  · intro e he
    rw [C12.removeClaims_claims t now pid hnow] at he
    exact (List.mem_filter.1 he).1
  · intro v hv
    rw [C12.removeClaims_cache t now pid hnow] at hv
    exact (List.mem_filter.1 hv).1

/-- `remove_claims` at a time `now > 0` leaves nothing of the peer id behind -/
theorem removeClaims_noRoutes (t : Table) (now : Int) (hnow : 0 < now) (pid : PeerId) : NoRoutes pid (t.removeClaims now pid) := by
  constructor
  · intro e he
    rw [C12.removeClaims_claims t now pid hnow, List.mem_filter] at he
    have := he.2
    simp only [Bool.and_eq_true, decide_eq_true_eq] at this
    exact this.1
  · intro v hv
    rw [C12.removeClaims_cache t now pid hnow, List.mem_filter] at hv
    have := hv.2
    simp only [Bool.and_eq_true, decide_eq_true_eq] at this
    exact this.1

/-- all claims of the table are live at `now` (what the sweep establishes) -/
def Swept (now : Int) (t : Table) : Prop := ∀ e ∈ t.claims, now ≤ e.timeout

theorem housekeep_swept (t : Table) (now : Int) : Swept now (t.housekeep now) := by
  intro e he
  have := C12.claims_expire t now e he
  omega

theorem Swept.of_tsub {now : Int} {t t' : Table} (h : Swept now t) (hs : TSub t' t) : Swept now t' :=
  fun e he => h e (hs.1 e he)

/-! ## steps that only remove -/

/-- from `c` to `c'` the peer list lost keys at most, and the table lost entries at most -/
def Shrinks (c c' : Ctx) : Prop :=
  (∀ a ∈ c'.node.peers.map (·.1), a ∈ c.node.peers.map (·.1)) ∧ TSub c'.node.table c.node.table

theorem Shrinks.refl (c : Ctx) : Shrinks c c := ⟨fun _ h => h, TSub.refl _⟩

theorem Shrinks.trans {c1 c2 c3 : Ctx} (h1 : Shrinks c1 c2) (h2 : Shrinks c2 c3) : Shrinks c1 c3 :=
  ⟨fun a ha => h1.1 a (h2.1 a ha), h1.2.trans h2.2⟩

theorem Shrinks.of_eq {c c' : Ctx} (hk : c'.node.peers.map (·.1) = c.node.peers.map (·.1)) (ht : c'.node.table = c.node.table) :
    Shrinks c c' := ⟨fun _ ha => hk ▸ ha, ht ▸ TSub.refl _⟩

theorem Shrinks.foldl {β} (f : Ctx → β → Ctx) (hf : ∀ c x, Shrinks c (f c x)) : ∀ (l : List β) (c : Ctx), Shrinks c (l.foldl f c)
  | [], c => Shrinks.refl c
  | x :: l, c => (hf c x).trans (Shrinks.foldl f hf l (f c x))

/-- the address `a` is not a peer and the routing table holds nothing of its id -/
def Gone (a : NAddr) (c : Ctx) : Prop := a ∉ c.node.peers.map (·.1) ∧ NoRoutes (addrId a) c.node.table

theorem Gone.of_shrinks {a : NAddr} {c c' : Ctx} (h : Gone a c) (hs : Shrinks c c') : Gone a c' :=
  ⟨fun ha => h.1 (hs.1 a ha), h.2.of_tsub hs.2⟩

/-- dropping a peer together with its table entries (the common part of all removal paths) -/
theorem erase_shrinks (c : Ctx) (now : Int) (hnow : 0 < now) (a : NAddr) :
    Shrinks c { c with node := { c.node with peers := eraseA c.node.peers a, table := c.node.table.removeClaims now (addrId a) } } :=
  ⟨fun _ hb => key_mem_eraseA hb, removeClaims_tsub _ now hnow _⟩

theorem erase_gone (c : Ctx) (now : Int) (hnow : 0 < now) (a : NAddr) :
    Gone a { c with node := { c.node with peers := eraseA c.node.peers a, table := c.node.table.removeClaims now (addrId a) } } :=
  ⟨fun ha => ((key_mem_eraseA_iff _ _ _).1 ha).2 rfl, removeClaims_noRoutes _ now hnow _⟩

theorem connectSock_shrinks (env : CryptoEnv) (o : Oracle) (c : Ctx) (a : NAddr) : Shrinks c (connectSock env o c a) :=
  Shrinks.of_eq (by rw [connectSock_peers]) (C01MoreLemmas.connectSock_table env o c a)

theorem connect_shrinks (env : CryptoEnv) (o : Oracle) (c : Ctx) (l : List NAddr) : Shrinks c (connect env o c l) :=
  Shrinks.of_eq (by rw [connect_peers]) (C01MoreLemmas.connect_table env o c l)

theorem sendMsg_table (o : Oracle) (c : Ctx) (a : NAddr) (ty : Nat) (body : Bytes) :
    ((sendMsg o c a ty body).getD c).node.table = c.node.table := by
  unfold sendMsg
  split
  · rfl
  · simp only []
    split <;> rfl

theorem broadcastMsg_table (o : Oracle) (c : Ctx) (ty : Nat) (body : Bytes) : (broadcastMsg o c ty body).node.table = c.node.table := by
  unfold broadcastMsg
  exact foldl_proj (·.node.table) _ (fun c a => sendMsg_table o c a ty body) _ _

theorem sendMsg_droppedIn (o : Oracle) (c : Ctx) (a : NAddr) (ty : Nat) (body : Bytes) :
    ((sendMsg o c a ty body).getD c).node.droppedIn = c.node.droppedIn := by
  unfold sendMsg
  split
  · rfl
  · simp only []
    split <;> rfl

theorem broadcastMsg_droppedIn (o : Oracle) (c : Ctx) (ty : Nat) (body : Bytes) : (broadcastMsg o c ty body).node.droppedIn = c.node.droppedIn := by
  unfold broadcastMsg
  exact foldl_proj (·.node.droppedIn) _ (fun c a => sendMsg_droppedIn o c a ty body) _ _

theorem hkAnnounce_table (o : Oracle) (c : Ctx) (now : Int) : (hkAnnounce o c now).node.table = c.node.table := by
  unfold hkAnnounce
  split
  · simp only []
    split
    · exact broadcastMsg_table o c _ _
    · exact broadcastMsg_table o c _ _
  · rfl

theorem hkAnnounce_shrinks (o : Oracle) (c : Ctx) (now : Int) : Shrinks c (hkAnnounce o c now) :=
  Shrinks.of_eq (C15MoreLemmas.hkAnnounce_rest o c now).2.2.2 (hkAnnounce_table o c now)

theorem reconnectToPeers_table (env : CryptoEnv) (o : Oracle) (c : Ctx) (now : Int) :
    (reconnectToPeers env o c now).node.table = c.node.table := by
  unfold reconnectToPeers
  simp only []
  apply C01MoreLemmas.foldl_table
  intro c e
  split
  · rfl
  · exact C01MoreLemmas.connect_table env o c _

theorem reconnectToPeers_shrinks (env : CryptoEnv) (o : Oracle) (c : Ctx) (now : Int) : Shrinks c (reconnectToPeers env o c now) :=
  Shrinks.of_eq (by rw [reconnectToPeers_peers]) (reconnectToPeers_table env o c now)

theorem hkOwn_table (c : Ctx) (now : Int) : (hkOwn c now).node.table = c.node.table := by
  unfold hkOwn
  split <;> rfl

theorem hkOwn_shrinks (c : Ctx) (now : Int) : Shrinks c (hkOwn c now) :=
  Shrinks.of_eq (by rw [C15MoreLemmas.hkOwn_peers]) (hkOwn_table c now)

theorem hkSweep_shrinks (c : Ctx) (now : Int) : Shrinks c (hkSweep c now) := ⟨fun _ h => h, housekeep_tsub _ now⟩

theorem deadStep_shrinks (env : CryptoEnv) (o : Oracle) (now : Int) (hnow : 0 < now) (c : Ctx) (a : NAddr) :
    Shrinks c (deadStep env o now c a) :=
  (erase_shrinks c now hnow a).trans (connectSock_shrinks env o _ a)

theorem deadStep_gone (env : CryptoEnv) (o : Oracle) (now : Int) (hnow : 0 < now) (c : Ctx) (a : NAddr) :
    Gone a (deadStep env o now c a) :=
  (erase_gone c now hnow a).of_shrinks (connectSock_shrinks env o _ a)

theorem pendLoop_shrinks (o : Oracle) (c : Ctx) : Shrinks c (pendLoop o c) :=
  Shrinks.of_eq (by rw [pendLoop_peers]) (pendLoop_table o c)

theorem peerStep_shrinks (env : CryptoEnv) (o : Oracle) (now : Int) (hnow : 0 < now) (c : Ctx) (a : NAddr) :
    Shrinks c (peerStep env o now c a) := by
  unfold peerStep
  split
  · exact Shrinks.refl c
  · rename_i p hp
    split
    split
    · exact (erase_shrinks c now hnow a).trans (connectSock_shrinks env o _ a)
    · exact Shrinks.of_eq rfl rfl
    · rename_i pc' out res log _
      have hins : Shrinks c (addLog log { c with node := { c.node with peers := insertA c.node.peers a { p with crypto := pc' } } }) :=
        Shrinks.of_eq (insertA_keys_of_some _ _ _ _ hp) rfl
      split
      · exact hins
      · exact hins

theorem peerLoop_shrinks (env : CryptoEnv) (o : Oracle) (now : Int) (hnow : 0 < now) (c : Ctx) : Shrinks c (peerLoop env o c now) :=
  Shrinks.foldl _ (peerStep_shrinks env o now hnow) _ _

theorem cryptoHousekeep_shrinks (env : CryptoEnv) (o : Oracle) (now : Int) (hnow : 0 < now) (c : Ctx) :
    Shrinks c (cryptoHousekeep env o c now) := by
  rw [cryptoHousekeep_eq]
  exact (pendLoop_shrinks o c).trans (peerLoop_shrinks env o now hnow _)

/-- the part of `housekeep` after `crypto_housekeep` -/
theorem hkTail_shrinks (env : CryptoEnv) (o : Oracle) (now : Int) (c : Ctx) :
    Shrinks c (hkOwn (reconnectToPeers env o (hkAnnounce o c now) now) now) :=
  ((hkAnnounce_shrinks o c now).trans (reconnectToPeers_shrinks env o _ now)).trans (hkOwn_shrinks _ now)

/-- the part of `housekeep` after the loop over the expired peers -/
theorem hkRest_shrinks (env : CryptoEnv) (o : Oracle) (now : Int) (hnow : 0 < now) (c : Ctx) :
    Shrinks c (hkOwn (reconnectToPeers env o (hkAnnounce o (cryptoHousekeep env o (hkSweep c now) now) now) now) now) :=
  ((hkSweep_shrinks c now).trans (cryptoHousekeep_shrinks env o now hnow _)).trans (hkTail_shrinks env o now _)

theorem hkDead_shrinks (env : CryptoEnv) (o : Oracle) (n : Node) (now : Int) (hnow : 0 < now) : Shrinks { node := n } (hkDead env o n now) := by
  rw [hkDead_eq]
  exact Shrinks.foldl _ (deadStep_shrinks env o now hnow) _ _

/-- the whole tick: no peer address and no table entry is added -/
theorem housekeep_shrinks (env : CryptoEnv) (o : Oracle) (n : Node) (now : Int) (hnow : 0 < now) :
    Shrinks { node := n } (housekeep env o n now) := by
  rw [housekeep_eq]
  exact (hkDead_shrinks env o n now hnow).trans (hkRest_shrinks env o now hnow _)

/-! ## the two loops that remove peers -/

/-- the loop over the expired peers: an address in the list is gone afterwards -/
theorem deadFold_gone (env : CryptoEnv) (o : Oracle) (now : Int) (hnow : 0 < now) (a : NAddr) :
    ∀ (dead : List NAddr) (c : Ctx), a ∈ dead ∨ Gone a c → Gone a (dead.foldl (deadStep env o now) c)
  | [], c, h => by
    rcases h with h | h
    · cases h
    · exact h
  | b :: l, c, h => by
    rw [List.foldl_cons]
    apply deadFold_gone env o now hnow a l
    rcases h with h | h
    · rcases List.mem_cons.1 h with rfl | h
      · exact Or.inr (deadStep_gone env o now hnow c a)
      · exact Or.inl h
    · exact Or.inr (h.of_shrinks (deadStep_shrinks env o now hnow c b))

/-- one round of the second loop of `crypto_housekeep` for a peer whose `every_second` fails -/
theorem peerStep_gone (env : CryptoEnv) (o : Oracle) (now : Int) (hnow : 0 < now) (c : Ctx) (a : NAddr) (p : Peer)
    (hp : lookupA c.node.peers a = some p) (hfail : ∀ rr, ∃ pc' e, PeerCrypto.everySecond p.crypto rr = .err pc' e) :
    Gone a (peerStep env o now c a) := by
  unfold peerStep
  rw [hp]
  simp only []
  obtain ⟨pc', e, he⟩ := hfail (rndFor o c a).2.1
  rw [he]
  exact (erase_gone c now hnow a).of_shrinks (connectSock_shrinks env o _ a)

theorem peerFold_gone (env : CryptoEnv) (o : Oracle) (now : Int) (hnow : 0 < now) (a : NAddr) (p : Peer)
    (hfail : ∀ rr, ∃ pc' e, PeerCrypto.everySecond p.crypto rr = .err pc' e) :
    ∀ (l : List NAddr) (c : Ctx), (a ∈ l ∧ lookupA c.node.peers a = some p) ∨ Gone a c → Gone a (l.foldl (peerStep env o now) c)
  | [], c, h => by
    rcases h with ⟨h, _⟩ | h
    · cases h
    · exact h
  | b :: l, c, h => by
    rw [List.foldl_cons]
    apply peerFold_gone env o now hnow a p hfail l
    rcases h with ⟨hm, hp⟩ | h
    · by_cases hab : a = b
      · subst hab
        exact Or.inr (peerStep_gone env o now hnow c a p hp hfail)
      · refine Or.inl ⟨?_, ?_⟩
        · rcases List.mem_cons.1 hm with h | h
          · exact absurd h hab
          · exact h
        · rw [peerStep_lookup_ne env o now c hab]; exact hp
    · exact Or.inr (h.of_shrinks (peerStep_shrinks env o now hnow c b))

/-- `crypto_housekeep`: a peer whose `every_second` fails (whatever randomness it is given) is gone afterwards -/
theorem cryptoHousekeep_gone (env : CryptoEnv) (o : Oracle) (now : Int) (hnow : 0 < now) (c : Ctx) (a : NAddr) (p : Peer)
    (hp : lookupA c.node.peers a = some p) (hfail : ∀ rr, ∃ pc' e, PeerCrypto.everySecond p.crypto rr = .err pc' e) :
    Gone a (cryptoHousekeep env o c now) := by
  rw [cryptoHousekeep_eq]
  unfold peerLoop
  apply peerFold_gone env o now hnow a p hfail
  left
  rw [pendLoop_peers]
  exact ⟨mem_key (lookupA_some_mem hp), hp⟩

/-! ### the converse for the second loop: a key that disappears was removed by a failing `every_second` -/

/-- the keys after one round: the same, or without `a` because the session stored for `a` failed -/
theorem peerStep_keys (env : CryptoEnv) (o : Oracle) (now : Int) (c : Ctx) (a : NAddr) :
    (peerStep env o now c a).node.peers.map (·.1) = c.node.peers.map (·.1) ∨
    ((∃ p rr pc' e, lookupA c.node.peers a = some p ∧ PeerCrypto.everySecond p.crypto rr = .err pc' e) ∧
      (peerStep env o now c a).node.peers.map (·.1) = (c.node.peers.map (·.1)).filter (fun b => b ≠ a)) := by
  unfold peerStep
  split
  · exact Or.inl rfl
  · rename_i p hp
    split
    rename_i rr _ _
    split
    · rename_i pc' e he
      right
      refine ⟨⟨p, rr, pc', e, hp, he⟩, ?_⟩
      rw [connectSock_peers]
      exact keys_eraseA _ _
    · exact Or.inl rfl
    · rename_i pc' out res log _
      left
      split
      · exact insertA_keys_of_some _ _ _ _ hp
      · exact insertA_keys_of_some _ _ _ _ hp

/-- the session whose `every_second` failed, for the address `a`, among the records of `c0` -/
def FailedIn (c0 : Ctx) (a : NAddr) : Prop :=
  ∃ p rr pc' e, lookupA c0.node.peers a = some p ∧ PeerCrypto.everySecond p.crypto rr = .err pc' e

theorem peerFold_left (env : CryptoEnv) (o : Oracle) (now : Int) (c0 : Ctx) :
    ∀ (l : List NAddr) (c : Ctx), l.Nodup → (∀ a ∈ l, lookupA c.node.peers a = lookupA c0.node.peers a) →
      ∀ a, a ∈ c.node.peers.map (·.1) → a ∉ (l.foldl (peerStep env o now) c).node.peers.map (·.1) → FailedIn c0 a
  | [], _, _, _, a, ha, hna => absurd ha hna
  | b :: l, c, hnd, hl, a, ha, hna => by
    rw [List.foldl_cons] at hna
    obtain ⟨hbl, hnd'⟩ := List.nodup_cons.1 hnd
    have hl' : ∀ x ∈ l, lookupA (peerStep env o now c b).node.peers x = lookupA c0.node.peers x := by
      intro x hx
      rw [peerStep_lookup_ne env o now c (fun (e : x = b) => hbl (e ▸ hx))]
      exact hl x (List.mem_cons_of_mem _ hx)
    by_cases hstill : a ∈ (peerStep env o now c b).node.peers.map (·.1)
    · exact peerFold_left env o now c0 l _ hnd' hl' a hstill hna
    · rcases peerStep_keys env o now c b with hk | ⟨⟨p, rr, pc', e, hp, he⟩, hk⟩
      · rw [hk] at hstill; exact absurd ha hstill
      · rw [hk, List.mem_filter] at hstill
        have hab : a = b := by
          by_cases hab : a = b
          · exact hab
          · exact absurd ⟨ha, by simpa using hab⟩ hstill
        subst hab
        exact ⟨p, rr, pc', e, by rw [← hl a List.mem_cons_self]; exact hp, he⟩

/-- `crypto_housekeep` (distinct peer addresses): an address that is no longer a peer afterwards had a session whose `every_second` failed -/
theorem cryptoHousekeep_left (env : CryptoEnv) (o : Oracle) (now : Int) (c : Ctx) (hnd : (c.node.peers.map (·.1)).Nodup)
    (a : NAddr) (ha : a ∈ c.node.peers.map (·.1)) (hna : a ∉ (cryptoHousekeep env o c now).node.peers.map (·.1)) :
    ∃ p rr pc' e, lookupA c.node.peers a = some p ∧ PeerCrypto.everySecond p.crypto rr = .err pc' e := by
  rw [cryptoHousekeep_eq] at hna
  unfold peerLoop at hna
  have hpl := pendLoop_peers o c
  obtain ⟨p, rr, pc', e, hp, he⟩ := peerFold_left env o now (pendLoop o c) _ (pendLoop o c) (by rw [hpl]; exact hnd) (fun _ _ => rfl) a
    (by rw [hpl]; exact ha) hna
  exact ⟨p, rr, pc', e, by rw [← hpl]; exact hp, he⟩

/-! ## which results of the session layer make `handle_message` drop a key of the peer list -/

theorem addNewPeer_keys_sup (env : CryptoEnv) (o : Oracle) (c : Ctx) (now : Int) (s : NAddr) (info : NodeInfo) (a : NAddr)
    (ha : a ∈ c.node.peers.map (·.1)) : a ∈ (addNewPeer env o c now s info).node.peers.map (·.1) := by
  unfold addNewPeer
  simp only []
  split
  · exact ha
  · rw [updatePeerInfo_keys]
    exact key_mem_insertA_of_mem _ _ _ _ ha

theorem removePeer_left (c : Ctx) (now : Int) (s a : NAddr) (ha : a ∈ c.node.peers.map (·.1))
    (hna : a ∉ (removePeer c now s).node.peers.map (·.1)) : a = s := by
  unfold removePeer at hna
  simp only [] at hna
  split at hna
  · exact absurd ha hna
  · by_cases has : a = s
    · exact has
    · exact absurd ((key_mem_eraseA_iff _ _ _).2 ⟨ha, has⟩) hna

/-- `handle_message` drops a key of the peer list only for a CLOSE message, and then the key of the sender -/
theorem handleResult_left (env : CryptoEnv) (o : Oracle) (c : Ctx) (now : Int) (src : NAddr) (res : MsgResult) (out : Bytes) (a : NAddr)
    (ha : a ∈ c.node.peers.map (·.1)) (hna : a ∉ (handleResult env o c now src res out).1.node.peers.map (·.1)) :
    a = src ∧ ∃ body, res = .message Generated.MESSAGE_TYPE_CLOSE body := by
  unfold handleResult at hna
  cases res with
  | message ty data =>
    simp only [] at hna
    split at hna
    · split at hna
      · exact absurd ha hna
      · split at hna
        · exact absurd ha hna
        · exact absurd ha hna
    · split at hna
      · split at hna
        · exact absurd ha hna
        · rw [updatePeerInfo_keys] at hna; exact absurd ha hna
      · split at hna
        · rw [updatePeerInfo_keys] at hna; exact absurd ha hna
        · split at hna
          · rename_i hty
            exact ⟨removePeer_left c now src a ha hna, data, by rw [hty]⟩
          · exact absurd ha hna
  | initialized payload =>
    simp only [] at hna
    split at hna
    · exact absurd (addNewPeer_keys_sup env o c now src _ a ha) hna
    · exact absurd ha hna
  | initializedWithReply payload =>
    simp only [] at hna
    split at hna
    · exact absurd (addNewPeer_keys_sup env o c now src _ a ha) hna
    · exact absurd ha hna
  | reply => exact absurd ha hna
  | none => exact absurd ha hna

theorem applyOutcome_left (env : CryptoEnv) (o : Oracle) (c : Ctx) (now : Int) (src : NAddr) (inPeers : Bool) (r : POutcome MsgResult) (a : NAddr)
    (ha : a ∈ c.node.peers.map (·.1)) (hna : a ∉ (applyOutcome env o c now src inPeers r).1.node.peers.map (·.1)) :
    a = src ∧ ∃ pc out body log, r = .ok pc out (.message Generated.MESSAGE_TYPE_CLOSE body) log := by
  rw [applyOutcome_eq] at hna
  have hk := C01MoreLemmas.storePc_keys c src inPeers
  cases r with
  | panic => exact absurd ha hna
  | err pc e =>
    have : (countInvalid (storePc c src inPeers pc)).node.peers.map (·.1) = c.node.peers.map (·.1) := hk pc
    simp only [] at hna
    rw [this] at hna
    exact absurd ha hna
  | ok pc out res log =>
    simp only [] at hna
    obtain ⟨h1, body, h2⟩ := handleResult_left env o _ now src res out a (by rw [addLog_node, hk]; exact ha) hna
    exact ⟨h1, pc, out, body, log, by rw [h2]⟩

theorem responder_left (env : CryptoEnv) (bodyOf : Init.BodyOf) (o : Oracle) (n : Node) (now : Int) (src : NAddr) (data tail : Bytes)
    (rnd : Rand) (rr : RotRand) (hash : Option Bytes) (a : NAddr) (ha : a ∈ n.peers.map (·.1)) :
    a ∈ (responder env bodyOf o n now src data tail rnd rr hash).1.node.peers.map (·.1) := by
  have hf := handleMessage_fresh env bodyOf payloadOk (newAttempt n (hash.getD [])) data tail rnd rr ⟨rfl, rfl⟩
  unfold responder
  simp only []
  generalize PeerCrypto.handleMessage env bodyOf payloadOk (newAttempt n (hash.getD [])) data tail rnd rr = r at hf
  cases r with
  | panic => exact ha
  | err pc e => exact ha
  | ok pc out res log =>
    simp only []
    apply Classical.byContradiction
    intro hna
    obtain ⟨_, body, h2⟩ := handleResult_left env o (addLog log { node := { n with pending := insertA n.pending src pc } }) now src res out a ha hna
    subst h2
    exact C01MoreLemmas.freshOut_no_message hf

/-- `handle_net_message` drops a key of the peer list only if the sender is an established peer, the datagram carries no handshake
    marker and the peer's session opens it as a CLOSE message -/
theorem dispatch_left (env : CryptoEnv) (bodyOf : Init.BodyOf) (o : Oracle) (n : Node) (now : Int) (s : NAddr) (data tail : Bytes) (a : NAddr)
    (ha : a ∈ n.peers.map (·.1)) (hna : a ∉ (dispatch env bodyOf o n now s data tail).1.node.peers.map (·.1)) :
    a = s ∧ ∃ p pc out body log, lookupA n.peers s = some p ∧ data.head? ≠ some Generated.INIT_MESSAGE_FIRST_BYTE ∧
      PeerCrypto.handleMessage env bodyOf payloadOk p.crypto data tail (rndFor o { node := n } s).1 (rndFor o { node := n } s).2.1 =
        .ok pc out (.message Generated.MESSAGE_TYPE_CLOSE body) log := by
  have marker : ∀ (pc : PeerCrypto) (inPeers : Bool), data.head? = some Generated.INIT_MESSAGE_FIRST_BYTE →
      a ∈ (applyOutcome env o { node := n } now s inPeers
        (PeerCrypto.handleMessage env bodyOf payloadOk pc data tail (rndFor o { node := n } s).1 (rndFor o { node := n } s).2.1)).1.node.peers.map (·.1) := by
    intro pc inPeers hinit
    apply Classical.byContradiction
    intro h
    obtain ⟨_, pc', out, body, log, hr⟩ := applyOutcome_left env o { node := n } now s inPeers _ a ha h
    rcases C09MoreLemmas.handleMessage_marker_ok env bodyOf payloadOk pc pc' data tail _ _ out _ log hinit hr with h1 | ⟨pl, _, _, _, _, _, _, _, h1 | h1⟩ <;> cases h1
  unfold dispatch at hna
  simp only [] at hna
  split at hna
  · rename_i p hp
    split at hna
    · rename_i hni
      have hinit : data.head? ≠ some Generated.INIT_MESSAGE_FIRST_BYTE := by simpa using hni
      obtain ⟨h1, pc, out, body, log, hr⟩ := applyOutcome_left env o { node := n } now s true _ a ha hna
      exact ⟨h1, p, pc, out, body, log, hp, hinit, hr⟩
    · rename_i hni
      have hinit : data.head? = some Generated.INIT_MESSAGE_FIRST_BYTE := by simpa using hni
      split at hna
      · exact absurd (marker _ false hinit) hna
      · split at hna
        · exact absurd (marker _ true hinit) hna
        · exact absurd (responder_left env bodyOf o n now s data tail _ _ _ a ha) hna
  · rename_i pc hp hq
    obtain ⟨h1, _⟩ := applyOutcome_left env o { node := n } now s false _ a ha hna
    subst h1
    exact absurd ha ((lookupA_none_iff _ _).1 hp)
  · split at hna
    · exact absurd (responder_left env bodyOf o n now s data tail _ _ _ a ha) hna
    · exact absurd ha hna

/-! ## the Prop-level reading of `announceOk` -/

/-- what an announcement `cs` of the peer id `pid` at time `now` does to the table `t` (result `t'`) -/
structure Announced (t : Table) (now : Int) (pid : PeerId) (cs : List Range) (t' : Table) : Prop where
  /-- the timeouts of the table are not changed -/
  params : t'.cacheTimeout = t.cacheTimeout ∧ t'.claimTimeout = t.claimTimeout
  /-- the ranges attributed to `pid` are exactly the announced ones (as a set) -/
  exact : ∀ r, (∃ e ∈ t'.claims, e.peer = pid ∧ e.claim = r) ↔ r ∈ cs
  /-- … each with the expiry `now + claimTimeout` -/
  fresh : ∀ e ∈ t'.claims, e.peer = pid → e.timeout = now + t.claimTimeout
  /-- claims of other peers: untouched, except that the expired ones are swept; order kept -/
  others : t'.claims.filter (fun e => e.peer ≠ pid) = (t.claims.filter (fun e => e.peer ≠ pid)).filter (fun e => e.timeout ≥ now)
  /-- if a range of `pid` was dropped every cached decision of `pid` is gone -/
  dropped : (∃ e ∈ t.claims, e.peer = pid ∧ e.claim ∉ cs) → ∀ v ∈ t'.cache, v.peer ≠ pid
  /-- cached decisions of other peers: untouched, except that the expired ones are swept -/
  cacheOthers : ∀ v, v.peer ≠ pid → (v ∈ t'.cache ↔ v ∈ t.cache ∧ now ≤ v.timeout)
  /-- no cached decision is added or rewritten -/
  cacheSub : ∀ v ∈ t'.cache, v ∈ t.cache ∧ now ≤ v.timeout

theorem announced_setClaims (t : Table) (now : Int) (hnow : 0 < now) (pid : PeerId) (cs : List Range) :
    Announced t now pid cs (t.setClaims now pid cs) := by
  have hcache : ∀ v, v ∈ (t.setClaims now pid cs).cache →
      v ∈ t.cache ∧ now ≤ v.timeout ∧ ((Table.setClaimsLoop pid (now + t.claimTimeout) t.claims cs false).2.2 = true → v.peer ≠ pid) := by
    intro v hv
    rw [C12.setClaims_cache] at hv
    cases hf : (Table.setClaimsLoop pid (now + t.claimTimeout) t.claims cs false).2.2 with
    | true =>
      rw [hf] at hv
      simp only [if_true] at hv
      rw [TableLemmas.zero_filter_cache _ _ _ hnow, List.mem_filter] at hv
      have h2 := hv.2
      simp only [Bool.and_eq_true, decide_eq_true_eq] at h2
      exact ⟨hv.1, h2.2, fun _ => h2.1⟩
    | false =>
      rw [hf] at hv
      simp only [Bool.false_eq_true, if_false, List.mem_filter, decide_eq_true_eq] at hv
      exact ⟨hv.1, hv.2, fun h => by cases h⟩
  refine ⟨⟨rfl, rfl⟩, ?_, ?_, C12.setClaims_others t now pid cs, ?_, ?_, fun v hv => ⟨(hcache v hv).1, (hcache v hv).2.1⟩⟩
  · intro r
    constructor
    · rintro ⟨e, he, hp, rfl⟩
      exact (C12.setClaims_mem_peer t now pid cs hnow e he hp).2
    · intro hr
      obtain ⟨e, he, hp, hc⟩ := C12.setClaims_cover t now pid cs r hr
      exact ⟨e, he, hp, hc⟩
  · intro e he hp
    exact (C12.setClaims_mem_peer t now pid cs hnow e he hp).1
  · rintro ⟨e, he, hp, hc⟩ v hv
    apply (hcache v hv).2.2
    exact TableLemmas.loop_flag pid _ t.claims cs false (Or.inr ⟨e, he, hp, hc⟩)
  · intro v hvp
    constructor
    · intro hv
      exact ⟨(hcache v hv).1, (hcache v hv).2.1⟩
    · rintro ⟨hv, hto⟩
      rw [C12.setClaims_cache, List.mem_filter]
      refine ⟨?_, by simpa using hto⟩
      split
      · exact List.mem_map.2 ⟨v, hv, by rw [if_neg hvp]⟩
      · exact hv

/-! ## the table after a message from an established peer, by message type -/

theorem updatePeerInfo_table_some (env : CryptoEnv) (o : Oracle) (c : Ctx) (now : Int) (a : NAddr) (info : NodeInfo) (p : Peer)
    (hp : lookupA c.node.peers a = some p) :
    (updatePeerInfo env o c now a (some info)).node.table = c.node.table.setClaims now (addrId a) info.claims := by
  unfold updatePeerInfo
  simp only [hp]
  rw [C01MoreLemmas.connectToPeers_table]

theorem updatePeerInfo_table_none (env : CryptoEnv) (o : Oracle) (c : Ctx) (now : Int) (a : NAddr) :
    (updatePeerInfo env o c now a none).node.table = c.node.table := by
  unfold updatePeerInfo
  simp only []
  split <;> rfl

theorem addNewPeer_table (env : CryptoEnv) (o : Oracle) (c : Ctx) (now : Int) (a : NAddr) (info : NodeInfo) (pc : PeerCrypto)
    (hp : lookupA c.node.pending a = some pc) :
    (addNewPeer env o c now a info).node.table = c.node.table.setClaims now (addrId a) info.claims := by
  unfold addNewPeer
  simp only [hp]
  rw [updatePeerInfo_table_some env o _ now a info _ (lookupA_insertA_self _ _ _)]

/-- the table after `handle_message` for a decrypted message of type `ty` from the established peer `s` -/
theorem handleResult_message_table (env : CryptoEnv) (o : Oracle) (c : Ctx) (now : Int) (s : NAddr) (ty : Nat) (body out : Bytes) (q : Peer)
    (hq : lookupA c.node.peers s = some q) :
    (handleResult env o c now s (.message ty body) out).1.node.table =
      if ty = Generated.MESSAGE_TYPE_DATA then
        match parseAddrs c.node body with
        | some (sa, _) => if c.node.cfg.learning then c.node.table.learn now sa (addrId s) else c.node.table
        | none => c.node.table
      else if ty = Generated.MESSAGE_TYPE_NODE_INFO then
        match Codec.decodeNodeInfo body with
        | some i => c.node.table.setClaims now (addrId s) i.claims
        | none => c.node.table
      else if ty = Generated.MESSAGE_TYPE_KEEPALIVE then c.node.table
      else if ty = Generated.MESSAGE_TYPE_CLOSE then c.node.table.removeClaims now (addrId s)
      else c.node.table := by
  unfold handleResult
  simp only []
  by_cases h0 : ty = Generated.MESSAGE_TYPE_DATA
  · rw [if_pos h0, if_pos h0]
    cases hpa : parseAddrs c.node body with
    | none => rfl
    | some r =>
      obtain ⟨sa, da⟩ := r
      simp only []
      split <;> rfl
  · rw [if_neg h0, if_neg h0]
    by_cases h1 : ty = Generated.MESSAGE_TYPE_NODE_INFO
    · rw [if_pos h1, if_pos h1]
      cases hd : Codec.decodeNodeInfo body with
      | none => rfl
      | some i => exact updatePeerInfo_table_some env o c now s i q hq
    · rw [if_neg h1, if_neg h1]
      by_cases h2 : ty = Generated.MESSAGE_TYPE_KEEPALIVE
      · rw [if_pos h2, if_pos h2]
        exact updatePeerInfo_table_none env o c now s
      · rw [if_neg h2, if_neg h2]
        by_cases h3 : ty = Generated.MESSAGE_TYPE_CLOSE
        · rw [if_pos h3, if_pos h3]
          unfold removePeer
          simp only [hq]
        · rw [if_neg h3, if_neg h3]
          rfl

/-! ## whether `every_second` of a session fails does not depend on the randomness it is given -/

theorem cycle_msg_isSome (s : Rot.Side) (f f' : Nat) : (Rot.cycle s f).2.isSome = (Rot.cycle s f').2.isSome := by
  cases hp : s.proposed with
  | some p =>
    by_cases ht : s.timeout = true
    · cases hcf : s.confirmed <;> simp [Rot.cycle, hp, ht, hcf]
    · simp [Rot.cycle, hp, ht]
  | none =>
    cases hpe : s.pending <;> simp [Rot.cycle, hp, hpe]

theorem installKey_of_core_none (pc : PeerCrypto) (key : Rot.Key) (id : Nat) (use : Bool) (starts : List Nat) (h : pc.core = none) :
    PeerCrypto.installKey pc key id use starts = pc := by
  unfold PeerCrypto.installKey
  rw [h]

theorem sealMsg_of_cannot (pc : PeerCrypto) (plain ct : Bytes) (hu : pc.unencrypted = false) (hc : pc.core = none) :
    PeerCrypto.sealMsg pc plain ct = (pc, .error .state) := by
  unfold PeerCrypto.sealMsg
  rw [hu, hc]
  rfl

theorem tickRot_err_indep (pc2 pc' : PeerCrypto) (rr rr' : RotRand) (e : InitErr) (h : tickRot pc2 rr = .err pc' e) :
    ∃ pc'' e', tickRot pc2 rr' = .err pc'' e' := by
  obtain ⟨hu, hc⟩ := C09MoreLemmas.tickRot_err pc2 pc' rr e h
  unfold tickRot at h ⊢
  cases hr : pc2.rot with
  | none => rw [hr] at h; cases h
  | some sd =>
    rw [hr] at h
    simp only [] at h ⊢
    by_cases hcnt : pc2.rotateCounter + 1 < Generated.ROTATE_INTERVAL
    · rw [if_pos hcnt] at h; cases h
    · rw [if_neg hcnt] at h ⊢
      have hm := cycle_msg_isSome sd rr.freshProp rr'.freshProp
      rcases hcy : Rot.cycle sd rr.freshProp with ⟨sd1, m1⟩
      rcases hcy' : Rot.cycle sd rr'.freshProp with ⟨sd2, m2⟩
      rw [hcy, hcy'] at hm
      rw [hcy] at h
      simp only [] at h hm ⊢
      cases m1 with
      | none => simp only [] at h; cases h
      | some m =>
        cases m2 with
        | none => cases hm
        | some m' =>
          simp only []
          have hcore : ∀ (b : Bool) (key : Rot.Key) (id : Nat) (st : List Nat),
              (if b = true then PeerCrypto.installKey { pc2 with rotateCounter := 0, rot := some sd2 } key id false st
                else { pc2 with rotateCounter := 0, rot := some sd2 }) = { pc2 with rotateCounter := 0, rot := some sd2 } := by
            intro b key id st
            split
            · exact installKey_of_core_none _ _ _ _ _ hc
            · rfl
          rw [hcore, sealMsg_of_cannot { pc2 with rotateCounter := 0, rot := some sd2 } _ _ hu hc]
          exact ⟨_, _, rfl⟩

theorem everySecond_err_indep (pc pc' : PeerCrypto) (rr rr' : RotRand) (e : InitErr) (h : PeerCrypto.everySecond pc rr = .err pc' e) :
    ∃ pc'' e', PeerCrypto.everySecond pc rr' = .err pc'' e' := by
  rw [everySecond_eq] at h ⊢
  rcases ht : tick1 pc with ⟨pc1, r⟩
  rw [ht] at h
  cases r with
  | error e1 => exact ⟨_, _, rfl⟩
  | ok out =>
    simp only [] at h ⊢
    split at h
    · cases h
    · rename_i hemp
      rw [if_neg hemp]
      exact tickRot_err_indep _ _ rr rr' _ h

/-- the universal form used by the fold lemmas above -/
theorem everySecond_fails_all (pc : PeerCrypto) (h : ∃ rr pc' e, PeerCrypto.everySecond pc rr = .err pc' e) :
    ∀ rr, ∃ pc' e, PeerCrypto.everySecond pc rr = .err pc' e := by
  obtain ⟨rr0, pc', e, he⟩ := h
  exact fun rr => everySecond_err_indep pc pc' rr0 rr e he

end VpnCloud.Proofs.C12MoreLemmas
