import VpnCloud.Model.Node
import VpnCloud.Proofs.C10More
import VpnCloud.Proofs.C15More
import VpnCloud.Proofs.C13
import VpnCloud.Proofs.C13Node
import VpnCloud.Proofs.C12Node
import VpnCloud.Proofs.Lemmas.C09MoreLemmas
import VpnCloud.Proofs.Lemmas.C01MoreLemmas
import VpnCloud.Proofs.C01More
/-
  Helper lemmas for `Proofs/C13More.lean` (switch learning at node level):

  * the node state after a DATA / CLOSE message from an established peer (`handleNet_data`, `handleNet_close`),
  * `handle_interface_data` as "look up, then route" (`handleIface_eq`), and the fact that the table enters the routing only
    through the answer of the lookup (`route_setT`),
  * frames: what `Frame::parse` returns on tagged / untagged frames given by their fields,
  * tables that only shrink (`TShrink`) and tables without entries of one peer (`NoPeer`), through `housekeep`,
  * `handle_net_message` in a node that does not learn: at most one table operation, none of them `learn` (`TblNL`).
-/
namespace VpnCloud.Proofs.C13MoreLemmas

open VpnCloud VpnCloud.Node VpnCloud.Table
open VpnCloud.Proofs.NodeLemmas VpnCloud.Proofs.NodeLemmas2 VpnCloud.Proofs.NodeInvLemmas VpnCloud.Proofs.C10MoreLemmas

/-! ## the node after a DATA / CLOSE message of an established peer -/

/-- the node after a DATA message `f` (source address `S`) from the established peer `src`: the session state is stored, the frame is
    written to the interface, and — in learning mode — `S` is learned for the sender -/
theorem handleNet_data {env : CryptoEnv} {bodyOf : Init.BodyOf} {o : Oracle} {n : Node} {src : NAddr} {data tail : Bytes}
    {p : Peer} {pc : PeerCrypto} {f : Bytes}
    (h : C15More.FromPeer env bodyOf o n src data tail p pc Generated.MESSAGE_TYPE_DATA f) (now : Int) (S D : Addr)
    (hp : parseAddrs n f = some (S, D)) :
    (handleNet env bodyOf o n now src data tail).1.node =
      { n with peers := insertA n.peers (mappedAddr src) { p with crypto := pc },
               table := if n.cfg.learning then n.table.learn now S (addrId (mappedAddr src)) else n.table } ∧
    (handleNet env bodyOf o n now src data tail).1.outs = [Out.iface f] := by
  obtain ⟨out, log, hm⟩ := h.opened
  rw [C15MoreLemmas.handleNet_established env bodyOf o n now src data tail p pc out _ log h.peer h.plain hm]
  have hpa : parseAddrs (addLog log { node := { n with peers := insertA n.peers (mappedAddr src) { p with crypto := pc } } }).node f
      = some (S, D) := by
    rw [← hp]; exact parseAddrs_congr _ _ _ rfl
  unfold handleResult
  simp only [if_true, hpa]
  by_cases hl : n.cfg.learning = true
  · simp only [addLog_node, hl, if_true]
    rw [finish_of_not_fatal _ _ _ (by simp)]
    exact ⟨rfl, rfl⟩
  · have hl' : n.cfg.learning = false := by simpa using hl
    simp only [addLog_node, hl', Bool.false_eq_true, if_false]
    rw [finish_of_not_fatal _ _ _ (by simp)]
    exact ⟨rfl, rfl⟩

/-- the node after a CLOSE message from the established peer `src`: the peer is dropped, its claims and learned addresses are removed -/
theorem handleNet_close {env : CryptoEnv} {bodyOf : Init.BodyOf} {o : Oracle} {n : Node} {src : NAddr} {data tail : Bytes}
    {p : Peer} {pc : PeerCrypto} {body : Bytes}
    (h : C15More.FromPeer env bodyOf o n src data tail p pc Generated.MESSAGE_TYPE_CLOSE body) (now : Int) :
    (handleNet env bodyOf o n now src data tail).1.node =
      { n with peers := eraseA n.peers (mappedAddr src), table := n.table.removeClaims now (addrId (mappedAddr src)) } ∧
    (handleNet env bodyOf o n now src data tail).1.outs = [] := by
  obtain ⟨out, log, hm⟩ := h.opened
  rw [C15MoreLemmas.handleNet_established env bodyOf o n now src data tail p pc out _ log h.peer h.plain hm]
  unfold handleResult
  simp only []
  rw [if_neg (by decide), if_neg (by decide), if_neg (by decide), if_pos trivial]
  unfold removePeer
  simp only [addLog_node, lookupA_insertA_self, C15MoreLemmas.eraseA_insertA_self]
  rw [finish_of_not_fatal _ _ _ (by simp)]
  exact ⟨rfl, rfl⟩

/-! ## `handle_interface_data` = look up, then route -/

/-- replace the table of a context -/
def setT (t : Table) (c : Ctx) : Ctx := { c with node := { c.node with table := t } }

/-- what `handle_interface_data` does with the answer `r` of the table -/
def route (o : Oracle) (c : Ctx) (r : Option PeerId) (data : Bytes) : Ctx :=
  match r with
  | some pid =>
    match (c.node.peers.map (·.1)).find? (fun a => addrId a = pid) with
    | some a => (sendMsg o c a Generated.MESSAGE_TYPE_DATA data).getD c
    | none => c
  | none =>
    if c.node.cfg.broadcast then broadcastMsg o c Generated.MESSAGE_TYPE_DATA data
    else { c with node := { c.node with droppedOut := c.node.droppedOut + 1 } }

theorem handleIface_eq (o : Oracle) (n : Node) (now : Int) (data : Bytes) :
    handleIface o n now data =
      match parseAddrs n data with
      | none => { node := n }
      | some (_, dst) => route o { node := { n with table := (n.table.lookup now dst).1 } } (n.table.lookup now dst).2 data := by
  unfold handleIface
  cases parseAddrs n data with
  | none => rfl
  | some x =>
    rcases x with ⟨s, dst⟩
    simp only []
    rcases n.table.lookup now dst with ⟨tb, r⟩
    cases r <;> rfl

theorem sendMsg_setT (o : Oracle) (t : Table) (c : Ctx) (a : NAddr) (ty : Nat) (body : Bytes) :
    sendMsg o (setT t c) a ty body = (sendMsg o c a ty body).map (setT t) := by
  unfold sendMsg
  show (match lookupA c.node.peers a with | none => none | some p => _) = _
  cases lookupA c.node.peers a with
  | none => rfl
  | some p =>
    simp only []
    have hr : rndFor o (setT t c) a = rndFor o c a := rfl
    rw [hr]
    rcases PeerCrypto.sendMessage p.crypto ty body (rndFor o c a).2.1.ct with ⟨pc', r⟩
    cases r with
    | error e => rfl
    | ok x => rcases x with ⟨bytes, log⟩; rfl

theorem sendMsg_getD_setT (o : Oracle) (t : Table) (c : Ctx) (a : NAddr) (ty : Nat) (body : Bytes) :
    (sendMsg o (setT t c) a ty body).getD (setT t c) = setT t ((sendMsg o c a ty body).getD c) := by
  rw [sendMsg_setT]
  cases sendMsg o c a ty body <;> rfl

theorem foldl_sendMsg_setT (o : Oracle) (t : Table) (ty : Nat) (body : Bytes) :
    ∀ (l : List NAddr) (c : Ctx), l.foldl (fun c a => (sendMsg o c a ty body).getD c) (setT t c) =
      setT t (l.foldl (fun c a => (sendMsg o c a ty body).getD c) c)
  | [], _ => rfl
  | a :: l, c => by
    rw [List.foldl_cons, List.foldl_cons, sendMsg_getD_setT]
    exact foldl_sendMsg_setT o t ty body l _

theorem broadcastMsg_setT (o : Oracle) (t : Table) (c : Ctx) (ty : Nat) (body : Bytes) :
    broadcastMsg o (setT t c) ty body = setT t (broadcastMsg o c ty body) := by
  unfold broadcastMsg
  exact foldl_sendMsg_setT o t ty body _ c

/-- the table enters the routing of a frame only through the answer of the lookup -/
theorem route_setT (o : Oracle) (t : Table) (c : Ctx) (r : Option PeerId) (data : Bytes) :
    route o (setT t c) r data = setT t (route o c r data) := by
  unfold route
  cases r with
  | none =>
    simp only []
    show (if c.node.cfg.broadcast = true then _ else _) = _
    split
    · exact broadcastMsg_setT o t c _ _
    · rfl
  | some pid =>
    simp only []
    show (match (c.node.peers.map (·.1)).find? (fun a => addrId a = pid) with | some a => _ | none => _) = _
    cases (c.node.peers.map (·.1)).find? (fun a => addrId a = pid) with
    | none => rfl
    | some a => exact sendMsg_getD_setT o t c a _ _

theorem handleIface_route (o : Oracle) (n : Node) (now : Int) (data : Bytes) (s dst : Addr) (hp : parseAddrs n data = some (s, dst)) :
    handleIface o n now data = setT (n.table.lookup now dst).1 (route o { node := n } (n.table.lookup now dst).2 data) := by
  rw [handleIface_eq, hp]
  exact route_setT o _ { node := n } _ data

/-- two nodes that differ only in their tables, and whose tables give the same answer for the destination of the frame, emit the same -/
theorem handleIface_outs_table (o : Oracle) (n : Node) (t' : Table) (now : Int) (data : Bytes)
    (h : ∀ s dst, parseAddrs n data = some (s, dst) → (t'.lookup now dst).2 = (n.table.lookup now dst).2) :
    (handleIface o { n with table := t' } now data).outs = (handleIface o n now data).outs := by
  cases hp : parseAddrs n data with
  | none =>
    have hp' : parseAddrs { n with table := t' } data = none := hp
    rw [handleIface_eq, handleIface_eq, hp, hp']
  | some x =>
    rcases x with ⟨s, dst⟩
    have hp' : parseAddrs { n with table := t' } data = some (s, dst) := hp
    rw [handleIface_route o _ now data s dst hp', handleIface_route o n now data s dst hp]
    show (route o { node := { n with table := t' } } (t'.lookup now dst).2 data).outs = (route o { node := n } (n.table.lookup now dst).2 data).outs
    rw [h s dst hp]
    have := congrArg Ctx.outs (route_setT o t' { node := n } (n.table.lookup now dst).2 data)
    exact this

/-! ## small facts -/

theorem parseAddrs_tap (n : Node) (htap : n.cfg.tap = true) (d : Bytes) (r : Addr × Addr) (h : Payload.frameParse d = .ok r) :
    parseAddrs n d = some r := by
  unfold parseAddrs
  rw [htap]
  simp only [if_true, h]

theorem find?_unique {l : List NAddr} {a : NAddr} (ha : a ∈ l) (hu : ∀ x ∈ l, addrId x = addrId a → x = a) :
    l.find? (fun x => addrId x = addrId a) = some a := by
  induction l with
  | nil => cases ha
  | cons b l ih =>
    rw [List.find?_cons]
    by_cases hb : addrId b = addrId a
    · have := hu b List.mem_cons_self hb
      subst this
      simp
    · simp only [hb, decide_false]
      rcases List.mem_cons.1 ha with rfl | ha
      · exact absurd rfl hb
      · exact ih ha (fun x hx => hu x (List.mem_cons_of_mem _ hx))

theorem lookup_hit (t : Table) (now : Int) (a : Addr) (v : CacheEntry)
    (hc : t.cache.find? (fun v => v.addr = a) = some v) : t.lookup now a = (t, some v.peer) := by
  simp only [lookup, hc]

/-- the scan finds nothing if no claim contains the address -/
theorem scan_eq_none (a : Addr) (l : List ClaimEntry) (h : ∀ e ∈ l, e.claim.matches a = false) : scan a l none = none := by
  induction l with
  | nil => rfl
  | cons e es ih =>
    rw [TableLemmas.scan_cons]
    have : TableLemmas.scanCond a e none = false := by
      simp [TableLemmas.scanCond, h e List.mem_cons_self]
    rw [this]
    exact ih (fun x hx => h x (List.mem_cons_of_mem _ hx))

/-- no cache entry and no claim for the address: the table has no next hop and is left as it is -/
theorem lookup_unknown (t : Table) (now : Int) (a : Addr) (hc : ∀ v ∈ t.cache, v.addr ≠ a)
    (hs : ∀ e ∈ t.claims, e.claim.matches a = false) : t.lookup now a = (t, none) := by
  have h1 : t.cache.find? (fun v => v.addr = a) = none := by
    rw [List.find?_eq_none]
    intro v hv
    simpa using hc v hv
  simp only [lookup, h1, scan_eq_none a t.claims hs]

/-! ## frames given by their fields -/

/-- an Ethernet frame with an 802.1Q tag: priority / DEI nibble `pcp`, VLAN id `vid` (12 bits) -/
def taggedFrame (dst src : Bytes) (pcp vid : Nat) (rest : Bytes) : Bytes :=
  dst ++ src ++ [0x81, 0x00, pcp * 16 + vid / 256, vid % 256] ++ rest

/-- an Ethernet frame without tag: ethertype `proto` (two bytes, not `81 00`) -/
def plainFrame (dst src proto rest : Bytes) : Bytes := dst ++ src ++ proto ++ rest

/-- the two bytes that the VLAN id `vid` puts in front of both addresses -/
def vlanKey (vid : Nat) : Bytes := [vid / 256, vid % 256]

theorem frameParse_tagged (dst src rest : Bytes) (pcp vid : Nat) (hd : dst.length = 6) (hs : src.length = 6) (hv : vid < 4096) :
    Payload.frameParse (taggedFrame dst src pcp vid rest) =
      .ok (if vid = 0 then (src, dst) else (vlanKey vid ++ src, vlanKey vid ++ dst)) := by
  rcases dst with _ | ⟨d0, _ | ⟨d1, _ | ⟨d2, _ | ⟨d3, _ | ⟨d4, _ | ⟨d5, _ | ⟨d6, dr⟩⟩⟩⟩⟩⟩⟩ <;> simp at hd
  rcases src with _ | ⟨s0, _ | ⟨s1, _ | ⟨s2, _ | ⟨s3, _ | ⟨s4, _ | ⟨s5, _ | ⟨s6, sr⟩⟩⟩⟩⟩⟩⟩ <;> simp at hs
  have e : (pcp * 16 + vid / 256) % 16 = vid / 256 := by omega
  by_cases h0 : vid = 0
  · subst h0
    simp [taggedFrame, Payload.frameParse, Payload.readExact]
  · simp [taggedFrame, Payload.frameParse, Payload.readExact, e, h0, vlanKey]
    omega

theorem frameParse_plain (dst src proto rest : Bytes) (hd : dst.length = 6) (hs : src.length = 6) (hp : proto.length = 2)
    (hne : proto ≠ [0x81, 0x00]) : Payload.frameParse (plainFrame dst src proto rest) = .ok (src, dst) := by
  rcases dst with _ | ⟨d0, _ | ⟨d1, _ | ⟨d2, _ | ⟨d3, _ | ⟨d4, _ | ⟨d5, _ | ⟨d6, dr⟩⟩⟩⟩⟩⟩⟩ <;> simp at hd
  rcases src with _ | ⟨s0, _ | ⟨s1, _ | ⟨s2, _ | ⟨s3, _ | ⟨s4, _ | ⟨s5, _ | ⟨s6, sr⟩⟩⟩⟩⟩⟩⟩ <;> simp at hs
  rcases proto with _ | ⟨p0, _ | ⟨p1, _ | ⟨p2, pr⟩⟩⟩ <;> simp at hp
  have : ¬ (p0 = 129 ∧ p1 = 0) := by simpa using hne
  simp [plainFrame, Payload.frameParse, Payload.readExact, this]

/-! ## learning an address does not change the answer for another address -/

theorem find?_filter_of_imp {α} (f g : α → Bool) (l : List α) (h : ∀ x, f x = true → g x = true) :
    (l.filter g).find? f = l.find? f := by
  induction l with
  | nil => rfl
  | cons x xs ih =>
    rw [List.filter_cons]
    by_cases hg : g x = true
    · rw [if_pos hg, List.find?_cons, List.find?_cons, ih]
    · rw [if_neg hg, List.find?_cons, ih]
      have : f x = false := by
        cases hf : f x with
        | false => rfl
        | true => exact absurd (h x hf) hg
      rw [this]

theorem lookup_learn_other (t : Table) (now now' : Int) (S K : Addr) (p : PeerId) (h : K ≠ S) :
    ((t.learn now S p).lookup now' K).2 = (t.lookup now' K).2 := by
  have hf : (t.learn now S p).cache.find? (fun v => v.addr = K) = t.cache.find? (fun v => v.addr = K) := by
    rw [C13.learn_cache, List.find?_cons]
    have : decide (({ addr := S, peer := p, timeout := now + t.cacheTimeout } : CacheEntry).addr = K) = false := by
      simpa using fun e : S = K => h e.symm
    rw [this]
    apply find?_filter_of_imp
    intro x hx
    have : x.addr = K := by simpa using hx
    simpa [this] using h
  have hc : (t.learn now S p).claims = t.claims := rfl
  unfold lookup
  rw [hf, hc]
  cases t.cache.find? (fun v => v.addr = K) with
  | some v => rfl
  | none =>
    simp only []
    cases scan K t.claims none <;> rfl

/-! ## tables that only shrink, tables without entries of one peer -/

/-- `t` is `t0` with some cached / learned entries and some claims removed (order kept, nothing added or altered) -/
def TShrink (t0 t : Table) : Prop :=
  t.cache.Sublist t0.cache ∧ t.claims.Sublist t0.claims ∧ t.cacheTimeout = t0.cacheTimeout ∧ t.claimTimeout = t0.claimTimeout

theorem TShrink.refl (t : Table) : TShrink t t := ⟨List.Sublist.refl _, List.Sublist.refl _, rfl, rfl⟩

theorem TShrink.trans {t0 t1 t2 : Table} (h1 : TShrink t0 t1) (h2 : TShrink t1 t2) : TShrink t0 t2 :=
  ⟨h2.1.trans h1.1, h2.2.1.trans h1.2.1, h2.2.2.1.trans h1.2.2.1, h2.2.2.2.trans h1.2.2.2⟩

theorem TShrink.of_eq {t0 t : Table} (h : t = t0) : TShrink t0 t := h ▸ TShrink.refl t0

theorem TShrink.housekeep (t : Table) (now : Int) : TShrink t (t.housekeep now) :=
  ⟨List.filter_sublist, List.filter_sublist, rfl, rfl⟩

/-- the sweep is monotone -/
theorem TShrink.housekeep_mono {t0 t : Table} (h : TShrink t0 t) (now : Int) : TShrink (t0.housekeep now) (t.housekeep now) :=
  ⟨h.1.filter _, h.2.1.filter _, h.2.2.1, h.2.2.2⟩

theorem TShrink.removeClaims (t : Table) (now : Int) (hnow : 0 < now) (p : PeerId) : TShrink t (t.removeClaims now p) := by
  refine ⟨?_, ?_, rfl, rfl⟩
  · rw [C12.removeClaims_cache t now p hnow]; exact List.filter_sublist
  · rw [C12.removeClaims_claims t now p hnow]; exact List.filter_sublist

/-- after `remove_claims` the table is even a sub-table of the swept table -/
theorem TShrink.removeClaims_swept (t : Table) (now : Int) (hnow : 0 < now) (p : PeerId) :
    TShrink (t.housekeep now) (t.removeClaims now p) := by
  refine ⟨?_, ?_, rfl, rfl⟩
  · rw [C12.removeClaims_cache t now p hnow]
    show List.Sublist _ (t.cache.filter _)
    have : t.cache.filter (fun v => v.peer ≠ p && v.timeout ≥ now) =
        (t.cache.filter (fun v => Generated.cacheLive v.timeout now)).filter (fun v => v.peer ≠ p) := by
      rw [List.filter_filter]
      apply List.filter_congr
      intro v _
      simp [Generated.cacheLive]
    rw [this]
    exact List.filter_sublist
  · rw [C12.removeClaims_claims t now p hnow]
    show List.Sublist _ (t.claims.filter _)
    have : t.claims.filter (fun e => e.peer ≠ p && e.timeout ≥ now) =
        (t.claims.filter (fun e => Generated.claimLive e.timeout now)).filter (fun e => e.peer ≠ p) := by
      rw [List.filter_filter]
      apply List.filter_congr
      intro v _
      simp [Generated.claimLive]
    rw [this]
    exact List.filter_sublist

/-- nothing in the table names the peer id `pid` -/
def NoPeer (pid : PeerId) (t : Table) : Prop := (∀ v ∈ t.cache, v.peer ≠ pid) ∧ ∀ e ∈ t.claims, e.peer ≠ pid

theorem NoPeer.of_shrink {pid : PeerId} {t0 t : Table} (h : NoPeer pid t0) (hs : TShrink t0 t) : NoPeer pid t :=
  ⟨fun v hv => h.1 v (hs.1.subset hv), fun e he => h.2 e (hs.2.1.subset he)⟩

theorem NoPeer.removeClaims (t : Table) (now : Int) (hnow : 0 < now) (pid : PeerId) : NoPeer pid (t.removeClaims now pid) := by
  constructor
  · exact C13.disconnect_forgets t now pid hnow
  · intro e he
    rw [C12.removeClaims_claims t now pid hnow, List.mem_filter] at he
    have := he.2
    simp only [Bool.and_eq_true, decide_eq_true_eq] at this
    exact this.1

/-- a table without entries of `pid` never answers `pid` -/
theorem NoPeer.lookup {pid : PeerId} {t : Table} (h : NoPeer pid t) (now : Int) (a : Addr) : (t.lookup now a).2 ≠ some pid := by
  intro hl
  rcases C12.lookup_result_mem t now a pid hl with ⟨v, hv, hp⟩ | ⟨e, he, hp⟩
  · exact h.1 v hv hp
  · exact h.2 e he hp

/-! ## the table through `housekeep` -/

theorem sendMsg_table (o : Oracle) (c : Ctx) (a : NAddr) (ty : Nat) (body : Bytes) :
    ((sendMsg o c a ty body).getD c).node.table = c.node.table := by
  unfold sendMsg
  split
  · rfl
  · simp only []
    split <;> rfl

theorem broadcastMsg_table (o : Oracle) (c : Ctx) (ty : Nat) (body : Bytes) : (broadcastMsg o c ty body).node.table = c.node.table := by
  unfold broadcastMsg
  exact C09MoreLemmas.foldl_table _ (fun c a => sendMsg_table o c a ty body) _ _

theorem hkAnnounce_table (o : Oracle) (c : Ctx) (now : Int) : (hkAnnounce o c now).node.table = c.node.table := by
  unfold hkAnnounce
  split
  · simp only []
    split
    · exact broadcastMsg_table o c _ _
    · exact broadcastMsg_table o c _ _
  · rfl

theorem reconnectToPeers_table (env : CryptoEnv) (o : Oracle) (c : Ctx) (now : Int) :
    (reconnectToPeers env o c now).node.table = c.node.table := by
  unfold reconnectToPeers
  simp only []
  apply C09MoreLemmas.foldl_table
  intro c e
  split
  · rfl
  · exact C09MoreLemmas.connect_table env o c _

theorem hkOwn_table (c : Ctx) (now : Int) : (hkOwn c now).node.table = c.node.table := by
  unfold hkOwn
  split <;> rfl

/-- one round of the first loop of `housekeep` -/
def deadStep (env : CryptoEnv) (o : Oracle) (now : Int) (c : Ctx) (a : NAddr) : Ctx :=
  connectSock env o { c with node := { c.node with peers := eraseA c.node.peers a, table := c.node.table.removeClaims now (addrId a) } } a

theorem hkDead_eq (env : CryptoEnv) (o : Oracle) (n : Node) (now : Int) :
    hkDead env o n now =
      ((n.peers.filter (fun (_, p) => Generated.peerExpired p.timeout now)).map (·.1)).foldl (deadStep env o now) { node := n } := rfl

theorem deadStep_table (env : CryptoEnv) (o : Oracle) (now : Int) (c : Ctx) (a : NAddr) :
    (deadStep env o now c a).node.table = c.node.table.removeClaims now (addrId a) := by
  unfold deadStep
  rw [C09MoreLemmas.connectSock_table]

theorem deadFold_shrink (env : CryptoEnv) (o : Oracle) (now : Int) (hnow : 0 < now) (l : List NAddr) (c : Ctx) :
    TShrink c.node.table (l.foldl (deadStep env o now) c).node.table := by
  apply foldl_inv (fun c' => TShrink c.node.table c'.node.table) _ _ _ _ (TShrink.refl _)
  intro c' a h
  rw [deadStep_table]
  exact h.trans (TShrink.removeClaims _ now hnow _)

theorem deadFold_noPeer (env : CryptoEnv) (o : Oracle) (now : Int) (hnow : 0 < now) (a : NAddr) :
    ∀ (l : List NAddr) (c : Ctx), a ∈ l → NoPeer (addrId a) (l.foldl (deadStep env o now) c).node.table
  | [], _, h => by cases h
  | b :: l, c, h => by
    rw [List.foldl_cons]
    by_cases hba : b = a
    · subst hba
      refine NoPeer.of_shrink ?_ (deadFold_shrink env o now hnow l _)
      rw [deadStep_table]
      exact NoPeer.removeClaims _ now hnow _
    · rcases List.mem_cons.1 h with h | h
      · exact absurd h.symm hba
      · exact deadFold_noPeer env o now hnow a l _ h

open C09MoreLemmas in
theorem peerStep_shrink (env : CryptoEnv) (o : Oracle) (now : Int) (hnow : 0 < now) (c : Ctx) (a : NAddr) :
    TShrink c.node.table (peerStep env o now c a).node.table := by
  unfold peerStep
  split
  · exact TShrink.refl _
  · split
    split
    · rw [connectSock_table]
      exact TShrink.removeClaims _ now hnow _
    · exact TShrink.refl _
    · split
      · exact TShrink.refl _
      · exact TShrink.refl _

open C09MoreLemmas in
theorem peerFold_shrink (env : CryptoEnv) (o : Oracle) (now : Int) (hnow : 0 < now) (l : List NAddr) (c : Ctx) :
    TShrink c.node.table (l.foldl (peerStep env o now) c).node.table := by
  apply foldl_inv (fun c' => TShrink c.node.table c'.node.table) _ _ _ _ (TShrink.refl _)
  intro c' a h
  exact h.trans (peerStep_shrink env o now hnow c' a)

open C09MoreLemmas in
theorem cryptoHousekeep_shrink (env : CryptoEnv) (o : Oracle) (c : Ctx) (now : Int) (hnow : 0 < now) :
    TShrink c.node.table (cryptoHousekeep env o c now).node.table := by
  rw [cryptoHousekeep_eq]
  unfold peerLoop
  have := peerFold_shrink env o now hnow ((pendLoop o c).node.peers.map (·.1)) (pendLoop o c)
  rw [pendLoop_table] at this
  exact this

/-- the part of `housekeep` behind the sweep -/
theorem housekeep_tail_table (env : CryptoEnv) (o : Oracle) (n : Node) (now : Int) :
    (housekeep env o n now).node.table = (cryptoHousekeep env o (hkSweep (hkDead env o n now) now) now).node.table := by
  rw [housekeep_eq, hkOwn_table, reconnectToPeers_table, hkAnnounce_table]

/-- **the table through a housekeeping tick**: cache and claims of the result are sub-lists of the SWEPT old ones -/
theorem housekeep_shrink (env : CryptoEnv) (o : Oracle) (n : Node) (now : Int) (hnow : 0 < now) :
    TShrink (n.table.housekeep now) (housekeep env o n now).node.table := by
  rw [housekeep_tail_table]
  refine TShrink.trans ?_ (cryptoHousekeep_shrink env o _ now hnow)
  show TShrink _ ((hkDead env o n now).node.table.housekeep now)
  apply TShrink.housekeep_mono
  rw [hkDead_eq]
  exact deadFold_shrink env o now hnow _ { node := n }

theorem housekeep_shrink' (env : CryptoEnv) (o : Oracle) (n : Node) (now : Int) (hnow : 0 < now) :
    TShrink n.table (housekeep env o n now).node.table :=
  (TShrink.housekeep n.table now).trans (housekeep_shrink env o n now hnow)

/-- a peer whose expiry has passed: nothing in the table names it after the tick -/
theorem housekeep_expired_noPeer (env : CryptoEnv) (o : Oracle) (n : Node) (now : Int) (hnow : 0 < now) (a : NAddr) (p : Peer)
    (hp : (a, p) ∈ n.peers) (hdead : p.timeout < now) : NoPeer (addrId a) (housekeep env o n now).node.table := by
  rw [housekeep_tail_table]
  refine NoPeer.of_shrink ?_ (cryptoHousekeep_shrink env o _ now hnow)
  show NoPeer _ ((hkDead env o n now).node.table.housekeep now)
  refine NoPeer.of_shrink ?_ (TShrink.housekeep _ now)
  rw [hkDead_eq]
  apply deadFold_noPeer env o now hnow a
  refine List.mem_map.2 ⟨(a, p), List.mem_filter.2 ⟨hp, ?_⟩, rfl⟩
  simpa using hdead

open C09MoreLemmas in
theorem peerFold_fail_noPeer (env : CryptoEnv) (o : Oracle) (now : Int) (hnow : 0 < now) (a : NAddr) (p : Peer)
    (hfail : ∀ rr, ∃ pc' e, PeerCrypto.everySecond p.crypto rr = .err pc' e) :
    ∀ (l : List NAddr) (c : Ctx), a ∈ l → lookupA c.node.peers a = some p →
      NoPeer (addrId a) (l.foldl (peerStep env o now) c).node.table
  | [], _, h, _ => by cases h
  | b :: l, c, h, hp => by
    rw [List.foldl_cons]
    by_cases hba : b = a
    · subst hba
      refine NoPeer.of_shrink ?_ (peerFold_shrink env o now hnow l _)
      unfold peerStep
      rw [hp]
      simp only []
      obtain ⟨pc', e, he⟩ := hfail (rndFor o c b).2.1
      rw [he]
      simp only []
      rw [connectSock_table]
      exact NoPeer.removeClaims _ now hnow _
    · rcases List.mem_cons.1 h with h | h
      · exact absurd h.symm hba
      · apply peerFold_fail_noPeer env o now hnow a p hfail l _ h
        rw [peerStep_lookup_ne env o now c (fun e => hba e.symm)]
        exact hp

open C09MoreLemmas in
/-- a live peer whose session fails in its `every_second` (whatever the randomness): nothing in the table names it after the tick -/
theorem housekeep_failed_noPeer (env : CryptoEnv) (o : Oracle) (n : Node) (now : Int) (hnow : 0 < now) (a : NAddr) (p : Peer)
    (hp : lookupA n.peers a = some p) (hlive : ¬ p.timeout < now) (hnd : (n.peers.map (·.1)).Nodup)
    (hfail : ∀ rr, ∃ pc' e, PeerCrypto.everySecond p.crypto rr = .err pc' e) :
    NoPeer (addrId a) (housekeep env o n now).node.table := by
  rw [housekeep_tail_table, cryptoHousekeep_eq]
  unfold peerLoop
  obtain ⟨h1, _⟩ := hkDead_keeps env o n now a p hp hlive hnd
  have hpl : (pendLoop o (hkSweep (hkDead env o n now) now)).node.peers = (hkDead env o n now).node.peers := pendLoop_peers o _
  apply peerFold_fail_noPeer env o now hnow a p hfail
  · rw [hpl]; exact mem_key (lookupA_some_mem h1)
  · rw [hpl]; exact h1

theorem housekeep_keysNodup (env : CryptoEnv) (o : Oracle) (n : Node) (now : Int) (h : (n.peers.map (·.1)).Nodup) :
    ((housekeep env o n now).node.peers.map (·.1)).Nodup := by
  rw [C15MoreLemmas.housekeep_eq', C15MoreLemmas.hkOwn_peers, reconnectToPeers_peers, (C15MoreLemmas.hkAnnounce_rest o _ now).2.2.2]
  exact C15MoreLemmas.preAnnounce_keysNodup env o n now h

/-- a peer that was dropped by the tick (expired, or its only record is not among the survivors) is no peer afterwards -/
theorem housekeep_not_peer (env : CryptoEnv) (o : Oracle) (n : Node) (now : Int) (a : NAddr) (p : Peer)
    (hp : lookupA n.peers a = some p) (hdead : p.timeout < now) (hnd : (n.peers.map (·.1)).Nodup) :
    a ∉ (housekeep env o n now).node.peers.map (·.1) := by
  intro hm
  rcases List.mem_map.1 hm with ⟨⟨a', p'⟩, hx, rfl⟩
  obtain ⟨p0, h0, _⟩ := housekeep_keptC env o n now a' p' hx
  unfold alive at h0
  rw [List.mem_filter] at h0
  have := C09MoreLemmas.nodup_keys_unique n.peers hnd h0.1 (lookupA_some_mem hp)
  subst this
  simp [hdead] at h0

open C09MoreLemmas in
theorem peerStep_none (env : CryptoEnv) (o : Oracle) (now : Int) (c : Ctx) (a b : NAddr) (h : lookupA c.node.peers a = none) :
    lookupA (peerStep env o now c b).node.peers a = none := by
  by_cases hab : a = b
  · subst hab
    unfold peerStep
    rw [h]
    exact h
  · rw [peerStep_lookup_ne env o now c hab]
    exact h

open C09MoreLemmas in
theorem peerFold_none (env : CryptoEnv) (o : Oracle) (now : Int) (a : NAddr) (l : List NAddr) (c : Ctx)
    (h : lookupA c.node.peers a = none) : lookupA (l.foldl (peerStep env o now) c).node.peers a = none :=
  foldl_inv (fun c' => lookupA c'.node.peers a = none) _ (fun c' b hc => peerStep_none env o now c' a b hc) _ _ h

open C09MoreLemmas in
theorem peerFold_fail_notPeer (env : CryptoEnv) (o : Oracle) (now : Int) (a : NAddr) (p : Peer)
    (hfail : ∀ rr, ∃ pc' e, PeerCrypto.everySecond p.crypto rr = .err pc' e) :
    ∀ (l : List NAddr) (c : Ctx), a ∈ l → lookupA c.node.peers a = some p →
      lookupA (l.foldl (peerStep env o now) c).node.peers a = none
  | [], _, h, _ => by cases h
  | b :: l, c, h, hp => by
    rw [List.foldl_cons]
    by_cases hba : b = a
    · subst hba
      apply peerFold_none
      unfold peerStep
      rw [hp]
      simp only []
      obtain ⟨pc', e, he⟩ := hfail (rndFor o c b).2.1
      rw [he]
      simp only []
      rw [connectSock_peers]
      exact lookupA_eraseA_self _ _
    · rcases List.mem_cons.1 h with h | h
      · exact absurd h.symm hba
      · apply peerFold_fail_notPeer env o now a p hfail l _ h
        rw [peerStep_lookup_ne env o now c (fun e => hba e.symm)]
        exact hp

open C09MoreLemmas in
/-- a live peer whose session fails in its `every_second` is no peer after the tick -/
theorem housekeep_failed_notPeer (env : CryptoEnv) (o : Oracle) (n : Node) (now : Int) (a : NAddr) (p : Peer)
    (hp : lookupA n.peers a = some p) (hlive : ¬ p.timeout < now) (hnd : (n.peers.map (·.1)).Nodup)
    (hfail : ∀ rr, ∃ pc' e, PeerCrypto.everySecond p.crypto rr = .err pc' e) :
    a ∉ (housekeep env o n now).node.peers.map (·.1) := by
  rw [← lookupA_none_iff]
  have hk : (housekeep env o n now).node.peers.map (·.1) = (cryptoHousekeep env o (hkSweep (hkDead env o n now) now) now).node.peers.map (·.1) := by
    rw [C15MoreLemmas.housekeep_eq', C15MoreLemmas.hkOwn_peers, reconnectToPeers_peers, (C15MoreLemmas.hkAnnounce_rest o _ now).2.2.2]
    rfl
  rw [lookupA_none_iff, hk, ← lookupA_none_iff, cryptoHousekeep_eq]
  unfold peerLoop
  obtain ⟨h1, _⟩ := hkDead_keeps env o n now a p hp hlive hnd
  have hpl : (pendLoop o (hkSweep (hkDead env o n now) now)).node.peers = (hkDead env o n now).node.peers := pendLoop_peers o _
  apply peerFold_fail_notPeer env o now a p hfail
  · rw [hpl]; exact mem_key (lookupA_some_mem h1)
  · rw [hpl]; exact h1

theorem housekeep_cfg (env : CryptoEnv) (o : Oracle) (n : Node) (now : Int) : (housekeep env o n now).node.cfg = n.cfg :=
  (C01More.cfg_const_step (.tick env o n now)).1

theorem handleNet_cfg (env : CryptoEnv) (bodyOf : Init.BodyOf) (o : Oracle) (n : Node) (now : Int) (src : NAddr) (data tail : Bytes) :
    (handleNet env bodyOf o n now src data tail).1.node.cfg = n.cfg :=
  (C01More.cfg_const_step (.net env bodyOf o n now src data tail)).1

theorem handleIface_cfg (o : Oracle) (n : Node) (now : Int) (data : Bytes) : (handleIface o n now data).node.cfg = n.cfg :=
  (C01More.cfg_const_step (.iface o n now data)).1

theorem connect_cfg (env : CryptoEnv) (o : Oracle) (n : Node) (addrs : List NAddr) : (connect env o { node := n } addrs).node.cfg = n.cfg :=
  (C01More.cfg_const_step (.dial env o n addrs)).1

/-! ## `handle_net_message` in a node that does not learn -/

open C01MoreLemmas

/-- `handle_message` in a node with `learning = false`: the table is left alone, or the claims of the sender are set, or its entries are
    removed — never `learn` (`TblCase` with an impossible learning case) -/
theorem handleResult_tblNL (env : CryptoEnv) (o : Oracle) (c : Ctx) (now : Int) (src : NAddr) (res : MsgResult) (out : Bytes)
    (hl : c.node.cfg.learning = false) :
    TblCase c.node.table now src False (handleResult env o c now src res out).1 := by
  have key : ∀ (x : Ctx) (e : Option InitErr), TblCase c.node.table now src False x → TblCase c.node.table now src False (x, e).1 :=
    fun _ _ h => h
  cases res with
  | message ty data =>
    unfold handleResult
    simp only []
    split
    · split
      · exact .same rfl
      · simp only [hl, Bool.false_eq_true, if_false]
        exact .same rfl
    · split
      · split
        · exact .same rfl
        · exact key _ _ (updatePeerInfo_tbl env o c now src _)
      · split
        · exact key _ _ (updatePeerInfo_tbl env o c now src _)
        · split
          · exact key _ _ (removePeer_tbl c now src)
          · exact .same rfl
  | initialized payload => exact (handleResult_tbl env o c now src _ out).mono (by rintro ⟨⟨ty, d, h⟩, _⟩; cases h)
  | initializedWithReply payload => exact (handleResult_tbl env o c now src _ out).mono (by rintro ⟨⟨ty, d, h⟩, _⟩; cases h)
  | reply => exact .same rfl
  | none => exact .same rfl

theorem applyOutcome_tblNL (env : CryptoEnv) (o : Oracle) (c : Ctx) (now : Int) (src : NAddr) (inPeers : Bool) (r : POutcome MsgResult)
    (hl : c.node.cfg.learning = false) :
    TblCase c.node.table now src False (applyOutcome env o c now src inPeers r).1 := by
  rw [applyOutcome_eq]
  cases r with
  | panic => exact .same rfl
  | err pc e => exact .same (storePc_table c src inPeers pc)
  | ok pc out res log =>
    have h := handleResult_tblNL env o (addLog log (storePc c src inPeers pc)) now src res out (by rw [addLog_node, storePc_cfg]; exact hl)
    simp only [addLog_node, storePc_table] at h
    exact h

theorem responder_tblNL (env : CryptoEnv) (bodyOf : Init.BodyOf) (o : Oracle) (n : Node) (now : Int) (src : NAddr) (data tail : Bytes)
    (rnd : Rand) (rr : RotRand) (hash : Option Bytes) (hl : n.cfg.learning = false) :
    TblCase n.table now src False (responder env bodyOf o n now src data tail rnd rr hash).1 := by
  unfold responder
  simp only []
  split
  · exact handleResult_tblNL env o (addLog _ { node := { n with pending := insertA n.pending src _ } }) now src _ _ hl
  · exact .same rfl
  · exact .same rfl

theorem dispatch_tblNL (env : CryptoEnv) (bodyOf : Init.BodyOf) (o : Oracle) (n : Node) (now : Int) (s : NAddr) (data tail : Bytes)
    (hl : n.cfg.learning = false) : TblCase n.table now s False (dispatch env bodyOf o n now s data tail).1 := by
  unfold dispatch
  simp only []
  split
  · split
    · exact applyOutcome_tblNL env o { node := n } now s _ _ hl
    · split
      · exact applyOutcome_tblNL env o { node := n } now s _ _ hl
      · split
        · exact applyOutcome_tblNL env o { node := n } now s _ _ hl
        · exact responder_tblNL env bodyOf o n now s data tail _ _ _ hl
  · exact applyOutcome_tblNL env o { node := n } now s _ _ hl
  · split
    · exact responder_tblNL env bodyOf o n now s data tail _ _ _ hl
    · exact .same rfl

/-- **no learning without the flag, for every datagram**: whatever a node with `learning = false` receives, from whomever, its table
    afterwards is the old one, or the old one after `set_claims` / `remove_claims` for the sender -/
theorem handleNet_tblNL (env : CryptoEnv) (bodyOf : Init.BodyOf) (o : Oracle) (n : Node) (now : Int) (src : NAddr) (data tail : Bytes)
    (hl : n.cfg.learning = false) : TblCase n.table now (mappedAddr src) False (handleNet env bodyOf o n now src data tail).1 := by
  have h := dispatch_tblNL env bodyOf o n now (mappedAddr src) data tail hl
  rw [handleNet_eq]
  cases h with
  | same h => exact .same (by rw [finish_table]; exact h)
  | learn a h l => exact l.elim
  | set cs h k => exact .set cs (by rw [finish_table]; exact h) (by rw [finish_peers]; exact k)
  | remove h => exact .remove (by rw [finish_table]; exact h)

theorem setClaims_cache_sublist (t : Table) (now : Int) (hnow : 0 < now) (p : PeerId) (cs : List Range) :
    (t.setClaims now p cs).cache.Sublist t.cache := by
  rw [C12.setClaims_cache]
  split
  · rw [TableLemmas.zero_filter_cache t.cache p now hnow]
    exact List.filter_sublist
  · exact List.filter_sublist

/-! ## a learned entry through a housekeeping tick before its expiry -/

theorem find?_filter_keep {α} {f g : α → Bool} {l : List α} {v : α} (h : l.find? f = some v)
    (hv : g v = true) : (l.filter g).find? f = some v := by
  induction l with
  | nil => simp at h
  | cons x xs ih =>
    rw [List.find?_cons] at h
    cases hfx : f x with
    | true =>
      rw [hfx] at h
      have : x = v := Option.some.inj h
      subst this
      simp [hv, hfx]
    | false =>
      rw [hfx] at h
      rw [List.filter_cons]
      split
      · rw [List.find?_cons, hfx]
        exact ih h
      · exact ih h

/-- the first cache entry for `S` is `v` -/
def Finds (S : Addr) (v : CacheEntry) (t : Table) : Prop := t.cache.find? (fun w => w.addr = S) = some v

theorem Finds.housekeep {S : Addr} {v : CacheEntry} {t : Table} (h : Finds S v t) (now : Int) (hv : now ≤ v.timeout) :
    Finds S v (t.housekeep now) := by
  unfold Finds Table.housekeep
  exact find?_filter_keep h (by simpa [Generated.cacheLive] using hv)

theorem Finds.removeClaims {S : Addr} {v : CacheEntry} {t : Table} (h : Finds S v t) (now : Int) (hnow : 0 < now) (hv : now ≤ v.timeout)
    (q : PeerId) (hq : v.peer ≠ q) : Finds S v (t.removeClaims now q) := by
  unfold Finds
  rw [C12.removeClaims_cache t now q hnow]
  exact find?_filter_keep h (by simpa using ⟨hq, hv⟩)

theorem deadFold_finds (env : CryptoEnv) (o : Oracle) (now : Int) (hnow : 0 < now) (S : Addr) (v : CacheEntry) (hv : now ≤ v.timeout) :
    ∀ (l : List NAddr) (c : Ctx), (∀ b ∈ l, v.peer ≠ addrId b) → Finds S v c.node.table →
      Finds S v (l.foldl (deadStep env o now) c).node.table
  | [], _, _, h => h
  | b :: l, c, hl, h => by
    rw [List.foldl_cons]
    apply deadFold_finds env o now hnow S v hv l _ (fun x hx => hl x (List.mem_cons_of_mem _ hx))
    rw [deadStep_table]
    exact h.removeClaims now hnow hv _ (hl b List.mem_cons_self)

open C09MoreLemmas in
theorem peerStep_finds_ne (env : CryptoEnv) (o : Oracle) (now : Int) (hnow : 0 < now) (S : Addr) (v : CacheEntry) (hv : now ≤ v.timeout)
    (c : Ctx) (b : NAddr) (hb : v.peer ≠ addrId b) (h : Finds S v c.node.table) : Finds S v (peerStep env o now c b).node.table := by
  unfold peerStep
  split
  · exact h
  · split
    split
    · rw [C09MoreLemmas.connectSock_table]
      exact h.removeClaims now hnow hv _ hb
    · exact h
    · split
      · exact h
      · exact h

open C09MoreLemmas in
theorem peerFold_finds_ne (env : CryptoEnv) (o : Oracle) (now : Int) (hnow : 0 < now) (S : Addr) (v : CacheEntry) (hv : now ≤ v.timeout) :
    ∀ (l : List NAddr) (c : Ctx), (∀ b ∈ l, v.peer ≠ addrId b) → Finds S v c.node.table →
      Finds S v (l.foldl (peerStep env o now) c).node.table
  | [], _, _, h => h
  | b :: l, c, hl, h => by
    rw [List.foldl_cons]
    exact peerFold_finds_ne env o now hnow S v hv l _ (fun x hx => hl x (List.mem_cons_of_mem _ hx))
      (peerStep_finds_ne env o now hnow S v hv c b (hl b List.mem_cons_self) h)

open C09MoreLemmas in
/-- the round of peer `a` itself, whose session does not fail: the table is left alone -/
theorem peerStep_table_ok (env : CryptoEnv) (o : Oracle) (now : Int) (c : Ctx) (a : NAddr) (p : Peer) (hp : lookupA c.node.peers a = some p)
    (hok : ∀ rr pc' e, PeerCrypto.everySecond p.crypto rr ≠ .err pc' e) : (peerStep env o now c a).node.table = c.node.table := by
  unfold peerStep
  rw [hp]
  simp only []
  split
  · rename_i h
    exact absurd h (hok _ _ _)
  · rfl
  · split <;> rfl

open C09MoreLemmas in
theorem peerFold_finds (env : CryptoEnv) (o : Oracle) (now : Int) (hnow : 0 < now) (S : Addr) (v : CacheEntry) (hv : now ≤ v.timeout)
    (a : NAddr) (p : Peer) (hok : ∀ rr pc' e, PeerCrypto.everySecond p.crypto rr ≠ .err pc' e) :
    ∀ (l : List NAddr) (c : Ctx), l.Nodup → (∀ b ∈ l, b ≠ a → v.peer ≠ addrId b) → lookupA c.node.peers a = some p →
      Finds S v c.node.table → Finds S v (l.foldl (peerStep env o now) c).node.table
  | [], _, _, _, _, h => h
  | b :: l, c, hnd, hl, hp, h => by
    rw [List.nodup_cons] at hnd
    rw [List.foldl_cons]
    by_cases hba : b = a
    · subst hba
      apply peerFold_finds_ne env o now hnow S v hv l _ (fun x hx => hl x (List.mem_cons_of_mem _ hx) (fun e => hnd.1 (e ▸ hx)))
      rw [peerStep_table_ok env o now c b p hp hok]
      exact h
    · apply peerFold_finds env o now hnow S v hv a p hok l _ hnd.2 (fun x hx => hl x (List.mem_cons_of_mem _ hx))
      · rw [peerStep_lookup_ne env o now c (fun e => hba e.symm)]
        exact hp
      · exact peerStep_finds_ne env o now hnow S v hv c b (hl b List.mem_cons_self hba) h

open C09MoreLemmas in
/-- **a learned entry survives a tick before its expiry**: `v` (peer `a`, not yet expired) is the first entry for `S`; `a` is alive and
    its session does not fail; no other peer address has the id of `a`: after the tick `v` is still the first entry for `S` -/
theorem housekeep_finds (env : CryptoEnv) (o : Oracle) (n : Node) (now : Int) (hnow : 0 < now) (S : Addr) (v : CacheEntry) (hv : now ≤ v.timeout)
    (a : NAddr) (p : Peer) (hp : lookupA n.peers a = some p) (hlive : ¬ p.timeout < now) (hnd : (n.peers.map (·.1)).Nodup)
    (hok : ∀ rr pc' e, PeerCrypto.everySecond p.crypto rr ≠ .err pc' e) (hva : v.peer = addrId a)
    (hid : ∀ x ∈ n.peers.map (·.1), addrId x = addrId a → x = a) (h : Finds S v n.table) :
    Finds S v (housekeep env o n now).node.table := by
  rw [housekeep_tail_table, cryptoHousekeep_eq]
  unfold peerLoop
  obtain ⟨h1, h2⟩ := hkDead_keeps env o n now a p hp hlive hnd
  have hpl : (pendLoop o (hkSweep (hkDead env o n now) now)).node.peers = (hkDead env o n now).node.peers := pendLoop_peers o _
  have hsub : ∀ b ∈ (hkDead env o n now).node.peers.map (·.1), b ∈ n.peers.map (·.1) := by
    intro b hb
    unfold hkDead at hb
    exact (deadFold_keys_sublist env o now _ _).subset hb
  have hne : ∀ b ∈ n.peers.map (·.1), b ≠ a → v.peer ≠ addrId b := by
    intro b hb hba e
    exact hba (hid b hb (by rw [← e, hva]))
  apply peerFold_finds env o now hnow S v hv a p hok
  · rw [hpl]; exact h2
  · rw [hpl]; exact fun b hb hba => hne b (hsub b hb) hba
  · rw [hpl]; exact h1
  · rw [pendLoop_table]
    show Finds S v ((hkDead env o n now).node.table.housekeep now)
    apply Finds.housekeep _ now hv
    rw [hkDead_eq]
    apply deadFold_finds env o now hnow S v hv _ _ _ h
    intro b hb
    rcases List.mem_map.1 hb with ⟨⟨b', q⟩, hx, rfl⟩
    rw [List.mem_filter] at hx
    apply hne b' (mem_key hx.1)
    rintro rfl
    have := nodup_keys_unique n.peers hnd hx.1 (lookupA_some_mem hp)
    subst this
    exact hlive (by simpa using hx.2)

/-- the peers after a tick were peers before -/
theorem housekeep_keys_subset (env : CryptoEnv) (o : Oracle) (n : Node) (now : Int) :
    ∀ b ∈ (housekeep env o n now).node.peers.map (·.1), b ∈ n.peers.map (·.1) := by
  intro b hb
  rcases List.mem_map.1 hb with ⟨⟨b', q⟩, hx, rfl⟩
  obtain ⟨p0, h0, _⟩ := housekeep_keptC env o n now b' q hx
  unfold alive at h0
  exact mem_key (List.mem_filter.1 h0).1

/-! ## table ids of well-formed socket addresses are distinct -/

/-- a well-formed socket address: 4 / 16 address bytes, a 16-bit port -/
def AddrWF : NAddr → Prop
  | .v4 ip port => ip.length = 4 ∧ Bytes.WF ip ∧ port < 65536
  | .v6 ip port => ip.length = 16 ∧ Bytes.WF ip ∧ port < 65536

theorem ofU16_inj {p q : Nat} (hp : p < 65536) (hq : q < 65536) (h : Bytes.ofU16 p = Bytes.ofU16 q) : p = q := by
  simp only [Bytes.ofU16, List.cons.injEq, and_true] at h
  omega

theorem wf_ofU16 (p : Nat) : Bytes.WF (Bytes.ofU16 p) := by
  simp only [Bytes.ofU16, Bytes.wf_cons, Bytes.wf_nil, and_true]
  omega

theorem wf_append {a b : Bytes} (ha : Bytes.WF a) (hb : Bytes.WF b) : Bytes.WF (a ++ b) := by
  intro x hx
  rcases List.mem_append.1 hx with h | h
  · exact ha x h
  · exact hb x h

/-- the value of a tagged address string `tag :: ip ++ port` -/
theorem tagged_inj (tag : Nat) (htag : tag < 256) {ip ip' : Bytes} {p p' : Nat} (hl : ip.length = ip'.length) (hw : Bytes.WF ip) (hw' : Bytes.WF ip')
    (hp : p < 65536) (hp' : p' < 65536)
    (h : Bytes.beVal (tag :: (ip ++ Bytes.ofU16 p)) = Bytes.beVal (tag :: (ip' ++ Bytes.ofU16 p'))) : ip = ip' ∧ p = p' := by
  have hwf : ∀ (i : Bytes) (q : Nat), Bytes.WF i → Bytes.WF (tag :: (i ++ Bytes.ofU16 q)) := fun i q hi =>
    Bytes.wf_cons.2 ⟨htag, wf_append hi (wf_ofU16 q)⟩
  have := InitLemmas.beVal_inj _ _ (hwf ip p hw) (hwf ip' p' hw') (by simp [Bytes.ofU16, hl]) h
  have h2 := (List.cons.inj this).2
  obtain ⟨h3, h4⟩ := List.append_inj h2 hl
  exact ⟨h3, ofU16_inj hp hp' h4⟩

theorem tagged_ge (tag : Nat) (ip : Bytes) (p : Nat) : tag * 256 ^ (ip.length + 2) ≤ Bytes.beVal (tag :: (ip ++ Bytes.ofU16 p)) := by
  have hl : (ip ++ Bytes.ofU16 p).length = ip.length + 2 := by simp [Bytes.ofU16]
  show _ ≤ tag * 256 ^ (ip ++ Bytes.ofU16 p).length + _
  rw [hl]
  exact Nat.le_add_right _ _

theorem tagged_lt (tag : Nat) (htag : tag < 256) (ip : Bytes) (hw : Bytes.WF ip) (p : Nat) :
    Bytes.beVal (tag :: (ip ++ Bytes.ofU16 p)) < 256 ^ (ip.length + 3) := by
  have := CoreLemmas.beVal_lt (tag :: (ip ++ Bytes.ofU16 p)) (Bytes.wf_cons.2 ⟨htag, wf_append hw (wf_ofU16 p)⟩)
  simpa [Bytes.ofU16] using this

theorem addrId_v4 (ip : Bytes) (p : Nat) : addrId (.v4 ip p) = Bytes.beVal (4 :: (ip ++ Bytes.ofU16 p)) := rfl
theorem addrId_v6 (ip : Bytes) (p : Nat) :
    addrId (.v6 ip p) = if ip = List.replicate 16 0 then p else Bytes.beVal (6 :: (ip ++ Bytes.ofU16 p)) := rfl

/-- the three kinds of ids lie in disjoint ranges -/
theorem addrId_v4_range {ip : Bytes} {p : Nat} (h : AddrWF (.v4 ip p)) : 65536 ≤ addrId (.v4 ip p) ∧ addrId (.v4 ip p) < 6 * 256 ^ 18 := by
  rw [addrId_v4]
  have l4 := tagged_lt 4 (by decide) ip h.2.1 p
  have g4 := tagged_ge 4 ip p
  rw [h.1] at l4 g4
  have h46 : (256 : Nat) ^ (4 + 3) < 6 * 256 ^ 18 := by decide
  have h4p : (65536 : Nat) ≤ 4 * 256 ^ (4 + 2) := by decide
  omega

theorem addrId_v6_range {ip : Bytes} {p : Nat} (h : AddrWF (.v6 ip p)) :
    (ip = List.replicate 16 0 ∧ addrId (.v6 ip p) = p ∧ p < 65536) ∨
    (ip ≠ List.replicate 16 0 ∧ addrId (.v6 ip p) = Bytes.beVal (6 :: (ip ++ Bytes.ofU16 p)) ∧ 6 * 256 ^ 18 ≤ addrId (.v6 ip p)) := by
  rw [addrId_v6]
  by_cases hz : ip = List.replicate 16 0
  · rw [if_pos hz]; exact Or.inl ⟨hz, rfl, h.2.2⟩
  · rw [if_neg hz]
    refine Or.inr ⟨hz, rfl, ?_⟩
    have g6 := tagged_ge 6 ip p
    rw [h.1] at g6
    exact g6

/-- `addrId` is injective on well-formed socket addresses -/
theorem addrId_inj {a b : NAddr} (ha : AddrWF a) (hb : AddrWF b) (h : addrId a = addrId b) : a = b := by
  rcases a with ⟨ip, p⟩ | ⟨ip, p⟩ <;> rcases b with ⟨ip', p'⟩ | ⟨ip', p'⟩
  · rw [addrId_v4, addrId_v4] at h
    obtain ⟨h1, h2⟩ := tagged_inj 4 (by decide) (ha.1.trans hb.1.symm) ha.2.1 hb.2.1 ha.2.2 hb.2.2 h
    rw [h1, h2]
  · exfalso
    have r4 := addrId_v4_range ha
    rcases addrId_v6_range hb with ⟨_, h1, h2⟩ | ⟨_, _, h2⟩ <;> omega
  · exfalso
    have r4 := addrId_v4_range hb
    rcases addrId_v6_range ha with ⟨_, h1, h2⟩ | ⟨_, _, h2⟩ <;> omega
  · rcases addrId_v6_range ha with ⟨hz, h1, h2⟩ | ⟨hz, h1, h2⟩ <;> rcases addrId_v6_range hb with ⟨hz', h1', h2'⟩ | ⟨hz', h1', h2'⟩
    · rw [h1, h1'] at h
      rw [hz, hz', h]
    · exfalso; omega
    · exfalso; omega
    · rw [h1, h1'] at h
      obtain ⟨e1, e2⟩ := tagged_inj 6 (by decide) (ha.1.trans hb.1.symm) ha.2.1 hb.2.1 ha.2.2 hb.2.2 h
      rw [e1, e2]

/-! ## cached decisions are backed by claims (nodes that do not learn, monotone clock) -/

/-- every cached entry is backed by a claim of the same peer that contains the address and does not expire before the entry -/
def CacheBacked (t : Table) : Prop :=
  ∀ v ∈ t.cache, ∃ e ∈ t.claims, e.peer = v.peer ∧ e.claim.matches v.addr = true ∧ v.timeout ≤ e.timeout

/-- no claim expires later than `T + claim timeout` (`T`: the time of the last operation) -/
def ClaimsBounded (T : Int) (t : Table) : Prop := ∀ e ∈ t.claims, e.timeout ≤ T + t.claimTimeout

theorem ClaimsBounded.mono {T T' : Int} {t : Table} (h : ClaimsBounded T t) (hT : T ≤ T') : ClaimsBounded T' t :=
  fun e he => by have := h e he; omega

theorem CacheBacked.lookup {t : Table} (h : CacheBacked t) (now : Int) (a : Addr) : CacheBacked (t.lookup now a).1 := by
  unfold Table.lookup
  cases hc : t.cache.find? (fun v => v.addr = a) with
  | some v => exact h
  | none =>
    simp only []
    cases hs : scan a t.claims none with
    | none => exact h
    | some e =>
      intro v hv
      rcases List.mem_cons.1 hv with rfl | hv
      · rcases (TableLemmas.scan_some a t.claims none e hs).1 with ⟨hm, hmatch⟩ | hacc
        · exact ⟨e, hm, rfl, hmatch, Int.min_le_right _ _⟩
        · cases hacc
      · exact h v (List.mem_filter.1 hv).1

theorem lookup_claims (t : Table) (now : Int) (a : Addr) : (t.lookup now a).1.claims = t.claims ∧
    (t.lookup now a).1.claimTimeout = t.claimTimeout := by
  unfold Table.lookup
  cases t.cache.find? (fun v => v.addr = a) with
  | some v => exact ⟨rfl, rfl⟩
  | none =>
    simp only []
    cases scan a t.claims none <;> exact ⟨rfl, rfl⟩

theorem CacheBacked.housekeep {t : Table} (h : CacheBacked t) (now : Int) : CacheBacked (t.housekeep now) := by
  intro v hv
  have hv' := List.mem_filter.1 hv
  obtain ⟨e, he, h1, h2, h3⟩ := h v hv'.1
  refine ⟨e, List.mem_filter.2 ⟨he, ?_⟩, h1, h2, h3⟩
  have : now ≤ v.timeout := by simpa [Generated.cacheLive] using hv'.2
  simp only [Generated.claimLive, ge_iff_le, decide_eq_true_eq]
  omega

theorem CacheBacked.removeClaims {t : Table} (h : CacheBacked t) (now : Int) (hnow : 0 < now) (q : PeerId) :
    CacheBacked (t.removeClaims now q) := by
  intro v hv
  rw [C12.removeClaims_cache t now q hnow, List.mem_filter] at hv
  obtain ⟨e, he, h1, h2, h3⟩ := h v hv.1
  have hv2 : v.peer ≠ q ∧ now ≤ v.timeout := by simpa using hv.2
  refine ⟨e, ?_, h1, h2, h3⟩
  rw [C12.removeClaims_claims t now q hnow, List.mem_filter]
  refine ⟨he, ?_⟩
  have : e.peer ≠ q := by rw [h1]; exact hv2.1
  simp only [Bool.and_eq_true, decide_eq_true_eq]
  exact ⟨this, by omega⟩

theorem ClaimsBounded.of_shrink {T : Int} {t0 t : Table} (h : ClaimsBounded T t0) (hs : TShrink t0 t) : ClaimsBounded T t :=
  fun e he => by rw [hs.2.2.2]; exact h e (hs.2.1.subset he)

/-- what the first loop of `set_claims` does with an entry: entries of other peers stay; an entry of `p` is refreshed, or the flag is set -/
theorem loop_keep (p : PeerId) (fresh : Int) (es : List ClaimEntry) (cs : List Range) (rm : Bool) :
    ∀ e ∈ es, (e.peer ≠ p → e ∈ (setClaimsLoop p fresh es cs rm).1) ∧
      (e.peer = p → { e with timeout := fresh } ∈ (setClaimsLoop p fresh es cs rm).1 ∨ (setClaimsLoop p fresh es cs rm).2.2 = true) := by
  induction es generalizing cs rm with
  | nil => intro e he; cases he
  | cons e0 es ih =>
    rw [TableLemmas.loop_cons]
    intro e he
    split
    · rename_i hp0
      split
      · rename_i pos _
        rcases List.mem_cons.1 he with rfl | he
        · exact ⟨fun hne => absurd hp0 hne, fun _ => Or.inl List.mem_cons_self⟩
        · have := ih (swapRemove cs pos) rm e he
          exact ⟨fun hne => List.mem_cons_of_mem _ (this.1 hne), fun hp => (this.2 hp).imp (List.mem_cons_of_mem _) id⟩
      · have hflag : (setClaimsLoop p fresh es cs true).2.2 = true := TableLemmas.loop_flag p fresh es cs true (Or.inl rfl)
        rcases List.mem_cons.1 he with rfl | he
        · exact ⟨fun hne => absurd hp0 hne, fun _ => Or.inr hflag⟩
        · have := ih cs true e he
          exact ⟨fun hne => List.mem_cons_of_mem _ (this.1 hne), fun _ => Or.inr hflag⟩
    · rename_i hp0
      rcases List.mem_cons.1 he with rfl | he
      · exact ⟨fun _ => List.mem_cons_self, fun hp => absurd hp hp0⟩
      · have := ih cs rm e he
        exact ⟨fun hne => List.mem_cons_of_mem _ (this.1 hne), fun hp => (this.2 hp).imp (List.mem_cons_of_mem _) id⟩

theorem CacheBacked.setClaims {t : Table} (h : CacheBacked t) (now : Int) (hnow : 0 < now) (hb : ClaimsBounded now t) (p : PeerId)
    (cs : List Range) : CacheBacked (t.setClaims now p cs) := by
  intro v hv
  rw [C12.setClaims_cache, List.mem_filter] at hv
  obtain ⟨hv1, hv2⟩ := hv
  have hlive : now ≤ v.timeout := by simpa using hv2
  -- the entry as it was in the old cache, and whether the flag is set
  have hold : ∃ w ∈ t.cache, w.addr = v.addr ∧ w.peer = v.peer ∧ v.timeout ≤ w.timeout ∧
      ((setClaimsLoop p (now + t.claimTimeout) t.claims cs false).2.2 = true → v.peer ≠ p) := by
    split at hv1
    · rename_i hflag
      rcases List.mem_map.1 hv1 with ⟨w, hw, rfl⟩
      by_cases hwp : w.peer = p
      · rw [if_pos hwp] at hlive
        have : now ≤ 0 := hlive
        omega
      · rw [if_neg hwp]
        exact ⟨w, hw, rfl, rfl, Int.le_refl _, fun _ => hwp⟩
    · rename_i hflag
      exact ⟨v, hv1, rfl, rfl, Int.le_refl _, fun hf => absurd hf hflag⟩
  obtain ⟨w, hw, hwa, hwp, hwt, hfl⟩ := hold
  obtain ⟨e, he, h1, h2, h3⟩ := h w hw
  have hk := loop_keep p (now + t.claimTimeout) t.claims cs false e he
  rw [C12.setClaims_claims]
  by_cases hep : e.peer = p
  · rcases hk.2 hep with hin | hflag
    · refine ⟨{ e with timeout := now + t.claimTimeout }, ?_, by rw [← hwp]; exact h1, by rw [← hwa]; exact h2, ?_⟩
      · refine List.mem_filter.2 ⟨List.mem_append_left _ hin, ?_⟩
        have := hb e he
        simp only [ge_iff_le, decide_eq_true_eq]
        omega
      · have := hb e he
        show v.timeout ≤ now + t.claimTimeout
        omega
    · exact absurd (by rw [← hwp, ← h1]; exact hep) (hfl hflag)
  · refine ⟨e, ?_, by rw [← hwp]; exact h1, by rw [← hwa]; exact h2, by omega⟩
    refine List.mem_filter.2 ⟨List.mem_append_left _ (hk.1 hep), ?_⟩
    simp only [ge_iff_le, decide_eq_true_eq]
    omega

theorem ClaimsBounded.setClaims {t : Table} (now : Int) (hnow : 0 < now) (hb : ClaimsBounded now t) (p : PeerId) (cs : List Range) :
    ClaimsBounded now (t.setClaims now p cs) := by
  intro e he
  show e.timeout ≤ now + t.claimTimeout
  rw [C12.setClaims_claims, List.mem_filter, List.mem_append] at he
  rcases he.1 with he1 | he1
  · rcases C01MoreLemmas.loop_mem_old _ _ _ _ _ e he1 with hold | hp
    · exact hb e hold
    · rcases TableLemmas.loop_mem_peer _ _ _ _ _ e he1 hp with ⟨hf, _⟩ | h0
      · omega
      · omega
  · rcases List.mem_map.1 he1 with ⟨c, _, rfl⟩
    exact Int.le_refl _

/-- a property of tables that `remove_claims` and the sweep keep is kept by a housekeeping tick -/
theorem housekeep_table_pres (Q : Table → Prop) (env : CryptoEnv) (o : Oracle) (n : Node) (now : Int)
    (hrem : ∀ t q, Q t → Q (t.removeClaims now q)) (hsw : ∀ t, Q t → Q (t.housekeep now)) (h : Q n.table) :
    Q (housekeep env o n now).node.table := by
  rw [housekeep_tail_table, C09MoreLemmas.cryptoHousekeep_eq]
  unfold C09MoreLemmas.peerLoop
  apply foldl_inv (fun c => Q c.node.table)
  · intro c a hc
    unfold C09MoreLemmas.peerStep
    split
    · exact hc
    · split
      split
      · rw [C09MoreLemmas.connectSock_table]
        exact hrem _ _ hc
      · exact hc
      · split
        · exact hc
        · exact hc
  · rw [C09MoreLemmas.pendLoop_table]
    show Q ((hkDead env o n now).node.table.housekeep now)
    apply hsw
    rw [hkDead_eq]
    apply foldl_inv (fun c => Q c.node.table) _ _ _ _ h
    intro c a hc
    rw [deadStep_table]
    exact hrem _ _ hc

end VpnCloud.Proofs.C13MoreLemmas
