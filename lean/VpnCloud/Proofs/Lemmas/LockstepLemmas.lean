import VpnCloud.Proofs.C02
import VpnCloud.Proofs.C05
import VpnCloud.Proofs.C06
import VpnCloud.Proofs.C16Init
/-
  Helper lemmas for `Proofs/C05Lockstep.lean` (the loss-free handshake completes with agreement):
  forward ("it is accepted") forms of `handleInit`, `sendMessage`, `decryptPayload`, and the
  state of slot 0 of a handshake core through seal / open.
-/
namespace VpnCloud.Proofs.LockstepLemmas

open VpnCloud VpnCloud.Init VpnCloud.InitMsg VpnCloud.Spec.C04
open VpnCloud.Proofs.InitLemmas VpnCloud.Proofs.CoreLemmas

/-! ## `handleInit`, forward -/

/-- a window that `readFrom` accepts, from another node, with the stage the object waits for, goes to the per-message part -/
theorem handleInit_accept (env : CryptoEnv) (bodyOf : BodyOf) (ok : Bytes → Bool) (st : InitSt) (w : Bytes) (rnd : Rand)
    (m : InitMsg) (k : Bytes) (hr : readFrom env w st.trusted = .ok (m, k)) (hne : st.hash ≠ m.hash)
    (hself : checkSaltedNodeIdHash env m.hash st.nodeId = false) (hst : m.stage = st.stage) :
    handleInit env bodyOf ok st w rnd = handleMsg env bodyOf ok st m rnd := by
  rw [handleInit_eq, hr]
  simp only
  have hc : ¬ (st.hash = m.hash || checkSaltedNodeIdHash env m.hash st.nodeId) = true := by
    simp [hne, hself]
  rw [if_neg hc]
  have hs : stageCheck st m.stage m.hash = .inl (some st) := by
    unfold stageCheck
    rw [if_neg (by simp [hst])]
  rw [hs]

theorem sendMessage_ping (env : CryptoEnv) (st : InitSt) (rnd : Rand) :
    sendMessage env st Generated.STAGE_PING rnd =
      ({ st with last := some (writeTo (.ping st.hash rnd.ecdhPub st.algos) rnd.salt (env.keyHash st.ownKey rnd.salt) rnd.sig) },
       writeTo (.ping st.hash rnd.ecdhPub st.algos) rnd.salt (env.keyHash st.ownKey rnd.salt) rnd.sig, []) := rfl

theorem sendMessage_pong (env : CryptoEnv) (st : InitSt) (rnd : Rand) :
    sendMessage env st Generated.STAGE_PONG rnd =
      ({ (encryptPayload st rnd).1 with
          last := some (writeTo (.pong st.hash rnd.ecdhPub st.algos (encryptPayload st rnd).2.1) rnd.salt (env.keyHash st.ownKey rnd.salt) rnd.sig) },
       writeTo (.pong st.hash rnd.ecdhPub st.algos (encryptPayload st rnd).2.1) rnd.salt (env.keyHash st.ownKey rnd.salt) rnd.sig,
       (encryptPayload st rnd).2.2) := rfl

theorem sendMessage_peng (env : CryptoEnv) (st : InitSt) (rnd : Rand) :
    sendMessage env st Generated.STAGE_PENG rnd =
      ({ (encryptPayload st rnd).1 with
          last := some (writeTo (.peng st.hash (encryptPayload st rnd).2.1) rnd.salt (env.keyHash st.ownKey rnd.salt) rnd.sig) },
       writeTo (.peng st.hash (encryptPayload st rnd).2.1) rnd.salt (env.keyHash st.ownKey rnd.salt) rnd.sig,
       (encryptPayload st rnd).2.2) := rfl

theorem encryptPayload_none (st : InitSt) (rnd : Rand) (h : st.crypto = none) : encryptPayload st rnd = (st, st.payload, []) := by
  unfold encryptPayload; rw [h]

theorem encryptPayload_some (st : InitSt) (rnd : Rand) (c : Core) (h : st.crypto = some c) :
    encryptPayload st rnd =
      ({ st with crypto := some (c.encrypt st.payload).1 }, (c.encrypt st.payload).2.hdr ++ rnd.ct, [(rnd.ct, (c.encrypt st.payload).2.body)]) := by
  unfold encryptPayload; rw [h]

theorem decryptPayload_ok (s : InitSt) (bodyOf : BodyOf) (data : Bytes) (c : Core) (p : Bytes) (h : s.crypto = some c)
    (hd : (c.decrypt { hdr := data.take 8, body := bodyOf (data.drop 8) }).2 = .ok p) :
    decryptPayload s bodyOf data = ({ s with crypto := some (c.decrypt { hdr := data.take 8, body := bodyOf (data.drop 8) }).1 }, some p) := by
  unfold decryptPayload
  rw [h]
  simp only
  generalize c.decrypt { hdr := data.take 8, body := bodyOf (data.drop 8) } = r at hd
  obtain ⟨c', res⟩ := r
  simp only at hd
  subst hd
  rfl

/-! ## slot 0 of a handshake core -/

/-- what the handshake needs to know about a core: it sends from slot 0, its nonce half, and key / send counter / window floor of slot 0 -/
structure Slot0 (c : Core) (K : KeyRef) (half : Bool) (send : Nat) : Prop where
  cur : c.cur = 0
  half : c.half = half
  slot : ∃ k, c.slots[0]? = some k ∧ k.key = K ∧ k.send = send ∧ k.min = 0

theorem slot0_new (K : KeyRef) (h : Bool) (d : KeyRef) (s : Nat) (ss : List Nat) :
    Slot0 (Core.new K h d (s :: ss)) K h (base h + s) :=
  ⟨rfl, rfl, _, rfl, rfl, rfl, rfl⟩

theorem slot0_coreOK {c : Core} {K : KeyRef} {h : Bool} {s : Nat} (hc : Slot0 c K h s) : CoreOK K h c := by
  obtain ⟨_, hh, k, hk, hkey, _, _⟩ := hc
  exact ⟨by rw [hk]; simp [hkey], hh⟩

theorem slot0_decrypt {c : Core} {K : KeyRef} {h : Bool} {s : Nat} (d : Dgram) (hc : Slot0 c K h s) : Slot0 (c.decrypt d).1 K h s := by
  rcases decrypt_cases c d with ⟨e, he⟩ | ⟨k', p, _, _, hk', _, _, hd⟩
  · rw [he]; exact hc
  · rw [hd]
    obtain ⟨hcur, hh, k, hk, hkey, hsend, hmin⟩ := hc
    refine ⟨hcur, hh, ?_⟩
    simp only
    by_cases hid : d.keyId = 0
    · rw [hid] at hk' ⊢
      rw [hk] at hk'
      cases hk'
      have hlt : 0 < c.slots.length := (List.getElem?_eq_some_iff.1 hk).1
      refine ⟨_, List.getElem?_set_self hlt, ?_, ?_, ?_⟩ <;> (simp only [Spec.C03.slotStep]; split <;> assumption)
    · refine ⟨k, ?_, hkey, hsend, hmin⟩
      rw [List.getElem?_set_ne hid]
      exact hk

theorem slot0_encrypt {c : Core} {K : KeyRef} {h : Bool} {s : Nat} (p : Bytes) (hc : Slot0 c K h s) (hlt : s + 1 < NONCE_MOD) :
    (c.encrypt p).2 = { hdr := 0 :: Bytes.ofBE 7 (s + 1), body := .sealed K (s + 1) p } ∧ Slot0 (c.encrypt p).1 K h (s + 1) := by
  obtain ⟨hcur, hh, k, hk, hkey, hsend, hmin⟩ := hc
  have hk' : c.slots[c.cur]? = some k := by rw [hcur]; exact hk
  obtain ⟨e2, e1⟩ := C04.encrypt_spec c p k hk' (by rw [hsend]; exact hlt)
  rw [e2, e1]
  have hl : 0 < c.slots.length := (List.getElem?_eq_some_iff.1 hk).1
  refine ⟨by rw [hcur, hkey, hsend], hcur, hh, ?_⟩
  simp only [hcur]
  exact ⟨_, List.getElem?_set_self hl, hkey, by simp only [hsend], hmin⟩

/-- the first datagram of the other half's fresh core is opened -/
theorem slot0_opens {c : Core} {K : KeyRef} {h : Bool} {s : Nat} (hc : Slot0 c K (!h) s) (v : Nat) (hv : v < 2 ^ 56) (p : Bytes) :
    (c.decrypt { hdr := 0 :: Bytes.ofBE 7 (base h + v), body := .sealed K (base h + v) p }).2 = .ok p := by
  obtain ⟨_, hh, k, hk, hkey, _, hmin⟩ := hc
  obtain ⟨f1, f2, f3⟩ := C04.sealed_fields 0 (base h + v) (.sealed K (base h + v) p)
  have hrec : c.reconstruct (Dgram.mk (0 :: Bytes.ofBE 7 (base h + v)) (.sealed K (base h + v) p)).counter = base h + v := by
    rw [f2, C04.reconstruct_eq, hh, Bool.not_not, C04.base_mod, Nat.mod_eq_of_lt hv]
  have hd := (C03.decrypt_authentic c _ k p (by rw [f3]; simp only [Body.len, Generated.TAG_LEN]; omega)
    (by rw [f1]; decide) (by rw [f1]; exact hk) (by rw [hrec, hkey])).1
  exact (hd (by rw [hmin]; exact Nat.zero_le _)).1

/-! ## small facts -/

theorem hash_ne_of_beVal {h1 h2 : Bytes} (h : Bytes.beVal h1 ≠ Bytes.beVal h2) : h1 ≠ h2 := by
  intro e; rw [e] at h; exact h rfl

theorem first_nonce_lt (h : Bool) (s : Nat) (hs : s < 2 ^ 48) : base h + s + 1 < NONCE_MOD := by
  rw [pow48] at hs
  rw [nonce_mod_eq]
  cases h <;> simp only [base, half_eq, if_true, Bool.false_eq_true, if_false] <;> omega

theorem start_succ_lt (s : Nat) (hs : s < 2 ^ 48) : s + 1 < 2 ^ 56 := by
  rw [pow48] at hs; rw [pow56]; omega

end VpnCloud.Proofs.LockstepLemmas
