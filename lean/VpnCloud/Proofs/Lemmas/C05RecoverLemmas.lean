import VpnCloud.Proofs.C05Agree
import VpnCloud.Proofs.C01Mutual
/-
  Helper lemmas for `Proofs/C05Recover.lean` (recovery of one pair of handshake objects once delivery is reliable).

  The invariant `RI` is ghost-free: it describes the stored last message of every object and every logged signature of the run in
  terms of the CURRENT states of the two objects (`Mine`): which ephemeral key a ping carries, under which key and with which header
  the payload of a pong / peng was sealed (`Field`), and that the peer's handshake core — if the peer still waits — holds that key
  (`HasCore`).  It is preserved by every step of `StepW` (= `C05Agree.Step` with slot-0 counter starts `< 2^48`, as the Rust draws
  them) as long as `bodyOf` is the ideal AEAD on the seal log (`Opens`).
-/
namespace VpnCloud.Proofs.C05RecoverLemmas

open VpnCloud VpnCloud.Init VpnCloud.InitMsg VpnCloud.Spec.C04
open VpnCloud.Proofs.InitLemmas VpnCloud.Proofs.C05AgreeLemmas VpnCloud.Proofs.LockstepLemmas VpnCloud.Proofs.CoreLemmas
open VpnCloud.Proofs.C05Lockstep (EcdhWF Opens firstNonce firstNonce_eq sealed_take_drop)
open VpnCloud.Proofs.C16Init (algosWF msgWF)
open VpnCloud.Proofs.InitMsgLemmas

abbrev PING := Generated.STAGE_PING
abbrev PONG := Generated.STAGE_PONG
abbrev PENG := Generated.STAGE_PENG
abbrev WAIT := Generated.WAITING_TO_CLOSE
abbrev CLOSING := Generated.CLOSING

/-! ## what the messages of an object say -/

/-- the payload field `pl` of a pong / peng carrying `payload`: with a cipher, key id 0, the 7 low bytes of the first nonce of a fresh
    core of half `h` (slot-0 counter start `< 2^48`) and a ciphertext that the seal log records as `payload` sealed under `K c` with
    that nonce; without cipher the payload itself -/
def Field (sel : Option Cipher) (seals : SealLog) (h : Bool) (K : Cipher → KeyRef) (payload pl : Bytes) : Prop :=
  match sel with
  | some c => ∃ start ct, start < 2 ^ 48 ∧ pl = 0 :: Bytes.ofBE 7 (firstNonce h start) ++ ct ∧
      (ct, Body.sealed (K c) (firstNonce h start) payload) ∈ seals
  | none => pl = payload

/-- the handshake core of `x`: with a cipher, a core that sends from slot 0, of half `h`, with key `K c` in slot 0 and window floor 0;
    without cipher none -/
def HasCore (sel : Option Cipher) (x : InitSt) (K : Cipher → KeyRef) (h : Bool) : Prop :=
  match sel with
  | some c => ∃ core s, x.crypto = some core ∧ Slot0 core (K c) h s
  | none => x.crypto = none

/-- what a signed message of object `x` (peer `y`) says, in terms of the current states -/
def Mine (sel : Option Cipher) (x y : InitSt) (seals : SealLog) : InitMsg → Prop
  | .ping _ e al => al = x.algos ∧ EcdhWF e ∧ x.stage ≠ PING ∧ (x.stage = PONG → x.ecdh = some e) ∧
      (x.stage = PENG → bytesGt y.hash x.hash = true)
  | .pong _ e al pl => al = x.algos ∧ EcdhWF e ∧ (x.stage = PENG ∨ x.stage = CLOSING) ∧ y.stage ≠ PING ∧
      ∃ pe, EcdhWF pe ∧ (y.stage = PONG → y.ecdh = some pe) ∧
        Field sel seals (bytesGt x.hash y.hash) (fun c => masterKey c e pe) x.payload pl ∧
        (x.stage = PENG → HasCore sel x (fun c => masterKey c e pe) (bytesGt x.hash y.hash))
  | .peng _ pl => (x.stage = WAIT ∨ x.stage = CLOSING) ∧ (y.stage = PENG ∨ y.stage = CLOSING) ∧
      ∃ K, Field sel seals (bytesGt x.hash y.hash) K x.payload pl ∧ (y.stage = PENG → HasCore sel y K (bytesGt y.hash x.hash))

/-- the stored last message of `x` is a message of stage `k` of `x` that says what `Mine` says -/
def LastIs (sel : Option Cipher) (x y : InitSt) (seals : SealLog) (k : Nat) : Prop :=
  ∃ m salt kh tail, x.last = some (signedRegion m salt kh ++ tail) ∧ salt.length = 4 ∧ kh.length = 4 ∧ msgWF m ∧
    m.hash = x.hash ∧ m.stage = k ∧ Mine sel x y seals m

def StageOK (n : Nat) : Prop := n = PING ∨ n = PONG ∨ n = PENG ∨ n = WAIT ∨ n = CLOSING

/-- **the classes of one object** (peer `y`, successes reported so far `dn`) -/
structure Obj (sel : Option Cipher) (x y : InitSt) (seals : SealLog) (dn : List (Bytes × Bool)) : Prop where
  st : StageOK x.stage
  /-- fresh: nothing sent, no key, no core -/
  o2 : x.stage = PING → x.last = none ∧ x.ecdh = none ∧ x.crypto = none
  /-- initiator awaiting pong: `last` is its ping (which carries its ephemeral key, see `Mine`), no core -/
  o3 : x.stage = PONG → x.crypto = none ∧ LastIs sel x y seals PING
  /-- responder awaiting peng: `last` is its pong (whose `Mine` describes the core) -/
  o4 : x.stage = PENG → LastIs sel x y seals PONG
  /-- completed initiator: `last` is its peng, success reported -/
  o5 : x.stage = WAIT → LastIs sel x y seals PENG ∧ dn ≠ []
  pl : sel = none → x.crypto = none

def SigInvR (sel : Option Cipher) (x y : InitSt) (sigs : List (Bytes × Bytes)) (seals : SealLog) : Prop :=
  ∀ k r, (k, r) ∈ sigs → ∃ m salt kh, r = signedRegion m salt kh ∧ salt.length = 4 ∧ kh.length = 4 ∧ msgWF m ∧
    ((m.hash = x.hash ∧ Mine sel x y seals m) ∨ (m.hash = y.hash ∧ Mine sel y x seals m))

/-- the static hypotheses of the recovery argument: the negotiation of the two algorithm sets succeeds with the same result at both
    ends, each payload parser accepts the other's payload, neither salted hash is the salted hash of the other's node id -/
structure Good (env : CryptoEnv) (ok : Bytes → Bool) (sel : Option Cipher) (x y : InitSt) : Prop where
  selX : selectAlgorithm x.algos y.algos = .ok sel
  selY : selectAlgorithm y.algos x.algos = .ok sel
  okX : ok x.payload = true
  okY : ok y.payload = true
  selfX : checkSaltedNodeIdHash env y.hash x.nodeId = false
  selfY : checkSaltedNodeIdHash env x.hash y.nodeId = false

theorem Good.swap {env : CryptoEnv} {ok : Bytes → Bool} {sel : Option Cipher} {x y : InitSt} (h : Good env ok sel x y) :
    Good env ok sel y x := ⟨h.selY, h.selX, h.okY, h.okX, h.selfY, h.selfX⟩

theorem Good.static {env : CryptoEnv} {ok : Bytes → Bool} {sel : Option Cipher} {x x' y : InitSt} (h : Good env ok sel x y)
    (hs : Static x x') : Good env ok sel x' y := by
  obtain ⟨h1, h2, h3, _, _, h6⟩ := hs
  exact ⟨by rw [h6]; exact h.selX, by rw [h6]; exact h.selY, by rw [h3]; exact h.okX, h.okY, by rw [h1]; exact h.selfX,
    by rw [h2]; exact h.selfY⟩

/-- **the recovery invariant** of the pair -/
structure RI (env : CryptoEnv) (ok : Bytes → Bool) (sel : Option Cipher) (x y : InitSt) (dx dy : List (Bytes × Bool))
    (sigs : List (Bytes × Bytes)) (seals : SealLog) : Prop where
  ox : Obj sel x y seals dx
  oy : Obj sel y x seals dy
  sig : SigInvR sel x y sigs seals
  wx : WfObj x
  wy : WfObj y
  hne : Bytes.beVal x.hash ≠ Bytes.beVal y.hash
  /-- the two objects never both wait for a peng -/
  noRR : ¬ (x.stage = PENG ∧ y.stage = PENG)
  good : Good env ok sel x y

section
variable {env : CryptoEnv} {ok : Bytes → Bool} {sel : Option Cipher} {x y : InitSt} {dx dy : List (Bytes × Bool)}
  {sigs : List (Bytes × Bytes)} {seals : SealLog}

theorem RI.swap (h : RI env ok sel x y dx dy sigs seals) : RI env ok sel y x dy dx sigs seals :=
  ⟨h.oy, h.ox, fun k r hk => by
      obtain ⟨m, salt, kh, h1, h2, h3, h4, h5⟩ := h.sig k r hk
      exact ⟨m, salt, kh, h1, h2, h3, h4, h5.symm⟩, h.wy, h.wx, fun e => h.hne e.symm, fun e => h.noRR ⟨e.2, e.1⟩, h.good.swap⟩

end

/-! ## monotonicity and the small transitions -/

theorem Field.mono {sel : Option Cipher} {seals seals' : SealLog} {h : Bool} {K : Cipher → KeyRef} {payload pl : Bytes}
    (hf : Field sel seals h K payload pl) (hs : ∀ e ∈ seals, e ∈ seals') : Field sel seals' h K payload pl := by
  unfold Field at hf ⊢
  cases sel with
  | none => exact hf
  | some c =>
    obtain ⟨start, ct, h1, h2, h3⟩ := hf
    exact ⟨start, ct, h1, h2, hs _ h3⟩

/-- a transition of `x` that sends nothing new: the stage stays or becomes CLOSING, in stage PENG the core may have tried to open
    something -/
structure Trans (x x' : InitSt) : Prop where
  static : Static x x'
  st : StageOK x'.stage
  last : x'.last = x.last
  cr : x.crypto = none → x'.crypto = none
  t1 : x'.stage = PING → x.stage = PING ∧ x'.ecdh = x.ecdh
  t2 : x'.stage = PONG → x.stage = PONG ∧ x'.ecdh = x.ecdh
  t3 : x'.stage = PENG → x.stage = PENG ∧ (x'.crypto = x.crypto ∨ ∃ c d, x.crypto = some c ∧ x'.crypto = some (c.decrypt d).1)
  t4 : x'.stage = WAIT → x.stage = WAIT

theorem Trans.stay {x x' : InitSt} (t : Trans x x') (k : Nat) (hk : k = PENG ∨ k = WAIT)
    (h : x.stage = k ∨ x.stage = CLOSING) : x'.stage = k ∨ x'.stage = CLOSING := by
  rcases t.st with e | e | e | e | e
  · have := (t.t1 e).1; rcases h with h | h <;> rcases hk with hk | hk <;> (rw [this] at h; try rw [hk] at h) <;> exact absurd h (by decide)
  · have := (t.t2 e).1; rcases h with h | h <;> rcases hk with hk | hk <;> (rw [this] at h; try rw [hk] at h) <;> exact absurd h (by decide)
  · have := (t.t3 e).1
    rcases h with h | h
    · rw [this] at h; left; rw [e, h]
    · rw [this] at h; exact absurd h (by decide)
  · have := t.t4 e
    rcases h with h | h
    · rw [this] at h; left; rw [e, h]
    · rw [this] at h; exact absurd h (by decide)
  · exact Or.inr e

theorem HasCore.trans {sel : Option Cipher} {x x' : InitSt} {K : Cipher → KeyRef} {h : Bool} (hc : HasCore sel x K h)
    (cr : x.crypto = none → x'.crypto = none)
    (t : x'.crypto = x.crypto ∨ ∃ c d, x.crypto = some c ∧ x'.crypto = some (c.decrypt d).1) : HasCore sel x' K h := by
  unfold HasCore at hc ⊢
  cases sel with
  | none => exact cr hc
  | some c =>
    obtain ⟨core, s, h1, h2⟩ := hc
    rcases t with t | ⟨c0, d, t1, t2⟩
    · exact ⟨core, s, by rw [t]; exact h1, h2⟩
    · rw [h1] at t1
      cases t1
      exact ⟨_, s, t2, slot0_decrypt d h2⟩


theorem Trans.notPing {x x' : InitSt} (t : Trans x x') (h : x.stage ≠ PING) : x'.stage ≠ PING :=
  fun e => h (t.t1 e).1

/-- own messages keep saying what they say -/
theorem Mine.self {sel : Option Cipher} {x x' y : InitSt} {seals : SealLog} {m : InitMsg} (h : Mine sel x y seals m)
    (t : Trans x x') : Mine sel x' y seals m := by
  obtain ⟨_, hh, hp, _, _, ha⟩ := t.static
  cases m with
  | ping hs e al =>
    obtain ⟨h1, h2, h3, h4, h5⟩ := h
    refine ⟨by rw [ha]; exact h1, h2, t.notPing h3, ?_, ?_⟩
    · intro e'; rw [(t.t2 e').2]; exact h4 (t.t2 e').1
    · intro e'; rw [hh]; exact h5 (t.t3 e').1
  | pong hs e al pl =>
    obtain ⟨h1, h2, h3, h4, pe, h5, h6, h7, h8⟩ := h
    refine ⟨by rw [ha]; exact h1, h2, t.stay PENG (Or.inl rfl) h3, h4, pe, h5, h6, by rw [hh, hp]; exact h7, ?_⟩
    intro e'
    rw [hh]
    exact (h8 (t.t3 e').1).trans t.cr (t.t3 e').2
  | peng hs pl =>
    obtain ⟨h1, h2, K, h3, h4⟩ := h
    exact ⟨t.stay WAIT (Or.inr rfl) h1, h2, K, by rw [hh, hp]; exact h3, by rw [hh]; exact h4⟩

/-- the peer's messages keep saying what they say -/
theorem Mine.peer {sel : Option Cipher} {x x' y : InitSt} {seals : SealLog} {m : InitMsg} (h : Mine sel y x seals m)
    (t : Trans x x') : Mine sel y x' seals m := by
  obtain ⟨_, hh, hp, _, _, ha⟩ := t.static
  cases m with
  | ping hs e al =>
    obtain ⟨h1, h2, h3, h4, h5⟩ := h
    exact ⟨h1, h2, h3, h4, by rw [hh]; exact h5⟩
  | pong hs e al pl =>
    obtain ⟨h1, h2, h3, h4, pe, h5, h6, h7, h8⟩ := h
    refine ⟨h1, h2, h3, t.notPing h4, pe, h5, ?_, by rw [hh]; exact h7, by rw [hh]; exact h8⟩
    intro e'; rw [(t.t2 e').2]; exact h6 (t.t2 e').1
  | peng hs pl =>
    obtain ⟨h1, h2, K, h3, h4⟩ := h
    refine ⟨h1, t.stay PENG (Or.inl rfl) h2, K, by rw [hh]; exact h3, ?_⟩
    intro e'
    rw [hh]
    exact (h4 (t.t3 e').1).trans t.cr (t.t3 e').2

theorem Mine.mono {sel : Option Cipher} {x y : InitSt} {seals seals' : SealLog} {m : InitMsg} (h : Mine sel x y seals m)
    (hs : ∀ e ∈ seals, e ∈ seals') : Mine sel x y seals' m := by
  cases m with
  | ping hs e al => exact h
  | pong hh e al pl =>
    obtain ⟨h1, h2, h3, h4, pe, h5, h6, h7, h8⟩ := h
    exact ⟨h1, h2, h3, h4, pe, h5, h6, h7.mono hs, h8⟩
  | peng hh pl =>
    obtain ⟨h1, h2, K, h3, h4⟩ := h
    exact ⟨h1, h2, K, h3.mono hs, h4⟩

/-- the object invariant of the peer of a stepping object: only what its messages say has to be carried over -/
theorem Obj.map {sel : Option Cipher} {y x x' : InitSt} {seals seals' : SealLog} {dn : List (Bytes × Bool)} (h : Obj sel y x seals dn)
    (f : ∀ m, m.hash = y.hash → Mine sel y x seals m → Mine sel y x' seals' m) : Obj sel y x' seals' dn := by
  have g : ∀ k, LastIs sel y x seals k → LastIs sel y x' seals' k := by
    rintro k ⟨m, salt, kh, tail, h1, h2, h3, h4, h5, h6, h7⟩
    exact ⟨m, salt, kh, tail, h1, h2, h3, h4, h5, h6, f m h5 h7⟩
  exact ⟨h.st, h.o2, fun e => ⟨(h.o3 e).1, g _ (h.o3 e).2⟩, fun e => g _ (h.o4 e), fun e => ⟨g _ (h.o5 e).1, (h.o5 e).2⟩, h.pl⟩

/-- the object invariant after a small transition -/
theorem Obj.trans {sel : Option Cipher} {x x' y : InitSt} {seals : SealLog} {dn dn' : List (Bytes × Bool)} (h : Obj sel x y seals dn)
    (t : Trans x x') (hd : dn ≠ [] → dn' ≠ []) : Obj sel x' y seals dn' := by
  have g : ∀ k, LastIs sel x y seals k → LastIs sel x' y seals k := by
    rintro k ⟨m, salt, kh, tail, h1, h2, h3, h4, h5, h6, h7⟩
    exact ⟨m, salt, kh, tail, by rw [t.last]; exact h1, h2, h3, h4, by rw [t.static.2.1]; exact h5, h6, h7.self t⟩
  refine ⟨t.st, ?_, ?_, ?_, ?_, fun e => t.cr (h.pl e)⟩
  · intro e
    obtain ⟨e1, e2⟩ := t.t1 e
    obtain ⟨a1, a2, a3⟩ := h.o2 e1
    exact ⟨by rw [t.last]; exact a1, by rw [e2]; exact a2, t.cr a3⟩
  · intro e
    obtain ⟨e1, _⟩ := t.t2 e
    exact ⟨t.cr (h.o3 e1).1, g _ (h.o3 e1).2⟩
  · intro e; exact g _ (h.o4 (t.t3 e).1)
  · intro e; exact ⟨g _ (h.o5 (t.t4 e)).1, hd (h.o5 (t.t4 e)).2⟩

section
variable {env : CryptoEnv} {ok : Bytes → Bool} {sel : Option Cipher} {x y : InitSt} {dx dy : List (Bytes × Bool)}
  {sigs : List (Bytes × Bytes)} {seals : SealLog}

/-- **small transitions preserve the invariant** -/
theorem RI.trans (h : RI env ok sel x y dx dy sigs seals) {x' : InitSt} {dx' : List (Bytes × Bool)} (t : Trans x x')
    (hd : dx ≠ [] → dx' ≠ []) : RI env ok sel x' y dx' dy sigs seals := by
  have hh : x'.hash = x.hash := t.static.2.1
  refine ⟨h.ox.trans t hd, h.oy.map (fun m _ hm => hm.peer t), ?_, h.wx.of_static t.static, h.wy, by rw [hh]; exact h.hne, ?_,
    h.good.static t.static⟩
  · intro k r hk
    obtain ⟨m, salt, kh, h1, h2, h3, h4, h5⟩ := h.sig k r hk
    refine ⟨m, salt, kh, h1, h2, h3, h4, ?_⟩
    rcases h5 with ⟨h5, h6⟩ | ⟨h5, h6⟩
    · exact Or.inl ⟨by rw [hh]; exact h5, h6.self t⟩
    · exact Or.inr ⟨h5, h6.peer t⟩
  · intro e
    exact h.noRR ⟨(t.t3 e.1).1, e.2⟩

theorem Trans.refl' (hst : StageOK x.stage) : Trans x x :=
  ⟨Static.refl x, hst, rfl, fun h => h, fun e => ⟨e, rfl⟩, fun e => ⟨e, rfl⟩, fun e => ⟨e, Or.inl rfl⟩, fun e => e⟩

/-- timers and counters: the stage stays or becomes CLOSING -/
theorem Trans.restage (hst : StageOK x.stage) (s' ct rt : Nat) (hs : s' = x.stage ∨ s' = CLOSING) :
    Trans x { x with stage := s', closeTime := ct, retries := rt } := by
  refine ⟨⟨rfl, rfl, rfl, rfl, rfl, rfl⟩, ?_, rfl, fun h => h, ?_, ?_, ?_, ?_⟩
  · rcases hs with hs | hs
    · show StageOK s'; rw [hs]; exact hst
    · exact Or.inr (Or.inr (Or.inr (Or.inr hs)))
  all_goals
    intro e
    have e' : s' = _ := e
    rcases hs with hs | hs
    · first | exact ⟨hs ▸ e', rfl⟩ | exact ⟨hs ▸ e', Or.inl rfl⟩ | exact hs ▸ e'
    · rw [hs] at e'; exact absurd e' (by decide)

/-- a bridge as `Inv2.bridge`: every accepted message of the other node was signed by the peer object and says what `Mine` says -/
theorem RI.bridge (h : RI env ok sel x y dx dy sigs seals) {w : Bytes} {m : InitMsg} {k : Bytes}
    (hI : I1 env sigs x.trusted w) (hr : readFrom env w x.trusted = .ok (m, k)) (hne : x.hash ≠ m.hash) :
    m.hash = y.hash ∧ Mine sel y x seals m := by
  obtain ⟨hk, _, signed, sig, rest, hw, hv⟩ := VpnCloud.Proofs.C01.readFrom_accept_genuine env w x.trusted m k hr
  have hmem := hI signed sig rest k hw hk hv
  obtain ⟨m', salt, kh, h1, h2, h3, h4, h5⟩ := h.sig k signed hmem
  have hw' : w = signedRegion m' salt kh ++ ([sig.length] ++ sig ++ rest) := by rw [hw, h1]; simp
  rw [hw'] at hr
  have hm := readFrom_signed_inv env m' salt kh _ x.trusted m k h4 h2 h3 hr
  subst hm
  rcases h5 with ⟨h5, _⟩ | ⟨h5, h6⟩
  · exact absurd h5.symm hne
  · exact ⟨h5, h6⟩

end


/-! ## the two seals of a handshake, with the state of slot 0 -/

/-- a ping answered with a cipher: the new state, the pong with its payload field in closed form, the seal log, slot 0 of the core -/
theorem pingRes_slot0 (env : CryptoEnv) (st0 : InitSt) (h e : Bytes) (c : Cipher) (rnd : Rand) (hs : rnd.start < 2 ^ 48) :
    ∃ core, pingRes env st0 h e (some c) rnd =
        .ok { st0 with retries := 0, selected := some c, crypto := some core,
                       last := some (wireOf env st0 (.pong st0.hash rnd.ecdhPub st0.algos
                         (0 :: Bytes.ofBE 7 (firstNonce (bytesGt st0.hash h) rnd.start) ++ rnd.ct)) rnd), stage := PENG }
          (wireOf env st0 (.pong st0.hash rnd.ecdhPub st0.algos
              (0 :: Bytes.ofBE 7 (firstNonce (bytesGt st0.hash h) rnd.start) ++ rnd.ct)) rnd, .continue,
           [(rnd.ct, .sealed (masterKey c rnd.ecdhPub e) (firstNonce (bytesGt st0.hash h) rnd.start) st0.payload)]) ∧
      Slot0 core (masterKey c rnd.ecdhPub e) (bytesGt st0.hash h) (firstNonce (bytesGt st0.hash h) rnd.start) := by
  have hc : (C05Lockstep.pingSt st0 h e (some c) rnd).crypto =
      some (Core.new (masterKey c rnd.ecdhPub e) (bytesGt st0.hash h) rnd.dummy (rnd.start :: rnd.starts123)) := rfl
  have h0 := slot0_new (masterKey c rnd.ecdhPub e) (bytesGt st0.hash h) rnd.dummy rnd.start rnd.starts123
  obtain ⟨e1, e2⟩ := slot0_encrypt (C05Lockstep.pingSt st0 h e (some c) rnd).payload h0 (first_nonce_lt _ _ hs)
  refine ⟨_, ?_, e2⟩
  unfold pingRes
  rw [sendMessage_pong, encryptPayload_some _ _ _ hc]
  simp only [e1]
  rfl

/-- a pong accepted with a cipher: the new state, the peng with its payload field in closed form, the seal log, slot 0 of the core -/
theorem pongRes_slot0 (env : CryptoEnv) (bodyOf : BodyOf) (st : InitSt) (own eb hb : Bytes) (c : Cipher) (rnd : Rand) (pl : Bytes)
    (st5 : InitSt) (p : Bytes) (hs : rnd.start < 2 ^ 48)
    (hd : decryptPayload (pongSt st own eb hb (some c) rnd) bodyOf pl = (st5, some p)) :
    ∃ core, pongRes env st5 rnd p =
        .ok { st with retries := 0, ecdh := none, selected := some c, crypto := some core,
                      last := some (wireOf env st (.peng st.hash (0 :: Bytes.ofBE 7 (firstNonce (bytesGt st.hash hb) rnd.start) ++ rnd.ct)) rnd),
                      stage := WAIT, closeTime := Generated.CLOSE_TIME }
          (wireOf env st (.peng st.hash (0 :: Bytes.ofBE 7 (firstNonce (bytesGt st.hash hb) rnd.start) ++ rnd.ct)) rnd, .success p true,
           [(rnd.ct, .sealed (masterKey c own eb) (firstNonce (bytesGt st.hash hb) rnd.start) st.payload)]) ∧
      Slot0 core (masterKey c own eb) (bytesGt st.hash hb) (firstNonce (bytesGt st.hash hb) rnd.start) := by
  have hsome : (pongSt st own eb hb (some c) rnd).crypto =
      some (Core.new (masterKey c own eb) (bytesGt st.hash hb) rnd.dummy (rnd.start :: rnd.starts123)) := rfl
  rcases decryptPayload_cases _ _ _ _ _ hd with ⟨h1, _⟩ | ⟨c0, h1, h2, _⟩
  · rw [hsome] at h1; cases h1
  rw [hsome] at h1
  simp only [Option.some.injEq] at h1
  subst h1
  have hc5 : st5.crypto = some ((Core.new (masterKey c own eb) (bytesGt st.hash hb) rnd.dummy (rnd.start :: rnd.starts123)).decrypt
      { hdr := pl.take 8, body := bodyOf (pl.drop 8) }).1 := by rw [h2]
  have h0 := slot0_new (masterKey c own eb) (bytesGt st.hash hb) rnd.dummy rnd.start rnd.starts123
  have h1 := slot0_decrypt { hdr := pl.take 8, body := bodyOf (pl.drop 8) } h0
  obtain ⟨e1, e2⟩ := slot0_encrypt st5.payload h1 (first_nonce_lt _ _ hs)
  refine ⟨_, ?_, e2⟩
  unfold pongRes
  rw [sendMessage_peng, encryptPayload_some _ _ _ hc5]
  simp only [e1]
  rw [h2]
  rfl

/-- **the genuine pong opens**: the payload field of a pong sealed by the peer's fresh core (other half, same pair of ephemeral keys)
    is opened by the initiator's fresh core, under the ideal AEAD -/
theorem pong_opens (bodyOf : BodyOf) (sel : Option Cipher) (seals : SealLog) (x : InitSt) (own eb hb : Bytes) (rnd : Rand)
    (pl payload : Bytes) (hcr : x.crypto = none) (hop : Opens bodyOf seals) (hown : EcdhWF own) (heb : EcdhWF eb)
    (hopp : bytesGt x.hash hb = !bytesGt hb x.hash)
    (hf : Field sel seals (bytesGt hb x.hash) (fun c => masterKey c eb own) payload pl) :
    ∃ st5, decryptPayload (pongSt x own eb hb sel rnd) bodyOf pl = (st5, some payload) := by
  cases sel with
  | none =>
    have hn : (pongSt x own eb hb none rnd).crypto = none := hcr
    rw [decryptPayload_none _ _ _ hn]
    have : pl = payload := hf
    rw [this]
    exact ⟨_, rfl⟩
  | some c =>
    obtain ⟨start, ct, h1, h2, h3⟩ := hf
    have hbody : bodyOf ct = .sealed (masterKey c eb own) (firstNonce (bytesGt hb x.hash) start) payload := hop _ h3
    obtain ⟨et, ed⟩ := sealed_take_drop (firstNonce (bytesGt hb x.hash) start) ct
    have h0 := slot0_new (masterKey c own eb) (bytesGt x.hash hb) rnd.dummy rnd.start rnd.starts123
    rw [hopp, C05.masterKey_comm_wf c own eb ⟨hown.2, heb.2⟩ (by rw [hown.1, heb.1])] at h0
    have hopen := slot0_opens (h := bytesGt hb x.hash) h0 (start + 1) (start_succ_lt _ h1) payload
    rw [← firstNonce_eq] at hopen
    have hd := decryptPayload_ok (pongSt x own eb hb (some c) rnd) bodyOf pl _ payload rfl
      (by rw [h2, et, ed, hbody]
          rw [hopp, C05.masterKey_comm_wf c own eb ⟨hown.2, heb.2⟩ (by rw [hown.1, heb.1])]
          exact hopen)
    exact ⟨_, hd⟩

/-- **the genuine peng opens** at a responder whose core holds the key it was sealed under -/
theorem peng_opens (bodyOf : BodyOf) (sel : Option Cipher) (seals : SealLog) (y : InitSt) (K : Cipher → KeyRef) (hx : Bool)
    (pl payload : Bytes) (hop : Opens bodyOf seals) (hf : Field sel seals hx K payload pl) (hc : HasCore sel y K (!hx)) :
    ∃ st2, decryptPayload { y with retries := 0 } bodyOf pl = (st2, some payload) := by
  cases sel with
  | none =>
    have hn : ({ y with retries := 0 } : InitSt).crypto = none := hc
    rw [decryptPayload_none _ _ _ hn]
    have : pl = payload := hf
    rw [this]
    exact ⟨_, rfl⟩
  | some c =>
    obtain ⟨start, ct, h1, h2, h3⟩ := hf
    obtain ⟨core, s, hc1, hc2⟩ := hc
    have hbody : bodyOf ct = .sealed (K c) (firstNonce hx start) payload := hop _ h3
    obtain ⟨et, ed⟩ := sealed_take_drop (firstNonce hx start) ct
    have hopen := slot0_opens (h := hx) hc2 (start + 1) (start_succ_lt _ h1) payload
    rw [← firstNonce_eq] at hopen
    have hd := decryptPayload_ok { y with retries := 0 } bodyOf pl core payload hc1
      (by rw [h2, et, ed, hbody]; exact hopen)
    exact ⟨_, hd⟩


/-! ## the three transitions that send a new message -/

theorem wireOf_split (env : CryptoEnv) (st : InitSt) (m : InitMsg) (rnd : Rand) :
    wireOf env st m rnd = signedRegion m rnd.salt (env.keyHash st.ownKey rnd.salt) ++ ([rnd.sig.length % 256] ++ rnd.sig) := by
  unfold wireOf writeTo
  rw [List.append_assoc]

theorem msg_stage_cases (m : InitMsg) : m.stage = PING ∨ m.stage = PONG ∨ m.stage = PENG := by
  cases m <;> simp [InitMsg.stage]

/-- the peer's messages after the object moved on from stage PING / PONG by sending a new message -/
theorem Mine.peer_big {sel : Option Cipher} {x x' y : InitSt} {seals seals' : SealLog} {m : InitMsg} (h : Mine sel y x seals m)
    (hold : x.stage = PING ∨ x.stage = PONG) (hh : x'.hash = x.hash) (hsub : ∀ e ∈ seals, e ∈ seals')
    (h1' : x'.stage ≠ PING) (h2' : x'.stage = PONG → x.stage = PING) : Mine sel y x' seals' m := by
  cases m with
  | ping hs e al =>
    obtain ⟨h1, h2, h3, h4, h5⟩ := h
    exact ⟨h1, h2, h3, h4, by rw [hh]; exact h5⟩
  | pong hs e al pl =>
    obtain ⟨h1, h2, h3, h4, pe, h5, h6, h7, h8⟩ := h
    refine ⟨h1, h2, h3, h1', pe, h5, ?_, by rw [hh]; exact h7.mono hsub, by rw [hh]; exact h8⟩
    intro e'
    exact absurd (h2' e') h4
  | peng hs pl =>
    exfalso
    rcases h.2.1 with e | e <;> rcases hold with e' | e' <;> (rw [e'] at e; exact absurd e (by decide))

section
variable {env : CryptoEnv} {ok : Bytes → Bool} {sel : Option Cipher} {x y : InitSt} {dx dy : List (Bytes × Bool)}
  {sigs : List (Bytes × Bytes)} {seals : SealLog}

/-- a transition of `x` from stage PING / PONG that stores and signs the new message `m` (stage of `x` afterwards: one after the
    stage of `m`) -/
theorem RI.big (h : RI env ok sel x y dx dy sigs seals) {x' : InitSt} {dx' : List (Bytes × Bool)} {sg : List (Bytes × Bytes)}
    {seals' : SealLog} (hst : Static x x') (hsub : ∀ e ∈ seals, e ∈ seals')
    (m : InitMsg) (salt kh tail : Bytes) (hlast : x'.last = some (signedRegion m salt kh ++ tail)) (hsalt : salt.length = 4)
    (hkh : kh.length = 4) (hwf : msgWF m) (hmh : m.hash = x.hash) (hmine : Mine sel x' y seals' m)
    (hstage : x'.stage = m.stage + 1) (hold : x.stage = PING ∨ x.stage = PONG)
    (hself : ∀ hs e al, Mine sel x y seals (.ping hs e al) → Mine sel x' y seals' (.ping hs e al))
    (h2' : x'.stage = PONG → x.stage = PING)
    (hcr : x'.stage = PONG → x'.crypto = none) (hpl : sel = none → x'.crypto = none) (hdn : x'.stage = WAIT → dx' ≠ [])
    (hsg : ∀ k r, (k, r) ∈ sg → r = signedRegion m salt kh)
    (hnoRR : ¬ (x'.stage = PENG ∧ y.stage = PENG)) :
    RI env ok sel x' y dx' dy (sigs ++ sg) seals' := by
  have hh : x'.hash = x.hash := hst.2.1
  have h1' : x'.stage ≠ PING := by
    rw [hstage]; rcases msg_stage_cases m with e | e | e <;> rw [e] <;> decide
  have hlastIs : LastIs sel x' y seals' m.stage := ⟨m, salt, kh, tail, hlast, hsalt, hkh, hwf, by rw [hh]; exact hmh, rfl, hmine⟩
  have hpeer : ∀ m0, Mine sel y x seals m0 → Mine sel y x' seals' m0 := fun m0 h0 => h0.peer_big hold hh hsub h1' h2'
  refine ⟨⟨?_, ?_, ?_, ?_, ?_, hpl⟩, h.oy.map (fun m0 _ h0 => hpeer m0 h0), ?_, h.wx.of_static hst, h.wy, by rw [hh]; exact h.hne, hnoRR,
    h.good.static hst⟩
  · rw [hstage]
    rcases msg_stage_cases m with e | e | e <;> rw [e]
    · exact Or.inr (Or.inl rfl)
    · exact Or.inr (Or.inr (Or.inl rfl))
    · exact Or.inr (Or.inr (Or.inr (Or.inl rfl)))
  · intro e; exact absurd e h1'
  · intro e
    have : m.stage = PING := by
      rw [hstage] at e
      rcases msg_stage_cases m with e' | e' | e' <;> rw [e'] at e ⊢ <;> first | rfl | exact absurd e (by decide)
    rw [this] at hlastIs
    exact ⟨hcr e, hlastIs⟩
  · intro e
    have : m.stage = PONG := by
      rw [hstage] at e
      rcases msg_stage_cases m with e' | e' | e' <;> rw [e'] at e ⊢ <;> first | rfl | exact absurd e (by decide)
    rw [this] at hlastIs
    exact hlastIs
  · intro e
    have : m.stage = PENG := by
      rw [hstage] at e
      rcases msg_stage_cases m with e' | e' | e' <;> rw [e'] at e ⊢ <;> first | rfl | exact absurd e (by decide)
    rw [this] at hlastIs
    exact ⟨hlastIs, hdn e⟩
  · intro k r hk
    rcases List.mem_append.1 hk with hk | hk
    · obtain ⟨m0, salt0, kh0, a1, a2, a3, a4, a5⟩ := h.sig k r hk
      refine ⟨m0, salt0, kh0, a1, a2, a3, a4, ?_⟩
      rcases a5 with ⟨a5, a6⟩ | ⟨a5, a6⟩
      · refine Or.inl ⟨by rw [hh]; exact a5, ?_⟩
        cases m0 with
        | ping hs e al => exact hself hs e al a6
        | pong hs e al pl =>
          exfalso
          rcases a6.2.2.1 with e | e <;> rcases hold with e' | e' <;> (rw [e'] at e; exact absurd e (by decide))
        | peng hs pl =>
          exfalso
          rcases a6.1 with e | e <;> rcases hold with e' | e' <;> (rw [e'] at e; exact absurd e (by decide))
      · exact Or.inr ⟨a5, hpeer m0 a6⟩
    · exact ⟨m, salt, kh, hsg k r hk, hsalt, hkh, hwf, Or.inl ⟨by rw [hh]; exact hmh, hmine⟩⟩

/-- `send_ping` -/
theorem RI.ping (h : RI env ok sel x y dx dy sigs seals) {rnd : Rand} (hs : x.stage = PING) (hrnd : RandOK env x rnd) :
    RI env ok sel (sendPing env x rnd).1 y dx dy (sigs ++ newSig x (sendPing env x rnd).1 (sendPing env x rnd).2 rnd) (seals ++ []) := by
  have he : sendPing env x rnd =
      ({ x with
          ecdh := some rnd.ecdhPub
          last := some (wireOf env x (.ping x.hash rnd.ecdhPub x.algos) rnd)
          stage := PONG }, wireOf env x (.ping x.hash rnd.ecdhPub x.algos) rnd) := rfl
  rw [he]
  refine h.big ⟨rfl, rfl, rfl, rfl, rfl, rfl⟩ (fun e he => List.mem_append_left _ he) (.ping x.hash rnd.ecdhPub x.algos) rnd.salt
    (env.keyHash x.ownKey rnd.salt) _ (by rw [wireOf_split]) hrnd.salt hrnd.keyHash
    ⟨h.wx.hash, by rw [hrnd.ecdh.1]; decide, h.wx.algos⟩ rfl
    ⟨rfl, hrnd.ecdh, (show PONG ≠ PING by decide), fun _ => rfl, fun e => absurd (show PONG = PENG from e) (by decide)⟩ rfl (Or.inl hs) ?_
    (fun _ => hs) (fun _ => (h.ox.o2 hs).2.2) (fun e => h.ox.pl e) (fun e => absurd (show PONG = WAIT from e) (by decide))
    (fun k r hk => newSig_wire hk) (fun e => absurd (show PONG = PENG from e.1) (by decide))
  intro hs' e al hm
  exact absurd hs hm.2.2.1

end


theorem sealed_field_length (n : Nat) (ct : Bytes) : (0 :: Bytes.ofBE 7 n ++ ct).length = 8 + ct.length := by
  simp only [List.length_append, List.length_cons, ofBE_length]

section
variable {env : CryptoEnv} {ok : Bytes → Bool} {sel : Option Cipher} {x y : InitSt} {dx dy : List (Bytes × Bool)}
  {sigs : List (Bytes × Bytes)} {seals : SealLog}

/-- a ping of the peer is answered -/
theorem RI.pingOk (h : RI env ok sel x y dx dy sigs seals) {w : Bytes} {rnd : Rand}
    (hI : I1 env sigs x.trusted w) (hrnd : RandOK env x rnd) (hstart : rnd.start < 2 ^ 48)
    {hh e : Bytes} {al : Algos} {k : Bytes} {st0 : InitSt} {sel' : Option Cipher}
    (hr : readFrom env w x.trusted = .ok (.ping hh e al, k)) (hne : x.hash ≠ hh)
    (hst0 : (st0 = x ∧ x.stage = PING) ∨ (st0 = resetSt x ∧ x.stage = PONG ∧ bytesGt hh x.hash = true))
    (hsel : selectAlgorithm x.algos al = .ok sel') :
    ∃ st' out log, pingRes env st0 hh e sel' rnd = .ok st' (out, .continue, log) ∧ st'.stage = PENG ∧ st'.last = some out ∧
      RI env ok sel st' y dx dy (sigs ++ newSig x st' out rnd) (seals ++ log) := by
  obtain ⟨hhy, hmsg⟩ := h.bridge hI hr hne
  have hhy' : hh = y.hash := hhy
  subst hhy'
  obtain ⟨hal, he, hyp, hye, hyr⟩ := hmsg
  subst hal
  have hs' : sel' = sel := by
    have := hsel.symm.trans h.good.selX
    simpa using this
  subst hs'
  have hb := pingBase_of hst0
  have hown : st0.ownKey = x.ownKey := hb.static.2.2.2.1
  have hha : st0.hash = x.hash := hb.static.2.1
  have hpa : st0.payload = x.payload := hb.static.2.2.1
  have halg : st0.algos = x.algos := hb.static.2.2.2.2.2
  have hold : x.stage = PING ∨ x.stage = PONG := hb.stage
  have hxcr : x.crypto = none := by
    rcases hold with e' | e'
    · exact (h.ox.o2 e').2.2
    · exact (h.ox.o3 e').1
  -- the old pings of `x` (there are some only after a role switch)
  have hself : ∀ (x' : InitSt) (log : SealLog), x'.stage = PENG → x'.hash = x.hash → x'.algos = x.algos →
      ∀ hs e0 al0, Mine sel' x y seals (.ping hs e0 al0) → Mine sel' x' y (seals ++ log) (.ping hs e0 al0) := by
    intro x' log hx' hxh hxa hs e0 al0 hm
    obtain ⟨a1, a2, a3, _, _⟩ := hm
    refine ⟨by rw [hxa]; exact a1, a2, by rw [hx']; decide, fun e' => by rw [hx'] at e'; exact absurd e' (by decide), fun _ => ?_⟩
    rcases hst0 with ⟨_, e'⟩ | ⟨_, _, e'⟩
    · exact absurd e' a3
    · rw [hxh]; exact e'
  -- the two objects are not both responders
  have hnoRR : y.stage ≠ PENG := by
    intro e'
    obtain ⟨m, _, _, _, _, _, _, _, _, hms, hm⟩ := h.oy.o4 e'
    cases m with
    | ping => exact absurd (show PING = PONG from hms) (by decide)
    | peng => exact absurd (show PENG = PONG from hms) (by decide)
    | pong hs e0 al0 pl0 =>
      have h4 : x.stage ≠ PING := hm.2.2.2.1
      rcases hst0 with ⟨_, e''⟩ | ⟨_, _, e''⟩
      · exact h4 e''
      · have := C05.halves_opposite x.hash y.hash h.hne
        rw [hyr e', e''] at this
        cases this
  cases sel' with
  | some c =>
    obtain ⟨core, heq, hslot⟩ := pingRes_slot0 env st0 y.hash e c rnd hstart
    refine ⟨_, _, _, heq, rfl, rfl, ?_⟩
    exact h.big (Static.trans hb.static ⟨rfl, rfl, rfl, rfl, rfl, rfl⟩) (fun e he => List.mem_append_left _ he)
      (.pong st0.hash rnd.ecdhPub st0.algos (0 :: Bytes.ofBE 7 (firstNonce (bytesGt st0.hash y.hash) rnd.start) ++ rnd.ct)) rnd.salt
      (env.keyHash x.ownKey rnd.salt) _ (by rw [wireOf_split, hown]) hrnd.salt hrnd.keyHash
      ⟨by rw [hha]; exact h.wx.hash, by rw [hrnd.ecdh.1]; decide, by rw [halg]; exact h.wx.algos,
        by rw [sealed_field_length]; have := hrnd.ct; omega⟩ hha
      ⟨rfl, hrnd.ecdh, Or.inl rfl, hyp, e, he, hye,
        ⟨rnd.start, rnd.ct, hstart, rfl, List.mem_append_right _ (List.mem_singleton.2 rfl)⟩, fun _ => ⟨core, _, rfl, hslot⟩⟩
      rfl hold (hself _ _ rfl hha halg) (fun e' => absurd (show PENG = PONG from e') (by decide))
      (fun e' => absurd (show PENG = PONG from e') (by decide)) (fun e' => by cases e')
      (fun e' => absurd (show PENG = WAIT from e') (by decide))
      (fun k r hk => by rw [wireOf_congr env _ rnd hown] at hk; exact newSig_wire hk) (fun e' => hnoRR e'.2)
  | none =>
    have hcr : st0.crypto = none := by rw [hb.crypto]; exact hxcr
    have heq := pingRes_none env st0 y.hash e rnd hcr
    refine ⟨_, _, _, heq, rfl, rfl, ?_⟩
    exact h.big (Static.trans hb.static ⟨rfl, rfl, rfl, rfl, rfl, rfl⟩) (fun e he => List.mem_append_left _ he)
      (.pong st0.hash rnd.ecdhPub st0.algos st0.payload) rnd.salt
      (env.keyHash x.ownKey rnd.salt) _ (by rw [wireOf_split, hown]) hrnd.salt hrnd.keyHash
      ⟨by rw [hha]; exact h.wx.hash, by rw [hrnd.ecdh.1]; decide, by rw [halg]; exact h.wx.algos, by rw [hpa]; exact h.wx.payload⟩ hha
      ⟨rfl, hrnd.ecdh, Or.inl rfl, hyp, e, he, hye, rfl, fun _ => hcr⟩
      rfl hold (hself _ _ rfl hha halg) (fun e' => absurd (show PENG = PONG from e') (by decide))
      (fun e' => absurd (show PENG = PONG from e') (by decide)) (fun _ => hcr)
      (fun e' => absurd (show PENG = WAIT from e') (by decide))
      (fun k r hk => by rw [wireOf_congr env _ rnd hown] at hk; exact newSig_wire hk) (fun e' => hnoRR e'.2)

end


theorem HasCore.congr {sel : Option Cipher} {y : InitSt} {K K' : Cipher → KeyRef} {h : Bool} (hc : HasCore sel y K h)
    (hk : ∀ c, K c = K' c) : HasCore sel y K' h := by
  unfold HasCore at hc ⊢
  cases sel with
  | none => exact hc
  | some c =>
    obtain ⟨core, s, h1, h2⟩ := hc
    exact ⟨core, s, h1, hk c ▸ h2⟩

theorem Field.congr {sel : Option Cipher} {seals : SealLog} {K K' : Cipher → KeyRef} {h : Bool} {payload pl : Bytes}
    (hf : Field sel seals h K payload pl) (hk : ∀ c, K c = K' c) : Field sel seals h K' payload pl := by
  unfold Field at hf ⊢
  cases sel with
  | none => exact hf
  | some c =>
    obtain ⟨start, ct, h1, h2, h3⟩ := hf
    exact ⟨start, ct, h1, h2, hk c ▸ h3⟩

section
variable {env : CryptoEnv} {ok : Bytes → Bool} {sel : Option Cipher} {x y : InitSt} {dx dy : List (Bytes × Bool)}
  {sigs : List (Bytes × Bytes)} {seals : SealLog}

/-- what an initiator awaiting the pong learns from a pong it reads (via (I1)): it is the peer's pong, made for this initiator's key -/
theorem RI.pong_facts (h : RI env ok sel x y dx dy sigs seals) {w : Bytes} (hI : I1 env sigs x.trusted w)
    {hb eb : Bytes} {ab : Algos} {pl k own : Bytes}
    (hr : readFrom env w x.trusted = .ok (.pong hb eb ab pl, k)) (hne : x.hash ≠ hb)
    (hs : x.stage = PONG) (hown : x.ecdh = some own) :
    hb = y.hash ∧ ab = y.algos ∧ EcdhWF eb ∧ EcdhWF own ∧ (y.stage = PENG ∨ y.stage = CLOSING) ∧
      Field sel seals (bytesGt y.hash x.hash) (fun c => masterKey c eb own) y.payload pl ∧
      (y.stage = PENG → HasCore sel y (fun c => masterKey c eb own) (bytesGt y.hash x.hash)) := by
  obtain ⟨hhy, hmsg⟩ := h.bridge hI hr hne
  obtain ⟨h1, h2, h3, _, pe, h5, h6, h7, h8⟩ := hmsg
  have : some pe = some own := (h6 hs).symm.trans hown
  cases this
  exact ⟨hhy, h1, h2, h5, h3, h7, h8⟩

/-- **the genuine pong is accepted**: under the ideal AEAD the payload of the pong an initiator reads opens as the peer's payload -/
theorem RI.pong_accepts (h : RI env ok sel x y dx dy sigs seals) (bodyOf : BodyOf) (hop : Opens bodyOf seals) {w : Bytes}
    (hI : I1 env sigs x.trusted w) {hb eb : Bytes} {ab : Algos} {pl k own : Bytes} (rnd : Rand)
    (hr : readFrom env w x.trusted = .ok (.pong hb eb ab pl, k)) (hne : x.hash ≠ hb)
    (hs : x.stage = PONG) (hown : x.ecdh = some own) :
    selectAlgorithm x.algos ab = .ok sel ∧ ∃ st5, decryptPayload (pongSt x own eb hb sel rnd) bodyOf pl = (st5, some y.payload) := by
  obtain ⟨rfl, rfl, h2, h3, _, h5, _⟩ := h.pong_facts hI hr hne hs hown
  exact ⟨h.good.selX, C05RecoverLemmas.pong_opens bodyOf sel seals x own eb y.hash rnd pl y.payload (h.ox.o3 hs).1 hop h3 h2
    (C05.halves_opposite _ _ h.hne) h5⟩

/-- the initiator completes on a pong of the peer -/
theorem RI.pongOk (h : RI env ok sel x y dx dy sigs seals) (bodyOf : BodyOf) {w : Bytes} {rnd : Rand}
    (hI : I1 env sigs x.trusted w) (hrnd : RandOK env x rnd) (hstart : rnd.start < 2 ^ 48)
    {hb eb : Bytes} {ab : Algos} {pl k own : Bytes} {sel' : Option Cipher} {st5 : InitSt} {p : Bytes}
    (hr : readFrom env w x.trusted = .ok (.pong hb eb ab pl, k)) (hne : x.hash ≠ hb)
    (hs : x.stage = PONG) (hown : x.ecdh = some own) (hsel : selectAlgorithm x.algos ab = .ok sel')
    (hd : decryptPayload (pongSt x own eb hb sel' rnd) bodyOf pl = (st5, some p)) :
    ∃ st' out log, pongRes env st5 rnd p = .ok st' (out, .success p true, log) ∧ st'.stage = WAIT ∧ st'.last = some out ∧
      RI env ok sel st' y ((p, true) :: dx) dy (sigs ++ newSig x st' out rnd) (seals ++ log) := by
  obtain ⟨rfl, rfl, heb, hownwf, hys, _, hyc⟩ := h.pong_facts hI hr hne hs hown
  have hs' : sel' = sel := by
    have := hsel.symm.trans h.good.selX
    simpa using this
  subst hs'
  have hcomm : ∀ c, masterKey c eb own = masterKey c own eb := fun c =>
    C05.masterKey_comm_wf c eb own ⟨heb.2, hownwf.2⟩ (by rw [heb.1, hownwf.1])
  have hself : ∀ (x' : InitSt) (log : SealLog), x'.stage = WAIT → x'.algos = x.algos →
      ∀ hs e0 al0, Mine sel' x y seals (.ping hs e0 al0) → Mine sel' x' y (seals ++ log) (.ping hs e0 al0) := by
    intro x' log hx' hxa hs0 e0 al0 hm
    obtain ⟨a1, a2, _, _, _⟩ := hm
    exact ⟨by rw [hxa]; exact a1, a2, by rw [hx']; decide, fun e' => by rw [hx'] at e'; exact absurd e' (by decide),
      fun e' => by rw [hx'] at e'; exact absurd e' (by decide)⟩
  cases sel' with
  | some c =>
    obtain ⟨core, heq, hslot⟩ := pongRes_slot0 env bodyOf x own eb y.hash c rnd pl st5 p hstart hd
    refine ⟨_, _, _, heq, rfl, rfl, ?_⟩
    exact h.big ⟨rfl, rfl, rfl, rfl, rfl, rfl⟩ (fun e he => List.mem_append_left _ he)
      (.peng x.hash (0 :: Bytes.ofBE 7 (firstNonce (bytesGt x.hash y.hash) rnd.start) ++ rnd.ct)) rnd.salt
      (env.keyHash x.ownKey rnd.salt) _ (by rw [wireOf_split]) hrnd.salt hrnd.keyHash
      ⟨h.wx.hash, by rw [sealed_field_length]; have := hrnd.ct; omega⟩ rfl
      ⟨Or.inl rfl, hys, fun c' => masterKey c' own eb,
        ⟨rnd.start, rnd.ct, hstart, rfl, List.mem_append_right _ (List.mem_singleton.2 rfl)⟩, fun e' => (hyc e').congr hcomm⟩
      rfl (Or.inr hs) (hself _ _ rfl rfl) (fun e' => absurd (show WAIT = PONG from e') (by decide))
      (fun e' => absurd (show WAIT = PONG from e') (by decide)) (fun e' => by cases e')
      (fun _ => List.cons_ne_nil _ _) (fun k r hk => newSig_wire hk) (fun e' => absurd (show WAIT = PENG from e'.1) (by decide))
  | none =>
    have hcr : x.crypto = none := (h.ox.o3 hs).1
    obtain ⟨hp, heq⟩ := pongRes_none env bodyOf x own eb y.hash rnd pl st5 p hcr hd
    refine ⟨_, _, _, heq, rfl, rfl, ?_⟩
    exact h.big ⟨rfl, rfl, rfl, rfl, rfl, rfl⟩ (fun e he => List.mem_append_left _ he)
      (.peng x.hash x.payload) rnd.salt
      (env.keyHash x.ownKey rnd.salt) _ (by rw [wireOf_split]) hrnd.salt hrnd.keyHash
      ⟨h.wx.hash, h.wx.payload⟩ rfl
      ⟨Or.inl rfl, hys, fun c' => masterKey c' own eb, rfl, fun e' => (hyc e').congr hcomm⟩
      rfl (Or.inr hs) (hself _ _ rfl rfl) (fun e' => absurd (show WAIT = PONG from e') (by decide))
      (fun e' => absurd (show WAIT = PONG from e') (by decide)) (fun _ => hcr)
      (fun _ => List.cons_ne_nil _ _) (fun k r hk => newSig_wire hk) (fun e' => absurd (show WAIT = PENG from e'.1) (by decide))

end


/-- the responder tried to open a peng payload: it stays (failure) or closes (success) -/
theorem Trans.pengStep {bodyOf : BodyOf} {x : InitSt} {pl : Bytes} {cr : Option Core} (hs : x.stage = PENG)
    (hc : CoreStep bodyOf x pl cr) (s' : Nat) (hs' : s' = PENG ∨ s' = CLOSING) :
    Trans x { x with retries := 0, crypto := cr, stage := s' } := by
  have hcr : x.crypto = none → cr = none := by
    intro e
    rcases hc with ⟨_, h2⟩ | ⟨c0, h1, _⟩
    · exact h2
    · rw [e] at h1; cases h1
  refine ⟨⟨rfl, rfl, rfl, rfl, rfl, rfl⟩, ?_, rfl, hcr, ?_, ?_, ?_, ?_⟩
  · rcases hs' with e | e
    · exact Or.inr (Or.inr (Or.inl e))
    · exact Or.inr (Or.inr (Or.inr (Or.inr e)))
  · intro e
    have e' : s' = PING := e
    rcases hs' with e2 | e2 <;> (rw [e2] at e'; exact absurd e' (by decide))
  · intro e
    have e' : s' = PONG := e
    rcases hs' with e2 | e2 <;> (rw [e2] at e'; exact absurd e' (by decide))
  · intro _
    refine ⟨hs, ?_⟩
    rcases hc with ⟨h1, h2⟩ | ⟨c0, h1, h2⟩
    · left; show cr = x.crypto; rw [h1, h2]
    · right; exact ⟨c0, _, h1, h2⟩
  · intro e
    have e' : s' = WAIT := e
    rcases hs' with e2 | e2 <;> (rw [e2] at e'; exact absurd e' (by decide))

section
variable {env : CryptoEnv} {ok : Bytes → Bool} {sel : Option Cipher} {x y : InitSt} {dx dy : List (Bytes × Bool)}
  {sigs : List (Bytes × Bytes)} {seals : SealLog}

/-- `every_second` -/
theorem RI.tick (h : RI env ok sel x y dx dy sigs seals) : RI env ok sel (everySecond x).1 y dx dy sigs seals := by
  obtain ⟨s', ct, rt, hs, he⟩ := everySecond_fst x
  rw [he]
  exact h.trans (Trans.restage h.ox.st s' ct rt hs) (fun e => e)

/-- **the invariant is preserved by every delivery that the object handles without error** -/
theorem RI.eff_ok (h : RI env ok sel x y dx dy sigs seals) (bodyOf : BodyOf) {w : Bytes} {rnd : Rand}
    (hI : I1 env sigs x.trusted w) (hrnd : RandOK env x rnd) (hstart : rnd.start < 2 ^ 48) {R : Res}
    (he : Eff env bodyOf ok x w rnd R) {st' : InitSt} {out : Bytes} {res : InitResult} {log : SealLog}
    (hR : R = .ok st' (out, res, log)) :
    RI env ok sel st' y (doneOf res ++ dx) dy (sigs ++ newSig x st' out rnd) (seals ++ log) := by
  cases he with
  | quietErr e => cases hR
  | quietOk o ho =>
    simp only [Outcome.ok.injEq, Prod.mk.injEq] at hR
    obtain ⟨rfl, rfl, rfl, rfl⟩ := hR
    rw [newSig_same, List.append_nil, List.append_nil]
    exact h
  | panic => cases hR
  | pingErr => cases hR
  | pingOk hh e al k st0 sel' hr hne hst0 hsel =>
    obtain ⟨st2, out2, log2, heq, _, _, hinv⟩ := h.pingOk hI hrnd hstart hr hne hst0 hsel
    rw [heq] at hR
    simp only [Outcome.ok.injEq, Prod.mk.injEq] at hR
    obtain ⟨rfl, rfl, rfl, rfl⟩ := hR
    exact hinv
  | pongSelErr => cases hR
  | pongFail => cases hR
  | pongOk hb eb ab pl k own sel' st5 p hr hne hstage hown hsel hd hok =>
    obtain ⟨st2, out2, log2, heq, _, _, hinv⟩ := h.pongOk bodyOf hI hrnd hstart hr hne hstage hown hsel hd
    rw [heq] at hR
    simp only [Outcome.ok.injEq, Prod.mk.injEq] at hR
    obtain ⟨rfl, rfl, rfl, rfl⟩ := hR
    exact hinv
  | pengFail => cases hR
  | pengOk hb pl k st2 p hr hne hstage hd hok =>
    simp only [Outcome.ok.injEq, Prod.mk.injEq] at hR
    obtain ⟨rfl, rfl, rfl, rfl⟩ := hR
    obtain ⟨cr, hcs, hst2⟩ := decryptPayload_step hd
    have hl : ({ st2 with stage := CLOSING } : InitSt).last = x.last := by rw [hst2]
    rw [newSig_last_same _ _ _ _ hl, List.append_nil, List.append_nil, hst2]
    exact h.trans (Trans.pengStep hstage hcs CLOSING (Or.inr rfl)) (fun _ => List.cons_ne_nil _ _)

/-- **the invariant is preserved by every delivery that ends in an error** (under the ideal AEAD a genuine pong never fails, the
    negotiation never fails: the error leaves the object as it was, or a responder with a core that tried to open something) -/
theorem RI.eff_err (h : RI env ok sel x y dx dy sigs seals) (bodyOf : BodyOf) (hop : Opens bodyOf seals) {w : Bytes} {rnd : Rand}
    (hI : I1 env sigs x.trusted w) {R : Res} (he : Eff env bodyOf ok x w rnd R) (hact : handleInit env bodyOf ok x w rnd = R)
    {st' : InitSt} {e : InitErr} (hR : R = .err st' e) : RI env ok sel st' y dx dy sigs seals := by
  cases he with
  | quietErr e =>
    simp only [Outcome.err.injEq] at hR
    rw [← hR.1]; exact h
  | quietOk o ho => cases hR
  | panic => cases hR
  | pingErr hh e al k st0 er hr hne hst0 hsel =>
    exfalso
    obtain ⟨_, hmsg⟩ := h.bridge hI hr hne
    have hal : al = y.algos := hmsg.1
    rw [hal, h.good.selX] at hsel
    cases hsel
  | pingOk hh e al k st0 sel hr hne hst0 hsel => unfold pingRes at hR; cases hR
  | pongSelErr hb eb ab pl k own er hr hne hstage hown hsel =>
    exfalso
    obtain ⟨_, hal, _⟩ := h.pong_facts hI hr hne hstage hown
    rw [hal, h.good.selX] at hsel
    cases hsel
  | pongFail hb eb ab pl k own sel' st5 r hr hne hstage hown hsel hd =>
    exfalso
    obtain ⟨hsel2, st6, hd2⟩ := h.pong_accepts bodyOf hop hI rnd hr hne hstage hown
    obtain ⟨hby, _⟩ := h.pong_facts hI hr hne hstage hown
    have hacc := handleInit_accept env bodyOf ok x w rnd _ _ hr hne (by rw [show (InitMsg.pong hb eb ab pl).hash = hb from rfl, hby]; exact h.good.selfX)
      (by rw [hstage]; rfl)
    rw [hacc, C05Lockstep.handleMsg_pong_ok env bodyOf ok x hb eb ab pl rnd own sel st6 y.payload hown hsel2 hd2 h.good.okY] at hact
    rw [hR] at hact
    cases hact
  | pongOk hb eb ab pl k own sel st5 p hr hne hstage hown hsel hd hok => unfold pongRes at hR; cases hR
  | pengFail hb pl k st2 r hr hne hstage hd =>
    simp only [Outcome.err.injEq] at hR
    obtain ⟨cr, hcs, hst2⟩ := decryptPayload_step hd
    rw [← hR.1, hst2]
    exact h.trans (Trans.pengStep (s' := x.stage) hstage hcs (Or.inl hstage)) (fun e => e)
  | pengOk => cases hR

end


/-! ## progress: what a reliably delivered datagram does -/

/-- `w` is (starts with the signed region of) a well-formed message of stage `k` with salted hash `hash` -/
def IsMsg (w : Bytes) (k : Nat) (hash : Bytes) : Prop :=
  ∃ m salt kh tail, w = signedRegion m salt kh ++ tail ∧ salt.length = 4 ∧ kh.length = 4 ∧ msgWF m ∧ m.stage = k ∧ m.hash = hash

theorem IsMsg.ne_nil {w : Bytes} {k : Nat} {hash : Bytes} (h : IsMsg w k hash) : w ≠ [] := by
  obtain ⟨m, salt, kh, tail, rfl, h1, _⟩ := h
  intro e
  have := congrArg List.length e
  rw [signedRegion_eq] at this
  simp only [List.length_append, List.length_nil] at this
  omega

theorem IsMsg.read {env : CryptoEnv} {w : Bytes} {k : Nat} {hash : Bytes} (h : IsMsg w k hash) {T : List Bytes} {m : InitMsg} {key : Bytes}
    (hr : readFrom env w T = .ok (m, key)) : m.stage = k ∧ m.hash = hash := by
  obtain ⟨m', salt, kh, tail, rfl, h1, h2, h3, h4, h5⟩ := h
  have := readFrom_signed_inv env m' salt kh tail T m key h3 h1 h2 hr
  subst this
  exact ⟨h4, h5⟩

theorem LastIs.isMsg {sel : Option Cipher} {x y : InitSt} {seals : SealLog} {k : Nat} (h : LastIs sel x y seals k) :
    ∃ w, x.last = some w ∧ IsMsg w k x.hash := by
  obtain ⟨m, salt, kh, tail, h1, h2, h3, h4, h5, h6, _⟩ := h
  exact ⟨_, h1, m, salt, kh, tail, rfl, h2, h3, h4, h6, h5⟩

section
variable {env : CryptoEnv} {ok : Bytes → Bool} {sel : Option Cipher} {x y : InitSt} {dx dy : List (Bytes × Bool)}
  {sigs : List (Bytes × Bytes)} {seals : SealLog}

/-- a window read as a message of the other node goes to the stage check -/
theorem RI.handle_read (h : RI env ok sel x y dx dy sigs seals) (bodyOf : BodyOf) {w : Bytes} (rnd : Rand) {m : InitMsg} {key : Bytes}
    (hr : readFrom env w x.trusted = .ok (m, key)) (hh : m.hash = y.hash) :
    handleInit env bodyOf ok x w rnd =
      (match stageCheck x m.stage m.hash with
       | .inr o => o
       | .inl none => .panic
       | .inl (some st0) => handleMsg env bodyOf ok st0 m rnd) := by
  have hc : ¬ (x.hash = m.hash || checkSaltedNodeIdHash env m.hash x.nodeId) = true := by
    have : x.hash ≠ m.hash := by rw [hh]; exact hash_ne_of_beVal h.hne
    rw [hh] at this ⊢
    simp [this, h.good.selfX]
  rw [handleInit_eq, hr]
  simp only
  rw [if_neg hc]
  rfl

/-- **a delivered ping is answered** by a fresh object, and by an initiator with the smaller salted hash (role switch) -/
theorem RI.ping_answered (h : RI env ok sel x y dx dy sigs seals) (bodyOf : BodyOf) {w : Bytes} {rnd : Rand}
    (hI : I1 env sigs x.trusted w) (hrnd : RandOK env x rnd) (hstart : rnd.start < 2 ^ 48)
    (hw : IsMsg w PING y.hash) (hreads : ∃ m key, readFrom env w x.trusted = .ok (m, key))
    (hx : x.stage = PING ∨ (x.stage = PONG ∧ bytesGt y.hash x.hash = true)) :
    ∃ st' out log, handleInit env bodyOf ok x w rnd = .ok st' (out, .continue, log) ∧ st'.stage = PENG ∧ st'.last = some out ∧
      RI env ok sel st' y dx dy (sigs ++ newSig x st' out rnd) (seals ++ log) := by
  obtain ⟨m, key, hr⟩ := hreads
  obtain ⟨hk, hh⟩ := hw.read hr
  have hgen := h.handle_read bodyOf rnd hr hh
  cases m with
  | pong => exact absurd (show PONG = PING from hk) (by decide)
  | peng => exact absurd (show PENG = PING from hk) (by decide)
  | ping hs e al =>
    have hh' : hs = y.hash := hh
    subst hh'
    have hne : x.hash ≠ y.hash := hash_ne_of_beVal h.hne
    obtain ⟨_, hmsg⟩ := h.bridge hI hr hne
    have hal : al = y.algos := hmsg.1
    subst hal
    have hst0 : ∃ st0, stageCheck x (InitMsg.ping y.hash e y.algos).stage (InitMsg.ping y.hash e y.algos).hash = .inl (some st0) ∧
        ((st0 = x ∧ x.stage = PING) ∨ (st0 = resetSt x ∧ x.stage = PONG ∧ bytesGt y.hash x.hash = true)) := by
      show ∃ st0, stageCheck x PING y.hash = .inl (some st0) ∧ _
      rcases hx with hx | ⟨hx, hg⟩
      · refine ⟨x, ?_, Or.inl ⟨rfl, hx⟩⟩
        unfold stageCheck
        rw [if_neg (fun hn => hn hx.symm)]
      · refine ⟨resetSt x, ?_, Or.inr ⟨rfl, hx, hg⟩⟩
        unfold stageCheck
        rw [if_pos (by rw [hx]; decide), if_pos ⟨hx, rfl⟩, if_pos hg]
        rfl
    obtain ⟨st0, hsc, hst0⟩ := hst0
    rw [hsc] at hgen
    have halg : st0.algos = x.algos := by rcases hst0 with ⟨rfl, _⟩ | ⟨rfl, _⟩ <;> rfl
    have hsel : selectAlgorithm x.algos y.algos = .ok sel := h.good.selX
    simp only at hgen
    rw [C05Lockstep.handleMsg_ping_ok env bodyOf ok st0 y.hash e y.algos rnd sel (by rw [halg]; exact hsel)] at hgen
    obtain ⟨st', out, log, heq, h1, h2, h3⟩ := h.pingOk hI hrnd hstart hr hne hst0 hsel
    exact ⟨st', out, log, hgen.trans heq, h1, h2, h3⟩

/-- a delivered ping is ignored by an initiator with the larger salted hash -/
theorem RI.ping_ignored (h : RI env ok sel x y dx dy sigs seals) (bodyOf : BodyOf) {w : Bytes} {rnd : Rand}
    (hw : IsMsg w PING y.hash) (hreads : ∃ m key, readFrom env w x.trusted = .ok (m, key))
    (hx : x.stage = PONG) (hg : bytesGt y.hash x.hash = false) :
    handleInit env bodyOf ok x w rnd = .ok x ([], .continue, []) := by
  obtain ⟨m, key, hr⟩ := hreads
  obtain ⟨hk, hh⟩ := hw.read hr
  rw [h.handle_read bodyOf rnd hr hh, hk, hh]
  have : stageCheck x PING y.hash = .inr (.ok x ([], .continue, [])) := by
    unfold stageCheck
    rw [if_pos (by rw [hx]; decide), if_pos ⟨hx, rfl⟩, if_neg (by rw [hg]; decide)]
  rw [this]

/-- **a delivered pong completes the initiator** (ideal AEAD) -/
theorem RI.pong_completes (h : RI env ok sel x y dx dy sigs seals) (bodyOf : BodyOf) (hop : Opens bodyOf seals) {w : Bytes} {rnd : Rand}
    (hI : I1 env sigs x.trusted w) (hrnd : RandOK env x rnd) (hstart : rnd.start < 2 ^ 48)
    (hw : IsMsg w PONG y.hash) (hreads : ∃ m key, readFrom env w x.trusted = .ok (m, key)) (hx : x.stage = PONG) :
    ∃ st' out log, handleInit env bodyOf ok x w rnd = .ok st' (out, .success y.payload true, log) ∧ st'.stage = WAIT ∧
      st'.last = some out ∧
      RI env ok sel st' y ((y.payload, true) :: dx) dy (sigs ++ newSig x st' out rnd) (seals ++ log) := by
  obtain ⟨m, key, hr⟩ := hreads
  obtain ⟨hk, hh⟩ := hw.read hr
  have hgen := h.handle_read bodyOf rnd hr hh
  cases m with
  | ping => exact absurd (show PING = PONG from hk) (by decide)
  | peng => exact absurd (show PENG = PONG from hk) (by decide)
  | pong hs eb ab pl =>
    have hh' : hs = y.hash := hh
    subst hh'
    have hne : x.hash ≠ y.hash := hash_ne_of_beVal h.hne
    have hsc : stageCheck x (InitMsg.pong y.hash eb ab pl).stage (InitMsg.pong y.hash eb ab pl).hash = .inl (some x) := by
      show stageCheck x PONG y.hash = _
      unfold stageCheck
      rw [if_neg (fun hn => hn hx.symm)]
    rw [hsc] at hgen
    simp only at hgen
    -- the initiator holds its ephemeral key
    obtain ⟨m0, _, _, _, _, _, _, _, _, hm0s, hm0⟩ := (h.ox.o3 hx).2
    have hown : ∃ own, x.ecdh = some own := by
      cases m0 with
      | ping hs0 e0 al0 => exact ⟨e0, hm0.2.2.2.1 hx⟩
      | pong => exact absurd (show PONG = PING from hm0s) (by decide)
      | peng => exact absurd (show PENG = PING from hm0s) (by decide)
    obtain ⟨own, hown⟩ := hown
    obtain ⟨hsel, st5, hd⟩ := h.pong_accepts bodyOf hop hI rnd hr hne hx hown
    rw [C05Lockstep.handleMsg_pong_ok env bodyOf ok x y.hash eb ab pl rnd own sel st5 y.payload hown hsel hd h.good.okY] at hgen
    obtain ⟨st', out, log, heq, h1, h2, h3⟩ := h.pongOk bodyOf hI hrnd hstart hr hne hx hown hsel hd
    exact ⟨st', out, log, hgen.trans heq, h1, h2, h3⟩

/-- **a delivered peng completes the responder** (ideal AEAD) -/
theorem RI.peng_completes (h : RI env ok sel x y dx dy sigs seals) (bodyOf : BodyOf) (hop : Opens bodyOf seals) {w : Bytes} {rnd : Rand}
    (hI : I1 env sigs x.trusted w)
    (hw : IsMsg w PENG y.hash) (hreads : ∃ m key, readFrom env w x.trusted = .ok (m, key)) (hx : x.stage = PENG) :
    ∃ st', handleInit env bodyOf ok x w rnd = .ok st' ([], .success y.payload false, []) ∧ st'.stage = CLOSING := by
  obtain ⟨m, key, hr⟩ := hreads
  obtain ⟨hk, hh⟩ := hw.read hr
  have hgen := h.handle_read bodyOf rnd hr hh
  cases m with
  | ping => exact absurd (show PING = PENG from hk) (by decide)
  | pong => exact absurd (show PONG = PENG from hk) (by decide)
  | peng hs pl =>
    have hh' : hs = y.hash := hh
    subst hh'
    have hne : x.hash ≠ y.hash := hash_ne_of_beVal h.hne
    have hsc : stageCheck x (InitMsg.peng y.hash pl).stage (InitMsg.peng y.hash pl).hash = .inl (some x) := by
      show stageCheck x PENG y.hash = _
      unfold stageCheck
      rw [if_neg (fun hn => hn hx.symm)]
    rw [hsc] at hgen
    simp only at hgen
    obtain ⟨_, hmsg⟩ := h.bridge hI hr hne
    obtain ⟨_, _, K, hf, hc⟩ := hmsg
    have hopp := C05.halves_opposite x.hash y.hash h.hne
    obtain ⟨st2, hd⟩ := peng_opens bodyOf sel seals x K (bytesGt y.hash x.hash) pl y.payload hop hf (by rw [← hopp]; exact hc hx)
    rw [C05Lockstep.handleMsg_peng_ok env bodyOf ok x y.hash pl rnd st2 y.payload hd h.good.okY] at hgen
    exact ⟨_, hgen, rfl⟩

/-- a delivered message of another stage makes a waiting responder / completed initiator repeat its last message -/
theorem RI.repeats (h : RI env ok sel x y dx dy sigs seals) (bodyOf : BodyOf) {w : Bytes} {rnd : Rand} {k : Nat}
    (hw : IsMsg w k y.hash) (hreads : ∃ m key, readFrom env w x.trusted = .ok (m, key))
    (hx : x.stage = PENG ∨ x.stage = WAIT) (hk : k ≠ x.stage) :
    ∃ l, x.last = some l ∧ IsMsg l (if x.stage = PENG then PONG else PENG) x.hash ∧
      handleInit env bodyOf ok x w rnd = .ok x (l, .continue, []) := by
  obtain ⟨m, key, hr⟩ := hreads
  obtain ⟨hk', hh⟩ := hw.read hr
  have hl : ∃ l, x.last = some l ∧ IsMsg l (if x.stage = PENG then PONG else PENG) x.hash := by
    rcases hx with hx | hx
    · rw [if_pos hx]; exact (h.ox.o4 hx).isMsg
    · rw [if_neg (by rw [hx]; decide)]; exact (h.ox.o5 hx).1.isMsg
  obtain ⟨l, hl1, hl2⟩ := hl
  refine ⟨l, hl1, hl2, ?_⟩
  rw [h.handle_read bodyOf rnd hr hh, hk', hh]
  have : stageCheck x k y.hash = .inr (.ok x (l, .continue, [])) := by
    have n1 : ¬ (x.stage = PONG ∧ k = PING) := by
      rintro ⟨e, _⟩
      rcases hx with hx | hx <;> (rw [hx] at e; exact absurd e (by decide))
    have n2 : ¬ x.stage = CLOSING := by
      intro e
      rcases hx with hx | hx <;> (rw [hx] at e; exact absurd e (by decide))
    unfold stageCheck
    rw [if_pos hk, if_neg n1, if_neg n2, hl1]
  rw [this]

/-- a closed object ignores everything -/
theorem RI.closed_ignores (h : RI env ok sel x y dx dy sigs seals) (bodyOf : BodyOf) {w : Bytes} {rnd : Rand} {k : Nat}
    (hw : IsMsg w k y.hash) (hreads : ∃ m key, readFrom env w x.trusted = .ok (m, key))
    (hx : x.stage = CLOSING) (hk : k ≠ CLOSING) :
    handleInit env bodyOf ok x w rnd = .ok x ([], .continue, []) := by
  obtain ⟨m, key, hr⟩ := hreads
  obtain ⟨hk', hh⟩ := hw.read hr
  rw [h.handle_read bodyOf rnd hr hh, hk', hh]
  have : stageCheck x k y.hash = .inr (.ok x ([], .continue, [])) := by
    have n1 : ¬ (x.stage = PONG ∧ k = PING) := by
      rintro ⟨e, _⟩
      rw [hx] at e; exact absurd e (by decide)
    unfold stageCheck
    rw [if_pos (by rw [hx]; exact hk), if_neg n1, if_pos hx]
  rw [this]

end

end VpnCloud.Proofs.C05RecoverLemmas
