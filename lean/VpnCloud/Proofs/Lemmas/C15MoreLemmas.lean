import VpnCloud.Model.Node
import VpnCloud.Proofs.Lemmas.NodeInvLemmas
import VpnCloud.Proofs.C15
import VpnCloud.Proofs.C15Node
/-
  Helper lemmas for `Proofs/C15More.lean` (property C15 at node level):

  * the scheduling part of the node state (`sched`: next announcement, reconnect list, configuration, node id, own
    addresses) is not written by the first stages of `housekeep`,
  * the minimum that `housekeep` computes over the advertised peer timeouts is a lower bound of each of them,
  * `broadcast_msg` peer by peer, for pairwise distinct peer addresses,
  * `reconnect_to_peers` entry by entry.
-/
namespace VpnCloud.Proofs.C15MoreLemmas

open VpnCloud VpnCloud.Node
open VpnCloud.Proofs.NodeLemmas VpnCloud.Proofs.NodeLemmas2 VpnCloud.Proofs.NodeInvLemmas

/-! ## the scheduling part of the node state -/

/-- what the scheduling steps of `housekeep` read: next announcement, reconnect list, configuration, node id, own addresses -/
def sched (n : Node) : Int × List Reconnect × NodeCfg × Bytes × List NAddr :=
  (n.nextPeers, n.reconnect, n.cfg, n.nodeId, n.own)

theorem sched_nextPeers {n m : Node} (h : sched n = sched m) : n.nextPeers = m.nextPeers := congrArg (·.1) h
theorem sched_reconnect {n m : Node} (h : sched n = sched m) : n.reconnect = m.reconnect := congrArg (·.2.1) h
theorem sched_cfg {n m : Node} (h : sched n = sched m) : n.cfg = m.cfg := congrArg (·.2.2.1) h
theorem sched_nodeId {n m : Node} (h : sched n = sched m) : n.nodeId = m.nodeId := congrArg (·.2.2.2.1) h
theorem sched_own {n m : Node} (h : sched n = sched m) : n.own = m.own := congrArg (·.2.2.2.2) h

theorem connectSock_sched (env : CryptoEnv) (o : Oracle) (c : Ctx) (a : NAddr) :
    sched (connectSock env o c a).node = sched c.node := by
  unfold connectSock
  simp only []
  split
  · rfl
  · simp only [newAttempt]; rfl

theorem foldl_sched {β} (f : Ctx → β → Ctx) (hf : ∀ c x, sched (f c x).node = sched c.node) :
    ∀ (l : List β) (c : Ctx), sched (l.foldl f c).node = sched c.node
  | [], _ => rfl
  | x :: l, c => (foldl_sched f hf l (f c x)).trans (hf c x)

theorem connect_sched (env : CryptoEnv) (o : Oracle) (c : Ctx) (l : List NAddr) :
    sched (connect env o c l).node = sched c.node := by
  unfold connect
  simp only []
  split
  · rfl
  · exact foldl_sched _ (connectSock_sched env o) _ _

theorem hkDead_sched (env : CryptoEnv) (o : Oracle) (n : Node) (now : Int) : sched (hkDead env o n now).node = sched n := by
  unfold hkDead
  refine (foldl_sched _ ?_ _ _).trans rfl
  intro c a
  exact (connectSock_sched env o _ a).trans rfl

theorem hkSweep_sched (c : Ctx) (now : Int) : sched (hkSweep c now).node = sched c.node := rfl

theorem sendMsg_sched (o : Oracle) (c : Ctx) (a : NAddr) (ty : Nat) (body : Bytes) :
    sched ((sendMsg o c a ty body).getD c).node = sched c.node := by
  unfold sendMsg
  split
  · rfl
  · simp only []
    split
    · rfl
    · rfl

theorem broadcastMsg_sched (o : Oracle) (c : Ctx) (ty : Nat) (body : Bytes) :
    sched (broadcastMsg o c ty body).node = sched c.node := by
  unfold broadcastMsg
  exact foldl_sched _ (fun c a => sendMsg_sched o c a ty body) _ _

theorem cryptoHousekeep_sched (env : CryptoEnv) (o : Oracle) (c : Ctx) (now : Int) :
    sched (cryptoHousekeep env o c now).node = sched c.node := by
  unfold cryptoHousekeep
  refine (foldl_sched _ ?_ _ _).trans (foldl_sched _ ?_ _ _)
  · intro c a
    split
    · rfl
    · split
      split
      · exact (connectSock_sched env o _ a).trans rfl
      · rfl
      · split <;> rfl
  · intro c a
    split
    · rfl
    · split
      split
      · rfl
      · rfl
      · split <;> rfl

/-- the context in which `housekeep` decides about the announcement: expired peers removed, table swept, sessions ticked -/
def preAnnounce (env : CryptoEnv) (o : Oracle) (n : Node) (now : Int) : Ctx :=
  cryptoHousekeep env o (hkSweep (hkDead env o n now) now) now

theorem preAnnounce_sched (env : CryptoEnv) (o : Oracle) (n : Node) (now : Int) :
    sched (preAnnounce env o n now).node = sched n := by
  unfold preAnnounce
  rw [cryptoHousekeep_sched, hkSweep_sched, hkDead_sched]

theorem housekeep_eq' (env : CryptoEnv) (o : Oracle) (n : Node) (now : Int) :
    housekeep env o n now = hkOwn (reconnectToPeers env o (hkAnnounce o (preAnnounce env o n now) now) now) now := rfl

/-! ## fields that `reconnect_to_peers` and the reset of the own addresses leave alone -/

theorem hkOwn_peers (c : Ctx) (now : Int) : (hkOwn c now).node.peers = c.node.peers := by
  unfold hkOwn; split <;> rfl
theorem hkOwn_nextPeers (c : Ctx) (now : Int) : (hkOwn c now).node.nextPeers = c.node.nextPeers := by
  unfold hkOwn; split <;> rfl
theorem hkOwn_reconnect (c : Ctx) (now : Int) : (hkOwn c now).node.reconnect = c.node.reconnect := by
  unfold hkOwn; split <;> rfl
theorem hkOwn_outs (c : Ctx) (now : Int) : (hkOwn c now).outs = c.outs := by
  unfold hkOwn; split <;> rfl
theorem hkOwn_log (c : Ctx) (now : Int) : (hkOwn c now).log = c.log := by
  unfold hkOwn; split <;> rfl
theorem hkOwn_panicked (c : Ctx) (now : Int) : (hkOwn c now).panicked = c.panicked := by
  unfold hkOwn; split <;> rfl

/-- the first loop of `reconnect_to_peers` -/
def rcDial (env : CryptoEnv) (o : Oracle) (c : Ctx) (now : Int) : Ctx :=
  c.node.reconnect.foldl (fun c e => if Generated.reconnectNotDue e.next now then c else connect env o c e.resolved) c

theorem rcDial_sched (env : CryptoEnv) (o : Oracle) (c : Ctx) (now : Int) : sched (rcDial env o c now).node = sched c.node := by
  unfold rcDial
  refine foldl_sched _ ?_ _ _
  intro c e
  split
  · rfl
  · exact connect_sched env o c _

theorem reconnectToPeers_nextPeers (env : CryptoEnv) (o : Oracle) (c : Ctx) (now : Int) :
    (reconnectToPeers env o c now).node.nextPeers = c.node.nextPeers := by
  show (rcDial env o c now).node.nextPeers = _
  exact sched_nextPeers (rcDial_sched env o c now)

/-! ## the minimum over the advertised peer timeouts -/

theorem foldl_min_le_init (l : List Nat) (i : Nat) : l.foldl min i ≤ i := by
  induction l generalizing i with
  | nil => exact Nat.le_refl _
  | cons x l ih => exact Nat.le_trans (ih (min i x)) (Nat.min_le_left _ _)

theorem foldl_min_le_mem (l : List Nat) (i : Nat) (x : Nat) (hx : x ∈ l) : l.foldl min i ≤ x := by
  induction l generalizing i with
  | nil => cases hx
  | cons y l ih =>
    rcases List.mem_cons.1 hx with rfl | hx
    · exact Nat.le_trans (foldl_min_le_init l (min i x)) (Nat.min_le_right _ _)
    · exact ih (min i y) hx

/-! ## a message from an established peer -/

theorem lookupA_insertA_ne {α} (l : List (NAddr × α)) {a b : NAddr} (v : α) (h : b ≠ a) :
    lookupA (insertA l a v) b = lookupA l b := by
  have hab : ¬ a = b := fun e => h e.symm
  unfold insertA lookupA
  split
  · rename_i hany; clear hany
    induction l with
    | nil => rfl
    | cons x l ih =>
      by_cases hx : x.1 = a
      · simp only [List.map_cons, hx, if_true, List.find?_cons, hab, decide_false]
        exact ih
      · simp only [List.map_cons, hx, if_false, List.find?_cons]
        by_cases hxb : x.1 = b
        · simp only [hxb, decide_true]
        · simp only [hxb, decide_false]
          exact ih
  · rw [List.find?_append]
    simp [hab]

theorem map_noKey {α} (l : List (NAddr × α)) (a : NAddr) (w : α) (hn : ¬ l.any (fun p => decide (p.1 = a)) = true) :
    l.map (fun p => if p.1 = a then (a, w) else p) = l := by
  induction l with
  | nil => rfl
  | cons x l ih =>
    simp only [List.any_cons, Bool.or_eq_true, decide_eq_true_eq, not_or] at hn
    simp only [List.map_cons, hn.1, if_false]
    rw [ih hn.2]

theorem insertA_of_any {α} (l : List (NAddr × α)) (a : NAddr) (v : α) (h : l.any (fun p => decide (p.1 = a)) = true) :
    insertA l a v = l.map (fun p => if p.1 = a then (a, v) else p) := by
  unfold insertA; rw [if_pos h]

theorem insertA_insertA {α} (l : List (NAddr × α)) (a : NAddr) (v w : α) : insertA (insertA l a v) a w = insertA l a w := by
  have hself : (lookupA (insertA l a v) a).isSome = true := by rw [lookupA_insertA_self]; rfl
  have hany : (insertA l a v).any (fun p => decide (p.1 = a)) = true := by
    rw [lookupA_isSome_iff] at hself; simpa using hself
  rw [insertA_of_any _ _ _ hany]
  unfold insertA
  split
  · rw [List.map_map]; apply List.map_congr_left; intro x _; by_cases hx : x.1 = a <;> simp [hx]
  · rename_i hn
    rw [List.map_append, map_noKey l a w hn]
    simp

theorem eraseA_map_self {α} (l : List (NAddr × α)) (a : NAddr) (v : α) :
    eraseA (l.map (fun p => if p.1 = a then (a, v) else p)) a = eraseA l a := by
  unfold eraseA
  induction l with
  | nil => rfl
  | cons x l ih =>
    by_cases hx : x.1 = a
    · simp only [List.map_cons, List.filter_cons, hx, if_true, ne_eq, not_true_eq_false, decide_false, Bool.false_eq_true, if_false]
      exact ih
    · simp only [List.map_cons, List.filter_cons, hx, if_false, ne_eq, not_false_eq_true, decide_true, if_true]
      rw [ih]

theorem eraseA_insertA_self {α} (l : List (NAddr × α)) (a : NAddr) (v : α) : eraseA (insertA l a v) a = eraseA l a := by
  unfold insertA
  split
  · exact eraseA_map_self l a v
  · unfold eraseA; simp [List.filter_append]

/-- the record `update_peer_info` writes: new expiry; with node information also the address list (seen address first) -/
def refreshed (p : Peer) (expiry : Int) (a : NAddr) : Option NodeInfo → Peer
  | none => { p with timeout := expiry }
  | some i => { p with timeout := expiry, addrs := i.addrs.foldl (fun l x => if l.contains x then l else l ++ [x]) [a] }

theorem refreshed_timeout (p : Peer) (e : Int) (a : NAddr) (i : Option NodeInfo) : (refreshed p e a i).timeout = e := by
  cases i <;> rfl
theorem refreshed_crypto (p : Peer) (e : Int) (a : NAddr) (i : Option NodeInfo) : (refreshed p e a i).crypto = p.crypto := by
  cases i <;> rfl
theorem refreshed_peerTimeout (p : Peer) (e : Int) (a : NAddr) (i : Option NodeInfo) : (refreshed p e a i).peerTimeout = p.peerTimeout := by
  cases i <;> rfl
theorem refreshed_nodeId (p : Peer) (e : Int) (a : NAddr) (i : Option NodeInfo) : (refreshed p e a i).nodeId = p.nodeId := by
  cases i <;> rfl

theorem updatePeerInfo_peers (env : CryptoEnv) (o : Oracle) (c : Ctx) (now : Int) (a : NAddr) (info : Option NodeInfo) (p : Peer)
    (hp : lookupA c.node.peers a = some p) :
    (updatePeerInfo env o c now a info).node.peers = insertA c.node.peers a (refreshed p (now + c.node.cfg.peerTimeout) a info) := by
  unfold updatePeerInfo
  simp only [hp]
  cases info with
  | none => rfl
  | some i =>
    simp only []
    rw [connectToPeers_peers]
    rfl

/-- `handle_net_message` for a datagram without the handshake marker from an established peer whose session accepts it -/
theorem handleNet_established (env : CryptoEnv) (bodyOf : Init.BodyOf) (o : Oracle) (n : Node) (now : Int) (src : NAddr)
    (data tail : Bytes) (p : Peer) (pc : PeerCrypto) (out : Bytes) (res : MsgResult) (log : Init.SealLog)
    (hp : lookupA n.peers (mappedAddr src) = some p)
    (hinit : data.head? ≠ some Generated.INIT_MESSAGE_FIRST_BYTE)
    (hm : PeerCrypto.handleMessage env bodyOf payloadOk p.crypto data tail (rndFor o { node := n } (mappedAddr src)).1
            (rndFor o { node := n } (mappedAddr src)).2.1 = .ok pc out res log) :
    handleNet env bodyOf o n now src data tail =
      finish (mappedAddr src) (handleResult env o
        (addLog log { node := { n with peers := insertA n.peers (mappedAddr src) { p with crypto := pc } } })
        now (mappedAddr src) res out) := by
  rw [handleNet_eq]
  unfold dispatch
  simp only [hp, hinit, decide_false, Bool.not_false, if_true]
  rw [hm]
  unfold applyOutcome
  simp only [if_true, hp]

/-- what `handle_message` does to the peer list for a decrypted message of type `ty`, when the sender is the peer `q` -/
theorem handleResult_message_peers (env : CryptoEnv) (o : Oracle) (c : Ctx) (now : Int) (s : NAddr) (ty : Nat) (body out : Bytes) (q : Peer)
    (hq : lookupA c.node.peers s = some q) :
    (handleResult env o c now s (.message ty body) out).1.node.peers =
      if ty = Generated.MESSAGE_TYPE_KEEPALIVE then insertA c.node.peers s (refreshed q (now + c.node.cfg.peerTimeout) s none)
      else if ty = Generated.MESSAGE_TYPE_NODE_INFO then
        match Codec.decodeNodeInfo body with
        | some i => insertA c.node.peers s (refreshed q (now + c.node.cfg.peerTimeout) s (some i))
        | none => c.node.peers
      else if ty = Generated.MESSAGE_TYPE_CLOSE then eraseA c.node.peers s
      else c.node.peers := by
  unfold handleResult
  simp only []
  by_cases h0 : ty = Generated.MESSAGE_TYPE_DATA
  · subst h0
    simp only [if_true]
    rw [if_neg (by decide), if_neg (by decide), if_neg (by decide)]
    split
    · rfl
    · split <;> rfl
  · rw [if_neg h0]
    by_cases h1 : ty = Generated.MESSAGE_TYPE_NODE_INFO
    · subst h1
      rw [if_pos rfl, if_neg (by decide), if_pos rfl]
      split
      · rename_i hd; simp only [hd]; rfl
      · rename_i i hd; simp only [hd]; exact updatePeerInfo_peers env o c now s (some i) q hq
    · rw [if_neg h1]
      by_cases h2 : ty = Generated.MESSAGE_TYPE_KEEPALIVE
      · subst h2
        rw [if_pos rfl, if_pos rfl]
        exact updatePeerInfo_peers env o c now s none q hq
      · rw [if_neg h2, if_neg h2, if_neg h1]
        by_cases h3 : ty = Generated.MESSAGE_TYPE_CLOSE
        · rw [if_pos h3, if_pos h3]
          unfold removePeer
          simp only [hq]
        · rw [if_neg h3, if_neg h3]
          rfl

/-! ## `reconnect_to_peers` entry by entry -/

/-- the second loop of `reconnect_to_peers`: what happens to one entry (`peers` = the current peer list) -/
def rcUpdate (peers : List (NAddr × Peer)) (now : Int) (e : Reconnect) : Reconnect :=
  let e1 := if e.resolved.any (fun a => (lookupA peers a).isSome) then { e with tries := 0, timeout := 1, next := now + 1 } else e
  if Generated.reconnectNotDue e1.next now then e1
  else
    let tries := e1.tries + 1
    let (tries, timeout) := if Generated.backoffDoubles tries then (0, e1.timeout * 2) else (tries, e1.timeout)
    let timeout := if Generated.backoffCapped timeout then Generated.MAX_RECONNECT_INTERVAL else timeout
    { e1 with tries, timeout, next := now + timeout }

theorem rcDial_peers (env : CryptoEnv) (o : Oracle) (c : Ctx) (now : Int) : (rcDial env o c now).node.peers = c.node.peers := by
  unfold rcDial
  apply foldl_peers
  intro c e
  split
  · rfl
  · exact connect_peers env o c _

theorem reconnectToPeers_eq (env : CryptoEnv) (o : Oracle) (c : Ctx) (now : Int) :
    reconnectToPeers env o c now =
      { rcDial env o c now with node := { (rcDial env o c now).node with
          reconnect := (rcDial env o c now).node.reconnect.map (rcUpdate (rcDial env o c now).node.peers now) } } := rfl

theorem reconnectToPeers_reconnect (env : CryptoEnv) (o : Oracle) (c : Ctx) (now : Int) :
    (reconnectToPeers env o c now).node.reconnect = c.node.reconnect.map (rcUpdate c.node.peers now) := by
  rw [reconnectToPeers_eq]
  show (rcDial env o c now).node.reconnect.map (rcUpdate (rcDial env o c now).node.peers now) = _
  rw [rcDial_peers, sched_reconnect (rcDial_sched env o c now)]

theorem rcUpdate_resolved (peers : List (NAddr × Peer)) (now : Int) (e : Reconnect) : (rcUpdate peers now e).resolved = e.resolved := by
  unfold rcUpdate
  simp only []
  split <;> split <;> rfl

theorem rcUpdate_timeout (peers : List (NAddr × Peer)) (now : Int) (e : Reconnect) :
    (rcUpdate peers now e).timeout ≤ max e.timeout Generated.MAX_RECONNECT_INTERVAL := by
  have h1 : 1 ≤ Generated.MAX_RECONNECT_INTERVAL := by decide
  unfold rcUpdate
  have clamp : ∀ t : Nat, (if Generated.backoffCapped t = true then Generated.MAX_RECONNECT_INTERVAL else t) ≤ Generated.MAX_RECONNECT_INTERVAL := by
    intro t; simp only [Generated.backoffCapped, decide_eq_true_eq]; split <;> omega
  generalize Generated.MAX_RECONNECT_INTERVAL = M at h1 clamp ⊢
  simp only []
  split
  · split
    · show 1 ≤ max e.timeout M; omega
    · dsimp only
      generalize (if Generated.backoffDoubles (0 + 1) = true then ((0 : Nat), 1 * 2) else (0 + 1, 1)).snd = t
      have := clamp t
      omega
  · split
    · omega
    · dsimp only
      generalize (if Generated.backoffDoubles (e.tries + 1) = true then ((0 : Nat), e.timeout * 2) else (e.tries + 1, e.timeout)).snd = t
      have := clamp t
      omega

/-! ## dialling -/

theorem mappedAddr_idem (a : NAddr) : mappedAddr (mappedAddr a) = mappedAddr a := by cases a <;> rfl

/-- a handshake datagram to `a` -/
def HsTo (a : NAddr) (l : List Out) : Prop := ∃ b, Out.dgram a (Generated.INIT_MESSAGE_FIRST_BYTE :: b) ∈ l

theorem HsTo.mono {a : NAddr} {l l' : List Out} (h : HsTo a l) (hs : ∀ x ∈ l, x ∈ l') : HsTo a l' := by
  obtain ⟨b, hb⟩ := h; exact ⟨b, hs _ hb⟩

/-- `connect_sock` to an address (in mapped form) that is neither own, nor a peer, nor pending: a handshake object is stored and
    its first message sent -/
theorem connectSock_fresh (env : CryptoEnv) (o : Oracle) (c : Ctx) (a : NAddr) (hm : mappedAddr a = a)
    (hown : c.node.own.contains a = false) (hpeer : lookupA c.node.peers a = none) (hpend : lookupA c.node.pending a = none) :
    ∃ pc b, connectSock env o c a =
      ({ c with node := { c.node with pending := insertA c.node.pending a pc } }).send a (Generated.INIT_MESSAGE_FIRST_BYTE :: b) := by
  unfold connectSock
  simp only [hm, hown, hpeer, hpend, Option.isSome_none, Bool.or_self, Bool.false_eq_true, if_false, newAttempt]
  exact ⟨_, _, rfl⟩

theorem connectSock_known (env : CryptoEnv) (o : Oracle) (c : Ctx) (a : NAddr) (hm : mappedAddr a = a)
    (hpend : (lookupA c.node.pending a).isSome = true) : connectSock env o c a = c := by
  unfold connectSock
  simp only [hm, hpend, Bool.or_true, if_true]

theorem connectSock_own (env : CryptoEnv) (o : Oracle) (c : Ctx) (a : NAddr) : (connectSock env o c a).node.own = c.node.own :=
  sched_own (connectSock_sched env o c a)

/-- dialling a list of addresses none of which is own or a peer: afterwards each of them was pending before or has been sent a handshake datagram -/
theorem dialAll (env : CryptoEnv) (o : Oracle) :
    ∀ (l : List NAddr) (c : Ctx), (∀ a ∈ l, mappedAddr a = a) →
      (∀ a ∈ l, c.node.own.contains a = false ∧ lookupA c.node.peers a = none) →
      ∃ ex, (l.foldl (connectSock env o) c).outs = c.outs ++ ex ∧
        ∀ a ∈ l, (lookupA c.node.pending a).isSome = true ∨ HsTo a ex
  | [], c, _, _ => ⟨[], by simp, fun a ha => by cases ha⟩
  | x :: l, c, hm, hk => by
    have hmx := hm x (List.mem_cons_self ..)
    have hkx := hk x (List.mem_cons_self ..)
    have hk1 : ∀ a ∈ l, (connectSock env o c x).node.own.contains a = false ∧ lookupA (connectSock env o c x).node.peers a = none := by
      intro a ha
      rw [connectSock_own, connectSock_peers]
      exact hk a (List.mem_cons_of_mem _ ha)
    obtain ⟨ex1, ho1, h1⟩ := dialAll env o l (connectSock env o c x) (fun a ha => hm a (List.mem_cons_of_mem _ ha)) hk1
    simp only [List.foldl_cons]
    cases hp : lookupA c.node.pending x with
    | some pc0 =>
      have hc : connectSock env o c x = c := connectSock_known env o c x hmx (by rw [hp]; rfl)
      rw [hc] at ho1 h1
      refine ⟨ex1, by rw [hc]; exact ho1, ?_⟩
      intro a ha
      rcases List.mem_cons.1 ha with rfl | ha
      · exact Or.inl (by rw [hp]; rfl)
      · exact h1 a ha
    | none =>
      obtain ⟨pc, b, hc⟩ := connectSock_fresh env o c x hmx hkx.1 hkx.2 hp
      rw [hc] at ho1 h1
      refine ⟨Out.dgram x (Generated.INIT_MESSAGE_FIRST_BYTE :: b) :: ex1, ?_, ?_⟩
      · rw [hc, ho1]; simp
      · intro a ha
        have hx : HsTo x (Out.dgram x (Generated.INIT_MESSAGE_FIRST_BYTE :: b) :: ex1) := ⟨b, List.mem_cons_self ..⟩
        rcases List.mem_cons.1 ha with rfl | ha
        · exact Or.inr hx
        · by_cases hax : a = x
          · subst hax; exact Or.inr hx
          · rcases h1 a ha with h | h
            · left
              simpa only [send_node, lookupA_insertA_ne _ _ hax] using h
            · exact Or.inr (h.mono (fun y hy => List.mem_cons_of_mem _ hy))

/-- `connect` to a list of addresses none of which is own, peer or pending: a handshake datagram goes to each of them -/
theorem connect_fresh (env : CryptoEnv) (o : Oracle) (c : Ctx) (addrs : List NAddr)
    (hf : ∀ a ∈ addrs, c.node.own.contains (mappedAddr a) = false ∧ lookupA c.node.peers (mappedAddr a) = none ∧
      lookupA c.node.pending (mappedAddr a) = none) :
    ∃ ex, (connect env o c addrs).outs = c.outs ++ ex ∧ ∀ a ∈ addrs, HsTo (mappedAddr a) ex := by
  have hany : (addrs.map mappedAddr).any (fun a => c.node.own.contains a || (lookupA c.node.peers a).isSome || (lookupA c.node.pending a).isSome) = false := by
    rw [List.any_eq_false]
    intro a ha
    obtain ⟨a0, ha0, rfl⟩ := List.mem_map.1 ha
    obtain ⟨h1, h2, h3⟩ := hf a0 ha0
    simp only [h1, h2, h3, Option.isSome_none, Bool.or_self]
    exact Bool.false_ne_true
  unfold connect
  simp only [hany, Bool.false_eq_true, if_false]
  obtain ⟨ex, ho, h⟩ := dialAll env o (addrs.map mappedAddr) c
    (by intro a ha; obtain ⟨a0, _, rfl⟩ := List.mem_map.1 ha; exact mappedAddr_idem a0)
    (by intro a ha; obtain ⟨a0, ha0, rfl⟩ := List.mem_map.1 ha; exact ⟨(hf a0 ha0).1, (hf a0 ha0).2.1⟩)
  refine ⟨ex, ho, ?_⟩
  intro a ha
  rcases h (mappedAddr a) (List.mem_map.2 ⟨a, ha, rfl⟩) with h' | h'
  · rw [(hf a ha).2.2] at h'; cases h'
  · exact h'


/-! the first loop of `reconnect_to_peers` -/

def dialStep (env : CryptoEnv) (o : Oracle) (now : Int) (c : Ctx) (e : Reconnect) : Ctx :=
  if Generated.reconnectNotDue e.next now then c else connect env o c e.resolved

theorem rcDial_eq (env : CryptoEnv) (o : Oracle) (c : Ctx) (now : Int) :
    rcDial env o c now = c.node.reconnect.foldl (dialStep env o now) c := rfl

theorem dialStep_sched (env : CryptoEnv) (o : Oracle) (now : Int) (c : Ctx) (e : Reconnect) :
    sched (dialStep env o now c e).node = sched c.node := by
  unfold dialStep; split
  · rfl
  · exact connect_sched env o c _

theorem dialStep_peers (env : CryptoEnv) (o : Oracle) (now : Int) (c : Ctx) (e : Reconnect) :
    (dialStep env o now c e).node.peers = c.node.peers := by
  unfold dialStep; split
  · rfl
  · exact connect_peers env o c _

theorem dialStep_ext (env : CryptoEnv) (o : Oracle) (now : Int) (c : Ctx) (e : Reconnect) :
    Ext IsHs c.outs (dialStep env o now c e).outs := by
  unfold dialStep; split
  · exact Ext.refl _ _
  · exact connect_ext env o c _

/-- every address with a pending handshake satisfies `K` -/
def PendSub (K : NAddr → Prop) (c : Ctx) : Prop := ∀ a, a ∈ c.node.pending.map (·.1) → K a

theorem foldl_inv_mem {β} (P : Ctx → Prop) (f : Ctx → β → Ctx) :
    ∀ (l : List β) (c : Ctx), (∀ c x, x ∈ l → P c → P (f c x)) → P c → P (l.foldl f c)
  | [], _, _, h => h
  | x :: l, c, hf, h =>
    foldl_inv_mem P f l (f c x) (fun c y hy => hf c y (List.mem_cons_of_mem _ hy)) (hf c x (List.mem_cons_self ..) h)

theorem connectSock_pendSub (env : CryptoEnv) (o : Oracle) (K : NAddr → Prop) (c : Ctx) (a : NAddr) (h : PendSub K c)
    (ha : K (mappedAddr a)) : PendSub K (connectSock env o c a) := by
  unfold connectSock
  simp only []
  split
  · exact h
  · simp only [newAttempt]
    intro b hb
    rcases key_mem_insertA hb with rfl | hb
    · exact ha
    · exact h b hb

theorem connect_pendSub (env : CryptoEnv) (o : Oracle) (K : NAddr → Prop) (c : Ctx) (l : List NAddr) (h : PendSub K c)
    (hl : ∀ a ∈ l, K (mappedAddr a)) : PendSub K (connect env o c l) := by
  unfold connect
  simp only []
  split
  · exact h
  · apply foldl_inv_mem (PendSub K) _ _ _ _ h
    intro c' x hx hc'
    obtain ⟨a0, ha0, rfl⟩ := List.mem_map.1 hx
    apply connectSock_pendSub env o K c' _ hc'
    rw [mappedAddr_idem]
    exact hl a0 ha0

/-- **the dial loop**: an entry that is due, none of whose addresses is own, a peer or pending, and none of whose addresses is
    shared with a due entry before it in the list, is dialled: a handshake datagram goes to each of its addresses -/
theorem rcDial_dials (env : CryptoEnv) (o : Oracle) (c : Ctx) (now : Int) (pre post : List Reconnect) (e : Reconnect)
    (hsplit : c.node.reconnect = pre ++ e :: post) (hdue : e.next ≤ now)
    (hfresh : ∀ a ∈ e.resolved, c.node.own.contains (mappedAddr a) = false ∧ lookupA c.node.peers (mappedAddr a) = none ∧
      lookupA c.node.pending (mappedAddr a) = none)
    (hpre : ∀ e' ∈ pre, e'.next ≤ now → ∀ a ∈ e.resolved, ∀ a' ∈ e'.resolved, mappedAddr a ≠ mappedAddr a') :
    ∃ ex, (rcDial env o c now).outs = c.outs ++ ex ∧ ∀ a ∈ e.resolved, HsTo (mappedAddr a) ex := by
  rw [rcDial_eq, hsplit, List.foldl_append, List.foldl_cons]
  generalize hcp : pre.foldl (dialStep env o now) c = cp
  -- the prefix
  have hsch : sched cp.node = sched c.node := by rw [← hcp]; exact foldl_sched _ (dialStep_sched env o now) _ _
  have hpeers : cp.node.peers = c.node.peers := by rw [← hcp]; exact foldl_peers _ (dialStep_peers env o now) _ _
  obtain ⟨ex0, ho0, _⟩ : Ext IsHs c.outs cp.outs := by rw [← hcp]; exact Ext.foldl _ (dialStep_ext env o now) _ _
  have hpend : PendSub (fun b => b ∈ c.node.pending.map (·.1) ∨ ∃ e' ∈ pre, e'.next ≤ now ∧ ∃ a' ∈ e'.resolved, b = mappedAddr a') cp := by
    rw [← hcp]
    apply foldl_inv_mem (PendSub _) _ _ _ _ (fun b hb => Or.inl hb)
    intro c' e' he' hc'
    unfold dialStep
    split
    · exact hc'
    · rename_i hnd
      simp only [Generated.reconnectNotDue, decide_eq_true_eq] at hnd
      apply connect_pendSub env o _ c' _ hc'
      intro a' ha'
      exact Or.inr ⟨e', he', by omega, a', ha', rfl⟩
  -- the entry itself
  have hstep : dialStep env o now cp e = connect env o cp e.resolved := by
    unfold dialStep; rw [if_neg (by simp only [Generated.reconnectNotDue, decide_eq_true_eq]; omega)]
  have hf : ∀ a ∈ e.resolved, cp.node.own.contains (mappedAddr a) = false ∧ lookupA cp.node.peers (mappedAddr a) = none ∧
      lookupA cp.node.pending (mappedAddr a) = none := by
    intro a ha
    obtain ⟨h1, h2, h3⟩ := hfresh a ha
    refine ⟨by rw [sched_own hsch]; exact h1, by rw [hpeers]; exact h2, ?_⟩
    rw [lookupA_none_iff]
    intro hmem
    rcases hpend _ hmem with hk | ⟨e', he', hd', a', ha', heq⟩
    · exact (lookupA_none_iff _ _).1 h3 hk
    · exact hpre e' he' hd' a ha a' ha' heq
  obtain ⟨ex1, ho1, h1⟩ := connect_fresh env o cp e.resolved hf
  -- the rest
  obtain ⟨ex2, ho2, _⟩ : Ext IsHs (dialStep env o now cp e).outs (post.foldl (dialStep env o now) (dialStep env o now cp e)).outs :=
    Ext.foldl _ (dialStep_ext env o now) _ _
  refine ⟨ex0 ++ ex1 ++ ex2, ?_, ?_⟩
  · rw [ho2, hstep, ho1, ho0]; simp
  · intro a ha
    exact (h1 a ha).mono (fun x hx => List.mem_append_left _ (List.mem_append_right _ hx))

/-! ## `broadcast_msg` peer by peer -/

/-- the session can seal a message: it is in unencrypted mode or has a crypto core (`send_message` fails exactly otherwise) -/
def canSeal (pc : PeerCrypto) : Prop := pc.unencrypted = true ∨ pc.core.isSome = true

theorem sendMessage_canSeal (pc : PeerCrypto) (ty : Nat) (body ct : Bytes) (h : canSeal pc) :
    ∃ pc' bytes log, PeerCrypto.sendMessage pc ty body ct = (pc', .ok (bytes, log)) ∧ canSeal pc' := by
  unfold PeerCrypto.sendMessage PeerCrypto.sealMsg
  by_cases hu : pc.unencrypted = true
  · rw [if_pos hu]; exact ⟨_, _, _, rfl, Or.inl hu⟩
  · rw [if_neg hu]
    rcases h with h | h
    · exact absurd h hu
    · cases hc : pc.core with
      | none => rw [hc] at h; cases h
      | some c => exact ⟨_, _, _, rfl, Or.inr rfl⟩

theorem sendMessage_cannot (pc : PeerCrypto) (ty : Nat) (body ct : Bytes) (h : ¬ canSeal pc) :
    PeerCrypto.sendMessage pc ty body ct = (pc, .error .state) := by
  unfold PeerCrypto.sendMessage PeerCrypto.sealMsg
  by_cases hu : pc.unencrypted = true
  · exact absurd (Or.inl hu) h
  · rw [if_neg hu]
    cases hc : pc.core with
    | none => rfl
    | some c => exact absurd (Or.inr (by rw [hc]; rfl)) h

/-- peer `a` with record `p` has been sent one sealed copy of the message: the datagram is among `outs`, its seal among `log`, and `p'` is the record
    with the session state after sealing -/
def Sent (ty : Nat) (body : Bytes) (a : NAddr) (p p' : Peer) (outs : List Out) (log : Init.SealLog) : Prop :=
  ∃ ct pc' bytes lg, PeerCrypto.sendMessage p.crypto ty body ct = (pc', .ok (bytes, lg)) ∧ p' = { p with crypto := pc' } ∧
    Out.dgram a bytes ∈ outs ∧ ∀ x ∈ lg, x ∈ log

theorem Sent.mono {ty : Nat} {body : Bytes} {a : NAddr} {p p' : Peer} {outs outs' : List Out} {log log' : Init.SealLog}
    (h : Sent ty body a p p' outs log) (ho : ∀ x ∈ outs, x ∈ outs') (hl : ∀ x ∈ log, x ∈ log') : Sent ty body a p p' outs' log' := by
  obtain ⟨ct, pc', bytes, lg, h1, h2, h3, h4⟩ := h
  exact ⟨ct, pc', bytes, lg, h1, h2, ho _ h3, fun x hx => hl x (h4 x hx)⟩

@[simp] theorem addLog_log (l : Init.SealLog) (c : Ctx) : (addLog l c).log = c.log ++ l := rfl

/-- one `send_msg` -/
theorem sendMsg_step (o : Oracle) (c : Ctx) (x : NAddr) (ty : Nat) (body : Bytes) :
    ∃ e0 lg0, ((sendMsg o c x ty body).getD c).outs = c.outs ++ e0 ∧ ((sendMsg o c x ty body).getD c).log = c.log ++ lg0 ∧
      (∀ b, b ≠ x → lookupA ((sendMsg o c x ty body).getD c).node.peers b = lookupA c.node.peers b) ∧
      (∀ p, lookupA c.node.peers x = some p →
        (canSeal p.crypto → ∃ p', lookupA ((sendMsg o c x ty body).getD c).node.peers x = some p' ∧ Sent ty body x p p' e0 lg0) ∧
        (¬ canSeal p.crypto → lookupA ((sendMsg o c x ty body).getD c).node.peers x = some p)) := by
  unfold sendMsg
  cases hp : lookupA c.node.peers x with
  | none => exact ⟨[], [], by simp, by simp, fun _ _ => rfl, fun p h => by cases h⟩
  | some p =>
    simp only []
    by_cases hs : canSeal p.crypto
    · obtain ⟨pc', bytes, lg, hsm, _⟩ := sendMessage_canSeal p.crypto ty body (rndFor o c x).2.1.ct hs
      rw [hsm]
      simp only [Option.getD_some, send_outs, addLog_outs, send_log, addLog_log, send_node, addLog_node]
      refine ⟨[Out.dgram x bytes], lg, rfl, rfl, fun b hb => lookupA_insertA_ne _ _ hb, ?_⟩
      intro q hq
      cases hq
      refine ⟨fun _ => ⟨_, lookupA_insertA_self _ _ _, _, pc', bytes, lg, hsm, rfl, List.mem_singleton.2 rfl, fun _ h => h⟩, fun h => absurd hs h⟩
    · rw [sendMessage_cannot p.crypto ty body _ hs]
      refine ⟨[], [], by simp, by simp, fun _ _ => rfl, ?_⟩
      intro q hq
      cases hq
      exact ⟨fun h => absurd h hs, fun _ => hp⟩

/-- `broadcast_msg` over pairwise distinct addresses -/
theorem bcast_fold (o : Oracle) (ty : Nat) (body : Bytes) :
    ∀ (l : List NAddr) (c : Ctx), l.Nodup →
      ∃ ex lgx, (l.foldl (fun c a => (sendMsg o c a ty body).getD c) c).outs = c.outs ++ ex ∧
        (l.foldl (fun c a => (sendMsg o c a ty body).getD c) c).log = c.log ++ lgx ∧
        (∀ b, b ∉ l → lookupA (l.foldl (fun c a => (sendMsg o c a ty body).getD c) c).node.peers b = lookupA c.node.peers b) ∧
        (∀ a ∈ l, ∀ p, lookupA c.node.peers a = some p →
          (canSeal p.crypto → ∃ p', lookupA (l.foldl (fun c a => (sendMsg o c a ty body).getD c) c).node.peers a = some p' ∧
              Sent ty body a p p' ex lgx) ∧
          (¬ canSeal p.crypto → lookupA (l.foldl (fun c a => (sendMsg o c a ty body).getD c) c).node.peers a = some p))
  | [], c, _ => ⟨[], [], by simp, by simp, fun _ _ => rfl, fun a ha => by cases ha⟩
  | x :: l, c, hnd => by
    obtain ⟨hxl, hnd'⟩ := List.nodup_cons.1 hnd
    obtain ⟨e0, lg0, ho0, hl0, hne0, hx0⟩ := sendMsg_step o c x ty body
    obtain ⟨ex1, lg1, ho1, hl1, hne1, hin1⟩ := bcast_fold o ty body l ((sendMsg o c x ty body).getD c) hnd'
    simp only [List.foldl_cons]
    refine ⟨e0 ++ ex1, lg0 ++ lg1, by rw [ho1, ho0, List.append_assoc], by rw [hl1, hl0, List.append_assoc], ?_, ?_⟩
    · intro b hb
      rw [List.mem_cons, not_or] at hb
      rw [hne1 b hb.2, hne0 b hb.1]
    · intro a ha p hp
      rcases List.mem_cons.1 ha with rfl | ha
      · rw [hne1 a hxl]
        obtain ⟨h1, h2⟩ := hx0 p hp
        refine ⟨fun hs => ?_, h2⟩
        obtain ⟨p', hp', hsent⟩ := h1 hs
        exact ⟨p', hp', hsent.mono (fun y hy => List.mem_append_left _ hy) (fun y hy => List.mem_append_left _ hy)⟩
      · have hax : a ≠ x := fun e => hxl (e ▸ ha)
        obtain ⟨h1, h2⟩ := hin1 a ha p (by rw [hne0 a hax]; exact hp)
        refine ⟨fun hs => ?_, h2⟩
        obtain ⟨p', hp', hsent⟩ := h1 hs
        exact ⟨p', hp', hsent.mono (fun y hy => List.mem_append_right _ hy) (fun y hy => List.mem_append_right _ hy)⟩

theorem lookupA_of_mem_nodup {α} {l : List (NAddr × α)} {a : NAddr} {v : α} (hnd : (l.map (·.1)).Nodup) (h : (a, v) ∈ l) :
    lookupA l a = some v := by
  induction l with
  | nil => cases h
  | cons x l ih =>
    rw [List.map_cons, List.nodup_cons] at hnd
    rcases List.mem_cons.1 h with rfl | h
    · simp [lookupA]
    · have hx : ¬ x.1 = a := by
        intro e
        exact hnd.1 (e ▸ mem_key h)
      have := ih hnd.2 h
      unfold lookupA at this ⊢
      simp only [List.find?_cons, hx, decide_false]
      exact this

/-- the peer addresses are pairwise distinct -/
def KeysNodup (c : Ctx) : Prop := (c.node.peers.map (·.1)).Nodup

theorem KeysNodup.erase {c : Ctx} (h : KeysNodup c) (a : NAddr) (t : Table) :
    KeysNodup { c with node := { c.node with peers := eraseA c.node.peers a, table := t } } := by
  unfold KeysNodup
  show ((eraseA c.node.peers a).map (·.1)).Nodup
  rw [keys_eraseA]
  exact List.Nodup.sublist List.filter_sublist h

theorem KeysNodup.insert {c : Ctx} (h : KeysNodup c) {a : NAddr} {p q : Peer} (hp : lookupA c.node.peers a = some p) :
    KeysNodup { c with node := { c.node with peers := insertA c.node.peers a q } } := by
  unfold KeysNodup
  show ((insertA c.node.peers a q).map (·.1)).Nodup
  rw [insertA_keys_of_some _ _ _ _ hp]
  exact h

theorem connectSock_keysNodup (env : CryptoEnv) (o : Oracle) (c : Ctx) (a : NAddr) (h : KeysNodup c) : KeysNodup (connectSock env o c a) := by
  unfold KeysNodup; rw [connectSock_peers]; exact h

theorem hkDead_keysNodup (env : CryptoEnv) (o : Oracle) (n : Node) (now : Int) (h : (n.peers.map (·.1)).Nodup) :
    KeysNodup (hkDead env o n now) := by
  unfold hkDead
  apply foldl_inv KeysNodup _ _ _ _ (show KeysNodup { node := n } from h)
  intro c a hc
  apply connectSock_keysNodup
  exact hc.erase a _

theorem cryptoHousekeep_keysNodup (env : CryptoEnv) (o : Oracle) (c : Ctx) (now : Int) (h : KeysNodup c) :
    KeysNodup (cryptoHousekeep env o c now) := by
  unfold cryptoHousekeep
  apply foldl_inv KeysNodup
  · intro c a hc
    split
    · exact hc
    · rename_i p hp
      split
      split
      · apply connectSock_keysNodup
        exact hc.erase a _
      · exact hc
      · rename_i pc' out res log _
        have hins : KeysNodup (addLog log { c with node := { c.node with peers := insertA c.node.peers a { p with crypto := pc' } } }) :=
          hc.insert hp
        split
        · exact hins
        · exact hins
  · apply foldl_inv KeysNodup
    · intro c a hc
      split
      · exact hc
      · split
        split
        · exact hc
        · exact hc
        · split
          · exact hc
          · exact hc
    · exact h

theorem preAnnounce_keysNodup (env : CryptoEnv) (o : Oracle) (n : Node) (now : Int) (h : (n.peers.map (·.1)).Nodup) :
    KeysNodup (preAnnounce env o n now) := by
  unfold preAnnounce
  apply cryptoHousekeep_keysNodup
  exact hkDead_keysNodup env o n now h

/-! ## seal log, panic flag and outputs of `reconnect_to_peers` -/

theorem foldl_proj {β γ} (g : Ctx → γ) (f : Ctx → β → Ctx) (hf : ∀ c x, g (f c x) = g c) :
    ∀ (l : List β) (c : Ctx), g (l.foldl f c) = g c
  | [], _ => rfl
  | x :: l, c => (foldl_proj g f hf l (f c x)).trans (hf c x)

theorem connectSock_log (env : CryptoEnv) (o : Oracle) (c : Ctx) (a : NAddr) : (connectSock env o c a).log = c.log := by
  unfold connectSock
  simp only []
  split
  · rfl
  · simp only [newAttempt]; rfl

theorem connectSock_panicked (env : CryptoEnv) (o : Oracle) (c : Ctx) (a : NAddr) : (connectSock env o c a).panicked = c.panicked := by
  unfold connectSock
  simp only []
  split
  · rfl
  · simp only [newAttempt]; rfl

theorem connect_log (env : CryptoEnv) (o : Oracle) (c : Ctx) (l : List NAddr) : (connect env o c l).log = c.log := by
  unfold connect
  simp only []
  split
  · rfl
  · exact foldl_proj (·.log) _ (connectSock_log env o) _ _

theorem connect_panicked (env : CryptoEnv) (o : Oracle) (c : Ctx) (l : List NAddr) : (connect env o c l).panicked = c.panicked := by
  unfold connect
  simp only []
  split
  · rfl
  · exact foldl_proj (·.panicked) _ (connectSock_panicked env o) _ _

theorem reconnectToPeers_log (env : CryptoEnv) (o : Oracle) (c : Ctx) (now : Int) : (reconnectToPeers env o c now).log = c.log := by
  show (rcDial env o c now).log = c.log
  rw [rcDial_eq]
  refine foldl_proj (·.log) _ ?_ _ _
  intro c e
  unfold dialStep
  split
  · rfl
  · exact connect_log env o c _

theorem reconnectToPeers_panicked (env : CryptoEnv) (o : Oracle) (c : Ctx) (now : Int) :
    (reconnectToPeers env o c now).panicked = c.panicked := by
  show (rcDial env o c now).panicked = c.panicked
  rw [rcDial_eq]
  refine foldl_proj (·.panicked) _ ?_ _ _
  intro c e
  unfold dialStep
  split
  · rfl
  · exact connect_panicked env o c _

theorem reconnectToPeers_ext (env : CryptoEnv) (o : Oracle) (c : Ctx) (now : Int) : Ext IsHs c.outs (reconnectToPeers env o c now).outs := by
  show Ext IsHs c.outs (rcDial env o c now).outs
  rw [rcDial_eq]
  exact Ext.foldl _ (dialStep_ext env o now) _ _

theorem sendMsg_keys (o : Oracle) (c : Ctx) (a : NAddr) (ty : Nat) (body : Bytes) :
    ((sendMsg o c a ty body).getD c).node.peers.map (·.1) = c.node.peers.map (·.1) := by
  unfold sendMsg
  split
  · rfl
  · rename_i p hp
    simp only []
    split
    · simp only [Option.getD_some, send_node, addLog_node]
      exact insertA_keys_of_some _ _ _ _ hp
    · rfl

theorem broadcastMsg_keys (o : Oracle) (c : Ctx) (ty : Nat) (body : Bytes) :
    (broadcastMsg o c ty body).node.peers.map (·.1) = c.node.peers.map (·.1) := by
  unfold broadcastMsg
  exact foldl_proj (fun c => c.node.peers.map (·.1)) _ (fun c a => sendMsg_keys o c a ty body) _ _

theorem rcUpdate_next (peers : List (NAddr × Peer)) (now : Int) (e : Reconnect) :
    (rcUpdate peers now e).next ≤ max e.next (now + Generated.MAX_RECONNECT_INTERVAL) := by
  have h1 : 1 ≤ Generated.MAX_RECONNECT_INTERVAL := by decide
  unfold rcUpdate
  have clamp : ∀ t : Nat, (if Generated.backoffCapped t = true then Generated.MAX_RECONNECT_INTERVAL else t) ≤ Generated.MAX_RECONNECT_INTERVAL := by
    intro t; simp only [Generated.backoffCapped, decide_eq_true_eq]; split <;> omega
  generalize Generated.MAX_RECONNECT_INTERVAL = M at h1 clamp ⊢
  simp only []
  split
  · split
    · show now + 1 ≤ max e.next (now + (M : Int)); omega
    · dsimp only
      generalize (if Generated.backoffDoubles (0 + 1) = true then ((0 : Nat), 1 * 2) else (0 + 1, 1)).snd = t
      have := clamp t
      omega
  · split
    · omega
    · dsimp only
      generalize (if Generated.backoffDoubles (e.tries + 1) = true then ((0 : Nat), e.timeout * 2) else (e.tries + 1, e.timeout)).snd = t
      have := clamp t
      omega

/-! ## the pending handshakes before the dial loop of a housekeeping tick -/

theorem sendMsg_pending (o : Oracle) (c : Ctx) (a : NAddr) (ty : Nat) (body : Bytes) :
    ((sendMsg o c a ty body).getD c).node.pending = c.node.pending := by
  unfold sendMsg
  split
  · rfl
  · simp only []
    split <;> rfl

theorem broadcastMsg_pending (o : Oracle) (c : Ctx) (ty : Nat) (body : Bytes) :
    (broadcastMsg o c ty body).node.pending = c.node.pending := by
  unfold broadcastMsg
  exact foldl_proj (·.node.pending) _ (fun c a => sendMsg_pending o c a ty body) _ _

/-- the announcement step leaves reconnect list, own addresses and pending handshakes alone, and keeps the peer addresses -/
theorem hkAnnounce_rest (o : Oracle) (c : Ctx) (now : Int) :
    (hkAnnounce o c now).node.reconnect = c.node.reconnect ∧ (hkAnnounce o c now).node.own = c.node.own ∧
    (hkAnnounce o c now).node.pending = c.node.pending ∧
    (hkAnnounce o c now).node.peers.map (·.1) = c.node.peers.map (·.1) := by
  unfold hkAnnounce
  split
  · simp only []
    have hs := broadcastMsg_sched o c Generated.MESSAGE_TYPE_NODE_INFO (Codec.encodeNodeInfo (createNodeInfo c.node))
    have hp := broadcastMsg_pending o c Generated.MESSAGE_TYPE_NODE_INFO (Codec.encodeNodeInfo (createNodeInfo c.node))
    have hk := broadcastMsg_keys o c Generated.MESSAGE_TYPE_NODE_INFO (Codec.encodeNodeInfo (createNodeInfo c.node))
    have hr := sched_reconnect hs
    have ho := sched_own hs
    split
    · exact ⟨hr, ho, hp, hk⟩
    · exact ⟨hr, ho, hp, hk⟩
  · exact ⟨rfl, rfl, rfl, rfl⟩

/-- every address with a pending handshake satisfies `K`, and so does the mapped form of every peer address -/
def PendP (K : NAddr → Prop) (c : Ctx) : Prop := PendSub K c ∧ ∀ a, a ∈ c.node.peers.map (·.1) → K (mappedAddr a)

theorem PendP.erasePeer {K : NAddr → Prop} {c : Ctx} (h : PendP K c) (a : NAddr) (t : Table) :
    PendP K { c with node := { c.node with peers := eraseA c.node.peers a, table := t } } :=
  ⟨h.1, fun b hb => h.2 b (key_mem_eraseA hb)⟩

theorem PendP.insertPeer {K : NAddr → Prop} {c : Ctx} (h : PendP K c) {a : NAddr} {p q : Peer} (hp : lookupA c.node.peers a = some p) :
    PendP K { c with node := { c.node with peers := insertA c.node.peers a q } } := by
  refine ⟨h.1, fun b hb => ?_⟩
  have : b ∈ (insertA c.node.peers a q).map (·.1) := hb
  rw [insertA_keys_of_some _ _ _ _ hp] at this
  exact h.2 b this

theorem connectSock_pendP (env : CryptoEnv) (o : Oracle) (K : NAddr → Prop) (c : Ctx) (a : NAddr) (h : PendP K c)
    (ha : K (mappedAddr a)) : PendP K (connectSock env o c a) :=
  ⟨connectSock_pendSub env o K c a h.1 ha, by rw [connectSock_peers]; exact h.2⟩

theorem hkDead_pendP (env : CryptoEnv) (o : Oracle) (K : NAddr → Prop) (n : Node) (now : Int) (h : PendP K { node := n }) :
    PendP K (hkDead env o n now) := by
  unfold hkDead
  apply foldl_inv_mem (PendP K) _ _ _ _ h
  intro c a ha hc
  apply connectSock_pendP env o K _ a (hc.erasePeer a _)
  apply h.2
  obtain ⟨x, hx, rfl⟩ := List.mem_map.1 ha
  exact List.mem_map.2 ⟨x, (List.mem_filter.1 hx).1, rfl⟩

theorem cryptoHousekeep_pendP (env : CryptoEnv) (o : Oracle) (K : NAddr → Prop) (c : Ctx) (now : Int) (h : PendP K c) :
    PendP K (cryptoHousekeep env o c now) := by
  unfold cryptoHousekeep
  apply foldl_inv (PendP K)
  · intro c a hc
    split
    · exact hc
    · rename_i p hp
      split
      split
      · apply connectSock_pendP env o K _ a (hc.erasePeer a _)
        exact hc.2 a (mem_key (lookupA_some_mem hp))
      · exact hc
      · rename_i pc' out res log _
        have hins : PendP K (addLog log { c with node := { c.node with peers := insertA c.node.peers a { p with crypto := pc' } } }) :=
          hc.insertPeer hp
        split
        · exact hins
        · exact hins
  · apply foldl_inv (PendP K)
    · intro c a hc
      split
      · exact hc
      · rename_i pc hp
        split
        split
        · exact ⟨fun b hb => hc.1 b (key_mem_eraseA hb), hc.2⟩
        · exact hc
        · rename_i pc' out res log _
          have hins : PendP K (addLog log { c with node := { c.node with pending := insertA c.node.pending a pc' } }) := by
            refine ⟨fun b hb => ?_, hc.2⟩
            have : b ∈ (insertA c.node.pending a pc').map (·.1) := hb
            rw [insertA_keys_of_some _ _ _ _ hp] at this
            exact hc.1 b this
          split
          · exact hins
          · exact hins
    · exact h

/-- the context in which the dial loop of a housekeeping tick runs -/
def preReconnect (env : CryptoEnv) (o : Oracle) (n : Node) (now : Int) : Ctx := hkAnnounce o (preAnnounce env o n now) now

theorem housekeep_eq'' (env : CryptoEnv) (o : Oracle) (n : Node) (now : Int) :
    housekeep env o n now = hkOwn (reconnectToPeers env o (preReconnect env o n now) now) now := rfl

theorem preReconnect_pendP (env : CryptoEnv) (o : Oracle) (K : NAddr → Prop) (n : Node) (now : Int) (h : PendP K { node := n }) :
    PendP K (preReconnect env o n now) := by
  have h3 : PendP K (preAnnounce env o n now) := by
    unfold preAnnounce
    apply cryptoHousekeep_pendP
    exact hkDead_pendP env o K n now h
  obtain ⟨_, _, hp, hk⟩ := hkAnnounce_rest o (preAnnounce env o n now) now
  unfold preReconnect
  refine ⟨fun b hb => h3.1 b (by rw [← hp]; exact hb), fun b hb => h3.2 b (by rw [← hk]; exact hb)⟩

theorem preReconnect_reconnect_own (env : CryptoEnv) (o : Oracle) (n : Node) (now : Int) :
    (preReconnect env o n now).node.reconnect = n.reconnect ∧ (preReconnect env o n now).node.own = n.own := by
  obtain ⟨h1, h2, _, _⟩ := hkAnnounce_rest o (preAnnounce env o n now) now
  have hs := preAnnounce_sched env o n now
  unfold preReconnect
  exact ⟨h1.trans (sched_reconnect hs), h2.trans (sched_own hs)⟩

/-! ## message handling and the schedule of the announcement: only a completed handshake (`add_new_peer`) touches `next_peers`,
    and it can only pull it forward to `now` -/

theorem connectToPeers_nextPeers (env : CryptoEnv) (o : Oracle) (c : Ctx) (l : List PeerInfo) :
    (connectToPeers env o c l).node.nextPeers = c.node.nextPeers := by
  unfold connectToPeers
  refine foldl_proj (·.node.nextPeers) _ ?_ _ _
  intro c p
  simp only []
  split
  · rfl
  · split
    · split
      · rfl
      · split
        · rfl
        · exact sched_nextPeers (connect_sched env o c _)
    · exact sched_nextPeers (connect_sched env o c _)

theorem updatePeerInfo_nextPeers (env : CryptoEnv) (o : Oracle) (c : Ctx) (now : Int) (a : NAddr) (info : Option NodeInfo) :
    (updatePeerInfo env o c now a info).node.nextPeers = c.node.nextPeers := by
  unfold updatePeerInfo
  simp only []
  split
  · rfl
  · cases info with
    | none => rfl
    | some i => simp only []; rw [connectToPeers_nextPeers]

theorem removePeer_nextPeers (c : Ctx) (now : Int) (a : NAddr) : (removePeer c now a).node.nextPeers = c.node.nextPeers := by
  unfold removePeer
  simp only []
  split <;> rfl

/-- what a step of the message handling for the address `s` does to the announcement schedule: nothing — and then no address joins
    the peer list —, or the schedule is pulled forward to `now` — and then `s` is a peer afterwards -/
def SchedStep (now : Int) (s : NAddr) (c c' : Ctx) : Prop :=
  (c'.node.nextPeers = c.node.nextPeers ∧ ∀ b, b ∈ c'.node.peers.map (·.1) → b ∈ c.node.peers.map (·.1)) ∨
  (c'.node.nextPeers = min c.node.nextPeers now ∧ s ∈ c'.node.peers.map (·.1))

theorem SchedStep.same {now : Int} {s : NAddr} {c c' : Ctx} (h1 : c'.node.nextPeers = c.node.nextPeers)
    (h2 : c'.node.peers.map (·.1) = c.node.peers.map (·.1)) : SchedStep now s c c' :=
  Or.inl ⟨h1, fun _ hb => h2 ▸ hb⟩

theorem SchedStep.refl (now : Int) (s : NAddr) (c : Ctx) : SchedStep now s c c := SchedStep.same rfl rfl

/-- a step before that leaves the schedule and the peer addresses alone -/
theorem SchedStep.pre {now : Int} {s : NAddr} {c0 c c' : Ctx} (h : SchedStep now s c c') (h1 : c.node.nextPeers = c0.node.nextPeers)
    (h2 : c.node.peers.map (·.1) = c0.node.peers.map (·.1)) : SchedStep now s c0 c' := by
  rcases h with ⟨ha, hb⟩ | ⟨ha, hb⟩
  · exact Or.inl ⟨ha.trans h1, fun b hm => h2 ▸ hb b hm⟩
  · exact Or.inr ⟨by rw [ha, h1], hb⟩

/-- a step after that leaves the node alone -/
theorem SchedStep.of_node {now : Int} {s : NAddr} {c c' c'' : Ctx} (h : SchedStep now s c c') (hn : c''.node = c'.node) :
    SchedStep now s c c'' := by
  unfold SchedStep
  rw [hn]
  exact h

theorem addNewPeer_schedStep (env : CryptoEnv) (o : Oracle) (c : Ctx) (now : Int) (a : NAddr) (info : NodeInfo) :
    SchedStep now a c (addNewPeer env o c now a info) := by
  unfold addNewPeer
  simp only []
  split
  · exact SchedStep.refl now a c
  · refine Or.inr ⟨?_, ?_⟩
    · show min (updatePeerInfo env o _ now a (some info)).node.nextPeers now = _
      rw [updatePeerInfo_nextPeers]
    · show a ∈ (updatePeerInfo env o _ now a (some info)).node.peers.map (·.1)
      rw [updatePeerInfo_keys]
      exact mem_key (lookupA_some_mem (lookupA_insertA_self _ _ _))

/-- `add_new_peer` with a pending handshake object: the next announcement is due at once -/
theorem addNewPeer_nextPeers (env : CryptoEnv) (o : Oracle) (c : Ctx) (now : Int) (a : NAddr) (info : NodeInfo) (pc : PeerCrypto)
    (hp : lookupA c.node.pending a = some pc) :
    (addNewPeer env o c now a info).node.nextPeers = min c.node.nextPeers now := by
  unfold addNewPeer
  simp only [hp]
  rw [updatePeerInfo_nextPeers]

/-- … and without one (the `else` branch of `add_new_peer`) nothing changes -/
theorem addNewPeer_none (env : CryptoEnv) (o : Oracle) (c : Ctx) (now : Int) (a : NAddr) (info : NodeInfo)
    (hp : lookupA c.node.pending a = none) : addNewPeer env o c now a info = c := by
  unfold addNewPeer
  simp only [hp]

theorem removePeer_keys_sub (c : Ctx) (now : Int) (a : NAddr) (b : NAddr) (hb : b ∈ (removePeer c now a).node.peers.map (·.1)) :
    b ∈ c.node.peers.map (·.1) := by
  unfold removePeer at hb
  simp only [] at hb
  split at hb
  · exact hb
  · exact key_mem_eraseA hb

theorem handleResult_schedStep (env : CryptoEnv) (o : Oracle) (c : Ctx) (now : Int) (s : NAddr) (res : MsgResult) (out : Bytes) :
    SchedStep now s c (handleResult env o c now s res out).1 := by
  unfold handleResult
  cases res with
  | message ty data =>
    simp only []
    split
    · split
      · exact SchedStep.refl ..
      · split
        · exact SchedStep.same rfl rfl
        · exact SchedStep.same rfl rfl
    · split
      · split
        · exact SchedStep.same rfl rfl
        · exact SchedStep.same (updatePeerInfo_nextPeers ..) (updatePeerInfo_keys ..)
      · split
        · exact SchedStep.same (updatePeerInfo_nextPeers ..) (updatePeerInfo_keys ..)
        · split
          · exact Or.inl ⟨removePeer_nextPeers .., removePeer_keys_sub c now s⟩
          · exact SchedStep.same rfl rfl
  | initialized payload =>
    simp only []
    split
    · exact addNewPeer_schedStep ..
    · exact SchedStep.refl ..
  | initializedWithReply payload =>
    simp only []
    split
    · exact (addNewPeer_schedStep env o c now s _).of_node rfl
    · exact SchedStep.refl ..
  | reply => exact SchedStep.same rfl rfl
  | none => exact SchedStep.refl ..

/-- results of datagrams without the handshake marker leave the schedule alone -/
theorem handleResult_nextPeers_plain (env : CryptoEnv) (o : Oracle) (c : Ctx) (now : Int) (s : NAddr) (res : MsgResult) (out : Bytes)
    (hres : PlainRes res) : (handleResult env o c now s res out).1.node.nextPeers = c.node.nextPeers := by
  rcases hres with rfl | ⟨ty, data, rfl⟩
  · rfl
  · unfold handleResult
    simp only []
    split
    · split
      · rfl
      · split <;> rfl
    · split
      · split
        · rfl
        · exact updatePeerInfo_nextPeers ..
      · split
        · exact updatePeerInfo_nextPeers ..
        · split
          · exact removePeer_nextPeers ..
          · rfl

theorem storePc_nextPeers (c : Ctx) (s : NAddr) (inPeers : Bool) (pc : PeerCrypto) :
    (storePc c s inPeers pc).node.nextPeers = c.node.nextPeers := by
  unfold storePc
  simp only []
  split
  · split <;> rfl
  · rfl

theorem storePc_keys' (c : Ctx) (s : NAddr) (inPeers : Bool) (pc : PeerCrypto) :
    (storePc c s inPeers pc).node.peers.map (·.1) = c.node.peers.map (·.1) := by
  cases inPeers with
  | true => exact storePc_peers_keys c s pc
  | false => rfl

theorem applyOutcome_schedStep (env : CryptoEnv) (o : Oracle) (c : Ctx) (now : Int) (s : NAddr) (inPeers : Bool) (r : POutcome MsgResult) :
    SchedStep now s c (applyOutcome env o c now s inPeers r).1 := by
  rw [applyOutcome_eq]
  cases r with
  | panic => exact SchedStep.same rfl rfl
  | err pc e => exact SchedStep.same (storePc_nextPeers c s inPeers pc) (storePc_keys' c s inPeers pc)
  | ok pc out res log =>
    simp only []
    exact (handleResult_schedStep env o _ now s res out).pre (storePc_nextPeers c s inPeers pc) (storePc_keys' c s inPeers pc)

theorem applyOutcome_nextPeers_plain (env : CryptoEnv) (o : Oracle) (c : Ctx) (now : Int) (s : NAddr) (inPeers : Bool) (r : POutcome MsgResult)
    (hr : ∀ pc out res log, r = .ok pc out res log → PlainRes res) :
    (applyOutcome env o c now s inPeers r).1.node.nextPeers = c.node.nextPeers := by
  rw [applyOutcome_eq]
  cases r with
  | panic => rfl
  | err pc e => exact storePc_nextPeers c s inPeers pc
  | ok pc out res log =>
    simp only []
    rw [handleResult_nextPeers_plain env o _ now s res out (hr pc out res log rfl)]
    exact storePc_nextPeers c s inPeers pc

theorem responder_schedStep (env : CryptoEnv) (bodyOf : Init.BodyOf) (o : Oracle) (n : Node) (now : Int) (s : NAddr) (data tail : Bytes)
    (rnd : Rand) (rr : RotRand) (hash : Option Bytes) :
    SchedStep now s { node := n } (responder env bodyOf o n now s data tail rnd rr hash).1 := by
  unfold responder
  simp only []
  split
  · exact (handleResult_schedStep env o _ now s _ _).pre rfl rfl
  · exact SchedStep.same rfl rfl
  · exact SchedStep.same rfl rfl

theorem finish_nextPeers (s : NAddr) (r : Ctx × Option InitErr) : (finish s r).1.node.nextPeers = r.1.node.nextPeers := by
  unfold finish; split <;> rfl

/-- a datagram either leaves the schedule alone and adds no peer address, or pulls the schedule forward to `now`, and then its sender
    is a peer afterwards -/
theorem handleNet_schedStep (env : CryptoEnv) (bodyOf : Init.BodyOf) (o : Oracle) (n : Node) (now : Int) (src0 : NAddr) (data tail : Bytes) :
    SchedStep now (mappedAddr src0) { node := n } (handleNet env bodyOf o n now src0 data tail).1 := by
  rw [handleNet_eq]
  have hd : SchedStep now (mappedAddr src0) { node := n } (dispatch env bodyOf o n now (mappedAddr src0) data tail).1 := by
    unfold dispatch
    simp only []
    split
    · split
      · exact applyOutcome_schedStep ..
      · split
        · exact applyOutcome_schedStep ..
        · split
          · exact applyOutcome_schedStep ..
          · exact responder_schedStep ..
    · exact applyOutcome_schedStep ..
    · split
      · exact responder_schedStep ..
      · exact SchedStep.same rfl rfl
  unfold SchedStep
  rw [finish_nextPeers, finish_peers]
  exact hd

/-- a datagram without the handshake marker does not reschedule the announcement -/
theorem handleNet_nextPeers_plain (env : CryptoEnv) (bodyOf : Init.BodyOf) (o : Oracle) (n : Node) (now : Int) (src0 : NAddr) (data tail : Bytes)
    (hinit : data.head? ≠ some Generated.INIT_MESSAGE_FIRST_BYTE) :
    (handleNet env bodyOf o n now src0 data tail).1.node.nextPeers = n.nextPeers := by
  rw [handleNet_eq, finish_nextPeers]
  have hpl : ∀ pc, ∀ pc' out res log, PeerCrypto.handleMessage env bodyOf payloadOk pc data tail
      (rndFor o { node := n } (mappedAddr src0)).1 (rndFor o { node := n } (mappedAddr src0)).2.1 = .ok pc' out res log → PlainRes res :=
    fun pc pc' out res log h => handleMessage_plain env bodyOf payloadOk pc data tail _ _ hinit pc' out res log h
  unfold dispatch
  simp only [hinit, decide_false, Bool.not_false, if_true, if_false]
  split
  · exact applyOutcome_nextPeers_plain env o _ now _ _ _ (hpl _)
  · exact applyOutcome_nextPeers_plain env o _ now _ _ _ (hpl _)
  · rfl

/-- `add_new_peer` stores the new peer with expiry `now + peer_timeout` (own setting) and the timeout it advertised (default 300) -/
theorem addNewPeer_peer (env : CryptoEnv) (o : Oracle) (c : Ctx) (now : Int) (a : NAddr) (info : NodeInfo) (pc : PeerCrypto)
    (hp : lookupA c.node.pending a = some pc) :
    ∃ p, lookupA (addNewPeer env o c now a info).node.peers a = some p ∧ p.timeout = now + c.node.cfg.peerTimeout ∧
      p.peerTimeout = info.peerTimeout.getD Generated.DEFAULT_PEER_TIMEOUT ∧ p.crypto = pc ∧ p.nodeId = info.nodeId := by
  unfold addNewPeer
  simp only [hp]
  rw [updatePeerInfo_peers env o _ now a (some info) _ (lookupA_insertA_self _ _ _)]
  rw [lookupA_insertA_self]
  exact ⟨_, rfl, rfl, rfl, rfl, rfl⟩

/-! ## outputs only grow during a housekeeping tick; the expired peer is dialled again -/

/-- `c'` has all outputs of `c` (and possibly more) -/
def Grows (c c' : Ctx) : Prop := Ext (fun _ => True) c.outs c'.outs

theorem Grows.refl (c : Ctx) : Grows c c := Ext.refl _ _
theorem Grows.trans {c1 c2 c3 : Ctx} (h1 : Grows c1 c2) (h2 : Grows c2 c3) : Grows c1 c3 := Ext.trans h1 h2
theorem Grows.of_ext {P : Out → Prop} {c c' : Ctx} (h : Ext P c.outs c'.outs) : Grows c c' := h.mono (fun _ _ => trivial)
theorem Grows.of_eq {c c' : Ctx} (h : c'.outs = c.outs) : Grows c c' := Ext.of_eq h
theorem Grows.mem {c c' : Ctx} (h : Grows c c') {x : Out} (hx : x ∈ c.outs) : x ∈ c'.outs := by
  obtain ⟨ex, he, _⟩ := h
  rw [he]; exact List.mem_append_left _ hx
theorem Grows.foldl {β} (f : Ctx → β → Ctx) (hf : ∀ c x, Grows c (f c x)) : ∀ (l : List β) (c : Ctx), Grows c (l.foldl f c) :=
  Ext.foldl f hf

theorem sendMsg_grows (o : Oracle) (c : Ctx) (a : NAddr) (ty : Nat) (body : Bytes) : Grows c ((sendMsg o c a ty body).getD c) := by
  obtain ⟨e0, _, h, _⟩ := sendMsg_step o c a ty body
  exact ⟨e0, h, fun _ _ => trivial⟩

theorem broadcastMsg_grows (o : Oracle) (c : Ctx) (ty : Nat) (body : Bytes) : Grows c (broadcastMsg o c ty body) := by
  unfold broadcastMsg
  exact Grows.foldl _ (fun c a => sendMsg_grows o c a ty body) _ _

theorem hkAnnounce_grows (o : Oracle) (c : Ctx) (now : Int) : Grows c (hkAnnounce o c now) := by
  unfold hkAnnounce
  split
  · simp only []
    have hb := broadcastMsg_grows o c Generated.MESSAGE_TYPE_NODE_INFO (Codec.encodeNodeInfo (createNodeInfo c.node))
    split
    · exact hb
    · exact hb
  · exact Grows.refl c

theorem cryptoHousekeep_grows (env : CryptoEnv) (o : Oracle) (c : Ctx) (now : Int) : Grows c (cryptoHousekeep env o c now) := by
  unfold cryptoHousekeep
  refine Grows.trans (Grows.foldl _ ?_ _ _) (Grows.foldl _ ?_ _ _)
  · intro c a
    split
    · exact Grows.refl c
    · split
      split
      · exact Grows.refl c
      · exact Grows.refl c
      · split
        · exact Ext.snoc _ trivial
        · exact Grows.refl c
  · intro c a
    split
    · exact Grows.refl c
    · split
      split
      · exact Grows.of_ext (connectSock_ext env o _ a)
      · exact Grows.refl c
      · split
        · exact Ext.snoc _ trivial
        · exact Grows.refl c

/-- one step of the first loop of `housekeep` -/
def deadStep (env : CryptoEnv) (o : Oracle) (now : Int) (c : Ctx) (a : NAddr) : Ctx :=
  connectSock env o { c with node := { c.node with peers := eraseA c.node.peers a, table := c.node.table.removeClaims now (addrId a) } } a

theorem hkDead_eq (env : CryptoEnv) (o : Oracle) (n : Node) (now : Int) :
    hkDead env o n now = ((n.peers.filter (fun (_, p) => Generated.peerExpired p.timeout now)).map (·.1)).foldl (deadStep env o now) { node := n } := rfl

theorem deadStep_grows (env : CryptoEnv) (o : Oracle) (now : Int) (c : Ctx) (a : NAddr) : Grows c (deadStep env o now c a) :=
  Grows.of_ext (connectSock_ext env o _ a)

theorem deadStep_own (env : CryptoEnv) (o : Oracle) (now : Int) (c : Ctx) (a : NAddr) : (deadStep env o now c a).node.own = c.node.own := by
  unfold deadStep; rw [connectSock_own]

theorem deadStep_pendSub (env : CryptoEnv) (o : Oracle) (now : Int) (K : NAddr → Prop) (c : Ctx) (a : NAddr) (h : PendSub K c)
    (ha : K (mappedAddr a)) : PendSub K (deadStep env o now c a) :=
  connectSock_pendSub env o K _ a h ha

/-- the expired peer is dialled again in the first loop -/
theorem hkDead_redials (env : CryptoEnv) (o : Oracle) (n : Node) (now : Int) (a : NAddr) (p : Peer)
    (hnd : (n.peers.map (·.1)).Nodup) (hmapped : ∀ b ∈ n.peers.map (·.1), mappedAddr b = b)
    (hp : lookupA n.peers a = some p) (hexp : p.timeout < now)
    (hown : n.own.contains a = false) (hpend : lookupA n.pending a = none) :
    HsTo a (hkDead env o n now).outs := by
  rw [hkDead_eq]
  generalize hdead : (n.peers.filter (fun (_, p) => Generated.peerExpired p.timeout now)).map (·.1) = dead
  have hsub : dead.Sublist (n.peers.map (·.1)) := by rw [← hdead]; exact List.Sublist.map _ List.filter_sublist
  have hdnd : dead.Nodup := List.Nodup.sublist hsub hnd
  have hmem : a ∈ dead := by
    rw [← hdead]
    exact List.mem_map.2 ⟨(a, p), List.mem_filter.2 ⟨lookupA_some_mem hp, by simpa using hexp⟩, rfl⟩
  obtain ⟨pre, post, hsplit⟩ := List.append_of_mem hmem
  rw [hsplit] at hdnd hsub
  have hapre : a ∉ pre := by
    intro h
    have := (List.nodup_append.1 hdnd).2.2 a h a (List.mem_cons_self ..)
    exact this rfl
  rw [hsplit, List.foldl_append, List.foldl_cons]
  generalize hcp : pre.foldl (deadStep env o now) { node := n } = cp
  have hown' : cp.node.own = n.own := by
    rw [← hcp]; exact foldl_proj (·.node.own) _ (deadStep_own env o now) _ _
  have hpend' : PendSub (fun b => b ∈ n.pending.map (·.1) ∨ b ∈ pre) cp := by
    rw [← hcp]
    apply foldl_inv_mem (PendSub _) _ _ _ _ (fun b hb => Or.inl hb)
    intro c' x hx hc'
    apply deadStep_pendSub env o now _ c' x hc'
    right
    rw [hmapped x (hsub.subset (List.mem_append_left _ hx))]
    exact hx
  have hma : mappedAddr a = a := hmapped a (mem_key (lookupA_some_mem hp))
  obtain ⟨pc, b, hc⟩ := connectSock_fresh env o
    { cp with node := { cp.node with peers := eraseA cp.node.peers a, table := cp.node.table.removeClaims now (addrId a) } } a hma
    (by show cp.node.own.contains a = false; rw [hown']; exact hown)
    (lookupA_eraseA_self _ _)
    (by
      show lookupA cp.node.pending a = none
      rw [lookupA_none_iff]
      intro hm
      rcases hpend' a hm with h | h
      · exact (lookupA_none_iff _ _).1 hpend h
      · exact hapre h)
  have hstep : HsTo a (deadStep env o now cp a).outs := by
    unfold deadStep
    rw [hc]
    exact ⟨b, by simp⟩
  exact hstep.mono (fun x hx => (Grows.foldl _ (deadStep_grows env o now) post _).mem hx)

end VpnCloud.Proofs.C15MoreLemmas
