import VpnCloud.Model.Range
import VpnCloud.Spec.C11
/-
  Helper lemmas: the byte-wise xor / leading-zeros loop of `Range::matches` computes the length of
  the common bit prefix.
-/
namespace VpnCloud.Proofs.RangeBits
open VpnCloud VpnCloud.Range VpnCloud.Spec.C11

/-- length of the common prefix of two bit lists -/
def cpl : List Bool → List Bool → Nat
  | a :: as, b :: bs => if a = b then 1 + cpl as bs else 0
  | _, _ => 0

def leadingFalse : List Bool → Nat
  | false :: r => 1 + leadingFalse r
  | _ => 0

theorem lz8_bits : ∀ m < 256, lz8 m = leadingFalse (bits8 m) ∧ (m = 0 ↔ leadingFalse (bits8 m) = 8) := by
  decide +kernel

theorem bits8_xor (a b : Nat) : bits8 (a ^^^ b) = List.zipWith Bool.xor (bits8 a) (bits8 b) := by
  simp only [bits8, Nat.testBit_xor, List.zipWith_cons_cons, List.zipWith_nil_left]

theorem cpl_eq (x y : List Bool) : cpl x y = leadingFalse (List.zipWith Bool.xor x y) := by
  induction x generalizing y with
  | nil => simp [cpl, leadingFalse]
  | cons a as ih =>
    cases y with
    | nil => simp [cpl, leadingFalse]
    | cons b bs =>
      cases a <;> cases b <;> simp [cpl, leadingFalse, ih]

theorem xor_lt (a b : Nat) (ha : a < 256) (hb : b < 256) : a ^^^ b < 256 :=
  Nat.xor_lt_two_pow (n := 8) ha hb

theorem xor_eq_zero {a b : Nat} (h : a ^^^ b = 0) : a = b := by
  have : a ^^^ (a ^^^ b) = b := by rw [← Nat.xor_assoc, Nat.xor_self, Nat.zero_xor]
  rw [h, Nat.xor_zero] at this; exact this

/-- per byte: leading zeros of the xor = common bit prefix of the two bytes -/
theorem lz8_xor (a b : Nat) (ha : a < 256) (hb : b < 256) :
    lz8 (a ^^^ b) = cpl (bits8 a) (bits8 b) := by
  rw [cpl_eq, ← bits8_xor]; exact (lz8_bits _ (xor_lt a b ha hb)).1

theorem bits8_length (a : Nat) : (bits8 a).length = 8 := rfl

theorem cpl_le_left (x y : List Bool) : cpl x y ≤ x.length := by
  induction x generalizing y with
  | nil => simp [cpl]
  | cons a as ih =>
    cases y with
    | nil => simp [cpl]
    | cons b bs => simp only [cpl]; split <;> simp <;> have := ih bs <;> omega

theorem cpl_self (x : List Bool) : cpl x x = x.length := by
  induction x with
  | nil => rfl
  | cons a as ih => simp [cpl, ih]; omega

/-- common prefix of concatenations when the heads have equal length -/
theorem cpl_append (x y x' y' : List Bool) (h : x.length = y.length) :
    cpl (x ++ x') (y ++ y') = if cpl x y = x.length then x.length + cpl x' y' else cpl x y := by
  induction x generalizing y with
  | nil =>
    cases y with
    | nil => simp [cpl]
    | cons _ _ => simp at h
  | cons a as ih =>
    cases y with
    | nil => simp at h
    | cons b bs =>
      simp only [List.length_cons, Nat.add_right_cancel_iff] at h
      simp only [List.cons_append, cpl, List.length_cons]
      by_cases hab : a = b
      · simp only [hab, if_true, ih bs h]
        have := cpl_le_left as bs
        split <;> split <;> omega
      · simp [hab]

theorem cpl_eq_length_iff (x y : List Bool) (h : x.length = y.length) : cpl x y = x.length ↔ x = y := by
  induction x generalizing y with
  | nil => cases y <;> simp_all [cpl]
  | cons a as ih =>
    cases y with
    | nil => simp at h
    | cons b bs =>
      simp only [List.length_cons, Nat.add_right_cancel_iff] at h
      simp only [cpl, List.length_cons]
      by_cases hab : a = b
      · simp only [hab, if_true, List.cons.injEq, true_and]
        rw [← ih bs h]; omega
      · simp [hab]

theorem bits8_inj {a b : Nat} (ha : a < 256) (hb : b < 256) (h : bits8 a = bits8 b) : a = b := by
  apply xor_eq_zero
  have hx := (lz8_bits _ (xor_lt a b ha hb)).2
  rw [hx, bits8_xor, ← cpl_eq, h, cpl_self]; rfl

/-- **the loop computes the common bit prefix** -/
theorem matchLen_eq_cpl (a b : Bytes) (ha : Bytes.WF a) (hb : Bytes.WF b) (hl : a.length = b.length) :
    matchLen a b = cpl (bitsOf a) (bitsOf b) := by
  induction a generalizing b with
  | nil => cases b <;> simp [matchLen, bitsOf, cpl]
  | cons x xs ih =>
    cases b with
    | nil => simp at hl
    | cons y ys =>
      simp only [List.length_cons, Nat.add_right_cancel_iff] at hl
      rw [Bytes.wf_cons] at ha hb
      simp only [matchLen, bitsOf, List.flatMap_cons]
      rw [cpl_append _ _ _ _ (by simp [bits8_length])]
      have hxy := lz8_xor x y ha.1 hb.1
      have hih := ih ys ha.2 hb.2 hl
      simp only [bitsOf] at hih
      by_cases hm : x ^^^ y = 0
      · have : x = y := xor_eq_zero hm
        subst this
        simp only [hm, ne_eq, not_true_eq_false, if_false, cpl_self, if_true, hih, bits8_length]
        rfl
      · have hne : ¬ cpl (bits8 x) (bits8 y) = (bits8 x).length := by
          intro h
          have := (cpl_eq_length_iff _ _ (by simp [bits8_length])).1 h
          have := bits8_inj ha.1 hb.1 this
          subst this; simp at hm
        simp only [hm, ne_eq, not_false_eq_true, if_true, hne, if_false, hxy]

theorem bitsOf_length (a : Bytes) : (bitsOf a).length = 8 * a.length := by
  induction a with
  | nil => rfl
  | cons x xs ih => simp only [bitsOf, List.flatMap_cons, List.length_append, bits8_length] at *; simp [ih]; omega

/-- common prefix ≥ p ⇔ the first p bits exist and agree -/
theorem cpl_ge_iff (x y : List Bool) (p : Nat) (h : x.length = y.length) :
    cpl x y ≥ p ↔ (p ≤ x.length ∧ x.take p = y.take p) := by
  induction x generalizing y p with
  | nil => cases y <;> cases p <;> simp_all [cpl]
  | cons a as ih =>
    cases y with
    | nil => simp at h
    | cons b bs =>
      simp only [List.length_cons, Nat.add_right_cancel_iff] at h
      cases p with
      | zero => simp
      | succ p =>
        simp only [cpl, List.length_cons, List.take_succ_cons, List.cons.injEq]
        by_cases hab : a = b
        · simp only [hab, if_true, true_and]
          have := ih bs p h
          constructor
          · intro hp
            have := this.1 (by omega)
            exact ⟨by omega, this.2⟩
          · intro hp
            have := this.2 ⟨by omega, hp.2⟩
            omega
        · simp [hab]

end VpnCloud.Proofs.RangeBits
