import VpnCloud.Model.Node
import VpnCloud.Proofs.Lemmas.NodeLemmas
import VpnCloud.Proofs.Lemmas.NodeLemmas2
import VpnCloud.Proofs.Lemmas.NodeInvLemmas
import VpnCloud.Proofs.Lemmas.TableLemmas
import VpnCloud.Proofs.C02
/-
  Helper lemmas for `Proofs/C09More.lean` (established connections survive forged and replayed traffic):

  * association lists: `lookupA` under `insertA` / `eraseA` of a different key,
  * the claims attributed to one peer under the table operations a datagram of ANOTHER peer can trigger,
  * a generic traversal of `handle_net_message` for a property of (peer list, table) that operations
    on behalf of the sender `src` cannot disturb (`Pres`),
  * the session layer: errors for datagrams without the handshake marker, what a session object
    looks like after such an error, a handshake object in the initial stage never completes on one message,
  * `crypto_housekeep` in two loops (`pendLoop`, `peerLoop`) and the expiry of one peer under `housekeep`.
-/
namespace VpnCloud.Proofs.C09MoreLemmas

open VpnCloud VpnCloud.Node
open VpnCloud.Proofs.NodeLemmas VpnCloud.Proofs.NodeLemmas2 VpnCloud.Proofs.NodeInvLemmas VpnCloud.Proofs.InitLemmas

/-! ## association lists -/

theorem find?_map_ne {α} (l : List (NAddr × α)) {a s : NAddr} (v : α) (h : a ≠ s) :
    (l.map (fun p => if p.1 = s then (s, v) else p)).find? (fun p => p.1 = a) = l.find? (fun p => p.1 = a) := by
  have hsa : ¬ s = a := fun hsa => h hsa.symm
  induction l with
  | nil => rfl
  | cons x l ih =>
    obtain ⟨k, w⟩ := x
    by_cases hx : k = s
    · subst hx
      have hxa : ¬ k = a := fun hxa => h hxa.symm
      simp only [List.map_cons, if_true, List.find?_cons, hxa, decide_false]
      exact ih
    · by_cases hxa : k = a
      · subst hxa
        simp only [List.map_cons, hx, if_false, List.find?_cons, decide_true]
      · simp only [List.map_cons, hx, if_false, List.find?_cons, hxa, decide_false]
        exact ih

theorem lookupA_insertA_ne {α} (l : List (NAddr × α)) {a s : NAddr} (v : α) (h : a ≠ s) :
    lookupA (insertA l s v) a = lookupA l a := by
  unfold insertA
  split
  · unfold lookupA
    rw [find?_map_ne l v h]
  · unfold lookupA
    have hsa : ¬ s = a := fun hsa => h hsa.symm
    rw [List.find?_append]
    simp [hsa]

/-! ## the claims attributed to one peer -/

/-- the claims the table attributes to the peer `pid`, in table order -/
def claimsOf (pid : PeerId) (t : Table) : List ClaimEntry := t.claims.filter (fun e => e.peer = pid)

/-- the sweep of `ClaimTable::housekeep` -/
def sweep (now : Int) (l : List ClaimEntry) : List ClaimEntry := l.filter (fun e => e.timeout ≥ now)

theorem sweep_sweep (now : Int) (l : List ClaimEntry) : sweep now (sweep now l) = sweep now l := by
  unfold sweep
  rw [List.filter_filter]
  congr 1
  funext e
  simp

theorem claimsOf_housekeep (pid : PeerId) (t : Table) (now : Int) : claimsOf pid (t.housekeep now) = sweep now (claimsOf pid t) := by
  unfold claimsOf sweep Table.housekeep
  simp only [List.filter_filter]
  congr 1
  funext e
  exact Bool.and_comm _ _

theorem claimsOf_learn (pid : PeerId) (t : Table) (now : Int) (addr : Addr) (q : PeerId) : claimsOf pid (t.learn now addr q) = claimsOf pid t := rfl

/-- the first loop of `set_claims` for the peer `q` keeps the entries of another peer `pid`, in order -/
theorem loop_filter_other (q pid : PeerId) (fresh : Int) (hne : q ≠ pid) (es : List ClaimEntry) (cs : List Range) (rm : Bool) :
    (Table.setClaimsLoop q fresh es cs rm).1.filter (fun e => e.peer = pid) = es.filter (fun e => e.peer = pid) := by
  induction es generalizing cs rm with
  | nil => rfl
  | cons e es ih =>
    rw [TableLemmas.loop_cons]
    split
    · rename_i hp
      have hep : ¬ e.peer = pid := fun h => hne (hp.symm.trans h)
      split
      · simpa [hep] using ih _ _
      · simpa [hep] using ih _ _
    · by_cases hep : e.peer = pid
      · simpa [hep] using ih _ _
      · simpa [hep] using ih _ _

theorem claimsOf_setClaims (pid q : PeerId) (hne : q ≠ pid) (t : Table) (now : Int) (cs : List Range) :
    claimsOf pid (t.setClaims now q cs) = sweep now (claimsOf pid t) := by
  unfold Table.setClaims
  simp only []
  rw [claimsOf_housekeep]
  congr 1
  unfold claimsOf
  simp only [List.filter_append, loop_filter_other q pid _ hne]
  rw [List.filter_map]
  have : List.filter ((fun e : ClaimEntry => decide (e.peer = pid)) ∘ fun c => ({ peer := q, claim := c, timeout := now + t.claimTimeout } : ClaimEntry))
      (Table.setClaimsLoop q (now + t.claimTimeout) t.claims cs false).2.1 = [] := by
    rw [List.filter_eq_nil_iff]
    intro x _
    simp [hne]
  rw [this]
  simp

theorem claimsOf_removeClaims (pid q : PeerId) (hne : q ≠ pid) (t : Table) (now : Int) :
    claimsOf pid (t.removeClaims now q) = sweep now (claimsOf pid t) := by
  unfold Table.removeClaims
  rw [claimsOf_housekeep]
  congr 1
  unfold claimsOf
  simp only []
  induction t.claims with
  | nil => rfl
  | cons e es ih =>
    by_cases hq : e.peer = q
    · have hep : ¬ e.peer = pid := fun h => hne (hq.symm.trans h)
      simpa [hq, hep, hne] using ih
    · have hne' : ¬ pid = q := fun h => hne h.symm
      by_cases hep : e.peer = pid
      · simpa [hq, hep, hne'] using ih
      · simpa [hq, hep] using ih

/-! ## a property of (peer list, table) under `handle_net_message` for a datagram from `src` -/

/-- `P` is not disturbed by what the node does on behalf of the sender `src`: (re)writing or dropping the peer entry of `src`,
    learning a route to `src`, setting or removing the claims of `src` -/
structure Pres (src : NAddr) (now : Int) (P : List (NAddr × Peer) → Table → Prop) : Prop where
  ins : ∀ l t v, P l t → P (insertA l src v) t
  era : ∀ l t, P l t → P (eraseA l src) t
  learn : ∀ l t addr, P l t → P l (t.learn now addr (addrId src))
  set : ∀ l t cs, P l t → P l (t.setClaims now (addrId src) cs)
  rem : ∀ l t, P l t → P l (t.removeClaims now (addrId src))

def PC (P : List (NAddr × Peer) → Table → Prop) (c : Ctx) : Prop := P c.node.peers c.node.table

theorem connectSock_table (env : CryptoEnv) (o : Oracle) (c : Ctx) (a : NAddr) : (connectSock env o c a).node.table = c.node.table := by
  unfold connectSock
  simp only []
  split
  · rfl
  · simp only [newAttempt]; rfl

theorem foldl_table {β} (f : Ctx → β → Ctx) (hf : ∀ c x, (f c x).node.table = c.node.table) :
    ∀ (l : List β) (c : Ctx), (l.foldl f c).node.table = c.node.table
  | [], _ => rfl
  | x :: l, c => (foldl_table f hf l (f c x)).trans (hf c x)

theorem connect_table (env : CryptoEnv) (o : Oracle) (c : Ctx) (l : List NAddr) : (connect env o c l).node.table = c.node.table := by
  unfold connect
  simp only []
  split
  · rfl
  · exact foldl_table _ (connectSock_table env o) _ _

theorem connectToPeers_table (env : CryptoEnv) (o : Oracle) (c : Ctx) (l : List PeerInfo) :
    (connectToPeers env o c l).node.table = c.node.table := by
  unfold connectToPeers
  apply foldl_table
  intro c p
  simp only []
  split
  · rfl
  · split
    · split
      · rfl
      · split
        · rfl
        · exact connect_table env o c _
    · exact connect_table env o c _

section Traverse
variable {src : NAddr} {now : Int} {P : List (NAddr × Peer) → Table → Prop}

theorem updatePeerInfo_PC (hP : Pres src now P) (env : CryptoEnv) (o : Oracle) (c : Ctx) (info : Option NodeInfo) (h : PC P c) :
    PC P (updatePeerInfo env o c now src info) := by
  unfold updatePeerInfo
  simp only []
  split
  · exact h
  · cases info with
    | none => exact hP.ins _ _ _ h
    | some i =>
      unfold PC
      simp only []
      rw [connectToPeers_peers, connectToPeers_table]
      exact hP.set _ _ _ (hP.ins _ _ _ h)

theorem addNewPeer_PC (hP : Pres src now P) (env : CryptoEnv) (o : Oracle) (c : Ctx) (info : NodeInfo) (h : PC P c) :
    PC P (addNewPeer env o c now src info) := by
  unfold addNewPeer
  simp only []
  split
  · exact h
  · apply updatePeerInfo_PC hP
    exact hP.ins _ _ _ h

theorem removePeer_PC (hP : Pres src now P) (c : Ctx) (h : PC P c) : PC P (removePeer c now src) := by
  unfold removePeer
  simp only []
  split
  · exact h
  · exact hP.rem _ _ (hP.era _ _ h)

theorem handleResult_PC (hP : Pres src now P) (env : CryptoEnv) (o : Oracle) (c : Ctx) (res : MsgResult) (out : Bytes) (h : PC P c) :
    PC P (handleResult env o c now src res out).1 := by
  unfold handleResult
  cases res with
  | message ty data =>
    simp only []
    split
    · split
      · exact h
      · split
        · exact hP.learn _ _ _ h
        · exact h
    · split
      · split
        · exact h
        · exact updatePeerInfo_PC hP env o c _ h
      · split
        · exact updatePeerInfo_PC hP env o c _ h
        · split
          · exact removePeer_PC hP c h
          · exact h
  | initialized payload =>
    simp only []
    split
    · exact addNewPeer_PC hP env o c _ h
    · exact h
  | initializedWithReply payload =>
    simp only []
    split
    · exact addNewPeer_PC hP env o c _ h
    · exact h
  | reply => exact h
  | none => exact h

theorem storePc_PC (hP : Pres src now P) (c : Ctx) (inPeers : Bool) (pc : PeerCrypto) (h : PC P c) : PC P (storePc c src inPeers pc) := by
  unfold storePc
  simp only []
  split
  · split
    · exact hP.ins _ _ _ h
    · exact h
  · exact h

theorem applyOutcome_PC (hP : Pres src now P) (env : CryptoEnv) (o : Oracle) (c : Ctx) (inPeers : Bool) (r : POutcome MsgResult) (h : PC P c) :
    PC P (applyOutcome env o c now src inPeers r).1 := by
  rw [applyOutcome_eq]
  cases r with
  | panic => exact h
  | err pc e => exact storePc_PC hP c inPeers pc h
  | ok pc out res log => exact handleResult_PC hP env o _ res out (storePc_PC hP c inPeers pc h)

theorem responder_PC (hP : Pres src now P) (env : CryptoEnv) (bodyOf : Init.BodyOf) (o : Oracle) (n : Node) (data tail : Bytes)
    (rnd : Rand) (rr : RotRand) (hash : Option Bytes) (h : P n.peers n.table) :
    PC P (responder env bodyOf o n now src data tail rnd rr hash).1 := by
  unfold responder
  simp only []
  split
  · exact handleResult_PC hP env o _ _ _ h
  · exact h
  · exact h

theorem dispatch_PC (hP : Pres src now P) (env : CryptoEnv) (bodyOf : Init.BodyOf) (o : Oracle) (n : Node) (data tail : Bytes)
    (h : P n.peers n.table) : PC P (dispatch env bodyOf o n now src data tail).1 := by
  have h0 : PC P { node := n } := h
  unfold dispatch
  simp only []
  split
  · split
    · exact applyOutcome_PC hP env o _ _ _ h0
    · split
      · exact applyOutcome_PC hP env o _ _ _ h0
      · split
        · exact applyOutcome_PC hP env o _ _ _ h0
        · exact responder_PC hP env bodyOf o n data tail _ _ _ h
  · exact applyOutcome_PC hP env o _ _ _ h0
  · split
    · exact responder_PC hP env bodyOf o n data tail _ _ _ h
    · exact h

end Traverse

/-- `handle_net_message` for a datagram from `src0` keeps every property of (peer list, table) that operations on behalf of the
    sender cannot disturb -/
theorem handleNet_PC {now : Int} {P : List (NAddr × Peer) → Table → Prop} (src0 : NAddr) (hP : Pres (mappedAddr src0) now P)
    (env : CryptoEnv) (bodyOf : Init.BodyOf) (o : Oracle) (n : Node) (data tail : Bytes) (h : P n.peers n.table) :
    PC P (handleNet env bodyOf o n now src0 data tail).1 := by
  rw [handleNet_eq]
  unfold PC
  rw [finish_peers, finish_table]
  exact dispatch_PC hP env bodyOf o n data tail h

/-- the peer entry of another address -/
theorem pres_lookup (src a : NAddr) (now : Int) (p : Peer) (h : a ≠ src) : Pres src now (fun l _ => lookupA l a = some p) where
  ins := fun l _ v hl => (lookupA_insertA_ne l v h).trans hl
  era := fun l _ hl => (lookupA_eraseA_ne l h).trans hl
  learn := fun _ _ _ hl => hl
  set := fun _ _ _ hl => hl
  rem := fun _ _ hl => hl

/-- the claims attributed to another peer: unchanged, or swept (the entries that have expired at `now` dropped) -/
theorem pres_claims (src : NAddr) (pid : PeerId) (now : Int) (F0 : List ClaimEntry) (h : addrId src ≠ pid) :
    Pres src now (fun _ t => claimsOf pid t = F0 ∨ claimsOf pid t = sweep now F0) where
  ins := fun _ _ _ hl => hl
  era := fun _ _ hl => hl
  learn := fun _ _ _ hl => hl
  set := fun _ t cs hl => by
    rw [claimsOf_setClaims pid _ h]
    rcases hl with hl | hl
    · exact Or.inr (by rw [hl])
    · exact Or.inr (by rw [hl, sweep_sweep])
  rem := fun _ t hl => by
    rw [claimsOf_removeClaims pid _ h]
    rcases hl with hl | hl
    · exact Or.inr (by rw [hl])
    · exact Or.inr (by rw [hl, sweep_sweep])

theorem sweep_id (now : Int) (l : List ClaimEntry) (h : ∀ e ∈ l, now ≤ e.timeout) : sweep now l = l := by
  unfold sweep
  rw [List.filter_eq_self]
  intro e he
  simpa using h e he

/-! ## the session layer on datagrams without the handshake marker -/

theorem handleRotate_err (pc pc2 : PeerCrypto) (data : Bytes) (rr : RotRand) (e : InitErr)
    (h : PeerCrypto.handleRotate pc data rr = (pc2, .error e)) :
    (e = .state ∨ e = .crypto) ∧ pc.unencrypted = false ∧ (pc2 = pc ∨ pc.core = none) := by
  unfold PeerCrypto.handleRotate at h
  split at h
  · cases h
  · rename_i hu
    have hu' : pc.unencrypted = false := by simpa using hu
    split at h
    · cases h; exact ⟨Or.inl rfl, hu', Or.inl rfl⟩
    · split at h
      · cases h; exact ⟨Or.inr rfl, hu', Or.inl rfl⟩
      · simp only [] at h
        split at h
        · split at h
          · rename_i hc
            cases h
            exact ⟨Or.inl rfl, hu', Or.inr hc⟩
          · cases h
        · cases h

/-- the datagram as the core sees it -/
def dgramOf (bodyOf : Init.BodyOf) (d : Bytes) : Dgram := { hdr := d.take 8, body := bodyOf (d.drop 8) }

/-- `decrypt_message` by cases: plain session; no core; the core rejects (nothing changes); the core accepts (only the core changes) -/
theorem decMsg_cases (bodyOf : Init.BodyOf) (pc : PeerCrypto) (d : Bytes) :
    (pc.unencrypted = true ∧ decMsg bodyOf pc d = (pc, .ok d)) ∨
    (pc.unencrypted = false ∧ pc.core = none ∧ decMsg bodyOf pc d = (pc, .error .state)) ∨
    (∃ c, pc.unencrypted = false ∧ pc.core = some c ∧
      ((∃ e, (c.decrypt (dgramOf bodyOf d)).2 = .error e ∧ decMsg bodyOf pc d = (pc, .error .crypto)) ∨
       (∃ plain, (c.decrypt (dgramOf bodyOf d)).2 = .ok plain ∧
          decMsg bodyOf pc d = ({ pc with core := some (c.decrypt (dgramOf bodyOf d)).1 }, .ok plain)))) := by
  unfold decMsg
  cases hu : pc.unencrypted with
  | true => exact Or.inl ⟨rfl, by simp⟩
  | false =>
    right
    cases hc : pc.core with
    | none => exact Or.inl ⟨rfl, rfl, by simp⟩
    | some c =>
      right
      refine ⟨c, rfl, rfl, ?_⟩
      simp only [Bool.false_eq_true, if_false]
      cases hr : (c.decrypt (dgramOf bodyOf d)).2 with
      | error e =>
        left
        refine ⟨e, rfl, ?_⟩
        have hst := VpnCloud.Proofs.C02.reject_no_state c _ e hr
        unfold dgramOf at hr hst
        simp only [hr, hst]
        congr 1
        cases pc
        simp_all
      | ok plain =>
        right
        refine ⟨plain, rfl, ?_⟩
        unfold dgramOf at hr ⊢
        simp only [hr]

/-- **a rejected datagram without the handshake marker**: the error is never the fatal one, and the session object is completely
    unchanged — unless the core ACCEPTED the datagram (so it is a genuine seal under a current key, `C02.accepted_is_genuine`) and what
    it carries is a rotation message the session cannot use; then only the core differs (its replay window has seen the nonce). -/
theorem handleMessage_plain_err (env : CryptoEnv) (bodyOf : Init.BodyOf) (ok : Bytes → Bool) (pc pc' : PeerCrypto) (data tail : Bytes)
    (rnd : Rand) (rr : RotRand) (e : InitErr) (hinit : data.head? ≠ some Generated.INIT_MESSAGE_FIRST_BYTE)
    (h : PeerCrypto.handleMessage env bodyOf ok pc data tail rnd rr = .err pc' e) :
    (e = .state ∨ e = .crypto) ∧
    (pc' = pc ∨ ∃ core body, pc.unencrypted = false ∧ pc.core = some core ∧
      (core.decrypt (dgramOf bodyOf data)).2 = .ok (Generated.MESSAGE_TYPE_ROTATION :: body) ∧
      pc' = { pc with core := some (core.decrypt (dgramOf bodyOf data)).1 }) := by
  rw [handleMessage_eq] at h
  cases data with
  | nil =>
    simp only [POutcome.err.injEq] at h
    exact ⟨Or.inl h.2.symm, Or.inl h.1.symm⟩
  | cons b0 rest =>
    have hb : ¬ b0 = Generated.INIT_MESSAGE_FIRST_BYTE := by
      intro hb; apply hinit; rw [hb]; rfl
    simp only [hb, if_false] at h
    rcases decMsg_cases bodyOf pc (b0 :: rest) with ⟨hu, hd⟩ | ⟨_, _, hd⟩ | ⟨c, hu, hc, ⟨e', _, hd⟩ | ⟨plain, hp, hd⟩⟩
    · rw [hd] at h
      simp only [] at h
      split at h
      · split at h
        · cases h
        · split at h
          · cases h
          · rename_i pc2 e2 hrot
            have := (handleRotate_err _ _ _ _ _ hrot).2.1
            rw [hu] at this
            cases this
      · cases h
    · rw [hd] at h
      simp only [POutcome.err.injEq] at h
      exact ⟨Or.inl h.2.symm, Or.inl h.1.symm⟩
    · rw [hd] at h
      simp only [POutcome.err.injEq] at h
      exact ⟨Or.inr h.2.symm, Or.inl h.1.symm⟩
    · rw [hd] at h
      cases plain with
      | nil => cases h
      | cons ty body =>
        simp only [] at h
        split at h
        · rename_i hty
          simp only [hu, Bool.false_eq_true, if_false] at h
          split at h
          · cases h
          · split at h
            · cases h
            · rename_i pc2 e2 hrot
              simp only [POutcome.err.injEq] at h
              obtain ⟨he, _, hpc⟩ := handleRotate_err _ _ _ _ _ hrot
              rcases hpc with hpc | hpc
              · refine ⟨h.2 ▸ he, Or.inr ⟨c, body, hu, hc, ?_, ?_⟩⟩
                · rw [hp, hty]
                · rw [← h.1, hpc, hu]
              · cases hpc
        · cases h

/-! ## handshake datagrams -/

/-- a handshake object in the initial stage (waiting for a ping) never completes the handshake on one message: only a pong or a peng
    complete it, and both are answered by the stage check -/
theorem handleInit_ping_stage (env : CryptoEnv) (bodyOf : Init.BodyOf) (ok : Bytes → Bool) (st : InitSt) (w : Bytes) (rnd : Rand)
    (hst : st.stage = Generated.STAGE_PING) : NoSuccess (Init.handleInit env bodyOf ok st w rnd) := by
  intro st' out p ini log h
  obtain ⟨m, k, _, hs, hm⟩ := handleInit_success env bodyOf ok st st' w rnd out p ini log h
  cases m with
  | ping hb e a => exact handleMsg_ping _ _ _ _ _ _ _ _ _ _ _ _ _ hm
  | pong => rw [hst] at hs; simp [InitMsg.stage, Generated.STAGE_PONG, Generated.STAGE_PING] at hs
  | peng => rw [hst] at hs; simp [InitMsg.stage, Generated.STAGE_PENG, Generated.STAGE_PING] at hs

/-- what `handle_message` can answer to a datagram WITH the handshake marker: a reply, or the completion reported by `handle_init` -/
theorem handleMessage_marker_ok (env : CryptoEnv) (bodyOf : Init.BodyOf) (ok : Bytes → Bool) (pc pc' : PeerCrypto) (data tail : Bytes)
    (rnd : Rand) (rr : RotRand) (out : Bytes) (res : MsgResult) (log : Init.SealLog)
    (hinit : data.head? = some Generated.INIT_MESSAGE_FIRST_BYTE)
    (h : PeerCrypto.handleMessage env bodyOf ok pc data tail rnd rr = .ok pc' out res log) :
    res = .reply ∨ ∃ pl ist st' o ini lg, pc.init = some ist ∧
      Init.handleInit env bodyOf ok ist (data.drop 1) rnd = .ok st' (o, .success pl ini, lg) ∧
      (res = .initialized pl ∨ res = .initializedWithReply pl) := by
  rw [handleMessage_eq] at h
  cases data with
  | nil => cases hinit
  | cons b0 rest =>
    have hb : b0 = Generated.INIT_MESSAGE_FIRST_BYTE := by simpa using hinit
    simp only [hb, if_true] at h
    split at h
    · cases h
    · rw [handleInitMessage_eq] at h
      split at h
      · cases h
      · rename_i ist hi
        cases hr : Init.handleInit env bodyOf ok ist rest rnd with
        | panic => rw [hr] at h; cases h
        | err ist' e => rw [hr] at h; cases h
        | ok ist' x =>
          obtain ⟨o, r, lg⟩ := x
          rw [hr] at h
          cases r with
          | «continue» =>
            simp only [POutcome.ok.injEq] at h
            exact Or.inl h.2.2.1.symm
          | success pl ini =>
            simp only [] at h
            have hc := successOut_cases (successPc pc ist') ist'.crypto ini (if o.isEmpty then [] else Generated.INIT_MESSAGE_FIRST_BYTE :: o) pl lg rr
            rw [h] at hc
            exact Or.inr ⟨pl, ist, ist', o, ini, lg, hi, hr, hc.2⟩

/-- a session object that is nothing but a handshake object in the initial stage (what `Crypto::peer_instance` returns) -/
def FreshAttempt (pc : PeerCrypto) : Prop := FreshPC pc ∧ ∃ ist, pc.init = some ist ∧ ist.stage = Generated.STAGE_PING

theorem newAttempt_fresh (n : Node) (hash : Bytes) : FreshAttempt (newAttempt n hash) := ⟨⟨rfl, rfl⟩, _, rfl, rfl⟩

/-- **a fresh attempt that handles ONE message never reports a completed handshake**: all it can return is a reply -/
theorem freshAttempt_only_reply (env : CryptoEnv) (bodyOf : Init.BodyOf) (ok : Bytes → Bool) (pc pc' : PeerCrypto) (data tail : Bytes)
    (rnd : Rand) (rr : RotRand) (out : Bytes) (res : MsgResult) (log : Init.SealLog) (hf : FreshAttempt pc)
    (h : PeerCrypto.handleMessage env bodyOf ok pc data tail rnd rr = .ok pc' out res log) : res = .reply := by
  by_cases hinit : data.head? = some Generated.INIT_MESSAGE_FIRST_BYTE
  · rcases handleMessage_marker_ok env bodyOf ok pc pc' data tail rnd rr out res log hinit h with hr | ⟨pl, ist, st', o, ini, lg, hi, hs, _⟩
    · exact hr
    · obtain ⟨_, ist0, hi0, hst⟩ := hf
      rw [hi0] at hi
      simp only [Option.some.injEq] at hi
      subst hi
      exact absurd hs (handleInit_ping_stage env bodyOf ok ist0 _ rnd hst _ _ _ _ _)
  · have := handleMessage_fresh env bodyOf ok pc data tail rnd rr hf.1
    rw [h] at this
    rcases this with ⟨hr, _⟩ | ⟨p, hp, _⟩
    · exact hr
    · exfalso
      have hpl := handleMessage_plain env bodyOf ok pc data tail rnd rr hinit pc' out res log h
      exact plainRes_not_init hpl ⟨p, hp⟩

/-- … and it does not panic -/
theorem freshAttempt_no_panic (env : CryptoEnv) (bodyOf : Init.BodyOf) (ok : Bytes → Bool) (pc : PeerCrypto) (data tail : Bytes)
    (rnd : Rand) (rr : RotRand) (hf : FreshAttempt pc) : PeerCrypto.handleMessage env bodyOf ok pc data tail rnd rr ≠ .panic := by
  have hp : PendOK pc := by
    intro i hi hs
    obtain ⟨_, ist0, hi0, hst⟩ := hf
    rw [hi0] at hi
    cases hi
    rw [hst] at hs
    cases hs
  rw [handleMessage_eq]
  split
  · intro h; cases h
  · split
    · split
      · intro h; cases h
      · rename_i rest _ _
        have := handleInitMessage_good env bodyOf ok pc rest rnd rr hp
        intro h
        rw [h] at this
        exact this
    · rw [decMsg_fresh bodyOf pc _ hf.1]
      intro h; cases h

/-! ## `crypto_housekeep` in two loops -/

/-- the first loop of `crypto_housekeep`: `every_second` of the pending attempts -/
def pendStep (o : Oracle) (c : Ctx) (a : NAddr) : Ctx :=
  match lookupA c.node.pending a with
  | none => c
  | some pc =>
    let (_, rr, _) := rndFor o c a
    match PeerCrypto.everySecond pc rr with
    | .err _ _ => { c with node := { c.node with pending := eraseA c.node.pending a } }
    | .panic => { c with panicked := true }
    | .ok pc' out res log =>
      let c' := addLog log { c with node := { c.node with pending := insertA c.node.pending a pc' } }
      if res = .reply then c'.send a out else c'

def pendLoop (o : Oracle) (c : Ctx) : Ctx := (c.node.pending.map (·.1)).foldl (pendStep o) c

/-- one round of the second loop of `crypto_housekeep`: `every_second` of the session of the peer `a` -/
def peerStep (env : CryptoEnv) (o : Oracle) (now : Int) (c : Ctx) (a : NAddr) : Ctx :=
  match lookupA c.node.peers a with
  | none => c
  | some p =>
    let (_, rr, _) := rndFor o c a
    match PeerCrypto.everySecond p.crypto rr with
    | .err _ _ =>
      let c' := { c with node := { c.node with peers := eraseA c.node.peers a, table := c.node.table.removeClaims now (addrId a) } }
      connectSock env o c' a
    | .panic => { c with panicked := true }
    | .ok pc' out res log =>
      let c' := addLog log { c with node := { c.node with peers := insertA c.node.peers a { p with crypto := pc' } } }
      if res = .reply then c'.send a out else c'

def peerLoop (env : CryptoEnv) (o : Oracle) (c1 : Ctx) (now : Int) : Ctx := (c1.node.peers.map (·.1)).foldl (peerStep env o now) c1

theorem cryptoHousekeep_eq (env : CryptoEnv) (o : Oracle) (c : Ctx) (now : Int) :
    cryptoHousekeep env o c now = peerLoop env o (pendLoop o c) now := rfl

/-- the node without its pending attempts -/
def noPending (n : Node) : Node := { n with pending := [] }

theorem pendStep_node (o : Oracle) (c : Ctx) (a : NAddr) : noPending (pendStep o c a).node = noPending c.node := by
  unfold pendStep
  split
  · rfl
  · split
    split
    · rfl
    · rfl
    · split
      · rfl
      · rfl

/-- the pending loop changes nothing of the node but `pending` -/
theorem pendLoop_node (o : Oracle) (c : Ctx) : noPending (pendLoop o c).node = noPending c.node := by
  unfold pendLoop
  exact foldl_inv (fun c' => noPending c'.node = noPending c.node) _ (fun c' a h => (pendStep_node o c' a).trans h) _ _ rfl

theorem pendLoop_peers (o : Oracle) (c : Ctx) : (pendLoop o c).node.peers = c.node.peers :=
  by have h := congrArg (fun n : Node => n.peers) (pendLoop_node o c); exact h

theorem pendLoop_table (o : Oracle) (c : Ctx) : (pendLoop o c).node.table = c.node.table :=
  by have h := congrArg (fun n : Node => n.table) (pendLoop_node o c); exact h

/-! ## the expiry of one peer under `housekeep` -/

theorem peerStep_lookup_ne (env : CryptoEnv) (o : Oracle) (now : Int) (c : Ctx) {a b : NAddr} (h : a ≠ b) :
    lookupA (peerStep env o now c b).node.peers a = lookupA c.node.peers a := by
  unfold peerStep
  split
  · rfl
  · split
    split
    · rw [connectSock_peers]
      exact lookupA_eraseA_ne _ h
    · rfl
    · split
      · exact lookupA_insertA_ne _ _ h
      · exact lookupA_insertA_ne _ _ h

theorem peerStep_self (env : CryptoEnv) (o : Oracle) (now : Int) (c : Ctx) (a : NAddr) (p : Peer) (hp : lookupA c.node.peers a = some p)
    (hok : ∀ rr pc' e, PeerCrypto.everySecond p.crypto rr ≠ .err pc' e) :
    ∃ pc, lookupA (peerStep env o now c a).node.peers a = some { p with crypto := pc } := by
  unfold peerStep
  rw [hp]
  simp only []
  split
  · rename_i h
    exact absurd h (hok _ _ _)
  · exact ⟨p.crypto, hp⟩
  · rename_i pc' out res log _
    split
    · exact ⟨pc', lookupA_insertA_self _ _ _⟩
    · exact ⟨pc', lookupA_insertA_self _ _ _⟩

theorem peerFold_notin (env : CryptoEnv) (o : Oracle) (now : Int) (a : NAddr) :
    ∀ (l : List NAddr) (c : Ctx), a ∉ l → lookupA (l.foldl (peerStep env o now) c).node.peers a = lookupA c.node.peers a
  | [], _, _ => rfl
  | b :: l, c, h => by
    rw [List.foldl_cons, peerFold_notin env o now a l _ (fun hm => h (List.mem_cons_of_mem _ hm))]
    exact peerStep_lookup_ne env o now c (fun hab => h (hab ▸ List.mem_cons_self))

/-- the second loop of `crypto_housekeep` visits `a` at most once (distinct keys); if the session of `a` does not fail in its
    `every_second`, only the session object of the entry changes -/
theorem peerFold_keeps (env : CryptoEnv) (o : Oracle) (now : Int) (a : NAddr) (p : Peer)
    (hok : ∀ rr pc' e, PeerCrypto.everySecond p.crypto rr ≠ .err pc' e) :
    ∀ (l : List NAddr) (c : Ctx), l.Nodup → lookupA c.node.peers a = some p →
      ∃ pc, lookupA (l.foldl (peerStep env o now) c).node.peers a = some { p with crypto := pc }
  | [], _, _, hp => ⟨p.crypto, hp⟩
  | b :: l, c, hnd, hp => by
    rw [List.nodup_cons] at hnd
    rw [List.foldl_cons]
    by_cases hab : a = b
    · subst hab
      obtain ⟨pc, h1⟩ := peerStep_self env o now c a p hp hok
      refine ⟨pc, ?_⟩
      rw [peerFold_notin env o now a l _ hnd.1]
      exact h1
    · apply peerFold_keeps env o now a p hok l _ hnd.2
      rw [peerStep_lookup_ne env o now c hab]
      exact hp

/-- with distinct keys an address has one entry -/
theorem nodup_keys_unique {α} : ∀ (l : List (NAddr × α)) {a : NAddr} {v w : α}, (l.map (·.1)).Nodup → (a, v) ∈ l → (a, w) ∈ l → v = w
  | [], _, _, _, _, h, _ => by cases h
  | x :: l, a, v, w, hnd, hv, hw => by
    rw [List.map_cons, List.nodup_cons] at hnd
    rcases List.mem_cons.1 hv with hv | hv
    · rcases List.mem_cons.1 hw with hw | hw
      · rw [← hv] at hw
        exact (Prod.mk.inj hw).2.symm
      · exfalso
        apply hnd.1
        rw [← hv]
        exact mem_key hw
    · rcases List.mem_cons.1 hw with hw | hw
      · exfalso
        apply hnd.1
        rw [← hw]
        exact mem_key hv
      · exact nodup_keys_unique l hnd.2 hv hw

theorem deadFold_notin (env : CryptoEnv) (o : Oracle) (now : Int) (a : NAddr) :
    ∀ (dead : List NAddr) (c : Ctx), a ∉ dead →
      lookupA (dead.foldl (fun c a =>
        connectSock env o { c with node := { c.node with peers := eraseA c.node.peers a, table := c.node.table.removeClaims now (addrId a) } } a) c).node.peers a
        = lookupA c.node.peers a
  | [], _, _ => rfl
  | b :: l, c, h => by
    rw [List.foldl_cons, deadFold_notin env o now a l _ (fun hm => h (List.mem_cons_of_mem _ hm)), connectSock_peers]
    exact lookupA_eraseA_ne _ (fun hab => h (hab ▸ List.mem_cons_self))

theorem deadFold_keys_sublist (env : CryptoEnv) (o : Oracle) (now : Int) :
    ∀ (dead : List NAddr) (c : Ctx),
      ((dead.foldl (fun c a =>
        connectSock env o { c with node := { c.node with peers := eraseA c.node.peers a, table := c.node.table.removeClaims now (addrId a) } } a) c).node.peers.map (·.1)).Sublist
        (c.node.peers.map (·.1))
  | [], _ => List.Sublist.refl _
  | b :: l, c => by
    rw [List.foldl_cons]
    refine (deadFold_keys_sublist env o now l _).trans ?_
    rw [connectSock_peers]
    show ((eraseA c.node.peers b).map (·.1)).Sublist _
    rw [keys_eraseA]
    exact List.filter_sublist

/-- the first loop of `housekeep` keeps the entry of a peer whose expiry has not passed (distinct keys) -/
theorem hkDead_keeps (env : CryptoEnv) (o : Oracle) (n : Node) (now : Int) (a : NAddr) (p : Peer)
    (hp : lookupA n.peers a = some p) (hlive : ¬ p.timeout < now) (hnd : (n.peers.map (·.1)).Nodup) :
    lookupA (hkDead env o n now).node.peers a = some p ∧ ((hkDead env o n now).node.peers.map (·.1)).Nodup := by
  unfold hkDead
  constructor
  · rw [deadFold_notin env o now a _ _ ?_]
    · exact hp
    · intro hm
      rcases List.mem_map.1 hm with ⟨x, hx, hxa⟩
      rw [List.mem_filter] at hx
      obtain ⟨k, w⟩ := x
      simp only at hxa
      subst hxa
      have := nodup_keys_unique n.peers hnd hx.1 (lookupA_some_mem hp)
      subst this
      exact hlive (by simpa using hx.2)
  · exact (deadFold_keys_sublist env o now _ _).nodup hnd

theorem sendMsg_timeout (o : Oracle) (c : Ctx) (b : NAddr) (ty : Nat) (body : Bytes) (a : NAddr) :
    (lookupA ((sendMsg o c b ty body).getD c).node.peers a).map (·.timeout) = (lookupA c.node.peers a).map (·.timeout) := by
  unfold sendMsg
  split
  · rfl
  · rename_i q hq
    simp only []
    split
    · simp only [Option.getD_some, send_node, addLog_node]
      by_cases hab : a = b
      · subst hab
        rw [lookupA_insertA_self, hq]
        rfl
      · rw [lookupA_insertA_ne _ _ hab]
    · rfl

theorem broadcastMsg_timeout (o : Oracle) (c : Ctx) (ty : Nat) (body : Bytes) (a : NAddr) :
    (lookupA (broadcastMsg o c ty body).node.peers a).map (·.timeout) = (lookupA c.node.peers a).map (·.timeout) := by
  unfold broadcastMsg
  exact foldl_inv (fun c' => (lookupA c'.node.peers a).map (·.timeout) = (lookupA c.node.peers a).map (·.timeout)) _
    (fun c' b h => (sendMsg_timeout o c' b ty body a).trans h) _ _ rfl

theorem hkAnnounce_timeout (o : Oracle) (c : Ctx) (now : Int) (a : NAddr) :
    (lookupA (hkAnnounce o c now).node.peers a).map (·.timeout) = (lookupA c.node.peers a).map (·.timeout) := by
  unfold hkAnnounce
  split
  · simp only []
    split
    · exact broadcastMsg_timeout o c _ _ a
    · exact broadcastMsg_timeout o c _ _ a
  · rfl

theorem hkOwn_peers (c : Ctx) (now : Int) : (hkOwn c now).node.peers = c.node.peers := by
  unfold hkOwn
  split <;> rfl

/-- `housekeep` keeps the entry of a live peer whose session does not fail in its own `every_second`, with its expiry -/
theorem housekeep_keeps (env : CryptoEnv) (o : Oracle) (n : Node) (now : Int) (a : NAddr) (p : Peer)
    (hp : lookupA n.peers a = some p) (hlive : ¬ p.timeout < now) (hnd : (n.peers.map (·.1)).Nodup)
    (hok : ∀ rr pc' e, PeerCrypto.everySecond p.crypto rr ≠ .err pc' e) :
    (lookupA (housekeep env o n now).node.peers a).map (·.timeout) = some p.timeout := by
  rw [housekeep_eq, hkOwn_peers, reconnectToPeers_peers, hkAnnounce_timeout, cryptoHousekeep_eq]
  obtain ⟨h1, h2⟩ := hkDead_keeps env o n now a p hp hlive hnd
  have hpl : (pendLoop o (hkSweep (hkDead env o n now) now)).node.peers = (hkDead env o n now).node.peers := pendLoop_peers o _
  unfold peerLoop
  rw [hpl]
  obtain ⟨pc, h3⟩ := peerFold_keeps env o now a p hok _ (pendLoop o (hkSweep (hkDead env o n now) now)) h2 (by rw [hpl]; exact h1)
  rw [h3]
  rfl

/-! ## a healthy session does not fail in `every_second` -/

theorem installKey_core_none (pc : PeerCrypto) (key : Rot.Key) (id : Nat) (use : Bool) (starts : List Nat)
    (h : (PeerCrypto.installKey pc key id use starts).core = none) : pc.core = none := by
  unfold PeerCrypto.installKey at h
  split at h
  · cases h
  · assumption

theorem installKey_unencrypted (pc : PeerCrypto) (key : Rot.Key) (id : Nat) (use : Bool) (starts : List Nat) :
    (PeerCrypto.installKey pc key id use starts).unencrypted = pc.unencrypted := by
  unfold PeerCrypto.installKey
  split <;> rfl

theorem tickRot_err (pc2 pc' : PeerCrypto) (rr : RotRand) (e : InitErr) (h : tickRot pc2 rr = .err pc' e) :
    pc2.unencrypted = false ∧ pc2.core = none := by
  unfold tickRot at h
  split at h
  · cases h
  · simp only [] at h
    split at h
    · cases h
    · split at h
      · cases h
      · split at h
        · cases h
        · rename_i hs
          have hs2 := congrArg Prod.snd hs
          simp only at hs2
          obtain ⟨hu, hc, _⟩ := sealMsg_err _ _ _ _ hs2
          split at hu
          · rename_i hr
            rw [if_pos hr] at hc
            rw [installKey_unencrypted] at hu
            exact ⟨hu, (installKey_core_none _ _ _ _ _ hc : _ = none)⟩
          · rename_i hr
            rw [if_neg hr] at hc
            exact ⟨hu, hc⟩

/-- a session without lingering handshake that can seal (plain, or with a core) never fails in `every_second` -/
theorem everySecond_healthy (pc : PeerCrypto) (hi : pc.init = none) (hs : pc.unencrypted = true ∨ pc.core.isSome = true) :
    ∀ rr pc' e, PeerCrypto.everySecond pc rr ≠ .err pc' e := by
  intro rr pc' e h
  rw [everySecond_eq] at h
  have h1 : tick1 pc = ({ pc with core := pc.core.map Core.everySecond }, .ok []) := by
    unfold tick1
    simp only [hi]
  rw [h1] at h
  simp only [List.isEmpty_nil, Bool.not_true, Bool.false_eq_true, if_false] at h
  obtain ⟨hu, hc⟩ := tickRot_err _ _ _ _ h
  have hu' : pc.unencrypted = false := hu
  have hc' : pc.core.map Core.everySecond = none := hc
  rcases hs with hs | hs
  · rw [hu'] at hs; cases hs
  · cases hcc : pc.core with
    | none => rw [hcc] at hs; cases hs
    | some c => rw [hcc] at hc'; cases hc'

end VpnCloud.Proofs.C09MoreLemmas
