import VpnCloud.Model.AlgoNames
import VpnCloud.Model.PeerCrypto
import VpnCloud.Spec.C06
import VpnCloud.Proofs.Lemmas.NegoLemmas
import VpnCloud.Proofs.Lemmas.InitLemmas
import VpnCloud.Proofs.C16Init
/-
  Helper lemmas for C06Config: characters and strings under `toUpper`, the alias table of `parse_algorithms`,
  the fold of `parseAlgorithms` in closed form, `speedOf` of an advertised list, and the `NoDup`-free versions of the
  C06 lemmas (a list in which equal ciphers carry equal speeds behaves like a duplicate-free one).
-/
namespace VpnCloud.Proofs.C06ConfigLemmas
open VpnCloud VpnCloud.Init VpnCloud.Spec.C06 VpnCloud.Proofs.NegoLemmas

/-! ### upper and lower case -/

theorem char_toUpper_toUpper (c : Char) : c.toUpper.toUpper = c.toUpper := by
  apply Char.ext
  unfold Char.toUpper
  split
  · rename_i h
    have h1 := UInt32.le_iff_toNat_le.1 h.1
    have h2 := UInt32.le_iff_toNat_le.1 h.2
    split
    · rename_i h'
      have h3 := UInt32.le_iff_toNat_le.1 h'.1
      simp at h1 h2 h3
      omega
    · rfl
  · simp [*]

theorem char_toLower_toUpper (c : Char) : c.toLower.toUpper = c.toUpper := by
  apply Char.ext
  apply UInt32.toNat_inj.1
  unfold Char.toUpper Char.toLower
  by_cases h : c.val ≥ 'A'.val ∧ c.val ≤ 'Z'.val
  · have h1 := UInt32.le_iff_toNat_le.1 h.1
    have h2 := UInt32.le_iff_toNat_le.1 h.2
    simp at h1 h2
    have h3 : 'a'.val ≤ c.val + ('a'.val - 'A'.val) ∧ c.val + ('a'.val - 'A'.val) ≤ 'z'.val := by
      constructor <;> apply UInt32.le_iff_toNat_le.2 <;> simp <;> omega
    have h4 : ¬ ('a'.val ≤ c.val ∧ c.val ≤ 'z'.val) := by
      intro h'
      have := UInt32.le_iff_toNat_le.1 h'.1
      simp at this; omega
    simp only [h, h3, h4, dite_true, dite_false, and_self]
    simp
    omega
  · simp only [h, dite_false]

theorem string_toUpper_toUpper (s : String) : s.toUpper.toUpper = s.toUpper := by
  apply String.ext
  simp only [String.toUpper, String.toList_map, List.map_map]
  apply List.map_congr_left
  intro c _
  exact char_toUpper_toUpper c

theorem string_toLower_toUpper (s : String) : s.toLower.toUpper = s.toUpper := by
  apply String.ext
  simp only [String.toUpper, String.toLower, String.toList_map, List.map_map]
  apply List.map_congr_left
  intro c _
  exact char_toLower_toUpper c

/-! ### the alias table (read off the `match` of `parse_algorithms`) -/

/-- the names (upper case) that enable unencrypted operation -/
def plainAliases : List String := ["UNENCRYPTED", "NONE", "PLAIN"]

/-- the names (upper case) of the ciphers -/
def cipherAliases : List (String × Cipher) :=
  [("AES128", .aes128), ("AES128_GCM", .aes128), ("AES_128", .aes128), ("AES_128_GCM", .aes128),
   ("AES256", .aes256), ("AES256_GCM", .aes256), ("AES_256", .aes256), ("AES_256_GCM", .aes256),
   ("CHACHA", .chacha), ("CHACHA20", .chacha), ("CHACHA20_POLY1305", .chacha)]

/-- a configured name is a plain alias (case-insensitively) -/
def isPlainName (n : String) : Bool := plainAliases.contains n.toUpper

/-- the cipher a configured name stands for (case-insensitively), if any -/
def cipherOfName (n : String) : Option Cipher := cipherAliases.lookup n.toUpper

theorem parseAlgoName_table (n : String) :
    parseAlgoName n = if isPlainName n then some none else (cipherOfName n).map some := by
  unfold parseAlgoName isPlainName cipherOfName
  generalize n.toUpper = u
  by_cases h1 : u = "UNENCRYPTED"; · subst h1; decide
  by_cases h2 : u = "NONE"; · subst h2; decide
  by_cases h3 : u = "PLAIN"; · subst h3; decide
  by_cases h4 : u = "AES128"; · subst h4; decide
  by_cases h5 : u = "AES128_GCM"; · subst h5; decide
  by_cases h6 : u = "AES_128"; · subst h6; decide
  by_cases h7 : u = "AES_128_GCM"; · subst h7; decide
  by_cases h8 : u = "AES256"; · subst h8; decide
  by_cases h9 : u = "AES256_GCM"; · subst h9; decide
  by_cases h10 : u = "AES_256"; · subst h10; decide
  by_cases h11 : u = "AES_256_GCM"; · subst h11; decide
  by_cases h12 : u = "CHACHA"; · subst h12; decide
  by_cases h13 : u = "CHACHA20"; · subst h13; decide
  by_cases h14 : u = "CHACHA20_POLY1305"; · subst h14; decide
  have b : ∀ t : String, u ≠ t → (u == t) = false := fun t h => beq_eq_false_iff_ne.2 h
  simp [plainAliases, cipherAliases, List.lookup, h1, h2, h3, h4, h5, h6, h7, h8, h9, h10, h11, h12, h13, h14,
    b _ h4, b _ h5, b _ h6, b _ h7, b _ h8, b _ h9, b _ h10, b _ h11, b _ h12, b _ h13, b _ h14]


theorem plain_not_cipher (n : String) (h : isPlainName n = true) : cipherOfName n = none := by
  unfold isPlainName at h
  unfold cipherOfName
  generalize n.toUpper = u at h ⊢
  simp only [plainAliases, List.contains_cons, List.contains_nil, Bool.or_false, Bool.or_eq_true, beq_iff_eq] at h
  rcases h with rfl | rfl | rfl <;> decide

theorem parseAlgoName_plain_iff (n : String) : parseAlgoName n = some none ↔ isPlainName n = true := by
  rw [parseAlgoName_table]
  cases h : isPlainName n
  · cases cipherOfName n <;> simp
  · simp

theorem parseAlgoName_cipher_iff (n : String) (c : Cipher) : parseAlgoName n = some (some c) ↔ cipherOfName n = some c := by
  rw [parseAlgoName_table]
  cases h : isPlainName n
  · cases cipherOfName n <;> simp
  · simp [plain_not_cipher n h]

theorem parseAlgoName_none_iff (n : String) : parseAlgoName n = none ↔ (isPlainName n = false ∧ cipherOfName n = none) := by
  rw [parseAlgoName_table]
  cases h : isPlainName n
  · cases cipherOfName n <;> simp
  · simp

/-- a name that `parse_algorithms` knows -/
def knownName (n : String) : Bool := isPlainName n || (cipherOfName n).isSome

theorem knownName_iff (n : String) : knownName n = true ↔ parseAlgoName n ≠ none := by
  unfold knownName
  rw [Ne, parseAlgoName_none_iff]
  cases isPlainName n <;> cases cipherOfName n <;> simp

/-! ### the fold in closed form -/

/-- the list the loop runs over: `DEFAULT_ALGORITHMS` if nothing is configured -/
def effective (names : List String) : List String := if names.isEmpty then defaultAlgoNames else names

/-- the loop body of `parse_algorithms` -/
def step (acc : Bool × List Cipher) (n : String) : Option (Bool × List Cipher) :=
  match parseAlgoName n with
  | some none => some (true, acc.2)
  | some (some c) => some (acc.1, acc.2 ++ [c])
  | none => none

theorem parseAlgorithms_eq_foldlM (names : List String) :
    parseAlgorithms names = (effective names).foldlM step (false, []) := rfl

theorem step_eq (acc : Bool × List Cipher) (n : String) :
    step acc n = if knownName n then some (acc.1 || isPlainName n, acc.2 ++ (cipherOfName n).toList) else none := by
  unfold step knownName
  rw [parseAlgoName_table]
  cases h : isPlainName n
  · cases cipherOfName n <;> simp
  · simp [plain_not_cipher n h]

theorem foldlM_step (l : List String) (acc : Bool × List Cipher) :
    l.foldlM step acc =
      if l.all knownName then some (acc.1 || l.any isPlainName, acc.2 ++ l.filterMap cipherOfName) else none := by
  induction l generalizing acc with
  | nil => simp
  | cons n l ih =>
    rw [List.foldlM_cons, step_eq]
    cases hk : knownName n
    · simp [hk]
    · simp only [if_true, Option.bind_eq_bind, Option.bind_some, ih, List.all_cons, hk, Bool.true_and, List.any_cons,
        List.filterMap_cons]
      cases hc : cipherOfName n <;> simp [Bool.or_assoc]

theorem parseAlgorithms_closed (names : List String) :
    parseAlgorithms names =
      if (effective names).all knownName then some ((effective names).any isPlainName, (effective names).filterMap cipherOfName)
      else none := by
  rw [parseAlgorithms_eq_foldlM, foldlM_step]
  simp

theorem effective_nil : effective [] = defaultAlgoNames := rfl
theorem effective_of_ne_nil {names : List String} (h : names ≠ []) : effective names = names := by
  cases names with
  | nil => exact absurd rfl h
  | cons => rfl

theorem default_known : defaultAlgoNames.all knownName = true := by decide +kernel
theorem default_noplain : defaultAlgoNames.any isPlainName = false := by decide +kernel
theorem default_ciphers : defaultAlgoNames.filterMap cipherOfName = [.aes128, .aes256, .chacha] := by decide +kernel


/-! ### names are read through `toUpper` only -/

theorem parseAlgoName_congr {a b : String} (h : a.toUpper = b.toUpper) : parseAlgoName a = parseAlgoName b := by
  unfold parseAlgoName
  rw [h]

theorem isPlainName_congr {a b : String} (h : a.toUpper = b.toUpper) : isPlainName a = isPlainName b := by
  unfold isPlainName; rw [h]

theorem cipherOfName_congr {a b : String} (h : a.toUpper = b.toUpper) : cipherOfName a = cipherOfName b := by
  unfold cipherOfName; rw [h]

/-! ### lists in which equal ciphers carry equal speeds -/

/-- equal ciphers carry equal speeds (weaker than `NoDup`) -/
def Functional (a : Algos) : Prop := ∀ c x y, (c, x) ∈ a.speeds → (c, y) ∈ a.speeds → x = y

theorem functional_of_noDup {a : Algos} (h : NoDup a) : Functional a :=
  fun _ _ _ hx hy => nodup_fst_unique h hx hy

theorem speedOf_of_mem_fn {a : Algos} (hn : Functional a) {c : Cipher} {x : Nat} (h : (c, x) ∈ a.speeds) :
    speedOf a c = some x := by
  cases hs : speedOf a c with
  | none =>
    unfold speedOf at hs
    simp only [Option.map_eq_none_iff, List.find?_eq_none, decide_eq_true_eq] at hs
    exact absurd rfl (hs _ h)
  | some y =>
    have := speedOf_some_mem hs
    rw [hn c x y h this]

theorem mem_cands_fn {own peer : Algos} (ho : Functional own) {z : Cipher × Nat} :
    z ∈ cands own peer ↔ z ∈ common own peer := by
  rw [mem_common]
  unfold cands
  simp only [List.mem_filterMap]
  constructor
  · rintro ⟨⟨a1, s1⟩, hm, h⟩
    simp only at h
    rw [cands_entry] at h
    cases hy : speedOf peer a1 with
    | none => rw [hy] at h; simp at h
    | some y =>
      rw [hy] at h
      simp only [Option.map_some, Option.some.injEq] at h
      subst h
      exact ⟨s1, y, speedOf_of_mem_fn ho hm, hy, rfl⟩
  · rintro ⟨x, y, hx, hy, hz⟩
    refine ⟨(z.1, x), speedOf_some_mem hx, ?_⟩
    simp only
    rw [cands_entry, hy]
    simp only [Option.map_some, Option.some.injEq]
    exact Prod.ext rfl hz.symm

/-- the result type of `selectAlgorithm` for a reference choice -/
def choiceResult : Choice → Except InitErr (Option Cipher)
  | .plain => .ok none
  | .cipher c => .ok (some c)
  | .fail => .error .cryptoInitFatal

/-- `select_spec` of C06 with the weaker hypothesis -/
theorem select_spec_fn (own peer : Algos) (ho : Functional own) :
    selectAlgorithm own peer = choiceResult (selectRef own peer) := by
  by_cases hb : own.allowUnencrypted = true ∧ peer.allowUnencrypted = true
  · rw [selectAlgorithm_plain _ _ hb, selectRef_plain _ _ hb]; rfl
  · have hm : ∀ z, z ∈ cands own peer ↔ z ∈ common own peer := fun z => mem_cands_fn ho
    rcases selectAlgorithm_not_plain own peer hb with ⟨hc, e⟩ | ⟨best, hmax, e⟩
    · rcases selectRef_not_plain own peer hb with ⟨_, e'⟩ | ⟨best', hmax', _⟩
      · rw [e, e']; rfl
      · have := (hm _).2 hmax'.1
        rw [hc] at this; simp at this
    · rcases selectRef_not_plain own peer hb with ⟨hc', _⟩ | ⟨best', hmax', e'⟩
      · have := (hm _).1 hmax.1
        rw [hc'] at this; simp at this
      · rw [e, e', isMax_unique hm hmax hmax']; rfl

theorem choiceResult_inj {x y : Choice} (h : choiceResult x = choiceResult y) : x = y := by
  cases x <;> cases y <;> simp [choiceResult] at h <;> simp [h]

/-! ### the advertised list: ciphers with the speed measured for each -/

/-- the list `Crypto::new` builds from the parsed ciphers -/
def attach (speed : Cipher → Nat) (r : Bool × List Cipher) : Algos := ⟨r.2.map (fun c => (c, speed c)), r.1⟩

theorem attach_functional (speed : Cipher → Nat) (r : Bool × List Cipher) : Functional (attach speed r) := by
  intro c x y hx hy
  simp only [attach, List.mem_map, Prod.mk.injEq] at hx hy
  obtain ⟨_, _, rfl, rfl⟩ := hx
  obtain ⟨_, _, rfl, rfl⟩ := hy
  rfl

theorem speedOf_attach (speed : Cipher → Nat) (r : Bool × List Cipher) (c : Cipher) :
    speedOf (attach speed r) c = if c ∈ r.2 then some (speed c) else none := by
  obtain ⟨p, cs⟩ := r
  unfold speedOf attach
  simp only
  induction cs with
  | nil => simp
  | cons d cs ih =>
    simp only [List.map_cons, List.find?_cons, List.mem_cons]
    by_cases h : d = c
    · subst h; simp
    · have h' : ¬ c = d := fun e => h e.symm
      simp only [h, decide_false, h', false_or]
      exact ih


/-! ### a configuration seen as a set of name classes -/

/-- what each name of the (effective) configuration stands for: `some none` = plain, `some (some c)` = cipher `c`, `none` = unknown -/
def classes (names : List String) : List (Option (Option Cipher)) := (effective names).map parseAlgoName

theorem all_known_iff_classes (names : List String) : (effective names).all knownName = true ↔ none ∉ classes names := by
  unfold classes
  simp only [List.all_eq_true, List.mem_map, not_exists, not_and, knownName_iff]

theorem any_plain_iff_classes (names : List String) : (effective names).any isPlainName = true ↔ some none ∈ classes names := by
  unfold classes
  simp only [List.any_eq_true, List.mem_map, parseAlgoName_plain_iff]

theorem mem_ciphers_iff_classes (names : List String) (c : Cipher) :
    c ∈ (effective names).filterMap cipherOfName ↔ some (some c) ∈ classes names := by
  unfold classes
  simp only [List.mem_filterMap, List.mem_map, parseAlgoName_cipher_iff]

theorem any_plain_effective (names : List String) :
    (effective names).any isPlainName = true ↔ ∃ n ∈ names, isPlainName n = true := by
  cases names with
  | nil => rw [effective_nil, default_noplain]; simp
  | cons a l => rw [effective_of_ne_nil (by simp)]; simp

/-- the closed form of parse-then-attach -/
theorem map_attach_closed (names : List String) (speed : Cipher → Nat) :
    (parseAlgorithms names).map (attach speed) =
      if (effective names).all knownName then
        some (attach speed ((effective names).any isPlainName, (effective names).filterMap cipherOfName))
      else none := by
  rw [parseAlgorithms_closed]
  split <;> rfl

/-- the reference depends on both lists only through the flag and `speedOf` -/
theorem selectRef_ext (a a' b b' : Algos) (ha : ∀ c, speedOf a c = speedOf a' c) (hua : a.allowUnencrypted = a'.allowUnencrypted)
    (hb : ∀ c, speedOf b c = speedOf b' c) (hub : b.allowUnencrypted = b'.allowUnencrypted) : selectRef a b = selectRef a' b' := by
  have hc : common a b = common a' b' := by
    unfold common
    congr 1
    funext c
    rw [ha c, hb c]
  unfold selectRef
  rw [hc, hua, hub]

theorem selectRef_symm' (a b : Algos) : selectRef a b = selectRef b a := by
  unfold selectRef
  rw [common_symm a b, Bool.and_comm]

end VpnCloud.Proofs.C06ConfigLemmas
