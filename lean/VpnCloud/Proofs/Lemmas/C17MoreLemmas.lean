import VpnCloud.Model.Beacon
import VpnCloud.Spec.C17
import VpnCloud.Proofs.C18
import VpnCloud.Proofs.Lemmas.BeaconLemmas
/-
  Helper lemmas for `Proofs/C17More.lean`: characters (alphanumeric = base-62 digit), `sanitize` on
  interleaved text, transfer of `isPrefixOf` between a text and its extensions, the scanning loop of
  `decode` reaching an embedded beacon, byte length of `from_base62`.
-/
namespace VpnCloud.Proofs.C17MoreLemmas
open VpnCloud VpnCloud.Beacon VpnCloud.Codec VpnCloud.Base62 VpnCloud.Spec.C17 VpnCloud.Proofs.C17
open VpnCloud.Proofs.BeaconLemmas VpnCloud.Proofs.Base62Lemmas

/-! ## characters -/

/-- what `base_62_sanitize` keeps (`is_ascii_alphanumeric`) is accepted by `from_base62` -/
theorem charVal_isSome_of_alnum (c : Char) (h : c.isAlphanum = true) : (charVal c).isSome = true := by
  simp only [Char.isAlphanum, Char.isAlpha, Char.isUpper, Char.isLower, Char.isDigit, Bool.or_eq_true,
    Bool.and_eq_true, decide_eq_true_eq] at h
  unfold charVal
  simp only [Char.le_def, UInt32.le_iff_toNat_le] at *
  have e0 : ('0' : Char).val.toNat = 48 := rfl
  have e9 : ('9' : Char).val.toNat = 57 := rfl
  have eA : ('A' : Char).val.toNat = 65 := rfl
  have eZ : ('Z' : Char).val.toNat = 90 := rfl
  have ea : ('a' : Char).val.toNat = 97 := rfl
  have ez : ('z' : Char).val.toNat = 122 := rfl
  simp only [e0, e9, eA, eZ, ea, ez]
  generalize c.val.toNat = n at *
  split
  · rfl
  · split
    · rfl
    · split
      · rfl
      · exfalso; simp at h; omega

theorem alphabet_alnum : ∀ d < 62, (alphabet.getD d '?').isAlphanum = true := by decide +kernel

/-- the output of `to_base62` is alphanumeric -/
theorem toBase62_alnum (b : Bytes) (hb : Bytes.WF b) (cs : List Char) (h : toBase62 b = some cs) :
    ∀ c ∈ cs, c.isAlphanum = true := by
  obtain ⟨ds, e, c, _⟩ := VpnCloud.Proofs.C18.toBase62_spec b hb
  rw [e] at h
  cases h
  intro x hx
  rw [List.mem_map] at hx
  obtain ⟨d, hd, rfl⟩ := hx
  exact alphabet_alnum d (c.1 d (List.mem_reverse.mp hd))

theorem marker_alnum (env : BeaconEnv) (h : EnvWF env) (t : Nat) : ∀ c ∈ marker env t, c.isAlphanum = true := by
  intro c hc
  unfold marker at hc
  cases e : toBase62 (env.ks t 0 0) with
  | none => rw [e] at hc; simp at hc
  | some cs =>
    rw [e] at hc
    exact toBase62_alnum _ (h.ks_wf t 0 0).1 cs e c (List.mem_of_mem_take hc)

theorem peerlistEncode_alnum (env : BeaconEnv) (h : EnvWF env) (peers : List SockAddr) (hour : Nat)
    (hp : ∀ a ∈ peers, sockWF a = true) (body : List Char) (hb : peerlistEncode env peers hour = some body) :
    ∀ c ∈ body, c.isAlphanum = true :=
  toBase62_alnum _ (encryptData_wf env h _ (plainBody_wf peers hour hp)) body hb

/-! ## `sanitize` -/

theorem sanitize_append (a b : List Char) : sanitize (a ++ b) = sanitize a ++ sanitize b := List.filter_append ..

theorem sanitize_alnum (s : List Char) : ∀ c ∈ sanitize s, c.isAlphanum = true :=
  fun _ hc => (List.mem_filter.mp hc).2

theorem sanitize_id (s : List Char) (h : ∀ c ∈ s, c.isAlphanum = true) : sanitize s = s :=
  List.filter_eq_self.mpr h

theorem sanitize_junk (s : List Char) (h : ∀ c ∈ s, c.isAlphanum = false) : sanitize s = [] := by
  apply List.filter_eq_nil_iff.mpr
  intro c hc; simp [h c hc]

theorem sanitize_idem (s : List Char) : sanitize (sanitize s) = sanitize s := sanitize_id _ (sanitize_alnum s)

/-- `interleave text junk`: the text with the `i`-th junk string put in front of its `i`-th character; the junk
    strings that are left over follow behind the last character -/
def interleave : List Char → List (List Char) → List Char
  | [], js => js.flatten
  | c :: cs, [] => c :: cs
  | c :: cs, j :: js => j ++ c :: interleave cs js

/-- `sanitize` drops exactly the junk: interleaving non-alphanumeric characters is invisible to the decoder -/
theorem sanitize_interleave (text : List Char) (js : List (List Char))
    (hj : ∀ j ∈ js, ∀ c ∈ j, c.isAlphanum = false) : sanitize (interleave text js) = sanitize text := by
  induction text generalizing js with
  | nil =>
    simp only [interleave]
    apply sanitize_junk
    intro c hc
    rw [List.mem_flatten] at hc
    obtain ⟨j, hj1, hj2⟩ := hc
    exact hj j hj1 c hj2
  | cons c cs ih =>
    cases js with
    | nil => rfl
    | cons j js =>
      simp only [interleave]
      rw [sanitize_append, sanitize_junk j (hj j List.mem_cons_self), List.nil_append]
      show sanitize ([c] ++ interleave cs js) = sanitize ([c] ++ cs)
      rw [sanitize_append, sanitize_append, ih js (fun j' hj' => hj j' (List.mem_cons_of_mem _ hj'))]

/-! ## `isPrefixOf` inside an extended text -/

theorem isPrefixOf_eq_take (n l : List Char) : n.isPrefixOf l = decide (l.take n.length = n) := by
  rw [Bool.eq_iff_iff, List.isPrefixOf_iff_prefix, decide_eq_true_eq, List.prefix_iff_eq_take]
  exact eq_comm

/-- an occurrence test that lies inside `l` does not see what follows `l` -/
theorem isPrefixOf_drop_append (n l r : List Char) (j : Nat) (h : j + n.length ≤ l.length) :
    n.isPrefixOf ((l ++ r).drop j) = n.isPrefixOf (l.drop j) := by
  rw [isPrefixOf_eq_take, isPrefixOf_eq_take, List.drop_append_of_le_length (by omega),
    List.take_append_of_le_length (by rw [List.length_drop]; omega)]

theorem occ_here (n r : List Char) : n.isPrefixOf (n ++ r) = true := isPrefixOf_append_self n r

theorem occ_after (x n r : List Char) : n.isPrefixOf ((x ++ n ++ r).drop x.length) = true := by
  rw [List.append_assoc, List.drop_left]; exact occ_here n r

theorem isPrefixOf_length_le (n l : List Char) (h : n.isPrefixOf l = true) : n.length ≤ l.length := by
  rw [List.isPrefixOf_iff_prefix] at h; exact h.length_le

/-- if the needle occurs at `i`, the search succeeds at or before `i` -/
theorem findSub_le_of_occ (hay needle : List Char) (i : Nat) (hi : i ≤ hay.length)
    (h : needle.isPrefixOf (hay.drop i) = true) : ∃ k, k ≤ i ∧ findSub hay needle = some k := by
  cases e : findSub hay needle with
  | none => have := findSub_none' e i hi; rw [h] at this; cases this
  | some k =>
    refine ⟨k, ?_, rfl⟩
    obtain ⟨_, _, hmin⟩ := findSub_some e
    apply Nat.le_of_not_lt
    intro hlt
    have := hmin i hlt; rw [h] at this; cases this

/-! ## the scanning loop reaches an embedded beacon -/

/-- no occurrence of `B` in `X ++ B` overlaps the final `B` properly (an occurrence that starts inside `X` ends
    inside `X`) -/
def NoOverlap (X B : List Char) : Prop :=
  ∀ j, j < X.length → X.length < j + B.length → B.isPrefixOf ((X ++ B).drop j) = false

/-- `B` has no border: no proper non-empty prefix of `B` is also a suffix of `B` -/
def Unbordered (B : List Char) : Prop :=
  ∀ k, 0 < k → k < B.length → B.take k ≠ B.drop (B.length - k)

instance (B : List Char) : Decidable (Unbordered B) := by
  unfold Unbordered
  exact decidable_of_iff (∀ k, k < B.length → 0 < k → B.take k ≠ B.drop (B.length - k))
    ⟨fun h k h1 h2 => h k h2 h1, fun h k h1 h2 => h k h2 h1⟩

/-- an unbordered marker cannot overlap itself, whatever stands in front of it -/
theorem noOverlap_of_unbordered (X B : List Char) (h : Unbordered B) : NoOverlap X B := by
  intro j hj1 hj2
  rw [Bool.eq_false_iff]
  intro hp
  rw [isPrefixOf_eq_take, decide_eq_true_eq, List.drop_append_of_le_length (by omega)] at hp
  -- B = X.drop j ++ B.take k
  have hl : (X.drop j).length = X.length - j := List.length_drop
  rw [List.take_append, hl] at hp
  have hk : B.length - (X.length - j) < B.length := by omega
  have hk0 : 0 < B.length - (X.length - j) := by omega
  apply h _ hk0 hk
  have hd := congrArg (List.drop (B.length - (B.length - (X.length - j)))) hp
  rw [← hd]
  rw [List.take_of_length_le (by omega : (X.drop j).length ≤ B.length)]
  rw [show B.length - (B.length - (X.length - j)) = (X.drop j).length by omega, List.drop_left]

theorem loop_reaches (env : BeaconEnv) (X T Y : List Char) (ttl : Option Nat) (now : Nat)
    (hB : beginMarker env ≠ [])
    (hov : NoOverlap X (beginMarker env))
    (hE : ∀ j, j < T.length → (endMarker env).isPrefixOf ((T ++ endMarker env).drop j) = false) :
    ∀ fuel pos, pos ≤ X.length → X.length + 1 ≤ fuel + pos →
      ∃ before fuel', fuel + pos ≤ fuel' + (X.length + (beginMarker env).length) ∧
        decodeLoop env (X ++ (beginMarker env ++ (T ++ (endMarker env ++ Y)))) ttl now fuel pos =
          before ++ peerlistDecode env T ttl now ++
            decodeLoop env (X ++ (beginMarker env ++ (T ++ (endMarker env ++ Y)))) ttl now fuel'
              (X.length + (beginMarker env).length) := by
  generalize hBd : beginMarker env = B at *
  generalize hEd : endMarker env = E at *
  have hB1 : 1 ≤ B.length := by
    cases B with
    | nil => exact absurd rfl hB
    | cons _ _ => simp
  generalize hdata : X ++ (B ++ (T ++ (E ++ Y))) = data
  have f1 : data.drop X.length = B ++ (T ++ (E ++ Y)) := by rw [← hdata, List.drop_left]
  have f2 : data.drop (X.length + B.length) = T ++ (E ++ Y) := by
    rw [← List.drop_drop, f1, List.drop_left]
  have f3 : data.drop (X.length + B.length + T.length) = E ++ Y := by
    rw [← List.drop_drop, f2, List.drop_left]
  have hlen : data.length = X.length + B.length + T.length + E.length + Y.length := by
    rw [← hdata]; simp only [List.length_append]; omega
  have hXB : data = (X ++ B) ++ (T ++ (E ++ Y)) := by rw [← hdata, List.append_assoc]
  intro fuel
  induction fuel with
  | zero => intro pos h1 h2; omega
  | succ n ih =>
    intro pos h1 h2
    -- the begin marker is found at or before `X.length`
    have occB : B.isPrefixOf ((data.drop pos).drop (X.length - pos)) = true := by
      rw [List.drop_drop, show pos + (X.length - pos) = X.length by omega, f1]; exact occ_here _ _
    obtain ⟨k, hk, hfind⟩ := findSub_le_of_occ (data.drop pos) B (X.length - pos)
      (by rw [List.length_drop]; omega) occB
    obtain ⟨_, hkocc, _⟩ := findSub_some hfind
    rw [List.drop_drop] at hkocc
    rw [decodeLoop_succ, hBd, hEd, hfind]
    by_cases hp : pos + k = X.length
    · -- our beacon
      have fE : findSub (data.drop (pos + k + B.length)) E = some T.length := by
        rw [hp, f2]
        apply findSub_first _ _ T.length (by simp only [List.length_append]; omega)
        · rw [List.drop_left]; exact occ_here _ _
        · intro j hj
          rw [← List.append_assoc, isPrefixOf_drop_append _ _ _ _ (by simp only [List.length_append]; omega)]
          exact hE j hj
      simp only [fE]
      refine ⟨[], n, by omega, ?_⟩
      rw [hp, f2, Nat.add_sub_cancel_left, List.take_left, List.nil_append]
    · -- an earlier occurrence: it ends inside `X`
      have hpl : pos + k < X.length := by omega
      have hin : pos + k + B.length ≤ X.length := by
        apply Nat.le_of_not_lt
        intro hlt
        have := hov (pos + k) hpl hlt
        rw [hXB, isPrefixOf_drop_append _ _ _ _ (by simp only [List.length_append]; omega)] at hkocc
        rw [this] at hkocc; cases hkocc
      have occE : E.isPrefixOf ((data.drop (pos + k + B.length)).drop
          (X.length + B.length + T.length - (pos + k + B.length))) = true := by
        rw [List.drop_drop, show pos + k + B.length + (X.length + B.length + T.length - (pos + k + B.length)) =
          X.length + B.length + T.length by omega, f3]
        exact occ_here _ _
      obtain ⟨g, _, hfindE⟩ := findSub_le_of_occ _ E _ (by rw [List.length_drop]; omega) occE
      simp only [hfindE]
      obtain ⟨before, fuel', hf, e⟩ := ih (pos + k + B.length) hin (by omega)
      refine ⟨peerlistDecode env ((data.drop (pos + k + B.length)).take
        (pos + k + B.length + g - (pos + k + B.length))) ttl now ++ before, fuel', by omega, ?_⟩
      rw [e]; simp only [List.append_assoc]

end VpnCloud.Proofs.C17MoreLemmas

/-! ## the panic sites of `decode` made explicit -/
namespace VpnCloud.Proofs.C17More
open VpnCloud VpnCloud.Beacon VpnCloud.Codec VpnCloud.Base62 VpnCloud.Spec.C17 VpnCloud.Proofs.C17

/-!
  A copy of the model of `decode` / `peerlist_decode` / `decrypt_data` / `mask_with_keystream` in which every
  Rust expression that can panic (slice, index, `expect`, `unwrap`, `assert!`) returns `none` when its
  condition fails.  It is used only to STATE `decode_never_panics`: the instrumented copy never returns `none`
  and agrees with the model.

  The copy mirrors the CURRENT code.  Since /repo commit "fix: do not overflow the keystream block counter …"
  the block counter of `mask_with_keystream` is advanced with `iter = iter.wrapping_add(1)`: that expression
  cannot panic in any build profile, so the mask loop has no overflow panic site any more and the copy needs no
  build-profile parameter.  The code as it was before the fix is kept in `namespace Old` below (regression).
-/
namespace Checked

/-- `&l[a..b]` : `none` = slice index panic -/
def slice (l : List Char) (a b : Nat) : Option (List Char) :=
  if a ≤ b ∧ b ≤ l.length then some ((l.drop a).take (b - a)) else none

/-- `to_base62(&self.get_keystream(type, 0, 0))[0..5]` -/
def markerChk (env : BeaconEnv) (type : Nat) : Option (List Char) :=
  match toBase62 (env.ks type 0 0) with
  | none => none                                   -- panic inside `to_base62`
  | some s => if s.length < 5 then none else some (s.take 5)   -- `[0..5]`

/-- `mask_with_keystream`: the only panic site left is the index `mask[pos]`; `iter = iter.wrapping_add(1)` wraps
    modulo 256 and cannot panic -/
def maskFromChk (env : BeaconEnv) (type seed : Nat) : Bytes → Nat → Nat → Option Bytes
  | [], _, _ => some []
  | b :: rest, iter, pos =>
    match (env.ks type seed iter)[pos]? with
    | none => none                                 -- `mask[pos]`
    | some m =>
      if pos + 1 = 16 then
        -- `iter = iter.wrapping_add(1)`
        (maskFromChk env type seed rest ((iter + 1) % 256) 0).map (fun r => (b ^^^ m) :: r)
      else (maskFromChk env type seed rest iter (pos + 1)).map (fun r => (b ^^^ m) :: r)

/-- `decrypt_data`: outer `none` = panic, inner `none` = `false` -/
def decryptDataChk (env : BeaconEnv) (data : Bytes) : Option (Option Bytes) :=
  if data.isEmpty then some none else
  match data.getLast? with
  | none => none                                   -- `data.pop().unwrap()`
  | some last =>
    match (env.ks TYPE_SEED 0 0)[0]? with
    | none => none                                 -- `get_keystream(TYPE_SEED, 0, 0)[0]`
    | some s0 =>
      let seed := last ^^^ s0
      match maskFromChk env TYPE_DATA seed data.dropLast 0 0 with
      | none => none
      | some body => some (if seed = env.h0 body then some body else none)

/-- the IPv4 loop; the argument is `data[pos..]` -/
def readV4sChk : Nat → Bytes → Option (List SockAddr)
  | 0, _ => some []
  | n + 1, d =>
    if d.length < 6 then none                      -- `assert!(data.len() >= pos + 6)`, `&data[pos..pos + 6]`
    else (readV4sChk n (d.drop 6)).map (fun r => .v4 (d.take 4) ((d.getD 4 0) * 256 + d.getD 5 0) :: r)

def readV6sChk : Nat → Bytes → Option (List SockAddr)
  | 0, _ => some []
  | n + 1, d =>
    if d.length < 18 then none                     -- `assert!(data.len() >= pos + 18)`, `&data[pos..pos + 18]`
    else (readV6sChk n (d.drop 18)).map (fun r => .v6 (d.take 16) ((d.getD 16 0) * 256 + d.getD 17 0) :: r)

/-- the part of `peerlist_decode` behind `decrypt_data` (`d` = the decrypted data) -/
def bodyParseChk (d : Bytes) (ttl : Option Nat) (now : Nat) : Option (List SockAddr) :=
  if d.length < 2 then none else                   -- `&data[pos..=pos + 1]`, pos = 0
  let thn := d.getD 0 0 * 256 + d.getD 1 0
  if (match ttl with | some t => tooOld now thn t | none => false) then some [] else
  if d.length < 3 then none else                   -- `data[pos]`, pos = 2; `data.len() - pos`, pos = 3
  let v4count := d.getD 2 0
  let rest := d.length - 3
  -- `(data.len() - pos - v4count * 6)` is evaluated only if `v4count * 6 <= data.len() - pos`
  if v4count * 6 > rest ∨ (rest - v4count * 6) % 18 > 0 then some [] else
  match readV4sChk v4count (d.drop 3), readV6sChk ((rest - v4count * 6) / 18) (d.drop (3 + v4count * 6)) with
  | some a, some b => some (a ++ b)
  | _, _ => none

/-- `peerlist_decode` -/
def peerlistDecodeChk (env : BeaconEnv) (text : List Char) (ttl : Option Nat) (now : Nat) :
    Option (List SockAddr) :=
  match fromBase62 text with
  | .error _ => none                               -- `.expect("Invalid input")`
  | .ok data =>
    if data.length < 4 then some [] else
    match decryptDataChk env data with
    | none => none
    | some none => some []
    | some (some d) => bodyParseChk d ttl now

/-- the `while` loop of `decode`; `none` also when the loop has not ended after `fuel` rounds -/
def decodeLoopChk (env : BeaconEnv) (B E data : List Char) (ttl : Option Nat) (now : Nat) :
    Nat → Nat → Option (List SockAddr)
  | 0, _ => none
  | fuel + 1, pos =>
    if pos > data.length then none else            -- `data[pos..]`
    match findSub (data.drop pos) B with
    | none => some []
    | some f =>
      let startPos := pos + f + B.length
      if startPos > data.length then none else     -- `data[start_pos..]`
      match findSub (data.drop startPos) E with
      | none => some []
      | some g =>
        match slice data startPos (startPos + g) with      -- `&data[start_pos..end_pos]`
        | none => none
        | some cand =>
          match peerlistDecodeChk env cand ttl now, decodeLoopChk env B E data ttl now fuel startPos with
          | some a, some b => some (a ++ b)
          | _, _ => none

/-- `decode` -/
def decodeChk (env : BeaconEnv) (text : List Char) (ttl : Option Nat) (now : Nat) :
    Option (List SockAddr) :=
  match markerChk env TYPE_BEGIN, markerChk env TYPE_END with
  | some B, some E => decodeLoopChk env B E (sanitize text) ttl now ((sanitize text).length + 1) 0
  | _, _ => none

end Checked

/-!
  REGRESSION — the defect that was fixed in /repo commit "fix: do not overflow the keystream block counter …".
  Before the fix `mask_with_keystream` declared `let mut iter = 0` (a `u8` by inference) and advanced it with
  `iter += 1`: in a build with overflow checks (debug / test profile) this panics ("attempt to add with
  overflow") when the 256th block ends, i.e. as soon as 4096 bytes have been masked.  The definitions below are
  the instrumented copy of the OLD code in such a build; they are used only by the regression theorems
  `old_counter_overflows` … `overflow_text_exists_old` of `Proofs/C17More.lean`, which keep the history of the
  finding machine-checked.
-/
namespace Old
open Checked

/-- the OLD `mask_with_keystream` (before the fix) in a build with overflow checks: `iter += 1` on a `u8` -/
def maskFromOld (env : BeaconEnv) (type seed : Nat) : Bytes → Nat → Nat → Option Bytes
  | [], _, _ => some []
  | b :: rest, iter, pos =>
    match (env.ks type seed iter)[pos]? with
    | none => none                                 -- `mask[pos]`
    | some m =>
      if pos + 1 = 16 then
        if iter + 1 ≥ 256 then none                -- `iter += 1`: "attempt to add with overflow"
        else (maskFromOld env type seed rest (iter + 1) 0).map (fun r => (b ^^^ m) :: r)
      else (maskFromOld env type seed rest iter (pos + 1)).map (fun r => (b ^^^ m) :: r)

/-- `decrypt_data` over the old mask loop -/
def decryptDataOld (env : BeaconEnv) (data : Bytes) : Option (Option Bytes) :=
  if data.isEmpty then some none else
  match data.getLast? with
  | none => none
  | some last =>
    match (env.ks TYPE_SEED 0 0)[0]? with
    | none => none
    | some s0 =>
      let seed := last ^^^ s0
      match maskFromOld env TYPE_DATA seed data.dropLast 0 0 with
      | none => none
      | some body => some (if seed = env.h0 body then some body else none)

/-- `peerlist_decode` over the old mask loop -/
def peerlistDecodeOld (env : BeaconEnv) (text : List Char) (ttl : Option Nat) (now : Nat) :
    Option (List SockAddr) :=
  match fromBase62 text with
  | .error _ => none
  | .ok data =>
    if data.length < 4 then some [] else
    match decryptDataOld env data with
    | none => none
    | some none => some []
    | some (some d) => bodyParseChk d ttl now

end Old

/-- `begin()` and `end()` do not panic: the base-62 text of the two marker hashes has at least 5 characters
    (it has 86 unless the hash starts with zero bytes) -/
def MarkersOK (env : BeaconEnv) : Prop :=
  (∃ s, toBase62 (env.ks TYPE_BEGIN 0 0) = some s ∧ 5 ≤ s.length) ∧
  (∃ s, toBase62 (env.ks TYPE_END 0 0) = some s ∧ 5 ≤ s.length)

end VpnCloud.Proofs.C17More

namespace VpnCloud.Proofs.C17MoreLemmas
open VpnCloud VpnCloud.Beacon VpnCloud.Codec VpnCloud.Base62 VpnCloud.Spec.C17 VpnCloud.Proofs.C17
open VpnCloud.Proofs.BeaconLemmas VpnCloud.Proofs.Base62Lemmas
open VpnCloud.Proofs.C17More VpnCloud.Proofs.C17More.Checked VpnCloud.Proofs.C17More.Old

theorem ks_idx (env : BeaconEnv) (h : EnvWF env) (t s i p : Nat) (hp : p < 64) :
    (env.ks t s i)[p]? = some ((env.ks t s i).getD p 0) := by
  have hl := (h.ks_wf t s i).2
  rw [List.getD_eq_getElem?_getD, List.getElem?_eq_getElem (by omega)]; rfl

/-- the mask loop never panics, for data of every length: the index `mask[pos]` stays below 16 and the block
    counter wraps -/
theorem maskFromChk_eq (env : BeaconEnv) (h : EnvWF env) (t s : Nat) (d : Bytes) :
    ∀ iter pos, pos < 16 → maskFromChk env t s d iter pos = some (maskFrom env t s d iter pos) := by
  induction d with
  | nil => intro iter pos _; simp only [maskFromChk, maskFrom_nil]
  | cons b r ih =>
    intro iter pos hp
    rw [maskFromChk, maskFrom_cons, ks_idx env h _ _ _ _ (by omega)]
    by_cases h16 : pos + 1 = 16
    · simp only [h16, if_true]
      rw [ih ((iter + 1) % 256) 0 (by omega)]; rfl
    · simp only [h16, if_false]
      rw [ih iter (pos + 1) (by omega)]; rfl

/-- REGRESSION (old code, build with overflow checks): `iter += 1` panics exactly when the 4096th byte has been
    masked; below that the old loop computes what the model computes -/
theorem maskFromOld_eq (env : BeaconEnv) (h : EnvWF env) (t s : Nat) (d : Bytes) :
    ∀ iter pos, pos < 16 → iter < 256 →
      maskFromOld env t s d iter pos =
        if 4096 ≤ 16 * iter + pos + d.length then none else some (maskFrom env t s d iter pos) := by
  induction d with
  | nil =>
    intro iter pos hp hi
    simp only [maskFromOld, maskFrom_nil, List.length_nil]
    rw [if_neg (by omega)]
  | cons b r ih =>
    intro iter pos hp hi
    rw [maskFromOld, maskFrom_cons, ks_idx env h _ _ _ _ (by omega)]
    simp only [List.length_cons]
    by_cases h16 : pos + 1 = 16
    · simp only [h16, if_true]
      by_cases hov : iter + 1 ≥ 256
      · rw [if_pos hov, if_pos (by omega)]
      · rw [if_neg hov, Nat.mod_eq_of_lt (by omega), ih (iter + 1) 0 (by omega) (by omega)]
        by_cases hc : 4096 ≤ 16 * (iter + 1) + 0 + r.length
        · rw [if_pos hc, if_pos (by omega)]; rfl
        · rw [if_neg hc, if_neg (by omega)]; rfl
    · simp only [h16, if_false]
      rw [ih iter (pos + 1) (by omega) hi]
      by_cases hc : 4096 ≤ 16 * iter + (pos + 1) + r.length
      · rw [if_pos hc, if_pos (by omega)]; rfl
      · rw [if_neg hc, if_neg (by omega)]; rfl

theorem decryptDataChk_eq (env : BeaconEnv) (h : EnvWF env) (data : Bytes) :
    decryptDataChk env data = some (decryptData env data) := by
  unfold decryptDataChk decryptData
  cases hl : data.getLast? with
  | none =>
    have : data = [] := by simpa using hl
    subst this; rfl
  | some last =>
    have hne : data.isEmpty = false := by
      cases data with
      | nil => simp at hl
      | cons _ _ => rfl
    simp only [hne, Bool.false_eq_true, if_false]
    rw [ks_idx env h _ _ _ _ (by omega)]
    simp only []
    rw [maskFromChk_eq env h _ _ data.dropLast 0 0 (by omega)]
    rfl

theorem readV4sChk_eq : ∀ (n : Nat) (d : Bytes), n * 6 ≤ d.length → readV4sChk n d = some (readV4s n d)
  | 0, _, _ => rfl
  | n + 1, d, h => by
    rw [readV4sChk, readV4s, if_neg (by omega), readV4sChk_eq n (d.drop 6) (by rw [List.length_drop]; omega)]; rfl

theorem readV6sChk_eq : ∀ (n : Nat) (d : Bytes), n * 18 ≤ d.length → readV6sChk n d = some (readV6s n d)
  | 0, _, _ => rfl
  | n + 1, d, h => by
    rw [readV6sChk, readV6s, if_neg (by omega), readV6sChk_eq n (d.drop 18) (by rw [List.length_drop]; omega)]; rfl

/-- the buffer of `from_base62` grows by at most one byte per character -/
theorem fromChars_length (cs : List Char) : ∀ (buf out : List Nat), fromChars cs buf = .ok out →
    out.length ≤ buf.length + cs.length := by
  induction cs with
  | nil => intro buf out e; simp only [fromChars] at e; cases e; simp
  | cons c rest ih =>
    intro buf out e
    unfold fromChars at e
    cases hv : charVal c with
    | none => rw [hv] at e; cases e
    | some v =>
      rw [hv] at e
      have := ih _ _ e
      have hl : (mulAddLoop buf v).1.length = buf.length := by rw [mulAddLoop_eq, gloop_length]
      split at this
      · simp only [List.length_append, List.length_cons, List.length_nil, hl] at this
        simp only [List.length_cons]; omega
      · rw [hl] at this; simp only [List.length_cons]; omega

theorem fromBase62_length (cs : List Char) (data : Bytes) (h : fromBase62 cs = .ok data) : data.length ≤ cs.length := by
  unfold fromBase62 at h
  cases e : fromChars cs [] with
  | error c => rw [e] at h; cases h
  | ok buf =>
    rw [e] at h
    cases h
    have := fromChars_length cs [] buf e
    simpa using this

theorem decryptData_length (env : BeaconEnv) (data d : Bytes) (h : decryptData env data = some d) :
    d.length + 1 = data.length ∨ (d.length = 0 ∧ data.length = 0) := by
  unfold decryptData at h
  cases hl : data.getLast? with
  | none => rw [hl] at h; cases h
  | some last =>
    rw [hl] at h
    simp only at h
    split at h
    · cases h
      left
      rw [mask, maskFrom_length, List.length_dropLast]
      cases data with
      | nil => simp at hl
      | cons _ _ => simp
    · cases h

/-- the part of `peerlist_decode` behind `decrypt_data`: no panic on 3 bytes or more -/
theorem bodyParseChk_eq (d : Bytes) (ttl : Option Nat) (now : Nat) (hd : 3 ≤ d.length) :
    bodyParseChk d ttl now = some (bodyParse d ttl now) := by
  unfold bodyParseChk bodyParse
  rw [if_neg (by omega)]
  have tail : (if d.length < 3 then none else
      if d.getD 2 0 * 6 > d.length - 3 ∨ (d.length - 3 - d.getD 2 0 * 6) % 18 > 0 then some [] else
      match readV4sChk (d.getD 2 0) (d.drop 3),
        readV6sChk ((d.length - 3 - d.getD 2 0 * 6) / 18) (d.drop (3 + d.getD 2 0 * 6)) with
      | some a, some b => some (a ++ b)
      | _, _ => none) =
      some (if d.getD 2 0 * 6 > d.length - 3 ∨ (d.length - 3 - d.getD 2 0 * 6) % 18 > 0 then [] else
        readV4s (d.getD 2 0) (d.drop 3) ++
          readV6s ((d.length - 3 - d.getD 2 0 * 6) / 18) (d.drop (3 + d.getD 2 0 * 6))) := by
    rw [if_neg (by omega)]
    by_cases hc : d.getD 2 0 * 6 > d.length - 3 ∨ (d.length - 3 - d.getD 2 0 * 6) % 18 > 0
    · rw [if_pos hc, if_pos hc]
    · rw [if_neg hc, if_neg hc, readV4sChk_eq _ _ (by rw [List.length_drop]; omega),
        readV6sChk_eq _ _ (by rw [List.length_drop]; omega)]
  cases ttl with
  | none => simp only [Bool.false_eq_true, if_false]; exact tail
  | some t =>
    simp only []
    by_cases hto : tooOld now (d.getD 0 0 * 256 + d.getD 1 0) t = true
    · rw [if_pos hto, if_pos hto]
    · rw [if_neg hto, if_neg hto]; exact tail

/-- `peerlist_decode` on sanitised text of any length: no panic, and the result of the model -/
theorem peerlistDecodeChk_eq (env : BeaconEnv) (h : EnvWF env) (text : List Char) (ttl : Option Nat)
    (now : Nat) (hal : ∀ c ∈ text, c.isAlphanum = true) :
    peerlistDecodeChk env text ttl now = some (peerlistDecode env text ttl now) := by
  obtain ⟨data, e, _, _, _⟩ := VpnCloud.Proofs.C18.fromBase62_spec text (fun c hc => charVal_isSome_of_alnum c (hal c hc))
  rw [peerlistDecode_eq]
  unfold peerlistDecodeChk
  rw [e]
  simp only []
  by_cases h4 : data.length < 4
  · simp only [h4, if_true]
  · simp only [h4, if_false]
    rw [decryptDataChk_eq env h data]
    cases hd : decryptData env data with
    | none => rfl
    | some d =>
      simp only []
      have hdl : d.length + 1 = data.length := by
        rcases decryptData_length env data d hd with h1 | h1
        · exact h1
        · omega
      exact bodyParseChk_eq d ttl now (by omega)

theorem slice_eq (l : List Char) (a g : Nat) (h : a + g ≤ l.length) :
    slice l a (a + g) = some ((l.drop a).take (a + g - a)) := by
  unfold slice; rw [if_pos ⟨by omega, h⟩]

/-- the loop of `decode` on sanitised text: no slice panics, the loop ends before the fuel does, every candidate
    is decoded without panic -/
theorem decodeLoopChk_eq (env : BeaconEnv) (h : EnvWF env) (data : List Char) (ttl : Option Nat)
    (now : Nat) (hal : ∀ c ∈ data, c.isAlphanum = true)
    (hB : 1 ≤ (beginMarker env).length) :
    ∀ fuel pos, pos ≤ data.length → data.length + 1 ≤ fuel + pos →
      decodeLoopChk env (beginMarker env) (endMarker env) data ttl now fuel pos =
        some (decodeLoop env data ttl now fuel pos) := by
  intro fuel
  induction fuel with
  | zero => intro pos h1 h2; omega
  | succ n ih =>
    intro pos h1 h2
    rw [decodeLoopChk, decodeLoop_succ, if_neg (by omega)]
    cases hf : findSub (data.drop pos) (beginMarker env) with
    | none => rfl
    | some f =>
      simp only []
      obtain ⟨hf1, hf2, _⟩ := findSub_some hf
      have hlB := isPrefixOf_length_le _ _ hf2
      rw [List.length_drop, List.length_drop] at hlB
      rw [List.length_drop] at hf1
      rw [if_neg (by omega)]
      cases hg : findSub (data.drop (pos + f + (beginMarker env).length)) (endMarker env) with
      | none => rfl
      | some g =>
        simp only []
        obtain ⟨hg1, _, _⟩ := findSub_some hg
        rw [List.length_drop] at hg1
        rw [slice_eq _ _ _ (by omega)]
        simp only []
        have hcand : ∀ c ∈ (data.drop (pos + f + (beginMarker env).length)).take
            (pos + f + (beginMarker env).length + g - (pos + f + (beginMarker env).length)), c.isAlphanum = true :=
          fun c hc => hal c (List.mem_of_mem_drop (List.mem_of_mem_take hc))
        rw [peerlistDecodeChk_eq env h _ ttl now hcand, ih _ (by omega) (by omega)]

theorem markerChk_some (env : BeaconEnv) (t : Nat) (s : List Char) (h1 : toBase62 (env.ks t 0 0) = some s)
    (h2 : 5 ≤ s.length) : markerChk env t = some (marker env t) ∧ (marker env t).length = 5 := by
  unfold markerChk marker
  rw [h1]
  simp only [Option.getD_some, List.length_take]
  rw [if_neg (by omega)]
  exact ⟨rfl, by omega⟩

/-! ## when `begin()` / `end()` do not panic: at least 5 base-62 digits -/

/-- the text of `to_base62` has 5 characters or more iff the bytes denote a number of at least `62^4` -/
theorem toBase62_len5_iff (b : Bytes) (hb : Bytes.WF b) :
    (∃ s, toBase62 b = some s ∧ 5 ≤ s.length) ↔ 14776336 ≤ Bytes.beVal b := by
  obtain ⟨ds, e, c, v⟩ := VpnCloud.Proofs.C18.toBase62_spec b hb
  rw [e, ← v]
  constructor
  · rintro ⟨s, hs, hl⟩
    cases hs
    simp only [List.length_map, List.length_reverse] at hl
    match ds, c, hl with
    | d0 :: d1 :: d2 :: d3 :: d4 :: rest, c, _ =>
      have c4 : Canon 62 (d4 :: rest) := canon_tail (canon_tail (canon_tail (canon_tail c)))
      have hne : leVal 62 (d4 :: rest) ≠ 0 := fun h0 => by
        have := canon_val_zero 62 _ c4 h0; cases this
      simp only [leVal_cons] at hne ⊢
      omega
  · intro hv
    refine ⟨_, rfl, ?_⟩
    simp only [List.length_map, List.length_reverse]
    apply Nat.le_of_not_lt
    intro hlt
    have hd := c.1
    match ds, hd, hv, hlt with
    | [], _, hv, _ => simp only [leVal_nil] at hv; omega
    | [a], hd, hv, _ =>
      have := hd a (by simp)
      simp only [leVal_cons, leVal_nil] at hv; omega
    | [a, b'], hd, hv, _ =>
      have := hd a (by simp); have := hd b' (by simp)
      simp only [leVal_cons, leVal_nil] at hv; omega
    | [a, b', c'], hd, hv, _ =>
      have := hd a (by simp); have := hd b' (by simp); have := hd c' (by simp)
      simp only [leVal_cons, leVal_nil] at hv; omega
    | [a, b', c', d'], hd, hv, _ =>
      have := hd a (by simp); have := hd b' (by simp); have := hd c' (by simp); have := hd d' (by simp)
      simp only [leVal_cons, leVal_nil] at hv; omega
    | _ :: _ :: _ :: _ :: _ :: _, _, _, hlt => simp only [List.length_cons] at hlt; omega

/-- a non-zero byte at index `i` makes the big-endian value at least `256^(length - 1 - i)` -/
theorem beVal_ge_of_nonzero (b : Bytes) : ∀ (i x : Nat), b[i]? = some x → x ≠ 0 →
    256 ^ (b.length - 1 - i) ≤ Bytes.beVal b := by
  induction b with
  | nil => intro i x h; simp at h
  | cons y r ih =>
    intro i x h hx
    cases i with
    | zero =>
      simp only [List.getElem?_cons_zero, Option.some.injEq] at h
      subst h
      simp only [Bytes.beVal, List.length_cons, Nat.add_sub_cancel, Nat.sub_zero]
      have : 1 * 256 ^ r.length ≤ y * 256 ^ r.length := Nat.mul_le_mul_right _ (by omega)
      omega
    | succ j =>
      simp only [List.getElem?_cons_succ] at h
      have := ih j x h hx
      simp only [Bytes.beVal, List.length_cons]
      rw [show r.length + 1 - 1 - (j + 1) = r.length - 1 - j by omega]
      omega

/-- a 64-byte hash with a non-zero byte among its first 61 bytes has a base-62 text of 5 characters or more -/
theorem len5_of_nonzero (b : Bytes) (hb : Bytes.WF b) (hl : b.length = 64) (i : Nat) (hi : i ≤ 60)
    (hx : b.getD i 0 ≠ 0) : ∃ s, toBase62 b = some s ∧ 5 ≤ s.length := by
  rw [toBase62_len5_iff b hb]
  have hget : b[i]? = some (b.getD i 0) := by
    rw [List.getD_eq_getElem?_getD, List.getElem?_eq_getElem (by omega)]; rfl
  have h1 := beVal_ge_of_nonzero b i _ hget hx
  have h2 : 256 ^ 3 ≤ 256 ^ (b.length - 1 - i) := Nat.pow_le_pow_right (by omega) (by omega)
  have h3 : (256 : Nat) ^ 3 = 16777216 := by decide
  omega

end VpnCloud.Proofs.C17MoreLemmas
