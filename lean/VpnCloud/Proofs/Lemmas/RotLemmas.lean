import VpnCloud.Proofs.C07
/-
  Side-level lemmas for the lock-step progress theorem of `C07More.lean`.

  `AheadL` strengthens `Ahead` by "the end that is ahead has actually sent a message with its current id"
  (an end sends that message in the very cycle in which it advances its id).  `Waiting` is the sub-state of an end
  that has received the peer's latest proposal and will advance at its next cycle.
-/
namespace VpnCloud.Rot

/-- `Ahead` plus: the latest message of the end that is ahead is in the set of sent messages -/
def AheadL (X Y : Side) (sx sy : List Msg) : Prop := Ahead X Y sx sy ∧ ∃ m ∈ sx, m.id = X.id

/-- the end has stored the peer's proposal and has no own proposal outstanding: its next cycle advances its id -/
def Waiting (s : Side) : Prop := s.proposed = none ∧ ∃ ke, s.pending = some ke

/-- deliver the messages of `l` one after the other; each delivery consumes one fresh number -/
def procList : Side → List Msg → Nat → Side
  | Y, [], _ => Y
  | Y, m :: l, f => procList (process Y m f) l (f + 1)

theorem mem_addMsg {l : List Msg} {m : Msg} (o : Option Msg) (h : m ∈ l) : m ∈ addMsg l o := by
  cases o with
  | none => exact h
  | some a => exact List.mem_cons_of_mem _ h

theorem process_id (s : Side) (m : Msg) (f : Nat) : (process s m f).id = s.id := by
  unfold process
  split
  · rfl
  · dsimp only; split <;> rfl

theorem process_waiting {s : Side} (h : Waiting s) (m : Msg) (f : Nat) : Waiting (process s m f) := by
  obtain ⟨hp, ke, hk⟩ := h
  unfold process
  split
  · exact ⟨hp, ke, hk⟩
  · dsimp only; split
    · exact ⟨rfl, _, rfl⟩
    · exact ⟨hp, _, rfl⟩

/-- delivering the latest message of the end that is ahead puts the receiver into `Waiting` -/
theorem process_latest {X Y : Side} {sx sy : List Msg} (h : Ahead X Y sx sy) {m : Msg} (hm : m ∈ sx)
    (hmid : m.id = X.id) (f : Nat) : Waiting (process Y m f) := by
  have hid := h.idrel
  obtain ⟨p, hp⟩ := h.xprop
  have hmeq := h.sxeq m hm hmid p hp
  have hacc : ¬ m.id ≤ Y.id := by omega
  subst hmeq
  simp only [] at hacc
  unfold process
  simp only [hacc, if_false]
  rcases h.xconf with ⟨h1, hc⟩ | ⟨h1, c, hc⟩
  · have hyp : Y.proposed = none := by
      rcases h.ysub with ⟨_, hiff⟩ | ⟨hn, _⟩
      · exact hiff.2 h1
      · exact hn
    simp only [hc, Option.map_none]
    exact ⟨hyp, _, rfl⟩
  · simp only [hc, Option.map_some]
    cases hyp : Y.proposed with
    | none => exact ⟨rfl, _, rfl⟩
    | some q => exact ⟨rfl, _, rfl⟩

theorem cycle_waiting {s : Side} (h : Waiting s) (f : Nat) :
    ∃ key e, cycle s f = ({ s with pending := none, id := s.id + 2, proposed := some f, confirmed := some (e, s.id + 2), slots := install s.slots key (s.id + 2) }, some ⟨s.id + 2, f, some e⟩) := by
  obtain ⟨hp, ⟨key, e⟩, hk⟩ := h
  exact ⟨key, e, cycle_advance hp hk f⟩

theorem cycle_id_of_not_waiting {s : Side} (h : ¬ Waiting s) (f : Nat) : (cycle s f).1.id = s.id := by
  cases hp : s.proposed with
  | some p =>
    cases ht : s.timeout
    · rw [cycle_proposed_notimeout hp ht]
    · rw [cycle_proposed_timeout hp ht]
  | none =>
    cases hq : s.pending with
    | none => rw [cycle_idle hp hq]
    | some ke => exact absurd ⟨hp, ke, hq⟩ h

theorem ahead_not_waiting {X Y : Side} {sx sy : List Msg} (h : Ahead X Y sx sy) : ¬ Waiting X := by
  intro hw
  obtain ⟨p, hp⟩ := h.xprop
  rw [hw.1] at hp; cases hp

/-- a cycle at the end that is ahead: it stays ahead, its id is unchanged -/
theorem aheadL_cycleX {X Y : Side} {sx sy : List Msg} (h : AheadL X Y sx sy) (f : Nat) :
    AheadL (cycle X f).1 Y (addMsg sx (cycle X f).2) sy ∧ (cycle X f).1.id = X.id := by
  have hid := cycle_id_of_not_waiting (ahead_not_waiting h.1) f
  obtain ⟨m, hm, hmid⟩ := h.2
  exact ⟨⟨ahead_cycleX h.1 f, m, mem_addMsg _ hm, by rw [hid]; exact hmid⟩, hid⟩

/-- a cycle at a `Waiting` end that is behind: it advances by 2, becomes the end that is ahead and sends its latest message -/
theorem aheadL_cycleY_waiting {X Y : Side} {sx sy : List Msg} (h : AheadL X Y sx sy) (hw : Waiting Y) (f : Nat) :
    AheadL (cycle Y f).1 X (addMsg sy (cycle Y f).2) sx ∧ (cycle Y f).1.id = Y.id + 2 := by
  obtain ⟨key, e, hc⟩ := cycle_waiting hw f
  have hid : (cycle Y f).1.id = Y.id + 2 := by rw [hc]
  refine ⟨?_, hid⟩
  rcases ahead_cycleY h.1 f with h' | h'
  · have := h'.idrel; have := h.1.idrel; omega
  · refine ⟨h', ?_⟩
    rw [hc]
    exact ⟨_, List.mem_cons_self, rfl⟩

/-- a cycle at an end that is behind and not `Waiting`: nothing moves -/
theorem aheadL_cycleY_not_waiting {X Y : Side} {sx sy : List Msg} (h : AheadL X Y sx sy) (hw : ¬ Waiting Y) (f : Nat) :
    AheadL X (cycle Y f).1 sx (addMsg sy (cycle Y f).2) ∧ (cycle Y f).1.id = Y.id := by
  have hid := cycle_id_of_not_waiting hw f
  refine ⟨?_, hid⟩
  rcases ahead_cycleY h.1 f with h' | h'
  · exact ⟨h', h.2⟩
  · have := h'.idrel; have := h.1.idrel; omega

/-- delivering any messages of the end that is ahead (any order, any multiplicity) to the end that is behind -/
theorem aheadL_procList {X : Side} {sx sy : List Msg} (l : List Msg) :
    ∀ {Y : Side} (f : Nat), AheadL X Y sx sy → (∀ m ∈ l, m ∈ sx) →
      AheadL X (procList Y l f) sx sy ∧ (procList Y l f).id = Y.id ∧
      (Waiting Y → Waiting (procList Y l f)) ∧ ((∃ m ∈ l, m.id = X.id) → Waiting (procList Y l f)) := by
  induction l with
  | nil =>
    intro Y f h _
    refine ⟨h, rfl, id, ?_⟩
    rintro ⟨m, hm, _⟩; cases hm
  | cons a l ih =>
    intro Y f h hl
    have ha : a ∈ sx := hl a List.mem_cons_self
    have h1 : AheadL X (process Y a f) sx sy := ⟨ahead_delivY h.1 ha f, h.2⟩
    obtain ⟨i1, i2, i3, i4⟩ := ih (Y := process Y a f) (f + 1) h1 (fun m hm => hl m (List.mem_cons_of_mem _ hm))
    refine ⟨i1, by rw [show procList Y (a :: l) f = procList (process Y a f) l (f + 1) from rfl, i2, process_id],
      fun hw => i3 (process_waiting hw a f), ?_⟩
    rintro ⟨m, hm, hmid⟩
    rcases List.mem_cons.1 hm with rfl | hm
    · exact i3 (process_latest h.1 ha hmid f)
    · exact i4 ⟨m, hm, hmid⟩

/-- the end that is ahead ignores everything the other end ever sent -/
theorem procList_ignored {X Y : Side} {sx sy : List Msg} (h : Ahead X Y sx sy) (l : List Msg) :
    ∀ (f : Nat), (∀ m ∈ l, m ∈ sy) → procList X l f = X := by
  induction l with
  | nil => intro f _; rfl
  | cons a l ih =>
    intro f hl
    show procList (process X a f) l (f + 1) = X
    rw [ahead_delivX h (hl a List.mem_cons_self) f]
    exact ih (f + 1) (fun m hm => hl m (List.mem_cons_of_mem _ hm))

/-! ### one half of a round: a cycle at `A`, then delivery of every message `A` ever sent to `B` -/

section half
variable {A B : Side} {sa sb : List Msg} {l : List Msg} (f g : Nat)

/-- `A` is ahead: `A` keeps its id, `B` ends up `Waiting` -/
theorem half_ahead (h : AheadL A B sa sb) (hl : ∀ m, m ∈ l ↔ m ∈ addMsg sa (cycle A f).2) :
    AheadL (cycle A f).1 (procList B l g) (addMsg sa (cycle A f).2) sb ∧ Waiting (procList B l g) ∧
      (cycle A f).1.id = A.id ∧ (procList B l g).id = B.id := by
  obtain ⟨h1, hid⟩ := aheadL_cycleX h f
  obtain ⟨i1, i2, _, i4⟩ := aheadL_procList l (Y := B) g h1 (fun m hm => (hl m).1 hm)
  obtain ⟨m, hm, hmid⟩ := h1.2
  exact ⟨i1, i4 ⟨m, (hl m).2 hm, hmid⟩, hid, i2⟩

/-- `A` is behind and `Waiting`: `A` advances by 2 and is ahead, `B` ends up `Waiting` -/
theorem half_behind_waiting (h : AheadL B A sb sa) (hw : Waiting A) (hl : ∀ m, m ∈ l ↔ m ∈ addMsg sa (cycle A f).2) :
    AheadL (cycle A f).1 (procList B l g) (addMsg sa (cycle A f).2) sb ∧ Waiting (procList B l g) ∧
      (cycle A f).1.id = A.id + 2 ∧ (procList B l g).id = B.id := by
  obtain ⟨h1, hid⟩ := aheadL_cycleY_waiting h hw f
  obtain ⟨i1, i2, _, i4⟩ := aheadL_procList l (Y := B) g h1 (fun m hm => (hl m).1 hm)
  obtain ⟨m, hm, hmid⟩ := h1.2
  exact ⟨i1, i4 ⟨m, (hl m).2 hm, hmid⟩, hid, i2⟩

/-- `A` is behind and not `Waiting`: nothing moves -/
theorem half_behind_not_waiting (h : AheadL B A sb sa) (hw : ¬ Waiting A) (hl : ∀ m, m ∈ l ↔ m ∈ addMsg sa (cycle A f).2) :
    AheadL (procList B l g) (cycle A f).1 sb (addMsg sa (cycle A f).2) ∧
      (cycle A f).1.id = A.id ∧ (procList B l g).id = B.id := by
  obtain ⟨h1, hid⟩ := aheadL_cycleY_not_waiting h hw f
  have hB : procList B l g = B := procList_ignored h1.1 l g (fun m hm => (hl m).1 hm)
  rw [hB]
  exact ⟨h1, hid, rfl⟩

end half

/-- one full round at side level: cycle `X`, deliver all of `X`'s messages to `Y`, cycle `Y`, deliver all of `Y`'s
    messages to `X`.  Whatever the state before, afterwards `Y` is ahead and `X` is `Waiting`; ids never decrease; and if
    this was already the case before, both ids have advanced by 2. -/
theorem round_side {X Y : Side} {sx sy l1 l2 : List Msg} (f g f' g' : Nat)
    (h : AheadL X Y sx sy ∨ AheadL Y X sy sx)
    (hl1 : ∀ m, m ∈ l1 ↔ m ∈ addMsg sx (cycle X f).2)
    (hl2 : ∀ m, m ∈ l2 ↔ m ∈ addMsg sy (cycle (procList Y l1 g) f').2) :
    AheadL (cycle (procList Y l1 g) f').1 (procList (cycle X f).1 l2 g') (addMsg sy (cycle (procList Y l1 g) f').2)
        (addMsg sx (cycle X f).2) ∧
      Waiting (procList (cycle X f).1 l2 g') ∧
      X.id ≤ (procList (cycle X f).1 l2 g').id ∧ Y.id ≤ (cycle (procList Y l1 g) f').1.id ∧
      (AheadL Y X sy sx → Waiting X →
        (procList (cycle X f).1 l2 g').id = X.id + 2 ∧ (cycle (procList Y l1 g) f').1.id = Y.id + 2) := by
  rcases h with h | h
  · obtain ⟨a1, a2, a3, a4⟩ := half_ahead f g h hl1
    obtain ⟨b1, b2, b3, b4⟩ := half_behind_waiting f' g' a1 a2 hl2
    refine ⟨b1, b2, by omega, by omega, fun h' _ => ?_⟩
    have := h.1.idrel; have := h'.1.idrel; omega
  · by_cases hw : Waiting X
    · obtain ⟨a1, a2, a3, a4⟩ := half_behind_waiting f g h hw hl1
      obtain ⟨b1, b2, b3, b4⟩ := half_behind_waiting f' g' a1 a2 hl2
      exact ⟨b1, b2, by omega, by omega, fun _ _ => ⟨by omega, by omega⟩⟩
    · obtain ⟨a1, a3, a4⟩ := half_behind_not_waiting f g h hw hl1
      obtain ⟨b1, b2, b3, b4⟩ := half_ahead f' g' a1 hl2
      exact ⟨b1, b2, by omega, by omega, fun _ hw' => absurd hw' hw⟩

/-- in the steady state of the lock-step schedule (`Y` ahead, `X` waiting) both sealing slots are functions of `Y.id` -/
theorem steady_cur {X Y : Side} {sx sy : List Msg} (h : Ahead Y X sy sx) (hw : Waiting X) :
    X.cur = (if Y.id > 1 then Y.id % 4 else 0) ∧ Y.cur = (if Y.id ≤ 2 then 0 else (Y.id - 1) % 4) := by
  refine ⟨?_, h.xcur⟩
  rw [h.ycur]
  simp only [hw.1, true_and]
  split
  · rfl
  · rw [if_pos (by omega)]

/-! ### key material: "old" and "new" relative to a value of the fresh-counter -/

/-- every ephemeral key pair a key is made of was drawn before the counter reached `n` -/
def Key.Old (n : Nat) : Key → Prop
  | .dh lo hi => lo < n ∧ hi < n
  | _ => True

/-- the key is the shared secret of two ephemeral key pairs both drawn when the counter was at least `n` -/
def Key.New (n : Nat) (k : Key) : Prop := ∃ a b, k = K a b ∧ n ≤ a ∧ n ≤ b

theorem old_K {n a b : Nat} : (K a b).Old n ↔ a < n ∧ b < n := by
  unfold K; split
  · exact Iff.rfl
  · exact ⟨fun h => ⟨h.2, h.1⟩, fun h => ⟨h.2, h.1⟩⟩

theorem Key.Old.mono {n n' : Nat} {k : Key} (h : k.Old n) (hn : n ≤ n') : k.Old n' := by
  cases k with
  | dh lo hi => exact ⟨Nat.lt_of_lt_of_le h.1 hn, Nat.lt_of_lt_of_le h.2 hn⟩
  | _ => trivial

theorem Key.New.mono {n n' : Nat} {k : Key} (h : k.New n') (hn : n ≤ n') : k.New n := by
  obtain ⟨a, b, e, ha, hb⟩ := h
  exact ⟨a, b, e, by omega, by omega⟩

/-- a new key is different from every old key -/
theorem Key.New.ne_old {n : Nat} {k k' : Key} (h : k.New n) (h' : k'.Old n) : k ≠ k' := by
  rintro rfl
  obtain ⟨a, b, rfl, ha, hb⟩ := h
  have := old_K.1 h'
  omega

structure SideOld (n : Nat) (S : Side) : Prop where
  slots : ∀ i, (S.slots i).Old n
  pending : ∀ k e, S.pending = some (k, e) → k.Old n ∧ e < n
  proposed : ∀ p, S.proposed = some p → p < n
  confirmed : ∀ c i, S.confirmed = some (c, i) → c < n

def MsgOld (n : Nat) (m : Msg) : Prop := m.propose < n ∧ ∀ c, m.confirm = some c → c < n

theorem SideOld.mono {n n' : Nat} {S : Side} (h : SideOld n S) (hn : n ≤ n') : SideOld n' S :=
  ⟨fun i => (h.slots i).mono hn, fun k e hk => ⟨(h.pending k e hk).1.mono hn, by have := (h.pending k e hk).2; omega⟩,
    fun p hp => by have := h.proposed p hp; omega, fun c i hc => by have := h.confirmed c i hc; omega⟩

theorem MsgOld.mono {n n' : Nat} {m : Msg} (h : MsgOld n m) (hn : n ≤ n') : MsgOld n' m :=
  ⟨by have := h.1; omega, fun c hc => by have := h.2 c hc; omega⟩

theorem install_old {n : Nat} {s : Nat → Key} {k : Key} (hs : ∀ i, (s i).Old n) (hk : k.Old n) (id : Nat) :
    ∀ i, (install s k id i).Old n := by
  intro i; unfold install; split
  · exact hk
  · exact hs i

theorem process_old {f : Nat} {S : Side} {m : Msg} (h : SideOld f S) (hm : MsgOld f m) :
    SideOld (f + 1) (process S m f) := by
  have h' := h.mono (Nat.le_succ f)
  unfold process
  split
  · exact h'
  · dsimp only
    have hpend : ∀ k e, some (K f m.propose, f) = some (k, e) → k.Old (f + 1) ∧ e < f + 1 := by
      intro k e hke; cases hke
      exact ⟨old_K.2 ⟨by omega, by have := hm.1; omega⟩, by omega⟩
    split
    · rename_i c p hc hp
      refine ⟨install_old h'.slots (old_K.2 ⟨?_, ?_⟩) _, hpend, fun _ hq => (by cases hq), h'.confirmed⟩
      · exact h'.proposed p hp
      · have := hm.2 c hc; omega
    · exact ⟨h'.slots, hpend, h'.proposed, h'.confirmed⟩

theorem cycle_old {f : Nat} {S : Side} (h : SideOld f S) :
    SideOld (f + 1) (cycle S f).1 ∧ ∀ m, (cycle S f).2 = some m → MsgOld (f + 1) m := by
  have h' := h.mono (Nat.le_succ f)
  cases hp : S.proposed with
  | some p =>
    have hpo := h'.proposed p hp
    cases ht : S.timeout
    · rw [cycle_proposed_notimeout hp ht]
      exact ⟨⟨h'.slots, h'.pending, h'.proposed, h'.confirmed⟩, fun m hm => by cases hm⟩
    · rw [cycle_proposed_timeout hp ht]
      refine ⟨h', fun m hm => ?_⟩
      cases hm
      cases hc : S.confirmed with
      | none => exact ⟨hpo, fun c hc' => by cases hc'⟩
      | some ci =>
        obtain ⟨c, i⟩ := ci
        exact ⟨hpo, fun c' hc' => by cases hc'; exact h'.confirmed c i hc⟩
  | none =>
    cases hq : S.pending with
    | none => rw [cycle_idle hp hq]; exact ⟨h', fun m hm => by cases hm⟩
    | some ke =>
      obtain ⟨key, e⟩ := ke
      obtain ⟨hk, he⟩ := h'.pending key e hq
      rw [cycle_advance hp hq]
      refine ⟨⟨install_old h'.slots hk _, fun _ _ hn => (by cases hn), fun p hp' => (by cases hp'; omega),
        fun c i hc => (by cases hc; exact he)⟩, fun m hm => ?_⟩
      cases hm
      exact ⟨by simp, fun c hc => by cases hc; exact he⟩

/-! ### tracing the key material through one half of a round in the steady state -/

/-- the pending reply of a receiver that has processed at least one message of `l` was drawn during this delivery -/
theorem procList_pending_fresh (l : List Msg) : ∀ (Y : Side) (g : Nat), (∃ m ∈ l, ¬ m.id ≤ Y.id) →
    ∃ k e, (procList Y l g).pending = some (k, e) ∧ g ≤ e := by
  have keep : ∀ (l : List Msg) (Y : Side) (g g' : Nat), g ≤ g' → (∃ k e, Y.pending = some (k, e) ∧ g ≤ e) →
      ∃ k e, (procList Y l g').pending = some (k, e) ∧ g ≤ e := by
    intro l
    induction l with
    | nil => intro Y g g' _ h; exact h
    | cons a l ih =>
      intro Y g g' hg h
      refine ih (process Y a g') g (g' + 1) (by omega) ?_
      unfold process
      split
      · exact h
      · dsimp only; split <;> exact ⟨_, _, rfl, hg⟩
  induction l with
  | nil => rintro Y g ⟨m, hm, _⟩; cases hm
  | cons a l ih =>
    rintro Y g ⟨m, hm, hmid⟩
    show ∃ k e, (procList (process Y a g) l (g + 1)).pending = some (k, e) ∧ g ≤ e
    by_cases ha : a.id ≤ Y.id
    · rw [process_ignore g ha]
      rcases List.mem_cons.1 hm with rfl | hm
      · exact absurd ha hmid
      · obtain ⟨k, e, h1, h2⟩ := ih Y (g + 1) ⟨m, hm, hmid⟩
        exact ⟨k, e, h1, by omega⟩
    · refine keep l _ g (g + 1) (by omega) ?_
      unfold process
      rw [if_neg ha]
      dsimp only; split <;> exact ⟨_, _, rfl, Nat.le_refl g⟩

/-- a waiting receiver's sealing key is the key the end that is ahead installed when it last advanced -/
theorem waiting_cur_key {X Y : Side} {sx sy : List Msg} (h : Ahead X Y sx sy) (hw : Waiting Y) (h1 : X.id > 1) :
    Y.slots Y.cur = X.slots (X.id % 4) := by
  have hc : Y.cur = X.id % 4 := by rw [h.ycur, if_pos ⟨hw.1, h1⟩]
  rw [← hc]; exact h.sync2

/-- a waiting receiver's pending reply is built on the current proposal of the end that is ahead -/
theorem waiting_pending {X Y : Side} {sx sy : List Msg} (h : Ahead X Y sx sy) (hw : Waiting Y) :
    ∃ e p, X.proposed = some p ∧ Y.pending = some (K e p, e) := by
  rcases h.ysub with ⟨hn, _⟩ | ⟨_, hh⟩
  · obtain ⟨_, ke, hk⟩ := hw; rw [hn] at hk; cases hk
  · exact hh

/-- key material through a half-round in which the cycling end `A` is behind and waiting (the steady-state case):
    `A` installs its pending key `k` under its new id and proposes `f`, its sealing slot is untouched; `B` switches its
    sealing slot to `k` and its pending reply is `K e f` for an `e` drawn during the delivery -/
theorem half_behind_waiting_keys {A B : Side} {sa sb l : List Msg} (f g : Nat) {k : Key} {e0 : Nat}
    (h : AheadL B A sb sa) (hw : Waiting A) (hk : A.pending = some (k, e0))
    (hl : ∀ m, m ∈ l ↔ m ∈ addMsg sa (cycle A f).2) :
    (cycle A f).1.slots ((cycle A f).1.id % 4) = k ∧ (cycle A f).1.proposed = some f ∧
      (cycle A f).1.slots (cycle A f).1.cur = A.slots A.cur ∧
      (procList B l g).slots (procList B l g).cur = k ∧
      ∃ e, g ≤ e ∧ (procList B l g).pending = some (K e f, e) := by
  obtain ⟨a1, a2, a3, a4⟩ := half_behind_waiting f g h hw hl
  have hadv := cycle_advance hw.1 hk f
  have e1 : (cycle A f).1.slots ((cycle A f).1.id % 4) = k := by rw [hadv]; simp [install]
  have e2 : (cycle A f).1.proposed = some f := by rw [hadv]
  have hid := h.1.idrel
  refine ⟨e1, e2, ?_, ?_, ?_⟩
  · obtain ⟨c1, _⟩ := steady_cur h.1 hw
    have hne : A.cur ≠ (A.id + 2) % 4 := by rw [c1]; split <;> omega
    rw [hadv]; simp only [install, if_neg hne]
  · rw [waiting_cur_key a1.1 a2 (by omega), e1]
  · obtain ⟨e, p, hp, hpe⟩ := waiting_pending a1.1 a2
    rw [e2] at hp; cases hp
    obtain ⟨m, hm, hmid⟩ := a1.2
    obtain ⟨k', e', hk', he'⟩ := procList_pending_fresh l B g ⟨m, (hl m).2 hm, by omega⟩
    rw [hpe] at hk'; cases hk'
    exact ⟨e, he', hpe⟩

/-- key material through a full round from the steady state (`Y` ahead, `X` waiting with pending key `k`):
    `Y` switches to `k`; `X` switches to a key `K e f` drawn in this round; `X`'s new pending key was drawn in this round -/
theorem round_side_keys {X Y : Side} {sx sy l1 l2 : List Msg} (f g f' g' : Nat) {k : Key} {e0 : Nat}
    (h : AheadL Y X sy sx) (hw : Waiting X) (hk : X.pending = some (k, e0))
    (hl1 : ∀ m, m ∈ l1 ↔ m ∈ addMsg sx (cycle X f).2)
    (hl2 : ∀ m, m ∈ l2 ↔ m ∈ addMsg sy (cycle (procList Y l1 g) f').2) :
    (cycle (procList Y l1 g) f').1.slots (cycle (procList Y l1 g) f').1.cur = k ∧
      (∃ e, g ≤ e ∧ (procList (cycle X f).1 l2 g').slots (procList (cycle X f).1 l2 g').cur = K e f) ∧
      (∃ e', g' ≤ e' ∧ (procList (cycle X f).1 l2 g').pending = some (K e' f', e')) := by
  obtain ⟨a1, a2, _, _⟩ := half_behind_waiting f g h hw hl1
  obtain ⟨_, _, _, b4, e, he, b5⟩ := half_behind_waiting_keys f g h hw hk hl1
  obtain ⟨_, _, c3, c4, e', he', c5⟩ := half_behind_waiting_keys f' g' a1 a2 b5 hl2
  exact ⟨by rw [c3, b4], ⟨e, he, c4⟩, ⟨e', he', c5⟩⟩

end VpnCloud.Rot
