import VpnCloud.Model.Config
import VpnCloud.Spec.C20
/-
  Helper lemmas about the configuration overlay interpreter (`Model/Config.lean`) used by the
  property theorems of C20.  Nothing here depends on the concrete (regenerated) rule table.
-/
namespace VpnCloud.Proofs.ConfigLemmas
open VpnCloud VpnCloud.Config VpnCloud.Spec.C20

/-! ### sources -/

@[simp] theorem get_nil (k : String) : Source.get [] k = none := rfl

@[simp] theorem strOf_nil (k : String) : strOf [] k = none := rfl
@[simp] theorem listOf_nil (k : String) : listOf [] k = [] := rfl
@[simp] theorem flagOf_nil (k : String) : flagOf [] k = none := rfl
@[simp] theorem mapOf_nil (k : String) : mapOf [] k = [] := rfl

theorem applyArg_nil (r : FieldRule) (cur : DVal) : applyArg r cur [] = cur := by
  unfold applyArg
  simp only [get_nil]
  split <;> simp_all

/-- `applyFile` looks at the file only through the key of the rule -/
theorem applyFile_congr (r : FieldRule) (cur : DVal) (f1 f2 : Source)
    (h : f1.get r.fileKey = f2.get r.fileKey) : applyFile r cur f1 = applyFile r cur f2 := by
  unfold applyFile
  rw [h]

/-! ### the interpreter and the documentation as functions of the two looked-up values -/

def fileStep (fr : FileRule) (cur : DVal) (o : Option SVal) : DVal :=
  match fr, o with
  | .override, some (.str s) => setScalar cur s
  | .override, some (.flag b) => .flag b
  | .overrideSome, some (.str s) => .opt (some s)
  | .append, some (.list l) => (match cur with | .list c => .list (c ++ l) | x => x)
  | .appendAlways, some (.list l) => (match cur with | .list c => .list (c ++ l) | x => x)
  | .replaceNonEmpty, some (.list l) => if l.isEmpty then cur else .list l
  | .mapInsert, some (.map m) => (match cur with | .map c => .map (m.foldl (fun acc p => mapInsert acc p.1 p.2) c) | x => x)
  | _, _ => cur

theorem applyFile_eq (r : FieldRule) (cur : DVal) (file : Source) :
    applyFile r cur file = fileStep r.file cur (file.get r.fileKey) := rfl

def argStep (ar : ArgRule) (cur : DVal) (o : Option SVal) : DVal :=
  match ar, o with
  | .override, some (.str s) => setScalar cur s
  | .overrideSome, some (.str s) => .opt (some s)
  | .appendAlways, some (.list l) => (match cur with | .list c => .list (c ++ l) | x => x)
  | .replaceNonEmpty, some (.list l) => if l.isEmpty then cur else .list l
  | .setTrue, some (.flag true) => .flag true
  | .setFalse, some (.flag true) => .flag false
  | .hookSplit, some (.list l) =>
    (match cur with
     | .map c => .map (l.foldl (fun acc s => match splitHook s with | some (n, h) => mapInsert acc n h | none => acc) c)
     | x => x)
  | .hookPlain, some (.list l) =>
    (match (l.filter (fun s => (splitHook s).isNone)).getLast? with
     | some s => .opt (some s)
     | none => cur)
  | _, _ => cur

theorem applyArg_eq (r : FieldRule) (cur : DVal) (args : Source) :
    applyArg r cur args = argStep r.arg cur (args.get r.argKey) := rfl

def strV : Option SVal → Option String | some (.str x) => some x | _ => none
def listV : Option SVal → List String | some (.list l) => l | _ => []
def flagV : Option SVal → Option Bool
  | some (.flag b) => some b | some (.str x) => some (x = "true") | _ => none
def mapV : Option SVal → List (String × String) | some (.map m) => m | _ => []

theorem strOf_eq (s : Source) (k : String) : strOf s k = strV (s.get k) := rfl
theorem listOf_eq (s : Source) (k : String) : listOf s k = listV (s.get k) := rfl
theorem flagOf_eq (s : Source) (k : String) : flagOf s k = flagV (s.get k) := rfl
theorem mapOf_eq (s : Source) (k : String) : mapOf s k = mapV (s.get k) := rfl

def specStep (k : Kind) (d : DVal) (fo ao : Option SVal) : DVal :=
  match k with
  | .scalar =>
    (match strV ao, strV fo with
     | some a, _ => .scalar a
     | none, some f => .scalar f
     | none, none => d)
  | .optional =>
    (match strV ao, strV fo with
     | some a, _ => .opt (some a)
     | none, some f => .opt (some f)
     | none, none => d)
  | .accumulate =>
    (match d with
     | .list d => .list (d ++ listV fo ++ listV ao)
     | x => x)
  | .replaceList =>
    if !(listV ao).isEmpty then .list (listV ao)
    else if !(listV fo).isEmpty then .list (listV fo)
    else d
  | .switchOn =>
    if flagV ao = some true then .flag true
    else (match flagV fo with | some b => .flag b | none => d)
  | .switchOff =>
    if flagV ao = some true then .flag false
    else (match flagV fo with | some b => .flag b | none => d)
  | .hookScript =>
    (match ((listV ao).filter (fun s => (splitHook s).isNone)).getLast? with
     | some s => .opt (some s)
     | none => match strV fo with | some f => .opt (some f) | none => d)
  | .hookMap =>
    (match d with
     | .map d =>
       let afterFile := (mapV fo).foldl (fun acc p => mapInsert acc p.1 p.2) d
       .map ((listV ao).foldl (fun acc s => match splitHook s with | some (n, h) => mapInsert acc n h | none => acc) afterFile)
     | x => x)

theorem specField_eq (e : DocEntry) (file args : Source) :
    specField e file args =
      specStep e.kind e.default (if e.inFile then file.get e.fileKey else none) (args.get e.argKey) := by
  obtain ⟨en, efk, eak, ek, ed, eif⟩ := e
  cases eif <;> cases ek <;> rfl

def kindMatches (k : Kind) (inFile : Bool) (fr : FileRule) (ar : ArgRule) (d : DVal) : Bool :=
  match k with
  | .scalar => fr = .override && ar = .override && (match d with | .scalar _ => true | _ => false)
  | .optional => fr = .overrideSome && ar = .overrideSome
  | .accumulate => (fr = .append || fr = .appendAlways) && ar = .appendAlways && (match d with | .list _ => true | _ => false)
  | .replaceList => fr = .replaceNonEmpty && ar = .replaceNonEmpty
  | .switchOn => (fr = .override || (fr = .none && !inFile)) && ar = .setTrue && (match d with | .flag _ => true | _ => false)
  | .switchOff => fr = .override && ar = .setFalse && (match d with | .flag _ => true | _ => false)
  | .hookScript => fr = .overrideSome && ar = .hookPlain
  | .hookMap => fr = .mapInsert && ar = .hookSplit && (match d with | .map _ => true | _ => false)

theorem ruleMatches_eq (r : FieldRule) (e : DocEntry) :
    ruleMatches r e =
      (decide (r.name = e.name) && decide (r.default = e.default) && decide (r.argKey = e.argKey) &&
        (decide (r.fileKey = e.fileKey) || !e.inFile) &&
        kindMatches e.kind e.inFile r.file r.arg r.default) := rfl

def okFile (k : Kind) (o : Option SVal) : Bool :=
  match k, o with
  | _, none => true
  | .scalar, some (.str _) => true
  | .optional, some (.str _) => true
  | .hookScript, some (.str _) => true
  | .accumulate, some (.list _) => true
  | .replaceList, some (.list _) => true
  | .switchOn, some (.flag _) => true
  | .switchOff, some (.flag _) => true
  | .hookMap, some (.map _) => true
  | _, _ => false

def okArg (k : Kind) (o : Option SVal) : Bool :=
  match k, o with
  | _, none => true
  | .scalar, some (.str _) => true
  | .optional, some (.str _) => true
  | .hookScript, some (.list _) => true
  | .hookMap, some (.list _) => true
  | .accumulate, some (.list _) => true
  | .replaceList, some (.list _) => true
  | .switchOn, some (.flag _) => true
  | .switchOff, some (.flag _) => true
  | _, _ => false

theorem sourceOK_single (e : DocEntry) (file args : Source) :
    sourceOK [e] file args = (okFile e.kind (file.get e.fileKey) && okArg e.kind (args.get e.argKey)) := by
  simp only [sourceOK, List.all_cons, List.all_nil, Bool.and_true]
  rfl

/-- what `okFile` / `okArg` leave: absent or of the expected shape -/
theorem okFile_cases {k : Kind} {o : Option SVal} (h : okFile k o = true) :
    o = none ∨
    ((k = .scalar ∨ k = .optional ∨ k = .hookScript) ∧ ∃ s, o = some (.str s)) ∨
    ((k = .accumulate ∨ k = .replaceList) ∧ ∃ l, o = some (.list l)) ∨
    ((k = .switchOn ∨ k = .switchOff) ∧ ∃ b, o = some (.flag b)) ∨
    (k = .hookMap ∧ ∃ m, o = some (.map m)) := by
  rcases o with _ | (s | l | m | b)
  · exact Or.inl rfl
  all_goals cases k <;> simp [okFile] at h ⊢

theorem okArg_cases {k : Kind} {o : Option SVal} (h : okArg k o = true) :
    o = none ∨
    ((k = .scalar ∨ k = .optional) ∧ ∃ s, o = some (.str s)) ∨
    ((k = .accumulate ∨ k = .replaceList ∨ k = .hookScript ∨ k = .hookMap) ∧ ∃ l, o = some (.list l)) ∨
    ((k = .switchOn ∨ k = .switchOff) ∧ ∃ b, o = some (.flag b)) := by
  rcases o with _ | (s | l | m | b)
  · exact Or.inl rfl
  all_goals cases k <;> simp [okArg] at h ⊢

theorem fileStep_none (d : DVal) (fo : Option SVal) : fileStep .none d fo = d := by
  unfold fileStep; split <;> simp_all

set_option hygiene false in
local macro "split_sources" : tactic => `(tactic|
  (rcases fo with _ | (s | l | m | b) <;> simp [okFile] at hf <;>
   rcases ao with _ | (s' | l' | m' | b') <;> simp [okArg] at ha <;>
   simp [fileStep, argStep, specStep, strV, listV, flagV, mapV, setScalar]))

theorem step_eq_true (k : Kind) (fr : FileRule) (ar : ArgRule) (d : DVal) (fo ao : Option SVal)
    (hm : kindMatches k true fr ar d = true)
    (hf : okFile k fo = true) (ha : okArg k ao = true) :
    argStep ar (fileStep fr d fo) ao = specStep k d fo ao := by
  cases k <;> simp [kindMatches] at hm
  case scalar =>
    obtain ⟨⟨rfl, rfl⟩, hd⟩ := hm
    cases d <;> simp at hd
    split_sources
  case optional =>
    obtain ⟨rfl, rfl⟩ := hm
    split_sources
  case accumulate =>
    obtain ⟨⟨hfr, rfl⟩, hd⟩ := hm
    cases d <;> simp at hd
    rcases hfr with rfl | rfl <;> split_sources
  case replaceList =>
    obtain ⟨rfl, rfl⟩ := hm
    split_sources
  case switchOn =>
    obtain ⟨⟨rfl, rfl⟩, hd⟩ := hm
    cases d <;> simp at hd
    split_sources <;> cases b' <;> simp
  case switchOff =>
    obtain ⟨⟨rfl, rfl⟩, hd⟩ := hm
    cases d <;> simp at hd
    split_sources <;> cases b' <;> simp
  case hookScript =>
    obtain ⟨rfl, rfl⟩ := hm
    split_sources
  case hookMap =>
    obtain ⟨⟨rfl, rfl⟩, hd⟩ := hm
    cases d <;> simp at hd
    split_sources

theorem step_eq_false (k : Kind) (ar : ArgRule) (d : DVal) (fo ao : Option SVal)
    (hm : kindMatches k false .none ar d = true) (ha : okArg k ao = true) :
    argStep ar (fileStep .none d fo) ao = specStep k d none ao := by
  rw [fileStep_none]
  cases k <;> simp [kindMatches] at hm
  obtain ⟨rfl, hd⟩ := hm
  cases d <;> simp at hd
  rcases ao with _ | (s' | l' | m' | b') <;> simp [okArg] at ha <;>
    simp [argStep, specStep, flagV]
  cases b' <;> simp

/-! ### `sourceOK` is pointwise -/

theorem sourceOK_of_mem {doc : List DocEntry} {file args : Source}
    (hs : sourceOK doc file args = true) {e : DocEntry} (he : e ∈ doc) :
    sourceOK [e] file args = true := by
  unfold sourceOK at hs ⊢
  rw [List.all_eq_true] at hs
  simp only [List.all_cons, List.all_nil, Bool.and_true]
  exact hs e he

theorem sourceOK_cons {e : DocEntry} {doc : List DocEntry} {file args : Source}
    (hs : sourceOK (e :: doc) file args = true) :
    sourceOK [e] file args = true ∧ sourceOK doc file args = true := by
  unfold sourceOK at hs ⊢
  simp only [List.all_cons, List.all_nil, Bool.and_true, Bool.and_eq_true] at hs ⊢
  exact hs

/-! ### per-pair checks over `rules.zip doc` -/

/-- an option that the file cannot express must not be read from the file -/
def scopeOK (rules : List FieldRule) (doc : List DocEntry) : Bool :=
  (rules.zip doc).all (fun p => p.2.inFile || p.1.file = .none)

theorem exists_zip_of_mem {α β} : ∀ (as : List α) (bs : List β), as.length = bs.length →
    ∀ b ∈ bs, ∃ a, (a, b) ∈ as.zip bs
  | [], [], _, b, hb => by cases hb
  | [], _ :: _, h, _, _ => by simp at h
  | _ :: _, [], h, _, _ => by simp at h
  | a :: as, b' :: bs, h, b, hb => by
    rcases List.mem_cons.1 hb with rfl | hb
    · exact ⟨a, by simp⟩
    · obtain ⟨a', ha'⟩ := exists_zip_of_mem as bs (by simpa using h) b hb
      exact ⟨a', by simp [ha']⟩

/-! ### hook maps -/

/-- no event name occurs twice -/
def KeysNodup (m : List (String × String)) : Prop := m.Pairwise (fun a b => a.1 ≠ b.1)

theorem keysNodup_nil : KeysNodup [] := List.Pairwise.nil

theorem keysNodup_mapInsert {m : List (String × String)} (h : KeysNodup m) (k v : String) :
    KeysNodup (mapInsert m k v) := by
  unfold mapInsert KeysNodup
  rw [List.pairwise_append]
  refine ⟨h.filter _, List.pairwise_singleton _ _, ?_⟩
  intro a ha b hb
  rw [List.mem_filter] at ha
  rw [List.mem_singleton] at hb
  subst hb
  simpa using ha.2

theorem keysNodup_foldl_pairs (l : List (String × String)) :
    ∀ (acc : List (String × String)), KeysNodup acc →
      KeysNodup (l.foldl (fun acc p => mapInsert acc p.1 p.2) acc) := by
  induction l with
  | nil => intro acc h; exact h
  | cons p l ih => intro acc h; exact ih _ (keysNodup_mapInsert h _ _)

theorem keysNodup_foldl_hooks (l : List String) :
    ∀ (acc : List (String × String)), KeysNodup acc →
      KeysNodup (l.foldl (fun acc s => match splitHook s with
        | some (n, h) => mapInsert acc n h | none => acc) acc) := by
  induction l with
  | nil => intro acc h; exact h
  | cons s l ih =>
    intro acc h
    simp only [List.foldl_cons]
    apply ih
    split
    · exact keysNodup_mapInsert h _ _
    · exact h

theorem mapInsert_fresh (acc : List (String × String)) (k v : String)
    (h : ∀ a ∈ acc, a.1 ≠ k) : mapInsert acc k v = acc ++ [(k, v)] := by
  unfold mapInsert
  congr 1
  rw [List.filter_eq_self]
  intro a ha
  simpa using h a ha

/-- inserting the entries of a map without duplicate names one by one rebuilds the map -/
theorem foldl_mapInsert_eq (m : List (String × String)) :
    ∀ (acc : List (String × String)), KeysNodup (acc ++ m) →
      m.foldl (fun acc p => mapInsert acc p.1 p.2) acc = acc ++ m := by
  induction m with
  | nil => intro acc _; simp
  | cons p m ih =>
    intro acc h
    simp only [List.foldl_cons]
    have hfresh : ∀ a ∈ acc, a.1 ≠ p.1 := by
      intro a ha
      unfold KeysNodup at h
      rw [List.pairwise_append] at h
      exact h.2.2 a ha p (List.mem_cons_self ..)
    rw [mapInsert_fresh acc p.1 p.2 hfresh]
    have h' : KeysNodup ((acc ++ [(p.1, p.2)]) ++ m) := by
      simpa [List.append_assoc] using h
    rw [ih _ h']
    simp [List.append_assoc]

theorem foldl_mapInsert_nil (m : List (String × String)) (h : KeysNodup m) :
    m.foldl (fun acc p => mapInsert acc p.1 p.2) [] = m := by
  simpa using foldl_mapInsert_eq m [] (by simpa using h)

/-! ### lookups in keyed lists -/

/-- Boolean duplicate check (decidable on the concrete tables) -/
def nodupB : List String → Bool
  | [] => true
  | x :: xs => !xs.contains x && nodupB xs

theorem lookup_map_key {α β} (key : α → String) (g : α → β) :
    ∀ (l : List α), nodupB (l.map key) = true → ∀ a ∈ l,
      (l.map (fun a => (key a, g a))).lookup (key a) = some (g a)
  | [], _, _, ha => by cases ha
  | x :: xs, hnd, a, ha => by
    simp only [List.map_cons, nodupB, Bool.and_eq_true, Bool.not_eq_true',
      List.contains_eq_mem, decide_eq_false_iff_not, List.mem_map, not_exists, not_and] at hnd
    rcases List.mem_cons.1 ha with rfl | ha
    · simp
    · have hne : key a ≠ key x := fun h => hnd.1 a ha h
      have hb : (key a == key x) = false := by simpa using hne
      simp only [List.map_cons, List.lookup_cons, hb]
      exact lookup_map_key key g xs hnd.2 a ha

theorem find_map_key {α β} (key : α → String) (g : α → β) :
    ∀ (l : List α), nodupB (l.map key) = true → ∀ a ∈ l,
      (l.map (fun a => (key a, g a))).find? (fun p => p.1 = key a) = some (key a, g a)
  | [], _, _, ha => by cases ha
  | x :: xs, hnd, a, ha => by
    simp only [List.map_cons, nodupB, Bool.and_eq_true, Bool.not_eq_true',
      List.contains_eq_mem, decide_eq_false_iff_not, List.mem_map, not_exists, not_and] at hnd
    rcases List.mem_cons.1 ha with rfl | ha
    · simp
    · have hne : ¬ key x = key a := fun h => hnd.1 a ha h.symm
      simp only [List.map_cons, List.find?_cons, hne, decide_false]
      exact find_map_key key g xs hnd.2 a ha

theorem get_filterMap_none {α} (key : α → String) (f : α → Option SVal) (k : String) :
    ∀ (l : List α), (∀ a ∈ l, key a ≠ k) →
      Source.get (l.filterMap (fun a => match f a with
        | some v => some (key a, v) | none => none)) k = none
  | [], _ => rfl
  | x :: xs, h => by
    have ih := get_filterMap_none key f k xs (fun a ha => h a (List.mem_cons_of_mem _ ha))
    have hx : ¬ key x = k := h x (List.mem_cons_self ..)
    rw [List.filterMap_cons]
    cases hfx : f x with
    | none => simpa using ih
    | some v =>
      simp only
      unfold Source.get at ih ⊢
      simpa [List.find?_cons, hx] using ih

/-- the file form built from a table with distinct keys holds, under the key of a rule, exactly what that rule wrote -/
theorem get_filterMap_key {α} (key : α → String) (f : α → Option SVal) :
    ∀ (l : List α), nodupB (l.map key) = true → ∀ a ∈ l,
      Source.get (l.filterMap (fun a => match f a with
        | some v => some (key a, v) | none => none)) (key a) = f a
  | [], _, _, ha => by cases ha
  | x :: xs, hnd, a, ha => by
    simp only [List.map_cons, nodupB, Bool.and_eq_true, Bool.not_eq_true',
      List.contains_eq_mem, decide_eq_false_iff_not, List.mem_map, not_exists, not_and] at hnd
    rw [List.filterMap_cons]
    rcases List.mem_cons.1 ha with rfl | ha
    · cases hfx : f a with
      | none =>
        simp only
        exact get_filterMap_none key f (key a) xs (fun b hb h => hnd.1 b hb h)
      | some v =>
        simp [Source.get]
    · have hne : ¬ key x = key a := fun h => hnd.1 a ha h.symm
      have ih := get_filterMap_key key f xs hnd.2 a ha
      cases hfx : f x with
      | none => simpa using ih
      | some v =>
        simp only
        unfold Source.get at ih ⊢
        simpa [List.find?_cons, hne] using ih

/-! ### the round trip through the file form -/

def toFileV (tf : ToFile) (v : DVal) : Option SVal :=
  match tf, v with
  | .absent, _ => none
  | _, .scalar s => some (.str s)
  | _, .opt (some s) => some (.str s)
  | _, .opt none => none
  | _, .list l => some (.list l)
  | _, .flag b => some (.flag b)
  | _, .map m => some (.map m)

theorem toFileVal_eq (r : FieldRule) (v : DVal) : toFileVal r v = toFileV r.toFile v := rfl

/-- what the round trip needs from the default of each kind -/
def rtKind (k : Kind) (d : DVal) : Bool :=
  match k with
  | .optional | .hookScript => (match d with | .opt _ => true | _ => false)
  | .accumulate => d = .list []
  | .replaceList => (match d with | .list _ => true | _ => false)
  | .hookMap => d = .map []
  | _ => true

set_option hygiene false in
local macro "split_sources" : tactic => `(tactic|
  (rcases fo with _ | (s | l | m | b) <;> simp [okFile] at hf <;>
   rcases ao with _ | (s' | l' | m' | b') <;> simp [okArg] at ha <;>
   simp [fileStep, toFileV, specStep, strV, listV, flagV, mapV, setScalar]))

theorem rt_step (k : Kind) (fr : FileRule) (ar : ArgRule) (d : DVal) (tf : ToFile) (fo ao : Option SVal)
    (hm : kindMatches k true fr ar d = true) (hrt : rtKind k d = true) (htf : tf ≠ .absent)
    (hf : okFile k fo = true) (ha : okArg k ao = true) :
    fileStep fr d (toFileV tf (specStep k d fo ao)) = specStep k d fo ao := by
  cases k <;> simp [kindMatches] at hm <;> simp [rtKind] at hrt
  case scalar =>
    obtain ⟨⟨rfl, rfl⟩, hd⟩ := hm
    cases d <;> simp at hd
    cases tf <;> simp at htf <;> split_sources
  case optional =>
    obtain ⟨rfl, rfl⟩ := hm
    cases d <;> simp at hrt
    rename_i o
    cases o <;> cases tf <;> simp at htf <;> split_sources
  case accumulate =>
    obtain ⟨⟨hfr, rfl⟩, -⟩ := hm
    subst hrt
    rcases hfr with rfl | rfl <;> cases tf <;> simp at htf <;> split_sources
  case replaceList =>
    obtain ⟨rfl, rfl⟩ := hm
    cases d <;> simp at hrt
    cases tf <;> simp at htf <;> split_sources <;> (repeat' split) <;> simp_all
  case switchOn =>
    obtain ⟨⟨rfl, rfl⟩, hd⟩ := hm
    cases d <;> simp at hd
    cases tf <;> simp at htf <;> split_sources <;> cases b' <;> simp
  case switchOff =>
    obtain ⟨⟨rfl, rfl⟩, hd⟩ := hm
    cases d <;> simp at hd
    cases tf <;> simp at htf <;> split_sources <;> cases b' <;> simp
  case hookScript =>
    obtain ⟨rfl, rfl⟩ := hm
    cases d <;> simp at hrt
    rename_i o
    cases o <;> cases tf <;> simp at htf <;> split_sources <;> (repeat' split) <;> simp_all
  case hookMap =>
    obtain ⟨⟨rfl, rfl⟩, -⟩ := hm
    subst hrt
    cases tf <;> simp at htf <;> split_sources <;>
      first
      | exact foldl_mapInsert_nil _ (keysNodup_foldl_hooks _ _ keysNodup_nil)
      | exact foldl_mapInsert_nil _ (keysNodup_foldl_pairs _ _ keysNodup_nil)
      | exact foldl_mapInsert_nil _ (keysNodup_foldl_hooks _ _ (keysNodup_foldl_pairs _ _ keysNodup_nil))

/-- the file form can carry every option the file format has, and the defaults are neutral for accumulation -/
def rtOK (rules : List FieldRule) (doc : List DocEntry) : Bool :=
  (rules.zip doc).all (fun p => !p.2.inFile || (p.1.toFile ≠ .absent && rtKind p.2.kind p.2.default))

theorem rule_eq_spec' (r : FieldRule) (e : DocEntry) (file args : Source) (h : ruleMatches r e = true)
    (hscope : e.inFile = false → r.file = .none)
    (hs : sourceOK [e] file args = true) :
    applyArg r (applyFile r r.default file) args = specField e file args := by
  rw [ruleMatches_eq] at h
  simp only [Bool.and_eq_true, Bool.or_eq_true, decide_eq_true_eq, Bool.not_eq_true'] at h
  obtain ⟨⟨⟨⟨-, hd⟩, hak⟩, hfk⟩, hk⟩ := h
  rw [sourceOK_single, Bool.and_eq_true] at hs
  rw [applyArg_eq, applyFile_eq, specField_eq, hak, ← hd]
  cases hi : e.inFile
  · rw [hi] at hk
    rw [hscope hi] at hk ⊢
    simpa using step_eq_false e.kind r.arg r.default _ _ hk hs.2
  · rw [hi] at hk
    have hfk' : r.fileKey = e.fileKey := by simpa [hi] using hfk
    rw [hfk']
    simpa using step_eq_true e.kind r.file r.arg r.default _ _ hk hs.1 hs.2

/-- one rule, round trip: reading back what the rule wrote into the file form gives the value again -/
theorem rule_roundtrip (r : FieldRule) (e : DocEntry) (file args file' : Source)
    (h : ruleMatches r e = true) (hin : e.inFile = true)
    (htf : r.toFile ≠ .absent) (hrt : rtKind e.kind e.default = true)
    (hs : sourceOK [e] file args = true)
    (hget : file'.get r.fileKey = toFileVal r (applyArg r (applyFile r r.default file) args)) :
    applyArg r (applyFile r r.default file') [] = applyArg r (applyFile r r.default file) args := by
  rw [applyArg_nil, applyFile_eq r r.default file', hget, toFileVal_eq,
    rule_eq_spec' r e file args h (by simp [hin]) hs, specField_eq]
  rw [ruleMatches_eq] at h
  simp only [Bool.and_eq_true, Bool.or_eq_true, decide_eq_true_eq, Bool.not_eq_true'] at h
  obtain ⟨⟨⟨⟨-, hd⟩, -⟩, -⟩, hk⟩ := h
  rw [sourceOK_single, Bool.and_eq_true] at hs
  rw [hin] at hk
  simp only [hin, if_true]
  rw [hd] at hk ⊢
  exact rt_step e.kind r.file r.arg e.default r.toFile _ _ hk hrt htf hs.1 hs.2

theorem filterMap_congr' {α β} {f g : α → Option β} :
    ∀ (l : List α), (∀ a ∈ l, f a = g a) → l.filterMap f = l.filterMap g
  | [], _ => rfl
  | x :: xs, h => by
    rw [List.filterMap_cons, List.filterMap_cons, h x (List.mem_cons_self ..),
      filterMap_congr' xs (fun a ha => h a (List.mem_cons_of_mem _ ha))]

theorem intoFile_merge (rules : List FieldRule) (hn : nodupB (rules.map (·.name)) = true)
    (val : FieldRule → DVal) :
    intoFile rules (rules.map (fun r => (r.name, val r))) =
      rules.filterMap (fun r => match toFileVal r (val r) with
        | some v => some (r.fileKey, v) | none => none) := by
  unfold intoFile
  apply filterMap_congr'
  intro r hr
  rw [find_map_key (·.name) val rules hn r hr]
  rfl

theorem roundtrip_generic (rules : List FieldRule) (doc : List DocEntry)
    (hm : rulesMatch rules doc = true) (hrt : rtOK rules doc = true)
    (hn : nodupB (rules.map (·.name)) = true) (hk : nodupB (rules.map (·.fileKey)) = true)
    (file args : Source) (hs : sourceOK doc file args = true)
    (e : DocEntry) (he : e ∈ doc) (hf : e.inFile = true) :
    (merge rules (intoFile rules (merge rules file args)) []).lookup e.name =
      (merge rules file args).lookup e.name := by
  unfold rulesMatch at hm
  simp only [Bool.and_eq_true, decide_eq_true_eq, List.all_eq_true] at hm
  obtain ⟨r, hre⟩ := exists_zip_of_mem rules doc hm.1 e he
  have hr : r ∈ rules := (List.of_mem_zip hre).1
  have hmatch : ruleMatches r e = true := hm.2 (r, e) hre
  have hrt' := (List.all_eq_true.1 hrt) (r, e) hre
  simp only [hf, Bool.not_true, Bool.false_or, Bool.and_eq_true, decide_eq_true_eq] at hrt'
  have hname : e.name = r.name := by
    rw [ruleMatches_eq] at hmatch
    simp only [Bool.and_eq_true, decide_eq_true_eq] at hmatch
    exact hmatch.1.1.1.1.symm
  have hs' := sourceOK_of_mem hs he
  rw [hname]
  unfold merge
  rw [intoFile_merge rules hn]
  rw [lookup_map_key (·.name) _ rules hn r hr, lookup_map_key (·.name) _ rules hn r hr]
  congr 1
  apply rule_roundtrip r e file args _ hmatch hf hrt'.1 hrt'.2 hs'
  exact get_filterMap_key (·.fileKey) (fun r => toFileVal r (applyArg r (applyFile r r.default file) args))
    rules hk r hr

end VpnCloud.Proofs.ConfigLemmas
