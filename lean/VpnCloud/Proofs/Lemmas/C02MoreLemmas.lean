import VpnCloud.Model.Node
import VpnCloud.Proofs.Lemmas.NodeInvLemmas
import VpnCloud.Proofs.Lemmas.C09MoreLemmas
import VpnCloud.Proofs.Lemmas.C10MoreLemmas
/-
  Helper lemmas for `Proofs/C02More.lean` (C02 / C06 / C08 at node level):

  * association lists with pairwise distinct keys (`insertA` / `eraseA` keep them distinct, re-inserting the stored value is the identity),
  * the wire form of what the session layer hands to `send_to` (`OutWire`: nothing, a handshake datagram, or the product of
    `encrypt_message`),
  * a GENERIC step invariant `WI S` (structure `WS K`): the configuration of the node is `K`, every stored session satisfies an
    address-indexed predicate `X` that is closed under the session layer, every datagram emitted so far is empty, a handshake datagram, or
    the product of `encrypt_message` of a session that satisfies `X` for the destination — with its seal in the log of the step —, and
    (switch `N`) the keys of `peers` and `pending` are pairwise distinct.  Every building block of `Model/Node.lean` is traversed once,
  * the session-layer facts for the instance "plain only if both" (`PlainOK`),
  * non-interference of the frame contents with the wire bytes of `handle_interface_data` (`IfSim`).
-/
namespace VpnCloud.Proofs.C02MoreLemmas

open VpnCloud VpnCloud.Node
open VpnCloud.Proofs.NodeLemmas VpnCloud.Proofs.NodeLemmas2 VpnCloud.Proofs.NodeInvLemmas VpnCloud.Proofs.InitLemmas
open VpnCloud.Proofs.C09MoreLemmas VpnCloud.Proofs.C10MoreLemmas

/-! ## association lists with distinct keys -/

theorem nodup_eraseA {α} (l : List (NAddr × α)) (a : NAddr) (h : (l.map (·.1)).Nodup) : ((eraseA l a).map (·.1)).Nodup := by
  rw [keys_eraseA]
  exact h.sublist List.filter_sublist

theorem nodup_insertA {α} (l : List (NAddr × α)) (a : NAddr) (v : α) (h : (l.map (·.1)).Nodup) : ((insertA l a v).map (·.1)).Nodup := by
  cases hl : lookupA l a with
  | some w => rw [insertA_keys_of_some _ _ _ _ hl]; exact h
  | none =>
    have hn : a ∉ l.map (·.1) := (lookupA_none_iff l a).1 hl
    have hany : l.any (fun p => p.1 = a) = false := by
      rw [Bool.eq_false_iff]
      intro ht
      rw [List.any_eq_true] at ht
      obtain ⟨x, hx, hxa⟩ := ht
      exact hn (List.mem_map.2 ⟨x, hx, by simpa using hxa⟩)
    unfold insertA
    rw [hany]
    simp only [Bool.false_eq_true, if_false, List.map_append, List.map_cons, List.map_nil]
    rw [List.nodup_append]
    refine ⟨h, by simp, ?_⟩
    intro x hx y hy
    simp only [List.mem_singleton] at hy
    subst hy
    intro hxy
    exact hn (hxy ▸ hx)

/-- with distinct keys, writing back the value that is stored changes nothing -/
theorem insertA_self_of_nodup {α} : ∀ (l : List (NAddr × α)) (a : NAddr) (v : α), (l.map (·.1)).Nodup → lookupA l a = some v →
    insertA l a v = l := by
  intro l a v hnd hl
  have hmem : (a, v) ∈ l := lookupA_some_mem hl
  have hany : l.any (fun p => p.1 = a) = true := by
    rw [List.any_eq_true]
    exact ⟨(a, v), hmem, by simp⟩
  unfold insertA
  rw [hany]
  simp only [if_true]
  have : ∀ x ∈ l, (if x.1 = a then (a, v) else x) = x := by
    intro x hx
    by_cases hxa : x.1 = a
    · rw [if_pos hxa]
      obtain ⟨x1, x2⟩ := x
      simp only at hxa
      subst hxa
      rw [nodup_keys_unique l hnd hmem hx]
    · rw [if_neg hxa]
  calc l.map (fun p => if p.1 = a then (a, v) else p) = l.map id := List.map_congr_left this
    _ = l := List.map_id l

/-! ## the wire form of one output -/

/-- one output of a step, as the wire sees it: a frame for the interface, or a datagram that is empty, a handshake datagram (first byte
    0xff), or the product of `encrypt_message` (`PeerCrypto.sealMsg`) of a session `pc` on a non-empty plaintext, whose log entries are in
    `L` and whose resulting session `pc'` (the one that is stored for the destination at that moment) satisfies `X` -/
def WOut (X : NAddr → PeerCrypto → Prop) (L : Init.SealLog) : Out → Prop
  | .iface _ => True
  | .dgram d bytes =>
      bytes = [] ∨ (∃ b, bytes = Generated.INIT_MESSAGE_FIRST_BYTE :: b) ∨
      ∃ pc pc' plain ct log, PeerCrypto.sealMsg pc plain ct = (pc', .ok (bytes, log)) ∧ plain ≠ [] ∧ (∀ e ∈ log, e ∈ L) ∧ X d pc'

theorem WOut.mono {X : NAddr → PeerCrypto → Prop} {L L' : Init.SealLog} {x : Out} (h : WOut X L x) (hl : ∀ e ∈ L, e ∈ L') : WOut X L' x := by
  cases x with
  | iface b => trivial
  | dgram d bytes =>
    rcases h with h | h | ⟨pc, pc', plain, ct, log, hs, hp, hm, hx⟩
    · exact Or.inl h
    · exact Or.inr (Or.inl h)
    · exact Or.inr (Or.inr ⟨pc, pc', plain, ct, log, hs, hp, fun e he => hl e (hm e he), hx⟩)

theorem WOut.of_isHs {X : NAddr → PeerCrypto → Prop} {L : Init.SealLog} {x : Out} (h : IsHs x) : WOut X L x := by
  obtain ⟨d, b, rfl⟩ := h
  exact Or.inr (Or.inl ⟨b, rfl⟩)

/-- what the session layer hands to `send_to` together with an `.ok` outcome: nothing, a handshake datagram, or the product of
    `encrypt_message` whose resulting session is the returned one and whose log entries are part of the returned log -/
def OutWire : POutcome MsgResult → Prop
  | .ok pc' out _ log =>
      out = [] ∨ (∃ b, out = Generated.INIT_MESSAGE_FIRST_BYTE :: b) ∨
      ∃ pc plain ct log', PeerCrypto.sealMsg pc plain ct = (pc', .ok (out, log')) ∧ plain ≠ [] ∧ (∀ e ∈ log', e ∈ log)
  | _ => True

theorem out1_wire (out : Bytes) :
    (if out.isEmpty then [] else Generated.INIT_MESSAGE_FIRST_BYTE :: out) = [] ∨
    ∃ b, (if out.isEmpty then [] else Generated.INIT_MESSAGE_FIRST_BYTE :: out) = Generated.INIT_MESSAGE_FIRST_BYTE :: b := by
  split
  · exact Or.inl rfl
  · exact Or.inr ⟨out, rfl⟩

theorem successOut_wire (pc1 : PeerCrypto) (core : Option Core) (ini : Bool) (out payload : Bytes) (ilog : Init.SealLog) (rr : RotRand) :
    OutWire (successOut pc1 core ini (if out.isEmpty then [] else Generated.INIT_MESSAGE_FIRST_BYTE :: out) payload ilog rr) := by
  have h1 := out1_wire out
  unfold successOut
  split
  · split
    · exact h1.imp id Or.inl
    · exact h1.imp id Or.inl
  · split
    · simp only []
      split
      · rename_i pc2 bytes log hs
        exact Or.inr (Or.inr ⟨_, _, _, log, hs, by simp, fun e he => List.mem_append_right _ he⟩)
      · trivial
    · exact h1.imp id Or.inl

theorem handleInitMessage_wire (env : CryptoEnv) (bodyOf : Init.BodyOf) (ok : Bytes → Bool) (pc : PeerCrypto) (w : Bytes) (rnd : Rand) (rr : RotRand) :
    OutWire (PeerCrypto.handleInitMessage env bodyOf ok pc w rnd rr) := by
  rw [handleInitMessage_eq]
  split
  · trivial
  · split
    · trivial
    · trivial
    · rename_i ist' out res ilog _
      cases res with
      | «continue» => exact (out1_wire out).imp id Or.inl
      | success payload isInit => exact successOut_wire ..

theorem handleMessage_wire (env : CryptoEnv) (bodyOf : Init.BodyOf) (ok : Bytes → Bool) (pc : PeerCrypto) (data tail : Bytes) (rnd : Rand) (rr : RotRand) :
    OutWire (PeerCrypto.handleMessage env bodyOf ok pc data tail rnd rr) := by
  rw [handleMessage_eq]
  split
  · trivial
  · split
    · split
      · trivial
      · exact handleInitMessage_wire ..
    · split
      · trivial
      · split
        · trivial
        · split
          · rename_i pc1 _ _ body _ _
            generalize body ++ (if pc1.unencrypted then tail else []) = dat
            split
            · trivial
            · split
              · exact Or.inl rfl
              · trivial
          · exact Or.inl rfl

theorem everySecond_outWire (pc : PeerCrypto) (rr : RotRand) :
    match PeerCrypto.everySecond pc rr with
    | .ok pc' out res log => res = .reply → OutWire (.ok pc' out res log)
    | _ => True := by
  have h := everySecond_wire pc rr
  generalize PeerCrypto.everySecond pc rr = r at h
  cases r with
  | panic => trivial
  | err _ _ => trivial
  | ok pc' out res log =>
    intro hr
    rcases h with ⟨_, hb⟩ | ⟨pc4, body, hs⟩
    · exact Or.inr (Or.inl (hb hr))
    · exact Or.inr (Or.inr ⟨pc4, _, rr.ct, log, hs, by simp, fun e he => he⟩)

/-! ## the generic step invariant -/

/-- an address-indexed predicate on sessions that is closed under the session layer, for a node with configuration `K` -/
structure WS (K : NodeCfg) where
  X : NAddr → PeerCrypto → Prop
  /-- track that the keys of `peers` and of `pending` are pairwise distinct -/
  N : Prop
  att : ∀ (n : Node) (hash : Bytes) (a : NAddr), n.cfg = K → X a (newAttempt n hash)
  ping : ∀ (env : CryptoEnv) (n : Node) (hash : Bytes) (rnd : Rand) (ist : InitSt) (a : NAddr), n.cfg = K →
    (newAttempt n hash).init = some ist → X a { newAttempt n hash with init := some (Init.sendPing env ist rnd).1 }
  tick_ok : ∀ (a : NAddr) (pc : PeerCrypto) (rr : RotRand) (pc' : PeerCrypto) (out : Bytes) (res : MsgResult) (log : Init.SealLog), X a pc →
    PeerCrypto.everySecond pc rr = .ok pc' out res log → X a pc'
  x_seal : ∀ (a : NAddr) (pc : PeerCrypto) (ty : Nat) (body ct : Bytes), X a pc → X a (PeerCrypto.sendMessage pc ty body ct).1

/-- `X` (at the address `src`) is closed under `handle_message` for the datagram `data` -/
def MsgClosed (X : NAddr → PeerCrypto → Prop) (env : CryptoEnv) (bodyOf : Init.BodyOf) (src : NAddr) (data tail : Bytes) : Prop :=
  ∀ (pc : PeerCrypto) (rnd : Rand) (rr : RotRand), X src pc →
    match PeerCrypto.handleMessage env bodyOf payloadOk pc data tail rnd rr with
    | .ok pc' _ _ _ => X src pc'
    | .err pc' _ => X src pc'
    | .panic => True

/-- the invariant of a step in progress -/
structure WI {K : NodeCfg} (S : WS K) (c : Ctx) : Prop where
  cfg : c.node.cfg = K
  pend : ∀ a pc, (a, pc) ∈ c.node.pending → S.X a pc
  peers : ∀ a p, (a, p) ∈ c.node.peers → S.X a p.crypto
  outs : ∀ x ∈ c.outs, WOut S.X c.log x
  ndp : S.N → (c.node.peers.map (·.1)).Nodup
  ndq : S.N → (c.node.pending.map (·.1)).Nodup

variable {K : NodeCfg} {S : WS K}

theorem WI.init (n : Node) (hcfg : n.cfg = K) (hq : ∀ a pc, (a, pc) ∈ n.pending → S.X a pc) (hp : ∀ a p, (a, p) ∈ n.peers → S.X a p.crypto)
    (h1 : S.N → (n.peers.map (·.1)).Nodup) (h2 : S.N → (n.pending.map (·.1)).Nodup) : WI S { node := n } :=
  ⟨hcfg, hq, hp, fun x hx => (by cases hx), h1, h2⟩

theorem WI.send {c : Ctx} (h : WI S c) (a : NAddr) (b : Bytes) (hb : WOut S.X c.log (.dgram a b)) : WI S (c.send a b) := by
  refine ⟨h.cfg, h.pend, h.peers, ?_, h.ndp, h.ndq⟩
  intro x hx
  simp only [send_outs, List.mem_append, List.mem_singleton] at hx
  rcases hx with hx | hx
  · exact h.outs x hx
  · rw [hx]; exact hb

theorem WI.addLog {c : Ctx} (h : WI S c) (l : Init.SealLog) : WI S (addLog l c) :=
  ⟨h.cfg, h.pend, h.peers, fun x hx => (h.outs x hx).mono (fun _ he => List.mem_append_left _ he), h.ndp, h.ndq⟩

theorem WI.countInvalid {c : Ctx} (h : WI S c) : WI S (countInvalid c) := ⟨h.cfg, h.pend, h.peers, h.outs, h.ndp, h.ndq⟩

/-- a change of the node that keeps configuration, sessions and keys -/
theorem WI.node {c : Ctx} (h : WI S c) (n' : Node) (h1 : n'.cfg = c.node.cfg) (h2 : n'.pending = c.node.pending) (h3 : n'.peers = c.node.peers) :
    WI S { c with node := n' } :=
  ⟨h1.trans h.cfg, by rw [h2]; exact h.pend, by rw [h3]; exact h.peers, h.outs, by rw [h3]; exact h.ndp, by rw [h2]; exact h.ndq⟩

theorem WI.ext_hs {c c' : Ctx} (h : WI S c) (hn : c'.node = c.node) (hl : c'.log = c.log) (ho : Ext IsHs c.outs c'.outs) : WI S c' := by
  refine ⟨by rw [hn]; exact h.cfg, by rw [hn]; exact h.pend, by rw [hn]; exact h.peers, ?_, by rw [hn]; exact h.ndp, by rw [hn]; exact h.ndq⟩
  intro x hx
  rw [hl]
  rcases ho.mem hx with hx | hx
  · exact h.outs x hx
  · exact WOut.of_isHs hx

theorem connectSock_WI (env : CryptoEnv) (o : Oracle) (c : Ctx) (a : NAddr) (h : WI S c) : WI S (connectSock env o c a) := by
  unfold connectSock
  simp only []
  split
  · exact h
  · split
    · exact h
    · rename_i ist hist
      apply WI.send
      · refine ⟨h.cfg, ?_, h.peers, h.outs, h.ndp, fun hN => nodup_insertA _ _ _ (h.ndq hN)⟩
        intro b pc hb
        rcases mem_insertA hb with heq | hb
        · cases heq
          exact S.ping env c.node _ _ ist _ h.cfg hist
        · exact h.pend b pc hb
      · exact Or.inr (Or.inl ⟨_, rfl⟩)

theorem connect_WI (env : CryptoEnv) (o : Oracle) (c : Ctx) (l : List NAddr) (h : WI S c) : WI S (connect env o c l) := by
  unfold connect
  simp only []
  split
  · exact h
  · exact foldl_inv (WI S) _ (fun c a hc => connectSock_WI env o c a hc) _ _ h

theorem connectToPeers_WI (env : CryptoEnv) (o : Oracle) (c : Ctx) (l : List PeerInfo) (h : WI S c) : WI S (connectToPeers env o c l) := by
  unfold connectToPeers
  apply foldl_inv (WI S) _ _ _ _ h
  intro c p hc
  simp only []
  split
  · exact hc
  · split
    · split
      · exact hc.node _ rfl rfl rfl
      · split
        · exact hc
        · exact connect_WI env o c _ hc
    · exact connect_WI env o c _ hc

/-- replacing the record of a peer by one whose session satisfies `X` -/
theorem WI.insertPeer {c : Ctx} (h : WI S c) (a : NAddr) (q : Peer) (hq : S.X a q.crypto) (t : Table) :
    WI S { c with node := { c.node with peers := insertA c.node.peers a q, table := t } } := by
  refine ⟨h.cfg, h.pend, ?_, h.outs, fun hN => nodup_insertA _ _ _ (h.ndp hN), h.ndq⟩
  intro b r hb
  rcases mem_insertA hb with heq | hb
  · cases heq; exact hq
  · exact h.peers b r hb

theorem updatePeerInfo_WI (env : CryptoEnv) (o : Oracle) (c : Ctx) (now : Int) (a : NAddr) (info : Option NodeInfo) (h : WI S c) :
    WI S (updatePeerInfo env o c now a info) := by
  unfold updatePeerInfo
  simp only []
  split
  · exact h
  · rename_i p hp
    have hx : S.X a p.crypto := h.peers a p (lookupA_some_mem hp)
    cases info with
    | none =>
      refine h.insertPeer a _ ?_ _
      exact hx
    | some i =>
      apply connectToPeers_WI
      refine h.insertPeer a _ ?_ _
      exact hx

theorem WI.of_fields {c c' : Ctx} (h : WI S c) (h1 : c'.node.cfg = c.node.cfg) (h2 : c'.node.pending = c.node.pending)
    (h3 : c'.node.peers = c.node.peers) (h4 : c'.outs = c.outs) (h5 : c'.log = c.log) : WI S c' :=
  ⟨h1.trans h.cfg, fun a pc hm => h.pend a pc (h2 ▸ hm), fun a p hm => h.peers a p (h3 ▸ hm),
   fun x hx => by rw [h5]; exact h.outs x (h4 ▸ hx), fun hN => by rw [h3]; exact h.ndp hN, fun hN => by rw [h2]; exact h.ndq hN⟩

theorem addNewPeer_WI (env : CryptoEnv) (o : Oracle) (c : Ctx) (now : Int) (a : NAddr) (info : NodeInfo) (h : WI S c) :
    WI S (addNewPeer env o c now a info) := by
  unfold addNewPeer
  simp only []
  split
  · exact h
  · rename_i pc hpc
    refine WI.of_fields (c := updatePeerInfo env o _ now a (some info)) ?_ rfl rfl rfl rfl rfl
    apply updatePeerInfo_WI
    refine ⟨h.cfg, fun b q hb => h.pend b q (mem_eraseA hb).1, ?_, h.outs, fun hN => nodup_insertA _ _ _ (h.ndp hN),
      fun hN => nodup_eraseA _ _ (h.ndq hN)⟩
    intro b r hb
    rcases mem_insertA hb with heq | hb
    · cases heq
      exact h.pend a pc (lookupA_some_mem hpc)
    · exact h.peers b r hb

theorem WI.erasePeer {c : Ctx} (h : WI S c) (a : NAddr) (t : Table) :
    WI S { c with node := { c.node with peers := eraseA c.node.peers a, table := t } } :=
  ⟨h.cfg, h.pend, fun b r hb => h.peers b r (mem_eraseA hb).1, h.outs, fun hN => nodup_eraseA _ _ (h.ndp hN), h.ndq⟩

theorem removePeer_WI (c : Ctx) (now : Int) (a : NAddr) (h : WI S c) : WI S (removePeer c now a) := by
  unfold removePeer
  simp only []
  split
  · exact h
  · exact h.erasePeer a _

theorem handleResult_WI (env : CryptoEnv) (o : Oracle) (c : Ctx) (now : Int) (src : NAddr) (res : MsgResult) (out : Bytes) (h : WI S c)
    (hout : WOut S.X c.log (.dgram src out)) : WI S (handleResult env o c now src res out).1 := by
  unfold handleResult
  cases res with
  | message ty data =>
    simp only []
    split
    · split
      · exact h
      · have h1 : WI S { c with outs := c.outs ++ [Out.iface data] } := by
          refine ⟨h.cfg, h.pend, h.peers, ?_, h.ndp, h.ndq⟩
          intro x hx
          rcases List.mem_append.1 hx with hx | hx
          · exact h.outs x hx
          · simp only [List.mem_singleton] at hx
            rw [hx]; trivial
        split
        · exact h1.node _ rfl rfl rfl
        · exact h1
    · split
      · split
        · exact h.countInvalid
        · rename_i info _
          show WI S (updatePeerInfo env o c now src (some info))
          exact updatePeerInfo_WI env o c now src _ h
      · split
        · show WI S (updatePeerInfo env o c now src none)
          exact updatePeerInfo_WI env o c now src _ h
        · split
          · exact removePeer_WI c now src h
          · exact h.countInvalid
  | initialized payload =>
    simp only []
    split
    · exact addNewPeer_WI env o c now src _ h
    · exact h
  | initializedWithReply payload =>
    simp only []
    split
    · have h1 := addNewPeer_WI env o c now src ‹NodeInfo› h
      apply h1.send
      have hlog : (addNewPeer env o c now src ‹NodeInfo›).log = c.log := by
        unfold addNewPeer
        simp only []
        split
        · rfl
        · unfold updatePeerInfo
          simp only []
          split
          · rfl
          · unfold connectToPeers
            refine (foldl_log _ ?_ _ _).trans rfl
            intro c p
            simp only []
            split
            · rfl
            · split
              · split
                · rfl
                · split
                  · rfl
                  · exact connect_log env o c _
              · exact connect_log env o c _
      rw [hlog]
      exact hout
    · exact h
  | reply => exact h.send _ _ hout
  | none => exact h

/-- `store` of `applyOutcome` keeps the invariant if the session satisfies `X` -/
theorem storePc_WI (c : Ctx) (src : NAddr) (inPeers : Bool) (pc : PeerCrypto) (h : WI S c) (hx : S.X src pc) : WI S (storePc c src inPeers pc) := by
  unfold storePc
  cases inPeers with
  | true =>
    simp only [if_true]
    split
    · exact h.insertPeer src _ hx _
    · exact h
  | false =>
    simp only [Bool.false_eq_true, if_false]
    refine ⟨h.cfg, ?_, h.peers, h.outs, h.ndp, fun hN => nodup_insertA _ _ _ (h.ndq hN)⟩
    intro b q hb
    rcases mem_insertA hb with heq | hb
    · cases heq; exact hx
    · exact h.pend b q hb

theorem storePc_log (c : Ctx) (src : NAddr) (inPeers : Bool) (pc : PeerCrypto) : (storePc c src inPeers pc).log = c.log := by
  unfold storePc
  cases inPeers with
  | true =>
    simp only [if_true]
    split <;> rfl
  | false => rfl

/-- the wire form of the reply, in the context the reply is sent from -/
theorem outWire_wout {pc' : PeerCrypto} {out : Bytes} {res : MsgResult} {log : Init.SealLog} (hw : OutWire (.ok pc' out res log))
    (L : Init.SealLog) (src : NAddr) (hx : S.X src pc') : WOut S.X (L ++ log) (.dgram src out) := by
  rcases hw with h | h | ⟨pc, plain, ct, log', hs, hp, hm⟩
  · exact Or.inl h
  · exact Or.inr (Or.inl h)
  · exact Or.inr (Or.inr ⟨pc, pc', plain, ct, log', hs, hp, fun e he => List.mem_append_right _ (hm e he), hx⟩)

theorem applyOutcome_WI (env : CryptoEnv) (o : Oracle) (c : Ctx) (now : Int) (src : NAddr) (inPeers : Bool) (r : POutcome MsgResult) (h : WI S c)
    (hok : ∀ pc' out res log, r = .ok pc' out res log → S.X src pc') (herr : ∀ pc' e, r = .err pc' e → S.X src pc')
    (hw : OutWire r) : WI S (applyOutcome env o c now src inPeers r).1 := by
  rw [applyOutcome_eq]
  cases r with
  | panic => exact ⟨h.cfg, h.pend, h.peers, h.outs, h.ndp, h.ndq⟩
  | err pc e => exact (storePc_WI c src inPeers pc h (herr pc e rfl)).countInvalid
  | ok pc out res log =>
    have hx := hok pc out res log rfl
    apply handleResult_WI env o _ now src res out ((storePc_WI c src inPeers pc h hx).addLog log)
    show WOut S.X ((storePc c src inPeers pc).log ++ log) _
    rw [storePc_log]
    exact outWire_wout hw c.log src hx

theorem responder_WI (env : CryptoEnv) (bodyOf : Init.BodyOf) (o : Oracle) (n : Node) (now : Int) (src : NAddr) (data tail : Bytes)
    (rnd : Rand) (rr : RotRand) (hash : Option Bytes) (h : WI S { node := n }) (hm : MsgClosed S.X env bodyOf src data tail) :
    WI S (responder env bodyOf o n now src data tail rnd rr hash).1 := by
  unfold responder
  simp only []
  have hatt : S.X src (newAttempt n (hash.getD [])) := S.att n _ src h.cfg
  have hw := handleMessage_wire env bodyOf payloadOk (newAttempt n (hash.getD [])) data tail rnd rr
  split
  · rename_i pc' out res log hmm
    have hx : S.X src pc' := by
      have := hm _ rnd rr hatt
      rw [‹PeerCrypto.handleMessage env bodyOf payloadOk (newAttempt n (hash.getD [])) data tail rnd rr = _›] at this
      exact this
    rw [‹PeerCrypto.handleMessage env bodyOf payloadOk (newAttempt n (hash.getD [])) data tail rnd rr = _›] at hw
    have hst : WI S (storePc { node := n } src false pc') := storePc_WI _ src false pc' h hx
    apply handleResult_WI env o _ now src res out (hst.addLog log)
    exact outWire_wout hw [] src hx
  · exact h.countInvalid
  · exact ⟨h.cfg, h.pend, h.peers, h.outs, h.ndp, h.ndq⟩

theorem dispatch_WI (env : CryptoEnv) (bodyOf : Init.BodyOf) (o : Oracle) (n : Node) (now : Int) (src : NAddr) (data tail : Bytes)
    (h : WI S { node := n }) (hm : MsgClosed S.X env bodyOf src data tail) : WI S (dispatch env bodyOf o n now src data tail).1 := by
  have key : ∀ (inPeers : Bool) (pc : PeerCrypto) (rnd : Rand) (rr : RotRand), S.X src pc →
      WI S (applyOutcome env o { node := n } now src inPeers (PeerCrypto.handleMessage env bodyOf payloadOk pc data tail rnd rr)).1 := by
    intro inPeers pc rnd rr hx
    apply applyOutcome_WI env o _ now src inPeers _ h
    · intro pc' out res log hr
      have := hm pc rnd rr hx
      rw [hr] at this
      exact this
    · intro pc' e hr
      have := hm pc rnd rr hx
      rw [hr] at this
      exact this
    · exact handleMessage_wire ..
  unfold dispatch
  simp only []
  split
  · rename_i p hp
    have hxp : S.X src p.crypto := h.peers src p (lookupA_some_mem hp)
    split
    · exact key true _ _ _ hxp
    · split
      · rename_i pc hq
        exact key false _ _ _ (h.pend src pc (lookupA_some_mem hq))
      · split
        · exact key true _ _ _ hxp
        · exact responder_WI env bodyOf o n now src data tail _ _ _ h hm
  · rename_i pc hp hq
    exact key false _ _ _ (h.pend src pc (lookupA_some_mem hq))
  · split
    · exact responder_WI env bodyOf o n now src data tail _ _ _ h hm
    · exact h.countInvalid

theorem finish_WI (src : NAddr) (r : Ctx × Option InitErr) (h : WI S r.1) : WI S (finish src r).1 := by
  unfold finish
  split
  · exact ⟨h.cfg, fun b q hb => h.pend b q (mem_eraseA hb).1, h.peers, h.outs, h.ndp, fun hN => nodup_eraseA _ _ (h.ndq hN)⟩
  · exact h

theorem handleNet_WI (env : CryptoEnv) (bodyOf : Init.BodyOf) (o : Oracle) (n : Node) (now : Int) (src0 : NAddr) (data tail : Bytes)
    (h : WI S { node := n }) (hm : MsgClosed S.X env bodyOf (mappedAddr src0) data tail) :
    WI S (handleNet env bodyOf o n now src0 data tail).1 := by
  rw [handleNet_eq]
  exact finish_WI _ _ (dispatch_WI env bodyOf o n now _ data tail h hm)

/-! ### `handle_interface_data` -/

theorem sendMsg_WI (o : Oracle) (c : Ctx) (a : NAddr) (ty : Nat) (body : Bytes) (h : WI S c) : WI S ((sendMsg o c a ty body).getD c) := by
  unfold sendMsg
  split
  · exact h
  · rename_i p hp
    simp only []
    split
    · rename_i pc' bytes log hs
      simp only [Option.getD_some]
      have hpc : pc' = (PeerCrypto.sendMessage p.crypto ty body (rndFor o c a).2.1.ct).1 := by rw [hs]
      have hx : S.X a pc' := by
        rw [hpc]
        exact S.x_seal a _ ty body _ (h.peers a p (lookupA_some_mem hp))
      apply ((h.insertPeer a { p with crypto := pc' } hx c.node.table).addLog log).send
      exact Or.inr (Or.inr ⟨p.crypto, pc', ty :: body, _, log, hs, by simp, fun e he => List.mem_append_right _ he, hx⟩)
    · exact h

theorem broadcastMsg_WI (o : Oracle) (c : Ctx) (ty : Nat) (body : Bytes) (h : WI S c) : WI S (broadcastMsg o c ty body) := by
  unfold broadcastMsg
  exact foldl_inv (WI S) _ (fun c a hc => sendMsg_WI o c a ty body hc) _ _ h

theorem handleIface_WI (o : Oracle) (n : Node) (now : Int) (data : Bytes) (h : WI S { node := n }) : WI S (handleIface o n now data) := by
  unfold handleIface
  simp only []
  split
  · exact h
  · rename_i sa dst hpa
    have h1 : WI S { node := { n with table := (n.table.lookup now dst).1 } } := h.node _ rfl rfl rfl
    split
    · split
      · exact sendMsg_WI o _ _ _ _ h1
      · exact h1
    · split
      · exact broadcastMsg_WI o _ _ _ h1
      · exact h1.node _ rfl rfl rfl

/-! ### `housekeep` -/

theorem cryptoHousekeep_WI (env : CryptoEnv) (o : Oracle) (c : Ctx) (now : Int) (h : WI S c) : WI S (cryptoHousekeep env o c now) := by
  unfold cryptoHousekeep
  apply foldl_inv (WI S)
  · intro c a hc
    split
    · exact hc
    · rename_i p hp
      have hxp : S.X a p.crypto := hc.peers a p (lookupA_some_mem hp)
      split
      rename_i rr _ _
      have hw := everySecond_outWire p.crypto rr
      split
      · apply connectSock_WI
        exact hc.erasePeer a _
      · exact ⟨hc.cfg, hc.pend, hc.peers, hc.outs, hc.ndp, hc.ndq⟩
      · rename_i pc' out res log hok
        rw [hok] at hw
        have hx : S.X a pc' := S.tick_ok a p.crypto rr pc' out res log hxp hok
        have hins : WI S (addLog log { c with node := { c.node with peers := insertA c.node.peers a { p with crypto := pc' } } }) :=
          (hc.insertPeer a { p with crypto := pc' } hx c.node.table).addLog log
        split
        · rename_i hr
          exact hins.send _ _ (outWire_wout (hw hr) c.log a hx)
        · exact hins
  · apply foldl_inv (WI S)
    · intro c a hc
      split
      · exact hc
      · rename_i pc hp
        have hxp : S.X a pc := hc.pend a pc (lookupA_some_mem hp)
        split
        rename_i rr _ _
        have hw := everySecond_outWire pc rr
        split
        · exact ⟨hc.cfg, fun b q hb => hc.pend b q (mem_eraseA hb).1, hc.peers, hc.outs, hc.ndp, fun hN => nodup_eraseA _ _ (hc.ndq hN)⟩
        · exact ⟨hc.cfg, hc.pend, hc.peers, hc.outs, hc.ndp, hc.ndq⟩
        · rename_i pc' out res log hok
          rw [hok] at hw
          have hx : S.X a pc' := S.tick_ok a pc rr pc' out res log hxp hok
          have hins : WI S (addLog log { c with node := { c.node with pending := insertA c.node.pending a pc' } }) := by
            apply WI.addLog
            refine ⟨hc.cfg, ?_, hc.peers, hc.outs, hc.ndp, fun hN => nodup_insertA _ _ _ (hc.ndq hN)⟩
            intro b q hb
            rcases mem_insertA hb with heq | hb
            · cases heq; exact hx
            · exact hc.pend b q hb
          split
          · rename_i hr
            exact hins.send _ _ (outWire_wout (hw hr) c.log a hx)
          · exact hins
    · exact h

theorem reconnectToPeers_WI (env : CryptoEnv) (o : Oracle) (c : Ctx) (now : Int) (h : WI S c) : WI S (reconnectToPeers env o c now) := by
  unfold reconnectToPeers
  simp only []
  have h1 : WI S (c.node.reconnect.foldl (fun c e => if Generated.reconnectNotDue e.next now then c else connect env o c e.resolved) c) := by
    apply foldl_inv (WI S) _ _ _ _ h
    intro c e hc
    split
    · exact hc
    · exact connect_WI env o c _ hc
  exact h1.node _ rfl rfl rfl

theorem hkDead_WI (env : CryptoEnv) (o : Oracle) (n : Node) (now : Int) (h : WI S { node := n }) : WI S (hkDead env o n now) := by
  unfold hkDead
  apply foldl_inv (WI S) _ _ _ _ h
  intro c a hc
  apply connectSock_WI
  exact hc.erasePeer a _

theorem hkAnnounce_WI (o : Oracle) (c : Ctx) (now : Int) (h : WI S c) : WI S (hkAnnounce o c now) := by
  unfold hkAnnounce
  split
  · simp only []
    have hb := broadcastMsg_WI o c Generated.MESSAGE_TYPE_NODE_INFO (Codec.encodeNodeInfo (createNodeInfo c.node)) h
    split
    · exact hb.node _ rfl rfl rfl
    · exact ⟨hb.cfg, hb.pend, hb.peers, hb.outs, hb.ndp, hb.ndq⟩
  · exact h

theorem hkOwn_WI (c : Ctx) (now : Int) (h : WI S c) : WI S (hkOwn c now) := by
  unfold hkOwn
  split
  · exact h.node _ rfl rfl rfl
  · exact h

theorem housekeep_WI (env : CryptoEnv) (o : Oracle) (n : Node) (now : Int) (h : WI S { node := n }) : WI S (housekeep env o n now) := by
  rw [housekeep_eq]
  apply hkOwn_WI
  apply reconnectToPeers_WI
  apply hkAnnounce_WI
  apply cryptoHousekeep_WI
  exact (hkDead_WI env o n now h).node _ rfl rfl rfl

/-! ## "plain only if both": the session layer -/

theorem selectAlgorithm_none (own peer : Algos) (h : Init.selectAlgorithm own peer = .ok none) :
    own.allowUnencrypted = true ∧ peer.allowUnencrypted = true := by
  unfold Init.selectAlgorithm at h
  split at h
  · rename_i hb
    simpa using hb
  · simp only at h
    split at h
    · cases h
    · cases h

/-- same handshake object, same mode -/
def SameIU (pc pc' : PeerCrypto) : Prop := pc'.init = pc.init ∧ pc'.unencrypted = pc.unencrypted

theorem SameIU.refl (pc : PeerCrypto) : SameIU pc pc := ⟨rfl, rfl⟩
theorem SameIU.trans {a b c : PeerCrypto} (h1 : SameIU a b) (h2 : SameIU b c) : SameIU a c := ⟨h2.1.trans h1.1, h2.2.trans h1.2⟩

theorem sealMsg_iu (pc : PeerCrypto) (plain ct : Bytes) : SameIU pc (PeerCrypto.sealMsg pc plain ct).1 := by
  unfold PeerCrypto.sealMsg
  split
  · exact ⟨rfl, rfl⟩
  · split <;> exact ⟨rfl, rfl⟩

theorem installKey_iu (pc : PeerCrypto) (key : Rot.Key) (id : Nat) (use : Bool) (starts : List Nat) :
    SameIU pc (PeerCrypto.installKey pc key id use starts) := by
  unfold PeerCrypto.installKey
  split <;> exact ⟨rfl, rfl⟩

theorem handleRotate_iu (pc : PeerCrypto) (data : Bytes) (rr : RotRand) : SameIU pc (PeerCrypto.handleRotate pc data rr).1 := by
  unfold PeerCrypto.handleRotate
  split
  · exact ⟨rfl, rfl⟩
  · split
    · exact ⟨rfl, rfl⟩
    · split
      · exact ⟨rfl, rfl⟩
      · simp only []
        repeat' split
        all_goals first
          | exact ⟨rfl, rfl⟩
          | exact installKey_iu ..

theorem decMsg_iu (bodyOf : Init.BodyOf) (pc : PeerCrypto) (d : Bytes) : SameIU pc (decMsg bodyOf pc d).1 := by
  unfold decMsg
  split
  · exact ⟨rfl, rfl⟩
  · split
    · exact ⟨rfl, rfl⟩
    · simp only []
      split <;> exact ⟨rfl, rfl⟩

def SuccIU (pc1 : PeerCrypto) : POutcome MsgResult → Prop
  | .panic => True
  | .err pc' _ => SameIU pc1 pc'
  | .ok pc' _ _ _ => SameIU pc1 pc'

theorem successOut_iu (pc1 : PeerCrypto) (core : Option Core) (ini : Bool) (out1 payload : Bytes) (ilog : Init.SealLog) (rr : RotRand) :
    SuccIU pc1 (successOut pc1 core ini out1 payload ilog rr) := by
  unfold successOut
  split
  · split <;> exact ⟨rfl, rfl⟩
  · split
    · simp only []
      have h := sealMsg_iu { pc1 with rot := some (PeerCrypto.initSide true rr.freshProp) }
        (Generated.MESSAGE_TYPE_ROTATION :: Codec.writeRotMsg (PeerCrypto.rotMsgToBytes ⟨1, rr.freshProp, none⟩)) rr.ct
      split
      · rename_i hs
        rw [hs] at h
        exact h
      · rename_i hs
        rw [hs] at h
        exact h
    · exact ⟨rfl, rfl⟩

/-- a handshake object of a node with configuration `K`: it advertises the node's algorithm list; an object that has answered a ping
    (stage PENG) without installing a key has chosen plain, which needs the node's own flag -/
def IPl (K : NodeCfg) (i : InitSt) : Prop :=
  i.algos = K.algos ∧ (i.stage = Generated.STAGE_PENG → i.crypto = none → K.algos.allowUnencrypted = true)

/-- a session of a node with configuration `K`: unencrypted only if the node enabled plain -/
def PlainOK (K : NodeCfg) (pc : PeerCrypto) : Prop :=
  (pc.unencrypted = true → K.algos.allowUnencrypted = true) ∧ ∀ i, pc.init = some i → IPl K i

theorem PlainOK.of_iu {K : NodeCfg} {pc pc' : PeerCrypto} (h : PlainOK K pc) (hi : SameIU pc pc') : PlainOK K pc' :=
  ⟨fun hu => h.1 (hi.2 ▸ hu), fun i hi' => h.2 i (hi.1 ▸ hi')⟩

theorem init_sendMessage_frame (env : CryptoEnv) (st : InitSt) (stage : Nat) (rnd : Rand) :
    ∃ cr l, (Init.sendMessage env st stage rnd).1 = { st with crypto := cr, last := l } ∧ (cr = none ↔ st.crypto = none) := by
  have he : (Init.encryptPayload st rnd).1 = { st with crypto := st.crypto.map (fun c => (c.encrypt st.payload).1) } := encryptPayload_fst st rnd
  unfold Init.sendMessage
  split
  rename_i st1 msg log heq
  split at heq
  · cases heq
    exact ⟨st.crypto, _, rfl, Iff.rfl⟩
  · split at heq
    · split at heq
      rename_i _ _ _ hep
      cases heq
      have : st1 = (Init.encryptPayload st rnd).1 := by rw [hep]
      rw [he] at this
      subst this
      exact ⟨_, _, rfl, by simp⟩
    · split at heq
      rename_i _ _ _ hep
      cases heq
      have : st1 = (Init.encryptPayload st rnd).1 := by rw [hep]
      rw [he] at this
      subst this
      exact ⟨_, _, rfl, by simp⟩

theorem init_sendMessage_algos (env : CryptoEnv) (st : InitSt) (stage : Nat) (rnd : Rand) :
    (Init.sendMessage env st stage rnd).1.algos = st.algos := by
  obtain ⟨cr, l, h, _⟩ := init_sendMessage_frame env st stage rnd
  rw [h]

theorem init_sendMessage_cryptoNone (env : CryptoEnv) (st : InitSt) (stage : Nat) (rnd : Rand) :
    (Init.sendMessage env st stage rnd).1.crypto = none ↔ st.crypto = none := by
  obtain ⟨cr, l, h, hc⟩ := init_sendMessage_frame env st stage rnd
  rw [h]
  exact hc

theorem decryptPayload_cryptoNone (s s' : InitSt) (bodyOf : Init.BodyOf) (data : Bytes) (r : Option Bytes)
    (h : Init.decryptPayload s bodyOf data = (s', r)) :
    (∃ cr, s' = { s with crypto := cr } ∧ (cr = none ↔ s.crypto = none)) := by
  unfold Init.decryptPayload at h
  split at h
  · rename_i c hc
    simp only at h
    split at h <;> (simp only [Prod.mk.injEq] at h; exact ⟨_, h.1.symm, by simp [hc]⟩)
  · rename_i hc
    simp only [Prod.mk.injEq] at h
    refine ⟨none, ?_, by simp [hc]⟩
    rw [← h.1]
    cases s; simp only at hc; subst hc; rfl

/-- what `handle_init` returns for a handshake object of a node with configuration `K` -/
def PlRes (K : NodeCfg) : Res → Prop
  | .panic => True
  | .err st' _ => IPl K st'
  | .ok st' (_, res, _) => IPl K st' ∧
      ∀ p ini, res = .success p ini → st'.stage ≠ Generated.STAGE_PENG ∧ (st'.crypto = none → K.algos.allowUnencrypted = true)

theorem pongSt_cryptoNone (st0 : InitSt) (own eb hb : Bytes) (sel : Option Cipher) (rnd : Rand)
    (h : (pongSt st0 own eb hb sel rnd).crypto = none) : sel = none := by
  cases sel with
  | none => rfl
  | some c => cases h

theorem pongSt_algos (st0 : InitSt) (own eb hb : Bytes) (sel : Option Cipher) (rnd : Rand) :
    (pongSt st0 own eb hb sel rnd).algos = st0.algos := by cases sel <;> rfl

theorem handleMsg_plain (K : NodeCfg) (env : CryptoEnv) (bodyOf : Init.BodyOf) (ok : Bytes → Bool) (st0 : InitSt) (msg : InitMsg) (rnd : Rand)
    (hs : msg.stage = st0.stage) (hp : IPl K st0) : PlRes K (handleMsg env bodyOf ok st0 msg rnd) := by
  cases msg with
  | ping h ecdh algos =>
    simp only [handleMsg]
    split
    · exact ⟨hp.1, hp.2⟩
    · rename_i sel hsel
      split
      · -- a cipher was selected
        refine ⟨⟨?_, ?_⟩, fun p ini hh => by cases hh⟩
        · dsimp only
          rw [init_sendMessage_algos]
          exact hp.1
        · intro _ hcn
          dsimp only at hcn
          rw [init_sendMessage_cryptoNone] at hcn
          cases hcn
      · -- plain was selected
        have hown := (selectAlgorithm_none _ _ hsel).1
        refine ⟨⟨?_, fun _ _ => ?_⟩, fun p ini hh => by cases hh⟩
        · dsimp only
          rw [init_sendMessage_algos]
          exact hp.1
        · have : st0.algos.allowUnencrypted = true := hown
          rw [hp.1] at this
          exact this
  | pong h ecdh algos payload =>
    simp only [handleMsg]
    split
    · trivial
    · rename_i own hown
      split
      · exact ⟨hp.1, hp.2⟩
      · rename_i sel hsel
        have hst : st0.stage ≠ Generated.STAGE_PENG := by
          rw [← hs]; exact (by decide : Generated.STAGE_PONG ≠ Generated.STAGE_PENG)
        split
        · rename_i st5 hd
          obtain ⟨cr, rfl, _⟩ := decryptPayload_cryptoNone _ _ _ _ _ hd
          refine ⟨(pongSt_algos ..).trans hp.1, fun hpe => absurd ((pongSt_stage ..).symm.trans hpe) hst⟩
        · rename_i st5 p hd
          obtain ⟨cr, rfl, hcr⟩ := decryptPayload_cryptoNone _ _ _ _ _ hd
          have h5 : IPl K { pongSt st0 own ecdh h sel rnd with crypto := cr } :=
            ⟨(pongSt_algos ..).trans hp.1, fun hpe => absurd ((pongSt_stage ..).symm.trans hpe) hst⟩
          split
          · exact h5
          · refine ⟨⟨?_, fun hpe => by cases hpe⟩, fun p' ini _ => ⟨(by decide : Generated.WAITING_TO_CLOSE ≠ Generated.STAGE_PENG), fun hcn => ?_⟩⟩
            · dsimp only
              rw [init_sendMessage_algos]
              exact h5.1
            · dsimp only at hcn
              rw [init_sendMessage_cryptoNone] at hcn
              have hcrn : cr = none := hcn
              have hsel0 := pongSt_cryptoNone _ _ _ _ _ _ (hcr.1 hcrn)
              subst hsel0
              have := (selectAlgorithm_none _ _ hsel).1
              have : st0.algos.allowUnencrypted = true := this
              rw [hp.1] at this
              exact this
  | peng h payload =>
    simp only [handleMsg]
    have hst : st0.stage = Generated.STAGE_PENG := hs.symm
    split
    · rename_i st2 hd
      obtain ⟨cr, rfl, hcr⟩ := decryptPayload_cryptoNone _ _ _ _ _ hd
      exact ⟨hp.1, fun hpe hcn => hp.2 hpe (hcr.1 hcn)⟩
    · rename_i st2 p hd
      obtain ⟨cr, rfl, hcr⟩ := decryptPayload_cryptoNone _ _ _ _ _ hd
      split
      · exact ⟨hp.1, fun hpe hcn => hp.2 hpe (hcr.1 hcn)⟩
      · exact ⟨⟨hp.1, fun hpe => by cases hpe⟩, fun p' ini _ => ⟨(by decide : Generated.CLOSING ≠ Generated.STAGE_PENG), fun hcn => hp.2 hst (hcr.1 hcn)⟩⟩

theorem handleInit_plain (K : NodeCfg) (env : CryptoEnv) (bodyOf : Init.BodyOf) (ok : Bytes → Bool) (st : InitSt) (w : Bytes) (rnd : Rand)
    (hp : IPl K st) : PlRes K (Init.handleInit env bodyOf ok st w rnd) := by
  rw [handleInit_eq]
  split
  · exact hp
  · rename_i m k hr
    split
    · exact hp
    · split
      · rename_i o ho
        rcases stageCheck_inr' _ _ _ _ ho with ⟨x, rfl⟩ | rfl
        · exact ⟨hp, fun p ini hh => by cases hh⟩
        · exact hp
      · trivial
      · rename_i st0 ho
        rcases stageCheck_inl _ _ _ _ ho with ⟨h1, h2⟩ | ⟨h1, h2⟩
        · simp only [Option.some.injEq] at h1
          subst h1
          exact handleMsg_plain K env bodyOf ok _ m rnd h2 hp
        · simp only [Option.some.injEq] at h1
          subst h1
          exact handleMsg_plain K env bodyOf ok _ m rnd h2 ⟨hp.1, fun hpe => by cases hpe⟩

theorem successPc_plainOK (K : NodeCfg) (pc : PeerCrypto) (ist' : InitSt) (hi : IPl K ist') (hst : ist'.stage ≠ Generated.STAGE_PENG)
    (hc : ist'.crypto = none → K.algos.allowUnencrypted = true) : PlainOK K (successPc pc ist') := by
  constructor
  · intro hu
    apply hc
    have : ist'.crypto.isNone = true := hu
    cases hcr : ist'.crypto with
    | none => rfl
    | some c => rw [hcr] at this; cases this
  · intro i hi'
    unfold successPc at hi'
    simp only at hi'
    split at hi'
    · cases hi'
    · simp only [Option.some.injEq] at hi'
      subst hi'
      exact ⟨hi.1, fun hpe => absurd hpe hst⟩

/-- what the session layer returns for a session of a node with configuration `K` -/
def PlOut (K : NodeCfg) : POutcome MsgResult → Prop
  | .panic => True
  | .err pc' _ => PlainOK K pc'
  | .ok pc' _ _ _ => PlainOK K pc'

theorem handleInitMessage_plainOK (K : NodeCfg) (env : CryptoEnv) (bodyOf : Init.BodyOf) (ok : Bytes → Bool) (pc : PeerCrypto) (w : Bytes) (rnd : Rand)
    (rr : RotRand) (hp : PlainOK K pc) : PlOut K (PeerCrypto.handleInitMessage env bodyOf ok pc w rnd rr) := by
  rw [handleInitMessage_eq]
  split
  · exact hp
  · rename_i ist hi
    have hg := handleInit_plain K env bodyOf ok ist w rnd (hp.2 ist hi)
    generalize Init.handleInit env bodyOf ok ist w rnd = r at hg
    cases r with
    | panic => trivial
    | err ist' e =>
      refine ⟨hp.1, fun i hi' => ?_⟩
      simp only [Option.some.injEq] at hi'
      subst hi'
      exact hg
    | ok ist' x =>
      obtain ⟨out, res, ilog⟩ := x
      cases res with
      | «continue» =>
        refine ⟨hp.1, fun i hi' => ?_⟩
        simp only [Option.some.injEq] at hi'
        subst hi'
        exact hg.1
      | success payload isInit =>
        obtain ⟨h1, h2⟩ := hg.2 payload isInit rfl
        have hpk := successPc_plainOK K pc ist' hg.1 h1 h2
        have hc := successOut_iu (successPc pc ist') ist'.crypto isInit (if out.isEmpty then [] else Generated.INIT_MESSAGE_FIRST_BYTE :: out) payload ilog rr
        simp only []
        generalize successOut (successPc pc ist') ist'.crypto isInit (if out.isEmpty then [] else Generated.INIT_MESSAGE_FIRST_BYTE :: out) payload ilog rr = r at hc
        cases r with
        | panic => trivial
        | err pc' e => exact hpk.of_iu hc
        | ok pc' o res log => exact hpk.of_iu hc

theorem handleMessage_plainOK (K : NodeCfg) (env : CryptoEnv) (bodyOf : Init.BodyOf) (ok : Bytes → Bool) (pc : PeerCrypto) (datagram tail : Bytes)
    (rnd : Rand) (rr : RotRand) (hp : PlainOK K pc) : PlOut K (PeerCrypto.handleMessage env bodyOf ok pc datagram tail rnd rr) := by
  rw [handleMessage_eq]
  split
  · exact hp
  · rename_i b0 rest
    split
    · split
      · exact hp
      · exact handleInitMessage_plainOK K env bodyOf ok pc rest rnd rr hp
    · have hi := decMsg_iu bodyOf pc (b0 :: rest)
      rcases hd : decMsg bodyOf pc (b0 :: rest) with ⟨pc1, r⟩
      rw [hd] at hi
      cases r with
      | error e => exact hp.of_iu hi
      | ok plain =>
        cases plain with
        | nil => trivial
        | cons ty body =>
          simp only []
          split
          · by_cases hpan : PeerCrypto.rotatePanics pc1 (body ++ (if pc1.unencrypted then tail else [])) = true
            · rw [if_pos hpan]; trivial
            rw [if_neg hpan]
            have hr := handleRotate_iu pc1 (body ++ (if pc1.unencrypted then tail else [])) rr
            rcases hrot : PeerCrypto.handleRotate pc1 (body ++ (if pc1.unencrypted then tail else [])) rr with ⟨pc2, r2⟩
            rw [hrot] at hr
            cases r2 with
            | error e => exact hp.of_iu (hi.trans hr)
            | ok u => exact hp.of_iu (hi.trans hr)
          · exact hp.of_iu hi

theorem init_everySecond_plain (K : NodeCfg) (st : InitSt) (h : IPl K st) : IPl K (Init.everySecond st).1 := by
  unfold Init.everySecond
  repeat' split
  all_goals first
    | exact h
    | exact ⟨h.1, fun hpe => by cases hpe⟩
    | exact ⟨h.1, h.2⟩

theorem tickInit_plain (K : NodeCfg) (pc : PeerCrypto) (h : PlainOK K pc) : ∀ i, tickInit pc = some i → IPl K i := by
  intro i hi
  unfold tickInit at hi
  split at hi
  · rename_i ist hist
    split at hi
    · cases hi
    · simp only [Option.some.injEq] at hi
      subst hi
      exact init_everySecond_plain K ist (h.2 ist hist)
  · cases hi

theorem tick1_unenc (pc : PeerCrypto) : (tick1 pc).1.unencrypted = pc.unencrypted := by
  unfold tick1
  cases hi : pc.init <;> rfl

theorem sealMsg_ok_unenc (pc4 pc5 : PeerCrypto) (plain ct bytes : Bytes) (log : Init.SealLog)
    (hs : PeerCrypto.sealMsg pc4 plain ct = (pc5, .ok (bytes, log))) : pc5.unencrypted = pc4.unencrypted := by
  have := (sealMsg_iu pc4 plain ct).2
  rw [hs] at this
  exact this

def TickU (u : Bool) : POutcome MsgResult → Prop
  | .ok pc' _ _ _ => pc'.unencrypted = u
  | _ => True

theorem tickRot_unenc (pc2 : PeerCrypto) (rr : RotRand) : TickU pc2.unencrypted (tickRot pc2 rr) := by
  unfold tickRot
  split
  · exact rfl
  · simp only []
    split
    · exact rfl
    · repeat' split
      all_goals first
        | exact rfl
        | trivial
        | exact (installKey_iu ..).2
        | skip
      · rename_i hs
        refine (sealMsg_ok_unenc _ _ _ _ _ _ hs).trans ?_
        split
        · exact (installKey_iu ..).2
        · rfl

theorem everySecond_unenc (pc : PeerCrypto) (rr : RotRand) : TickU pc.unencrypted (PeerCrypto.everySecond pc rr) := by
  rw [everySecond_eq]
  have h1 := tick1_unenc pc
  rcases ht : tick1 pc with ⟨pc1, r⟩
  rw [ht] at h1
  cases r with
  | error e => trivial
  | ok out =>
    simp only []
    split
    · exact h1
    · have := tickRot_unenc (tick2 pc1) rr
      have h2 : (tick2 pc1).unencrypted = pc.unencrypted := h1
      rw [h2] at this
      exact this

theorem everySecond_plainOK (K : NodeCfg) (pc : PeerCrypto) (rr : RotRand) (pc' : PeerCrypto) (out : Bytes) (res : MsgResult) (log : Init.SealLog)
    (hp : PlainOK K pc) (h : PeerCrypto.everySecond pc rr = .ok pc' out res log) : PlainOK K pc' := by
  have hs := everySecond_spec pc rr
  have hu := everySecond_unenc pc rr
  rw [h] at hs hu
  refine ⟨fun hun => hp.1 (hu ▸ hun), fun i hi => ?_⟩
  rw [hs.1] at hi
  exact tickInit_plain K pc hp i hi

/-- the instance "plain only if the node enabled it" of the generic invariant (`N`: whether distinct keys are tracked too) -/
def plainWS (K : NodeCfg) (N : Prop) : WS K where
  X := fun _ pc => PlainOK K pc
  N := N
  att := by
    intro n hash a hcfg
    refine ⟨fun hu => (by cases hu), fun i hi => ?_⟩
    simp only [newAttempt, Option.some.injEq] at hi
    subst hi
    exact ⟨by rw [hcfg], fun hpe => by cases hpe⟩
  ping := by
    intro env n hash rnd ist a hcfg hist
    refine ⟨fun hu => (by cases hu), fun i hi => ?_⟩
    simp only [Option.some.injEq] at hi
    subst hi
    simp only [newAttempt, Option.some.injEq] at hist
    subst hist
    refine ⟨?_, fun hpe => by cases hpe⟩
    dsimp only [Init.sendPing]
    rw [init_sendMessage_algos, ← hcfg]
  tick_ok := fun _ pc rr pc' out res log hp h => everySecond_plainOK K pc rr pc' out res log hp h
  x_seal := fun _ pc ty body ct hp => hp.of_iu (sealMsg_iu pc (ty :: body) ct)

theorem plainWS_msgClosed (K : NodeCfg) (N : Prop) (env : CryptoEnv) (bodyOf : Init.BodyOf) (src : NAddr) (data tail : Bytes) :
    MsgClosed (plainWS K N).X env bodyOf src data tail := by
  intro pc rnd rr hx
  have := handleMessage_plainOK K env bodyOf payloadOk pc data tail rnd rr hx
  generalize PeerCrypto.handleMessage env bodyOf payloadOk pc data tail rnd rr = r at this
  cases r with
  | panic => trivial
  | err pc' e => exact this
  | ok pc' out res log => exact this

/-! ## the peer's side: a handshake ends in plain mode only if the peer advertised plain -/

/-- a successful `handle_init` that leaves the object without a key processed a pong for which `select_algorithm` chose plain, or a peng
    while the object (a responder that had answered the ping) held no key -/
theorem handleInit_plain_success (env : CryptoEnv) (bodyOf : Init.BodyOf) (ok : Bytes → Bool) (st st' : InitSt) (w : Bytes) (rnd : Rand)
    (out p : Bytes) (ini : Bool) (log : Init.SealLog)
    (h : Init.handleInit env bodyOf ok st w rnd = .ok st' (out, .success p ini, log)) (hc : st'.crypto = none) :
    ∃ m k, InitMsg.readFrom env w st.trusted = .ok (m, k) ∧ m.stage = st.stage ∧
      ((∃ hb eb A pl, m = .pong hb eb A pl ∧ Init.selectAlgorithm st.algos A = .ok none) ∨
       (∃ hb pl, m = .peng hb pl ∧ st.crypto = none)) := by
  obtain ⟨m, k, hr, hst, hm⟩ := handleInit_success env bodyOf ok st st' w rnd out p ini log h
  refine ⟨m, k, hr, hst, ?_⟩
  cases m with
  | ping hb e a => exact absurd hm (handleMsg_ping _ _ _ _ _ _ _ _ _ _ _ _ _)
  | pong hb eb ab pl =>
    obtain ⟨_, own, sel, st5, _, hsel, hd, _, hst'⟩ := handleMsg_pong _ _ _ _ _ _ _ _ _ _ _ _ _ _ hm
    obtain ⟨cr, rfl, hcr⟩ := decryptPayload_cryptoNone _ _ _ _ _ hd
    rw [hst'] at hc
    dsimp only at hc
    rw [init_sendMessage_cryptoNone] at hc
    have hsel0 := pongSt_cryptoNone _ _ _ _ _ _ (hcr.1 hc)
    subst hsel0
    exact Or.inl ⟨hb, eb, ab, pl, rfl, hsel⟩
  | peng hb pl =>
    obtain ⟨_, st2, hd, _, hst'⟩ := handleMsg_peng _ _ _ _ _ _ _ _ _ _ _ _ hm
    obtain ⟨cr, rfl, hcr⟩ := decryptPayload_cryptoNone _ _ _ _ _ hd
    rw [hst'] at hc
    exact Or.inr ⟨hb, pl, rfl, hcr.1 hc⟩

/-- a handshake object enters the stage "ping answered" without a key only by answering a ping for which `select_algorithm` chose plain -/
theorem handleInit_ping_plain (env : CryptoEnv) (bodyOf : Init.BodyOf) (ok : Bytes → Bool) (st st' : InitSt) (w : Bytes) (rnd : Rand)
    (x : Bytes × InitResult × Init.SealLog)
    (h : Init.handleInit env bodyOf ok st w rnd = .ok st' x) (hst : st.stage ≠ Generated.STAGE_PENG)
    (hst' : st'.stage = Generated.STAGE_PENG) (hc : st'.crypto = none) :
    ∃ k hb eb A, InitMsg.readFrom env w st.trusted = .ok (.ping hb eb A, k) ∧ Init.selectAlgorithm st.algos A = .ok none := by
  rw [handleInit_eq] at h
  split at h
  · cases h
  rename_i m k hr
  split at h
  · cases h
  split at h
  · rename_i o ho
    rcases stageCheck_inr' _ _ _ _ ho with ⟨y, rfl⟩ | rfl
    · cases h
      exact absurd hst' hst
    · cases h
  · cases h
  · rename_i st0 hs
    have h0 : st0.algos = st.algos ∧ st0.stage ≠ Generated.STAGE_PENG := by
      rcases stageCheck_inl _ _ _ _ hs with ⟨h1, _⟩ | ⟨h1, _⟩
      · simp only [Option.some.injEq] at h1
        subst h1
        exact ⟨rfl, hst⟩
      · simp only [Option.some.injEq] at h1
        subst h1
        exact ⟨rfl, (by decide : Generated.STAGE_PING ≠ Generated.STAGE_PENG)⟩
    cases m with
    | ping hb eb A =>
      refine ⟨k, hb, eb, A, hr, ?_⟩
      simp only [handleMsg] at h
      split at h
      · cases h
      · rename_i sel hsel
        rw [← h0.1]
        cases sel with
        | none => exact hsel
        | some c =>
          exfalso
          simp only [Outcome.ok.injEq] at h
          rw [← h.1] at hc
          dsimp only at hc
          rw [init_sendMessage_cryptoNone] at hc
          cases hc
    | pong hb eb A pl =>
      exfalso
      simp only [handleMsg] at h
      split at h
      · cases h
      · split at h
        · cases h
        · split at h
          · cases h
          · split at h
            · cases h
            · simp only [Outcome.ok.injEq] at h
              rw [← h.1] at hst'
              exact absurd hst' (by decide : Generated.WAITING_TO_CLOSE ≠ Generated.STAGE_PENG)
    | peng hb pl =>
      exfalso
      simp only [handleMsg] at h
      split at h
      · cases h
      · split at h
        · cases h
        · simp only [Outcome.ok.injEq] at h
          rw [← h.1] at hst'
          exact absurd hst' (by decide : Generated.CLOSING ≠ Generated.STAGE_PENG)

/-- how the mode of a session can change under `handle_message`: an error never turns it to plain, and an `.ok` outcome turns an
    encrypted session to plain only for a datagram with the handshake marker that the session's handshake object processed successfully,
    ending without a key -/
def UnencOut (env : CryptoEnv) (bodyOf : Init.BodyOf) (ok : Bytes → Bool) (pc : PeerCrypto) (data : Bytes) (rnd : Rand) :
    POutcome MsgResult → Prop
  | .panic => True
  | .err pc' _ => pc'.unencrypted = false
  | .ok pc' _ _ _ => pc'.unencrypted = true →
      ∃ w ist ist' o p ini l, data = Generated.INIT_MESSAGE_FIRST_BYTE :: w ∧ pc.init = some ist ∧
        Init.handleInit env bodyOf ok ist w rnd = .ok ist' (o, .success p ini, l) ∧ ist'.crypto = none

theorem handleMessage_unenc_cases (env : CryptoEnv) (bodyOf : Init.BodyOf) (ok : Bytes → Bool) (pc : PeerCrypto) (data tail : Bytes)
    (rnd : Rand) (rr : RotRand) (hu : pc.unencrypted = false) :
    UnencOut env bodyOf ok pc data rnd (PeerCrypto.handleMessage env bodyOf ok pc data tail rnd rr) := by
  rw [handleMessage_eq]
  split
  · exact hu
  · rename_i b0 rest
    split
    · rename_i hb0
      subst hb0
      split
      · exact hu
      · rw [handleInitMessage_eq]
        split
        · exact hu
        · rename_i ist hi
          cases hh : Init.handleInit env bodyOf ok ist rest rnd with
          | panic => trivial
          | err ist' e => exact hu
          | ok ist' x =>
            obtain ⟨o, ires, il⟩ := x
            cases ires with
            | «continue» =>
              intro hu'
              rw [hu] at hu'
              cases hu'
            | success payload isInit =>
              have hc := successOut_iu (successPc pc ist') ist'.crypto isInit (if o.isEmpty then [] else Generated.INIT_MESSAGE_FIRST_BYTE :: o) payload il rr
              have hs := successOut_cases (successPc pc ist') ist'.crypto isInit (if o.isEmpty then [] else Generated.INIT_MESSAGE_FIRST_BYTE :: o) payload il rr
              simp only []
              generalize successOut (successPc pc ist') ist'.crypto isInit (if o.isEmpty then [] else Generated.INIT_MESSAGE_FIRST_BYTE :: o) payload il rr = r at hc hs
              cases r with
              | panic => trivial
              | err pc' e =>
                show pc'.unencrypted = false
                rw [hc.2]
                exact hs.2.2.1
              | ok pc' o' res log =>
                intro hu'
                have h1 : pc'.unencrypted = ist'.crypto.isNone := hc.2
                rw [hu'] at h1
                refine ⟨rest, ist, ist', o, payload, isInit, il, rfl, hi, hh, ?_⟩
                cases hcr : ist'.crypto with
                | none => rfl
                | some c => rw [hcr] at h1; cases h1
    · have hi := decMsg_iu bodyOf pc (b0 :: rest)
      rcases hd : decMsg bodyOf pc (b0 :: rest) with ⟨pc1, r⟩
      rw [hd] at hi
      cases r with
      | error e => exact hi.2.trans hu
      | ok plain =>
        cases plain with
        | nil => trivial
        | cons ty body =>
          simp only []
          split
          · by_cases hpan : PeerCrypto.rotatePanics pc1 (body ++ (if pc1.unencrypted then tail else [])) = true
            · rw [if_pos hpan]; trivial
            rw [if_neg hpan]
            have hr := handleRotate_iu pc1 (body ++ (if pc1.unencrypted then tail else [])) rr
            rcases hrot : PeerCrypto.handleRotate pc1 (body ++ (if pc1.unencrypted then tail else [])) rr with ⟨pc2, r2⟩
            rw [hrot] at hr
            cases r2 with
            | error e => exact (hi.trans hr).2.trans hu
            | ok u =>
              intro hu'
              rw [(hi.trans hr).2, hu] at hu'
              cases hu'
          · intro hu'
            rw [hi.2, hu] at hu'
            cases hu'

/-! ## non-interference of the frame contents with the wire bytes of `handle_interface_data` -/

theorem encrypt_indep (c : Core) (p1 p2 : Bytes) : (c.encrypt p1).1 = (c.encrypt p2).1 ∧ (c.encrypt p1).2.hdr = (c.encrypt p2).2.hdr := by
  unfold Core.encrypt
  split <;> exact ⟨rfl, rfl⟩

/-- `encrypt_message` on two plaintexts with the same oracle ciphertext: same resulting session, same failure, and — for an encrypted
    session — the same bytes on the wire -/
theorem sealMsg_indep (pc : PeerCrypto) (p1 p2 ct : Bytes) :
    (∃ e, PeerCrypto.sealMsg pc p1 ct = (pc, .error e) ∧ PeerCrypto.sealMsg pc p2 ct = (pc, .error e)) ∨
    (∃ pc' b1 l1 b2 l2, PeerCrypto.sealMsg pc p1 ct = (pc', .ok (b1, l1)) ∧ PeerCrypto.sealMsg pc p2 ct = (pc', .ok (b2, l2)) ∧
      pc'.unencrypted = pc.unencrypted ∧ (pc.unencrypted = false → b1 = b2)) := by
  cases hu : pc.unencrypted with
  | true =>
    refine Or.inr ⟨pc, p1, [], p2, [], ?_, ?_, hu, fun h => by cases h⟩
    · simp only [PeerCrypto.sealMsg, hu, if_true]
    · simp only [PeerCrypto.sealMsg, hu, if_true]
  | false =>
    cases hc : pc.core with
    | none =>
      refine Or.inl ⟨.state, ?_, ?_⟩
      · simp only [PeerCrypto.sealMsg, hu, hc, Bool.false_eq_true, if_false]
      · simp only [PeerCrypto.sealMsg, hu, hc, Bool.false_eq_true, if_false]
    | some c =>
      obtain ⟨h1, h2⟩ := encrypt_indep c p1 p2
      refine Or.inr ⟨{ pc with core := some (c.encrypt p1).1 }, (c.encrypt p1).2.hdr ++ ct, [(ct, (c.encrypt p1).2.body)],
        (c.encrypt p1).2.hdr ++ ct, [(ct, (c.encrypt p2).2.body)], ?_, ?_, hu, fun _ => rfl⟩
      · simp only [PeerCrypto.sealMsg, hu, hc, Bool.false_eq_true, if_false]
      · simp only [PeerCrypto.sealMsg, hu, hc, Bool.false_eq_true, if_false, h1, h2]

/-- what the wire shows of an output when only the destinations in `enc` are looked at: the destination, and the bytes if it is in `enc` -/
def redact (enc : NAddr → Bool) : Out → Out
  | .dgram d b => if enc d then .dgram d b else .dgram d []
  | .iface b => .iface b

/-- two runs of `handle_interface_data` in progress: same node state, same emission counters, same wire view -/
structure IfSim (enc : NAddr → Bool) (c1 c2 : Ctx) : Prop where
  node : c1.node = c2.node
  cnt : c1.cnt = c2.cnt
  panicked : c1.panicked = c2.panicked
  outs : c1.outs.map (redact enc) = c2.outs.map (redact enc)
  henc : ∀ a p, (a, p) ∈ c2.node.peers → enc a = true → p.crypto.unencrypted = false

theorem rndFor_congr (o : Oracle) (c1 c2 : Ctx) (a : NAddr) (h : c1.cnt = c2.cnt) : rndFor o c1 a = rndFor o c2 a := by
  unfold rndFor Ctx.count
  rw [h]

theorem sendMsg_sim (o : Oracle) (enc : NAddr → Bool) (c1 c2 : Ctx) (a : NAddr) (ty : Nat) (b1 b2 : Bytes) (h : IfSim enc c1 c2) :
    IfSim enc ((sendMsg o c1 a ty b1).getD c1) ((sendMsg o c2 a ty b2).getD c2) := by
  unfold sendMsg
  rw [h.node, rndFor_congr o c1 c2 a h.cnt]
  split
  · exact h
  · rename_i p hp
    simp only []
    have hmem : (a, p) ∈ c2.node.peers := lookupA_some_mem hp
    rcases sealMsg_indep p.crypto (ty :: b1) (ty :: b2) (rndFor o c2 a).2.1.ct with ⟨e, h1, h2⟩ | ⟨pc', x1, l1, x2, l2, h1, h2, hun, hb⟩
    · unfold PeerCrypto.sendMessage
      rw [h1, h2]
      exact h
    · unfold PeerCrypto.sendMessage
      rw [h1, h2]
      simp only [Option.getD_some]
      refine ⟨?_, ?_, h.panicked, ?_, ?_⟩
      · simp only [send_node, addLog_node]
      · simp only [Ctx.send, addLog, Ctx.count, h.cnt]
      · simp only [send_outs, addLog_outs, List.map_append, List.map_cons, List.map_nil]
        rw [h.outs]
        congr 2
        cases he : enc a with
        | false => simp only [redact, he, Bool.false_eq_true, if_false]
        | true => rw [hb (h.henc a p hmem he)]
      · intro b q hq hb'
        rcases mem_insertA hq with heq | hq
        · cases heq
          show pc'.unencrypted = false
          rw [hun]
          exact h.henc a p hmem hb'
        · exact h.henc b q hq hb'

theorem foldl_sim {β} (R : Ctx → Ctx → Prop) (f g : Ctx → β → Ctx) (hf : ∀ c1 c2 x, R c1 c2 → R (f c1 x) (g c2 x)) :
    ∀ (l : List β) (c1 c2 : Ctx), R c1 c2 → R (l.foldl f c1) (l.foldl g c2)
  | [], _, _, h => h
  | x :: l, c1, c2, h => foldl_sim R f g hf l (f c1 x) (g c2 x) (hf c1 c2 x h)

theorem broadcastMsg_sim (o : Oracle) (enc : NAddr → Bool) (c1 c2 : Ctx) (ty : Nat) (b1 b2 : Bytes) (h : IfSim enc c1 c2) :
    IfSim enc (broadcastMsg o c1 ty b1) (broadcastMsg o c2 ty b2) := by
  unfold broadcastMsg
  rw [h.node]
  exact foldl_sim (IfSim enc) _ _ (fun c1 c2 a hc => sendMsg_sim o enc c1 c2 a ty b1 b2 hc) _ _ _ h

theorem handleIface_sim (o : Oracle) (enc : NAddr → Bool) (n : Node) (now : Int) (d1 d2 : Bytes)
    (hpa : parseAddrs n d1 = parseAddrs n d2)
    (henc : ∀ a p, (a, p) ∈ n.peers → enc a = true → p.crypto.unencrypted = false) :
    IfSim enc (handleIface o n now d1) (handleIface o n now d2) := by
  have h0 : ∀ m : Node, m.peers = n.peers → IfSim enc { node := m } { node := m } :=
    fun m hm => ⟨rfl, rfl, rfl, rfl, by rw [hm]; exact henc⟩
  unfold handleIface
  simp only []
  rw [hpa]
  split
  · exact h0 n rfl
  · split
    · split
      · exact sendMsg_sim o enc _ _ _ _ d1 d2 (h0 _ rfl)
      · exact h0 _ rfl
    · split
      · exact broadcastMsg_sim o enc _ _ _ d1 d2 (h0 _ rfl)
      · exact h0 _ rfl

/-! ## well-formed crypto cores: four slots, the current one among them -/

def CoreWF (c : Core) : Prop := c.slots.length = 4 ∧ c.cur < 4

theorem CoreWF_new (key : KeyRef) (half : Bool) (dummy : KeyRef) (starts : List Nat) : CoreWF (Core.new key half dummy starts) :=
  ⟨rfl, (by decide : 0 < 4)⟩

theorem CoreWF_encrypt (c : Core) (p : Bytes) (h : CoreWF c) : CoreWF (c.encrypt p).1 := by
  unfold Core.encrypt
  split
  · exact h
  · exact ⟨by simp only [List.length_set]; exact h.1, h.2⟩

theorem CoreWF_decrypt (c : Core) (d : Dgram) (h : CoreWF c) : CoreWF (c.decrypt d).1 := by
  rcases CoreLemmas.decrypt_cases c d with ⟨e, he⟩ | ⟨k, p, _, _, hk, _, _, hd⟩
  · rw [he]; exact h
  · rw [hd]
    exact ⟨by simp only [List.length_set]; exact h.1, h.2⟩

theorem CoreWF_rotateKey (c : Core) (key : KeyRef) (id : Nat) (use : Bool) (start : Nat) (h : CoreWF c) : CoreWF (c.rotateKey key id use start) := by
  unfold Core.rotateKey
  refine ⟨by simp only [List.length_set]; exact h.1, ?_⟩
  simp only []
  split
  · exact Nat.mod_lt _ (by decide)
  · exact h.2

theorem CoreWF_everySecond (c : Core) (h : CoreWF c) : CoreWF c.everySecond := by
  unfold Core.everySecond
  exact ⟨by simp only [List.length_map]; exact h.1, h.2⟩

/-- the key of a handshake object, if it has one, is a well-formed core -/
def IWF (i : InitSt) : Prop := ∀ c, i.crypto = some c → CoreWF c

theorem IWF.of_crypto {a b : InitSt} (h : IWF a) (hc : b.crypto = a.crypto) : IWF b := fun c hb => h c (hc ▸ hb)

/-- the cores of a session — its own and the one of its handshake object — are well-formed -/
def PCWF (pc : PeerCrypto) : Prop := (∀ c, pc.core = some c → CoreWF c) ∧ (∀ i, pc.init = some i → IWF i)

theorem init_sendMessage_iwf (env : CryptoEnv) (st : InitSt) (stage : Nat) (rnd : Rand) (h : IWF st) : IWF (Init.sendMessage env st stage rnd).1 := by
  have he : (Init.encryptPayload st rnd).1 = { st with crypto := st.crypto.map (fun c => (c.encrypt st.payload).1) } := encryptPayload_fst st rnd
  have hmap : ∀ c, st.crypto.map (fun c => (c.encrypt st.payload).1) = some c → CoreWF c := by
    intro c hc
    cases hcr : st.crypto with
    | none => rw [hcr] at hc; cases hc
    | some c0 =>
      rw [hcr] at hc
      simp only [Option.map_some, Option.some.injEq] at hc
      rw [← hc]
      exact CoreWF_encrypt c0 _ (h c0 hcr)
  unfold Init.sendMessage
  split
  rename_i st1 msg log heq
  split at heq
  · cases heq
    exact h
  · split at heq
    · split at heq
      rename_i _ _ _ hep
      cases heq
      have : st1 = (Init.encryptPayload st rnd).1 := by rw [hep]
      rw [he] at this
      subst this
      exact hmap
    · split at heq
      rename_i _ _ _ hep
      cases heq
      have : st1 = (Init.encryptPayload st rnd).1 := by rw [hep]
      rw [he] at this
      subst this
      exact hmap

theorem decryptPayload_iwf (s s' : InitSt) (bodyOf : Init.BodyOf) (data : Bytes) (r : Option Bytes)
    (h : Init.decryptPayload s bodyOf data = (s', r)) (hw : IWF s) : IWF s' := by
  unfold Init.decryptPayload at h
  split at h
  · rename_i c hc
    simp only at h
    split at h <;>
      (simp only [Prod.mk.injEq] at h
       rw [← h.1]
       intro c' hc'
       simp only [Option.some.injEq] at hc'
       rw [← hc']
       exact CoreWF_decrypt c _ (hw c hc))
  · simp only [Prod.mk.injEq] at h
    rw [← h.1]
    exact hw

def IwfRes : Res → Prop
  | .panic => True
  | .err st' _ => IWF st'
  | .ok st' _ => IWF st'

theorem pongSt_iwf (st0 : InitSt) (own eb hb : Bytes) (sel : Option Cipher) (rnd : Rand) (h : IWF st0) : IWF (pongSt st0 own eb hb sel rnd) := by
  cases sel with
  | none => exact h
  | some c =>
    intro c' hc'
    simp only [pongSt, Option.some.injEq] at hc'
    rw [← hc']
    exact CoreWF_new ..

theorem handleMsg_iwf (env : CryptoEnv) (bodyOf : Init.BodyOf) (ok : Bytes → Bool) (st0 : InitSt) (msg : InitMsg) (rnd : Rand)
    (hw : IWF st0) : IwfRes (handleMsg env bodyOf ok st0 msg rnd) := by
  cases msg with
  | ping h ecdh algos =>
    simp only [handleMsg]
    split
    · exact hw
    · split
      · unfold IwfRes
        dsimp only
        intro c1 hc1
        dsimp only at hc1
        refine init_sendMessage_iwf env _ Generated.STAGE_PONG rnd ?_ c1 hc1
        intro c' hc'
        simp only [Option.some.injEq] at hc'
        rw [← hc']
        exact CoreWF_new ..
      · unfold IwfRes
        dsimp only
        intro c1 hc1
        dsimp only at hc1
        refine init_sendMessage_iwf env _ Generated.STAGE_PONG rnd ?_ c1 hc1
        exact fun c hc => hw c hc
  | pong h ecdh algos payload =>
    simp only [handleMsg]
    split
    · trivial
    · split
      · exact hw
      · split
        · rename_i st5 hd
          exact decryptPayload_iwf _ _ _ _ _ hd (pongSt_iwf st0 _ ecdh h _ rnd hw)
        · rename_i st5 p hd
          have h5 : IWF st5 := decryptPayload_iwf _ _ _ _ _ hd (pongSt_iwf st0 _ ecdh h _ rnd hw)
          split
          · exact h5
          · unfold IwfRes
            dsimp only
            intro c1 hc1
            dsimp only at hc1
            exact init_sendMessage_iwf env st5 Generated.STAGE_PENG rnd h5 c1 hc1
  | peng h payload =>
    simp only [handleMsg]
    split
    · rename_i st2 hd
      exact decryptPayload_iwf { st0 with retries := 0 } _ _ _ _ hd hw
    · rename_i st2 p hd
      have h2 : IWF st2 := decryptPayload_iwf { st0 with retries := 0 } _ _ _ _ hd hw
      split
      · exact h2
      · exact h2

theorem handleInit_iwf (env : CryptoEnv) (bodyOf : Init.BodyOf) (ok : Bytes → Bool) (st : InitSt) (w : Bytes) (rnd : Rand)
    (hw : IWF st) : IwfRes (Init.handleInit env bodyOf ok st w rnd) := by
  rw [handleInit_eq]
  split
  · exact hw
  · split
    · exact hw
    · split
      · rename_i o ho
        rcases stageCheck_inr' _ _ _ _ ho with ⟨x, rfl⟩ | rfl
        · exact hw
        · exact hw
      · trivial
      · rename_i st0 ho
        rcases stageCheck_inl _ _ _ _ ho with ⟨h1, _⟩ | ⟨h1, _⟩
        · simp only [Option.some.injEq] at h1
          subst h1
          exact handleMsg_iwf env bodyOf ok _ _ rnd hw
        · simp only [Option.some.injEq] at h1
          subst h1
          exact handleMsg_iwf env bodyOf ok _ _ rnd hw

theorem sealMsg_pcwf (pc : PeerCrypto) (plain ct : Bytes) (h : PCWF pc) : PCWF (PeerCrypto.sealMsg pc plain ct).1 := by
  unfold PeerCrypto.sealMsg
  split
  · exact h
  · split
    · exact h
    · rename_i c hc
      refine ⟨?_, h.2⟩
      intro c' hc'
      simp only [Option.some.injEq] at hc'
      rw [← hc']
      exact CoreWF_encrypt c _ (h.1 c hc)

theorem installKey_pcwf (pc : PeerCrypto) (key : Rot.Key) (id : Nat) (use : Bool) (starts : List Nat) (h : PCWF pc) :
    PCWF (PeerCrypto.installKey pc key id use starts) := by
  unfold PeerCrypto.installKey
  split
  · rename_i c hc
    refine ⟨?_, h.2⟩
    intro c' hc'
    simp only [Option.some.injEq] at hc'
    rw [← hc']
    exact CoreWF_rotateKey c _ _ _ _ (h.1 c hc)
  · exact h

theorem handleRotate_pcwf (pc : PeerCrypto) (data : Bytes) (rr : RotRand) (h : PCWF pc) : PCWF (PeerCrypto.handleRotate pc data rr).1 := by
  have hrot : ∀ sd, PCWF { pc with rot := sd } := fun _ => ⟨h.1, h.2⟩
  unfold PeerCrypto.handleRotate
  split
  · exact h
  · split
    · exact h
    · split
      · exact h
      · simp only []
        repeat' split
        all_goals first
          | exact hrot _
          | exact installKey_pcwf _ _ _ _ _ (hrot _)

theorem decMsg_pcwf (bodyOf : Init.BodyOf) (pc : PeerCrypto) (d : Bytes) (h : PCWF pc) : PCWF (decMsg bodyOf pc d).1 := by
  unfold decMsg
  split
  · exact h
  · split
    · exact h
    · rename_i c hc
      have hc' : ∀ c', (some (c.decrypt { hdr := d.take 8, body := bodyOf (d.drop 8) }).1 = some c') → CoreWF c' := by
        intro c' he
        simp only [Option.some.injEq] at he
        rw [← he]
        exact CoreWF_decrypt c _ (h.1 c hc)
      simp only []
      split <;> exact ⟨hc', h.2⟩

def PcwfOut : POutcome MsgResult → Prop
  | .panic => True
  | .err pc' _ => PCWF pc'
  | .ok pc' _ _ _ => PCWF pc'

theorem successPc_pcwf (pc : PeerCrypto) (ist' : InitSt) (h : IWF ist') : PCWF (successPc pc ist') := by
  refine ⟨h, ?_⟩
  intro i hi
  unfold successPc at hi
  simp only at hi
  split at hi
  · cases hi
  · simp only [Option.some.injEq] at hi
    subst hi
    intro c hc
    cases hc

theorem successOut_pcwf (pc1 : PeerCrypto) (core : Option Core) (ini : Bool) (out1 payload : Bytes) (ilog : Init.SealLog) (rr : RotRand)
    (h : PCWF pc1) : PcwfOut (successOut pc1 core ini out1 payload ilog rr) := by
  have hrot : ∀ sd, PCWF { pc1 with rot := sd } := fun _ => ⟨h.1, h.2⟩
  unfold successOut
  split
  · split <;> exact h
  · split
    · simp only []
      have hs := sealMsg_pcwf { pc1 with rot := some (PeerCrypto.initSide true rr.freshProp) }
        (Generated.MESSAGE_TYPE_ROTATION :: Codec.writeRotMsg (PeerCrypto.rotMsgToBytes ⟨1, rr.freshProp, none⟩)) rr.ct (hrot _)
      split
      · rename_i heq
        rw [heq] at hs
        exact hs
      · rename_i heq
        rw [heq] at hs
        exact hs
    · exact hrot _

theorem handleInitMessage_pcwf (env : CryptoEnv) (bodyOf : Init.BodyOf) (ok : Bytes → Bool) (pc : PeerCrypto) (w : Bytes) (rnd : Rand)
    (rr : RotRand) (hp : PCWF pc) : PcwfOut (PeerCrypto.handleInitMessage env bodyOf ok pc w rnd rr) := by
  rw [handleInitMessage_eq]
  split
  · exact hp
  · rename_i ist hi
    have hg := handleInit_iwf env bodyOf ok ist w rnd (hp.2 ist hi)
    generalize Init.handleInit env bodyOf ok ist w rnd = r at hg
    cases r with
    | panic => trivial
    | err ist' e =>
      refine ⟨hp.1, fun i hi' => ?_⟩
      simp only [Option.some.injEq] at hi'
      subst hi'
      exact hg
    | ok ist' x =>
      obtain ⟨out, res, ilog⟩ := x
      cases res with
      | «continue» =>
        refine ⟨hp.1, fun i hi' => ?_⟩
        simp only [Option.some.injEq] at hi'
        subst hi'
        exact hg
      | success payload isInit => exact successOut_pcwf _ _ _ _ _ _ _ (successPc_pcwf pc ist' hg)

theorem handleMessage_pcwf (env : CryptoEnv) (bodyOf : Init.BodyOf) (ok : Bytes → Bool) (pc : PeerCrypto) (datagram tail : Bytes)
    (rnd : Rand) (rr : RotRand) (hp : PCWF pc) : PcwfOut (PeerCrypto.handleMessage env bodyOf ok pc datagram tail rnd rr) := by
  rw [handleMessage_eq]
  split
  · exact hp
  · rename_i b0 rest
    split
    · split
      · exact hp
      · exact handleInitMessage_pcwf env bodyOf ok pc rest rnd rr hp
    · have hi := decMsg_pcwf bodyOf pc (b0 :: rest) hp
      rcases hd : decMsg bodyOf pc (b0 :: rest) with ⟨pc1, r⟩
      rw [hd] at hi
      cases r with
      | error e => exact hi
      | ok plain =>
        cases plain with
        | nil => trivial
        | cons ty body =>
          simp only []
          split
          · by_cases hpan : PeerCrypto.rotatePanics pc1 (body ++ (if pc1.unencrypted then tail else [])) = true
            · rw [if_pos hpan]; trivial
            rw [if_neg hpan]
            have hr := handleRotate_pcwf pc1 (body ++ (if pc1.unencrypted then tail else [])) rr hi
            rcases hrot : PeerCrypto.handleRotate pc1 (body ++ (if pc1.unencrypted then tail else [])) rr with ⟨pc2, r2⟩
            rw [hrot] at hr
            cases r2 with
            | error e => exact hr
            | ok u => exact hr
          · exact hi

theorem init_everySecond_crypto (st : InitSt) : (Init.everySecond st).1.crypto = st.crypto := by
  unfold Init.everySecond
  repeat' split
  all_goals rfl

theorem tick1_pcwf (pc : PeerCrypto) (h : PCWF pc) : PCWF (tick1 pc).1 := by
  have hcore : ∀ c, pc.core.map Core.everySecond = some c → CoreWF c := by
    intro c hc
    cases hcr : pc.core with
    | none => rw [hcr] at hc; cases hc
    | some c0 =>
      rw [hcr] at hc
      simp only [Option.map_some, Option.some.injEq] at hc
      rw [← hc]
      exact CoreWF_everySecond c0 (h.1 c0 hcr)
  unfold tick1
  cases hi : pc.init with
  | none => exact ⟨hcore, fun i hi' => by cases hi'⟩
  | some ist =>
    refine ⟨hcore, fun i hi' => ?_⟩
    simp only [Option.some.injEq] at hi'
    subst hi'
    intro c hc
    rw [init_everySecond_crypto] at hc
    exact h.2 ist hi c hc

theorem tick2_pcwf (pc1 : PeerCrypto) (h : PCWF pc1) : PCWF (tick2 pc1) := by
  refine ⟨h.1, fun i hi => ?_⟩
  unfold tick2 at hi
  simp only at hi
  split at hi
  · rename_i i0 hi0
    split at hi
    · cases hi
    · simp only [Option.some.injEq] at hi
      subst hi
      exact h.2 _ hi0
  · cases hi

theorem sealMsg_result_pcwf (pc4 pc5 : PeerCrypto) (plain ct : Bytes) (r : Except InitErr (Bytes × Init.SealLog))
    (hs : PeerCrypto.sealMsg pc4 plain ct = (pc5, r)) (h : PCWF pc4) : PCWF pc5 := by
  have := sealMsg_pcwf pc4 plain ct h
  rw [hs] at this
  exact this

theorem tickRot_pcwf (pc2 : PeerCrypto) (rr : RotRand) (h : PCWF pc2) : PcwfOut (tickRot pc2 rr) := by
  have hrot : ∀ (cnt : Nat) sd, PCWF { pc2 with rotateCounter := cnt, rot := sd } := fun _ _ => ⟨h.1, h.2⟩
  have hcnt : ∀ (cnt : Nat), PCWF { pc2 with rotateCounter := cnt } := fun _ => ⟨h.1, h.2⟩
  unfold tickRot
  split
  · exact h
  · simp only []
    split
    · exact hcnt _
    · repeat' split
      all_goals first
        | exact hrot _ _
        | exact installKey_pcwf _ _ _ _ _ (hrot _ _)
        | skip
      all_goals
        rename_i hs
        refine sealMsg_result_pcwf _ _ _ _ _ hs ?_
        split
        · exact installKey_pcwf _ _ _ _ _ (hrot _ _)
        · exact hrot _ _

theorem everySecond_pcwf (pc : PeerCrypto) (rr : RotRand) (h : PCWF pc) : PcwfOut (PeerCrypto.everySecond pc rr) := by
  rw [everySecond_eq]
  have h1 := tick1_pcwf pc h
  rcases ht : tick1 pc with ⟨pc1, r⟩
  rw [ht] at h1
  cases r with
  | error e => exact h1
  | ok out =>
    simp only []
    split
    · exact tick2_pcwf pc1 h1
    · exact tickRot_pcwf _ rr (tick2_pcwf pc1 h1)

/-- the instance "all cores are well-formed" of the generic invariant -/
def coreWS (K : NodeCfg) : WS K where
  X := fun _ pc => PCWF pc
  N := False
  att := by
    intro n hash a _
    refine ⟨fun c hc => (by cases hc), fun i hi => ?_⟩
    simp only [newAttempt, Option.some.injEq] at hi
    subst hi
    intro c hc
    cases hc
  ping := by
    intro env n hash rnd ist a _ hist
    refine ⟨fun c hc => (by cases hc), fun i hi => ?_⟩
    simp only [Option.some.injEq] at hi
    subst hi
    simp only [newAttempt, Option.some.injEq] at hist
    subst hist
    dsimp only [Init.sendPing]
    intro c hc
    have := init_sendMessage_iwf env _ Generated.STAGE_PING rnd (fun c hc => by cases hc) c hc
    exact this
  tick_ok := by
    intro a pc rr pc' out res log hp h
    have := everySecond_pcwf pc rr hp
    rw [h] at this
    exact this
  x_seal := fun _ pc ty body ct hp => sealMsg_pcwf pc (ty :: body) ct hp

theorem coreWS_msgClosed (K : NodeCfg) (env : CryptoEnv) (bodyOf : Init.BodyOf) (src : NAddr) (data tail : Bytes) :
    MsgClosed (coreWS K).X env bodyOf src data tail := by
  intro pc rnd rr hx
  have := handleMessage_pcwf env bodyOf payloadOk pc data tail rnd rr hx
  generalize PeerCrypto.handleMessage env bodyOf payloadOk pc data tail rnd rr = r at this
  cases r with
  | panic => trivial
  | err pc' e => exact this
  | ok pc' out res log => exact this

end VpnCloud.Proofs.C02MoreLemmas
