import VpnCloud.Proofs.Lemmas.NodeInvLemmas
import VpnCloud.Proofs.Lemmas.C09MoreLemmas
import VpnCloud.Proofs.C16
/-
  Helper lemmas for `Proofs/RotPanic.lean` (the `derive_key(..).unwrap()` panic site of `RotationState::process_message`):

  * what `RotationMessage::write_to` writes for a message whose keys are 32 bytes long is read back with keys of 32 bytes
    (for EVERY id, also one that does not fit a `u64`: only the low 64 bits are written);
  * `rotatePanics` / `derivePanics` by cases;
  * a datagram whose ciphertext is no seal under a key of the core is rejected by the core.
-/
namespace VpnCloud.Proofs.RotPanicLemmas

open VpnCloud VpnCloud.Codec
open VpnCloud.Proofs.NodeInvLemmas VpnCloud.Proofs.C09MoreLemmas VpnCloud.Proofs.CoreLemmas

/-! ## wire form of the rotation messages the code itself produces -/

theorem pow256_8 : (256 : Nat) ^ 8 = 2 ^ 64 := by decide

/-- only the low `n` bytes of a number are written -/
theorem ofBE_mod (n v : Nat) : Bytes.ofBE n (v % 256 ^ n) = Bytes.ofBE n v := by
  apply InitLemmas.beVal_inj _ _ (ofBE_wf _ _) (ofBE_wf _ _)
  · rw [ofBE_length, ofBE_length]
  · rw [beVal_ofBE, beVal_ofBE, Nat.mod_mod]

theorem writeRotMsg_id_mod (m : RotMsg) : writeRotMsg { m with id := m.id % 2 ^ 64 } = writeRotMsg m := by
  unfold writeRotMsg
  simp only []
  rw [← pow256_8, ofBE_mod]

/-- `read_from ∘ write_to` on a message whose keys have 32 bytes: the keys come back unchanged (the id modulo `2^64`) -/
theorem read_write_keys32 (m : RotMsg) (hp : m.propose.length = 32 ∧ Bytes.WF m.propose)
    (hc : ∀ c, m.confirm = some c → c.length = 32 ∧ Bytes.WF c) :
    readRotMsg (writeRotMsg m) = some { m with id := m.id % 2 ^ 64 } := by
  have h := C16.rotmsg_roundtrip { m with id := m.id % 2 ^ 64 } [] (Nat.mod_lt _ (by decide))
    ⟨by simp only []; omega, hp.2⟩
    (by
      intro c hc'
      obtain ⟨h1, h2⟩ := hc c hc'
      exact ⟨by omega, by omega, h2⟩)
  rw [List.append_nil, writeRotMsg_id_mod] at h
  exact h

theorem rotMsgToBytes_propose (m : Rot.Msg) :
    (PeerCrypto.rotMsgToBytes m).propose.length = 32 ∧ Bytes.WF (PeerCrypto.rotMsgToBytes m).propose :=
  ⟨by simp [PeerCrypto.rotMsgToBytes, ofBE_length], ofBE_wf _ _⟩

theorem rotMsgToBytes_confirm (m : Rot.Msg) (c : Bytes) (h : (PeerCrypto.rotMsgToBytes m).confirm = some c) :
    c.length = 32 ∧ Bytes.WF c := by
  obtain ⟨id, pr, cf⟩ := m
  cases cf with
  | none => cases h
  | some c0 =>
    simp only [PeerCrypto.rotMsgToBytes, Option.map_some, Option.some.injEq] at h
    subst h
    exact ⟨ofBE_length _ _, ofBE_wf _ _⟩

/-- the wire form of every rotation message the session layer writes (`rotMsgToBytes`: public keys as 32 bytes, what
    `compute_public_key` of an X25519 private key yields) is read back with keys of 32 bytes -/
theorem written_keysOK (m : Rot.Msg) : RotKeysOK (writeRotMsg (PeerCrypto.rotMsgToBytes m)) := by
  intro bm hbm
  rw [read_write_keys32 _ (rotMsgToBytes_propose m) (rotMsgToBytes_confirm m)] at hbm
  simp only [Option.some.injEq] at hbm
  subst hbm
  exact ⟨(rotMsgToBytes_propose m).1, fun c hc => (rotMsgToBytes_confirm m c hc).1⟩

/-! ## the seals of the session layer that carry rotation messages -/

/-- every seal in the log is the seal of a ROTATION message written by `write_to` from 32-byte keys -/
def LogRot (log : Init.SealLog) : Prop :=
  ∀ ct b, (ct, b) ∈ log → ∀ k n p, b = .sealed k n p →
    ∃ m : Rot.Msg, p = Generated.MESSAGE_TYPE_ROTATION :: writeRotMsg (PeerCrypto.rotMsgToBytes m)

/-- every seal of a ROTATION message in the log carries keys of 32 bytes -/
def LogRotValid (log : Init.SealLog) : Prop :=
  ∀ ct k n body, (ct, Body.sealed k n (Generated.MESSAGE_TYPE_ROTATION :: body)) ∈ log → RotKeysOK body

theorem logRot_nil : LogRot [] := fun _ _ h => by cases h

theorem LogRot.valid {log : Init.SealLog} (h : LogRot log) : LogRotValid log := by
  intro ct k n body hm
  obtain ⟨m, hp⟩ := h ct _ hm k n _ rfl
  simp only [List.cons.injEq, true_and] at hp
  rw [hp]
  exact written_keysOK m

theorem sealMsg_logRot (pc pc' : PeerCrypto) (m : Rot.Msg) (ct bytes : Bytes) (log : Init.SealLog)
    (h : PeerCrypto.sealMsg pc (Generated.MESSAGE_TYPE_ROTATION :: writeRotMsg (PeerCrypto.rotMsgToBytes m)) ct = (pc', .ok (bytes, log))) :
    LogRot log := by
  unfold PeerCrypto.sealMsg at h
  split at h
  · simp only [Prod.mk.injEq, Except.ok.injEq] at h
    rw [← h.2.2]; exact logRot_nil
  · split at h
    · cases h
    · rename_i c hc
      simp only [Prod.mk.injEq, Except.ok.injEq] at h
      rw [← h.2.2]
      intro ct' b hm k n p hb
      simp only [List.mem_singleton, Prod.mk.injEq] at hm
      rw [hm.2] at hb
      exact ⟨m, core_encrypt_body c _ k n p hb⟩

/-- the log of an outcome holds only seals of rotation messages written from 32-byte keys -/
def OutLogRot : POutcome MsgResult → Prop
  | .ok _ _ _ log => LogRot log
  | _ => True

/-- the log of an outcome is `ilog` followed by seals of rotation messages written from 32-byte keys -/
def OutLogApp (ilog : Init.SealLog) : POutcome MsgResult → Prop
  | .ok _ _ _ log => ∃ log', log = ilog ++ log' ∧ LogRot log'
  | _ => True

/-- the log of `every_second`'s rotation part: nothing, or the seal of the message `cycle` returned -/
theorem tickRot_logRot (pc2 : PeerCrypto) (rr : RotRand) : OutLogRot (tickRot pc2 rr) := by
  unfold tickRot
  split
  · exact logRot_nil
  · simp only []
    split
    · exact logRot_nil
    · repeat' split
      all_goals first
        | exact logRot_nil
        | trivial
        | skip
      rename_i hs
      exact sealMsg_logRot _ _ _ _ _ _ hs

theorem everySecond_logRot (pc : PeerCrypto) (rr : RotRand) : OutLogRot (PeerCrypto.everySecond pc rr) := by
  rw [everySecond_eq]
  rcases tick1 pc with ⟨pc1, r⟩
  cases r with
  | error e => trivial
  | ok out =>
    simp only []
    split
    · exact logRot_nil
    · exact tickRot_logRot (tick2 pc1) rr

/-- the log after a completed handshake: the log of the handshake layer, followed by nothing or by the seal of the first rotation message -/
theorem successOut_logRot (pc1 : PeerCrypto) (core : Option Core) (ini : Bool) (out1 payload : Bytes) (ilog : Init.SealLog) (rr : RotRand) :
    OutLogApp ilog (successOut pc1 core ini out1 payload ilog rr) := by
  unfold successOut
  split
  · split
    · exact ⟨[], (List.append_nil _).symm, logRot_nil⟩
    · exact ⟨[], (List.append_nil _).symm, logRot_nil⟩
  · split
    · simp only []
      split
      · rename_i pc2 bytes log hs
        exact ⟨log, rfl, sealMsg_logRot _ _ _ _ _ _ hs⟩
      · trivial
    · exact ⟨[], (List.append_nil _).symm, logRot_nil⟩

/-! ## `rotatePanics` by cases -/

/-- `derive_key` panics exactly if the message is newer than the own id and the proposed key is not 32 bytes long, or it is, a
    confirmation is present, an own proposal is outstanding, and the confirmed key is not 32 bytes long -/
theorem derivePanics_iff (sd : Rot.Side) (bm : RotMsg) :
    PeerCrypto.derivePanics sd bm = true ↔
      sd.id < bm.id ∧ (bm.propose.length ≠ 32 ∨ ∃ c p, bm.confirm = some c ∧ sd.proposed = some p ∧ c.length ≠ 32) := by
  unfold PeerCrypto.derivePanics PeerCrypto.ROT_KEY_LEN
  split
  · rename_i h
    constructor
    · intro hf; cases hf
    · rintro ⟨h1, _⟩; omega
  · rename_i h
    split
    · rename_i h2
      exact ⟨fun _ => ⟨by omega, Or.inl h2⟩, fun _ => rfl⟩
    · rename_i h2
      split
      · rename_i c p hc hp
        simp only [decide_eq_true_eq]
        constructor
        · intro h3
          exact ⟨by omega, Or.inr ⟨c, p, hc, hp, h3⟩⟩
        · rintro ⟨_, h3 | ⟨c', p', hc', _, h3⟩⟩
          · exact absurd h3 h2
          · rw [hc] at hc'; cases hc'; exact h3
      · rename_i hno
        constructor
        · intro hf; cases hf
        · rintro ⟨_, h3 | ⟨c', p', hc', hp', _⟩⟩
          · exact absurd h3 h2
          · exact absurd hp' (hno c' p' hc')

/-- `handle_rotate_message` reaches a panicking `derive_key` exactly if the session is encrypted, has a rotation state, the message
    parses and `derive_key` panics on it -/
theorem rotatePanics_iff (pc : PeerCrypto) (data : Bytes) :
    PeerCrypto.rotatePanics pc data = true ↔
      pc.unencrypted = false ∧ ∃ sd bm, pc.rot = some sd ∧ readRotMsg data = some bm ∧ PeerCrypto.derivePanics sd bm = true := by
  unfold PeerCrypto.rotatePanics
  split
  · rename_i hu
    constructor
    · intro hf; cases hf
    · rintro ⟨h, _⟩; rw [hu] at h; cases h
  · rename_i hu
    have hu' : pc.unencrypted = false := by simpa using hu
    split
    · rename_i hr
      constructor
      · intro hf; cases hf
      · rintro ⟨_, sd, bm, h, _⟩; rw [hr] at h; cases h
    · rename_i sd hr
      split
      · rename_i hm
        constructor
        · intro hf; cases hf
        · rintro ⟨_, sd', bm, _, h, _⟩; rw [hm] at h; cases h
      · rename_i bm hm
        constructor
        · intro h; exact ⟨hu', sd, bm, hr, hm, h⟩
        · rintro ⟨_, sd', bm', h1, h2, h3⟩
          rw [hr] at h1; rw [hm] at h2
          cases h1; cases h2
          exact h3

/-- a body that makes `handle_rotate_message` panic violates `RotKeysOK` -/
theorem not_keysOK_of_rotatePanics (pc : PeerCrypto) (data : Bytes) (h : PeerCrypto.rotatePanics pc data = true) : ¬ RotKeysOK data := by
  intro hk
  rw [rotatePanics_of_keysOK pc data hk] at h
  cases h

/-! ## a datagram that is no seal under a key of the core -/

/-- the ciphertext of the datagram (the bytes behind the 8 header bytes) is, in the ideal-AEAD view, no seal under any key a slot of
    the core holds: garbage, or a seal under some other key.  This is all a sender WITHOUT the session keys can produce, apart from
    replaying what a key holder sealed. -/
def NoSessionSeal (bodyOf : Init.BodyOf) (core : Core) (data : Bytes) : Prop :=
  ∀ k n p, bodyOf (data.drop 8) = .sealed k n p → ∀ s ∈ core.slots, s.key ≠ k

theorem noSessionSeal_rejected (bodyOf : Init.BodyOf) (core : Core) (data : Bytes) (h : NoSessionSeal bodyOf core data) :
    ∃ e', (core.decrypt (dgramOf bodyOf data)).2 = .error e' := by
  cases hr : (core.decrypt (dgramOf bodyOf data)).2 with
  | error e => exact ⟨e, rfl⟩
  | ok p =>
    exfalso
    obtain ⟨_, _, k, hk, hb⟩ := VpnCloud.Proofs.C02.accepted_is_genuine core _ p hr
    exact h k.key _ p hb k (List.mem_of_getElem? hk) rfl

end VpnCloud.Proofs.RotPanicLemmas
