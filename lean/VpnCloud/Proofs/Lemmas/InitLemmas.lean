import VpnCloud.Model.PeerCrypto
import VpnCloud.Proofs.Lemmas.CoreLemmas
import VpnCloud.Proofs.C02
/-
  Helper lemmas for the handshake properties C01 / C05: the byte reader `InitMsg.readFrom`
  (error classes, consumed prefix) and inversion lemmas for `Init.handleInit`.
-/
namespace VpnCloud.Proofs.InitLemmas

open VpnCloud VpnCloud.InitMsg VpnCloud.Init VpnCloud.Codec
open VpnCloud.Proofs.CoreLemmas

/-! ## primitive readers -/

theorem take?_some {n : Nat} {r a r' : Bytes} (h : take? n r = some (a, r')) :
    r = a ++ r' ∧ a.length = n := by
  unfold take? at h
  split at h
  · simp only [Option.some.injEq, Prod.mk.injEq] at h
    obtain ⟨rfl, rfl⟩ := h
    exact ⟨(List.take_append_drop n r).symm, by rw [List.length_take]; omega⟩
  · cases h

theorem readU8_some {r : Bytes} {b : Nat} {r' : Bytes} (h : readU8 r = some (b, r')) : r = b :: r' := by
  cases r with
  | nil => cases h
  | cons x xs =>
    simp only [readU8, Option.some.injEq, Prod.mk.injEq] at h
    rw [h.1, h.2]

theorem readU16_some {r : Bytes} {v : Nat} {r' : Bytes} (h : readU16 r = some (v, r')) :
    ∃ a b, r = a :: b :: r' := by
  match r, h with
  | a :: b :: rest, h =>
    simp only [readU16, Option.some.injEq, Prod.mk.injEq] at h
    exact ⟨a, b, by rw [h.2]⟩

/-- `readAlgos` hands back a suffix of its input -/
theorem readAlgos_suffix : ∀ (n : Nat) (r : Bytes) (acc a : Algos) (r' : Bytes),
    readAlgos n r acc = some (a, r') → ∃ pre, r = pre ++ r' := by
  intro n
  induction n with
  | zero =>
    intro r acc a r' h
    simp only [readAlgos, Option.some.injEq, Prod.mk.injEq] at h
    exact ⟨[], by rw [h.2]; rfl⟩
  | succ n ih =>
    intro r acc a r' h
    cases h1 : readU8 r with
    | none => simp [readAlgos, h1] at h
    | some p1 =>
      obtain ⟨id, r1⟩ := p1
      cases h2 : take? 4 r1 with
      | none => simp [readAlgos, h1, h2] at h
      | some p2 =>
        obtain ⟨sp, r2⟩ := p2
        simp only [readAlgos, h1, h2, Option.bind_eq_bind, Option.bind_some] at h
        obtain ⟨pre, hp⟩ := ih _ _ _ _ h
        refine ⟨id :: (sp ++ pre), ?_⟩
        rw [readU8_some h1, (take?_some h2).1, hp]
        simp

/-! ## the field loop -/

/-- the field loop fails only with `Parse` or the recoverable `CryptoInit` -/
theorem readFields_err : ∀ (fuel : Nat) (r : Bytes) (acc : Fields) (e : InitErr),
    readFields fuel r acc = .error e → e = .parse ∨ e = .cryptoInit := by
  intro fuel
  induction fuel with
  | zero => intro r acc e h; simp only [readFields, Except.error.injEq] at h; exact Or.inl h.symm
  | succ n ih =>
    intro r acc e h
    unfold readFields at h
    repeat' split at h
    all_goals first
      | exact ih _ _ _ h
      | (simp only [Except.error.injEq] at h; first | exact Or.inl h.symm | exact Or.inr h.symm)
      | cases h

/-- the field loop hands back a suffix of its input -/
theorem readFields_suffix : ∀ (fuel : Nat) (r : Bytes) (acc f : Fields) (r' : Bytes),
    readFields fuel r acc = .ok (f, r') → ∃ pre, r = pre ++ r' := by
  intro fuel
  induction fuel with
  | zero => intro r acc f r' h; cases h
  | succ n ih =>
    intro r acc f r' h
    unfold readFields at h
    split at h
    · cases h
    · rename_i field r1 h1
      have e1 := readU8_some h1
      split at h
      · simp only [Except.ok.injEq, Prod.mk.injEq] at h
        exact ⟨[field], by rw [e1, h.2]; rfl⟩
      · split at h
        · cases h
        · rename_i len r2 h2
          obtain ⟨a, b, e2⟩ := readU16_some h2
          have key : ∀ r3 acc', (∃ p, r2 = p ++ r3) → readFields n r3 acc' = .ok (f, r') → ∃ pre, r = pre ++ r' := by
            intro r3 acc' ⟨p, hp⟩ h3
            obtain ⟨q, hq⟩ := ih _ _ _ _ h3
            exact ⟨field :: a :: b :: (p ++ q), by rw [e1, e2, hp, hq]; simp⟩
          repeat' split at h
          all_goals first
            | cases h
            | (rename_i h3; exact key _ _ ⟨_, (take?_some h3).1⟩ h)
            | (rename_i h3; exact key _ _ ⟨[_], readU8_some h3⟩ h)
            | (rename_i h3; exact key _ _ (readAlgos_suffix _ _ _ _ _ h3) h)

/-! ## `readFrom` -/

theorem readFrom_err (env : CryptoEnv) (w : Bytes) (T : List Bytes) (e : InitErr) (h : readFrom env w T = .error e) :
    e = .parse ∨ e = .crypto ∨ e = .cryptoInit := by
  unfold readFrom at h
  split at h
  · simp only [Except.error.injEq] at h; exact Or.inl h.symm
  split at h
  · simp only [Except.error.injEq] at h; exact Or.inl h.symm
  split at h
  · simp only [Except.error.injEq] at h; exact Or.inr (Or.inl h.symm)
  split at h
  · rename_i e' he
    simp only [Except.error.injEq] at h
    subst h
    rcases readFields_err _ _ _ _ he with h | h
    · exact Or.inl h
    · exact Or.inr (Or.inr h)
  simp only at h
  split at h
  · simp only [Except.error.injEq] at h; exact Or.inl h.symm
  split at h
  · simp only [Except.error.injEq] at h; exact Or.inl h.symm
  split at h
  · simp only [Except.error.injEq] at h; exact Or.inr (Or.inl h.symm)
  repeat' split at h
  all_goals first
    | (simp only [Except.error.injEq] at h; exact Or.inr (Or.inr h.symm))
    | cases h

theorem readFrom_ok_inv (env : CryptoEnv) (w : Bytes) (T : List Bytes) (m : InitMsg) (k : Bytes)
    (h : readFrom env w T = .ok (m, k)) :
    T.find? (fun tk => env.keyHash tk (w.take 4) = (w.drop 4).take 4) = some k ∧
    ∃ signed sig rest, w = signed ++ [sig.length] ++ sig ++ rest ∧ env.sigVerify k signed sig = true := by
  unfold readFrom at h
  split at h
  · cases h
  rename_i salt r1 h1
  split at h
  · cases h
  rename_i khash r2 h2
  split at h
  · cases h
  rename_i pk hf
  split at h
  · cases h
  rename_i f r3 h3
  simp only at h
  split at h
  · cases h
  rename_i siglen r4 h4
  split at h
  · cases h
  rename_i sig rest h5
  split at h
  · cases h
  rename_i hv
  have hk : pk = k := by
    repeat' split at h
    all_goals first
      | (simp only [Except.ok.injEq, Prod.mk.injEq] at h; exact h.2)
      | cases h
  subst hk
  obtain ⟨e1, l1⟩ := take?_some h1
  obtain ⟨e2, l2⟩ := take?_some h2
  obtain ⟨pre, e3⟩ := readFields_suffix _ _ _ _ _ h3
  have e4 := readU8_some h4
  obtain ⟨e5, l5⟩ := take?_some h5
  have hsalt : w.take 4 = salt := by rw [e1, List.take_left' l1]
  have hkh : (w.drop 4).take 4 = khash := by rw [e1, List.drop_left' l1, e2, List.take_left' l2]
  refine ⟨by rw [hsalt, hkh]; exact hf, salt ++ khash ++ pre, sig, rest, ?_, ?_⟩
  · rw [e1, e2, e3, e4, e5, l5]; simp
  · have : w.take (w.length - r3.length) = salt ++ khash ++ pre := by
      have hw : w = (salt ++ khash ++ pre) ++ r3 := by rw [e1, e2, e3]; simp
      rw [hw, List.length_append, Nat.add_sub_cancel, List.take_left' rfl]
    rw [this] at hv
    simpa using hv

/-! ## `handleInit` in pieces -/

abbrev Res := Outcome (Bytes × InitResult × SealLog)

/-- the stage check of `handleInit` -/
def stageCheck (st : InitSt) (stage : Nat) (hash : Bytes) : Option InitSt ⊕ Res :=
  if stage ≠ st.stage then
    if st.stage = Generated.STAGE_PONG ∧ stage = Generated.STAGE_PING then
      if bytesGt hash st.hash then .inl (some { st with stage := Generated.STAGE_PING, last := none, ecdh := none })
      else .inr (.ok st ([], .continue, []))
    else if st.stage = Generated.CLOSING then .inr (.ok st ([], .continue, []))
    else match st.last with
      | some l => .inr (.ok st (l, .continue, []))
      | none => .inr (.err st .cryptoInitFatal)
  else .inl (some st)

/-- state of the initiator after the negotiation, before the pong payload is opened -/
def pongSt (st0 : InitSt) (own eb hb : Bytes) (sel : Option Cipher) (rnd : Rand) : InitSt :=
  let st3 := { st0 with retries := 0, ecdh := none, selected := sel }
  match sel with
  | some c => { st3 with crypto := some (Core.new (masterKey c own eb) (bytesGt st3.hash hb) rnd.dummy (rnd.start :: rnd.starts123)) }
  | none => st3

/-- the per-message part of `handleInit` -/
def handleMsg (env : CryptoEnv) (bodyOf : BodyOf) (payloadOk : Bytes → Bool) (st0 : InitSt) (msg : InitMsg) (rnd : Rand) : Res :=
  let st1 := { st0 with retries := 0 }
  match msg with
  | .ping h ecdh algos =>
    match selectAlgorithm st1.algos algos with
    | .error e => .err st1 e
    | .ok sel =>
      let st2 := { st1 with selected := sel }
      let st3 := match sel with
        | some c => { st2 with crypto := some (Core.new (masterKey c rnd.ecdhPub ecdh) (bytesGt st2.hash h) rnd.dummy (rnd.start :: rnd.starts123)) }
        | none => st2
      let (st4, out, log) := sendMessage env st3 Generated.STAGE_PONG rnd
      .ok { st4 with stage := Generated.STAGE_PENG } (out, .continue, log)
  | .pong h ecdh algos payload =>
    match st1.ecdh with
    | none => .panic
    | some own =>
      let st2 := { st1 with ecdh := none }
      match selectAlgorithm st2.algos algos with
      | .error e => .err st2 e
      | .ok sel =>
        match decryptPayload (pongSt st0 own ecdh h sel rnd) bodyOf payload with
        | (st5, none) => .err st5 .cryptoInitFatal
        | (st5, some p) =>
          if !payloadOk p then .err st5 .cryptoInitFatal else
          let (st6, out, log) := sendMessage env st5 Generated.STAGE_PENG rnd
          .ok { st6 with stage := Generated.WAITING_TO_CLOSE, closeTime := Generated.CLOSE_TIME } (out, .success p true, log)
  | .peng _ payload =>
    match decryptPayload st1 bodyOf payload with
    | (st2, none) => .err st2 .cryptoInitFatal
    | (st2, some p) =>
      if !payloadOk p then .err st2 .cryptoInitFatal else
      .ok { st2 with stage := Generated.CLOSING } ([], .success p false, [])

theorem handleInit_eq (env : CryptoEnv) (bodyOf : BodyOf) (payloadOk : Bytes → Bool) (st : InitSt) (w : Bytes) (rnd : Rand) :
    handleInit env bodyOf payloadOk st w rnd =
    match readFrom env w st.trusted with
    | .error e => .err st e
    | .ok (msg, _) =>
      if st.hash = msg.hash || checkSaltedNodeIdHash env msg.hash st.nodeId then .err st .cryptoInitFatal
      else match stageCheck st msg.stage msg.hash with
        | .inr o => o
        | .inl none => .panic
        | .inl (some st0) => handleMsg env bodyOf payloadOk st0 msg rnd := by
  unfold handleInit
  cases hr : readFrom env w st.trusted with
  | error e => rfl
  | ok p =>
    obtain ⟨msg, k⟩ := p
    simp only
    by_cases hc : (st.hash = msg.hash || checkSaltedNodeIdHash env msg.hash st.nodeId) = true
    · rw [if_pos hc, if_pos hc]
    · rw [if_neg hc, if_neg hc]
      rfl

/-- not a success -/
def NoSuccess (o : Res) : Prop := ∀ st' out p ini log, o ≠ .ok st' (out, .success p ini, log)

theorem stageCheck_inr (st : InitSt) (stage : Nat) (hash : Bytes) (o : Res) (h : stageCheck st stage hash = .inr o) :
    NoSuccess o := by
  unfold stageCheck at h
  repeat' split at h
  all_goals first
    | (simp only [Sum.inr.injEq] at h; subst h; intro st' out p ini log hh; cases hh)
    | cases h

theorem stageCheck_inl (st : InitSt) (stage : Nat) (hash : Bytes) (o : Option InitSt) (h : stageCheck st stage hash = .inl o) :
    (o = some st ∧ stage = st.stage) ∨
    (o = some { st with stage := Generated.STAGE_PING, last := none, ecdh := none } ∧ stage = Generated.STAGE_PING) := by
  unfold stageCheck at h
  repeat' split at h
  all_goals first
    | (simp only [Sum.inl.injEq] at h; subst h; first
        | (rename_i h1 h2 h3; exact Or.inr ⟨rfl, h2.2⟩)
        | (rename_i h1; exact Or.inl ⟨rfl, Classical.not_not.mp h1⟩))
    | cases h

theorem handleMsg_ping (env : CryptoEnv) (bodyOf : BodyOf) (payloadOk : Bytes → Bool) (st0 : InitSt) (h e : Bytes) (a : Algos) (rnd : Rand) :
    NoSuccess (handleMsg env bodyOf payloadOk st0 (.ping h e a) rnd) := by
  intro st' out p ini log hh
  simp only [handleMsg] at hh
  split at hh
  · cases hh
  · cases hh

theorem handleMsg_pong (env : CryptoEnv) (bodyOf : BodyOf) (payloadOk : Bytes → Bool) (st0 st' : InitSt) (hb eb : Bytes) (ab : Algos)
    (pl : Bytes) (rnd : Rand) (out p : Bytes) (ini : Bool) (log : SealLog)
    (h : handleMsg env bodyOf payloadOk st0 (.pong hb eb ab pl) rnd = .ok st' (out, .success p ini, log)) :
    ini = true ∧ ∃ own sel st5, st0.ecdh = some own ∧ selectAlgorithm st0.algos ab = .ok sel ∧
      decryptPayload (pongSt st0 own eb hb sel rnd) bodyOf pl = (st5, some p) ∧ payloadOk p = true ∧
      st' = { (sendMessage env st5 Generated.STAGE_PENG rnd).1 with stage := Generated.WAITING_TO_CLOSE, closeTime := Generated.CLOSE_TIME } := by
  simp only [handleMsg] at h
  split at h
  · cases h
  rename_i own hown
  split at h
  · cases h
  rename_i sel hsel
  split at h
  · cases h
  rename_i st5 p' hd
  split at h
  · cases h
  rename_i hok
  simp only [Outcome.ok.injEq, Prod.mk.injEq, InitResult.success.injEq] at h
  obtain ⟨h1, h2, ⟨h3, h4⟩, h5⟩ := h
  subst h3
  refine ⟨h4.symm, own, sel, st5, hown, hsel, hd, by simpa using hok, h1.symm⟩

theorem handleMsg_peng (env : CryptoEnv) (bodyOf : BodyOf) (payloadOk : Bytes → Bool) (st0 st' : InitSt) (hb : Bytes)
    (pl : Bytes) (rnd : Rand) (out p : Bytes) (ini : Bool) (log : SealLog)
    (h : handleMsg env bodyOf payloadOk st0 (.peng hb pl) rnd = .ok st' (out, .success p ini, log)) :
    ini = false ∧ ∃ st2, decryptPayload { st0 with retries := 0 } bodyOf pl = (st2, some p) ∧ payloadOk p = true ∧
      st' = { st2 with stage := Generated.CLOSING } := by
  simp only [handleMsg] at h
  split at h
  · cases h
  rename_i st2 p' hd
  split at h
  · cases h
  rename_i hok
  simp only [Outcome.ok.injEq, Prod.mk.injEq, InitResult.success.injEq] at h
  obtain ⟨h1, h2, ⟨h3, h4⟩, h5⟩ := h
  subst h3
  exact ⟨h4.symm, st2, hd, by simpa using hok, h1.symm⟩

/-- **inversion of a successful `handleInit`**: the window was accepted by `readFrom`, the message has the stage the object is waiting
    for, and the per-message part ran on the unchanged state -/
theorem handleInit_success (env : CryptoEnv) (bodyOf : BodyOf) (payloadOk : Bytes → Bool) (st st' : InitSt) (w : Bytes) (rnd : Rand)
    (out p : Bytes) (ini : Bool) (log : SealLog)
    (h : handleInit env bodyOf payloadOk st w rnd = .ok st' (out, .success p ini, log)) :
    ∃ m k, readFrom env w st.trusted = .ok (m, k) ∧ m.stage = st.stage ∧
      handleMsg env bodyOf payloadOk st m rnd = .ok st' (out, .success p ini, log) := by
  rw [handleInit_eq] at h
  split at h
  · cases h
  rename_i m k hr
  split at h
  · cases h
  split at h
  · rename_i o ho
    exact absurd h (stageCheck_inr _ _ _ _ ho _ _ _ _ _)
  · cases h
  · rename_i st0 hs
    refine ⟨m, k, hr, ?_⟩
    rcases stageCheck_inl _ _ _ _ hs with ⟨h1, h2⟩ | ⟨h1, h2⟩
    · simp only [Option.some.injEq] at h1
      subst h1
      exact ⟨h2, h⟩
    · cases m with
      | ping hb e a => exact absurd h (handleMsg_ping _ _ _ _ _ _ _ _ _ _ _ _ _)
      | pong => simp [InitMsg.stage, Generated.STAGE_PONG, Generated.STAGE_PING] at h2
      | peng => simp [InitMsg.stage, Generated.STAGE_PENG, Generated.STAGE_PING] at h2

/-! ## symbolic master key -/

/-- big-endian value is injective on well-formed strings of equal length -/
theorem beVal_inj : ∀ (a b : Bytes), Bytes.WF a → Bytes.WF b → a.length = b.length → Bytes.beVal a = Bytes.beVal b → a = b := by
  intro a
  induction a with
  | nil => intro b _ _ hl _; cases b with
    | nil => rfl
    | cons => cases hl
  | cons x a ih =>
    intro b ha hb hl hv
    cases b with
    | nil => cases hl
    | cons y b =>
      rw [Bytes.wf_cons] at ha hb
      simp only [List.length_cons, Nat.add_right_cancel_iff] at hl
      have la := beVal_lt a ha.2
      have lb := beVal_lt b hb.2
      simp only [Bytes.beVal, hl] at hv la
      have hxy : x = y := by
        rcases Nat.lt_trichotomy x y with h | h | h
        · have := Nat.mul_le_mul_right (256 ^ b.length) (show x + 1 ≤ y from h)
          rw [Nat.add_mul, Nat.one_mul] at this
          omega
        · exact h
        · have := Nat.mul_le_mul_right (256 ^ b.length) (show y + 1 ≤ x from h)
          rw [Nat.add_mul, Nat.one_mul] at this
          omega
      subst hxy
      rw [ih b ha.2 hb.2 hl (by omega)]

theorem wireId_inj (c c' : Cipher) (h : c.wireId = c'.wireId) : c = c' := by
  cases c <;> cases c' <;> first | rfl | (simp [Cipher.wireId] at h)

theorem masterKey_eq_of (c : Cipher) (a b : Bytes) :
    masterKey c a b = if Bytes.beVal a ≤ Bytes.beVal b then Bytes.beVal ((10 + c.wireId) :: (a.length % 256) :: (a ++ b))
      else Bytes.beVal ((10 + c.wireId) :: (b.length % 256) :: (b ++ a)) := by
  unfold masterKey
  split <;> rfl

/-- the key reference of an ordered pair of 32-byte strings determines cipher and pair -/
theorem keyList_inj (c c' : Cipher) (a b a' b' : Bytes) (hw : Bytes.WF a ∧ Bytes.WF b ∧ Bytes.WF a' ∧ Bytes.WF b')
    (hl : a.length = 32 ∧ b.length = 32 ∧ a'.length = 32 ∧ b'.length = 32)
    (h : Bytes.beVal ((10 + c.wireId) :: (a.length % 256) :: (a ++ b)) = Bytes.beVal ((10 + c'.wireId) :: (a'.length % 256) :: (a' ++ b'))) :
    c = c' ∧ a = a' ∧ b = b' := by
  obtain ⟨wa, wb, wa', wb'⟩ := hw
  obtain ⟨la, lb, la', lb'⟩ := hl
  have hc : ∀ c : Cipher, 10 + c.wireId < 256 := by intro c; cases c <;> decide
  have := beVal_inj _ _
    (by rw [Bytes.wf_cons, Bytes.wf_cons, Bytes.wf_append]; exact ⟨hc c, Nat.mod_lt _ (by decide), wa, wb⟩)
    (by rw [Bytes.wf_cons, Bytes.wf_cons, Bytes.wf_append]; exact ⟨hc c', Nat.mod_lt _ (by decide), wa', wb'⟩)
    (by simp [la, lb, la', lb']) h
  simp only [List.cons.injEq] at this
  obtain ⟨h1, _, h3⟩ := this
  have := List.append_inj h3 (by rw [la, la'])
  exact ⟨wireId_inj _ _ (by omega), this.1, this.2⟩

theorem masterKey_comm_of (c : Cipher) (a b : Bytes) (hab : Bytes.beVal a = Bytes.beVal b → a = b) : masterKey c a b = masterKey c b a := by
  rw [masterKey_eq_of, masterKey_eq_of]
  by_cases h1 : Bytes.beVal a ≤ Bytes.beVal b
  · by_cases h2 : Bytes.beVal b ≤ Bytes.beVal a
    · rw [hab (by omega)]
    · rw [if_pos h1, if_neg h2]
  · have h2 : Bytes.beVal b ≤ Bytes.beVal a := by omega
    rw [if_neg h1, if_pos h2]

theorem masterKey_inj_of (c c' : Cipher) (a b a' b' : Bytes) (hw : Bytes.WF a ∧ Bytes.WF b ∧ Bytes.WF a' ∧ Bytes.WF b')
    (hl : a.length = 32 ∧ b.length = 32 ∧ a'.length = 32 ∧ b'.length = 32)
    (h : masterKey c a b = masterKey c' a' b') : c = c' ∧ ((a = a' ∧ b = b') ∨ (a = b' ∧ b = a')) := by
  obtain ⟨wa, wb, wa', wb'⟩ := hw
  obtain ⟨la, lb, la', lb'⟩ := hl
  rw [masterKey_eq_of, masterKey_eq_of] at h
  split at h <;> split at h
  · have := keyList_inj c c' a b a' b' ⟨wa, wb, wa', wb'⟩ ⟨la, lb, la', lb'⟩ h
    exact ⟨this.1, Or.inl this.2⟩
  · have := keyList_inj c c' a b b' a' ⟨wa, wb, wb', wa'⟩ ⟨la, lb, lb', la'⟩ h
    exact ⟨this.1, Or.inr this.2⟩
  · have := keyList_inj c c' b a a' b' ⟨wb, wa, wa', wb'⟩ ⟨lb, la, la', lb'⟩ h
    exact ⟨this.1, Or.inr ⟨this.2.2, this.2.1⟩⟩
  · have := keyList_inj c c' b a b' a' ⟨wb, wa, wb', wa'⟩ ⟨lb, la, lb', la'⟩ h
    exact ⟨this.1, Or.inl ⟨this.2.2, this.2.1⟩⟩

theorem bytesGt_opposite (h1 h2 : Bytes) (hne : Bytes.beVal h1 ≠ Bytes.beVal h2) : bytesGt h1 h2 = !bytesGt h2 h1 := by
  unfold bytesGt
  by_cases h : Bytes.beVal h1 > Bytes.beVal h2
  · have h' : ¬ Bytes.beVal h2 > Bytes.beVal h1 := by omega
    simp [h, h']
  · have h' : Bytes.beVal h2 > Bytes.beVal h1 := by omega
    simp [h, h']

/-! ## the handshake core -/

/-- what the handshake fixes about a core: the key of slot 0 and the nonce half -/
def CoreOK (K : KeyRef) (H : Bool) (c : Core) : Prop := (c.slots[0]?.map (·.key)) = some K ∧ c.half = H

theorem set_key0 (l : List SlotKey) (i : Nat) (k k' : SlotKey) (hk : l[i]? = some k) (hkey : k'.key = k.key) :
    ((l.set i k')[0]?.map (·.key)) = (l[0]?.map (·.key)) := by
  rw [List.getElem?_set]
  by_cases h : i = 0
  · subst h
    have hlt : 0 < l.length := by
      cases l with
      | nil => cases hk
      | cons => simp
    rw [if_pos rfl, if_pos hlt, hk]
    simp [hkey]
  · rw [if_neg h]

theorem CoreOK_new (K : KeyRef) (H : Bool) (d : KeyRef) (starts : List Nat) : CoreOK K H (Core.new K H d starts) :=
  ⟨rfl, rfl⟩

theorem CoreOK_decrypt (K : KeyRef) (H : Bool) (c : Core) (d : Dgram) (h : CoreOK K H c) : CoreOK K H (c.decrypt d).1 := by
  rcases decrypt_cases c d with ⟨e, he⟩ | ⟨k, p, _, _, hk, _, _, hd⟩
  · rw [he]; exact h
  · rw [hd]
    refine ⟨?_, h.2⟩
    refine (set_key0 _ _ k _ hk ?_).trans h.1
    simp only [Spec.C03.slotStep]; split <;> rfl

theorem CoreOK_encrypt (K : KeyRef) (H : Bool) (c : Core) (p : Bytes) (h : CoreOK K H c) : CoreOK K H (c.encrypt p).1 := by
  unfold Core.encrypt
  split
  · exact h
  · rename_i k hk
    refine ⟨?_, h.2⟩
    exact (set_key0 _ _ k { k with send := (k.send + 1) % NONCE_MOD } hk rfl).trans h.1

/-- a payload opened by a fresh handshake core was sealed under the agreed key, unless it was sealed under the throw-away key -/
theorem new_decrypt_ok (K : KeyRef) (H : Bool) (dm : KeyRef) (starts : List Nat) (d : Dgram) (p : Bytes)
    (h : ((Core.new K H dm starts).decrypt d).2 = .ok p) :
    ∃ n, d.body = .sealed K n p ∨ d.body = .sealed dm n p := by
  obtain ⟨_, hid, k, hk, hb⟩ := VpnCloud.Proofs.C02.accepted_is_genuine _ _ _ h
  refine ⟨(Core.new K H dm starts).reconstruct d.counter, ?_⟩
  rw [hb]
  have : k.key = K ∨ k.key = dm := by
    generalize d.keyId = i at hid hk
    match i, hid with
    | 0, _ => simp [Core.new, SlotKey.new] at hk; rw [← hk]; exact Or.inl rfl
    | 1, _ => simp [Core.new, SlotKey.new] at hk; rw [← hk]; exact Or.inr rfl
    | 2, _ => simp [Core.new, SlotKey.new] at hk; rw [← hk]; exact Or.inr rfl
    | 3, _ => simp [Core.new, SlotKey.new] at hk; rw [← hk]; exact Or.inr rfl
  rcases this with h | h <;> rw [h]
  · exact Or.inl rfl
  · exact Or.inr rfl

theorem decryptPayload_none (s : InitSt) (bodyOf : BodyOf) (data : Bytes) (h : s.crypto = none) :
    decryptPayload s bodyOf data = (s, some data) := by
  unfold decryptPayload; rw [h]

theorem decryptPayload_some (s : InitSt) (bodyOf : BodyOf) (data : Bytes) (c : Core) (h : s.crypto = some c) (s' : InitSt) (p : Bytes)
    (hd : decryptPayload s bodyOf data = (s', some p)) :
    (c.decrypt { hdr := data.take 8, body := bodyOf (data.drop 8) }).2 = .ok p ∧
    s' = { s with crypto := some (c.decrypt { hdr := data.take 8, body := bodyOf (data.drop 8) }).1 } := by
  unfold decryptPayload at hd
  rw [h] at hd
  simp only at hd
  split at hd
  · rename_i p' hp
    simp only [Prod.mk.injEq, Option.some.injEq] at hd
    rw [← hd.2, ← hd.1]
    exact ⟨hp, rfl⟩
  · simp at hd

theorem sendMessage_peng_fst (env : CryptoEnv) (s : InitSt) (rnd : Rand) :
    ∃ l, (sendMessage env s Generated.STAGE_PENG rnd).1 = { (encryptPayload s rnd).1 with last := l } := by
  simp only [sendMessage, Generated.STAGE_PENG, Generated.STAGE_PING, Generated.STAGE_PONG]
  exact ⟨_, rfl⟩

theorem encryptPayload_fst (s : InitSt) (rnd : Rand) :
    (encryptPayload s rnd).1 = { s with crypto := s.crypto.map (fun c => (c.encrypt s.payload).1) } := by
  unfold encryptPayload
  split
  · rename_i c h; simp [h]
  · rename_i h; cases s; simp only at h; subst h; rfl

/-- `decryptPayload` touches nothing but the core -/
theorem decryptPayload_frame (s s' : InitSt) (bodyOf : BodyOf) (data : Bytes) (r : Option Bytes)
    (h : decryptPayload s bodyOf data = (s', r)) : ∃ cr, s' = { s with crypto := cr } := by
  unfold decryptPayload at h
  split at h
  · simp only at h
    split at h <;> (simp only [Prod.mk.injEq] at h; exact ⟨_, h.1.symm⟩)
  · rename_i hc
    simp only [Prod.mk.injEq] at h
    refine ⟨none, ?_⟩
    rw [← h.1]
    cases s; simp only at hc; subst hc; rfl

theorem pongSt_ecdh (st0 : InitSt) (own eb hb : Bytes) (sel : Option Cipher) (rnd : Rand) :
    (pongSt st0 own eb hb sel rnd).ecdh = none := by cases sel <;> rfl

theorem pongSt_selected (st0 : InitSt) (own eb hb : Bytes) (sel : Option Cipher) (rnd : Rand) :
    (pongSt st0 own eb hb sel rnd).selected = sel := by cases sel <;> rfl

/-! ## toy instances for non-vacuity examples and counterexamples -/

/-- decidable equality of results, for the concrete examples -/
instance {ε α : Type} [DecidableEq ε] [DecidableEq α] : DecidableEq (Except ε α)
  | .ok a, .ok b => if h : a = b then isTrue (by rw [h]) else isFalse (by intro e; cases e; exact h rfl)
  | .error a, .error b => if h : a = b then isTrue (by rw [h]) else isFalse (by intro e; cases e; exact h rfl)
  | .ok _, .error _ => isFalse (by intro e; cases e)
  | .error _, .ok _ => isFalse (by intro e; cases e)

namespace Toy

/-- toy cryptography: "hash" = prefix of the concatenation, a "signature" by `k` over `m` is `k.take 2 ++ m.take 2` -/
def env : CryptoEnv :=
  { keyHash := fun k s => (k ++ s).take 4, nodeHash := fun s i => (s ++ i).take 16, sigVerify := fun k m s => s = k.take 2 ++ m.take 2 }

def algos : Algos := { speeds := [(.aes128, 10)], allowUnencrypted := false }
def algosPlain : Algos := { speeds := [], allowUnencrypted := true }

/-- an initiator that has sent its ping (pending ephemeral key `[5]`) and trusts the key `[9, 9, 9, 9]` -/
def st : InitSt :=
  { nodeId := [1], hash := List.replicate 20 1, payload := [], ownKey := [7, 7, 7, 7], trusted := [[9, 9, 9, 9]],
    ecdh := some [5], stage := Generated.STAGE_PONG, algos := algos }

/-- peer payload addressed to key slot `kid`, counter 5 -/
def pl (kid : Nat) : Bytes := [kid, 0, 0, 0, 0, 0, 0, 5, 170, 170]

/-- a pong of the trusted peer (node hash `2…2`, ephemeral key `[6]`), "signed" with `[9, 9, 0, 0]` -/
def pong (a : Algos) (kid : Nat) : Bytes :=
  writeTo (.pong (List.replicate 20 2) [6] a (pl kid)) [0, 0, 0, 1] [9, 9, 9, 9] [9, 9, 0, 0]

def rnd : Rand := { salt := [0, 0, 0, 2], sig := [7, 7, 0, 0], dummy := 1 }

/-- every ciphertext opens as `[42]`, sealed under `key` with the nonce of counter 5 in the lower-hash side's receive half -/
def body (key : KeyRef) : BodyOf := fun _ => .sealed key (HALF + 5) [42]

end Toy

end VpnCloud.Proofs.InitLemmas
