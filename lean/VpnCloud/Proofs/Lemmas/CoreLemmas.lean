import VpnCloud.Model.Bytes
import VpnCloud.Model.Core
import VpnCloud.Spec.C03
import VpnCloud.Spec.C03Slot
import VpnCloud.Spec.C04
/-
  Helper lemmas for the crypto-core properties C02 / C03 / C04.
-/
namespace VpnCloud.Proofs.CoreLemmas

open VpnCloud

/-- decidable equality of results, for the concrete non-vacuity examples -/
instance : DecidableEq (Except CoreErr Bytes)
  | .ok a, .ok b => if h : a = b then isTrue (by rw [h]) else isFalse (by intro e; cases e; exact h rfl)
  | .error a, .error b => if h : a = b then isTrue (by rw [h]) else isFalse (by intro e; cases e; exact h rfl)
  | .ok _, .error _ => isFalse (by intro e; cases e)
  | .error _, .ok _ => isFalse (by intro e; cases e)

/-! ## numeric constants -/

theorem pow95 : (2 : Nat) ^ 95 = 39614081257132168796771975168 := by decide
theorem pow96 : (2 : Nat) ^ 96 = 79228162514264337593543950336 := by decide
theorem pow56 : (2 : Nat) ^ 56 = 72057594037927936 := by decide
theorem pow48 : (2 : Nat) ^ 48 = 281474976710656 := by decide
theorem pow256_7 : (256 : Nat) ^ 7 = 72057594037927936 := by decide

theorem half_eq : HALF = 39614081257132168796771975168 := by unfold HALF; decide
theorem nonce_mod_eq : NONCE_MOD = 79228162514264337593543950336 := by unfold NONCE_MOD; decide

/-! ## big-endian values -/

theorem beVal_append (a b : Bytes) : Bytes.beVal (a ++ b) = Bytes.beVal a * 256 ^ b.length + Bytes.beVal b := by
  induction a with
  | nil => simp [Bytes.beVal]
  | cons x a ih =>
    simp only [List.cons_append, Bytes.beVal, ih, List.length_append, Nat.pow_add]
    rw [Nat.add_mul, Nat.mul_assoc, Nat.add_assoc, Nat.mul_comm (256 ^ a.length)]

theorem beVal_snoc (a : Bytes) (b : Nat) : Bytes.beVal (a ++ [b]) = Bytes.beVal a * 256 + b := by
  rw [beVal_append]; simp [Bytes.beVal]

theorem beVal_lt (a : Bytes) (h : Bytes.WF a) : Bytes.beVal a < 256 ^ a.length := by
  induction a with
  | nil => simp [Bytes.beVal]
  | cons x a ih =>
    rw [Bytes.wf_cons] at h
    have := ih h.2
    simp only [Bytes.beVal, List.length_cons, Nat.pow_succ]
    have h1 : x * 256 ^ a.length ≤ 255 * 256 ^ a.length := Nat.mul_le_mul_right _ (by omega)
    omega

theorem ofBE_length (n v : Nat) : (Bytes.ofBE n v).length = n := by
  induction n with
  | zero => rfl
  | succ n ih => simp [Bytes.ofBE, ih]

theorem ofBE_wf (n v : Nat) : Bytes.WF (Bytes.ofBE n v) := by
  induction n with
  | zero => simp [Bytes.ofBE]
  | succ n ih =>
    simp only [Bytes.ofBE, Bytes.wf_cons]
    exact ⟨Nat.mod_lt _ (by omega), ih⟩

theorem beVal_ofBE (n v : Nat) : Bytes.beVal (Bytes.ofBE n v) = v % 256 ^ n := by
  induction n with
  | zero => simp [Bytes.ofBE, Bytes.beVal, Nat.mod_one]
  | succ n ih =>
    simp only [Bytes.ofBE, Bytes.beVal, ih, ofBE_length]
    -- v % 256^(n+1) = (v / 256^n % 256) * 256^n + v % 256^n
    rw [Nat.pow_succ, Nat.mod_mul, Nat.add_comm, Nat.mul_comm]

theorem beVal_ofBE7 (v : Nat) : Bytes.beVal (Bytes.ofBE 7 v) = v % 2 ^ 56 := by
  rw [beVal_ofBE, pow256_7]

/-! ## `Nonce.increment` -/

theorem incRev_length (l : List Nat) : (Nonce.incRev l).length = l.length := by
  induction l with
  | nil => rfl
  | cons b rest ih =>
    simp only [Nonce.incRev]
    split <;> simp [ih]

theorem incRev_wf (l : List Nat) (h : Bytes.WF l) : Bytes.WF (Nonce.incRev l) := by
  induction l with
  | nil => simp [Nonce.incRev]
  | cons b rest ih =>
    rw [Bytes.wf_cons] at h
    simp only [Nonce.incRev]
    split
    · rw [Bytes.wf_cons]; exact ⟨Nat.mod_lt _ (by omega), h.2⟩
    · rw [Bytes.wf_cons]; exact ⟨Nat.mod_lt _ (by omega), ih h.2⟩

theorem wf_reverse {l : Bytes} : Bytes.WF l.reverse ↔ Bytes.WF l := by
  simp [Bytes.WF]

theorem incRev_val (l : List Nat) (h : Bytes.WF l) :
    Bytes.beVal (Nonce.incRev l).reverse = (Bytes.beVal l.reverse + 1) % 256 ^ l.length := by
  induction l with
  | nil => simp [Nonce.incRev, Bytes.beVal]
  | cons b rest ih =>
    rw [Bytes.wf_cons] at h
    have hlt := beVal_lt rest.reverse (wf_reverse.2 h.2)
    rw [List.length_reverse] at hlt
    simp only [Nonce.incRev]
    split
    · rename_i hpos
      have hb : (b + 1) % 256 = b + 1 := by omega
      simp only [List.reverse_cons, beVal_snoc, List.length_cons, Nat.pow_succ, hb]
      rw [Nat.mod_eq_of_lt]
      · omega
      · omega
    · rename_i hpos
      have hb : (b + 1) % 256 = 0 := by omega
      have hb' : b = 255 := by omega
      subst hb'
      simp only [List.reverse_cons, beVal_snoc, List.length_cons, Nat.pow_succ, hb, ih h.2]
      have : Bytes.beVal rest.reverse * 256 + 255 + 1 = (Bytes.beVal rest.reverse + 1) * 256 := by omega
      rw [this, Nat.mul_mod_mul_right, Nat.add_zero]

/-! ## `decrypt` by cases -/

-- all four generated guards of `decrypt` are listed in each `simp only`, whether the branch at hand needs them or not
set_option linter.unusedSimpArgs false in
/-- `decrypt` either rejects and returns the core unchanged, or all checks passed: long enough, key id in
    range, slot present, nonce not below the window floor, body an intact seal under the slot's key and
    the reconstructed nonce -/
theorem decrypt_cases (c : Core) (d : Dgram) :
    (∃ e, c.decrypt d = (c, .error e)) ∨
    (∃ k p, d.len ≥ 24 ∧ d.keyId < 4 ∧ c.slots[d.keyId]? = some k ∧ k.min ≤ c.reconstruct d.counter ∧
      d.body = .sealed k.key (c.reconstruct d.counter) p ∧
      c.decrypt d =
        ({ c with slots := c.slots.set d.keyId (Spec.C03.slotStep k (.accept (c.reconstruct d.counter))) }, .ok p)) := by
  by_cases h1 : d.len < Generated.EXTRA_LEN + Generated.TAG_LEN
  · exact Or.inl ⟨.tooShort, by simp only [Core.decrypt, Generated.datagramTooShort, Generated.keyIdInvalid, Generated.nonceTooOld,
          Generated.seenAdvances, decide_eq_true_eq, h1, if_true]⟩
  by_cases h2 : d.keyId ≥ 4
  · exact Or.inl ⟨.badKeyId, by simp only [Core.decrypt, Generated.datagramTooShort, Generated.keyIdInvalid, Generated.nonceTooOld,
          Generated.seenAdvances, decide_eq_true_eq, h1, h2, if_true, if_false]⟩
  cases hk : c.slots[d.keyId]? with
  | none => exact Or.inl ⟨.badKeyId, by simp only [Core.decrypt, Generated.datagramTooShort, Generated.keyIdInvalid, Generated.nonceTooOld,
          Generated.seenAdvances, decide_eq_true_eq, h1, h2, hk, if_false]⟩
  | some k =>
    by_cases h3 : c.reconstruct d.counter < k.min
    · exact Or.inl ⟨.oldNonce, by simp only [Core.decrypt, Generated.datagramTooShort, Generated.keyIdInvalid, Generated.nonceTooOld,
          Generated.seenAdvances, decide_eq_true_eq, h1, h2, hk, h3, if_true, if_false]⟩
    cases hb : d.body with
    | garbage n => exact Or.inl ⟨.openFailed, by simp only [Core.decrypt, Generated.datagramTooShort, Generated.keyIdInvalid, Generated.nonceTooOld,
          Generated.seenAdvances, decide_eq_true_eq, h1, h2, hk, h3, hb, if_false]⟩
    | sealed key n p =>
      by_cases hkn : key = k.key ∧ n = c.reconstruct d.counter
      · refine Or.inr ⟨k, p, ?_, ?_, rfl, by omega, ?_, ?_⟩
        · simp only [Generated.EXTRA_LEN, Generated.TAG_LEN] at h1; omega
        · omega
        · rw [hkn.1, hkn.2]
        · simp only [Core.decrypt, Generated.datagramTooShort, Generated.keyIdInvalid, Generated.nonceTooOld,
          Generated.seenAdvances, decide_eq_true_eq, h1, h2, hk, h3, hb, hkn, if_false, if_true, and_self, Spec.C03.slotStep]
      · exact Or.inl ⟨.openFailed, by simp only [Core.decrypt, Generated.datagramTooShort, Generated.keyIdInvalid, Generated.nonceTooOld,
          Generated.seenAdvances, decide_eq_true_eq, h1, h2, hk, h3, hb, hkn, if_false]⟩

/-! ## histories (C03) -/

open VpnCloud.Spec.C03

theorem snoc_induction {α : Type} {P : List α → Prop} (hnil : P [])
    (hsnoc : ∀ l a, P l → P (l ++ [a])) : ∀ l, P l := by
  have hrev : ∀ l : List α, P l.reverse := by
    intro l
    induction l with
    | nil => exact hnil
    | cons a l ih => rw [List.reverse_cons]; exact hsnoc _ _ ih
  intro l
  have := hrev l.reverse
  rwa [List.reverse_reverse] at this

/-- one more than everything accepted so far, at least 1: the value the *next* tick stores in `nextMin` -/
def top (h : List Ev) : Nat := max 1 (maxAcceptedSucc h)

/-- the value the next tick moves into `min`: `top` of the history before the most recent tick -/
def pending (h : List Ev) : Nat :=
  match beforeLastButOneTick.go h.reverse 1 with
  | none => 0
  | some old => max 1 (maxAcceptedSucc old)

theorem threshold_eq (h : List Ev) :
    threshold h = match beforeLastButOneTick.go h.reverse 0 with
      | none => 0
      | some old => max 1 (maxAcceptedSucc old) := rfl

theorem go_accept (n : Nat) (rest : List Ev) (t : Nat) :
    beforeLastButOneTick.go (.accept n :: rest) t = beforeLastButOneTick.go rest t := by
  simp [beforeLastButOneTick.go]

theorem go_tick_zero (rest : List Ev) :
    beforeLastButOneTick.go (.tick :: rest) 0 = beforeLastButOneTick.go rest 1 := by
  simp [beforeLastButOneTick.go]

theorem go_tick_one (rest : List Ev) :
    beforeLastButOneTick.go (.tick :: rest) 1 = some rest.reverse := by
  simp [beforeLastButOneTick.go]

theorem threshold_snoc_accept (h : List Ev) (n : Nat) : threshold (h ++ [.accept n]) = threshold h := by
  rw [threshold_eq, threshold_eq, List.reverse_append, List.reverse_singleton, List.singleton_append, go_accept]

theorem threshold_snoc_tick (h : List Ev) : threshold (h ++ [.tick]) = pending h := by
  rw [threshold_eq, pending, List.reverse_append, List.reverse_singleton, List.singleton_append, go_tick_zero]

theorem pending_snoc_accept (h : List Ev) (n : Nat) : pending (h ++ [.accept n]) = pending h := by
  rw [pending, pending, List.reverse_append, List.reverse_singleton, List.singleton_append, go_accept]

theorem pending_snoc_tick (h : List Ev) : pending (h ++ [.tick]) = top h := by
  rw [pending, List.reverse_append, List.reverse_singleton, List.singleton_append, go_tick_one,
    List.reverse_reverse]
  rfl

theorem mas_append (a b : List Ev) :
    maxAcceptedSucc (a ++ b) = max (maxAcceptedSucc a) (maxAcceptedSucc b) := by
  induction a with
  | nil => simp [maxAcceptedSucc]
  | cons e a ih =>
    cases e with
    | accept n => simp only [List.cons_append, maxAcceptedSucc, ih]; omega
    | tick => simp only [List.cons_append, maxAcceptedSucc, ih]

theorem top_snoc_accept (h : List Ev) (n : Nat) : top (h ++ [.accept n]) = max (top h) (n + 1) := by
  simp only [top, mas_append, maxAcceptedSucc]; omega

theorem top_snoc_tick (h : List Ev) : top (h ++ [.tick]) = top h := by
  simp only [top, mas_append, maxAcceptedSucc]; omega

theorem mas_le_iff (h : List Ev) (n : Nat) :
    maxAcceptedSucc h ≤ n ↔ ∀ m, Ev.accept m ∈ h → m < n := by
  induction h with
  | nil => simp [maxAcceptedSucc]
  | cons e h ih =>
    cases e with
    | accept k =>
      simp only [maxAcceptedSucc, List.mem_cons, Ev.accept.injEq]
      constructor
      · intro hle m hm
        rcases hm with rfl | hm
        · omega
        · exact ih.1 (by omega) m hm
      · intro hall
        have h1 := hall k (Or.inl rfl)
        have h2 := ih.2 (fun m hm => hall m (Or.inr hm))
        omega
    | tick =>
      simp only [maxAcceptedSucc, List.mem_cons, reduceCtorEq, false_or]
      exact ih

theorem countTicks_append (a b : List Ev) : countTicks (a ++ b) = countTicks a + countTicks b := by
  simp [countTicks]

theorem countTicks_tick : countTicks [Ev.tick] = 1 := by decide
theorem countTicks_accept (n : Nat) : countTicks [Ev.accept n] = 0 := by simp [countTicks]

/-- the three stages are ordered -/
theorem pending_le_top (h : List Ev) : pending h ≤ top h := by
  induction h using snoc_induction with
  | hnil => decide
  | hsnoc h e ih =>
    cases e with
    | accept n => rw [pending_snoc_accept, top_snoc_accept]; omega
    | tick => rw [pending_snoc_tick, top_snoc_tick]; omega

theorem threshold_le_pending (h : List Ev) : threshold h ≤ pending h := by
  induction h using snoc_induction with
  | hnil => decide
  | hsnoc h e ih =>
    cases e with
    | accept n => rw [pending_snoc_accept, threshold_snoc_accept]; exact ih
    | tick => rw [pending_snoc_tick, threshold_snoc_tick]; exact pending_le_top h

/-- how `top` of a prefix propagates through later events -/
theorem top_propagates (h more : List Ev) :
    top h ≤ top (h ++ more) ∧ (1 ≤ countTicks more → top h ≤ pending (h ++ more)) ∧
      (2 ≤ countTicks more → top h ≤ threshold (h ++ more)) := by
  induction more using snoc_induction with
  | hnil => simp [countTicks]
  | hsnoc m e ih =>
    obtain ⟨i1, i2, i3⟩ := ih
    rw [← List.append_assoc, countTicks_append]
    cases e with
    | accept n =>
      rw [top_snoc_accept, pending_snoc_accept, threshold_snoc_accept, countTicks_accept]
      exact ⟨by omega, i2, i3⟩
    | tick =>
      rw [top_snoc_tick, pending_snoc_tick, threshold_snoc_tick, countTicks_tick]
      exact ⟨i1, fun _ => i1, fun h2 => i2 (by omega)⟩

/-! ## slot runs (C03) -/

theorem slotRun_snoc (k : SlotKey) (h : List Ev) (e : Ev) :
    slotRun k (h ++ [e]) = slotStep (slotRun k h) e := by
  simp [slotRun, List.foldl_append]

/-- `Admissible` is decidable (used for the concrete non-vacuity examples) -/
instance decAdmissible : (k : SlotKey) → (h : List Ev) → Decidable (Admissible k h)
  | _, [] => isTrue trivial
  | k, .accept n :: rest =>
    have := decAdmissible (slotStep k (.accept n)) rest
    inferInstanceAs (Decidable (k.min ≤ n ∧ n + 1 < NONCE_MOD ∧ Admissible (slotStep k (.accept n)) rest))
  | k, .tick :: rest =>
    have := decAdmissible (slotStep k .tick) rest
    inferInstanceAs (Decidable (Admissible (slotStep k .tick) rest))

theorem admissible_bound (k : SlotKey) (h : List Ev) (hadm : Admissible k h) :
    ∀ n, Ev.accept n ∈ h → n + 1 < NONCE_MOD := by
  induction h generalizing k with
  | nil => intro n hn; cases hn
  | cons e h ih =>
    cases e with
    | accept m =>
      simp only [Admissible] at hadm
      intro n hn
      rcases List.mem_cons.1 hn with heq | hn
      · cases heq; exact hadm.2.1
      · exact ih _ hadm.2.2 n hn
    | tick =>
      simp only [Admissible] at hadm
      intro n hn
      rcases List.mem_cons.1 hn with heq | hn
      · cases heq
      · exact ih _ hadm n hn

/-- the replay-window state of a fresh slot after a history of in-range accepts -/
theorem run_inv (key : KeyRef) (half : Bool) (start : Nat) (h : List Ev)
    (hb : ∀ n, Ev.accept n ∈ h → n + 1 < NONCE_MOD) :
    (slotRun (SlotKey.new key half start) h).min = threshold h ∧
    (slotRun (SlotKey.new key half start) h).nextMin = pending h ∧
    (slotRun (SlotKey.new key half start) h).seen + 1 = top h ∧
    (slotRun (SlotKey.new key half start) h).seen + 1 < NONCE_MOD := by
  induction h using snoc_induction with
  | hnil =>
    refine ⟨rfl, rfl, rfl, ?_⟩
    show 0 + 1 < NONCE_MOD
    rw [nonce_mod_eq]; omega
  | hsnoc h e ih =>
    obtain ⟨i1, i2, i3, i4⟩ := ih (fun n hn => hb n (List.mem_append_left _ hn))
    rw [slotRun_snoc]
    cases e with
    | accept n =>
      have hn := hb n (List.mem_append_right _ (List.mem_singleton.2 rfl))
      rw [threshold_snoc_accept, pending_snoc_accept, top_snoc_accept]
      simp only [slotStep]
      split
      · exact ⟨i1, i2, by show n + 1 = _; omega, hn⟩
      · exact ⟨i1, i2, by omega, i4⟩
    | tick =>
      rw [threshold_snoc_tick, pending_snoc_tick, top_snoc_tick]
      simp only [slotStep, SlotKey.updateMinNonce]
      refine ⟨i2, ?_, i3, i4⟩
      rw [Nat.mod_eq_of_lt i4]; exact i3

end VpnCloud.Proofs.CoreLemmas
