import VpnCloud.Model.Node
import VpnCloud.Proofs.C01
/-
  Helper lemmas about the node model (`Model/Node.lean`): association lists, the shape of the outputs
  of the building blocks of `handleNet`, and a restatement of `handleNet` as `finish ∘ dispatch`.
-/
namespace VpnCloud.Proofs.NodeLemmas

open VpnCloud VpnCloud.Node

/-! ## association lists -/

theorem lookupA_some_mem {α} {l : List (NAddr × α)} {a : NAddr} {v : α} (h : lookupA l a = some v) : (a, v) ∈ l := by
  unfold lookupA at h
  cases hf : l.find? (fun p => p.1 = a) with
  | none => simp [hf] at h
  | some p =>
    rw [hf] at h
    have h1 := List.mem_of_find?_eq_some hf
    have h2 := List.find?_some hf
    simp at h h2
    cases p with
    | mk x y => simp at h h2; subst h; subst h2; exact h1

theorem lookupA_isSome_iff {α} (l : List (NAddr × α)) (a : NAddr) : (lookupA l a).isSome = true ↔ a ∈ l.map (·.1) := by
  unfold lookupA
  simp [List.find?_isSome]

theorem lookupA_none_iff {α} (l : List (NAddr × α)) (a : NAddr) : lookupA l a = none ↔ a ∉ l.map (·.1) := by
  rw [← lookupA_isSome_iff]
  cases lookupA l a <;> simp

theorem insertA_keys {α} (l : List (NAddr × α)) (a : NAddr) (v : α) (h : (lookupA l a).isSome = true) :
    (insertA l a v).map (·.1) = l.map (·.1) := by
  have hany : l.any (fun p => decide (p.1 = a)) = true := by
    rw [lookupA_isSome_iff] at h
    simpa using h
  unfold insertA
  rw [if_pos hany, List.map_map]
  apply List.map_congr_left
  intro p _
  by_cases hp : p.1 = a <;> simp [hp]

theorem insertA_keys_of_some {α} (l : List (NAddr × α)) (a : NAddr) (v w : α) (h : lookupA l a = some w) :
    (insertA l a v).map (·.1) = l.map (·.1) :=
  insertA_keys l a v (by rw [h]; rfl)

/-! ## shape of outputs: `Ext P l l'` = `l'` extends `l` by outputs that all satisfy `P` -/

def Ext (P : Out → Prop) (l l' : List Out) : Prop := ∃ ex, l' = l ++ ex ∧ ∀ x ∈ ex, P x

theorem Ext.refl (P : Out → Prop) (l : List Out) : Ext P l l := ⟨[], by simp, by simp⟩

theorem Ext.of_eq {P : Out → Prop} {l l' : List Out} (h : l' = l) : Ext P l l' := h ▸ Ext.refl P l

theorem Ext.trans {P : Out → Prop} {l1 l2 l3 : List Out} (h1 : Ext P l1 l2) (h2 : Ext P l2 l3) : Ext P l1 l3 := by
  obtain ⟨e1, rfl, p1⟩ := h1
  obtain ⟨e2, rfl, p2⟩ := h2
  refine ⟨e1 ++ e2, by simp, ?_⟩
  intro x hx
  rcases List.mem_append.1 hx with h | h
  · exact p1 x h
  · exact p2 x h

theorem Ext.mono {P Q : Out → Prop} {l l' : List Out} (hpq : ∀ x, P x → Q x) (h : Ext P l l') : Ext Q l l' := by
  obtain ⟨e, rfl, p⟩ := h
  exact ⟨e, rfl, fun x hx => hpq x (p x hx)⟩

theorem Ext.snoc {P : Out → Prop} (l : List Out) {x : Out} (h : P x) : Ext P l (l ++ [x]) :=
  ⟨[x], rfl, by simpa using h⟩

theorem Ext.mem {P : Out → Prop} {l l' : List Out} (h : Ext P l l') {x : Out} (hx : x ∈ l') : x ∈ l ∨ P x := by
  obtain ⟨e, rfl, p⟩ := h
  rcases List.mem_append.1 hx with h | h
  · exact Or.inl h
  · exact Or.inr (p x h)

theorem Ext.foldl {P : Out → Prop} {β} (f : Ctx → β → Ctx) (hf : ∀ c x, Ext P c.outs (f c x).outs) :
    ∀ (l : List β) (c : Ctx), Ext P c.outs (l.foldl f c).outs
  | [], _ => Ext.refl P _
  | x :: l, c => Ext.trans (hf c x) (Ext.foldl f hf l (f c x))

/-- a handshake datagram -/
def IsHs (x : Out) : Prop := ∃ d b, x = .dgram d (Generated.INIT_MESSAGE_FIRST_BYTE :: b)

/-- what `handleNet` may emit for a datagram from `src`: datagrams back to `src`, handshake datagrams, frames for the interface -/
def NetOut (src : NAddr) (x : Out) : Prop := (∃ b, x = .dgram src b) ∨ IsHs x ∨ ∃ b, x = .iface b

theorem IsHs.netOut {src : NAddr} {x : Out} (h : IsHs x) : NetOut src x := Or.inr (Or.inl h)

@[simp] theorem send_outs (c : Ctx) (a : NAddr) (b : Bytes) : (c.send a b).outs = c.outs ++ [.dgram a b] := rfl
@[simp] theorem send_node (c : Ctx) (a : NAddr) (b : Bytes) : (c.send a b).node = c.node := rfl
@[simp] theorem send_panicked (c : Ctx) (a : NAddr) (b : Bytes) : (c.send a b).panicked = c.panicked := rfl
@[simp] theorem send_log (c : Ctx) (a : NAddr) (b : Bytes) : (c.send a b).log = c.log := rfl
@[simp] theorem addLog_outs (l : Init.SealLog) (c : Ctx) : (addLog l c).outs = c.outs := rfl
@[simp] theorem addLog_node (l : Init.SealLog) (c : Ctx) : (addLog l c).node = c.node := rfl
@[simp] theorem addLog_cnt (l : Init.SealLog) (c : Ctx) : (addLog l c).cnt = c.cnt := rfl
@[simp] theorem addLog_panicked (l : Init.SealLog) (c : Ctx) : (addLog l c).panicked = c.panicked := rfl
@[simp] theorem countInvalid_outs (c : Ctx) : (countInvalid c).outs = c.outs := rfl
@[simp] theorem countInvalid_panicked (c : Ctx) : (countInvalid c).panicked = c.panicked := rfl

/-- `connect_sock` emits at most one datagram, and that is a handshake datagram -/
theorem connectSock_ext (env : CryptoEnv) (o : Oracle) (c : Ctx) (a : NAddr) : Ext IsHs c.outs (connectSock env o c a).outs := by
  unfold connectSock
  simp only []
  split
  · exact Ext.refl _ _
  · simp only [newAttempt]
    exact Ext.snoc _ ⟨_, _, rfl⟩

theorem connectSock_peers (env : CryptoEnv) (o : Oracle) (c : Ctx) (a : NAddr) : (connectSock env o c a).node.peers = c.node.peers := by
  unfold connectSock
  simp only []
  split
  · rfl
  · simp only [newAttempt]; rfl

theorem connect_ext (env : CryptoEnv) (o : Oracle) (c : Ctx) (l : List NAddr) : Ext IsHs c.outs (connect env o c l).outs := by
  unfold connect
  simp only []
  split
  · exact Ext.refl _ _
  · exact Ext.foldl _ (connectSock_ext env o) _ _

theorem foldl_peers {β} (f : Ctx → β → Ctx) (hf : ∀ c x, (f c x).node.peers = c.node.peers) :
    ∀ (l : List β) (c : Ctx), (l.foldl f c).node.peers = c.node.peers
  | [], _ => rfl
  | x :: l, c => (foldl_peers f hf l (f c x)).trans (hf c x)

theorem connect_peers (env : CryptoEnv) (o : Oracle) (c : Ctx) (l : List NAddr) : (connect env o c l).node.peers = c.node.peers := by
  unfold connect
  simp only []
  split
  · rfl
  · exact foldl_peers _ (connectSock_peers env o) _ _

theorem connectToPeers_ext (env : CryptoEnv) (o : Oracle) (c : Ctx) (l : List PeerInfo) :
    Ext IsHs c.outs (connectToPeers env o c l).outs := by
  unfold connectToPeers
  apply Ext.foldl
  intro c p
  simp only []
  split
  · exact Ext.refl _ _
  · split
    · split
      · exact Ext.refl _ _
      · split
        · exact Ext.refl _ _
        · exact connect_ext env o c _
    · exact connect_ext env o c _

theorem connectToPeers_peers (env : CryptoEnv) (o : Oracle) (c : Ctx) (l : List PeerInfo) :
    (connectToPeers env o c l).node.peers = c.node.peers := by
  unfold connectToPeers
  apply foldl_peers
  intro c p
  simp only []
  split
  · rfl
  · split
    · split
      · rfl
      · split
        · rfl
        · exact connect_peers env o c _
    · exact connect_peers env o c _

theorem updatePeerInfo_ext (env : CryptoEnv) (o : Oracle) (c : Ctx) (now : Int) (a : NAddr) (info : Option NodeInfo) :
    Ext IsHs c.outs (updatePeerInfo env o c now a info).outs := by
  unfold updatePeerInfo
  simp only []
  split
  · exact Ext.refl _ _
  · cases info with
    | none => exact Ext.refl _ _
    | some i => exact connectToPeers_ext env o _ _

theorem addNewPeer_ext (env : CryptoEnv) (o : Oracle) (c : Ctx) (now : Int) (a : NAddr) (info : NodeInfo) :
    Ext IsHs c.outs (addNewPeer env o c now a info).outs := by
  unfold addNewPeer
  simp only []
  split
  · exact Ext.refl _ _
  · exact updatePeerInfo_ext env o _ now a _

theorem removePeer_outs (c : Ctx) (now : Int) (a : NAddr) : (removePeer c now a).outs = c.outs := by
  unfold removePeer
  simp only []
  split <;> rfl

/-- `handle_message`: new outputs are handshake datagrams, frames for the interface, or replies to `src` -/
theorem handleResult_ext (env : CryptoEnv) (o : Oracle) (c : Ctx) (now : Int) (src : NAddr) (res : MsgResult) (out : Bytes) :
    Ext (NetOut src) c.outs (handleResult env o c now src res out).1.outs := by
  unfold handleResult
  cases res with
  | message ty data =>
    simp only []
    split
    · split
      · exact Ext.refl _ _
      · split
        · exact Ext.snoc _ (Or.inr (Or.inr ⟨_, rfl⟩))
        · exact Ext.snoc _ (Or.inr (Or.inr ⟨_, rfl⟩))
    · split
      · split
        · exact Ext.refl _ _
        · exact (updatePeerInfo_ext env o c now src _).mono (fun _ => IsHs.netOut)
      · split
        · exact (updatePeerInfo_ext env o c now src _).mono (fun _ => IsHs.netOut)
        · split
          · exact Ext.of_eq (removePeer_outs c now src)
          · exact Ext.refl _ _
  | initialized payload =>
    simp only []
    split
    · exact (addNewPeer_ext env o c now src _).mono (fun _ => IsHs.netOut)
    · exact Ext.refl _ _
  | initializedWithReply payload =>
    simp only []
    split
    · exact ((addNewPeer_ext env o c now src _).mono (fun _ => IsHs.netOut)).trans (Ext.snoc _ (Or.inl ⟨_, rfl⟩))
    · exact Ext.refl _ _
  | reply => exact Ext.snoc _ (Or.inl ⟨_, rfl⟩)
  | none => exact Ext.refl _ _

theorem applyOutcome_ext (env : CryptoEnv) (o : Oracle) (c : Ctx) (now : Int) (src : NAddr) (inPeers : Bool) (r : POutcome MsgResult) :
    Ext (NetOut src) c.outs (applyOutcome env o c now src inPeers r).1.outs := by
  unfold applyOutcome
  have hstore : ∀ pc, (if inPeers = true then
        match lookupA c.node.peers src with
        | some p => { c with node := { c.node with peers := insertA c.node.peers src { p with crypto := pc } } }
        | none => c
      else { c with node := { c.node with pending := insertA c.node.pending src pc } }).outs = c.outs := by
    intro pc
    split
    · split <;> rfl
    · rfl
  cases r with
  | panic => exact Ext.refl _ _
  | err pc e => exact Ext.of_eq (hstore pc)
  | ok pc out res log =>
    simp only []
    refine Ext.trans (Ext.of_eq ?_) (handleResult_ext env o _ now src res out)
    exact hstore pc

/-! ## `handleNet` = `finish ∘ dispatch` -/

/-- the error handling of `handle_socket_event`: a fatal handshake error closes the pending connection -/
def finish (src : NAddr) (r : Ctx × Option InitErr) : Ctx × Option InitErr :=
  match r with
  | (c', some .cryptoInitFatal) => ({ c' with node := { c'.node with pending := eraseA c'.node.pending src } }, some .cryptoInitFatal)
  | r => r

/-- the throw-away responder for a handshake datagram from an address without a handshake object -/
def responder (env : CryptoEnv) (bodyOf : Init.BodyOf) (o : Oracle) (n : Node) (now : Int) (src : NAddr) (data tail : Bytes)
    (rnd : Rand) (rr : RotRand) (hash : Option Bytes) : Ctx × Option InitErr :=
  let c : Ctx := { node := n }
  match PeerCrypto.handleMessage env bodyOf payloadOk (newAttempt n (hash.getD [])) data tail rnd rr with
  | .ok pc' out res log =>
    handleResult env o (addLog log { c with node := { n with pending := insertA n.pending src pc' } }) now src res out
  | .err _ e => (countInvalid c, some e)
  | .panic => ({ c with panicked := true }, none)

/-- the dispatch of `handle_net_message` between established peer, pending handshake and throw-away responder -/
def dispatch (env : CryptoEnv) (bodyOf : Init.BodyOf) (o : Oracle) (n : Node) (now : Int) (src : NAddr) (data tail : Bytes) :
    Ctx × Option InitErr :=
  let c : Ctx := { node := n }
  let isInit := data.head? = some Generated.INIT_MESSAGE_FIRST_BYTE
  let rnd := (rndFor o c src).1
  let rr := (rndFor o c src).2.1
  let hash := (rndFor o c src).2.2
  match lookupA n.peers src, lookupA n.pending src with
  | some p, pend =>
    if !isInit then
      applyOutcome env o c now src true (PeerCrypto.handleMessage env bodyOf payloadOk p.crypto data tail rnd rr)
    else match pend with
      | some pc => applyOutcome env o c now src false (PeerCrypto.handleMessage env bodyOf payloadOk pc data tail rnd rr)
      | none =>
        if p.crypto.init.isSome then
          applyOutcome env o c now src true (PeerCrypto.handleMessage env bodyOf payloadOk p.crypto data tail rnd rr)
        else responder env bodyOf o n now src data tail rnd rr hash
  | none, some pc =>
    applyOutcome env o c now src false (PeerCrypto.handleMessage env bodyOf payloadOk pc data tail rnd rr)
  | none, none =>
    if isInit then responder env bodyOf o n now src data tail rnd rr hash
    else (countInvalid c, none)

theorem handleNet_eq (env : CryptoEnv) (bodyOf : Init.BodyOf) (o : Oracle) (n : Node) (now : Int) (src0 : NAddr) (data tail : Bytes) :
    handleNet env bodyOf o n now src0 data tail = finish (mappedAddr src0) (dispatch env bodyOf o n now (mappedAddr src0) data tail) := rfl

theorem finish_of_not_fatal (src : NAddr) (c : Ctx) (e : Option InitErr) (h : e ≠ some .cryptoInitFatal) : finish src (c, e) = (c, e) := by
  unfold finish
  split
  · rename_i heq
    cases heq
    exact absurd rfl h
  · rfl

@[simp] theorem finish_outs (src : NAddr) (r : Ctx × Option InitErr) : (finish src r).1.outs = r.1.outs := by
  unfold finish; split <;> rfl
@[simp] theorem finish_panicked (src : NAddr) (r : Ctx × Option InitErr) : (finish src r).1.panicked = r.1.panicked := by
  unfold finish; split <;> rfl
@[simp] theorem finish_peers (src : NAddr) (r : Ctx × Option InitErr) : (finish src r).1.node.peers = r.1.node.peers := by
  unfold finish; split <;> rfl
@[simp] theorem finish_table (src : NAddr) (r : Ctx × Option InitErr) : (finish src r).1.node.table = r.1.node.table := by
  unfold finish; split <;> rfl
@[simp] theorem finish_own (src : NAddr) (r : Ctx × Option InitErr) : (finish src r).1.node.own = r.1.node.own := by
  unfold finish; split <;> rfl

theorem responder_ext (env : CryptoEnv) (bodyOf : Init.BodyOf) (o : Oracle) (n : Node) (now : Int) (src : NAddr) (data tail : Bytes)
    (rnd : Rand) (rr : RotRand) (hash : Option Bytes) :
    Ext (NetOut src) [] (responder env bodyOf o n now src data tail rnd rr hash).1.outs := by
  unfold responder
  simp only []
  split
  · exact handleResult_ext env o _ now src _ _
  · exact Ext.refl _ _
  · exact Ext.refl _ _

/-- everything `handle_net_message` emits is a reply to the sender, a handshake datagram or a frame for the interface -/
theorem dispatch_ext (env : CryptoEnv) (bodyOf : Init.BodyOf) (o : Oracle) (n : Node) (now : Int) (src : NAddr) (data tail : Bytes) :
    Ext (NetOut src) [] (dispatch env bodyOf o n now src data tail).1.outs := by
  unfold dispatch
  simp only []
  split
  · split
    · exact applyOutcome_ext env o { node := n } now src _ _
    · split
      · exact applyOutcome_ext env o { node := n } now src _ _
      · split
        · exact applyOutcome_ext env o { node := n } now src _ _
        · exact responder_ext ..
  · exact applyOutcome_ext env o { node := n } now src _ _
  · split
    · exact responder_ext ..
    · exact Ext.refl _ _

theorem handleNet_ext (env : CryptoEnv) (bodyOf : Init.BodyOf) (o : Oracle) (n : Node) (now : Int) (src0 : NAddr) (data tail : Bytes) :
    Ext (NetOut (mappedAddr src0)) [] (handleNet env bodyOf o n now src0 data tail).1.outs := by
  rw [handleNet_eq, finish_outs]
  exact dispatch_ext ..

/-! ## `handleIface` -/

/-- all outputs so far are datagrams to addresses from `keys`, and `keys` are the addresses of the current peers -/
def ToPeers (keys : List NAddr) (c : Ctx) : Prop :=
  (∀ x ∈ c.outs, ∃ d b, x = .dgram d b ∧ d ∈ keys) ∧ c.node.peers.map (·.1) = keys

theorem sendMsg_toPeers (o : Oracle) (c : Ctx) (a : NAddr) (ty : Nat) (body : Bytes) (keys : List NAddr) (h : ToPeers keys c) :
    ToPeers keys ((sendMsg o c a ty body).getD c) := by
  unfold sendMsg
  split
  · exact h
  · rename_i p hp
    simp only []
    split
    · rename_i pc' bytes log _
      simp only [Option.getD_some]
      refine ⟨?_, ?_⟩
      · intro x hx
        simp only [send_outs, addLog_outs, List.mem_append, List.mem_singleton] at hx
        rcases hx with hx | hx
        · exact h.1 x hx
        · refine ⟨a, bytes, hx, ?_⟩
          rw [← h.2, ← lookupA_isSome_iff, hp]; rfl
      · simp only [send_node, addLog_node]
        rw [insertA_keys_of_some _ _ _ _ hp]
        exact h.2
    · exact h

theorem broadcastMsg_toPeers (o : Oracle) (c : Ctx) (ty : Nat) (body : Bytes) (keys : List NAddr) (h : ToPeers keys c) :
    ToPeers keys (broadcastMsg o c ty body) := by
  unfold broadcastMsg
  generalize c.node.peers.map (·.1) = l
  induction l generalizing c with
  | nil => exact h
  | cons a l ih => exact ih _ (sendMsg_toPeers o c a ty body keys h)

theorem handleIface_toPeers (o : Oracle) (n : Node) (now : Int) (data : Bytes) :
    ToPeers (n.peers.map (·.1)) (handleIface o n now data) := by
  have h0 : ∀ tb, ToPeers (n.peers.map (·.1)) { node := { n with table := tb } } := fun tb => ⟨by simp, rfl⟩
  unfold handleIface
  simp only []
  split
  · exact ⟨by simp, rfl⟩
  · split
    · split
      · exact sendMsg_toPeers o _ _ _ _ _ (h0 _)
      · exact h0 _
    · split
      · exact broadcastMsg_toPeers o _ _ _ _ (h0 _)
      · exact ⟨by simp, rfl⟩

/-! ## rejected handshake datagrams -/

/-- a handshake datagram whose content `read_from` rejects under the trusted keys of the session is answered with a non-fatal error -/
theorem handleMessage_reject (env : CryptoEnv) (bodyOf : Init.BodyOf) (ok : Bytes → Bool) (pc : PeerCrypto) (T : List Bytes)
    (rest tail : Bytes) (rnd : Rand) (rr : RotRand) (e : InitErr)
    (htr : ∀ i, pc.init = some i → i.trusted = T) (hne : rest ≠ []) (h : InitMsg.readFrom env rest T = .error e) :
    ∃ pc' e', PeerCrypto.handleMessage env bodyOf ok pc (Generated.INIT_MESSAGE_FIRST_BYTE :: rest) tail rnd rr = .err pc' e' ∧
      e' ≠ .cryptoInitFatal := by
  cases hi : pc.init with
  | none =>
    have hemp : rest.isEmpty = false := by
      cases rest with
      | nil => exact absurd rfl hne
      | cons => rfl
    refine ⟨pc, .state, ?_, by decide⟩
    simp only [PeerCrypto.handleMessage, if_true, hemp, Bool.false_eq_true, if_false, PeerCrypto.handleInitMessage, hi]
  | some ist =>
    have ht := htr ist hi
    have h' : InitMsg.readFrom env rest ist.trusted = .error e := by rw [ht]; exact h
    have h1 := C01.peerCrypto_reject_pure env bodyOf ok pc ist rest tail rnd rr e hi hne h'
    have h2 := (C01.handleInit_reject_pure env bodyOf ok ist rest rnd e h').2
    revert h1
    cases PeerCrypto.handleMessage env bodyOf ok pc (Generated.INIT_MESSAGE_FIRST_BYTE :: rest) tail rnd rr with
    | ok => intro h1; exact h1.elim
    | panic => intro h1; exact h1.elim
    | err pc' e' =>
      intro h1
      refine ⟨pc', e', rfl, ?_⟩
      rw [h1.2.2.2.2]; exact h2

/-- the step left no trace except in the counters and inside the stored sessions -/
def Quiet (n : Node) (c : Ctx) : Prop :=
  c.panicked = false ∧ c.outs = [] ∧ c.node.table = n.table ∧
  c.node.peers.map (·.1) = n.peers.map (·.1) ∧ c.node.pending.map (·.1) = n.pending.map (·.1) ∧ c.node.own = n.own

theorem applyOutcome_err_quiet (env : CryptoEnv) (o : Oracle) (n : Node) (now : Int) (src : NAddr) (inPeers : Bool) (pc : PeerCrypto) (e : InitErr)
    (hin : if inPeers = true then (lookupA n.peers src).isSome = true else (lookupA n.pending src).isSome = true) :
    (applyOutcome env o { node := n } now src inPeers (.err pc e)).2 = some e ∧
    Quiet n (applyOutcome env o { node := n } now src inPeers (.err pc e)).1 := by
  unfold applyOutcome
  cases inPeers with
  | true =>
    simp only [if_true] at hin ⊢
    cases hl : lookupA n.peers src with
    | none => rw [hl] at hin; cases hin
    | some p =>
      refine ⟨trivial, rfl, rfl, rfl, ?_, rfl, rfl⟩
      simp only [countInvalid]
      exact insertA_keys _ _ _ hin
  | false =>
    simp only [Bool.false_eq_true, if_false] at hin ⊢
    refine ⟨trivial, rfl, rfl, rfl, rfl, ?_, rfl⟩
    simp only [countInvalid]
    exact insertA_keys _ _ _ hin

/-! ## independence of the pending handshake stored for one address -/

theorem lookupA_eraseA_ne {α} (l : List (NAddr × α)) {a s : NAddr} (h : a ≠ s) : lookupA (eraseA l s) a = lookupA l a := by
  unfold lookupA eraseA
  rw [List.find?_filter]
  congr 2
  funext p
  by_cases hp : p.1 = a
  · simp [hp, h]
  · simp [hp]

theorem lookupA_of_eraseA_eq {α} {l1 l2 : List (NAddr × α)} {a s : NAddr} (h : eraseA l1 s = eraseA l2 s) (ha : a ≠ s) :
    lookupA l1 a = lookupA l2 a := by
  rw [← lookupA_eraseA_ne l1 ha, ← lookupA_eraseA_ne l2 ha, h]

theorem eraseA_insertA_ne {α} (l : List (NAddr × α)) {a s : NAddr} (v : α) (h : a ≠ s) :
    eraseA (insertA l a v) s = insertA (eraseA l s) a v := by
  have hany : (eraseA l s).any (fun p => decide (p.1 = a)) = l.any (fun p => decide (p.1 = a)) := by
    unfold eraseA
    rw [List.any_filter]
    congr 1
    funext p
    by_cases hp : p.1 = a
    · simp [hp, h]
    · simp [hp]
  have hf1 : ∀ x : NAddr × α, (if x.1 = a then (a, v) else x).1 = x.1 := by
    intro x; by_cases hx : x.1 = a <;> simp [hx]
  unfold insertA
  rw [hany]
  split
  · unfold eraseA
    rw [List.filter_map]
    congr 1
    apply List.filter_congr
    intro x _
    simp only [Function.comp, hf1]
  · unfold eraseA
    have : ¬ a = s := h
    simp [List.filter_append, this]

theorem eraseA_insertA_eq_of {α} {l1 l2 : List (NAddr × α)} {a s : NAddr} (v : α) (h : eraseA l1 s = eraseA l2 s) (ha : a ≠ s) :
    eraseA (insertA l1 a v) s = eraseA (insertA l2 a v) s := by
  rw [eraseA_insertA_ne l1 v ha, eraseA_insertA_ne l2 v ha, h]

theorem lookupA_insertA_isSome {α} (l : List (NAddr × α)) (a : NAddr) (v : α) (h : (lookupA l a).isSome = true) :
    (lookupA (insertA l a v) a).isSome = true := by
  rw [lookupA_isSome_iff, insertA_keys l a v h, ← lookupA_isSome_iff]; exact h

/-- `c1` and `c2` differ at most in the pending handshake stored for `s` -/
def Sim (s : NAddr) (c1 c2 : Ctx) : Prop :=
  ∃ q, c1 = { c2 with node := { c2.node with pending := q } } ∧ eraseA q s = eraseA c2.node.pending s

/-- … and `s` is an established peer -/
def SimP (s : NAddr) (c1 c2 : Ctx) : Prop := Sim s c1 c2 ∧ (lookupA c2.node.peers s).isSome = true

theorem Sim.outs {s : NAddr} {c1 c2 : Ctx} (h : Sim s c1 c2) : c1.outs = c2.outs := by
  obtain ⟨q, rfl, _⟩ := h; rfl

theorem Sim.peers {s : NAddr} {c1 c2 : Ctx} (h : Sim s c1 c2) : c1.node.peers = c2.node.peers := by
  obtain ⟨q, rfl, _⟩ := h; rfl

theorem connectSock_simP (env : CryptoEnv) (o : Oracle) (s : NAddr) (c1 c2 : Ctx) (a0 : NAddr) (h : SimP s c1 c2) :
    SimP s (connectSock env o c1 a0) (connectSock env o c2 a0) := by
  refine ⟨?_, by rw [connectSock_peers]; exact h.2⟩
  obtain ⟨⟨q, rfl, hq⟩, hs⟩ := h
  unfold connectSock
  simp only []
  by_cases ha : mappedAddr a0 = s
  · simp only [ha, hs, Bool.true_or, if_true]
    exact ⟨q, rfl, hq⟩
  · rw [lookupA_of_eraseA_eq hq ha]
    split
    · exact ⟨q, rfl, hq⟩
    · simp only [newAttempt]
      exact ⟨_, rfl, eraseA_insertA_eq_of _ hq ha⟩

theorem foldl_simP {β} (s : NAddr) (f : Ctx → β → Ctx) (hf : ∀ c1 c2 x, SimP s c1 c2 → SimP s (f c1 x) (f c2 x)) :
    ∀ (l : List β) (c1 c2 : Ctx), SimP s c1 c2 → SimP s (l.foldl f c1) (l.foldl f c2)
  | [], _, _, h => h
  | x :: l, c1, c2, h => foldl_simP s f hf l _ _ (hf c1 c2 x h)

theorem connect_simP (env : CryptoEnv) (o : Oracle) (s : NAddr) (c1 c2 : Ctx) (l : List NAddr) (h : SimP s c1 c2) :
    SimP s (connect env o c1 l) (connect env o c2 l) := by
  have hcond : (l.map mappedAddr).any (fun a => c1.node.own.contains a || (lookupA c1.node.peers a).isSome || (lookupA c1.node.pending a).isSome) =
      (l.map mappedAddr).any (fun a => c2.node.own.contains a || (lookupA c2.node.peers a).isSome || (lookupA c2.node.pending a).isSome) := by
    obtain ⟨⟨q, rfl, hq⟩, hs⟩ := h
    congr 1
    funext a
    by_cases ha : a = s
    · simp only [ha, hs, Bool.or_true, Bool.true_or]
    · simp only [lookupA_of_eraseA_eq hq ha]
  unfold connect
  simp only []
  rw [hcond]
  split
  · exact h
  · exact foldl_simP s _ (fun c1 c2 a => connectSock_simP env o s c1 c2 a) _ _ _ h

theorem connectToPeers_simP (env : CryptoEnv) (o : Oracle) (s : NAddr) (c1 c2 : Ctx) (l : List PeerInfo) (h : SimP s c1 c2) :
    SimP s (connectToPeers env o c1 l) (connectToPeers env o c2 l) := by
  unfold connectToPeers
  apply foldl_simP s _ _ l c1 c2 h
  intro c1 c2 p h
  have hc := connect_simP env o s c1 c2 p.addrs h
  obtain ⟨⟨q, rfl, hq⟩, hs⟩ := h
  simp only []
  split
  · exact ⟨⟨q, rfl, hq⟩, hs⟩
  · split
    · split
      · exact ⟨⟨q, rfl, hq⟩, hs⟩
      · split
        · exact ⟨⟨q, rfl, hq⟩, hs⟩
        · exact hc
    · exact hc

theorem updatePeerInfo_simP (env : CryptoEnv) (o : Oracle) (s : NAddr) (c1 c2 : Ctx) (now : Int) (info : Option NodeInfo) (h : SimP s c1 c2) :
    SimP s (updatePeerInfo env o c1 now s info) (updatePeerInfo env o c2 now s info) := by
  obtain ⟨⟨q, rfl, hq⟩, hs⟩ := h
  unfold updatePeerInfo
  simp only []
  cases hl : lookupA c2.node.peers s with
  | none => exact ⟨⟨q, rfl, hq⟩, hs⟩
  | some p =>
    cases info with
    | none => exact ⟨⟨q, rfl, hq⟩, lookupA_insertA_isSome _ _ _ hs⟩
    | some i =>
      apply connectToPeers_simP
      exact ⟨⟨q, rfl, hq⟩, lookupA_insertA_isSome _ _ _ hs⟩

/-- what the session layer can return for a datagram without the handshake marker -/
def PlainRes (res : MsgResult) : Prop := res = .none ∨ ∃ ty body, res = .message ty body

theorem handleResult_sim (env : CryptoEnv) (o : Oracle) (s : NAddr) (c1 c2 : Ctx) (now : Int) (res : MsgResult) (out : Bytes)
    (hres : PlainRes res) (h : SimP s c1 c2) :
    (handleResult env o c1 now s res out).2 = (handleResult env o c2 now s res out).2 ∧
    Sim s (handleResult env o c1 now s res out).1 (handleResult env o c2 now s res out).1 := by
  rcases hres with rfl | ⟨ty, body, rfl⟩
  · exact ⟨rfl, h.1⟩
  · have hu := fun info => (updatePeerInfo_simP env o s c1 c2 now info h).1
    obtain ⟨⟨q, rfl, hq⟩, hs⟩ := h
    have hpa : parseAddrs { c2.node with pending := q } body = parseAddrs c2.node body := rfl
    unfold handleResult
    simp only [hpa]
    by_cases h0 : ty = Generated.MESSAGE_TYPE_DATA
    · simp only [h0, if_true]
      cases parseAddrs c2.node body with
      | none => exact ⟨by first | rfl | trivial, q, rfl, hq⟩
      | some r =>
        rcases r with ⟨sa, da⟩
        by_cases hl : c2.node.cfg.learning = true
        · simp only [hl, if_true]; exact ⟨by first | rfl | trivial, q, rfl, hq⟩
        · simp only [hl]; exact ⟨by first | rfl | trivial, q, rfl, hq⟩
    · simp only [h0, if_false]
      by_cases h1 : ty = Generated.MESSAGE_TYPE_NODE_INFO
      · simp only [h1, if_true]
        cases Codec.decodeNodeInfo body with
        | none => exact ⟨by first | rfl | trivial, q, rfl, hq⟩
        | some info => exact ⟨by first | rfl | trivial, hu (some info)⟩
      · simp only [h1, if_false]
        by_cases h2 : ty = Generated.MESSAGE_TYPE_KEEPALIVE
        · simp only [h2, if_true]
          exact ⟨by first | rfl | trivial, hu none⟩
        · simp only [h2, if_false]
          by_cases h3 : ty = Generated.MESSAGE_TYPE_CLOSE
          · simp only [h3, if_true]
            refine ⟨by first | rfl | trivial, ?_⟩
            unfold removePeer
            simp only []
            cases lookupA c2.node.peers s with
            | none => exact ⟨q, rfl, hq⟩
            | some _ => exact ⟨q, rfl, hq⟩
          · simp only [h3, if_false]
            exact ⟨by first | rfl | trivial, q, rfl, hq⟩

/-- the session of an established peer processes a session-layer outcome in the same way whatever handshake is pending for its address -/
theorem applyOutcome_sim (env : CryptoEnv) (o : Oracle) (s : NAddr) (c1 c2 : Ctx) (now : Int) (r : POutcome MsgResult)
    (hr : ∀ pc out res log, r = .ok pc out res log → PlainRes res) (h : SimP s c1 c2) :
    (applyOutcome env o c1 now s true r).2 = (applyOutcome env o c2 now s true r).2 ∧
    Sim s (applyOutcome env o c1 now s true r).1 (applyOutcome env o c2 now s true r).1 := by
  cases hl : lookupA c2.node.peers s with
  | none => have := h.2; rw [hl] at this; cases this
  | some p =>
    cases r with
    | panic =>
      obtain ⟨⟨q, rfl, hq⟩, hs⟩ := h
      exact ⟨rfl, q, rfl, hq⟩
    | err pc e =>
      obtain ⟨⟨q, rfl, hq⟩, hs⟩ := h
      unfold applyOutcome
      simp only [if_true, hl]
      exact ⟨trivial, q, rfl, hq⟩
    | ok pc out res log =>
      have hres := hr pc out res log rfl
      unfold applyOutcome
      simp only [if_true]
      apply handleResult_sim env o s _ _ now res out hres
      obtain ⟨⟨q, rfl, hq⟩, hs⟩ := h
      simp only [hl]
      exact ⟨⟨q, rfl, hq⟩, lookupA_insertA_isSome _ _ _ hs⟩

theorem finish_sim (s : NAddr) (r1 r2 : Ctx × Option InitErr) (h2 : r1.2 = r2.2) (h : Sim s r1.1 r2.1) :
    Sim s (finish s r1).1 (finish s r2).1 := by
  rcases r1 with ⟨c1, e1⟩
  rcases r2 with ⟨c2, e2⟩
  simp only at h2 h
  subst h2
  obtain ⟨q, rfl, hq⟩ := h
  unfold finish
  split
  · rename_i heq
    cases heq
    exact ⟨_, rfl, by simp only [hq]⟩
  · rename_i hne
    split
    · rename_i heq
      cases heq
      exact absurd rfl (hne _)
    · exact ⟨q, rfl, hq⟩

/-- a datagram without the handshake marker never completes or answers a handshake -/
theorem handleMessage_plain (env : CryptoEnv) (bodyOf : Init.BodyOf) (ok : Bytes → Bool) (pc : PeerCrypto) (data tail : Bytes)
    (rnd : Rand) (rr : RotRand) (hinit : data.head? ≠ some Generated.INIT_MESSAGE_FIRST_BYTE)
    (pc' : PeerCrypto) (out : Bytes) (res : MsgResult) (log : Init.SealLog)
    (h : PeerCrypto.handleMessage env bodyOf ok pc data tail rnd rr = .ok pc' out res log) : PlainRes res := by
  unfold PeerCrypto.handleMessage at h
  cases data with
  | nil => simp at h
  | cons b0 rest =>
    have hb : ¬ b0 = Generated.INIT_MESSAGE_FIRST_BYTE := by
      intro hb; apply hinit; rw [hb]; rfl
    simp only [hb, if_false] at h
    split at h
    · cases h
    · split at h
      · cases h
      · split at h
        · rename_i pc1 _ _ body _ _
          generalize body ++ (if pc1.unencrypted then tail else []) = d at h
          split at h
          · cases h
          · split at h
            · cases h; exact Or.inl rfl
            · cases h
        · cases h; exact Or.inr ⟨_, _, rfl⟩

/-! ## arbitrary pending handshakes: independence up to handshake datagrams -/

/-- handshake datagram (decidable) -/
def isHsB : Out → Bool
  | .dgram _ (b :: _) => b == Generated.INIT_MESSAGE_FIRST_BYTE
  | _ => false

/-- the outputs without the handshake datagrams -/
def nonHs (l : List Out) : List Out := l.filter (fun x => !isHsB x)

theorem nonHs_append (l e : List Out) : nonHs (l ++ e) = nonHs l ++ nonHs e := List.filter_append ..

theorem nonHs_of_ext {l l' : List Out} (h : Ext IsHs l l') : nonHs l' = nonHs l := by
  obtain ⟨e, rfl, pe⟩ := h
  rw [nonHs_append]
  have : nonHs e = [] := by
    unfold nonHs
    rw [List.filter_eq_nil_iff]
    intro x hx
    obtain ⟨d, b, rfl⟩ := pe x hx
    simp [isHsB]
  rw [this, List.append_nil]

theorem updatePeerInfo_peers_congr (env : CryptoEnv) (o : Oracle) (c1 c2 : Ctx) (now : Int) (a : NAddr) (info : Option NodeInfo)
    (hp : c1.node.peers = c2.node.peers) (hc : c1.node.cfg = c2.node.cfg) :
    (updatePeerInfo env o c1 now a info).node.peers = (updatePeerInfo env o c2 now a info).node.peers := by
  unfold updatePeerInfo
  simp only []
  rw [hp, hc]
  cases lookupA c2.node.peers a with
  | none => exact hp
  | some p =>
    cases info with
    | none => rfl
    | some i =>
      simp only []
      rw [connectToPeers_peers, connectToPeers_peers]

theorem parseAddrs_congr (n1 n2 : Node) (data : Bytes) (hc : n1.cfg = n2.cfg) : parseAddrs n1 data = parseAddrs n2 data := by
  unfold parseAddrs; rw [hc]

theorem handleResult_weak (env : CryptoEnv) (o : Oracle) (s : NAddr) (c1 c2 : Ctx) (now : Int) (res : MsgResult) (out : Bytes)
    (hres : PlainRes res) (hp : c1.node.peers = c2.node.peers) (hc : c1.node.cfg = c2.node.cfg) (ho : nonHs c1.outs = nonHs c2.outs) :
    (handleResult env o c1 now s res out).1.node.peers = (handleResult env o c2 now s res out).1.node.peers ∧
    nonHs (handleResult env o c1 now s res out).1.outs = nonHs (handleResult env o c2 now s res out).1.outs := by
  rcases hres with rfl | ⟨ty, body, rfl⟩
  · exact ⟨hp, ho⟩
  · have hu := fun info => updatePeerInfo_peers_congr env o c1 c2 now s info hp hc
    have huo : ∀ info, nonHs (updatePeerInfo env o c1 now s info).outs = nonHs (updatePeerInfo env o c2 now s info).outs := by
      intro info
      rw [nonHs_of_ext (updatePeerInfo_ext env o c1 now s info), nonHs_of_ext (updatePeerInfo_ext env o c2 now s info), ho]
    unfold handleResult
    simp only [parseAddrs_congr c1.node c2.node body hc]
    by_cases h0 : ty = Generated.MESSAGE_TYPE_DATA
    · simp only [h0, if_true]
      cases parseAddrs c2.node body with
      | none => exact ⟨hp, ho⟩
      | some r =>
        rcases r with ⟨sa, da⟩
        simp only [hc]
        cases hl : c2.node.cfg.learning
        · simp only [Bool.false_eq_true, if_false]
          exact ⟨hp, by simp only [nonHs_append, ho]⟩
        · simp only [if_true]
          exact ⟨hp, by simp only [nonHs_append, ho]⟩
    · simp only [h0, if_false]
      by_cases h1 : ty = Generated.MESSAGE_TYPE_NODE_INFO
      · simp only [h1, if_true]
        cases Codec.decodeNodeInfo body with
        | none => exact ⟨hp, ho⟩
        | some info => exact ⟨hu (some info), huo (some info)⟩
      · simp only [h1, if_false]
        by_cases h2 : ty = Generated.MESSAGE_TYPE_KEEPALIVE
        · simp only [h2, if_true]
          exact ⟨hu none, huo none⟩
        · simp only [h2, if_false]
          by_cases h3 : ty = Generated.MESSAGE_TYPE_CLOSE
          · simp only [h3, if_true, removePeer_outs]
            refine ⟨?_, ho⟩
            unfold removePeer
            simp only []
            rw [hp]
            cases lookupA c2.node.peers s with
            | none => exact hp
            | some _ => rfl
          · simp only [h3, if_false]
            exact ⟨hp, ho⟩

theorem applyOutcome_weak (env : CryptoEnv) (o : Oracle) (s : NAddr) (c1 c2 : Ctx) (now : Int) (r : POutcome MsgResult)
    (hr : ∀ pc out res log, r = .ok pc out res log → PlainRes res)
    (hp : c1.node.peers = c2.node.peers) (hc : c1.node.cfg = c2.node.cfg) (ho : nonHs c1.outs = nonHs c2.outs) :
    (applyOutcome env o c1 now s true r).1.node.peers = (applyOutcome env o c2 now s true r).1.node.peers ∧
    nonHs (applyOutcome env o c1 now s true r).1.outs = nonHs (applyOutcome env o c2 now s true r).1.outs := by
  cases r with
  | panic => exact ⟨hp, ho⟩
  | err pc e =>
    unfold applyOutcome
    simp only [if_true]
    rw [hp]
    cases lookupA c2.node.peers s with
    | none => exact ⟨hp, ho⟩
    | some p => exact ⟨by simp only [countInvalid], ho⟩
  | ok pc out res log =>
    have hres := hr pc out res log rfl
    unfold applyOutcome
    simp only [if_true]
    rw [hp]
    cases lookupA c2.node.peers s with
    | none => exact handleResult_weak env o s _ _ now res out hres hp hc ho
    | some p => exact handleResult_weak env o s _ _ now res out hres (by simp only [addLog_node]) hc ho

end VpnCloud.Proofs.NodeLemmas
