import VpnCloud.Proofs.Lemmas.C10MoreLemmas
import VpnCloud.Proofs.C04Session
import VpnCloud.Proofs.C10More
import VpnCloud.Proofs.Lemmas.C07SessionLemmas
/-
  Definitions and helper lemmas for `Proofs/C10Net.lean` (C10 / C02 over whole traffic histories between two nodes):

  * `CoreSync` / `InSync`: two sessions in sync for the direction A → B, with room for `room` more seals;
  * one seal at A followed by its delivery at B, a tick at A, a tick at B — each keeps `InSync` (core level, then session level);
  * the link A → B as a small executable system (`LOp`, `LSt`, `stepL`, `runL`), the admissibility of a history (`RunOK`);
  * the trace of `C04Session.SOp`s that B's core undergoes during a history (`bTrace`), for the replay statements;
  * node level: what `handle_interface_data` does to A and `handle_net_message` does to B, exactly, for one frame.
-/
namespace VpnCloud.Proofs.C10NetLemmas

open VpnCloud VpnCloud.Node VpnCloud.Spec.C04 VpnCloud.Spec.C03
open VpnCloud.Proofs.CoreLemmas VpnCloud.Proofs.NodeLemmas VpnCloud.Proofs.NodeLemmas2 VpnCloud.Proofs.NodeInvLemmas
open VpnCloud.Proofs.C10MoreLemmas

/-! ## cores in sync -/

/-- the crypto cores `ca` (at A) and `cb` (at B) are in sync for the direction A → B, with room for `room` more seals:
    A's sending slot `ca.cur` holds at B, under the same index, the same key; the cores use opposite halves of the nonce space;
    A's counter lies in A's half and `room` more seals still fit the 56 transmitted bits; and B's replay window of that slot lies
    below A's next nonce: the floor `min`, the floor-to-be `nextMin` (what the next tick makes the floor) and the highest nonce
    seen so far (from which the next tick computes the floor after it). -/
structure CoreSync (room : Nat) (ca cb : Core) : Prop where
  cur : ca.cur < 4
  half : cb.half = !ca.half
  slot : ∃ ks kr v, ca.slots[ca.cur]? = some ks ∧ cb.slots[ca.cur]? = some kr ∧ kr.key = ks.key ∧
    ks.send = base ca.half + v ∧ v + room < 2 ^ 56 ∧
    kr.min ≤ ks.send + 1 ∧ kr.nextMin ≤ ks.send + 1 ∧ kr.seen ≤ ks.send

theorem CoreSync.mono {room room' : Nat} {ca cb : Core} (h : CoreSync room ca cb) (hr : room' ≤ room) : CoreSync room' ca cb := by
  obtain ⟨h1, h2, ks, kr, v, a1, a2, a3, a4, a5, a6⟩ := h
  exact ⟨h1, h2, ks, kr, v, a1, a2, a3, a4, by omega, a6⟩

/-- the datagram A's core produces for the plaintext `p` -/
theorem coreSync_encrypt {room : Nat} {ca cb : Core} (h : CoreSync (room + 1) ca cb) (p : Bytes) :
    ∃ ks kr, ca.slots[ca.cur]? = some ks ∧ cb.slots[ca.cur]? = some kr ∧ kr.key = ks.key ∧ ks.send + 1 < NONCE_MOD ∧
      kr.min ≤ ks.send + 1 ∧ kr.nextMin ≤ ks.send + 1 ∧ kr.seen ≤ ks.send ∧
      (ca.encrypt p).2 = { hdr := ca.cur :: Bytes.ofBE 7 (ks.send + 1), body := .sealed ks.key (ks.send + 1) p } ∧
      (ca.encrypt p).1 = { ca with slots := ca.slots.set ca.cur { ks with send := ks.send + 1 } } ∧
      cb.reconstruct ((ks.send + 1) % 2 ^ 56) = ks.send + 1 := by
  obtain ⟨_, hhalf, ks, kr, v, hs, hr, hkey, hsend, hv, hmin, hnext, hseen⟩ := h
  have hv95 : v + 1 < 2 ^ 95 := by rw [pow56] at hv; rw [pow95]; omega
  have hsend' : ks.send + 1 = base ca.half + (v + 1) := by omega
  have hlt : ks.send + 1 < NONCE_MOD := by rw [hsend']; exact C02.base_add_lt _ _ hv95
  obtain ⟨e1, e2⟩ := C04.encrypt_spec ca p ks hs hlt
  have hhalf' : ca.half = !cb.half := by rw [hhalf, Bool.not_not]
  have hrec : cb.reconstruct (Bytes.beVal (Bytes.ofBE 7 (ks.send + 1))) = ks.send + 1 :=
    (C04.reconstruct_iff cb (ks.send + 1) (v + 1) (by rw [hsend', hhalf']) hv95).2 (by omega)
  rw [beVal_ofBE7] at hrec
  exact ⟨ks, kr, hs, hr, hkey, hlt, hmin, hnext, hseen, e1, e2, hrec⟩

/-- **one seal at A followed by its delivery at B**: B's core opens the datagram as exactly the plaintext, what it does to B's
    slot is `slotStep (.accept nonce)`, and the cores stay in sync (with one seal less to go) -/
theorem coreSync_send {room : Nat} {ca cb : Core} (h : CoreSync (room + 1) ca cb) (p : Bytes) :
    (cb.decrypt (ca.encrypt p).2).2 = .ok p ∧ CoreSync room (ca.encrypt p).1 (cb.decrypt (ca.encrypt p).2).1 := by
  obtain ⟨ks, kr, hs, hr, hkey, hlt, hmin, hnext, hseen, e1, e2, hrec⟩ := coreSync_encrypt h p
  obtain ⟨hcur, hhalf, ks0, _, v, hs0, _, _, hsend, hv, _⟩ := h
  rw [hs] at hs0
  cases hs0
  obtain ⟨f1, f2, f3⟩ := C04.sealed_fields ca.cur (ks.send + 1) (.sealed ks.key (ks.send + 1) p)
  rw [← e1] at f1 f2 f3
  have hd := (C03.decrypt_authentic cb (ca.encrypt p).2 kr p
    (by rw [f3]; simp only [Body.len, Generated.TAG_LEN]; omega) (by rw [f1]; exact hcur) (by rw [f1]; exact hr)
    (by rw [f2, hrec, hkey, e1])).1
  rw [f2, hrec] at hd
  obtain ⟨hok, hst⟩ := hd hmin
  refine ⟨hok, ?_⟩
  rw [hst, e2, f1]
  have hcl : ca.cur < ca.slots.length := (List.getElem?_eq_some_iff.1 hs).1
  have hbl : ca.cur < cb.slots.length := (List.getElem?_eq_some_iff.1 hr).1
  refine ⟨hcur, hhalf, { ks with send := ks.send + 1 }, slotStep kr (.accept (ks.send + 1)), v + 1, ?_, ?_, ?_, ?_, ?_, ?_⟩
  · simp only [List.getElem?_set_self hcl]
  · simp only [List.getElem?_set_self hbl]
  · simp only [slotStep]; split <;> exact hkey
  · show ks.send + 1 = base ca.half + (v + 1); omega
  · omega
  · simp only [slotStep]
    split <;> (refine ⟨?_, ?_, ?_⟩ <;> first | omega | (simp only []; omega))

/-- a housekeeping tick at A keeps the cores in sync (it only ages A's own replay windows) -/
theorem coreSync_tickA {room : Nat} {ca cb : Core} (h : CoreSync room ca cb) : CoreSync room ca.everySecond cb := by
  obtain ⟨hcur, hhalf, ks, kr, v, hs, hr, hkey, hsend, hv, hw⟩ := h
  refine ⟨hcur, hhalf, ks.updateMinNonce, kr, v, ?_, hr, hkey, hsend, hv, hw⟩
  show ca.everySecond.slots[ca.cur]? = _
  rw [C04Session.tick_slots, hs]; rfl

/-- a housekeeping tick at B keeps the cores in sync: the new floor is the old floor-to-be, the new floor-to-be is one above the
    highest nonce seen, and both are at most A's next nonce -/
theorem coreSync_tickB {room : Nat} {ca cb : Core} (h : CoreSync room ca cb) : CoreSync room ca cb.everySecond := by
  obtain ⟨hcur, hhalf, ks, kr, v, hs, hr, hkey, hsend, hv, hmin, hnext, hseen⟩ := h
  refine ⟨hcur, hhalf, ks, kr.updateMinNonce, v, hs, ?_, hkey, hsend, hv, hnext, ?_, hseen⟩
  · rw [C04Session.tick_slots, hr]; rfl
  · show (kr.seen + 1) % NONCE_MOD ≤ ks.send + 1
    have := Nat.mod_le (kr.seen + 1) NONCE_MOD
    omega

/-! ## sessions in sync -/

/-- **InSync**: A's session `sa` (for B) and B's session `sb` (for A) are in sync for the direction A → B with room for `room` more
    messages: both encrypted with cores in sync (`CoreSync`), or both in unencrypted mode. -/
inductive InSync (room : Nat) (sa sb : PeerCrypto) : Prop
  | enc (ca cb : Core) (hua : sa.unencrypted = false) (hub : sb.unencrypted = false)
      (hca : sa.core = some ca) (hcb : sb.core = some cb) (h : CoreSync room ca cb)
  | plain (hua : sa.unencrypted = true) (hub : sb.unencrypted = true)

theorem InSync.mono {room room' : Nat} {sa sb : PeerCrypto} (h : InSync room sa sb) (hr : room' ≤ room) : InSync room' sa sb := by
  cases h with
  | enc ca cb hua hub hca hcb h => exact .enc ca cb hua hub hca hcb (h.mono hr)
  | plain hua hub => exact .plain hua hub

/-- the datagram, as the crypto core sees it, that a session makes of received bytes (ideal AEAD `bodyOf`) -/
def dgramOf (bodyOf : Init.BodyOf) (bytes : Bytes) : Dgram := { hdr := bytes.take 8, body := bodyOf (bytes.drop 8) }

theorem dgramOf_append (bodyOf : Init.BodyOf) (hdr ct : Bytes) (hl : hdr.length = 8) :
    dgramOf bodyOf (hdr ++ ct) = { hdr := hdr, body := bodyOf ct } := by
  unfold dgramOf
  rw [List.take_left' hl, List.drop_left' hl]

theorem sendMessage_enc {sa : PeerCrypto} {ca : Core} (hua : sa.unencrypted = false) (hca : sa.core = some ca) (ty : Nat) (body ct : Bytes) :
    PeerCrypto.sendMessage sa ty body ct =
      ({ sa with core := some (ca.encrypt (ty :: body)).1 },
       .ok ((ca.encrypt (ty :: body)).2.hdr ++ ct, [(ct, (ca.encrypt (ty :: body)).2.body)])) := by
  simp only [PeerCrypto.sendMessage, PeerCrypto.sealMsg, hua, Bool.false_eq_true, if_false, hca]

theorem sendMessage_plain {sa : PeerCrypto} (hua : sa.unencrypted = true) (ty : Nat) (body ct : Bytes) :
    PeerCrypto.sendMessage sa ty body ct = (sa, .ok (ty :: body, [])) := by
  simp only [PeerCrypto.sendMessage, PeerCrypto.sealMsg, hua, if_true]

/-- an encrypted session receives a datagram without handshake marker that its core opens as a message of a type other than ROTATION:
    it hands on exactly that message, emits nothing, and only its core changes (by that `decrypt`) -/
theorem handleMessage_enc_ok (env : CryptoEnv) (bodyOf : Init.BodyOf) (ok : Bytes → Bool) {sb : PeerCrypto} {cb : Core}
    (hub : sb.unencrypted = false) (hcb : sb.core = some cb) (b0 : Nat) (rest tail : Bytes) (rnd : Rand) (rr : RotRand)
    (hb0 : b0 ≠ Generated.INIT_MESSAGE_FIRST_BYTE) (ty : Nat) (body : Bytes)
    (hd : (cb.decrypt (dgramOf bodyOf (b0 :: rest))).2 = .ok (ty :: body)) (hty : ty ≠ Generated.MESSAGE_TYPE_ROTATION) :
    PeerCrypto.handleMessage env bodyOf ok sb (b0 :: rest) tail rnd rr =
      .ok { sb with core := some (cb.decrypt (dgramOf bodyOf (b0 :: rest))).1 } [] (.message ty body) [] := by
  rw [handleMessage_eq]
  simp only [hb0, if_false]
  have hdec : decMsg bodyOf sb (b0 :: rest) =
      ({ sb with core := some (cb.decrypt (dgramOf bodyOf (b0 :: rest))).1 }, .ok (ty :: body)) := by
    unfold decMsg
    simp only [hub, Bool.false_eq_true, if_false, hcb]
    unfold dgramOf at hd ⊢
    rcases hdc : cb.decrypt { hdr := (b0 :: rest).take 8, body := bodyOf ((b0 :: rest).drop 8) } with ⟨c', res⟩
    rw [hdc] at hd
    simp only [] at hd
    subst hd
    rfl
  rw [hdec]
  simp only [hty, if_false]

/-- … that its core rejects: the session returns a crypto error and only its core "changes" (a rejecting `decrypt` leaves it as it was) -/
theorem handleMessage_enc_err (env : CryptoEnv) (bodyOf : Init.BodyOf) (ok : Bytes → Bool) {sb : PeerCrypto} {cb : Core}
    (hub : sb.unencrypted = false) (hcb : sb.core = some cb) (b0 : Nat) (rest tail : Bytes) (rnd : Rand) (rr : RotRand)
    (hb0 : b0 ≠ Generated.INIT_MESSAGE_FIRST_BYTE) (e : CoreErr)
    (hd : (cb.decrypt (dgramOf bodyOf (b0 :: rest))).2 = .error e) :
    PeerCrypto.handleMessage env bodyOf ok sb (b0 :: rest) tail rnd rr =
      .err { sb with core := some (cb.decrypt (dgramOf bodyOf (b0 :: rest))).1 } .crypto := by
  rw [handleMessage_eq]
  simp only [hb0, if_false]
  have hdec : decMsg bodyOf sb (b0 :: rest) =
      ({ sb with core := some (cb.decrypt (dgramOf bodyOf (b0 :: rest))).1 }, .error .crypto) := by
    unfold decMsg
    simp only [hub, Bool.false_eq_true, if_false, hcb]
    unfold dgramOf at hd ⊢
    rcases hdc : cb.decrypt { hdr := (b0 :: rest).take 8, body := bodyOf ((b0 :: rest).drop 8) } with ⟨c', res⟩
    rw [hdc] at hd
    simp only [] at hd
    subst hd
    rfl
  rw [hdec]

/-- a session in unencrypted mode hands on a datagram as it is (first byte = message type) -/
theorem handleMessage_plain_ok (env : CryptoEnv) (bodyOf : Init.BodyOf) (ok : Bytes → Bool) {sb : PeerCrypto}
    (hub : sb.unencrypted = true) (ty : Nat) (body tail : Bytes) (rnd : Rand) (rr : RotRand)
    (hty : ty ≠ Generated.MESSAGE_TYPE_ROTATION) (hty' : ty ≠ Generated.INIT_MESSAGE_FIRST_BYTE) :
    PeerCrypto.handleMessage env bodyOf ok sb (ty :: body) tail rnd rr = .ok sb [] (.message ty body) [] := by
  rw [handleMessage_eq]
  simp only [hty', if_false, decMsg, hub, if_true, hty]

/-! ## housekeeping ticks of a session without a rotation falling due -/

/-- `every_second` of the session succeeds and no key rotation falls due in it: the session has no rotation state (unencrypted mode),
    or its rotate counter stays below `ROTATE_INTERVAL`.  (Rotation itself is the subject of `C07Session`.) -/
def TickOK (pc : PeerCrypto) (rr : RotRand) : Prop :=
  (pc.rot = none ∨ pc.rotateCounter + 1 < Generated.ROTATE_INTERVAL) ∧
  ∃ pc' out res log, PeerCrypto.everySecond pc rr = .ok pc' out res log

theorem tick1_fields (pc : PeerCrypto) :
    (tick1 pc).1.core = pc.core.map Core.everySecond ∧ (tick1 pc).1.unencrypted = pc.unencrypted ∧
    (tick1 pc).1.rot = pc.rot ∧ (tick1 pc).1.rotateCounter = pc.rotateCounter := by
  unfold tick1
  cases pc.init with
  | none => exact ⟨rfl, rfl, rfl, rfl⟩
  | some ist => exact ⟨rfl, rfl, rfl, rfl⟩

/-- such a tick ages the replay windows of the core (`CryptoCore::every_second`) and leaves the mode alone -/
theorem tick_effect {pc : PeerCrypto} {rr : RotRand} (h : TickOK pc rr) :
    ∃ pc' out res log, PeerCrypto.everySecond pc rr = .ok pc' out res log ∧
      pc'.core = pc.core.map Core.everySecond ∧ pc'.unencrypted = pc.unencrypted := by
  obtain ⟨hrot, pc', out, res, log, he⟩ := h
  refine ⟨pc', out, res, log, he, ?_⟩
  rw [everySecond_eq] at he
  obtain ⟨t1, t2, t3, t4⟩ := tick1_fields pc
  generalize tick1 pc = t at he t1 t2 t3 t4
  obtain ⟨pc1, r⟩ := t
  simp only [] at t1 t2 t3 t4
  cases r with
  | error e => cases he
  | ok out1 =>
    simp only [] at he
    split at he
    · cases he
      exact ⟨t1, t2⟩
    · unfold tickRot at he
      have hr2 : (tick2 pc1).rot = pc.rot := t3
      split at he
      · cases he
        exact ⟨t1, t2⟩
      · rename_i sd hsd
        simp only [] at he
        have hc : (tick2 pc1).rotateCounter + 1 < Generated.ROTATE_INTERVAL := by
          rcases hrot with hn | hlt
          · rw [hr2, hn] at hsd; cases hsd
          · have : (tick2 pc1).rotateCounter = pc.rotateCounter := t4
            rw [this]; exact hlt
        rw [if_pos hc] at he
        cases he
        exact ⟨t1, t2⟩

/-! ## the link A → B as a small system -/

/-- the operations of a traffic history on the link A → B:
    * `send`: A's session seals the message `(ty, body)` (`ct`: the ciphertext bytes the implementation produced) and the datagram is
      delivered at once to B's session (a loss-free, in-order, non-duplicating link); `tail`, `rnd`, `rr`: what else B's
      `handle_message` gets to see (stale buffer bytes, randomness) — irrelevant for the result;
    * `tickA` / `tickB`: `every_second` of A's / B's session. -/
inductive LOp
  | send (ty : Nat) (body ct tail : Bytes) (rnd : Rand) (rr : RotRand)
  | tickA (rr : RotRand)
  | tickB (rr : RotRand)

/-- the two sessions, the datagrams A put on the wire, what B's session made of each delivered datagram, and the genuine seals -/
structure LSt where
  a : PeerCrypto
  b : PeerCrypto
  wire : List Bytes := []
  got : List (Option (MsgResult × Bytes)) := []
  log : Init.SealLog := []

/-- what a session made of a datagram: the result it hands to the node and the bytes it wants sent back; `none` = error or panic -/
def recvOf : POutcome MsgResult → Option (MsgResult × Bytes)
  | .ok _ out res _ => some (res, out)
  | _ => none

/-- the session after an operation -/
def after (pc : PeerCrypto) : POutcome MsgResult → PeerCrypto
  | .ok pc' _ _ _ => pc'
  | .err pc' _ => pc'
  | .panic => pc

section
variable (env : CryptoEnv) (bodyOf : Init.BodyOf) (ok : Bytes → Bool)

/-- one operation of the link -/
def stepL (s : LSt) : LOp → LSt
  | .send ty body ct tail rnd rr =>
    match PeerCrypto.sendMessage s.a ty body ct with
    | (a', .ok (bytes, log)) =>
      let r := PeerCrypto.handleMessage env bodyOf ok s.b bytes tail rnd rr
      { a := a', b := after s.b r, wire := s.wire ++ [bytes], got := s.got ++ [recvOf r], log := s.log ++ log }
    | (a', .error _) => { s with a := a' }
  | .tickA rr => { s with a := after s.a (PeerCrypto.everySecond s.a rr) }
  | .tickB rr => { s with b := after s.b (PeerCrypto.everySecond s.b rr) }

/-- a whole history -/
def runL (s : LSt) : List LOp → LSt
  | [] => s
  | op :: ops => runL (stepL env bodyOf ok s op) ops

/-- the operation is one the theorem is about: a message of a type other than ROTATION (in unencrypted mode also other than 255: there
    the type byte travels in the clear and 255 is the handshake marker), a tick without rotation falling due -/
def OpOK (s : LSt) : LOp → Prop
  | .send ty _ _ _ _ _ => ty ≠ Generated.MESSAGE_TYPE_ROTATION ∧ (s.a.unencrypted = true → ty ≠ Generated.INIT_MESSAGE_FIRST_BYTE)
  | .tickA rr => TickOK s.a rr
  | .tickB rr => TickOK s.b rr

/-- … along the whole history -/
def RunOK (s : LSt) : List LOp → Prop
  | [] => True
  | op :: ops => OpOK s op ∧ RunOK (stepL env bodyOf ok s op) ops

end

/-- the messages sent in a history, in order -/
def sent : List LOp → List (Nat × Bytes)
  | [] => []
  | .send ty body _ _ _ _ :: ops => (ty, body) :: sent ops
  | .tickA _ :: ops => sent ops
  | .tickB _ :: ops => sent ops

def numSends (ops : List LOp) : Nat := (sent ops).length

/-- number of ticks at B in a history -/
def numTicksB : List LOp → Nat
  | [] => 0
  | .tickB _ :: ops => numTicksB ops + 1
  | .send _ _ _ _ _ _ :: ops => numTicksB ops
  | .tickA _ :: ops => numTicksB ops

/-- ideal AEAD, consistency with a log of genuine seals: `bodyOf` views the ciphertext bytes of every logged seal as what was sealed -/
def LogOK (bodyOf : Init.BodyOf) (log : Init.SealLog) : Prop := ∀ e ∈ log, bodyOf e.1 = e.2

section
variable (env : CryptoEnv) (bodyOf : Init.BodyOf) (ok : Bytes → Bool)

theorem stepL_log_mono (s : LSt) (op : LOp) : ∀ e ∈ s.log, e ∈ (stepL env bodyOf ok s op).log := by
  intro e he
  cases op with
  | send ty body ct tail rnd rr =>
    simp only [stepL]
    split
    · exact List.mem_append_left _ he
    · exact he
  | tickA rr => exact he
  | tickB rr => exact he

theorem runL_log_mono (ops : List LOp) : ∀ (s : LSt), ∀ e ∈ s.log, e ∈ (runL env bodyOf ok s ops).log := by
  induction ops with
  | nil => intro s e he; exact he
  | cons op ops ih => intro s e he; exact ih _ e (stepL_log_mono env bodyOf ok s op e he)

/-- one message from A's session to B's session, both encrypted with cores in sync, exactly: what A's session returns, what B's
    session returns for the datagram, and the datagram as B's core sees it.  `hb`: the ideal AEAD views the ciphertext bytes as what
    A sealed. -/
theorem send_deliver_enc {room : Nat} {sa sb : PeerCrypto} {ca cb : Core} (hua : sa.unencrypted = false) (hub : sb.unencrypted = false)
    (hca : sa.core = some ca) (hcb : sb.core = some cb) (hc : CoreSync (room + 1) ca cb)
    (ty : Nat) (body ct tail : Bytes) (rnd : Rand) (rr : RotRand) (hty : ty ≠ Generated.MESSAGE_TYPE_ROTATION)
    (hb : bodyOf ct = (ca.encrypt (ty :: body)).2.body) :
    PeerCrypto.sendMessage sa ty body ct =
      ({ sa with core := some (ca.encrypt (ty :: body)).1 },
       .ok ((ca.encrypt (ty :: body)).2.hdr ++ ct, [(ct, (ca.encrypt (ty :: body)).2.body)])) ∧
    PeerCrypto.handleMessage env bodyOf ok sb ((ca.encrypt (ty :: body)).2.hdr ++ ct) tail rnd rr =
      .ok { sb with core := some (cb.decrypt (ca.encrypt (ty :: body)).2).1 } [] (.message ty body) [] ∧
    dgramOf bodyOf ((ca.encrypt (ty :: body)).2.hdr ++ ct) = (ca.encrypt (ty :: body)).2 ∧
    ∃ rest, (ca.encrypt (ty :: body)).2.hdr ++ ct = ca.cur :: rest := by
  obtain ⟨ks, kr, hs, _, _, _, _, _, _, e1, _, _⟩ := coreSync_encrypt hc (ty :: body)
  obtain ⟨hdec, _⟩ := coreSync_send hc (ty :: body)
  have hl : (ca.encrypt (ty :: body)).2.hdr.length = 8 := by rw [e1]; simp [ofBE_length]
  have hdg : dgramOf bodyOf ((ca.encrypt (ty :: body)).2.hdr ++ ct) = (ca.encrypt (ty :: body)).2 := by
    rw [dgramOf_append bodyOf _ _ hl, hb]
  have hcons : (ca.encrypt (ty :: body)).2.hdr ++ ct = ca.cur :: (Bytes.ofBE 7 (ks.send + 1) ++ ct) := by rw [e1]; rfl
  have hne : ca.cur ≠ Generated.INIT_MESSAGE_FIRST_BYTE := by
    have := hc.cur
    simp only [Generated.INIT_MESSAGE_FIRST_BYTE]; omega
  have hrecv := handleMessage_enc_ok env bodyOf ok hub hcb ca.cur (Bytes.ofBE 7 (ks.send + 1) ++ ct) tail rnd rr hne ty body
    (by rw [← hcons, hdg]; exact hdec) hty
  rw [← hcons, hdg] at hrecv
  exact ⟨sendMessage_enc hua hca ty body ct, hrecv, hdg, _, hcons⟩

/-- **one message** from A's session to B's session in sync: A's session seals it into one datagram, and — if the ideal AEAD views the
    ciphertext A emitted as what A sealed — B's session answers the datagram with exactly `.message ty body`, nothing to send back,
    and the sessions stay in sync (with one message less to go) -/
theorem send_deliver {room : Nat} {sa sb : PeerCrypto} (h : InSync (room + 1) sa sb)
    (ty : Nat) (body ct tail : Bytes) (rnd : Rand) (rr : RotRand) (hty : ty ≠ Generated.MESSAGE_TYPE_ROTATION)
    (hty' : sa.unencrypted = true → ty ≠ Generated.INIT_MESSAGE_FIRST_BYTE) :
    ∃ sa' bytes log, PeerCrypto.sendMessage sa ty body ct = (sa', .ok (bytes, log)) ∧
      (LogOK bodyOf log → ∃ sb', PeerCrypto.handleMessage env bodyOf ok sb bytes tail rnd rr = .ok sb' [] (.message ty body) [] ∧
        InSync room sa' sb') := by
  cases h with
  | enc ca cb hua hub hca hcb hc =>
    refine ⟨_, _, _, sendMessage_enc hua hca ty body ct, fun hlog => ?_⟩
    have hb : bodyOf ct = (ca.encrypt (ty :: body)).2.body := hlog (ct, _) (List.mem_singleton.2 rfl)
    obtain ⟨_, hrecv, _, _⟩ := send_deliver_enc env bodyOf ok hua hub hca hcb hc ty body ct tail rnd rr hty hb
    exact ⟨_, hrecv, .enc _ _ hua hub rfl rfl (coreSync_send hc (ty :: body)).2⟩
  | plain hua hub =>
    exact ⟨_, _, _, sendMessage_plain hua ty body ct, fun _ =>
      ⟨_, handleMessage_plain_ok env bodyOf ok hub ty body tail rnd rr hty (hty' hua), .plain hua hub⟩⟩

/-- **one send** on an encrypted link in sync, exactly: A's core seals, the datagram (header of A's core, ciphertext bytes `ct`) goes
    on the wire, B's core opens it, B's session answers with exactly `.message ty body` and nothing to send back -/
theorem stepL_send_enc {room : Nat} {s : LSt} {ca cb : Core} (hua : s.a.unencrypted = false) (hub : s.b.unencrypted = false)
    (hca : s.a.core = some ca) (hcb : s.b.core = some cb) (hc : CoreSync (room + 1) ca cb)
    (ty : Nat) (body ct tail : Bytes) (rnd : Rand) (rr : RotRand) (hty : ty ≠ Generated.MESSAGE_TYPE_ROTATION)
    (hlog : LogOK bodyOf (stepL env bodyOf ok s (.send ty body ct tail rnd rr)).log) :
    stepL env bodyOf ok s (.send ty body ct tail rnd rr) =
      { a := { s.a with core := some (ca.encrypt (ty :: body)).1 },
        b := { s.b with core := some (cb.decrypt (ca.encrypt (ty :: body)).2).1 },
        wire := s.wire ++ [(ca.encrypt (ty :: body)).2.hdr ++ ct],
        got := s.got ++ [some (.message ty body, [])],
        log := s.log ++ [(ct, (ca.encrypt (ty :: body)).2.body)] } ∧
    dgramOf bodyOf ((ca.encrypt (ty :: body)).2.hdr ++ ct) = (ca.encrypt (ty :: body)).2 ∧
    ∃ rest, (ca.encrypt (ty :: body)).2.hdr ++ ct = ca.cur :: rest := by
  have hsm := sendMessage_enc hua hca ty body ct
  have hb : bodyOf ct = (ca.encrypt (ty :: body)).2.body := by
    apply hlog (ct, (ca.encrypt (ty :: body)).2.body)
    simp only [stepL, hsm]
    exact List.mem_append_right _ (List.mem_singleton.2 rfl)
  obtain ⟨_, hrecv, hdg, hcons⟩ := send_deliver_enc env bodyOf ok hua hub hca hcb hc ty body ct tail rnd rr hty hb
  refine ⟨?_, hdg, hcons⟩
  simp only [stepL, hsm, hrecv, recvOf, after]

/-- **one send** on a link in sync: A's session seals, the datagram goes on the wire, B's session answers with exactly
    `.message ty body` and nothing to send back, and the sessions stay in sync -/
theorem stepL_send {room : Nat} {s : LSt} (h : InSync (room + 1) s.a s.b) (ty : Nat) (body ct tail : Bytes) (rnd : Rand) (rr : RotRand)
    (hok : OpOK s (.send ty body ct tail rnd rr))
    (hlog : LogOK bodyOf (stepL env bodyOf ok s (.send ty body ct tail rnd rr)).log) :
    (stepL env bodyOf ok s (.send ty body ct tail rnd rr)).got = s.got ++ [some (.message ty body, [])] ∧
    (stepL env bodyOf ok s (.send ty body ct tail rnd rr)).wire.length = s.wire.length + 1 ∧
    InSync room (stepL env bodyOf ok s (.send ty body ct tail rnd rr)).a (stepL env bodyOf ok s (.send ty body ct tail rnd rr)).b := by
  obtain ⟨hty, hty'⟩ := hok
  cases h with
  | enc ca cb hua hub hca hcb hc =>
    obtain ⟨hst, _, _⟩ := stepL_send_enc env bodyOf ok hua hub hca hcb hc ty body ct tail rnd rr hty hlog
    rw [hst]
    simp only [List.length_append, List.length_singleton, true_and]
    exact .enc _ _ hua hub rfl rfl (coreSync_send hc (ty :: body)).2
  | plain hua hub =>
    have hsm := sendMessage_plain hua ty body ct
    have hrecv := handleMessage_plain_ok env bodyOf ok hub ty body tail rnd rr hty (hty' hua)
    simp only [stepL, hsm, hrecv, recvOf, after, List.length_append, List.length_singleton, true_and]
    exact .plain hua hub

/-- a tick at A keeps the link in sync and changes nothing else -/
theorem stepL_tickA {room : Nat} {s : LSt} (h : InSync room s.a s.b) (rr : RotRand) (hok : TickOK s.a rr) :
    InSync room (stepL env bodyOf ok s (.tickA rr)).a (stepL env bodyOf ok s (.tickA rr)).b := by
  obtain ⟨pc', out, res, log, he, hcore, hun⟩ := tick_effect hok
  simp only [stepL, he, after]
  cases h with
  | enc ca cb hua hub hca hcb hc =>
    exact .enc ca.everySecond cb (by rw [hun]; exact hua) hub (by rw [hcore, hca]; rfl) hcb (coreSync_tickA hc)
  | plain hua hub => exact .plain (by rw [hun]; exact hua) hub

/-- a tick at B keeps the link in sync and changes nothing else -/
theorem stepL_tickB {room : Nat} {s : LSt} (h : InSync room s.a s.b) (rr : RotRand) (hok : TickOK s.b rr) :
    InSync room (stepL env bodyOf ok s (.tickB rr)).a (stepL env bodyOf ok s (.tickB rr)).b := by
  obtain ⟨pc', out, res, log, he, hcore, hun⟩ := tick_effect hok
  simp only [stepL, he, after]
  cases h with
  | enc ca cb hua hub hca hcb hc =>
    exact .enc ca cb.everySecond hua (by rw [hun]; exact hub) hca (by rw [hcore, hcb]; rfl) (coreSync_tickB hc)
  | plain hua hub => exact .plain hua (by rw [hun]; exact hub)

/-- the invariant of a history on a link in sync -/
theorem runL_inv (ops : List LOp) : ∀ (s : LSt) (room : Nat), InSync room s.a s.b → numSends ops ≤ room →
    RunOK env bodyOf ok s ops → LogOK bodyOf (runL env bodyOf ok s ops).log →
    (runL env bodyOf ok s ops).got = s.got ++ (sent ops).map (fun m => some (MsgResult.message m.1 m.2, [])) ∧
    (runL env bodyOf ok s ops).wire.length = s.wire.length + numSends ops ∧
    InSync (room - numSends ops) (runL env bodyOf ok s ops).a (runL env bodyOf ok s ops).b := by
  induction ops with
  | nil =>
    intro s room h _ _ _
    refine ⟨by simp [runL, sent], by simp [runL, sent, numSends], ?_⟩
    exact h
  | cons op ops ih =>
    intro s room h hroom hok hlog
    obtain ⟨hop, hrest⟩ := hok
    cases op with
    | send ty body ct tail rnd rr =>
      have hroom' : numSends ops + 1 ≤ room := hroom
      obtain ⟨room', rfl⟩ : ∃ r, room = r + 1 := ⟨room - 1, by omega⟩
      have hl1 : LogOK bodyOf (stepL env bodyOf ok s (.send ty body ct tail rnd rr)).log :=
        fun e he => hlog e (runL_log_mono env bodyOf ok ops _ e he)
      obtain ⟨g1, w1, s1⟩ := stepL_send env bodyOf ok h ty body ct tail rnd rr hop hl1
      obtain ⟨g2, w2, s2⟩ := ih _ room' s1 (by omega) hrest hlog
      refine ⟨?_, ?_, ?_⟩
      · show (runL env bodyOf ok (stepL env bodyOf ok s (.send ty body ct tail rnd rr)) ops).got = _
        rw [g2, g1]
        simp only [sent, List.map_cons, List.append_assoc, List.singleton_append]
      · show (runL env bodyOf ok (stepL env bodyOf ok s (.send ty body ct tail rnd rr)) ops).wire.length = _
        rw [w2, w1]
        simp only [numSends, sent, List.length_cons]
        omega
      · have : room' + 1 - numSends (LOp.send ty body ct tail rnd rr :: ops) = room' - numSends ops := by
          simp only [numSends, sent, List.length_cons]; omega
        rw [this]
        exact s2
    | tickA rr =>
      have s1 := stepL_tickA env bodyOf ok h rr hop
      exact ih _ room s1 hroom hrest hlog
    | tickB rr =>
      have s1 := stepL_tickB env bodyOf ok h rr hop
      exact ih _ room s1 hroom hrest hlog

end

/-! ## the trace of B's core, and the replay window of the slot that accepted a datagram -/

open VpnCloud.Proofs.C04Session in
/-- while the slot holds key `K` and fewer than two ticks have passed (`t` = number of ticks so far), the floor of the window is still at
    most `n`: before the first tick both the floor and the floor-to-be are -/
def Win (K : KeyRef) (n t : Nat) (k : SlotKey) : Prop :=
  k.key = K ∧ (t = 0 → k.min ≤ n ∧ k.nextMin ≤ n) ∧ (t ≤ 1 → k.min ≤ n)

section
open VpnCloud.Proofs.C04Session

theorem numTicks_nil_of (op : SOp) (h : ∀ K id use start, op ≠ .rotate K id use start) :
    (op = .tick ∧ numTicks [op] = 1) ∨ (op ≠ .tick ∧ numTicks [op] = 0) := by
  cases op with
  | «seal» p => exact Or.inr ⟨by simp, rfl⟩
  | tick => exact Or.inl ⟨rfl, rfl⟩
  | rotate K id use start => exact absurd rfl (h K id use start)
  | «open» d => exact Or.inr ⟨by simp, rfl⟩

theorem win_step (K : KeyRef) (n t j : Nat) (c : Core) (op : SOp) (k : SlotKey) (hk : c.slots[j]? = some k) (w : Win K n t k)
    (hnr : ∀ K' id use start, op ≠ .rotate K' id use start) :
    ∃ k', (step c op).1.slots[j]? = some k' ∧ Win K n (t + numTicks [op]) k' := by
  cases op with
  | «seal» p =>
    refine ⟨_, encrypt_slots c p j k hk, ?_⟩
    split
    · exact w
    · exact w
  | tick =>
    refine ⟨k.updateMinNonce, by simp only [step]; rw [tick_slots, hk]; rfl, ?_⟩
    obtain ⟨w1, w2, w3⟩ := w
    refine ⟨w1, fun h => ?_, fun h => ?_⟩
    · simp only [numTicks] at h; omega
    · simp only [numTicks] at h
      exact (w2 (by omega)).2
  | rotate K' id use start => exact absurd rfl (hnr K' id use start)
  | «open» d =>
    rcases open_slots c d j k hk with h1 | ⟨_, _, _, h1⟩
    · exact ⟨k, h1, w⟩
    · refine ⟨_, h1, ?_⟩
      simp only [slotStep]
      split
      · exact w
      · exact w

theorem win_run (K : KeyRef) (n j : Nat) : ∀ (ops : List SOp) (t : Nat) (c : Core) (k : SlotKey),
    c.slots[j]? = some k → Win K n t k → rotatedKeys ops = [] →
    ∃ k', (run c ops).1.slots[j]? = some k' ∧ Win K n (t + numTicks ops) k' := by
  intro ops
  induction ops with
  | nil => intro t c k hk w _; exact ⟨k, hk, w⟩
  | cons op ops ih =>
    intro t c k hk w hr
    have hnr : ∀ K' id use start, op ≠ .rotate K' id use start := by
      intro K' id use start h
      rw [h] at hr
      simp [rotatedKeys] at hr
    have hr' : rotatedKeys ops = [] := by
      cases op with
      | rotate K' id use start => exact absurd rfl (hnr K' id use start)
      | «seal» p => exact hr
      | tick => exact hr
      | «open» d => exact hr
    obtain ⟨k1, hk1, w1⟩ := win_step K n t j c op k hk w hnr
    obtain ⟨k2, hk2, w2⟩ := ih _ _ k1 hk1 w1 hr'
    refine ⟨k2, by rw [run_cons]; exact hk2, ?_⟩
    rw [numTicks_cons, ← Nat.add_assoc]
    exact w2

variable (env : CryptoEnv) (bodyOf : Init.BodyOf) (ok : Bytes → Bool)

/-- **the link to `C04Session`**: during a history on an encrypted link in sync, B's core undergoes a trace of `C04Session.SOp`s — one
    `.open` (of a datagram that consists of bytes) per send, one `.tick` per tick at B, no rotation; both sessions stay encrypted -/
theorem bcore_run (ops : List LOp) : ∀ (s : LSt) (room : Nat) (ca cb : Core), s.a.unencrypted = false → s.b.unencrypted = false →
    s.a.core = some ca → s.b.core = some cb → CoreSync room ca cb → numSends ops ≤ room →
    RunOK env bodyOf ok s ops → LogOK bodyOf (runL env bodyOf ok s ops).log →
    ∃ sops, (runL env bodyOf ok s ops).b.core = some (run cb sops).1 ∧ (runL env bodyOf ok s ops).b.unencrypted = false ∧
      numTicks sops = numTicksB ops ∧ rotatedKeys sops = [] ∧ DeliveredWF sops := by
  induction ops with
  | nil =>
    intro s room ca cb _ hub _ hcb _ _ _ _
    exact ⟨[], hcb, hub, rfl, rfl, fun d hd => by cases hd⟩
  | cons op ops ih =>
    intro s room ca cb hua hub hca hcb hc hroom hok hlog
    obtain ⟨hop, hrest⟩ := hok
    cases op with
    | send ty body ct tail rnd rr =>
      have hroom' : numSends ops + 1 ≤ room := hroom
      obtain ⟨room', rfl⟩ : ∃ r, room = r + 1 := ⟨room - 1, by omega⟩
      have hl1 : LogOK bodyOf (stepL env bodyOf ok s (.send ty body ct tail rnd rr)).log :=
        fun e he => hlog e (runL_log_mono env bodyOf ok ops _ e he)
      obtain ⟨hst, _, _⟩ := stepL_send_enc env bodyOf ok hua hub hca hcb hc ty body ct tail rnd rr hop.1 hl1
      obtain ⟨ks, _, _, _, _, _, _, _, _, e1, _, _⟩ := coreSync_encrypt hc (ty :: body)
      have hsync := (coreSync_send hc (ty :: body)).2
      obtain ⟨sops, h1, h2, h3, h4, h5⟩ := ih (stepL env bodyOf ok s (.send ty body ct tail rnd rr)) room' _ _
        (by rw [hst]; exact hua) (by rw [hst]; exact hub) (by rw [hst]) (by rw [hst]) hsync (by omega) hrest hlog
      refine ⟨.open (ca.encrypt (ty :: body)).2 :: sops, ?_, h2, ?_, h4, ?_⟩
      · rw [run_cons]; exact h1
      · rw [numTicks_cons]; simp only [numTicks, numTicksB]; omega
      · intro d hd
        simp only [delivered, List.mem_cons] at hd
        rcases hd with rfl | hd
        · rw [e1]
          show Bytes.WF (ca.cur :: Bytes.ofBE 7 (ks.send + 1))
          rw [Bytes.wf_cons]
          exact ⟨by have := hc.cur; omega, ofBE_wf _ _⟩
        · exact h5 d hd
    | tickA rr =>
      obtain ⟨pc', out, res, log, he, hcore, hun⟩ := tick_effect hop
      have hst : stepL env bodyOf ok s (.tickA rr) = { s with a := pc' } := by simp only [stepL, he, after]
      obtain ⟨sops, h1, h2, h3, h4, h5⟩ := ih (stepL env bodyOf ok s (.tickA rr)) room ca.everySecond cb
        (by rw [hst]; exact hun.trans hua) (by rw [hst]; exact hub) (by rw [hst]; show pc'.core = _; rw [hcore, hca]; rfl)
        (by rw [hst]; exact hcb) (coreSync_tickA hc) hroom hrest hlog
      exact ⟨sops, h1, h2, h3, h4, h5⟩
    | tickB rr =>
      obtain ⟨pc', out, res, log, he, hcore, hun⟩ := tick_effect hop
      have hst : stepL env bodyOf ok s (.tickB rr) = { s with b := pc' } := by simp only [stepL, he, after]
      obtain ⟨sops, h1, h2, h3, h4, h5⟩ := ih (stepL env bodyOf ok s (.tickB rr)) room ca cb.everySecond
        (by rw [hst]; exact hua) (by rw [hst]; exact hun.trans hub) (by rw [hst]; exact hca)
        (by rw [hst]; show pc'.core = _; rw [hcore, hcb]; rfl) (coreSync_tickB hc) hroom hrest hlog
      refine ⟨.tick :: sops, ?_, h2, ?_, h4, ?_⟩
      · rw [run_cons]; exact h1
      · rw [numTicks_cons]; simp only [numTicks, numTicksB]; omega
      · intro d hd
        simp only [delivered] at hd
        exact h5 d hd

/-- the datagram A's session puts on the wire for a message (`[]` if it cannot seal) -/
def wireOf (sa : PeerCrypto) (ty : Nat) (body ct : Bytes) : Bytes :=
  match (PeerCrypto.sendMessage sa ty body ct).2 with
  | .ok (bytes, _) => bytes
  | .error _ => []

/-- what is known after a send on an encrypted link in sync followed by a further history `more`: the datagram `d` of that send as B's
    core sees it, the state of the addressed slot of B's core before the send, and B's core at the end as a `C04Session` trace from
    the core that accepted `d` -/
theorem after_send_trace {room : Nat} {s : LSt} (hs : InSync (room + 1) s.a s.b) (henc : s.a.unencrypted = false)
    (ty : Nat) (body ct tail : Bytes) (rnd : Rand) (rr : RotRand) (more : List LOp) (hroom : numSends more ≤ room)
    (hok : RunOK env bodyOf ok s (.send ty body ct tail rnd rr :: more))
    (hlog : LogOK bodyOf (runL env bodyOf ok s (.send ty body ct tail rnd rr :: more)).log) :
    ∃ (ca cb : Core) (ks kr : SlotKey) (sops : List SOp) (rest : Bytes),
      ca.cur < 4 ∧ cb.slots[ca.cur]? = some kr ∧ kr.key = ks.key ∧ ks.send + 1 < NONCE_MOD ∧
      kr.min ≤ ks.send + 1 ∧ kr.nextMin ≤ ks.send + 1 ∧ kr.seen ≤ ks.send ∧
      wireOf s.a ty body ct = ca.cur :: rest ∧
      dgramOf bodyOf (ca.cur :: rest) =
        { hdr := ca.cur :: Bytes.ofBE 7 (ks.send + 1), body := .sealed ks.key (ks.send + 1) (ty :: body) } ∧
      (cb.decrypt { hdr := ca.cur :: Bytes.ofBE 7 (ks.send + 1), body := .sealed ks.key (ks.send + 1) (ty :: body) }).2 = .ok (ty :: body) ∧
      cb.reconstruct ((ks.send + 1) % 2 ^ 56) = ks.send + 1 ∧
      (runL env bodyOf ok s (.send ty body ct tail rnd rr :: more)).b.core =
        some (run (cb.decrypt { hdr := ca.cur :: Bytes.ofBE 7 (ks.send + 1), body := .sealed ks.key (ks.send + 1) (ty :: body) }).1 sops).1 ∧
      (runL env bodyOf ok s (.send ty body ct tail rnd rr :: more)).b.unencrypted = false ∧
      numTicks sops = numTicksB more ∧ rotatedKeys sops = [] ∧ DeliveredWF sops := by
  cases hs with
  | plain hua _ => rw [henc] at hua; cases hua
  | enc ca cb hua hub hca hcb hc =>
    obtain ⟨hop, hrest⟩ := hok
    have hl1 : LogOK bodyOf (stepL env bodyOf ok s (.send ty body ct tail rnd rr)).log :=
      fun e he => hlog e (runL_log_mono env bodyOf ok more _ e he)
    obtain ⟨hst, hdg, rest, hcons⟩ := stepL_send_enc env bodyOf ok hua hub hca hcb hc ty body ct tail rnd rr hop.1 hl1
    obtain ⟨ks, kr, _, hr, hkey, hlt, hmin, hnext, hseen, e1, _, hrec⟩ := coreSync_encrypt hc (ty :: body)
    obtain ⟨hdec, hsync⟩ := coreSync_send hc (ty :: body)
    obtain ⟨sops, h1, h2, h3, h4, h5⟩ := bcore_run env bodyOf ok more (stepL env bodyOf ok s (.send ty body ct tail rnd rr)) room _ _
      (by rw [hst]; exact hua) (by rw [hst]; exact hub) (by rw [hst]) (by rw [hst]) hsync hroom hrest hlog
    have hw : wireOf s.a ty body ct = ca.cur :: rest := by
      unfold wireOf
      rw [sendMessage_enc hua hca ty body ct]
      exact hcons
    rw [hcons, e1] at hdg
    rw [e1] at hdec h1
    exact ⟨ca, cb, ks, kr, sops, rest, hc.cur, hr, hkey, hlt, hmin, hnext, hseen, hw, hdg, hdec, hrec, h1, h2, h3, h4, h5⟩

end

/-! ## node level: one frame at A, its datagram at B -/

/-- `handle_interface_data` for a frame whose destination the table maps to peer `b` whose session seals it: the node afterwards (table
    with the cached decision, the session of `b` replaced by the one that sealed), the one datagram, and the seal log -/
theorem handleIface_exact (o : Oracle) (n : Node) (now : Int) (data : Bytes) (sa dst : Addr) (pid : PeerId) (b : NAddr) (pa : Peer)
    (pa' : PeerCrypto) (bytes : Bytes) (log : Init.SealLog)
    (hp : parseAddrs n data = some (sa, dst)) (hl : (n.table.lookup now dst).2 = some pid)
    (ha : (n.peers.map (·.1)).find? (fun x => addrId x = pid) = some b) (hpa : lookupA n.peers b = some pa)
    (hs : PeerCrypto.sendMessage pa.crypto Generated.MESSAGE_TYPE_DATA data (rndFor o { node := n } b).2.1.ct = (pa', .ok (bytes, log))) :
    (handleIface o n now data).node =
      { n with table := (n.table.lookup now dst).1, peers := insertA n.peers b { pa with crypto := pa' } } ∧
    (handleIface o n now data).outs = [.dgram b bytes] ∧ (handleIface o n now data).log = log := by
  rcases hlk : n.table.lookup now dst with ⟨tb, r⟩
  rw [hlk] at hl
  simp only [] at hl
  subst hl
  have hr : rndFor o { node := { n with table := tb } } b = rndFor o { node := n } b := rfl
  simp only [handleIface, hp, hlk, ha, sendMsg, hpa, hr, hs, Option.getD_some]
  exact ⟨rfl, rfl, rfl⟩

/-- `handle_net_message` for a datagram that the session of the established peer `src` opens as the DATA message `data`, with nothing to
    send back: all the node emits is the frame `data` on its interface (nothing if `data` does not parse as a frame / packet of
    the node's device type); in the node only the session of `src` (now the one that opened the datagram) and — when the node
    learns addresses — the table change -/
theorem handleNet_exact (env : CryptoEnv) (bodyOf : Init.BodyOf) (o : Oracle) (n : Node) (now : Int) (src : NAddr)
    (bytes tail data : Bytes) (pb : Peer) (pb' : PeerCrypto)
    (hpb : lookupA n.peers (mappedAddr src) = some pb)
    (hopen : PeerCrypto.handleMessage env bodyOf payloadOk pb.crypto bytes tail
        (rndFor o { node := n } (mappedAddr src)).1 (rndFor o { node := n } (mappedAddr src)).2.1 =
      .ok pb' [] (.message Generated.MESSAGE_TYPE_DATA data) []) :
    (handleNet env bodyOf o n now src bytes tail).1.outs = (if (parseAddrs n data).isSome = true then [Out.iface data] else []) ∧
    ∃ tb, (handleNet env bodyOf o n now src bytes tail).1.node =
      { n with peers := insertA n.peers (mappedAddr src) { pb with crypto := pb' }, table := tb } := by
  have hi : ¬ bytes.head? = some Generated.INIT_MESSAGE_FIRST_BYTE := fun hi =>
    handleMessage_init_not_message env bodyOf payloadOk pb.crypto bytes tail _ _ hi pb' [] _ data [] hopen
  have hst : storePc { node := n } (mappedAddr src) true pb' =
      { node := { n with peers := insertA n.peers (mappedAddr src) { pb with crypto := pb' } } } := by
    simp only [storePc, if_true, hpb]
  rw [handleNet_eq]
  simp only [dispatch, hpb, hi, decide_false, Bool.not_false, if_true]
  rw [hopen, applyOutcome_eq]
  simp only [handleResult, if_true, hst]
  have hpa : parseAddrs (addLog [] ({ node := { n with peers := insertA n.peers (mappedAddr src) { pb with crypto := pb' } } } : Ctx)).node data =
      parseAddrs n data := parseAddrs_congr _ _ _ rfl
  rw [hpa]
  cases parseAddrs n data with
  | none =>
    rw [finish_of_not_fatal _ _ _ (by simp)]
    exact ⟨rfl, n.table, rfl⟩
  | some r =>
    rcases r with ⟨sa, da⟩
    simp only [Option.isSome_some, if_true]
    split
    · rw [finish_of_not_fatal _ _ _ (by simp)]
      exact ⟨rfl, _, rfl⟩
    · rw [finish_of_not_fatal _ _ _ (by simp)]
      exact ⟨rfl, n.table, rfl⟩

/-! ## the two nodes as a system -/

/-- one frame read from A's interface, with the circumstances of its processing: the times at A and at B, the oracles (randomness of the
    step as observed from the implementation: `oA` supplies the ciphertext bytes of A's datagram), stale bytes behind the datagram in
    B's receive buffer -/
structure FrameEv where
  data : Bytes
  nowA : Int
  oA : Oracle
  nowB : Int
  oB : Oracle
  tail : Bytes

/-- node A (address `a`), node B (address `b`), everything A has emitted, everything B has emitted (datagrams and frames written to its
    interface), all genuine seals of A's steps -/
structure NSt where
  nA : Node
  nB : Node
  wire : List Out := []
  outB : List Out := []
  log : Init.SealLog := []

section
variable (env : CryptoEnv) (bodyOf : Init.BodyOf)

/-- the network: a datagram A emitted for address `b` is handed to node B (`handle_net_message`, sender address `a`) — once, at once;
    datagrams for other addresses do not reach B -/
def deliver (a b : NAddr) (ev : FrameEv) (st : Node × List Out) : Out → Node × List Out
  | .dgram d bytes =>
    if d = b then
      ((handleNet env bodyOf ev.oB st.1 ev.nowB a bytes ev.tail).1.node,
       st.2 ++ (handleNet env bodyOf ev.oB st.1 ev.nowB a bytes ev.tail).1.outs)
    else st
  | .iface _ => st

/-- one frame: `handle_interface_data` at A, then the network delivers what A emitted, in order -/
def stepN (a b : NAddr) (s : NSt) (ev : FrameEv) : NSt :=
  { nA := (handleIface ev.oA s.nA ev.nowA ev.data).node,
    nB := ((handleIface ev.oA s.nA ev.nowA ev.data).outs.foldl (deliver env bodyOf a b ev) (s.nB, s.outB)).1,
    wire := s.wire ++ (handleIface ev.oA s.nA ev.nowA ev.data).outs,
    outB := ((handleIface ev.oA s.nA ev.nowA ev.data).outs.foldl (deliver env bodyOf a b ev) (s.nB, s.outB)).2,
    log := s.log ++ (handleIface ev.oA s.nA ev.nowA ev.data).log }

/-- a whole list of frames -/
def runN (a b : NAddr) (s : NSt) : List FrameEv → NSt
  | [] => s
  | ev :: evs => runN a b (stepN env bodyOf a b s ev) evs

/-- the frame parses at A (as a frame / packet of A's device type) and A's table — in the state in which the frame is read — names
    `b` as next hop for its destination -/
def FrameOK (b : NAddr) (n : Node) (ev : FrameEv) : Prop :=
  ∃ sa dst, parseAddrs n ev.data = some (sa, dst) ∧ (n.table.lookup ev.nowA dst).2 = some (addrId b)

/-- … for every frame of the list, the table being carried along (`lookup` updates the cache) -/
def FramesOK (a b : NAddr) : NSt → List FrameEv → Prop
  | _, [] => True
  | s, ev :: evs => FrameOK b s.nA ev ∧ FramesOK a b (stepN env bodyOf a b s ev) evs

end

/-- the two nodes hold established sessions for each other's address that are in sync for the direction A → B (`InSync`), and `b` is
    the first of A's peer addresses with its table id (`emit_known`: the table names peers by id) -/
def NodeSync (room : Nat) (a b : NAddr) (nA nB : Node) : Prop :=
  (nA.peers.map (·.1)).find? (fun x => addrId x = addrId b) = some b ∧
  ∃ pa pb, lookupA nA.peers b = some pa ∧ lookupA nB.peers (mappedAddr a) = some pb ∧ InSync room pa.crypto pb.crypto

section
variable (env : CryptoEnv) (bodyOf : Init.BodyOf)

theorem stepN_log_mono (a b : NAddr) (s : NSt) (ev : FrameEv) : ∀ e ∈ s.log, e ∈ (stepN env bodyOf a b s ev).log :=
  fun _ he => List.mem_append_left _ he

theorem runN_log_mono (a b : NAddr) (evs : List FrameEv) : ∀ (s : NSt), ∀ e ∈ s.log, e ∈ (runN env bodyOf a b s evs).log := by
  induction evs with
  | nil => intro s e he; exact he
  | cons ev evs ih => intro s e he; exact ih _ e (stepN_log_mono env bodyOf a b s ev e he)

/-- **one frame**: A emits exactly one datagram, to `b`; B emits nothing but the frame on its interface (nothing if the frame does not
    parse at B); the nodes keep their configuration and stay in sync -/
theorem stepN_frame {room : Nat} (a b : NAddr) (s : NSt) (ev : FrameEv) (h : NodeSync (room + 1) a b s.nA s.nB)
    (hf : FrameOK b s.nA ev) (hlog : LogOK bodyOf (stepN env bodyOf a b s ev).log) :
    (∃ bytes, (stepN env bodyOf a b s ev).wire = s.wire ++ [.dgram b bytes]) ∧
    (stepN env bodyOf a b s ev).outB = s.outB ++ (if (parseAddrs s.nB ev.data).isSome = true then [Out.iface ev.data] else []) ∧
    NodeSync room a b (stepN env bodyOf a b s ev).nA (stepN env bodyOf a b s ev).nB ∧
    (stepN env bodyOf a b s ev).nA.cfg = s.nA.cfg ∧ (stepN env bodyOf a b s ev).nB.cfg = s.nB.cfg := by
  obtain ⟨hfind, pa, pb, hpa, hpb, hsync⟩ := h
  obtain ⟨sa, dst, hp, hl⟩ := hf
  obtain ⟨sa', bytes, log, hsm, himp⟩ := send_deliver env bodyOf payloadOk hsync Generated.MESSAGE_TYPE_DATA ev.data
    (rndFor ev.oA { node := s.nA } b).2.1.ct ev.tail (rndFor ev.oB { node := s.nB } (mappedAddr a)).1
    (rndFor ev.oB { node := s.nB } (mappedAddr a)).2.1 (by decide) (fun _ => by decide)
  obtain ⟨hnode, houts, hlg⟩ := handleIface_exact ev.oA s.nA ev.nowA ev.data sa dst (addrId b) b pa sa' bytes log hp hl hfind hpa hsm
  have hlog' : LogOK bodyOf log := by
    intro e he
    apply hlog e
    show e ∈ s.log ++ (handleIface ev.oA s.nA ev.nowA ev.data).log
    rw [hlg]
    exact List.mem_append_right _ he
  obtain ⟨sb', hrecv, hsync'⟩ := himp hlog'
  obtain ⟨hbo, tb, hbn⟩ := handleNet_exact env bodyOf ev.oB s.nB ev.nowB a bytes ev.tail ev.data pb sb' hpb hrecv
  have hA : (stepN env bodyOf a b s ev).nA =
      { s.nA with table := (s.nA.table.lookup ev.nowA dst).1, peers := insertA s.nA.peers b { pa with crypto := sa' } } := hnode
  have hB : (stepN env bodyOf a b s ev).nB =
      { s.nB with peers := insertA s.nB.peers (mappedAddr a) { pb with crypto := sb' }, table := tb } := by
    simp only [stepN, houts, List.foldl_cons, List.foldl_nil, deliver, if_true]
    exact hbn
  refine ⟨⟨bytes, by simp only [stepN, houts]⟩, ?_, ?_, by rw [hA], by rw [hB]⟩
  · simp only [stepN, houts, List.foldl_cons, List.foldl_nil, deliver, if_true]
    rw [hbo]
  · rw [hA, hB]
    refine ⟨?_, _, _, lookupA_insertA_self _ _ _, lookupA_insertA_self _ _ _, hsync'⟩
    show ((insertA s.nA.peers b { pa with crypto := sa' }).map (·.1)).find? _ = _
    rw [insertA_keys_of_some _ _ _ _ hpa]
    exact hfind

end

/-! ## a static sufficient condition for `RunOK` -/

open VpnCloud.Proofs.C07SessionLemmas in
/-- `every_second` of a session whose handshake object is gone or only waits to be dropped (`C07SessionLemmas.Quiet`) and in which no
    rotation falls due: it succeeds, emits nothing, the session stays quiet, and the rotate counter grows by at most one -/
theorem quiet_tickOK {pc : PeerCrypto} (hq : Quiet pc) (rr : RotRand)
    (hrot : pc.rot = none ∨ pc.rotateCounter + 1 < Generated.ROTATE_INTERVAL) :
    ∃ pc', PeerCrypto.everySecond pc rr = .ok pc' [] .none [] ∧ Quiet pc' ∧ pc'.rot = pc.rot ∧
      pc'.rotateCounter ≤ pc.rotateCounter + 1 := by
  rw [everySecond_eq]
  have h1 : ∃ pc1, tick1 pc = (pc1, .ok []) ∧ Quiet pc1 ∧ pc1.rot = pc.rot ∧ pc1.rotateCounter = pc.rotateCounter := by
    cases hi : pc.init with
    | none =>
      refine ⟨{ pc with core := pc.core.map Core.everySecond }, by unfold tick1; simp only [hi], ?_, rfl, rfl⟩
      intro ist hist
      rw [hi] at hist; cases hist
    | some ist =>
      obtain ⟨e1, e2⟩ := initEverySecond_quiet ist (hq ist hi)
      refine ⟨{ pc with core := pc.core.map Core.everySecond, init := some (Init.everySecond ist).1 },
        by unfold tick1; simp only [hi]; rw [← e1], ?_, rfl, rfl⟩
      intro ist' hist
      cases hist
      exact e2
  obtain ⟨pc1, ht1, hq1, hr1, hc1⟩ := h1
  rw [ht1]
  simp only [List.isEmpty_nil, Bool.not_true, Bool.false_eq_true, if_false]
  have hq2 : Quiet (tick2 pc1) := by
    intro ist hist
    simp only [tick2] at hist
    cases hi : pc1.init with
    | none => rw [hi] at hist; cases hist
    | some i =>
      rw [hi] at hist
      simp only [] at hist
      split at hist
      · cases hist
      · cases hist; exact hq1 _ hi
  unfold tickRot
  have hr2 : (tick2 pc1).rot = pc.rot := hr1
  have hc2 : (tick2 pc1).rotateCounter = pc.rotateCounter := hc1
  split
  · exact ⟨_, rfl, hq2, hr2, by rw [hc2]; omega⟩
  · rename_i sd hsd
    simp only []
    have hc : (tick2 pc1).rotateCounter + 1 < Generated.ROTATE_INTERVAL := by
      rcases hrot with hn | hlt
      · rw [hr2, hn] at hsd; cases hsd
      · rw [hc2]; exact hlt
    rw [if_pos hc]
    exact ⟨_, rfl, hq2, hr2, by show (tick2 pc1).rotateCounter + 1 ≤ _; rw [hc2]; omega⟩

/-- number of ticks at A in a history -/
def numTicksA : List LOp → Nat
  | [] => 0
  | .tickA _ :: ops => numTicksA ops + 1
  | .send _ _ _ _ _ _ :: ops => numTicksA ops
  | .tickB _ :: ops => numTicksA ops

section
open VpnCloud.Proofs.C07SessionLemmas
variable (env : CryptoEnv) (bodyOf : Init.BodyOf) (ok : Bytes → Bool)

/-- a send on a link in sync touches nothing of the two sessions but their cores -/
theorem stepL_send_frame {room : Nat} {s : LSt} (h : InSync (room + 1) s.a s.b) (ty : Nat) (body ct tail : Bytes) (rnd : Rand) (rr : RotRand)
    (hok : OpOK s (.send ty body ct tail rnd rr))
    (hlog : LogOK bodyOf (stepL env bodyOf ok s (.send ty body ct tail rnd rr)).log) :
    ((stepL env bodyOf ok s (.send ty body ct tail rnd rr)).a.init = s.a.init ∧
     (stepL env bodyOf ok s (.send ty body ct tail rnd rr)).a.rot = s.a.rot ∧
     (stepL env bodyOf ok s (.send ty body ct tail rnd rr)).a.rotateCounter = s.a.rotateCounter ∧
     (stepL env bodyOf ok s (.send ty body ct tail rnd rr)).a.unencrypted = s.a.unencrypted) ∧
    ((stepL env bodyOf ok s (.send ty body ct tail rnd rr)).b.init = s.b.init ∧
     (stepL env bodyOf ok s (.send ty body ct tail rnd rr)).b.rot = s.b.rot ∧
     (stepL env bodyOf ok s (.send ty body ct tail rnd rr)).b.rotateCounter = s.b.rotateCounter) := by
  obtain ⟨hty, hty'⟩ := hok
  cases h with
  | enc ca cb hua hub hca hcb hc =>
    obtain ⟨hst, _, _⟩ := stepL_send_enc env bodyOf ok hua hub hca hcb hc ty body ct tail rnd rr hty hlog
    rw [hst]
    exact ⟨⟨rfl, rfl, rfl, rfl⟩, rfl, rfl, rfl⟩
  | plain hua hub =>
    have hsm := sendMessage_plain hua ty body ct
    have hrecv := handleMessage_plain_ok env bodyOf ok hub ty body tail rnd rr hty (hty' hua)
    simp [stepL, hsm, hrecv, after]

/-- **a static sufficient condition for `RunOK`**: both sessions are quiet (handshake object gone or waiting to be dropped), at each end the
    rotate counter plus the number of that end's ticks in the history stays below `ROTATE_INTERVAL` (or the session has no rotation
    state), and every message of the history has a type other than ROTATION (and other than 255 if the link is unencrypted) -/
theorem runOK_of_quiet (ops : List LOp) : ∀ (s : LSt) (room : Nat), InSync room s.a s.b → numSends ops ≤ room →
    Quiet s.a → Quiet s.b →
    (s.a.rot = none ∨ s.a.rotateCounter + numTicksA ops < Generated.ROTATE_INTERVAL) →
    (s.b.rot = none ∨ s.b.rotateCounter + numTicksB ops < Generated.ROTATE_INTERVAL) →
    (∀ m ∈ sent ops, m.1 ≠ Generated.MESSAGE_TYPE_ROTATION ∧ (s.a.unencrypted = true → m.1 ≠ Generated.INIT_MESSAGE_FIRST_BYTE)) →
    LogOK bodyOf (runL env bodyOf ok s ops).log → RunOK env bodyOf ok s ops := by
  induction ops with
  | nil => intro _ _ _ _ _ _ _ _ _ _; trivial
  | cons op ops ih =>
    intro s room h hroom hqa hqb hra hrb hty hlog
    cases op with
    | send ty body ct tail rnd rr =>
      have hroom' : numSends ops + 1 ≤ room := hroom
      obtain ⟨room', rfl⟩ : ∃ r, room = r + 1 := ⟨room - 1, by omega⟩
      have hop : OpOK s (.send ty body ct tail rnd rr) := hty (ty, body) (by simp [sent])
      have hl1 : LogOK bodyOf (stepL env bodyOf ok s (.send ty body ct tail rnd rr)).log :=
        fun e he => hlog e (runL_log_mono env bodyOf ok ops _ e he)
      obtain ⟨⟨a1, a2, a3, a4⟩, b1, b2, b3⟩ := stepL_send_frame env bodyOf ok h ty body ct tail rnd rr hop hl1
      obtain ⟨_, _, s1⟩ := stepL_send env bodyOf ok h ty body ct tail rnd rr hop hl1
      refine ⟨hop, ih _ room' s1 (by omega) ?_ ?_ ?_ ?_ ?_ hlog⟩
      · intro ist hi; rw [a1] at hi; exact hqa ist hi
      · intro ist hi; rw [b1] at hi; exact hqb ist hi
      · rw [a2, a3]; exact hra
      · rw [b2, b3]; exact hrb
      · intro m hm
        rw [a4]
        exact hty m (by simp [sent, hm])
    | tickA rr =>
      have hra1 : s.a.rot = none ∨ s.a.rotateCounter + 1 < Generated.ROTATE_INTERVAL := by
        rcases hra with h0 | h0
        · exact Or.inl h0
        · simp only [numTicksA] at h0; exact Or.inr (by omega)
      obtain ⟨pc', he, hq', hr', hc'⟩ := quiet_tickOK hqa rr hra1
      have hop : TickOK s.a rr := ⟨hra1, _, _, _, _, he⟩
      obtain ⟨_, _, _, _, he2, _, hun⟩ := tick_effect hop
      have hst : stepL env bodyOf ok s (.tickA rr) = { s with a := pc' } := by simp only [stepL, he, after]
      have hun' : pc'.unencrypted = s.a.unencrypted := by
        rw [he] at he2; cases he2; exact hun
      refine ⟨hop, ih _ room (stepL_tickA env bodyOf ok h rr hop) hroom ?_ ?_ ?_ ?_ ?_ hlog⟩
      · rw [hst]; exact hq'
      · rw [hst]; exact hqb
      · rw [hst]
        show pc'.rot = none ∨ pc'.rotateCounter + numTicksA ops < Generated.ROTATE_INTERVAL
        rcases hra with h0 | h0
        · exact Or.inl (hr'.trans h0)
        · simp only [numTicksA] at h0; exact Or.inr (by omega)
      · rw [hst]; exact hrb
      · intro m hm
        rw [hst]
        show _ ∧ (pc'.unencrypted = true → _)
        rw [hun']
        exact hty m hm
    | tickB rr =>
      have hrb1 : s.b.rot = none ∨ s.b.rotateCounter + 1 < Generated.ROTATE_INTERVAL := by
        rcases hrb with h0 | h0
        · exact Or.inl h0
        · simp only [numTicksB] at h0; exact Or.inr (by omega)
      obtain ⟨pc', he, hq', hr', hc'⟩ := quiet_tickOK hqb rr hrb1
      have hop : TickOK s.b rr := ⟨hrb1, _, _, _, _, he⟩
      have hst : stepL env bodyOf ok s (.tickB rr) = { s with b := pc' } := by simp only [stepL, he, after]
      refine ⟨hop, ih _ room (stepL_tickB env bodyOf ok h rr hop) hroom ?_ ?_ ?_ ?_ ?_ hlog⟩
      · rw [hst]; exact hqa
      · rw [hst]; exact hq'
      · rw [hst]; exact hra
      · rw [hst]
        show pc'.rot = none ∨ pc'.rotateCounter + numTicksB ops < Generated.ROTATE_INTERVAL
        rcases hrb with h0 | h0
        · exact Or.inl (hr'.trans h0)
        · simp only [numTicksB] at h0; exact Or.inr (by omega)
      · intro m hm
        rw [hst]
        exact hty m hm

end

end VpnCloud.Proofs.C10NetLemmas
