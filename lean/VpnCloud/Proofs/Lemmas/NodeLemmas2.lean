import VpnCloud.Model.Node
import VpnCloud.Proofs.Lemmas.NodeLemmas
/-
  More helper lemmas about the node model (`Model/Node.lean`), for the node-level theorems of
  C01 / C11 / C15: membership in association lists after `insertA` / `eraseA`, how many datagrams
  `send_msg` / `broadcast_msg` emit, the peer list under `housekeep`, and the keys of the peer list
  under `handle_net_message`.
-/
namespace VpnCloud.Proofs.NodeLemmas2

open VpnCloud VpnCloud.Node
open VpnCloud.Proofs.NodeLemmas

/-! ## association lists -/

theorem mem_eraseA {α} {l : List (NAddr × α)} {a : NAddr} {x : NAddr × α} (h : x ∈ eraseA l a) : x ∈ l ∧ x.1 ≠ a := by
  unfold eraseA at h
  rw [List.mem_filter] at h
  exact ⟨h.1, by simpa using h.2⟩

theorem mem_insertA {α} {l : List (NAddr × α)} {a : NAddr} {v : α} {x : NAddr × α} (h : x ∈ insertA l a v) : x = (a, v) ∨ x ∈ l := by
  unfold insertA at h
  split at h
  · rcases List.mem_map.1 h with ⟨y, hy, rfl⟩
    by_cases hya : y.1 = a
    · rw [if_pos hya]; exact Or.inl rfl
    · rw [if_neg hya]; exact Or.inr hy
  · rcases List.mem_append.1 h with h | h
    · exact Or.inr h
    · exact Or.inl (by simpa using h)

theorem key_mem_eraseA {α} {l : List (NAddr × α)} {a b : NAddr} (h : b ∈ (eraseA l a).map (·.1)) : b ∈ l.map (·.1) := by
  rcases List.mem_map.1 h with ⟨x, hx, rfl⟩
  exact List.mem_map.2 ⟨x, (mem_eraseA hx).1, rfl⟩

theorem key_mem_insertA {α} {l : List (NAddr × α)} {a b : NAddr} {v : α} (h : b ∈ (insertA l a v).map (·.1)) : b = a ∨ b ∈ l.map (·.1) := by
  rcases List.mem_map.1 h with ⟨x, hx, rfl⟩
  rcases mem_insertA hx with rfl | hx
  · exact Or.inl rfl
  · exact Or.inr (List.mem_map.2 ⟨x, hx, rfl⟩)

/-! ## generic fold lemma -/

theorem foldl_inv {β} (P : Ctx → Prop) (f : Ctx → β → Ctx) (hf : ∀ c x, P c → P (f c x)) :
    ∀ (l : List β) (c : Ctx), P c → P (l.foldl f c)
  | [], _, h => h
  | x :: l, c, h => foldl_inv P f hf l (f c x) (hf c x h)

/-! ## `send_msg` / `broadcast_msg`: number of datagrams, drop counter -/

/-- `send_msg` emits at most one datagram and does not touch the drop counter -/
theorem sendMsg_len (o : Oracle) (c : Ctx) (a : NAddr) (ty : Nat) (body : Bytes) :
    ((sendMsg o c a ty body).getD c).outs.length ≤ c.outs.length + 1 ∧
    ((sendMsg o c a ty body).getD c).node.droppedOut = c.node.droppedOut := by
  unfold sendMsg
  split
  · exact ⟨Nat.le_succ _, rfl⟩
  · simp only []
    split
    · simp only [Option.getD_some, send_outs, addLog_outs, send_node, addLog_node, List.length_append, List.length_singleton]
      exact ⟨Nat.le_refl _, by first | rfl | trivial⟩
    · exact ⟨Nat.le_succ _, rfl⟩

theorem foldl_sendMsg_len (o : Oracle) (ty : Nat) (body : Bytes) :
    ∀ (l : List NAddr) (c : Ctx),
      (l.foldl (fun c a => (sendMsg o c a ty body).getD c) c).outs.length ≤ c.outs.length + l.length ∧
      (l.foldl (fun c a => (sendMsg o c a ty body).getD c) c).node.droppedOut = c.node.droppedOut
  | [], c => ⟨Nat.le_refl _, rfl⟩
  | a :: l, c => by
    have h1 := sendMsg_len o c a ty body
    have h2 := foldl_sendMsg_len o ty body l ((sendMsg o c a ty body).getD c)
    simp only [List.foldl_cons, List.length_cons]
    refine ⟨?_, h2.2.trans h1.2⟩
    have := h2.1
    have := h1.1
    omega

/-- `broadcast_msg`: at most one copy per peer, drop counter untouched -/
theorem broadcastMsg_len (o : Oracle) (c : Ctx) (ty : Nat) (body : Bytes) :
    (broadcastMsg o c ty body).outs.length ≤ c.outs.length + c.node.peers.length ∧
    (broadcastMsg o c ty body).node.droppedOut = c.node.droppedOut := by
  have h := foldl_sendMsg_len o ty body (c.node.peers.map (·.1)) c
  rw [List.length_map] at h
  exact h

/-! ## the peer list under `housekeep` -/

/-- every entry of `l` stems from an entry of `l0` under the same address with the same expiry -/
def Kept (l0 l : List (NAddr × Peer)) : Prop := ∀ a p, (a, p) ∈ l → ∃ p0, (a, p0) ∈ l0 ∧ p.timeout = p0.timeout

theorem Kept.eraseA {l0 l : List (NAddr × Peer)} (h : Kept l0 l) (a : NAddr) : Kept l0 (eraseA l a) :=
  fun b p hb => h b p (mem_eraseA hb).1

/-- replacing the session object of a stored peer -/
theorem Kept.insertA {l0 l : List (NAddr × Peer)} (h : Kept l0 l) {a : NAddr} {p v : Peer} (hp : lookupA l a = some p)
    (hv : v.timeout = p.timeout) : Kept l0 (insertA l a v) := by
  intro b q hq
  rcases mem_insertA hq with heq | hq
  · cases heq
    obtain ⟨p0, h0, ht⟩ := h a p (lookupA_some_mem hp)
    exact ⟨p0, h0, hv.trans ht⟩
  · exact h b q hq

def KeptC (l0 : List (NAddr × Peer)) (c : Ctx) : Prop := Kept l0 c.node.peers

theorem connectSock_keptC (env : CryptoEnv) (o : Oracle) (l0 : List (NAddr × Peer)) (c : Ctx) (a : NAddr) (h : KeptC l0 c) :
    KeptC l0 (connectSock env o c a) := by
  unfold KeptC; rw [connectSock_peers]; exact h

theorem connect_keptC (env : CryptoEnv) (o : Oracle) (l0 : List (NAddr × Peer)) (c : Ctx) (l : List NAddr) (h : KeptC l0 c) :
    KeptC l0 (connect env o c l) := by
  unfold KeptC; rw [connect_peers]; exact h

theorem sendMsg_keptC (o : Oracle) (l0 : List (NAddr × Peer)) (c : Ctx) (a : NAddr) (ty : Nat) (body : Bytes) (h : KeptC l0 c) :
    KeptC l0 ((sendMsg o c a ty body).getD c) := by
  unfold sendMsg
  split
  · exact h
  · rename_i p hp
    simp only []
    split
    · simp only [Option.getD_some]
      unfold KeptC
      simp only [send_node, addLog_node]
      exact Kept.insertA h hp rfl
    · exact h

theorem broadcastMsg_keptC (o : Oracle) (l0 : List (NAddr × Peer)) (c : Ctx) (ty : Nat) (body : Bytes) (h : KeptC l0 c) :
    KeptC l0 (broadcastMsg o c ty body) := by
  unfold broadcastMsg
  exact foldl_inv (KeptC l0) _ (fun c a hc => sendMsg_keptC o l0 c a ty body hc) _ _ h

theorem cryptoHousekeep_keptC (env : CryptoEnv) (o : Oracle) (l0 : List (NAddr × Peer)) (c : Ctx) (now : Int) (h : KeptC l0 c) :
    KeptC l0 (cryptoHousekeep env o c now) := by
  unfold cryptoHousekeep
  apply foldl_inv (KeptC l0)
  · intro c a hc
    split
    · exact hc
    · rename_i p hp
      split
      split
      · apply connectSock_keptC
        exact Kept.eraseA hc a
      · exact hc
      · rename_i pc' out res log _
        have hins : KeptC l0 (addLog log { c with node := { c.node with peers := insertA c.node.peers a { p with crypto := pc' } } }) :=
          Kept.insertA hc hp rfl
        split
        · exact hins
        · exact hins
  · apply foldl_inv (KeptC l0)
    · intro c a hc
      split
      · exact hc
      · split
        split
        · exact hc
        · exact hc
        · split
          · exact hc
          · exact hc
    · exact h

theorem reconnectToPeers_peers (env : CryptoEnv) (o : Oracle) (c : Ctx) (now : Int) :
    (reconnectToPeers env o c now).node.peers = c.node.peers := by
  unfold reconnectToPeers
  simp only []
  apply foldl_peers
  intro c e
  split
  · rfl
  · exact connect_peers env o c _

/-- the first loop of `housekeep`: what is left was there before and is not among the removed addresses -/
theorem mem_foldl_dead (env : CryptoEnv) (o : Oracle) (now : Int) (a : NAddr) (p : Peer) :
    ∀ (dead : List NAddr) (c : Ctx),
      (a, p) ∈ (dead.foldl (fun c a =>
        connectSock env o { c with node := { c.node with peers := eraseA c.node.peers a, table := c.node.table.removeClaims now (addrId a) } } a) c).node.peers →
      (a, p) ∈ c.node.peers ∧ a ∉ dead
  | [], _, h => ⟨h, by simp⟩
  | d :: ds, c, h => by
    simp only [List.foldl_cons] at h
    have ih := mem_foldl_dead env o now a p ds _ h
    rw [connectSock_peers] at ih
    have h1 := mem_eraseA ih.1
    refine ⟨h1.1, ?_⟩
    intro hmem
    rcases List.mem_cons.1 hmem with heq | hmem
    · exact h1.2 heq
    · exact ih.2 hmem

/-- the peers of `n` whose expiry has not passed at `now` -/
def alive (n : Node) (now : Int) : List (NAddr × Peer) := n.peers.filter (fun x => !decide (x.2.timeout < now))

theorem housekeep_keptC (env : CryptoEnv) (o : Oracle) (n : Node) (now : Int) : KeptC (alive n now) (housekeep env o n now) := by
  unfold housekeep
  simp only []
  -- the last step: reset of the own addresses
  have hown : ∀ c5 : Ctx, KeptC (alive n now) c5 →
      KeptC (alive n now) (if Generated.ownResetDue c5.node.nextOwnReset now then
        { c5 with node := { c5.node with own := c5.node.cfg.advertise ++ [c5.node.addr], nextOwnReset := now + 300 } } else c5) := by
    intro c5 h5
    split
    · exact h5
    · exact h5
  apply hown
  unfold KeptC
  rw [reconnectToPeers_peers]
  -- announcement
  have hann : ∀ c3 : Ctx, KeptC (alive n now) c3 →
      KeptC (alive n now) (if Generated.announceDue c3.node.nextPeers now then
        match announceInterval (broadcastMsg o c3 Generated.MESSAGE_TYPE_NODE_INFO (Codec.encodeNodeInfo (createNodeInfo c3.node))).node.cfg.updateFreq
            (((broadcastMsg o c3 Generated.MESSAGE_TYPE_NODE_INFO (Codec.encodeNodeInfo (createNodeInfo c3.node))).node.peers.map (fun (_, p) => p.peerTimeout)).foldl min
              (if (broadcastMsg o c3 Generated.MESSAGE_TYPE_NODE_INFO (Codec.encodeNodeInfo (createNodeInfo c3.node))).node.peers.isEmpty then Generated.DEFAULT_PEER_TIMEOUT else 65535)) with
        | some d => { broadcastMsg o c3 Generated.MESSAGE_TYPE_NODE_INFO (Codec.encodeNodeInfo (createNodeInfo c3.node)) with
            node := { (broadcastMsg o c3 Generated.MESSAGE_TYPE_NODE_INFO (Codec.encodeNodeInfo (createNodeInfo c3.node))).node with nextPeers := now + d } }
        | none => { broadcastMsg o c3 Generated.MESSAGE_TYPE_NODE_INFO (Codec.encodeNodeInfo (createNodeInfo c3.node)) with panicked := true }
      else c3) := by
    intro c3 h3
    have hb := broadcastMsg_keptC o (alive n now) c3 Generated.MESSAGE_TYPE_NODE_INFO (Codec.encodeNodeInfo (createNodeInfo c3.node)) h3
    split
    · split
      · exact hb
      · exact hb
    · exact h3
  apply hann
  apply cryptoHousekeep_keptC
  -- the first loop
  intro a p hmem
  have h1 := mem_foldl_dead env o now a p _ _ hmem
  refine ⟨p, ?_, rfl⟩
  unfold alive
  rw [List.mem_filter]
  refine ⟨h1.1, ?_⟩
  simp only [Bool.not_eq_true', decide_eq_false_iff_not]
  intro hlt
  apply h1.2
  refine List.mem_map.2 ⟨(a, p), ?_, rfl⟩
  rw [List.mem_filter]
  exact ⟨h1.1, by simpa using hlt⟩

/-! ## the keys of the peer list under `handle_net_message` -/

/-- every peer address of `c` is a peer address of `l0`, or `s` -/
def KeysSub (l0 : List (NAddr × Peer)) (s : NAddr) (c : Ctx) : Prop :=
  ∀ a, a ∈ c.node.peers.map (·.1) → a ∈ l0.map (·.1) ∨ a = s

theorem KeysSub.of_keys_eq {l0 : List (NAddr × Peer)} {s : NAddr} {c c' : Ctx} (h : KeysSub l0 s c)
    (hk : c'.node.peers.map (·.1) = c.node.peers.map (·.1)) : KeysSub l0 s c' := by
  intro a ha; rw [hk] at ha; exact h a ha

theorem updatePeerInfo_keys (env : CryptoEnv) (o : Oracle) (c : Ctx) (now : Int) (a : NAddr) (info : Option NodeInfo) :
    (updatePeerInfo env o c now a info).node.peers.map (·.1) = c.node.peers.map (·.1) := by
  unfold updatePeerInfo
  simp only []
  split
  · rfl
  · rename_i p hp
    cases info with
    | none => exact insertA_keys_of_some _ _ _ _ hp
    | some i =>
      simp only []
      rw [connectToPeers_peers]
      exact insertA_keys_of_some _ _ _ _ hp

theorem addNewPeer_keysSub (env : CryptoEnv) (o : Oracle) (l0 : List (NAddr × Peer)) (c : Ctx) (now : Int) (s : NAddr) (info : NodeInfo)
    (h : KeysSub l0 s c) : KeysSub l0 s (addNewPeer env o c now s info) := by
  unfold addNewPeer
  simp only []
  split
  · exact h
  · intro a ha
    rw [updatePeerInfo_keys] at ha
    rcases key_mem_insertA ha with rfl | ha
    · exact Or.inr rfl
    · exact h a ha

theorem removePeer_keysSub (l0 : List (NAddr × Peer)) (c : Ctx) (now : Int) (s b : NAddr)
    (h : KeysSub l0 s c) : KeysSub l0 s (removePeer c now b) := by
  unfold removePeer
  simp only []
  split
  · exact h
  · intro a ha
    exact h a (key_mem_eraseA ha)

theorem handleResult_keysSub (env : CryptoEnv) (o : Oracle) (l0 : List (NAddr × Peer)) (c : Ctx) (now : Int) (s : NAddr) (res : MsgResult) (out : Bytes)
    (h : KeysSub l0 s c) : KeysSub l0 s (handleResult env o c now s res out).1 := by
  unfold handleResult
  cases res with
  | message ty data =>
    simp only []
    split
    · split
      · exact h
      · split
        · exact h
        · exact h
    · split
      · split
        · exact h
        · exact h.of_keys_eq (updatePeerInfo_keys ..)
      · split
        · exact h.of_keys_eq (updatePeerInfo_keys ..)
        · split
          · exact removePeer_keysSub l0 c now s s h
          · exact h
  | initialized payload =>
    simp only []
    split
    · exact addNewPeer_keysSub env o l0 c now s _ h
    · exact h
  | initializedWithReply payload =>
    simp only []
    split
    · exact addNewPeer_keysSub env o l0 c now s _ h
    · exact h
  | reply => exact h
  | none => exact h

theorem applyOutcome_keysSub (env : CryptoEnv) (o : Oracle) (l0 : List (NAddr × Peer)) (c : Ctx) (now : Int) (s : NAddr) (inPeers : Bool)
    (r : POutcome MsgResult) (h : KeysSub l0 s c) : KeysSub l0 s (applyOutcome env o c now s inPeers r).1 := by
  unfold applyOutcome
  have hstore : ∀ pc, KeysSub l0 s (if inPeers = true then
        match lookupA c.node.peers s with
        | some p => { c with node := { c.node with peers := insertA c.node.peers s { p with crypto := pc } } }
        | none => c
      else { c with node := { c.node with pending := insertA c.node.pending s pc } }) := by
    intro pc
    split
    · split
      · rename_i p hp
        exact h.of_keys_eq (insertA_keys_of_some _ _ _ _ hp)
      · exact h
    · exact h
  cases r with
  | panic => exact h
  | err pc e => exact hstore pc
  | ok pc out res log =>
    simp only []
    apply handleResult_keysSub
    exact hstore pc

theorem responder_keysSub (env : CryptoEnv) (bodyOf : Init.BodyOf) (o : Oracle) (n : Node) (now : Int) (s : NAddr) (data tail : Bytes)
    (rnd : Rand) (rr : RotRand) (hash : Option Bytes) :
    KeysSub n.peers s (responder env bodyOf o n now s data tail rnd rr hash).1 := by
  have h0 : ∀ q, KeysSub n.peers s { node := { n with pending := q } } := fun q a ha => Or.inl ha
  unfold responder
  simp only []
  split
  · apply handleResult_keysSub
    exact h0 _
  · exact h0 n.pending
  · exact h0 n.pending

theorem dispatch_keysSub (env : CryptoEnv) (bodyOf : Init.BodyOf) (o : Oracle) (n : Node) (now : Int) (s : NAddr) (data tail : Bytes) :
    KeysSub n.peers s (dispatch env bodyOf o n now s data tail).1 := by
  have h0 : KeysSub n.peers s { node := n } := fun a ha => Or.inl ha
  unfold dispatch
  simp only []
  split
  · split
    · exact applyOutcome_keysSub env o _ _ now s _ _ h0
    · split
      · exact applyOutcome_keysSub env o _ _ now s _ _ h0
      · split
        · exact applyOutcome_keysSub env o _ _ now s _ _ h0
        · exact responder_keysSub env bodyOf o n now s data tail _ _ _
  · exact applyOutcome_keysSub env o _ _ now s _ _ h0
  · split
    · exact responder_keysSub env bodyOf o n now s data tail _ _ _
    · exact h0

theorem handleNet_keysSub (env : CryptoEnv) (bodyOf : Init.BodyOf) (o : Oracle) (n : Node) (now : Int) (src0 : NAddr) (data tail : Bytes) :
    KeysSub n.peers (mappedAddr src0) (handleNet env bodyOf o n now src0 data tail).1 := by
  rw [handleNet_eq]
  exact (dispatch_keysSub env bodyOf o n now (mappedAddr src0) data tail).of_keys_eq (by rw [finish_peers])

end VpnCloud.Proofs.NodeLemmas2
