import VpnCloud.Proofs.Lemmas.TableRefineSpec
import VpnCloud.Proofs.Lemmas.TableLemmas
/-
  Helper lemmas for `Proofs/TableRefine.lean`.
-/
namespace VpnCloud.Proofs.TableRefine
open VpnCloud VpnCloud.Table VpnCloud.Proofs.TableLemmas

/-! ### `CEq` -/

theorem CEq.refl : ∀ l, CEq l l
  | [] => .nil
  | x :: l => .cons x (CEq.refl l)

theorem CEq.symm {a b} (h : CEq a b) : CEq b a := by
  induction h with
  | nil => exact .nil
  | cons x _ ih => exact .cons x ih
  | swap x y l hp ht => exact .swap y x l hp.symm ht.symm
  | trans _ _ ih1 ih2 => exact .trans ih2 ih1

theorem CEq.perm {a b} (h : CEq a b) : a.Perm b := by
  induction h with
  | nil => exact .nil
  | cons x _ ih => exact .cons x ih
  | swap x y l _ _ => exact .swap x y l
  | trans _ _ ih1 ih2 => exact ih1.trans ih2

theorem CEq.mem_iff {a b} (h : CEq a b) (x : ClaimEntry) : x ∈ a ↔ x ∈ b := h.perm.mem_iff

theorem CEq.filter (f : ClaimEntry → Bool) {a b} (h : CEq a b) : CEq (a.filter f) (b.filter f) := by
  induction h with
  | nil => exact .nil
  | cons x _ ih =>
    simp only [List.filter_cons]
    split
    · exact .cons x ih
    · exact ih
  | swap x y l hp ht =>
    simp only [List.filter_cons]
    by_cases hx : f x = true <;> by_cases hy : f y = true <;> simp only [hx, hy, if_true]
    · exact .swap x y _ hp ht
    all_goals exact CEq.refl _
  | trans _ _ ih1 ih2 => exact ih1.trans ih2

theorem CEq.map (g : ClaimEntry → ClaimEntry)
    (hg : ∀ x y : ClaimEntry, x.peer = y.peer → x.timeout = y.timeout →
      (g x).peer = (g y).peer ∧ (g x).timeout = (g y).timeout)
    {a b} (h : CEq a b) : CEq (a.map g) (b.map g) := by
  induction h with
  | nil => exact .nil
  | cons x _ ih => exact .cons (g x) ih
  | swap x y l hp ht => exact .swap (g x) (g y) _ (hg x y hp ht).1 (hg x y hp ht).2
  | trans _ _ ih1 ih2 => exact ih1.trans ih2

theorem CEq.append_right {a b} (h : CEq a b) (m : List ClaimEntry) : CEq (a ++ m) (b ++ m) := by
  induction h with
  | nil => exact CEq.refl _
  | cons x _ ih => exact .cons x ih
  | swap x y l hp ht => exact .swap x y _ hp ht
  | trans _ _ ih1 ih2 => exact ih1.trans ih2

theorem CEq.append_left (l : List ClaimEntry) {a b} (h : CEq a b) : CEq (l ++ a) (l ++ b) := by
  induction l with
  | nil => exact h
  | cons x _ ih => exact .cons x ih

theorem CEq.append {a b c d} (h1 : CEq a b) (h2 : CEq c d) : CEq (a ++ c) (b ++ d) :=
  (h1.append_right c).trans (CEq.append_left b h2)

/-- permuting a block of entries of one peer with one expiry -/
theorem CEq.of_perm (p : PeerId) (fresh : Int) {l l' : List Range} (h : l.Perm l') :
    CEq (l.map (fun c => ({ peer := p, claim := c, timeout := fresh } : ClaimEntry)))
      (l'.map (fun c => ({ peer := p, claim := c, timeout := fresh } : ClaimEntry))) := by
  induction h with
  | nil => exact .nil
  | cons x _ ih => exact .cons _ ih
  | swap x y l => exact .swap _ _ _ rfl rfl
  | trans _ _ ih1 ih2 => exact ih1.trans ih2

/-! ### `swap_remove` removes one occurrence -/

theorem swapRemove_perm {α} [DecidableEq α] {l : List α} {pos : Nat} {x : α} (h : l[pos]? = some x) :
    (x :: swapRemove l pos).Perm l := by
  rcases List.eq_nil_or_concat l with rfl | ⟨d, last, rfl⟩
  · simp at h
  · rw [List.concat_eq_append] at h ⊢
    simp only [swapRemove, List.getLast?_concat, List.length_append, List.length_cons,
      List.length_nil, Nat.zero_add, Nat.add_right_cancel_iff]
    by_cases hp : pos = d.length
    · subst hp
      simp only [if_true, List.dropLast_concat]
      have : x = last := by simpa using h.symm
      subst this
      exact (List.perm_append_singleton x d).symm
    · have hlt : pos < d.length := by
        have := (List.getElem?_eq_some_iff.1 h).1
        simp at this
        omega
      simp only [hp, if_false, List.set_append, hlt, if_true, List.dropLast_concat]
      have hx : d[pos] = x := by
        have := h
        rw [List.getElem?_append_left hlt] at this
        simpa [hlt] using this
      have e1 : d = d.take pos ++ x :: d.drop (pos + 1) := by
        rw [← hx]; simp
      have e2 : d.set pos last = d.take pos ++ last :: d.drop (pos + 1) := by
        rw [List.set_eq_take_append_cons_drop]; simp [hlt]
      rw [e2]
      conv => rhs; rw [e1]
      simp only [List.append_assoc, List.cons_append]
      refine (List.Perm.cons x ?_).trans List.perm_middle.symm
      exact List.Perm.append_left _ (List.perm_append_singleton last _).symm

theorem swapRemove_perm_erase {cs cs' : List Range} {pos : Nat} {x : Range} (h : cs[pos]? = some x)
    (hp : cs.Perm cs') : (swapRemove cs pos).Perm (cs'.erase x) := by
  have h1 := swapRemove_perm h
  have hx : x ∈ cs' := hp.mem_iff.1 (List.mem_of_getElem? h)
  have h2 := List.perm_cons_erase hx
  exact List.Perm.cons_inv (h1.trans (hp.trans h2))

/-! ### `refresh` -/

section Refresh
variable (p : PeerId) (fresh : Int)

theorem refresh_other {e : ClaimEntry} (h : e.peer ≠ p) (es : List ClaimEntry) (cs : List Range) :
    refresh p fresh (e :: es) cs =
      (e :: (refresh p fresh es cs).1, (refresh p fresh es cs).2.1, (refresh p fresh es cs).2.2) := by
  simp only [refresh, h, ne_eq, not_false_eq_true, if_true]

theorem refresh_keep {e : ClaimEntry} (h : e.peer = p) {cs : List Range} (hm : e.claim ∈ cs)
    (es : List ClaimEntry) :
    refresh p fresh (e :: es) cs =
      ({ e with timeout := fresh } :: (refresh p fresh es (cs.erase e.claim)).1,
        (refresh p fresh es (cs.erase e.claim)).2.1, (refresh p fresh es (cs.erase e.claim)).2.2) := by
  simp only [refresh, h, ne_eq, not_true_eq_false, if_false, hm, if_true]

theorem refresh_drop {e : ClaimEntry} (h : e.peer = p) {cs : List Range} (hm : e.claim ∉ cs)
    (es : List ClaimEntry) :
    refresh p fresh (e :: es) cs = ((refresh p fresh es cs).1, (refresh p fresh es cs).2.1, true) := by
  simp only [refresh, h, ne_eq, not_true_eq_false, if_false, hm]

/-- `refresh` depends on the announcement only as a multiset -/
theorem refresh_perm (es : List ClaimEntry) {cs cs' : List Range} (h : cs.Perm cs') :
    (refresh p fresh es cs).1 = (refresh p fresh es cs').1 ∧
    ((refresh p fresh es cs).2.1).Perm (refresh p fresh es cs').2.1 ∧
    (refresh p fresh es cs).2.2 = (refresh p fresh es cs').2.2 := by
  induction es generalizing cs cs' with
  | nil => exact ⟨rfl, h, rfl⟩
  | cons e es ih =>
    by_cases hp : e.peer = p
    · by_cases hm : e.claim ∈ cs
      · have hm' : e.claim ∈ cs' := h.mem_iff.1 hm
        rw [refresh_keep p fresh hp hm, refresh_keep p fresh hp hm']
        have := ih (h.erase e.claim)
        exact ⟨by rw [this.1], this.2.1, this.2.2⟩
      · have hm' : e.claim ∉ cs' := fun x => hm (h.mem_iff.2 x)
        rw [refresh_drop p fresh hp hm, refresh_drop p fresh hp hm']
        have := ih h
        exact ⟨this.1, this.2.1, rfl⟩
    · rw [refresh_other p fresh hp, refresh_other p fresh hp]
      have := ih h
      exact ⟨by rw [this.1], this.2.1, this.2.2⟩

/-- `refresh` respects the equivalence of claim lists -/
theorem refresh_ceq {es es' : List ClaimEntry} (he : CEq es es') :
    ∀ {cs cs' : List Range}, cs.Perm cs' →
    CEq (refresh p fresh es cs).1 (refresh p fresh es' cs').1 ∧
    ((refresh p fresh es cs).2.1).Perm (refresh p fresh es' cs').2.1 ∧
    (refresh p fresh es cs).2.2 = (refresh p fresh es' cs').2.2 := by
  induction he with
  | nil => intro cs cs' h; exact ⟨.nil, h, rfl⟩
  | cons e _ ih =>
    intro cs cs' h
    by_cases hp : e.peer = p
    · by_cases hm : e.claim ∈ cs
      · have hm' : e.claim ∈ cs' := h.mem_iff.1 hm
        rw [refresh_keep p fresh hp hm, refresh_keep p fresh hp hm']
        have := ih (h.erase e.claim)
        exact ⟨.cons _ this.1, this.2.1, this.2.2⟩
      · have hm' : e.claim ∉ cs' := fun x => hm (h.mem_iff.2 x)
        rw [refresh_drop p fresh hp hm, refresh_drop p fresh hp hm']
        have := ih h
        exact ⟨this.1, this.2.1, rfl⟩
    · rw [refresh_other p fresh hp, refresh_other p fresh hp]
      have := ih h
      exact ⟨.cons _ this.1, this.2.1, this.2.2⟩
  | swap x y l hxy hto =>
    intro cs cs' h
    by_cases hc : x.claim = y.claim
    · have : x = y := by
        cases x; cases y; simp_all
      subst this
      have := refresh_perm p fresh (x :: x :: l) h
      exact ⟨this.1 ▸ CEq.refl _, this.2.1, this.2.2⟩
    · have hc' : ¬ y.claim = x.claim := fun e => hc e.symm
      have key := refresh_perm p fresh l (cs := (cs.erase y.claim).erase x.claim)
        (cs' := (cs'.erase x.claim).erase y.claim)
        (by rw [List.erase_comm]; exact (h.erase x.claim).erase y.claim)
      have k1 := refresh_perm p fresh l (h.erase x.claim)
      have k2 := refresh_perm p fresh l (h.erase y.claim)
      have k0 := refresh_perm p fresh l h
      have mx : x.claim ∈ cs ↔ x.claim ∈ cs' := h.mem_iff
      have my : y.claim ∈ cs ↔ y.claim ∈ cs' := h.mem_iff
      by_cases hp : x.peer = p
      · have hp' : y.peer = p := hxy ▸ hp
        by_cases hx : x.claim ∈ cs <;> by_cases hy : y.claim ∈ cs
        · have hx' := mx.1 hx
          have hy' := my.1 hy
          have a1 : x.claim ∈ cs.erase y.claim := (List.mem_erase_of_ne hc).2 hx
          have a2 : y.claim ∈ cs'.erase x.claim := (List.mem_erase_of_ne hc').2 hy'
          rw [refresh_keep p fresh hp' hy, refresh_keep p fresh hp a1,
            refresh_keep p fresh hp hx', refresh_keep p fresh hp' a2]
          exact ⟨key.1 ▸ .swap _ _ _ hxy rfl, key.2.1, key.2.2⟩
        · have hx' := mx.1 hx
          have hy' : y.claim ∉ cs' := fun e => hy (my.2 e)
          have a2 : y.claim ∉ cs'.erase x.claim := fun e => hy' (List.mem_of_mem_erase e)
          rw [refresh_drop p fresh hp' hy, refresh_keep p fresh hp hx,
            refresh_keep p fresh hp hx', refresh_drop p fresh hp' a2]
          exact ⟨k1.1 ▸ CEq.refl _, k1.2.1, rfl⟩
        · have hx' : x.claim ∉ cs' := fun e => hx (mx.2 e)
          have hy' := my.1 hy
          have a1 : x.claim ∉ cs.erase y.claim := fun e => hx (List.mem_of_mem_erase e)
          rw [refresh_keep p fresh hp' hy, refresh_drop p fresh hp a1,
            refresh_drop p fresh hp hx', refresh_keep p fresh hp' hy']
          exact ⟨k2.1 ▸ CEq.refl _, k2.2.1, rfl⟩
        · have hx' : x.claim ∉ cs' := fun e => hx (mx.2 e)
          have hy' : y.claim ∉ cs' := fun e => hy (my.2 e)
          rw [refresh_drop p fresh hp' hy, refresh_drop p fresh hp hx,
            refresh_drop p fresh hp hx', refresh_drop p fresh hp' hy']
          exact ⟨k0.1 ▸ CEq.refl _, k0.2.1, rfl⟩
      · have hp' : ¬ y.peer = p := hxy ▸ hp
        rw [refresh_other p fresh hp', refresh_other p fresh hp, refresh_other p fresh hp,
          refresh_other p fresh hp']
        exact ⟨k0.1 ▸ .swap x y _ hxy hto, k0.2.1, k0.2.2⟩
  | trans _ _ ih1 ih2 =>
    intro cs cs' h
    have a := ih1 (List.Perm.refl cs)
    have b := ih2 h
    exact ⟨a.1.trans b.1, a.2.1.trans b.2.1, a.2.2.trans b.2.2⟩

/-- the first loop of `set_claims` (mark with 0) followed by a sweep at a positive time is `refresh`
    followed by the same sweep -/
theorem loop_refresh (now : Int) (hnow : 0 < now) (es : List ClaimEntry) :
    ∀ (cs cs' : List Range) (rm : Bool), cs.Perm cs' →
    (setClaimsLoop p fresh es cs rm).1.filter (fun e => e.timeout ≥ now) =
      (refresh p fresh es cs').1.filter (fun e => e.timeout ≥ now) ∧
    ((setClaimsLoop p fresh es cs rm).2.1).Perm (refresh p fresh es cs').2.1 ∧
    (setClaimsLoop p fresh es cs rm).2.2 = (rm || (refresh p fresh es cs').2.2) := by
  have h0 : ¬ (now ≤ 0) := by omega
  induction es with
  | nil => intro cs cs' rm h; exact ⟨rfl, h, by simp [setClaimsLoop, refresh]⟩
  | cons e es ih =>
    intro cs cs' rm h
    rw [loop_cons]
    by_cases hp : e.peer = p
    · subst hp
      simp only [↓reduceIte]
      cases hpos : position cs e.claim with
      | some pos =>
        have hm : e.claim ∈ cs' := h.mem_iff.1 (List.mem_of_getElem? (position_some hpos).2)
        have := ih _ _ rm (swapRemove_perm_erase (position_some hpos).2 h)
        rw [refresh_keep _ fresh rfl hm]
        simp only [List.filter_cons]
        exact ⟨by rw [this.1], this.2.1, this.2.2⟩
      | none =>
        have hm : e.claim ∉ cs' := fun x => position_none hpos (h.mem_iff.2 x)
        have := ih _ _ true h
        rw [refresh_drop _ fresh rfl hm]
        simp only [List.filter_cons, ge_iff_le, h0, decide_false, Bool.false_eq_true, if_false]
        exact ⟨this.1, this.2.1, by simp [this.2.2]⟩
    · simp only [hp, if_false]
      rw [refresh_other p fresh hp]
      simp only [List.filter_cons]
      have := ih _ _ rm h
      exact ⟨by rw [this.1], this.2.1, this.2.2⟩

end Refresh

/-! ### the scan of `lookup` is `best` -/

theorem scan_filter (a : Addr) (l : List ClaimEntry) (acc : Option ClaimEntry) :
    scan a l acc = scan a (l.filter (fun e => e.claim.matches a)) acc := by
  induction l generalizing acc with
  | nil => rfl
  | cons e es ih =>
    by_cases hm : e.claim.matches a = true
    · simp only [List.filter_cons, hm, if_true, scan_cons]
      split
      · exact ih _
      · exact ih _
    · have : scanCond a e acc = false := by simp [scanCond, hm]
      simp only [List.filter_cons, hm, scan_cons, this, Bool.false_eq_true, if_false]
      exact ih _

theorem find?_congr' {α} {f g : α → Bool} {l : List α} (h : ∀ x ∈ l, f x = g x) :
    l.find? f = l.find? g := by
  induction l with
  | nil => rfl
  | cons x xs ih =>
    rw [List.find?_cons, List.find?_cons, h x List.mem_cons_self,
      ih (fun y hy => h y (List.mem_cons_of_mem _ hy))]

/-- "strictly longer than the accumulator" -/
def accLt (acc : Option ClaimEntry) (e : ClaimEntry) : Bool :=
  match acc with
  | none => true
  | some x => decide (x.claim.prefixLen < e.claim.prefixLen)

theorem exists_max (l : List ClaimEntry) (h : l ≠ []) :
    ∃ m ∈ l, ∀ e ∈ l, e.claim.prefixLen ≤ m.claim.prefixLen := by
  induction l with
  | nil => exact absurd rfl h
  | cons x xs ih =>
    by_cases hx : xs = []
    · subst hx
      exact ⟨x, List.mem_cons_self, by simp⟩
    · rcases ih hx with ⟨m, hm, hmax⟩
      by_cases hc : m.claim.prefixLen ≤ x.claim.prefixLen
      · refine ⟨x, List.mem_cons_self, ?_⟩
        intro e he
        rcases List.mem_cons.1 he with rfl | he
        · exact Nat.le_refl _
        · exact Nat.le_trans (hmax e he) hc
      · refine ⟨m, List.mem_cons_of_mem _ hm, ?_⟩
        intro e he
        rcases List.mem_cons.1 he with rfl | he
        · omega
        · exact hmax e he

theorem scan_all_match (a : Addr) (ms : List ClaimEntry) (hall : ∀ e ∈ ms, e.claim.matches a = true)
    (acc : Option ClaimEntry) :
    scan a ms acc =
      (ms.find? (fun e => accLt acc e && ms.all (fun e' => e'.claim.prefixLen ≤ e.claim.prefixLen))).or acc := by
  induction ms generalizing acc with
  | nil => simp [scan]
  | cons e ms ih =>
    have hall' : ∀ e ∈ ms, e.claim.matches a = true := fun x hx => hall x (List.mem_cons_of_mem _ hx)
    have hc : scanCond a e acc = accLt acc e := by
      simp only [scanCond, accLt, hall e List.mem_cons_self, Bool.and_true]
      cases acc <;> rfl
    rw [scan_cons, hc]
    by_cases hlt : accLt acc e = true
    · simp only [hlt, if_true]
      rw [ih hall']
      by_cases hmax : ∀ e' ∈ ms, e'.claim.prefixLen ≤ e.claim.prefixLen
      · -- `e` is a maximum: it is the answer on both sides
        have h1 : ms.find? (fun e' => accLt (some e) e' &&
            ms.all (fun e'' => e''.claim.prefixLen ≤ e'.claim.prefixLen)) = none := by
          rw [List.find?_eq_none]
          intro e' he'
          have := hmax e' he'
          simp only [accLt, Bool.and_eq_true, decide_eq_true_eq, not_and]
          intro h; omega
        have h2 : (accLt acc e &&
            (e :: ms).all (fun e'' => e''.claim.prefixLen ≤ e.claim.prefixLen)) = true := by
          simp only [hlt, List.all_cons, Nat.le_refl, decide_true, Bool.true_and, List.all_eq_true,
            decide_eq_true_eq]
          exact hmax
        rw [h1, List.find?_cons, h2]
        rfl
      · -- something behind `e` is longer
        have hne : ∃ m ∈ ms, e.claim.prefixLen < m.claim.prefixLen := by
          apply Classical.byContradiction
          intro hn
          apply hmax
          intro e' he'
          apply Classical.byContradiction
          intro hh
          exact hn ⟨e', he', by omega⟩
        rcases hne with ⟨m0, hm0, hm0lt⟩
        have h2 : (accLt acc e &&
            (e :: ms).all (fun e'' => e''.claim.prefixLen ≤ e.claim.prefixLen)) = false := by
          rw [Bool.eq_false_iff]
          simp only [ne_eq, List.all_cons, Bool.and_eq_true, List.all_eq_true, decide_eq_true_eq, not_and]
          intro _ _ hh
          have := hh m0 hm0
          omega
        rw [List.find?_cons, h2]
        have hcongr : ∀ e' ∈ ms,
            (accLt (some e) e' && ms.all (fun e'' => e''.claim.prefixLen ≤ e'.claim.prefixLen)) =
            (accLt acc e' && (e :: ms).all (fun e'' => e''.claim.prefixLen ≤ e'.claim.prefixLen)) := by
          intro e' he'
          by_cases hA : ms.all (fun e'' => e''.claim.prefixLen ≤ e'.claim.prefixLen) = true
          · have h3 : m0.claim.prefixLen ≤ e'.claim.prefixLen := by
              simpa using (List.all_eq_true.1 hA) m0 hm0
            have h4 : accLt acc e' = true := by
              cases acc with
              | none => rfl
              | some x =>
                simp only [accLt, decide_eq_true_eq] at hlt ⊢
                omega
            have h5 : accLt (some e) e' = true := by
              simp only [accLt, decide_eq_true_eq]; omega
            have h6 : e.claim.prefixLen ≤ e'.claim.prefixLen := by omega
            simp [List.all_cons, hA, h4, h5, h6]
          · have hA' : ms.all (fun e'' => e''.claim.prefixLen ≤ e'.claim.prefixLen) = false := by
              simpa using hA
            simp [List.all_cons, hA']
        rw [find?_congr' hcongr]
        -- the search succeeds, so the fallback does not matter
        rcases exists_max ms (List.ne_nil_of_mem hm0) with ⟨m, hm, hmmax⟩
        have hsome : (ms.find? (fun e' => accLt acc e' &&
            (e :: ms).all (fun e'' => e''.claim.prefixLen ≤ e'.claim.prefixLen))).isSome = true := by
          rw [List.find?_isSome]
          refine ⟨m, hm, ?_⟩
          have h7 := hmmax m0 hm0
          have h4 : accLt acc m = true := by
            cases acc with
            | none => rfl
            | some x =>
              simp only [accLt, decide_eq_true_eq] at hlt ⊢
              omega
          simp only [h4, List.all_cons, Bool.true_and, Bool.and_eq_true, decide_eq_true_eq,
            List.all_eq_true]
          exact ⟨by omega, hmmax⟩
        rcases Option.isSome_iff_exists.1 hsome with ⟨r, hr⟩
        rw [hr]
        rfl
    · have hlt' : accLt acc e = false := by simpa using hlt
      simp only [hlt', Bool.false_eq_true, if_false]
      rw [ih hall']
      have h2 : (accLt acc e &&
          (e :: ms).all (fun e'' => e''.claim.prefixLen ≤ e.claim.prefixLen)) = false := by
        simp [hlt']
      rw [List.find?_cons, h2]
      have hcongr : ∀ e' ∈ ms,
          (accLt acc e' && ms.all (fun e'' => e''.claim.prefixLen ≤ e'.claim.prefixLen)) =
          (accLt acc e' && (e :: ms).all (fun e'' => e''.claim.prefixLen ≤ e'.claim.prefixLen)) := by
        intro e' _
        by_cases h4 : accLt acc e' = true
        · have h6 : e.claim.prefixLen ≤ e'.claim.prefixLen := by
            cases acc with
            | none => simp [accLt] at hlt'
            | some x =>
              simp only [accLt, decide_eq_true_eq, decide_eq_false_iff_not] at hlt' h4
              omega
          simp [List.all_cons, h4, h6]
        · have h4' : accLt acc e' = false := by simpa using h4
          simp [h4']
      rw [find?_congr' hcongr]

/-- the scan of `ClaimTable::lookup` computes `best` -/
theorem scan_eq_best (a : Addr) (l : List ClaimEntry) : scan a l none = best a l := by
  rw [scan_filter, scan_all_match a _ (fun e he => (List.mem_filter.1 he).2)]
  simp [best, accLt]

/-! ### the scan cannot tell equivalent claim lists apart -/

/-- what a lookup uses of an entry: its peer, its expiry, and (during the scan) its prefix length -/
def ckey (e : ClaimEntry) : PeerId × Int × Nat := (e.peer, e.timeout, e.claim.prefixLen)

/-- one step of the scan -/
def upd (a : Addr) (e : ClaimEntry) (acc : Option ClaimEntry) : Option ClaimEntry :=
  if scanCond a e acc = true then some e else acc

theorem scan_cons' (a : Addr) (e : ClaimEntry) (es : List ClaimEntry) (acc : Option ClaimEntry) :
    scan a (e :: es) acc = scan a es (upd a e acc) := by
  rw [scan_cons, upd]; split <;> rfl

theorem upd_key (a : Addr) (e : ClaimEntry) {acc acc' : Option ClaimEntry}
    (h : acc.map ckey = acc'.map ckey) : (upd a e acc).map ckey = (upd a e acc').map ckey := by
  cases acc <;> cases acc' <;> simp [ckey] at h
  · rfl
  · rename_i x y
    have : scanCond a e (some x) = scanCond a e (some y) := by simp [scanCond, h.2.2]
    simp only [upd, this]
    split
    · rfl
    · simp [ckey, h]

theorem scan_key (a : Addr) (l : List ClaimEntry) : ∀ acc acc' : Option ClaimEntry,
    acc.map ckey = acc'.map ckey → (scan a l acc).map ckey = (scan a l acc').map ckey := by
  induction l with
  | nil => intro acc acc' h; simpa [scan] using h
  | cons e es ih =>
    intro acc acc' h
    rw [scan_cons', scan_cons']
    exact ih _ _ (upd_key a e h)

theorem upd_swap (a : Addr) (x y : ClaimEntry) (hp : x.peer = y.peer) (ht : x.timeout = y.timeout)
    {acc acc' : Option ClaimEntry} (h : acc.map ckey = acc'.map ckey) :
    (upd a x (upd a y acc)).map ckey = (upd a y (upd a x acc')).map ckey := by
  cases hx : x.claim.matches a <;> cases hy : y.claim.matches a <;>
    cases acc <;> cases acc' <;> simp [ckey] at h <;>
    simp only [upd, scanCond, hx, hy, Bool.and_true, Bool.and_false, Bool.false_eq_true, if_false,
      if_true, Option.map_some, Option.map_none, decide_eq_true_eq, gt_iff_lt] <;>
    (try rfl) <;> grind [ckey]

theorem scan_ceq (a : Addr) {l l' : List ClaimEntry} (h : CEq l l') : ∀ acc acc' : Option ClaimEntry,
    acc.map ckey = acc'.map ckey → (scan a l acc).map ckey = (scan a l' acc').map ckey := by
  induction h with
  | nil => intro acc acc' h; simpa [scan] using h
  | cons e _ ih =>
    intro acc acc' h
    rw [scan_cons', scan_cons']
    exact ih _ _ (upd_key a e h)
  | swap x y l hp ht =>
    intro acc acc' h
    rw [scan_cons', scan_cons', scan_cons', scan_cons']
    exact scan_key a l _ _ (upd_swap a x y hp ht h)
  | trans _ _ ih1 ih2 =>
    intro acc acc' h
    exact (ih1 acc acc rfl).trans (ih2 acc acc' h)

/-- equivalent claim lists give the same routing decision (peer and expiry) -/
theorem best_ceq (a : Addr) {l l' : List ClaimEntry} (h : CEq l l') :
    (best a l).map (fun e => (e.peer, e.timeout)) = (best a l').map (fun e => (e.peer, e.timeout)) := by
  have := scan_ceq a h none none rfl
  rw [scan_eq_best, scan_eq_best] at this
  cases h1 : best a l <;> cases h2 : best a l' <;> simp [h1, h2, ckey] at this ⊢
  exact ⟨this.1, this.2.1⟩

/-! ### one step of the model against one step of the abstract state -/

theorem Rel.abs (t : Table) : Rel t (abs t) := ⟨rfl, CEq.refl _, rfl, rfl⟩

theorem filter_filter_and {α} (f g : α → Bool) (l : List α) :
    (l.filter f).filter g = l.filter (fun x => f x && g x) := by
  rw [List.filter_filter]
  congr 1
  funext x
  exact Bool.and_comm _ _

theorem step_announce {t : Table} {s : Abs} (h : Rel t s) (now : Int) (hnow : 0 < now) (p : PeerId)
    (cs : List Range) : Rel (t.setClaims now p cs) (s.step now (.announce p cs)).1 := by
  have hl := loop_refresh p (now + t.claimTimeout) now hnow t.claims cs cs false (List.Perm.refl _)
  have hr := refresh_ceq p (now + t.claimTimeout) h.claims (List.Perm.refl cs)
  refine ⟨?_, ?_, h.cacheTimeout, h.claimTimeout⟩
  · show (if (refresh p (now + s.claimTimeout) s.claims cs).2.2 = true then
          s.learned.filter (fun v => v.peer ≠ p) else s.learned).filter (fun v => v.timeout ≥ now) =
        (if (setClaimsLoop p (now + t.claimTimeout) t.claims cs false).2.2 = true then
          t.cache.map (fun v => if v.peer = p then { v with timeout := 0 } else v)
        else t.cache).filter (fun v => v.timeout ≥ now)
    rw [hl.2.2, Bool.false_or, hr.2.2, h.claimTimeout, h.learned]
    split
    · rw [zero_filter_cache _ _ _ hnow, filter_filter_and]
    · rfl
  · show CEq (((setClaimsLoop p (now + t.claimTimeout) t.claims cs false).1 ++
          (setClaimsLoop p (now + t.claimTimeout) t.claims cs false).2.1.map
            (fun c => ({ peer := p, claim := c, timeout := now + t.claimTimeout } : ClaimEntry))).filter
          (fun e => e.timeout ≥ now))
        (((refresh p (now + s.claimTimeout) s.claims cs).1 ++
          (refresh p (now + s.claimTimeout) s.claims cs).2.1.map
            (fun c => ({ peer := p, claim := c, timeout := now + s.claimTimeout } : ClaimEntry))).filter
          (fun e => e.timeout ≥ now))
    rw [h.claimTimeout, List.filter_append, List.filter_append, hl.1]
    exact CEq.append (hr.1.filter _) ((CEq.of_perm p _ (hl.2.1.trans hr.2.1)).filter _)

theorem step_disconnect {t : Table} {s : Abs} (h : Rel t s) (now : Int) (hnow : 0 < now) (p : PeerId) :
    Rel (t.removeClaims now p) (s.step now (.disconnect p)).1 := by
  refine ⟨?_, ?_, h.cacheTimeout, h.claimTimeout⟩
  · show (s.learned.filter (fun v => v.peer ≠ p)).filter (fun v => v.timeout ≥ now) =
        (t.cache.map (fun v => if v.peer = p then { v with timeout := 0 } else v)).filter
          (fun v => v.timeout ≥ now)
    rw [zero_filter_cache _ _ _ hnow, filter_filter_and, h.learned]
  · show CEq ((t.claims.map (fun e => if e.peer = p then { e with timeout := 0 } else e)).filter
          (fun e => e.timeout ≥ now))
        ((s.claims.filter (fun e => e.peer ≠ p)).filter (fun e => e.timeout ≥ now))
    rw [zero_filter_claims _ _ _ hnow, filter_filter_and]
    exact h.claims.filter _

theorem step_learn {t : Table} {s : Abs} (h : Rel t s) (now : Int) (a : Addr) (p : PeerId) :
    Rel (t.learn now a p) (s.step now (.learn a p)).1 := by
  refine ⟨?_, h.claims, h.cacheTimeout, h.claimTimeout⟩
  show _ :: s.learned.filter _ = cacheInsert t.cache _
  rw [h.learned, h.cacheTimeout]
  rfl

theorem step_sweep {t : Table} {s : Abs} (h : Rel t s) (now : Int) :
    Rel (t.housekeep now) (s.step now .sweep).1 := by
  refine ⟨?_, h.claims.filter _, h.cacheTimeout, h.claimTimeout⟩
  show s.learned.filter _ = t.cache.filter _
  rw [h.learned]
  simp only [Generated.cacheLive]

theorem cacheInsert_fresh' (c : List CacheEntry) (x : CacheEntry)
    (hc : c.find? (fun v => v.addr = x.addr) = none) : cacheInsert c x = x :: c := by
  unfold cacheInsert
  congr 1
  rw [List.filter_eq_self]
  intro v hv
  have := List.find?_eq_none.1 hc v hv
  simpa using this

theorem abs_lookup_hit (s : Abs) (now : Int) (a : Addr) (v : CacheEntry)
    (hc : s.learned.find? (fun v => v.addr = a) = some v) : s.step now (.lookup a) = (s, some v.peer) := by
  simp only [Abs.step, hc]

theorem abs_lookup_none (s : Abs) (now : Int) (a : Addr)
    (hc : s.learned.find? (fun v => v.addr = a) = none) (hb : best a s.claims = none) :
    s.step now (.lookup a) = (s, none) := by
  simp only [Abs.step, hc, hb]

theorem abs_lookup_some (s : Abs) (now : Int) (a : Addr) (e : ClaimEntry)
    (hc : s.learned.find? (fun v => v.addr = a) = none) (hb : best a s.claims = some e) :
    s.step now (.lookup a) =
      ({ s with learned := { addr := a, peer := e.peer, timeout := min (now + s.cacheTimeout) e.timeout } ::
                  s.learned }, some e.peer) := by
  simp only [Abs.step, hc, hb]

theorem t_lookup_hit (t : Table) (now : Int) (a : Addr) (v : CacheEntry)
    (hc : t.cache.find? (fun v => v.addr = a) = some v) : t.lookup now a = (t, some v.peer) := by
  simp only [lookup, hc]

theorem t_lookup_none (t : Table) (now : Int) (a : Addr)
    (hc : t.cache.find? (fun v => v.addr = a) = none) (hs : best a t.claims = none) :
    t.lookup now a = (t, none) := by
  simp only [lookup, hc, scan_eq_best, hs]

theorem t_lookup_some (t : Table) (now : Int) (a : Addr) (e : ClaimEntry)
    (hc : t.cache.find? (fun v => v.addr = a) = none) (hs : best a t.claims = some e) :
    t.lookup now a =
      ({ t with cache := ⟨a, e.peer, min (now + t.cacheTimeout) e.timeout⟩ :: t.cache }, some e.peer) := by
  simp only [lookup, hc, scan_eq_best, hs]
  rw [cacheInsert_fresh' _ _ hc]

theorem step_lookup {t : Table} {s : Abs} (h : Rel t s) (now : Int) (a : Addr) :
    (t.lookup now a).2 = (s.step now (.lookup a)).2 ∧ Rel (t.lookup now a).1 (s.step now (.lookup a)).1 := by
  have hb := best_ceq a h.claims
  cases hc : t.cache.find? (fun v => v.addr = a) with
  | some v =>
    rw [t_lookup_hit t now a v hc, abs_lookup_hit s now a v (h.learned ▸ hc)]
    exact ⟨rfl, h⟩
  | none =>
    have hc' : s.learned.find? (fun v => v.addr = a) = none := h.learned ▸ hc
    cases h1 : best a t.claims with
    | none =>
      cases h2 : best a s.claims with
      | none =>
        rw [t_lookup_none t now a hc h1, abs_lookup_none s now a hc' h2]
        exact ⟨rfl, h⟩
      | some e' => simp [h1, h2] at hb
    | some e =>
      cases h2 : best a s.claims with
      | none => simp [h1, h2] at hb
      | some e' =>
        simp only [h1, h2, Option.map_some, Option.some.injEq, Prod.mk.injEq] at hb
        rw [t_lookup_some t now a e hc h1, abs_lookup_some s now a e' hc' h2]
        refine ⟨by simp [hb.1], ?_, h.claims, h.cacheTimeout, h.claimTimeout⟩
        show _ :: s.learned = _ :: t.cache
        rw [h.learned, h.cacheTimeout, hb.1, hb.2]

/-- **one-step refinement** -/
theorem step_refines {t : Table} {s : Abs} (h : Rel t s) (now : Int) (hnow : 0 < now) (op : TOp) :
    (stepT t now op).2 = (s.step now op).2 ∧ Rel (stepT t now op).1 (s.step now op).1 := by
  cases op with
  | announce p cs => exact ⟨rfl, step_announce h now hnow p cs⟩
  | disconnect p => exact ⟨rfl, step_disconnect h now hnow p⟩
  | learn a p => exact ⟨rfl, step_learn h now a p⟩
  | lookup a => exact step_lookup h now a
  | sweep => exact ⟨rfl, step_sweep h now⟩

/-! ### facts about the abstract semantics used by the corollaries -/

theorem refresh_mem (p : PeerId) (fresh : Int) (es : List ClaimEntry) :
    ∀ (cs : List Range) (x : ClaimEntry), x ∈ (refresh p fresh es cs).1 →
      (x ∈ es ∧ x.peer ≠ p) ∨ (x.peer = p ∧ x.timeout = fresh ∧ x.claim ∈ cs) := by
  induction es with
  | nil => intro cs x hx; simp [refresh] at hx
  | cons e es ih =>
    intro cs x hx
    by_cases hp : e.peer = p
    · by_cases hm : e.claim ∈ cs
      · rw [refresh_keep p fresh hp hm] at hx
        rcases List.mem_cons.1 hx with rfl | hx
        · exact Or.inr ⟨hp, rfl, hm⟩
        · rcases ih _ x hx with ⟨h1, h2⟩ | ⟨h1, h2, h3⟩
          · exact Or.inl ⟨List.mem_cons_of_mem _ h1, h2⟩
          · exact Or.inr ⟨h1, h2, List.mem_of_mem_erase h3⟩
      · rw [refresh_drop p fresh hp hm] at hx
        rcases ih _ x hx with ⟨h1, h2⟩ | h
        · exact Or.inl ⟨List.mem_cons_of_mem _ h1, h2⟩
        · exact Or.inr h
    · rw [refresh_other p fresh hp] at hx
      rcases List.mem_cons.1 hx with rfl | hx
      · exact Or.inl ⟨List.mem_cons_self, hp⟩
      · rcases ih _ x hx with ⟨h1, h2⟩ | h
        · exact Or.inl ⟨List.mem_cons_of_mem _ h1, h2⟩
        · exact Or.inr h

/-- entries of other peers are kept by `refresh`, in order -/
theorem refresh_filter_other (p q : PeerId) (hpq : p ≠ q) (fresh : Int) (es : List ClaimEntry) :
    ∀ cs : List Range, (refresh q fresh es cs).1.filter (fun e => e.peer = p) =
      es.filter (fun e => e.peer = p) := by
  induction es with
  | nil => intro cs; rfl
  | cons e es ih =>
    intro cs
    by_cases hq : e.peer = q
    · have hne : ¬ e.peer = p := fun h => hpq (h.symm.trans hq)
      by_cases hm : e.claim ∈ cs
      · rw [refresh_keep q fresh hq hm]
        simp only [List.filter_cons, hne, decide_false, Bool.false_eq_true, if_false]
        exact ih _
      · rw [refresh_drop q fresh hq hm]
        simp only [List.filter_cons, hne, decide_false, Bool.false_eq_true, if_false]
        exact ih _
    · rw [refresh_other q fresh hq]
      simp only [List.filter_cons]
      rw [ih]

theorem best_mem {a : Addr} {cl : List ClaimEntry} {e : ClaimEntry} (h : best a cl = some e) :
    e ∈ cl ∧ e.claim.matches a = true := by
  have := List.mem_of_find?_eq_some h
  exact List.mem_filter.1 this

/-- the claims after an abstract announcement -/
theorem abs_announce_claims_mem (s : Abs) (now : Int) (p : PeerId) (cs : List Range) (x : ClaimEntry)
    (hx : x ∈ (s.step now (.announce p cs)).1.claims) :
    now ≤ x.timeout ∧
      ((x ∈ s.claims ∧ x.peer ≠ p) ∨ (x.peer = p ∧ x.timeout = now + s.claimTimeout ∧ x.claim ∈ cs)) := by
  simp only [Abs.step, Abs.sweep, List.mem_filter, List.mem_append, List.mem_map, decide_eq_true_eq,
    ge_iff_le] at hx
  refine ⟨hx.2, ?_⟩
  rcases hx.1 with h | ⟨c, hc, rfl⟩
  · exact refresh_mem p _ _ _ _ h
  · refine Or.inr ⟨rfl, rfl, ?_⟩
    clear hx
    -- the unmatched rest is part of the announcement
    have : ∀ (es : List ClaimEntry) (cs : List Range) (c : Range),
        c ∈ (refresh p (now + s.claimTimeout) es cs).2.1 → c ∈ cs := by
      intro es
      induction es with
      | nil => intro cs c hc; simpa [refresh] using hc
      | cons e es ih =>
        intro cs c hc
        by_cases hp : e.peer = p
        · by_cases hm : e.claim ∈ cs
          · rw [refresh_keep p _ hp hm] at hc
            exact List.mem_of_mem_erase (ih _ c hc)
          · rw [refresh_drop p _ hp hm] at hc
            exact ih _ c hc
        · rw [refresh_other p _ hp] at hc
          exact ih _ c hc
    exact this _ _ _ hc

theorem abs_announce_learned_mem (s : Abs) (now : Int) (p : PeerId) (cs : List Range) (v : CacheEntry)
    (hv : v ∈ (s.step now (.announce p cs)).1.learned) : v ∈ s.learned ∧ now ≤ v.timeout := by
  simp only [Abs.step, Abs.sweep, List.mem_filter, decide_eq_true_eq, ge_iff_le] at hv
  refine ⟨?_, hv.2⟩
  have := hv.1
  split at this
  · exact (List.mem_filter.1 this).1
  · exact this

theorem abs_step_params (s : Abs) (now : Int) (op : TOp) :
    (s.step now op).1.cacheTimeout = s.cacheTimeout ∧ (s.step now op).1.claimTimeout = s.claimTimeout := by
  cases op with
  | announce p cs => exact ⟨rfl, rfl⟩
  | disconnect p => exact ⟨rfl, rfl⟩
  | learn a p => exact ⟨rfl, rfl⟩
  | sweep => exact ⟨rfl, rfl⟩
  | lookup a =>
    simp only [Abs.step]
    split
    · exact ⟨rfl, rfl⟩
    · split <;> exact ⟨rfl, rfl⟩

theorem abs_run_params (s : Abs) (ops : List (Int × TOp)) :
    (s.run ops).1.cacheTimeout = s.cacheTimeout ∧ (s.run ops).1.claimTimeout = s.claimTimeout := by
  induction ops generalizing s with
  | nil => exact ⟨rfl, rfl⟩
  | cons o ops ih =>
    rcases o with ⟨now, op⟩
    simp only [Abs.run]
    exact ⟨(ih _).1.trans (abs_step_params s now op).1, (ih _).2.trans (abs_step_params s now op).2⟩

theorem runT_append (t : Table) (a b : List (Int × TOp)) :
    runT t (a ++ b) = ((runT (runT t a).1 b).1, (runT t a).2 ++ (runT (runT t a).1 b).2) := by
  induction a generalizing t with
  | nil => rfl
  | cons o a ih =>
    rcases o with ⟨now, op⟩
    simp only [List.cons_append, runT, ih, List.cons_append]

theorem abs_run_append (s : Abs) (a b : List (Int × TOp)) :
    s.run (a ++ b) = (((s.run a).1.run b).1, (s.run a).2 ++ ((s.run a).1.run b).2) := by
  induction a generalizing s with
  | nil => rfl
  | cons o a ih =>
    rcases o with ⟨now, op⟩
    simp only [List.cons_append, Abs.run, ih, List.cons_append]

/-! ### for `learned_until` -/

/-- "something of `p` was dropped" means: some range occurs more often among the entries of `p` than in the
    announcement -/
theorem refresh_flag_count (p : PeerId) (fresh : Int) (es : List ClaimEntry) :
    ∀ cs : List Range, (refresh p fresh es cs).2.2 = true →
      ∃ r, ((es.filter (fun e => e.peer = p)).map (fun e => e.claim)).count r > cs.count r := by
  induction es with
  | nil => intro cs h; simp [refresh] at h
  | cons e es ih =>
    intro cs h
    by_cases hp : e.peer = p
    · by_cases hm : e.claim ∈ cs
      · rw [refresh_keep p fresh hp hm] at h
        rcases ih _ h with ⟨r, hr⟩
        refine ⟨r, ?_⟩
        simp only [List.filter_cons, hp, decide_true, if_true, List.map_cons, List.count_cons]
        rw [List.count_erase] at hr
        have hpos : 0 < cs.count e.claim := List.count_pos_iff.2 hm
        by_cases hre : r = e.claim
        · subst hre
          simp only [BEq.rfl, if_true] at hr ⊢
          omega
        · have h1 : (e.claim == r) = false := by simpa using fun h => hre h.symm
          simp only [h1, Bool.false_eq_true, if_false] at hr ⊢
          omega
      · refine ⟨e.claim, ?_⟩
        simp only [List.filter_cons, hp, decide_true, if_true, List.map_cons, List.count_cons, BEq.rfl]
        have : cs.count e.claim = 0 := List.count_eq_zero.2 hm
        omega
    · rw [refresh_other p fresh hp] at h
      rcases ih _ h with ⟨r, hr⟩
      refine ⟨r, ?_⟩
      simpa only [List.filter_cons, hp, decide_false, Bool.false_eq_true, if_false] using hr

theorem find?_filter_keep {α} {f g : α → Bool} {l : List α} {v : α} (h : l.find? f = some v)
    (hv : g v = true) : (l.filter g).find? f = some v := by
  induction l with
  | nil => simp at h
  | cons x xs ih =>
    rw [List.find?_cons] at h
    cases hfx : f x with
    | true =>
      rw [hfx] at h
      have : x = v := Option.some.inj h
      subst this
      simp [hv, hfx]
    | false =>
      rw [hfx] at h
      rw [List.filter_cons]
      split
      · rw [List.find?_cons, hfx]
        exact ih h
      · exact ih h

end VpnCloud.Proofs.TableRefine
