import VpnCloud.Model.Core
import VpnCloud.Spec.C03
import VpnCloud.Spec.C03Slot
import VpnCloud.Spec.C04
import VpnCloud.Proofs.Lemmas.CoreLemmas
import VpnCloud.Proofs.C02
import VpnCloud.Proofs.C03
import VpnCloud.Proofs.C04
/-
  Definitions (operation traces of a `Core`) and helper lemmas for `Proofs/C04Session.lean`:
  C04 (no (key, nonce) pair twice) and C03 (replay window) lifted from one key to whole sessions
  with key rotation.
-/
namespace VpnCloud.Proofs.C04Session

open VpnCloud VpnCloud.Spec.C04 VpnCloud.Spec.C03
open VpnCloud.Proofs.CoreLemmas

/-! ## traces -/

/-- the operations a `CryptoCore` undergoes during a session: sealing a payload, the housekeeping
    tick, installing a rotated key, opening a received datagram -/
inductive SOp
  | «seal» (p : Bytes)
  | tick
  | rotate (key : KeyRef) (id : Nat) (use : Bool) (start : Nat)
  | «open» (d : Dgram)
  deriving DecidableEq, Repr

/-- one operation: new core and the datagrams put on the wire (one for a seal, none otherwise) -/
def step (c : Core) : SOp → Core × List Dgram
  | .seal p => ((c.encrypt p).1, [(c.encrypt p).2])
  | .tick => (c.everySecond, [])
  | .rotate key id use start => (c.rotateKey key id use start, [])
  | .open d => ((c.decrypt d).1, [])

/-- a whole trace: final core and all emitted datagrams, oldest first -/
def run (c : Core) : List SOp → Core × List Dgram
  | [] => (c, [])
  | op :: ops => ((run (step c op).1 ops).1, (step c op).2 ++ (run (step c op).1 ops).2)

/-- the keys rotated in by a trace, in order -/
def rotatedKeys : List SOp → List KeyRef
  | [] => []
  | .rotate key _ _ _ :: ops => key :: rotatedKeys ops
  | .seal _ :: ops => rotatedKeys ops
  | .tick :: ops => rotatedKeys ops
  | .open _ :: ops => rotatedKeys ops

/-- the random start values of the keys rotated in by a trace -/
def rotatedStarts : List SOp → List Nat
  | [] => []
  | .rotate _ _ _ start :: ops => start :: rotatedStarts ops
  | .seal _ :: ops => rotatedStarts ops
  | .tick :: ops => rotatedStarts ops
  | .open _ :: ops => rotatedStarts ops

/-- hypothesis I3 (key freshness) on a trace: every rotated-in key differs from the keys in `used`
    (for a session: the handshake key and the dummy key) and from every key rotated in before -/
def Fresh (used : List KeyRef) (ops : List SOp) : Prop :=
  (rotatedKeys ops).Nodup ∧ ∀ K ∈ used, K ∉ rotatedKeys ops

instance (used : List KeyRef) (ops : List SOp) : Decidable (Fresh used ops) := by
  unfold Fresh; infer_instance

/-- all start values of rotated-in keys are 48-bit values (bytes 6..11 of the nonce are random) -/
def StartsOK (ops : List SOp) : Prop := ∀ s ∈ rotatedStarts ops, s < 2 ^ 48

instance (ops : List SOp) : Decidable (StartsOK ops) := by unfold StartsOK; infer_instance

/-- the key a datagram was sealed under -/
def keyOf (d : Dgram) : Option KeyRef := (sealedWith d).map Prod.fst

/-- number of datagrams of a log sealed under key `K` -/
def sealsUnder (K : KeyRef) (ds : List Dgram) : Nat := ds.countP (fun d => decide (keyOf d = some K))

/-- same-key nonces strictly increase in emission order -/
def Increasing (ds : List Dgram) : Prop :=
  ds.Pairwise (fun d1 d2 => ∀ K n1 n2, sealedWith d1 = some (K, n1) → sealedWith d2 = some (K, n2) → n1 < n2)

/-- the limit on the number of seals under one key, as in `C04.stays_in_half` -/
def LIMIT : Nat := 2 ^ 95 - 2 ^ 48

theorem limit_eq : LIMIT = 39614081257131887321795264512 := by unfold LIMIT; decide

theorem base_cases (half : Bool) : base half = 0 ∨ base half = 39614081257132168796771975168 := by
  cases half
  · left; rfl
  · right; simp only [base, if_true, half_eq]

/-! ## basic facts about traces -/

theorem run_nil (c : Core) : run c [] = (c, []) := rfl
theorem run_cons (c : Core) (op : SOp) (ops : List SOp) :
    run c (op :: ops) = ((run (step c op).1 ops).1, (step c op).2 ++ (run (step c op).1 ops).2) := rfl

theorem run_append (c : Core) (a b : List SOp) :
    run c (a ++ b) = ((run (run c a).1 b).1, (run c a).2 ++ (run (run c a).1 b).2) := by
  induction a generalizing c with
  | nil => simp [run]
  | cons op a ih => simp only [List.cons_append, run_cons, ih, List.append_assoc]

theorem rotatedKeys_append (a b : List SOp) : rotatedKeys (a ++ b) = rotatedKeys a ++ rotatedKeys b := by
  induction a with
  | nil => rfl
  | cons op a ih => cases op <;> simp [rotatedKeys, ih]

theorem sealsUnder_append (K : KeyRef) (a b : List Dgram) :
    sealsUnder K (a ++ b) = sealsUnder K a + sealsUnder K b := by
  simp [sealsUnder, List.countP_append]

theorem sealsUnder_nil (K : KeyRef) : sealsUnder K [] = 0 := rfl

theorem sealsUnder_le_length (K : KeyRef) (ds : List Dgram) : sealsUnder K ds ≤ ds.length :=
  List.countP_le_length

theorem sealedWith_encrypt (c : Core) (p : Bytes) (k : SlotKey) (hk : c.slots[c.cur]? = some k) :
    sealedWith (c.encrypt p).2 = some (k.key, (k.send + 1) % NONCE_MOD) := by
  simp only [Core.encrypt, hk, sealedWith]

/-! ## operations that leave the send side alone -/

/-- `c'` has the same current slot, half, and the same key and send counter in every slot as `c` -/
structure SendEq (c c' : Core) : Prop where
  cur : c'.cur = c.cur
  half : c'.half = c.half
  len : c'.slots.length = c.slots.length
  slot : ∀ (j : Nat) (k' : SlotKey), c'.slots[j]? = some k' → ∃ k : SlotKey, c.slots[j]? = some k ∧ k'.key = k.key ∧ k'.send = k.send

theorem sendEq_refl (c : Core) : SendEq c c := ⟨rfl, rfl, rfl, fun _ k' h => ⟨k', h, rfl, rfl⟩⟩

theorem sendEq_tick (c : Core) : SendEq c c.everySecond := by
  refine ⟨rfl, rfl, by simp [Core.everySecond], ?_⟩
  intro j k' h
  simp only [Core.everySecond, List.getElem?_map] at h
  cases hj : c.slots[j]? with
  | none => rw [hj] at h; cases h
  | some k =>
    rw [hj] at h
    simp only [Option.map_some, Option.some.injEq] at h
    subst h
    exact ⟨k, rfl, rfl, rfl⟩

theorem slotStep_accept_key (k : SlotKey) (n : Nat) :
    (slotStep k (.accept n)).key = k.key ∧ (slotStep k (.accept n)).send = k.send ∧
    (slotStep k (.accept n)).min = k.min ∧ (slotStep k (.accept n)).nextMin = k.nextMin := by
  simp only [slotStep]
  split <;> exact ⟨rfl, rfl, rfl, rfl⟩

theorem sendEq_open (c : Core) (d : Dgram) : SendEq c (c.decrypt d).1 := by
  rcases decrypt_cases c d with ⟨e, he⟩ | ⟨k, p, _, _, hk, _, _, hd⟩
  · rw [he]; exact sendEq_refl c
  · rw [hd]
    refine ⟨rfl, rfl, by simp, ?_⟩
    intro j k' h
    simp only at h
    by_cases hj : d.keyId = j
    · subst hj
      have hlt : d.keyId < c.slots.length := (List.getElem?_eq_some_iff.1 hk).1
      rw [List.getElem?_set_self hlt] at h
      simp only [Option.some.injEq] at h
      subst h
      exact ⟨k, hk, (slotStep_accept_key k _).1, (slotStep_accept_key k _).2.1⟩
    · rw [List.getElem?_set_ne hj] at h
      exact ⟨k', h, rfl, rfl⟩

/-! ## the sender invariant -/

/-- invariant of a sending core together with the log `L` of everything it emitted so far and the
    list `used` of all keys it ever held -/
structure SInv (half : Bool) (used : List KeyRef) (c : Core) (L : List Dgram) : Prop where
  len : c.slots.length = 4
  cur : c.cur < 4
  hhalf : c.half = half
  keys : ∀ (j : Nat) (k : SlotKey), c.slots[j]? = some k → k.key ∈ used
  form : ∀ d ∈ L, ∃ kid K s m p, K ∈ used ∧ s < 2 ^ 48 ∧ m < LIMIT ∧
    d = { hdr := kid :: Bytes.ofBE 7 (base half + s + 1 + m), body := .sealed K (base half + s + 1 + m) p }
  curslot : ∃ (k : SlotKey) (s : Nat), c.slots[c.cur]? = some k ∧ s < 2 ^ 48 ∧ k.send = base half + s + sealsUnder k.key L ∧
    ∀ d ∈ L, ∀ n, sealedWith d = some (k.key, n) → n ≤ k.send
  incr : Increasing L

theorem sinv_of_sendEq {half : Bool} {used : List KeyRef} {c c' : Core} {L : List Dgram}
    (h : SInv half used c L) (e : SendEq c c') : SInv half used c' L := by
  obtain ⟨k, s, hk, hs, hsend, hle⟩ := h.curslot
  have hcur : c'.cur < c'.slots.length := by rw [e.cur, e.len, h.len]; exact h.cur
  obtain ⟨k', hk'⟩ : ∃ k', c'.slots[c'.cur]? = some k' := ⟨_, List.getElem?_eq_getElem hcur⟩
  obtain ⟨k0, hk0, hkey, hsnd⟩ := e.slot _ _ hk'
  rw [e.cur, hk] at hk0
  cases hk0
  refine ⟨by rw [e.len, h.len], by rw [e.cur]; exact h.cur, by rw [e.half, h.hhalf], ?_, h.form, ?_, h.incr⟩
  · intro j kj hj
    obtain ⟨k1, hk1, hkey1, _⟩ := e.slot j kj hj
    rw [hkey1]; exact h.keys j k1 hk1
  · exact ⟨k', s, hk', hs, by rw [hsnd, hkey, hsend], by rw [hkey, hsnd]; exact hle⟩

theorem sinv_new (key : KeyRef) (half : Bool) (dummy : KeyRef) (starts : List Nat)
    (hs : ∀ s ∈ starts, s < 2 ^ 48) : SInv half [key, dummy] (Core.new key half dummy starts) [] := by
  refine ⟨rfl, by simp [Core.new], rfl, ?_, by simp, ?_, List.Pairwise.nil⟩
  · intro j k hj
    simp only [Core.new] at hj
    match j with
    | 0 => simp at hj; subst hj; simp [SlotKey.new]
    | 1 => simp at hj; subst hj; simp [SlotKey.new]
    | 2 => simp at hj; subst hj; simp [SlotKey.new]
    | 3 => simp at hj; subst hj; simp [SlotKey.new]
    | n + 4 => simp at hj
  · refine ⟨SlotKey.new key half (starts.getD 0 0), starts.getD 0 0, rfl, ?_, ?_, by simp⟩
    · cases starts with
      | nil => simp
      | cons a t => simpa using hs a (by simp)
    · simp [SlotKey.new, base, sealsUnder]

theorem sinv_seal {half : Bool} {used : List KeyRef} {c : Core} {L : List Dgram}
    (h : SInv half used c L) (p : Bytes)
    (hb : ∀ K, sealsUnder K (L ++ [(c.encrypt p).2]) < LIMIT) :
    SInv half used (c.encrypt p).1 (L ++ [(c.encrypt p).2]) := by
  obtain ⟨k, s, hk, hs, hsend, hle⟩ := h.curslot
  have hsw := sealedWith_encrypt c p k hk
  have hcnt : sealsUnder k.key (L ++ [(c.encrypt p).2]) = sealsUnder k.key L + 1 := by
    rw [sealsUnder_append]
    simp [sealsUnder, keyOf, hsw]
  have hb' := hb k.key
  rw [hcnt, limit_eq] at hb'
  rw [pow48] at hs
  have hlt : k.send + 1 < NONCE_MOD := by
    rw [hsend, nonce_mod_eq]
    rcases base_cases half with hb0 | hb0 <;> rw [hb0] <;> omega
  obtain ⟨e2, e1⟩ := C04.encrypt_spec c p k hk hlt
  have hcurlt : c.cur < c.slots.length := by rw [h.len]; exact h.cur
  have hsw' : sealedWith (c.encrypt p).2 = some (k.key, k.send + 1) := by
    rw [hsw, Nat.mod_eq_of_lt hlt]
  refine ⟨?_, ?_, ?_, ?_, ?_, ?_, ?_⟩
  · rw [e1]; simp [h.len]
  · rw [e1]; exact h.cur
  · rw [e1]; exact h.hhalf
  · intro j kj hj
    rw [e1] at hj
    simp only at hj
    by_cases hjc : c.cur = j
    · subst hjc
      rw [List.getElem?_set_self hcurlt] at hj
      simp only [Option.some.injEq] at hj
      subst hj
      exact h.keys _ k hk
    · rw [List.getElem?_set_ne hjc] at hj
      exact h.keys j kj hj
  · intro d hd
    rcases List.mem_append.1 hd with hd | hd
    · exact h.form d hd
    · rw [List.mem_singleton] at hd
      subst hd
      refine ⟨c.cur, k.key, s, sealsUnder k.key L, p, h.keys _ k hk, by rw [pow48]; exact hs, by rw [limit_eq]; omega, ?_⟩
      rw [e2, hsend]
      have : base half + s + sealsUnder k.key L + 1 = base half + s + 1 + sealsUnder k.key L := by omega
      rw [this]
  · refine ⟨{ k with send := k.send + 1 }, s, ?_, by rw [pow48]; exact hs, ?_, ?_⟩
    · rw [e1]; simp only; exact List.getElem?_set_self hcurlt
    · show k.send + 1 = base half + s + sealsUnder k.key (L ++ [(c.encrypt p).2])
      rw [hcnt, hsend]; omega
    · intro d hd n hn
      show n ≤ k.send + 1
      rcases List.mem_append.1 hd with hd | hd
      · have := hle d hd n hn; omega
      · rw [List.mem_singleton] at hd
        subst hd
        rw [hsw'] at hn
        simp only [Option.some.injEq, Prod.mk.injEq, true_and] at hn
        omega
  · show List.Pairwise _ _
    rw [List.pairwise_append]
    refine ⟨h.incr, List.pairwise_singleton _ _, ?_⟩
    intro a ha b hb K n1 n2 h1 h2
    rw [List.mem_singleton] at hb
    subst hb
    rw [hsw'] at h2
    simp only [Option.some.injEq, Prod.mk.injEq] at h2
    obtain ⟨rfl, rfl⟩ := h2
    have := hle a ha n1 h1
    omega

theorem sealsUnder_zero_of_not_used {half : Bool} {used : List KeyRef} {c : Core} {L : List Dgram}
    (h : SInv half used c L) (K : KeyRef) (hK : K ∉ used) : sealsUnder K L = 0 := by
  unfold sealsUnder
  rw [List.countP_eq_zero]
  intro d hd
  obtain ⟨kid, K', s, m, p, hK', _, _, rfl⟩ := h.form d hd
  simp only [keyOf, sealedWith, Option.map_some, Option.some.injEq, decide_eq_true_eq]
  intro heq
  exact hK (heq ▸ hK')

theorem sinv_rotate {half : Bool} {used : List KeyRef} {c : Core} {L : List Dgram}
    (h : SInv half used c L) (K : KeyRef) (id : Nat) (use : Bool) (start : Nat)
    (hK : K ∉ used) (hstart : start < 2 ^ 48) :
    SInv half (used ++ [K]) (c.rotateKey K id use start) L := by
  have hi : id % 4 < c.slots.length := by rw [h.len]; omega
  have hslot : ∀ j, (c.rotateKey K id use start).slots[j]? =
      if id % 4 = j then some (SlotKey.new K half start) else c.slots[j]? := by
    intro j
    simp only [Core.rotateKey, Core.SLOTS, h.hhalf]
    by_cases hj : id % 4 = j
    · subst hj; rw [List.getElem?_set_self hi, if_pos rfl]
    · rw [List.getElem?_set_ne hj, if_neg hj]
  have hz := sealsUnder_zero_of_not_used h K hK
  refine ⟨by simp [Core.rotateKey, h.len], ?_, h.hhalf, ?_, ?_, ?_, h.incr⟩
  · simp only [Core.rotateKey, Core.SLOTS]
    split
    · omega
    · exact h.cur
  · intro j kj hj
    rw [hslot j] at hj
    split at hj
    · cases hj; simp [SlotKey.new]
    · exact List.mem_append_left _ (h.keys j kj hj)
  · intro d hd
    obtain ⟨kid, K', s, m, p, hK', r⟩ := h.form d hd
    exact ⟨kid, K', s, m, p, List.mem_append_left _ hK', r⟩
  · obtain ⟨k, s, hk, hs, hsend, hle⟩ := h.curslot
    have hnone : ∀ d ∈ L, ∀ n, sealedWith d = some (K, n) → False := by
      intro d hd n hn
      obtain ⟨kid, K', s, m, p, hK', _, _, rfl⟩ := h.form d hd
      simp only [sealedWith, Option.some.injEq, Prod.mk.injEq] at hn
      exact hK (hn.1 ▸ hK')
    by_cases hnew : id % 4 = (c.rotateKey K id use start).cur
    · refine ⟨SlotKey.new K half start, start, ?_, hstart, ?_, ?_⟩
      · rw [hslot, if_pos hnew]
      · show base half + start = base half + start + sealsUnder K L
        rw [hz]; rfl
      · intro d hd n hn
        exact (hnone d hd n hn).elim
    · have hcur : (c.rotateKey K id use start).cur = c.cur := by
        simp only [Core.rotateKey, Core.SLOTS] at hnew ⊢
        split
        · rename_i hu; rw [if_pos hu] at hnew; exact absurd rfl hnew
        · rfl
      refine ⟨k, s, ?_, hs, hsend, hle⟩
      rw [hslot, if_neg hnew, hcur, hk]

theorem fresh_rotate {used : List KeyRef} {K : KeyRef} {id : Nat} {use : Bool} {start : Nat} {ops : List SOp}
    (h : Fresh used (.rotate K id use start :: ops)) : K ∉ used ∧ Fresh (used ++ [K]) ops := by
  obtain ⟨hnd, hu⟩ := h
  simp only [rotatedKeys, List.nodup_cons] at hnd
  refine ⟨fun hK => hu K hK (by simp [rotatedKeys]), hnd.2, ?_⟩
  intro K' hK'
  rcases List.mem_append.1 hK' with hK' | hK'
  · have := hu K' hK'
    simp only [rotatedKeys, List.mem_cons, not_or] at this
    exact this.2
  · rw [List.mem_singleton] at hK'
    subst hK'
    exact hnd.1

theorem fresh_other {used : List KeyRef} {op : SOp} {ops : List SOp}
    (h : Fresh used (op :: ops)) (hop : ∀ K id use start, op ≠ .rotate K id use start) : Fresh used ops := by
  cases op with
  | rotate K id use start => exact absurd rfl (hop K id use start)
  | «seal» p => exact h
  | tick => exact h
  | «open» d => exact h

/-- the sender invariant along a whole trace -/
theorem sinv_run {half : Bool} : ∀ (ops : List SOp) (used : List KeyRef) (c : Core) (L : List Dgram),
    SInv half used c L → Fresh used ops → StartsOK ops →
    (∀ K, sealsUnder K (L ++ (run c ops).2) < LIMIT) →
    SInv half (used ++ rotatedKeys ops) (run c ops).1 (L ++ (run c ops).2) := by
  intro ops
  induction ops with
  | nil =>
    intro used c L h _ _ _
    simpa [run, rotatedKeys] using h
  | cons op ops ih =>
    intro used c L h hf hs hb
    rw [run_cons] at hb ⊢
    simp only at hb ⊢
    rw [← List.append_assoc] at hb ⊢
    cases op with
    | «seal» p =>
      have hb1 : ∀ K, sealsUnder K (L ++ [(c.encrypt p).2]) < LIMIT := by
        intro K
        have := hb K
        rw [sealsUnder_append] at this
        exact Nat.lt_of_le_of_lt (Nat.le_add_right _ _) this
      exact ih used _ _ (sinv_seal h p hb1) hf hs hb
    | tick =>
      simp only [step, List.append_nil] at hb ⊢
      exact ih used _ _ (sinv_of_sendEq h (sendEq_tick c)) hf hs hb
    | «open» d =>
      simp only [step, List.append_nil] at hb ⊢
      exact ih used _ _ (sinv_of_sendEq h (sendEq_open c d)) hf hs hb
    | rotate K id use start =>
      simp only [step, List.append_nil] at hb ⊢
      obtain ⟨hK, hf'⟩ := fresh_rotate hf
      have hst : start < 2 ^ 48 := hs start (by simp [rotatedStarts])
      have hs' : StartsOK ops := fun s hs' => hs s (by simp [rotatedStarts, hs'])
      have := ih (used ++ [K]) _ _ (sinv_rotate h K id use start hK hst) hf' hs' hb
      simpa [rotatedKeys] using this

/-- strictly increasing same-key nonces, all entries sealed: the (key, nonce) log has no duplicates -/
theorem nodup_of_sinv {half : Bool} {used : List KeyRef} {c : Core} {L : List Dgram}
    (h : SInv half used c L) : (L.map sealedWith).Nodup := by
  unfold List.Nodup
  rw [List.pairwise_map]
  refine List.Pairwise.imp_of_mem ?_ h.incr
  intro a b ha _ hR heq
  obtain ⟨kid, K, s, m, p, _, _, _, rfl⟩ := h.form a ha
  have := hR K _ _ rfl heq.symm
  omega

/-! ## general facts about single steps -/

theorem step_len (c : Core) (op : SOp) : (step c op).1.slots.length = c.slots.length := by
  cases op with
  | «seal» p =>
    simp only [step, Core.encrypt]
    split <;> simp
  | tick => simp [step, Core.everySecond]
  | rotate K id use start => simp [step, Core.rotateKey]
  | «open» d => exact (sendEq_open c d).len

theorem step_half (c : Core) (op : SOp) : (step c op).1.half = c.half := by
  cases op with
  | «seal» p =>
    simp only [step, Core.encrypt]
    split <;> rfl
  | tick => rfl
  | rotate K id use start => rfl
  | «open» d => exact (sendEq_open c d).half

theorem run_len (c : Core) (ops : List SOp) : (run c ops).1.slots.length = c.slots.length := by
  induction ops generalizing c with
  | nil => rfl
  | cons op ops ih => rw [run_cons]; simp only; rw [ih, step_len]

theorem run_half (c : Core) (ops : List SOp) : (run c ops).1.half = c.half := by
  induction ops generalizing c with
  | nil => rfl
  | cons op ops ih => rw [run_cons]; simp only; rw [ih, step_half]

/-- what a seal does to the slots -/
theorem encrypt_slots (c : Core) (p : Bytes) (j : Nat) (k : SlotKey) (hk : c.slots[j]? = some k) :
    (c.encrypt p).1.slots[j]? = some (if c.cur = j then { k with send := (k.send + 1) % NONCE_MOD } else k) := by
  have hj : j < c.slots.length := (List.getElem?_eq_some_iff.1 hk).1
  simp only [Core.encrypt]
  cases hc : c.slots[c.cur]? with
  | none =>
    have : c.cur ≠ j := by intro h; rw [h, hk] at hc; cases hc
    simp only [if_neg this, hk]
  | some kc =>
    simp only
    by_cases hcj : c.cur = j
    · subst hcj
      rw [hk] at hc; cases hc
      rw [List.getElem?_set_self hj, if_pos rfl]
    · rw [List.getElem?_set_ne hcj, if_neg hcj, hk]

/-- what a rotation does to the slots -/
theorem rotate_slots (c : Core) (K : KeyRef) (id : Nat) (use : Bool) (start : Nat) (j : Nat) :
    (c.rotateKey K id use start).slots[j]? =
      if id % 4 = j then (if id % 4 < c.slots.length then some (SlotKey.new K c.half start) else none) else c.slots[j]? := by
  simp only [Core.rotateKey, Core.SLOTS, List.getElem?_set]

/-- what a tick does to the slots -/
theorem tick_slots (c : Core) (j : Nat) : c.everySecond.slots[j]? = (c.slots[j]?).map SlotKey.updateMinNonce := by
  simp only [Core.everySecond, List.getElem?_map]

/-- what opening a datagram does to the slots: nothing, or one `accept` step on the addressed slot -/
theorem open_slots (c : Core) (d : Dgram) (j : Nat) (k : SlotKey) (hk : c.slots[j]? = some k) :
    (c.decrypt d).1.slots[j]? = some k ∨
    (d.keyId = j ∧ (∃ p, (c.decrypt d).2 = .ok p) ∧ k.min ≤ c.reconstruct d.counter ∧
      (c.decrypt d).1.slots[j]? = some (slotStep k (.accept (c.reconstruct d.counter)))) := by
  rcases decrypt_cases c d with ⟨e, he⟩ | ⟨k0, p, _, _, hk0, hmin, _, hd⟩
  · left; rw [he]; exact hk
  · by_cases hj : d.keyId = j
    · right
      subst hj
      rw [hk] at hk0; cases hk0
      have hlt : d.keyId < c.slots.length := (List.getElem?_eq_some_iff.1 hk).1
      refine ⟨rfl, ⟨p, by rw [hd]⟩, hmin, ?_⟩
      rw [hd]
      exact List.getElem?_set_self hlt
    · left
      rw [hd]
      simp only
      rw [List.getElem?_set_ne hj, hk]

/-- after one step a slot holds the key it held before, unless the step rotated a key into it -/
theorem step_slot_key (c : Core) (op : SOp) (j : Nat) (k' : SlotKey) (h : (step c op).1.slots[j]? = some k') :
    (∃ k, c.slots[j]? = some k ∧ k'.key = k.key) ∨
    (∃ K id use start, op = .rotate K id use start ∧ id % 4 = j ∧ k'.key = K) := by
  have hlen := step_len c op
  have hj : j < c.slots.length := by rw [← hlen]; exact (List.getElem?_eq_some_iff.1 h).1
  obtain ⟨k, hk⟩ : ∃ k, c.slots[j]? = some k := ⟨_, List.getElem?_eq_getElem hj⟩
  cases op with
  | «seal» p =>
    simp only [step] at h
    rw [encrypt_slots c p j k hk] at h
    cases h
    left; exact ⟨k, hk, by split <;> rfl⟩
  | tick =>
    simp only [step] at h
    rw [tick_slots, hk] at h
    cases h
    left; exact ⟨k, hk, rfl⟩
  | rotate K id use start =>
    simp only [step] at h
    rw [rotate_slots] at h
    by_cases hij : id % 4 = j
    · rw [if_pos hij] at h
      split at h
      · cases h; right; exact ⟨K, id, use, start, rfl, hij, rfl⟩
      · cases h
    · rw [if_neg hij] at h
      left; exact ⟨k', h, rfl⟩
  | «open» d =>
    simp only [step] at h
    rcases open_slots c d j k hk with h1 | ⟨_, _, _, h1⟩
    · rw [h1] at h; have h' := Option.some.inj h; subst h'; left; exact ⟨k, hk, rfl⟩
    · rw [h1] at h; have h' := Option.some.inj h; subst h'; left; exact ⟨k, hk, (slotStep_accept_key k _).1⟩

/-! ## 3. the send counter between rotations -/

/-- number of seal operations of a trace -/
def numSeals : List SOp → Nat
  | [] => 0
  | .seal _ :: ops => numSeals ops + 1
  | .tick :: ops => numSeals ops
  | .rotate _ _ _ _ :: ops => numSeals ops
  | .open _ :: ops => numSeals ops

theorem step_send_mono (c : Core) (op : SOp) (j : Nat) (k : SlotKey) (hk : c.slots[j]? = some k)
    (hnr : ∀ K id use start, op = .rotate K id use start → id % 4 ≠ j)
    (hnw : k.send + numSeals [op] < NONCE_MOD) :
    ∃ k', (step c op).1.slots[j]? = some k' ∧ k'.key = k.key ∧ k.send ≤ k'.send ∧
      k'.send ≤ k.send + numSeals [op] := by
  cases op with
  | «seal» p =>
    simp only [numSeals] at hnw
    refine ⟨_, encrypt_slots c p j k hk, ?_, ?_, ?_⟩
    · split <;> rfl
    · split
      · show k.send ≤ (k.send + 1) % NONCE_MOD
        rw [Nat.mod_eq_of_lt hnw]; omega
      · exact Nat.le_refl _
    · split
      · show (k.send + 1) % NONCE_MOD ≤ _
        rw [Nat.mod_eq_of_lt hnw]; simp [numSeals]
      · omega
  | tick =>
    refine ⟨k.updateMinNonce, ?_, rfl, Nat.le_refl _, Nat.le_add_right _ _⟩
    simp only [step]; rw [tick_slots, hk]; rfl
  | rotate K id use start =>
    refine ⟨k, ?_, rfl, Nat.le_refl _, Nat.le_add_right _ _⟩
    simp only [step]; rw [rotate_slots, if_neg (hnr K id use start rfl), hk]
  | «open» d =>
    rcases open_slots c d j k hk with h1 | ⟨_, _, _, h1⟩
    · exact ⟨k, h1, rfl, Nat.le_refl _, Nat.le_add_right _ _⟩
    · exact ⟨_, h1, (slotStep_accept_key k _).1, by rw [(slotStep_accept_key k _).2.1]; exact Nat.le_refl _,
        by rw [(slotStep_accept_key k _).2.1]; exact Nat.le_add_right _ _⟩

theorem numSeals_cons (op : SOp) (ops : List SOp) : numSeals (op :: ops) = numSeals [op] + numSeals ops := by
  cases op <;> simp [numSeals] <;> omega

/-! ## traces that only seal (for the non-vacuity of the 56-bit statement) -/

theorem run_seals (c : Core) (ps : List Bytes) : run c (ps.map SOp.seal) = sealMany c ps := by
  induction ps generalizing c with
  | nil => rfl
  | cons p ps ih =>
    simp only [List.map_cons, run_cons, step, sealMany, ih, List.singleton_append]

theorem rotatedKeys_seals (ps : List Bytes) : rotatedKeys (ps.map SOp.seal) = [] := by
  induction ps with
  | nil => rfl
  | cons p ps ih => simpa [rotatedKeys] using ih

theorem rotatedStarts_seals (ps : List Bytes) : rotatedStarts (ps.map SOp.seal) = [] := by
  induction ps with
  | nil => rfl
  | cons p ps ih => simpa [rotatedStarts] using ih

/-- a trace of `N` seals from a new core: hypotheses of the session theorems hold for `N` below the limit, and
    the last datagram carries the nonce `base + start + N` -/
theorem seals_only (key : KeyRef) (half : Bool) (dummy : KeyRef) (s0 N : Nat) (hs0 : s0 < 2 ^ 48)
    (hN : N < 2 ^ 95 - 2 ^ 48) (hpos : 0 < N) :
    Fresh [key, dummy] ((List.replicate N ([] : Bytes)).map SOp.seal) ∧
    StartsOK ((List.replicate N ([] : Bytes)).map SOp.seal) ∧
    (∀ K, sealsUnder K (run (Core.new key half dummy [s0]) ((List.replicate N ([] : Bytes)).map SOp.seal)).2 < 2 ^ 95 - 2 ^ 48) ∧
    ∃ d ∈ (run (Core.new key half dummy [s0]) ((List.replicate N ([] : Bytes)).map SOp.seal)).2,
      sealedWith d = some (key, base half + s0 + N) := by
  have hlt : (SlotKey.new key half s0).send + (List.replicate N ([] : Bytes)).length < NONCE_MOD := by
    rw [List.length_replicate, nonce_mod_eq]
    rw [pow48] at hs0
    rw [pow95, pow48] at hN
    show base half + s0 + N < _
    rcases base_cases half with hb | hb <;> rw [hb] <;> omega
  have hlog := C04.send_strictly_increasing (Core.new key half dummy [s0]) (List.replicate N ([] : Bytes))
    (SlotKey.new key half s0) rfl hlt
  rw [List.length_replicate] at hlog
  refine ⟨?_, ?_, ?_, ?_⟩
  · unfold Fresh; rw [rotatedKeys_seals]; simp
  · unfold StartsOK; rw [rotatedStarts_seals]; simp
  · intro K
    refine Nat.lt_of_le_of_lt (sealsUnder_le_length K _) ?_
    have := congrArg List.length hlog
    rw [List.length_map, List.length_map, List.length_range] at this
    rw [run_seals, this]
    exact hN
  · have hmem : some (key, base half + s0 + N) ∈
        ((sealMany (Core.new key half dummy [s0]) (List.replicate N ([] : Bytes))).2.map sealedWith) := by
      rw [hlog, List.mem_map]
      refine ⟨N - 1, List.mem_range.2 (by omega), ?_⟩
      show some (key, base half + s0 + 1 + (N - 1)) = _
      congr 2
      omega
    obtain ⟨d, hd, hsw⟩ := List.mem_map.1 hmem
    exact ⟨d, by rw [run_seals]; exact hd, hsw⟩

end VpnCloud.Proofs.C04Session
