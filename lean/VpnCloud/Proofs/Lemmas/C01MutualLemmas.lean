import VpnCloud.Proofs.C05Agree
/-
  Helper lemmas for `Proofs/C01Mutual.lean` (two nodes become peers exactly when each trusts the other's key).

  The two-party system of `Proofs/C05Agree.lean` is used unchanged.  Its invariant `Inv` identifies the author of a logged
  signature by the salted node-id hash inside the signed message and never looks at keys or trust sets (the trust sets of `Sys`
  are arbitrary; (I1) is the only place where they enter).  Here a second invariant `TInv` is layered on top of it:
    * `KeyInv`  — every logged signature is over a well-formed message of one of the two objects, made with THAT object's key,
                  and if the message is a pong or a peng its author trusts the key of the other object;
    * `lastx/lasty/sent` — the stored last message of each object and every datagram ever sent is the wire form of a logged message
                  of that object (`Wire`);
    * `donex/doney` — an object that reported success implies mutual trust.
-/
namespace VpnCloud.Proofs.C01MutualLemmas

open VpnCloud VpnCloud.Init VpnCloud.InitMsg
open VpnCloud.Proofs.InitLemmas VpnCloud.Proofs.C05AgreeLemmas VpnCloud.Proofs.LockstepLemmas
open VpnCloud.Proofs.C16Init (algosWF msgWF)

/-! ## the key invariant -/

/-- message `m`, signed with key `k`, is a message of object `x` (peer `y`): it carries the hash of `x`, the key is the key of `x`, and
    if it is a reply (pong / peng) then `x` trusts the key of `y` -/
def SignedBy (x y : InitSt) (k : Bytes) (m : InitMsg) : Prop :=
  m.hash = x.hash ∧ k = x.ownKey ∧ (m.stage ≠ Generated.STAGE_PING → y.ownKey ∈ x.trusted)

/-- every logged signature is over the signed region of a well-formed message of one of the two objects, made with its key -/
def KeyInv (x y : InitSt) (sigs : List (Bytes × Bytes)) : Prop :=
  ∀ k r, (k, r) ∈ sigs → ∃ m salt kh, r = signedRegion m salt kh ∧ salt.length = 4 ∧ kh.length = 4 ∧ msgWF m ∧
    (SignedBy x y k m ∨ SignedBy y x k m)

/-- `l` is the datagram of a logged well-formed message of object `x` -/
def Wire (x : InitSt) (sigs : List (Bytes × Bytes)) (l : Bytes) : Prop :=
  ∃ m salt kh sig, l = writeTo m salt kh sig ∧ salt.length = 4 ∧ kh.length = 4 ∧ msgWF m ∧ m.hash = x.hash ∧
    (x.ownKey, signedRegion m salt kh) ∈ sigs

/-- both ends trust each other's key -/
def Mutual (x y : InitSt) : Prop := y.ownKey ∈ x.trusted ∧ x.ownKey ∈ y.trusted

theorem Mutual.symm {x y : InitSt} (h : Mutual x y) : Mutual y x := ⟨h.2, h.1⟩

structure TInv (x y : InitSt) (dx dy : List (Bytes × Bool)) (sigs : List (Bytes × Bytes)) (sent : List Bytes) : Prop where
  key : KeyInv x y sigs
  lastx : ∀ l, x.last = some l → Wire x sigs l
  lasty : ∀ l, y.last = some l → Wire y sigs l
  sent : ∀ o ∈ sent, Wire x sigs o ∨ Wire y sigs o
  donex : dx ≠ [] → Mutual x y
  doney : dy ≠ [] → Mutual x y

theorem SignedBy.static_l {x x' y : InitSt} {k : Bytes} {m : InitMsg} (hst : Static x x') (h : SignedBy x y k m) : SignedBy x' y k m := by
  obtain ⟨_, hh, _, hk, ht, _⟩ := hst
  unfold SignedBy
  rw [hh, hk, ht]; exact h

theorem SignedBy.static_r {x y y' : InitSt} {k : Bytes} {m : InitMsg} (hst : Static y y') (h : SignedBy x y k m) : SignedBy x y' k m := by
  obtain ⟨_, _, _, hk, _, _⟩ := hst
  unfold SignedBy
  rw [hk]; exact h

theorem Wire.static {x x' : InitSt} {sigs : List (Bytes × Bytes)} {l : Bytes} (hst : Static x x') (h : Wire x sigs l) : Wire x' sigs l := by
  obtain ⟨_, hh, _, hk, _, _⟩ := hst
  unfold Wire
  rw [hh, hk]; exact h

theorem Wire.mono {x : InitSt} {sigs sg : List (Bytes × Bytes)} {l : Bytes} (h : Wire x sigs l) : Wire x (sigs ++ sg) l := by
  obtain ⟨m, salt, kh, sig, h1, h2, h3, h4, h5, h6⟩ := h
  exact ⟨m, salt, kh, sig, h1, h2, h3, h4, h5, List.mem_append_left _ h6⟩

theorem Mutual.static_l {x x' y : InitSt} (hst : Static x x') (h : Mutual x y) : Mutual x' y := by
  obtain ⟨_, _, _, hk, ht, _⟩ := hst
  unfold Mutual
  rw [hk, ht]; exact h

theorem TInv.swap {x y : InitSt} {dx dy : List (Bytes × Bool)} {sigs : List (Bytes × Bytes)} {sent : List Bytes}
    (t : TInv x y dx dy sigs sent) : TInv y x dy dx sigs sent :=
  ⟨fun k r hk => by
      obtain ⟨m, salt, kh, h1, h2, h3, h4, h5⟩ := t.key k r hk
      exact ⟨m, salt, kh, h1, h2, h3, h4, h5.symm⟩,
    t.lasty, t.lastx, fun o ho => (t.sent o ho).symm, fun h => (t.doney h).symm, fun h => (t.donex h).symm⟩

section
variable {x y : InitSt} {dx dy : List (Bytes × Bool)} {sigs : List (Bytes × Bytes)} {sent : List Bytes}

/-- a step of `x`: same static fields, new signatures on messages of `x`, the new last message and the datagram sent are logged -/
theorem TInv.update (t : TInv x y dx dy sigs sent) {x' : InitSt} (hst : Static x x') {sg : List (Bytes × Bytes)} {out : Bytes}
    {dn : List (Bytes × Bool)}
    (hsg : ∀ k r, (k, r) ∈ sg → ∃ m salt kh, r = signedRegion m salt kh ∧ salt.length = 4 ∧ kh.length = 4 ∧ msgWF m ∧ SignedBy x y k m)
    (hlast : ∀ l, x'.last = some l → Wire x (sigs ++ sg) l)
    (hout : out = [] ∨ Wire x (sigs ++ sg) out)
    (hdn : dn ≠ [] → Mutual x y) :
    TInv x' y (dn ++ dx) dy (sigs ++ sg) (if out = [] then sent else sent ++ [out]) := by
  refine ⟨?_, ?_, ?_, ?_, ?_, ?_⟩
  · intro k r hk
    rcases List.mem_append.1 hk with hk | hk
    · obtain ⟨m, salt, kh, h1, h2, h3, h4, h5⟩ := t.key k r hk
      refine ⟨m, salt, kh, h1, h2, h3, h4, ?_⟩
      rcases h5 with h5 | h5
      · exact Or.inl (h5.static_l hst)
      · exact Or.inr (h5.static_r hst)
    · obtain ⟨m, salt, kh, h1, h2, h3, h4, h5⟩ := hsg k r hk
      exact ⟨m, salt, kh, h1, h2, h3, h4, Or.inl (h5.static_l hst)⟩
  · intro l hl; exact (hlast l hl).static hst
  · intro l hl; exact (t.lasty l hl).mono
  · intro o ho
    have key : o ∈ sent ∨ (out ≠ [] ∧ o = out) := by
      by_cases he : out = []
      · rw [if_pos he] at ho; exact Or.inl ho
      · rw [if_neg he] at ho
        rcases List.mem_append.1 ho with h | h
        · exact Or.inl h
        · exact Or.inr ⟨he, List.mem_singleton.1 h⟩
    rcases key with h | ⟨he, rfl⟩
    · rcases t.sent o h with h | h
      · exact Or.inl (h.mono.static hst)
      · exact Or.inr h.mono
    · rcases hout with h | h
      · exact absurd h he
      · exact Or.inl (h.static hst)
  · intro hne
    by_cases hd : dn = []
    · subst hd
      exact (t.donex hne).static_l hst
    · exact (hdn hd).static_l hst
  · intro hne; exact (t.doney hne).static_l hst

/-- a step of `x` that signs nothing and sends at most its last message again -/
theorem TInv.update0 (t : TInv x y dx dy sigs sent) {x' : InitSt} (hst : Static x x') (hl : x'.last = x.last ∨ x'.last = none)
    {out : Bytes} (hout : out = [] ∨ x.last = some out) {dn : List (Bytes × Bool)} (hdn : dn ≠ [] → Mutual x y) :
    TInv x' y (dn ++ dx) dy sigs (if out = [] then sent else sent ++ [out]) := by
  have := t.update (x' := x') hst (sg := []) (out := out) (dn := dn) (by intro k r hk; cases hk)
    (by
      intro l hl'
      rcases hl with h | h
      · rw [h] at hl'; exact (t.lastx l hl').mono
      · rw [h] at hl'; cases hl')
    (by
      rcases hout with h | h
      · exact Or.inl h
      · exact Or.inr (t.lastx _ h).mono)
    hdn
  rwa [List.append_nil] at this

/-- **every accepted message of the other node was signed with the key of the peer object, which the receiver trusts** (from I1);
    and if it is a reply, its author trusts the receiver's key -/
theorem KeyInv.bridge (t : KeyInv x y sigs) (env : CryptoEnv) {w : Bytes} {m : InitMsg} {k : Bytes}
    (hI : I1 env sigs x.trusted w) (hr : readFrom env w x.trusted = .ok (m, k)) (hne : x.hash ≠ m.hash) :
    m.hash = y.hash ∧ k = y.ownKey ∧ y.ownKey ∈ x.trusted ∧ (m.stage ≠ Generated.STAGE_PING → x.ownKey ∈ y.trusted) := by
  obtain ⟨hk, _, signed, sig, rest, hw, hv⟩ := VpnCloud.Proofs.C01.readFrom_accept_genuine env w x.trusted m k hr
  have hmem := hI signed sig rest k hw hk hv
  obtain ⟨m', salt, kh, h1, h2, h3, h4, h5⟩ := t k signed hmem
  have hw' : w = signedRegion m' salt kh ++ ([sig.length] ++ sig ++ rest) := by rw [hw, h1]; simp
  rw [hw'] at hr
  have hm := readFrom_signed_inv env m' salt kh _ x.trusted m k h4 h2 h3 hr
  subst hm
  rcases h5 with ⟨h5, _⟩ | ⟨h5, h6, h7⟩
  · exact absurd h5.symm hne
  · exact ⟨h5, h6, h6 ▸ hk, h7⟩

theorem newSig_key {st st' : InitSt} {out : Bytes} {rnd : Rand} {k r : Bytes} (h : (k, r) ∈ newSig st st' out rnd) : k = st.ownKey := by
  unfold newSig at h
  split at h
  · simp only [List.mem_singleton, Prod.mk.injEq] at h
    exact h.1
  · cases h

/-- `x` stores and sends the datagram of a new well-formed message `m0` of its own -/
theorem TInv.replied (t : TInv x y dx dy sigs sent) (env : CryptoEnv) {rnd : Rand} (hrnd : RandOK env x rnd) {x' : InitSt}
    (hst : Static x x') {m0 : InitMsg} (hwf : msgWF m0) (hh0 : m0.hash = x.hash)
    (htr : m0.stage ≠ Generated.STAGE_PING → y.ownKey ∈ x.trusted)
    (hlast : x'.last = some (wireOf env x m0 rnd)) {dn : List (Bytes × Bool)} (hdn : dn ≠ [] → Mutual x y) :
    TInv x' y (dn ++ dx) dy (sigs ++ newSig x x' (wireOf env x m0 rnd) rnd)
      (if wireOf env x m0 rnd = [] then sent else sent ++ [wireOf env x m0 rnd]) := by
  have hW : Wire x (sigs ++ newSig x x' (wireOf env x m0 rnd) rnd) (wireOf env x m0 rnd) := by
    by_cases hl : x.last = some (wireOf env x m0 rnd)
    · exact (t.lastx _ hl).mono
    · refine ⟨m0, rnd.salt, env.keyHash x.ownKey rnd.salt, rnd.sig, rfl, hrnd.salt, hrnd.keyHash, hwf, hh0, List.mem_append_right _ ?_⟩
      unfold newSig
      rw [if_pos ⟨hlast, hl⟩, wire_region]
      exact List.mem_singleton.2 rfl
  refine t.update hst ?_ ?_ (Or.inr hW) hdn
  · intro k r hk
    exact ⟨m0, rnd.salt, _, newSig_wire hk, hrnd.salt, hrnd.keyHash, hwf, hh0, newSig_key hk, htr⟩
  · intro l hl
    rw [hlast] at hl
    simp only [Option.some.injEq] at hl
    rw [← hl]; exact hW

end

/-! ## the steps of one object -/

section
variable {bodyOf : BodyOf} {x y : InitSt} {gx gy : Ghost} {dx dy : List (Bytes × Bool)} {sigs : List (Bytes × Bytes)} {seals : SealLog}
  {sent : List Bytes}

/-- `send_ping` -/
theorem TInv.ping (h : Inv2 bodyOf x y gx gy dx dy sigs seals) (t : TInv x y dx dy sigs sent) (env : CryptoEnv) {rnd : Rand}
    (hrnd : RandOK env x rnd) :
    TInv (sendPing env x rnd).1 y dx dy (sigs ++ newSig x (sendPing env x rnd).1 (sendPing env x rnd).2 rnd)
      (if (sendPing env x rnd).2 = [] then sent else sent ++ [(sendPing env x rnd).2]) := by
  have he : sendPing env x rnd =
      ({ x with
          ecdh := some rnd.ecdhPub
          last := some (wireOf env x (.ping x.hash rnd.ecdhPub x.algos) rnd)
          stage := Generated.STAGE_PONG }, wireOf env x (.ping x.hash rnd.ecdhPub x.algos) rnd) := rfl
  rw [he]
  exact t.replied (dn := []) env hrnd
    (x' := { x with
          ecdh := some rnd.ecdhPub
          last := some (wireOf env x (.ping x.hash rnd.ecdhPub x.algos) rnd)
          stage := Generated.STAGE_PONG }) ⟨rfl, rfl, rfl, rfl, rfl, rfl⟩
    (m0 := .ping x.hash rnd.ecdhPub x.algos) ⟨h.wx.hash, by rw [hrnd.ecdh.1]; decide, h.wx.algos⟩ rfl
    (fun hs => absurd rfl hs) rfl (fun hd => absurd rfl hd)

theorem everySecond_out (x : InitSt) :
    (match (everySecond x).2 with | .ok o => o | .error _ => []) = [] ∨
    x.last = some (match (everySecond x).2 with | .ok o => o | .error _ => []) := by
  unfold everySecond
  by_cases h1 : x.stage = Generated.WAITING_TO_CLOSE
  · rw [if_pos h1]
    by_cases h2 : x.closeTime = 0
    · rw [if_pos h2]; exact Or.inl rfl
    · rw [if_neg h2]; exact Or.inl rfl
  · rw [if_neg h1]
    by_cases h2 : x.stage = Generated.CLOSING
    · rw [if_pos h2]; exact Or.inl rfl
    · rw [if_neg h2]
      by_cases h3 : x.retries < Generated.MAX_FAILED_RETRIES
      · rw [if_pos h3]
        cases hl : x.last with
        | none => exact Or.inl rfl
        | some l => exact Or.inr rfl
      · rw [if_neg h3]; exact Or.inl rfl

/-- `every_second` -/
theorem TInv.tick (t : TInv x y dx dy sigs sent) :
    TInv (everySecond x).1 y dx dy sigs
      (if (match (everySecond x).2 with | .ok o => o | .error _ => []) = [] then sent
       else sent ++ [match (everySecond x).2 with | .ok o => o | .error _ => []]) := by
  obtain ⟨s', ct, rt, _, he⟩ := everySecond_fst x
  refine t.update0 (dn := []) ?_ ?_ (everySecond_out x) (fun h => absurd rfl h)
  · rw [he]; exact ⟨rfl, rfl, rfl, rfl, rfl, rfl⟩
  · rw [he]; exact Or.inl rfl

/-- the stored last message after a delivery that ends in an error: unchanged or dropped (role switch) -/
theorem eff_last_err {env : CryptoEnv} {ok : Bytes → Bool} {w : Bytes} {rnd : Rand} {R : Res}
    (he : Eff env bodyOf ok x w rnd R) {st' : InitSt} {e : InitErr} (hR : R = .err st' e) : st'.last = x.last ∨ st'.last = none := by
  cases he with
  | quietErr e => simp only [Outcome.err.injEq] at hR; rw [← hR.1]; exact Or.inl rfl
  | quietOk o ho => cases hR
  | panic => cases hR
  | pingErr hh e al k st0 er hr hne hst0 hsel =>
    simp only [Outcome.err.injEq] at hR; rw [← hR.1]
    rcases hst0 with ⟨rfl, _⟩ | ⟨rfl, _⟩
    · exact Or.inl rfl
    · exact Or.inr rfl
  | pingOk => unfold pingRes at hR; cases hR
  | pongSelErr => simp only [Outcome.err.injEq] at hR; rw [← hR.1]; exact Or.inl rfl
  | pongFail hb eb ab pl k own sel st5 r hr hne hstage hown hsel hd =>
    obtain ⟨cr, hcr⟩ := decryptPayload_frame _ _ _ _ _ hd
    simp only [Outcome.err.injEq] at hR; rw [← hR.1, hcr, pongSt_eq]
    exact Or.inl rfl
  | pongOk => unfold pongRes at hR; cases hR
  | pengFail hb pl k st2 r hr hne hstage hd =>
    obtain ⟨cr, _, rfl⟩ := decryptPayload_step hd
    simp only [Outcome.err.injEq] at hR; rw [← hR.1]
    exact Or.inl rfl
  | pengOk => cases hR

/-- **the trust invariant is preserved by every delivery that ends in an error** -/
theorem TInv.eff_err (t : TInv x y dx dy sigs sent) (env : CryptoEnv) (ok : Bytes → Bool) {w : Bytes} {rnd : Rand} {R : Res}
    (he : Eff env bodyOf ok x w rnd R) {st' : InitSt} {e : InitErr} (hR : R = .err st' e) :
    TInv st' y dx dy sigs sent := by
  have := t.update0 (out := []) (dn := []) (he.static_err hR) (eff_last_err he hR) (Or.inl rfl) (fun h => absurd rfl h)
  rwa [if_pos rfl] at this

/-- a ping of the peer is answered -/
theorem TInv.pingOk (h : Inv2 bodyOf x y gx gy dx dy sigs seals) (t : TInv x y dx dy sigs sent) (env : CryptoEnv) {w : Bytes} {rnd : Rand}
    (hI : I1 env sigs x.trusted w) (hrnd : RandOK env x rnd) {hh e : Bytes} {al : Algos} {k : Bytes} {st0 : InitSt} {sel : Option Cipher}
    (hr : readFrom env w x.trusted = .ok (.ping hh e al, k)) (hne : x.hash ≠ hh)
    (hst0 : (st0 = x ∧ x.stage = Generated.STAGE_PING) ∨ (st0 = resetSt x ∧ x.stage = Generated.STAGE_PONG ∧ bytesGt hh x.hash = true))
    (hsel : selectAlgorithm x.algos al = .ok sel) :
    ∃ st' out log, pingRes env st0 hh e sel rnd = .ok st' (out, .continue, log) ∧
      TInv st' y dx dy (sigs ++ newSig x st' out rnd) (if out = [] then sent else sent ++ [out]) := by
  obtain ⟨_, hmsg, _⟩ := h.bridge env hI hr hne
  obtain ⟨hal, _⟩ := hmsg
  subst hal
  obtain ⟨_, _, htrust, _⟩ := t.key.bridge env hI hr hne
  have hb := pingBase_of hst0
  have hown : st0.ownKey = x.ownKey := hb.static.2.2.2.1
  have hha : st0.hash = x.hash := hb.static.2.1
  have hpa : st0.payload = x.payload := hb.static.2.2.1
  have halg : st0.algos = x.algos := hb.static.2.2.2.2.2
  cases sel with
  | some c =>
    obtain ⟨core, n, pl, heq, hd8, hlen, hcur, hkeys⟩ := pingRes_some env st0 hh e c rnd
    refine ⟨_, _, _, heq, ?_⟩
    rw [wireOf_congr env _ rnd hown]
    refine t.replied (dn := []) env hrnd ?_ (m0 := .pong st0.hash rnd.ecdhPub st0.algos pl) ?_ hha (fun _ => htrust) ?_
      (fun hd => absurd rfl hd)
    · exact Static.trans hb.static ⟨rfl, rfl, rfl, rfl, rfl, rfl⟩
    · exact ⟨by rw [hha]; exact h.wx.hash, by rw [hrnd.ecdh.1]; decide, by rw [halg]; exact h.wx.algos,
        by rw [hlen]; have := hrnd.ct; omega⟩
    · rfl
  | none =>
    have hcr : st0.crypto = none := by
      rw [hb.crypto]
      cases hc : x.crypto with
      | none => rfl
      | some core =>
        obtain ⟨c, hc'⟩ := h.ox.l1 core hc
        rw [hc'] at hsel; cases hsel
    have heq := pingRes_none env st0 hh e rnd hcr
    refine ⟨_, _, _, heq, ?_⟩
    rw [wireOf_congr env _ rnd hown]
    refine t.replied (dn := []) env hrnd ?_ (m0 := .pong st0.hash rnd.ecdhPub st0.algos st0.payload) ?_ hha (fun _ => htrust) ?_
      (fun hd => absurd rfl hd)
    · exact Static.trans hb.static ⟨rfl, rfl, rfl, rfl, rfl, rfl⟩
    · exact ⟨by rw [hha]; exact h.wx.hash, by rw [hrnd.ecdh.1]; decide, by rw [halg]; exact h.wx.algos,
        by rw [hpa]; exact h.wx.payload⟩
    · rfl

/-- the initiator completes on a pong of the peer: the two ends trust each other's key -/
theorem TInv.pongOk (h : Inv2 bodyOf x y gx gy dx dy sigs seals) (t : TInv x y dx dy sigs sent) (env : CryptoEnv) {w : Bytes} {rnd : Rand}
    (hI : I1 env sigs x.trusted w) (hrnd : RandOK env x rnd) {hb eb : Bytes} {ab : Algos} {pl k own : Bytes} {sel : Option Cipher}
    {st5 : InitSt} {p : Bytes}
    (hr : readFrom env w x.trusted = .ok (.pong hb eb ab pl, k)) (hne : x.hash ≠ hb)
    (hsel : selectAlgorithm x.algos ab = .ok sel)
    (hd : decryptPayload (pongSt x own eb hb sel rnd) bodyOf pl = (st5, some p)) :
    ∃ st' out log, pongRes env st5 rnd p = .ok st' (out, .success p true, log) ∧
      TInv st' y ((p, true) :: dx) dy (sigs ++ newSig x st' out rnd) (if out = [] then sent else sent ++ [out]) := by
  obtain ⟨_, hmsg, _⟩ := h.bridge env hI hr hne
  obtain ⟨hal, _, _⟩ := hmsg
  subst hal
  obtain ⟨_, _, htrust, htrust'⟩ := t.key.bridge env hI hr hne
  have hmut : Mutual x y := ⟨htrust, htrust' (by show Generated.STAGE_PONG ≠ Generated.STAGE_PING; decide)⟩
  cases sel with
  | some c =>
    obtain ⟨core, n, pl', heq, hd8, hlen, hcur, hkeys⟩ := pongRes_some env bodyOf x own eb hb c rnd pl st5 p hd
    refine ⟨_, _, _, heq, ?_⟩
    refine t.replied (dn := [(p, true)]) env hrnd ?_ (m0 := .peng x.hash pl') ?_ rfl (fun _ => htrust) ?_ (fun _ => hmut)
    · exact ⟨rfl, rfl, rfl, rfl, rfl, rfl⟩
    · exact ⟨h.wx.hash, by rw [hlen]; have := hrnd.ct; omega⟩
    · rfl
  | none =>
    have hcr : x.crypto = none := by
      cases hc : x.crypto with
      | none => rfl
      | some core =>
        obtain ⟨c, hc'⟩ := h.ox.l1 core hc
        rw [hc'] at hsel; cases hsel
    obtain ⟨hp, heq⟩ := pongRes_none env bodyOf x own eb hb rnd pl st5 p hcr hd
    refine ⟨_, _, _, heq, ?_⟩
    refine t.replied (dn := [(p, true)]) env hrnd ?_ (m0 := .peng x.hash x.payload) ?_ rfl (fun _ => htrust) ?_ (fun _ => hmut)
    · exact ⟨rfl, rfl, rfl, rfl, rfl, rfl⟩
    · exact ⟨h.wx.hash, h.wx.payload⟩
    · rfl

/-- **the trust invariant is preserved by every delivery that the object handles without error** -/
theorem TInv.eff_ok (h : Inv2 bodyOf x y gx gy dx dy sigs seals) (t : TInv x y dx dy sigs sent) (env : CryptoEnv) (ok : Bytes → Bool)
    {w : Bytes} {rnd : Rand} (hI : I1 env sigs x.trusted w) (hrnd : RandOK env x rnd) {R : Res} (he : Eff env bodyOf ok x w rnd R)
    {st' : InitSt} {out : Bytes} {res : InitResult} {log : SealLog} (hR : R = .ok st' (out, res, log)) :
    TInv st' y (doneOf res ++ dx) dy (sigs ++ newSig x st' out rnd) (if out = [] then sent else sent ++ [out]) := by
  cases he with
  | quietErr e => cases hR
  | quietOk o ho =>
    simp only [Outcome.ok.injEq, Prod.mk.injEq] at hR
    obtain ⟨rfl, rfl, rfl, rfl⟩ := hR
    rw [newSig_same, List.append_nil]
    exact t.update0 (dn := []) (Static.refl x) (Or.inl rfl) ho (fun hd => absurd rfl hd)
  | panic => cases hR
  | pingErr => cases hR
  | pingOk hh e al k st0 sel hr hne hst0 hsel =>
    obtain ⟨st2, out2, log2, heq, hinv⟩ := t.pingOk h env hI hrnd hr hne hst0 hsel
    rw [heq] at hR
    simp only [Outcome.ok.injEq, Prod.mk.injEq] at hR
    obtain ⟨rfl, rfl, rfl, rfl⟩ := hR
    exact hinv
  | pongSelErr => cases hR
  | pongFail => cases hR
  | pongOk hb eb ab pl k own sel st5 p hr hne hstage hown hsel hd hok =>
    obtain ⟨st2, out2, log2, heq, hinv⟩ := t.pongOk h env hI hrnd hr hne hsel hd
    rw [heq] at hR
    simp only [Outcome.ok.injEq, Prod.mk.injEq] at hR
    obtain ⟨rfl, rfl, rfl, rfl⟩ := hR
    exact hinv
  | pengFail => cases hR
  | pengOk hb pl k st2 p hr hne hstage hd hok =>
    simp only [Outcome.ok.injEq, Prod.mk.injEq] at hR
    obtain ⟨rfl, rfl, rfl, rfl⟩ := hR
    obtain ⟨_, _, htrust, htrust'⟩ := t.key.bridge env hI hr hne
    have hmut : Mutual x y := ⟨htrust, htrust' (by show Generated.STAGE_PENG ≠ Generated.STAGE_PING; decide)⟩
    obtain ⟨cr, _, hst2⟩ := decryptPayload_step hd
    have hl : ({ st2 with stage := Generated.CLOSING } : InitSt).last = x.last := by rw [hst2]
    rw [newSig_last_same _ _ _ _ hl, List.append_nil]
    have := t.update0 (x' := { st2 with stage := Generated.CLOSING }) (out := []) (dn := [(p, false)])
      (by rw [hst2]; exact ⟨rfl, rfl, rfl, rfl, rfl, rfl⟩) (Or.inl hl) (Or.inl rfl) (fun _ => hmut)
    exact this

end

/-! ## the two-party system -/

open VpnCloud.Proofs.C05Agree

/-- the trust invariant of the two-party system of `C05Agree` -/
def TI (s : Sys) : Prop := TInv s.a s.b s.doneA s.doneB s.sigs s.sent

theorem ti_init (s : Sys) (h : Init0 s) : TI s := by
  refine ⟨?_, ?_, ?_, ?_, ?_, ?_⟩
  · intro k r hk; rw [h.sigs] at hk; cases hk
  · intro l hl; rw [h.a.last] at hl; cases hl
  · intro l hl; rw [h.b.last] at hl; cases hl
  · intro o ho; rw [h.sent] at ho; cases ho
  · intro hd; exact absurd h.doneA hd
  · intro hd; exact absurd h.doneB hd

theorem ti_updA (s : Sys) (st' : InitSt) (out : Bytes) (sg : List (Bytes × Bytes)) (log : SealLog) (dn : List (Bytes × Bool)) :
    TI (s.upd .A st' out sg log dn) ↔
      TInv st' s.b (dn ++ s.doneA) s.doneB (s.sigs ++ sg) (if out = [] then s.sent else s.sent ++ [out]) := Iff.rfl

theorem ti_updB (s : Sys) (st' : InitSt) (out : Bytes) (sg : List (Bytes × Bytes)) (log : SealLog) (dn : List (Bytes × Bool)) :
    TI (s.upd .B st' out sg log dn) ↔
      TInv s.a st' s.doneA (dn ++ s.doneB) (s.sigs ++ sg) (if out = [] then s.sent else s.sent ++ [out]) := Iff.rfl

/-- every step preserves the trust invariant (given the invariant `Inv` of `C05Agree` before the step) -/
theorem ti_step (P : Params) (s s' : Sys) (hi : Inv P s) (t : TI s) (hs : Step P s s') : TI s' := by
  obtain ⟨ga, gb, h⟩ := hi
  have t' : TInv s.a s.b s.doneA s.doneB s.sigs s.sent := t
  cases hs with
  | ping x rnd hst hr =>
    cases x with
    | A => exact (ti_updA ..).2 (t'.ping h P.env hr)
    | B => exact (ti_updB ..).2 (t'.swap.ping h.swap P.env hr).swap
  | tick x =>
    cases x with
    | A =>
      refine (ti_updA ..).2 ?_
      rw [List.append_nil, List.nil_append]
      exact t'.tick
    | B =>
      refine (ti_updB ..).2 ?_
      rw [List.append_nil, List.nil_append]
      exact t'.swap.tick.swap
  | deliver x w rnd st' out res log hI hr hh =>
    cases x with
    | A => exact (ti_updA ..).2 (t'.eff_ok h P.env P.ok hI hr (handleInit_eff P.env P.bodyOf P.ok s.a w rnd) hh)
    | B => exact (ti_updB ..).2 (t'.swap.eff_ok h.swap P.env P.ok hI hr (handleInit_eff P.env P.bodyOf P.ok s.b w rnd) hh).swap
  | deliverErr x w rnd st' e hI hh =>
    cases x with
    | A =>
      refine (ti_updA ..).2 ?_
      rw [List.append_nil, List.nil_append, if_pos rfl]
      exact t'.eff_err P.env P.ok (handleInit_eff P.env P.bodyOf P.ok s.a w rnd) hh
    | B =>
      refine (ti_updB ..).2 ?_
      rw [List.append_nil, List.nil_append, if_pos rfl]
      exact (t'.swap.eff_err P.env P.ok (handleInit_eff P.env P.bodyOf P.ok s.b w rnd) hh).swap

theorem ti_reach (P : Params) (s0 s : Sys) (h0 : Init0 s0) (hr : Reach P s0 s) : Inv P s ∧ TI s := by
  induction hr with
  | refl => exact ⟨inv_init P s0 h0, ti_init s0 h0⟩
  | step _ hs ih => exact ⟨inv_step P _ _ ih.1 hs, ti_step P _ _ ih.1 ih.2 hs⟩

end VpnCloud.Proofs.C01MutualLemmas
