import VpnCloud.Model.Init
import VpnCloud.Spec.C06
/-
  Helper lemmas for C06 (cipher negotiation): the lexicographic order on (cipher, speed) pairs,
  a generic "fold computes a maximum" lemma, membership characterisations of the candidate lists.
-/
namespace VpnCloud.Proofs.NegoLemmas
open VpnCloud VpnCloud.Init VpnCloud.Spec.C06

/-! ### the order: speed first, then wire id -/

def lexle (x y : Cipher × Nat) : Prop := x.2 < y.2 ∨ (x.2 = y.2 ∧ x.1.wireId ≤ y.1.wireId)

theorem lexle_refl (x : Cipher × Nat) : lexle x x := by unfold lexle; omega

theorem lexle_trans {x y z : Cipher × Nat} (h1 : lexle x y) (h2 : lexle y z) : lexle x z := by
  unfold lexle at *; omega

theorem lexle_total (x y : Cipher × Nat) : lexle x y ∨ lexle y x := by unfold lexle; omega

theorem wireId_inj {c d : Cipher} (h : c.wireId = d.wireId) : c = d := by
  cases c <;> cases d <;> simp [Cipher.wireId] at h <;> rfl

theorem lexle_antisymm {x y : Cipher × Nat} (h1 : lexle x y) (h2 : lexle y x) : x = y := by
  unfold lexle at *
  have h2' : x.2 = y.2 := by omega
  have h1' : x.1.wireId = y.1.wireId := by omega
  exact Prod.ext (wireId_inj h1') h2'

theorem lexle_snd {x y : Cipher × Nat} (h : lexle x y) : x.2 ≤ y.2 := by unfold lexle at h; omega

/-! ### folds that keep one of their two arguments, the larger one -/

theorem foldl_sel_mem {α : Type} (step : α → α → α) (hs : ∀ x y, step x y = x ∨ step x y = y)
    (l : List α) (init : α) : l.foldl step init ∈ init :: l := by
  induction l generalizing init with
  | nil => simp
  | cons a l ih =>
    simp only [List.foldl_cons]
    have := ih (step init a)
    rcases hs init a with h | h <;> rw [h] at this ⊢ <;> simp only [List.mem_cons] at this ⊢
    · rcases this with h | h
      · exact Or.inl h
      · exact Or.inr (Or.inr h)
    · exact Or.inr this

theorem foldl_sel_ge (step : Cipher × Nat → Cipher × Nat → Cipher × Nat)
    (hs : ∀ x y, lexle x (step x y) ∧ lexle y (step x y))
    (l : List (Cipher × Nat)) (init : Cipher × Nat) : ∀ z ∈ init :: l, lexle z (l.foldl step init) := by
  induction l generalizing init with
  | nil => intro z hz; simp at hz; subst hz; exact lexle_refl _
  | cons a l ih =>
    intro z hz
    simp only [List.foldl_cons]
    have ih' := ih (step init a)
    simp only [List.mem_cons] at hz ih'
    rcases hz with rfl | rfl | hz
    · exact lexle_trans (hs _ _).1 (ih' _ (Or.inl rfl))
    · exact lexle_trans (hs _ _).2 (ih' _ (Or.inl rfl))
    · exact ih' _ (Or.inr hz)

/-- step function of the reference -/
def refStep (x y : Cipher × Nat) : Cipher × Nat :=
  if y.2 > x.2 ∨ (y.2 = x.2 ∧ y.1.wireId > x.1.wireId) then y else x

/-- step function of the model (`Iterator::max_by`) -/
def modStep (x y : Cipher × Nat) : Cipher × Nat :=
  if x.2 < y.2 then y else if y.2 < x.2 then x else if rank x.1 > rank y.1 then x else y

theorem refStep_sel (x y) : refStep x y = x ∨ refStep x y = y := by unfold refStep; split <;> simp
theorem modStep_sel (x y) : modStep x y = x ∨ modStep x y = y := by
  unfold modStep; split <;> (try split) <;> (try split) <;> simp

theorem refStep_ge (x y) : lexle x (refStep x y) ∧ lexle y (refStep x y) := by
  unfold refStep lexle; split <;> omega

theorem modStep_ge (x y) : lexle x (modStep x y) ∧ lexle y (modStep x y) := by
  unfold modStep lexle rank; split <;> (try split) <;> (try split) <;> omega

/-- a maximum of a list w.r.t. `lexle` -/
def IsMax (l : List (Cipher × Nat)) (b : Cipher × Nat) : Prop := b ∈ l ∧ ∀ z ∈ l, lexle z b

theorem isMax_unique {l l' : List (Cipher × Nat)} {b b'} (hm : ∀ z, z ∈ l ↔ z ∈ l')
    (h : IsMax l b) (h' : IsMax l' b') : b = b' :=
  lexle_antisymm (h'.2 _ ((hm _).1 h.1)) (h.2 _ ((hm _).2 h'.1))

theorem ref_fold_isMax (cs : List (Cipher × Nat)) (hne : cs ≠ []) :
    IsMax cs (cs.foldl refStep (cs.headD (.aes128, 0))) := by
  cases cs with
  | nil => exact absurd rfl hne
  | cons a l =>
    simp only [List.headD_cons]
    constructor
    · have := foldl_sel_mem refStep refStep_sel (a :: l) a
      simpa using this
    · intro z hz
      exact foldl_sel_ge refStep refStep_ge (a :: l) a z (List.mem_cons_of_mem _ hz)

theorem mod_fold_isMax (a : Cipher × Nat) (l : List (Cipher × Nat)) :
    IsMax (a :: l) (l.foldl modStep a) :=
  ⟨foldl_sel_mem modStep modStep_sel l a, foldl_sel_ge modStep modStep_ge l a⟩

/-! ### speedOf and membership -/

theorem mem_allCiphers (c : Cipher) : c ∈ allCiphers := by cases c <;> simp [allCiphers]

theorem mem_common {a b : Algos} {z : Cipher × Nat} :
    z ∈ common a b ↔ ∃ x y, speedOf a z.1 = some x ∧ speedOf b z.1 = some y ∧ z.2 = min x y := by
  unfold common
  simp only [List.mem_filterMap]
  constructor
  · rintro ⟨c, -, h⟩
    split at h
    · rename_i x y hx hy
      simp only [Option.some.injEq] at h
      subst h
      exact ⟨x, y, hx, hy, rfl⟩
    · simp at h
  · rintro ⟨x, y, hx, hy, hz⟩
    refine ⟨z.1, mem_allCiphers _, ?_⟩
    rw [hx, hy]
    simp only [Option.some.injEq]
    exact Prod.ext rfl hz.symm

theorem common_eq_nil {a b : Algos} : common a b = [] ↔ ∀ c, speedOf a c = none ∨ speedOf b c = none := by
  constructor
  · intro h c
    cases hx : speedOf a c with
    | none => exact Or.inl rfl
    | some x =>
      cases hy : speedOf b c with
      | none => exact Or.inr rfl
      | some y =>
        have : (c, min x y) ∈ common a b := mem_common.2 ⟨x, y, hx, hy, rfl⟩
        rw [h] at this; simp at this
  · intro h
    apply List.eq_nil_iff_forall_not_mem.2
    intro z hz
    obtain ⟨x, y, hx, hy, -⟩ := mem_common.1 hz
    rcases h z.1 with h | h
    · rw [h] at hx; simp at hx
    · rw [h] at hy; simp at hy

theorem common_symm (a b : Algos) : common a b = common b a := by
  unfold common
  congr 1
  funext c
  cases speedOf a c <;> cases speedOf b c <;> simp [Nat.min_comm]

theorem speedOf_some_mem {a : Algos} {c : Cipher} {x : Nat} (h : speedOf a c = some x) : (c, x) ∈ a.speeds := by
  unfold speedOf at h
  cases hf : a.speeds.find? (fun p => p.1 = c) with
  | none => rw [hf] at h; simp at h
  | some p =>
    rw [hf] at h
    simp only [Option.map_some, Option.some.injEq] at h
    have h1 := List.find?_some hf
    have h2 := List.mem_of_find?_eq_some hf
    simp only [decide_eq_true_eq] at h1
    obtain ⟨p1, p2⟩ := p
    simp only at h1 h
    subst h1; subst h
    exact h2

theorem nodup_fst_unique {l : List (Cipher × Nat)} (hn : (l.map (·.1)).Nodup) {c : Cipher} {x y : Nat}
    (hx : (c, x) ∈ l) (hy : (c, y) ∈ l) : x = y := by
  induction l with
  | nil => simp at hx
  | cons p l ih =>
    simp only [List.map_cons, List.nodup_cons, List.mem_map, not_exists, not_and] at hn
    simp only [List.mem_cons] at hx hy
    rcases hx with hx | hx <;> rcases hy with hy | hy
    · rw [← hx] at hy; simpa using hy.symm
    · exact absurd (by rw [← hx]) (hn.1 _ hy)
    · exact absurd (by rw [← hy]) (hn.1 _ hx)
    · exact ih hn.2 hx hy

theorem speedOf_of_mem {a : Algos} (hn : NoDup a) {c : Cipher} {x : Nat} (h : (c, x) ∈ a.speeds) :
    speedOf a c = some x := by
  cases hs : speedOf a c with
  | none =>
    unfold speedOf at hs
    simp only [Option.map_eq_none_iff, List.find?_eq_none, decide_eq_true_eq] at hs
    exact absurd rfl (hs _ h)
  | some y =>
    have := speedOf_some_mem hs
    rw [nodup_fst_unique hn h this]

theorem speedOf_perm {a a' : Algos} (h : a.speeds.Perm a'.speeds) (ha : NoDup a) (c : Cipher) :
    speedOf a c = speedOf a' c := by
  have ha' : NoDup a' := by
    unfold NoDup at *
    exact (h.map _).nodup_iff.1 ha
  cases hs : speedOf a' c with
  | some y => exact speedOf_of_mem ha (h.mem_iff.2 (speedOf_some_mem hs))
  | none =>
    cases hs2 : speedOf a c with
    | none => rfl
    | some x =>
      have := speedOf_of_mem ha' (h.mem_iff.1 (speedOf_some_mem hs2))
      rw [hs] at this; simp at this

/-! ### the two functions in normal form -/

theorem selectRef_not_plain (a b : Algos) (h : ¬ (a.allowUnencrypted = true ∧ b.allowUnencrypted = true)) :
    (common a b = [] ∧ selectRef a b = .fail) ∨
    (∃ best, IsMax (common a b) best ∧ selectRef a b = .cipher best.1) := by
  unfold selectRef
  have hb : (a.allowUnencrypted && b.allowUnencrypted) = false := by
    cases hx : a.allowUnencrypted <;> cases hy : b.allowUnencrypted <;> simp_all
  rw [hb]
  simp only [Bool.false_eq_true, if_false]
  cases hc : common a b with
  | nil => exact Or.inl ⟨rfl, rfl⟩
  | cons p l =>
    right
    have := ref_fold_isMax (p :: l) (by simp)
    exact ⟨_, this, rfl⟩

theorem selectRef_plain (a b : Algos) (h : a.allowUnencrypted = true ∧ b.allowUnencrypted = true) :
    selectRef a b = .plain := by
  unfold selectRef; simp [h.1, h.2]

/-- the candidate list of the model -/
def cands (own peer : Algos) : List (Cipher × Nat) :=
  own.speeds.filterMap (fun (a1, s1) =>
    (peer.speeds.find? (fun (a2, _) => a2 = a1)).map (fun (_, s2) => (a1, if s1 < s2 then s1 else s2)))

theorem cands_entry (peer : Algos) (a1 : Cipher) (s1 : Nat) :
    (peer.speeds.find? (fun (a2, _) => a2 = a1)).map (fun (_, s2) => (a1, if s1 < s2 then s1 else s2)) =
    (speedOf peer a1).map (fun y => (a1, min s1 y)) := by
  unfold speedOf
  have e : (fun (x : Cipher × Nat) => match x with | (a2, _) => decide (a2 = a1)) = (fun p => decide (p.1 = a1)) := by
    funext ⟨_, _⟩; rfl
  rw [e]
  cases peer.speeds.find? (fun p => decide (p.1 = a1)) with
  | none => rfl
  | some p =>
    obtain ⟨p1, p2⟩ := p
    simp only [Option.map_some, Option.some.injEq, Prod.mk.injEq, true_and]
    rw [Nat.min_def]; split <;> split <;> omega

theorem mem_cands {own peer : Algos} (ho : NoDup own) {z : Cipher × Nat} :
    z ∈ cands own peer ↔ z ∈ common own peer := by
  rw [mem_common]
  unfold cands
  simp only [List.mem_filterMap]
  constructor
  · rintro ⟨⟨a1, s1⟩, hm, h⟩
    simp only at h
    rw [cands_entry] at h
    cases hy : speedOf peer a1 with
    | none => rw [hy] at h; simp at h
    | some y =>
      rw [hy] at h
      simp only [Option.map_some, Option.some.injEq] at h
      subst h
      exact ⟨s1, y, speedOf_of_mem ho hm, hy, rfl⟩
  · rintro ⟨x, y, hx, hy, hz⟩
    refine ⟨(z.1, x), speedOf_some_mem hx, ?_⟩
    simp only
    rw [cands_entry, hy]
    simp only [Option.map_some, Option.some.injEq]
    exact Prod.ext rfl hz.symm

theorem selectAlgorithm_not_plain (own peer : Algos)
    (h : ¬ (own.allowUnencrypted = true ∧ peer.allowUnencrypted = true)) :
    (cands own peer = [] ∧ selectAlgorithm own peer = .error .cryptoInitFatal) ∨
    (∃ best, IsMax (cands own peer) best ∧ selectAlgorithm own peer = .ok (some best.1)) := by
  have hb : (own.allowUnencrypted && peer.allowUnencrypted) = false := by
    cases hx : own.allowUnencrypted <;> cases hy : peer.allowUnencrypted <;> simp_all
  have e : selectAlgorithm own peer = (match cands own peer with
      | [] => .error .cryptoInitFatal
      | first :: rest => .ok (some (rest.foldl modStep first).1)) := by
    unfold selectAlgorithm
    rw [hb]
    rfl
  rw [e]
  cases hc : cands own peer with
  | nil => exact Or.inl ⟨rfl, rfl⟩
  | cons p l => exact Or.inr ⟨_, mod_fold_isMax p l, rfl⟩

theorem selectAlgorithm_plain (own peer : Algos) (h : own.allowUnencrypted = true ∧ peer.allowUnencrypted = true) :
    selectAlgorithm own peer = .ok none := by
  unfold selectAlgorithm; simp [h.1, h.2]

end VpnCloud.Proofs.NegoLemmas
