import VpnCloud.Model.Node
import VpnCloud.Proofs.Lemmas.NodeLemmas
import VpnCloud.Proofs.Lemmas.NodeLemmas2
import VpnCloud.Proofs.Lemmas.NodeInvLemmas
import VpnCloud.Proofs.C02
/-
  Helper lemmas for `Proofs/C10More.lean` (forwarding isolation, exact once-only delivery):

  * the frames written to the interface during `handle_net_message`, computed exactly (`ifaces`, `dispatch_ifaces`),
  * `housekeep` / `connect` only emit datagrams, and what `housekeep` emits / seals (`HkOut`, `LogHk`),
  * `send_msg` / `broadcast_msg` computed exactly when the peer addresses are pairwise distinct,
  * the round trip of one sealed message between two sessions whose cores are in sync.
-/
namespace VpnCloud.Proofs.C10MoreLemmas

open VpnCloud VpnCloud.Node
open VpnCloud.Proofs.NodeLemmas VpnCloud.Proofs.NodeLemmas2 VpnCloud.Proofs.NodeInvLemmas

/-! ## frames for the interface among the outputs -/

/-- the outputs that are frames written to the interface -/
def ifaces (l : List Out) : List Out := l.filter (fun x => match x with | .iface _ => true | _ => false)

/-- the output is a datagram -/
def IsDgram (x : Out) : Prop := ∃ d b, x = .dgram d b

theorem IsHs.isDgram {x : Out} (h : IsHs x) : IsDgram x := by
  obtain ⟨d, b, rfl⟩ := h
  exact ⟨d, _, rfl⟩

theorem ifaces_append (l e : List Out) : ifaces (l ++ e) = ifaces l ++ ifaces e := List.filter_append ..

theorem mem_ifaces {l : List Out} {b : Bytes} : Out.iface b ∈ ifaces l ↔ Out.iface b ∈ l := by
  unfold ifaces
  rw [List.mem_filter]
  simp

theorem ifaces_of_ext {l l' : List Out} (h : Ext IsDgram l l') : ifaces l' = ifaces l := by
  obtain ⟨e, rfl, pe⟩ := h
  rw [ifaces_append]
  have : ifaces e = [] := by
    unfold ifaces
    rw [List.filter_eq_nil_iff]
    intro x hx
    obtain ⟨d, b, rfl⟩ := pe x hx
    simp
  rw [this, List.append_nil]

theorem ifaces_of_ext_hs {l l' : List Out} (h : Ext IsHs l l') : ifaces l' = ifaces l :=
  ifaces_of_ext (h.mono (fun _ => IsHs.isDgram))

theorem ifaces_snoc_dgram (l : List Out) (a : NAddr) (b : Bytes) : ifaces (l ++ [.dgram a b]) = ifaces l := by
  rw [ifaces_append]
  simp [ifaces]

theorem ifaces_snoc_iface (l : List Out) (b : Bytes) : ifaces (l ++ [.iface b]) = ifaces l ++ [.iface b] := by
  rw [ifaces_append]
  simp [ifaces]

/-- the frame `handle_message` writes to the interface for a session-layer result: the body of a DATA message that parses -/
def resIface (n : Node) : MsgResult → List Out
  | .message ty data => if ty = Generated.MESSAGE_TYPE_DATA ∧ (parseAddrs n data).isSome = true then [.iface data] else []
  | _ => []

theorem resIface_congr (n1 n2 : Node) (res : MsgResult) (hc : n1.cfg = n2.cfg) : resIface n1 res = resIface n2 res := by
  cases res <;> simp only [resIface]
  rw [parseAddrs_congr n1 n2 _ hc]

theorem resIface_length (n : Node) (res : MsgResult) : (resIface n res).length ≤ 1 := by
  cases res <;> simp only [resIface, List.length_nil, Nat.zero_le]
  split <;> simp

theorem mem_resIface {n : Node} {res : MsgResult} {x : Out} (h : x ∈ resIface n res) :
    ∃ data, res = .message Generated.MESSAGE_TYPE_DATA data ∧ x = .iface data ∧ (parseAddrs n data).isSome = true := by
  cases res with
  | message ty data =>
    simp only [resIface] at h
    split at h
    · rename_i hc
      simp only [List.mem_singleton] at h
      exact ⟨data, by rw [hc.1], h, hc.2⟩
    · cases h
  | initialized _ => cases h
  | initializedWithReply _ => cases h
  | reply => cases h
  | none => cases h

/-- `handle_message`: exactly which frames go to the interface -/
theorem handleResult_ifaces (env : CryptoEnv) (o : Oracle) (c : Ctx) (now : Int) (src : NAddr) (res : MsgResult) (out : Bytes) :
    ifaces (handleResult env o c now src res out).1.outs = ifaces c.outs ++ resIface c.node res := by
  unfold handleResult
  cases res with
  | message ty data =>
    simp only [resIface]
    by_cases h0 : ty = Generated.MESSAGE_TYPE_DATA
    · simp only [h0, if_true, true_and]
      cases hpa : parseAddrs c.node data with
      | none => simp
      | some r =>
        rcases r with ⟨sa, da⟩
        simp only [Option.isSome_some, if_true]
        split
        · exact ifaces_snoc_iface _ _
        · exact ifaces_snoc_iface _ _
    · simp only [h0, if_false, false_and, List.append_nil]
      split
      · split
        · rfl
        · exact ifaces_of_ext_hs (updatePeerInfo_ext env o c now src _)
      · split
        · exact ifaces_of_ext_hs (updatePeerInfo_ext env o c now src _)
        · split
          · rw [removePeer_outs]
          · rfl
  | initialized payload =>
    simp only [resIface, List.append_nil]
    split
    · exact ifaces_of_ext_hs (addNewPeer_ext env o c now src _)
    · rfl
  | initializedWithReply payload =>
    simp only [resIface, List.append_nil]
    split
    · rw [send_outs, ifaces_snoc_dgram]
      exact ifaces_of_ext_hs (addNewPeer_ext env o c now src _)
    · rfl
  | reply =>
    simp only [resIface, List.append_nil]
    exact ifaces_snoc_dgram _ _ _
  | none => simp only [resIface, List.append_nil]

/-- the frame a session-layer outcome leads to -/
def outcomeIface (n : Node) : POutcome MsgResult → List Out
  | .ok _ _ res _ => resIface n res
  | _ => []

theorem storePc_outs (c : Ctx) (src : NAddr) (inPeers : Bool) (pc : PeerCrypto) : (storePc c src inPeers pc).outs = c.outs := by
  unfold storePc
  simp only []
  split
  · split <;> rfl
  · rfl

theorem storePc_cfg (c : Ctx) (src : NAddr) (inPeers : Bool) (pc : PeerCrypto) : (storePc c src inPeers pc).node.cfg = c.node.cfg := by
  unfold storePc
  simp only []
  split
  · split <;> rfl
  · rfl

theorem applyOutcome_ifaces (env : CryptoEnv) (o : Oracle) (c : Ctx) (now : Int) (src : NAddr) (inPeers : Bool) (r : POutcome MsgResult) :
    ifaces (applyOutcome env o c now src inPeers r).1.outs = ifaces c.outs ++ outcomeIface c.node r := by
  rw [applyOutcome_eq]
  cases r with
  | panic => simp [outcomeIface]
  | err pc e => simp [outcomeIface, storePc_outs]
  | ok pc out res log =>
    simp only [outcomeIface]
    rw [handleResult_ifaces, addLog_outs, storePc_outs, addLog_node]
    rw [resIface_congr _ c.node res (storePc_cfg c src inPeers pc)]

/-! ## what the session layer returns for a handshake datagram -/

theorem successOut_not_message (pc1 : PeerCrypto) (core : Option Core) (ini : Bool) (out1 payload : Bytes) (ilog : Init.SealLog) (rr : RotRand)
    (pc' : PeerCrypto) (out : Bytes) (ty : Nat) (b : Bytes) (log : Init.SealLog) :
    successOut pc1 core ini out1 payload ilog rr ≠ .ok pc' out (.message ty b) log := by
  intro h
  have hc := successOut_cases pc1 core ini out1 payload ilog rr
  rw [h] at hc
  rcases hc.2 with h | h <;> cases h

/-- a datagram with the handshake marker is never handed on as a message -/
theorem handleMessage_init_not_message (env : CryptoEnv) (bodyOf : Init.BodyOf) (ok : Bytes → Bool) (pc : PeerCrypto) (data tail : Bytes)
    (rnd : Rand) (rr : RotRand) (hinit : data.head? = some Generated.INIT_MESSAGE_FIRST_BYTE)
    (pc' : PeerCrypto) (out : Bytes) (ty : Nat) (b : Bytes) (log : Init.SealLog) :
    PeerCrypto.handleMessage env bodyOf ok pc data tail rnd rr ≠ .ok pc' out (.message ty b) log := by
  intro h
  rw [handleMessage_eq] at h
  cases data with
  | nil => cases hinit
  | cons b0 rest =>
    simp only [List.head?_cons, Option.some.injEq] at hinit
    simp only [hinit, if_true] at h
    split at h
    · cases h
    · rw [handleInitMessage_eq] at h
      split at h
      · cases h
      · split at h
        · cases h
        · cases h
        · split at h
          · cases h
          · exact successOut_not_message _ _ _ _ _ _ _ _ _ _ _ _ h

theorem outcomeIface_init (env : CryptoEnv) (bodyOf : Init.BodyOf) (ok : Bytes → Bool) (n : Node) (pc : PeerCrypto) (data tail : Bytes)
    (rnd : Rand) (rr : RotRand) (hinit : data.head? = some Generated.INIT_MESSAGE_FIRST_BYTE) :
    outcomeIface n (PeerCrypto.handleMessage env bodyOf ok pc data tail rnd rr) = [] := by
  have h := handleMessage_init_not_message env bodyOf ok pc data tail rnd rr hinit
  generalize PeerCrypto.handleMessage env bodyOf ok pc data tail rnd rr = r at h
  cases r with
  | panic => rfl
  | err _ _ => rfl
  | ok pc' out res log =>
    cases res with
    | message ty b => exact absurd rfl (h pc' out ty b log)
    | _ => rfl

/-- the session of a pending handshake (no core, not unencrypted) never hands on a message -/
theorem outcomeIface_fresh (env : CryptoEnv) (bodyOf : Init.BodyOf) (ok : Bytes → Bool) (n : Node) (pc : PeerCrypto) (data tail : Bytes)
    (rnd : Rand) (rr : RotRand) (hf : FreshPC pc) :
    outcomeIface n (PeerCrypto.handleMessage env bodyOf ok pc data tail rnd rr) = [] := by
  have h := handleMessage_fresh env bodyOf ok pc data tail rnd rr hf
  generalize PeerCrypto.handleMessage env bodyOf ok pc data tail rnd rr = r at h
  cases r with
  | panic => rfl
  | err _ _ => rfl
  | ok pc' out res log =>
    rcases h with ⟨h, _⟩ | ⟨p, h | h, _⟩ <;> subst h <;> rfl

theorem responder_ifaces (env : CryptoEnv) (bodyOf : Init.BodyOf) (o : Oracle) (n : Node) (now : Int) (src : NAddr) (data tail : Bytes)
    (rnd : Rand) (rr : RotRand) (hash : Option Bytes) (hinit : data.head? = some Generated.INIT_MESSAGE_FIRST_BYTE) :
    ifaces (responder env bodyOf o n now src data tail rnd rr hash).1.outs = [] := by
  have h := outcomeIface_init env bodyOf payloadOk n (newAttempt n (hash.getD [])) data tail rnd rr hinit
  unfold responder
  simp only []
  split
  · rename_i pc' out res log heq
    rw [heq] at h
    rw [handleResult_ifaces]
    exact h
  · rfl
  · rfl

/-- the frames `handle_net_message` writes to the interface, exactly: the body of a DATA message that the session of the established peer
    `src` opens from a datagram without handshake marker.  `hfresh`: if `src` is not a peer, its pending session (if any) has no core. -/
theorem dispatch_ifaces (env : CryptoEnv) (bodyOf : Init.BodyOf) (o : Oracle) (n : Node) (now : Int) (src : NAddr) (data tail : Bytes)
    (hfresh : ∀ pc, lookupA n.peers src = none → lookupA n.pending src = some pc → pc.unencrypted = false ∧ pc.core = none) :
    ifaces (dispatch env bodyOf o n now src data tail).1.outs =
      match lookupA n.peers src with
      | some p =>
        if data.head? = some Generated.INIT_MESSAGE_FIRST_BYTE then []
        else outcomeIface n (PeerCrypto.handleMessage env bodyOf payloadOk p.crypto data tail
               (rndFor o { node := n } src).1 (rndFor o { node := n } src).2.1)
      | none => [] := by
  have h0 : ifaces ({ node := n } : Ctx).outs = [] := rfl
  cases hp : lookupA n.peers src with
  | some p =>
    by_cases hi : data.head? = some Generated.INIT_MESSAGE_FIRST_BYTE
    · simp only [dispatch, hp, hi, decide_true, Bool.not_true, Bool.false_eq_true, if_false, if_true]
      split
      · rw [applyOutcome_ifaces, outcomeIface_init _ _ _ _ _ _ _ _ _ hi]; rfl
      · split
        · rw [applyOutcome_ifaces, outcomeIface_init _ _ _ _ _ _ _ _ _ hi]; rfl
        · exact responder_ifaces _ _ _ _ _ _ _ _ _ _ _ hi
    · simp only [dispatch, hp, hi, decide_false, Bool.not_false, if_true, if_false]
      rw [applyOutcome_ifaces, h0, List.nil_append]
  | none =>
    cases hq : lookupA n.pending src with
    | some pc =>
      simp only [dispatch, hp, hq]
      rw [applyOutcome_ifaces, outcomeIface_fresh _ _ _ _ _ _ _ _ _ (hfresh pc hp hq)]; rfl
    | none =>
      simp only [dispatch, hp, hq]
      split
      · rename_i hi
        exact responder_ifaces _ _ _ _ _ _ _ _ _ _ _ (by simpa using hi)
      · rfl

theorem outcomeIface_length (n : Node) (r : POutcome MsgResult) : (outcomeIface n r).length ≤ 1 := by
  cases r with
  | ok _ _ res _ => exact resIface_length n res
  | err _ _ => exact Nat.zero_le _
  | panic => exact Nat.zero_le _

theorem responder_ifaces_le (env : CryptoEnv) (bodyOf : Init.BodyOf) (o : Oracle) (n : Node) (now : Int) (src : NAddr) (data tail : Bytes)
    (rnd : Rand) (rr : RotRand) (hash : Option Bytes) :
    (ifaces (responder env bodyOf o n now src data tail rnd rr hash).1.outs).length ≤ 1 := by
  unfold responder
  simp only []
  split
  · rw [handleResult_ifaces]
    exact resIface_length _ _
  · exact Nat.zero_le _
  · exact Nat.zero_le _

/-- `handle_net_message` writes at most one frame to the interface (no hypothesis on the state) -/
theorem dispatch_ifaces_le (env : CryptoEnv) (bodyOf : Init.BodyOf) (o : Oracle) (n : Node) (now : Int) (src : NAddr) (data tail : Bytes) :
    (ifaces (dispatch env bodyOf o n now src data tail).1.outs).length ≤ 1 := by
  have ha : ∀ inPeers r, (ifaces (applyOutcome env o { node := n } now src inPeers r).1.outs).length ≤ 1 := by
    intro inPeers r
    rw [applyOutcome_ifaces]
    exact outcomeIface_length _ _
  unfold dispatch
  simp only []
  split
  · split
    · exact ha _ _
    · split
      · exact ha _ _
      · split
        · exact ha _ _
        · exact responder_ifaces_le ..
  · exact ha _ _
  · split
    · exact responder_ifaces_le ..
    · exact Nat.zero_le _

/-- a datagram with the handshake marker never leads to a frame for the interface (no hypothesis on the state) -/
theorem dispatch_ifaces_init (env : CryptoEnv) (bodyOf : Init.BodyOf) (o : Oracle) (n : Node) (now : Int) (src : NAddr) (data tail : Bytes)
    (hi : data.head? = some Generated.INIT_MESSAGE_FIRST_BYTE) :
    ifaces (dispatch env bodyOf o n now src data tail).1.outs = [] := by
  have ha : ∀ inPeers pc rnd rr, ifaces (applyOutcome env o { node := n } now src inPeers
      (PeerCrypto.handleMessage env bodyOf payloadOk pc data tail rnd rr)).1.outs = [] := by
    intro inPeers pc rnd rr
    rw [applyOutcome_ifaces, outcomeIface_init _ _ _ _ _ _ _ _ _ hi]
    rfl
  unfold dispatch
  simp only [hi, decide_true, Bool.not_true, Bool.false_eq_true, if_false, if_true]
  split
  · split
    · exact ha _ _ _ _
    · split
      · exact ha _ _ _ _
      · exact responder_ifaces _ _ _ _ _ _ _ _ _ _ _ hi
  · exact ha _ _ _ _
  · exact responder_ifaces _ _ _ _ _ _ _ _ _ _ _ hi

/-! ## housekeeping: what is emitted and what is sealed -/

/-- every genuine seal in the log is the seal of a ROTATION or a NODE_INFO message -/
def LogHk (log : Init.SealLog) : Prop :=
  ∀ ct b, (ct, b) ∈ log → ∀ k nn p, b = .sealed k nn p →
    p.head? = some Generated.MESSAGE_TYPE_ROTATION ∨ p.head? = some Generated.MESSAGE_TYPE_NODE_INFO

theorem logHk_nil : LogHk [] := fun _ _ h => by cases h

theorem LogHk.append {l1 l2 : Init.SealLog} (h1 : LogHk l1) (h2 : LogHk l2) : LogHk (l1 ++ l2) := by
  intro ct b hm
  rcases List.mem_append.1 hm with h | h
  · exact h1 ct b h
  · exact h2 ct b h

/-- what `encrypt_message` logs: at most one entry, and if it is a genuine seal, it is the seal of the given plaintext -/
theorem sealMsg_entries (pc pc' : PeerCrypto) (plain ct bytes : Bytes) (log : Init.SealLog)
    (h : PeerCrypto.sealMsg pc plain ct = (pc', .ok (bytes, log))) :
    ∀ ct' b, (ct', b) ∈ log → ∀ k nn p, b = .sealed k nn p → p = plain := by
  unfold PeerCrypto.sealMsg at h
  split at h
  · simp only [Prod.mk.injEq, Except.ok.injEq] at h
    rw [← h.2.2]
    intro _ _ hm; cases hm
  · split at h
    · simp only [Prod.mk.injEq] at h
      cases h.2
    · rename_i c hc
      simp only [Prod.mk.injEq, Except.ok.injEq] at h
      rw [← h.2.2]
      intro ct' b hm k nn p hb
      simp only [List.mem_singleton, Prod.mk.injEq] at hm
      rw [hm.2] at hb
      exact core_encrypt_body c plain k nn p hb

/-- the wire form of a sealed message: the plaintext itself (unencrypted mode), or 8 header bytes followed by the ciphertext, whose seal
    is logged -/
theorem sealMsg_wire (pc pc' : PeerCrypto) (plain ct bytes : Bytes) (log : Init.SealLog)
    (h : PeerCrypto.sealMsg pc plain ct = (pc', .ok (bytes, log))) :
    (pc.unencrypted = true ∧ bytes = plain ∧ log = []) ∨
    (pc.unencrypted = false ∧ ∃ hdr b, bytes = hdr ++ ct ∧ log = [(ct, b)] ∧ ∀ k nn p, b = .sealed k nn p → p = plain) := by
  unfold PeerCrypto.sealMsg at h
  split at h
  · rename_i hu
    simp only [Prod.mk.injEq, Except.ok.injEq] at h
    exact Or.inl ⟨hu, h.2.1.symm, h.2.2.symm⟩
  · rename_i hu
    split at h
    · simp only [Prod.mk.injEq] at h
      cases h.2
    · rename_i c hc
      simp only [Prod.mk.injEq, Except.ok.injEq] at h
      refine Or.inr ⟨by simpa using hu, _, _, h.2.1.symm, h.2.2.symm, ?_⟩
      intro k nn p hb
      exact core_encrypt_body c plain k nn p hb

theorem sealMsg_logHk (pc pc' : PeerCrypto) (ty : Nat) (body ct bytes : Bytes) (log : Init.SealLog)
    (hty : ty = Generated.MESSAGE_TYPE_ROTATION ∨ ty = Generated.MESSAGE_TYPE_NODE_INFO)
    (h : PeerCrypto.sealMsg pc (ty :: body) ct = (pc', .ok (bytes, log))) : LogHk log := by
  intro ct' b hm k nn p hb
  rw [sealMsg_entries pc pc' _ ct bytes log h ct' b hm k nn p hb]
  rcases hty with rfl | rfl
  · exact Or.inl rfl
  · exact Or.inr rfl

/-- what `housekeep` may emit, relative to the seal log `L` of the step: a handshake datagram, the seal of a ROTATION message, or
    the seal of a NODE_INFO message carrying the node info of some node state -/
inductive HkOut (L : Init.SealLog) : Out → Prop
  | hs (d : NAddr) (b : Bytes) : HkOut L (.dgram d (Generated.INIT_MESSAGE_FIRST_BYTE :: b))
  | rot (d : NAddr) (pc pc' : PeerCrypto) (body ct bytes : Bytes) (log : Init.SealLog) :
      PeerCrypto.sealMsg pc (Generated.MESSAGE_TYPE_ROTATION :: body) ct = (pc', .ok (bytes, log)) → (∀ e ∈ log, e ∈ L) →
      HkOut L (.dgram d bytes)
  | info (d : NAddr) (pc pc' : PeerCrypto) (m : Node) (ct bytes : Bytes) (log : Init.SealLog) :
      PeerCrypto.sendMessage pc Generated.MESSAGE_TYPE_NODE_INFO (Codec.encodeNodeInfo (createNodeInfo m)) ct = (pc', .ok (bytes, log)) →
      (∀ e ∈ log, e ∈ L) → HkOut L (.dgram d bytes)

theorem HkOut.mono {L L' : Init.SealLog} {x : Out} (h : HkOut L x) (hl : ∀ e ∈ L, e ∈ L') : HkOut L' x := by
  cases h with
  | hs d b => exact .hs d b
  | rot d pc pc' body ct bytes log hs hm => exact .rot d pc pc' body ct bytes log hs (fun e he => hl e (hm e he))
  | info d pc pc' m ct bytes log hs hm => exact .info d pc pc' m ct bytes log hs (fun e he => hl e (hm e he))

theorem HkOut.isDgram {L : Init.SealLog} {x : Out} (h : HkOut L x) : IsDgram x := by
  cases h <;> exact ⟨_, _, rfl⟩

theorem HkOut.of_isHs {L : Init.SealLog} {x : Out} (h : IsHs x) : HkOut L x := by
  obtain ⟨d, b, rfl⟩ := h
  exact .hs d b

/-- the invariant of a housekeeping step in progress -/
def HkInv (c : Ctx) : Prop := (∀ x ∈ c.outs, HkOut c.log x) ∧ LogHk c.log

theorem HkInv.of_eq {c c' : Ctx} (h : HkInv c) (ho : c'.outs = c.outs) (hl : c'.log = c.log) : HkInv c' := by
  unfold HkInv
  rw [ho, hl]
  exact h

theorem HkInv.ext_hs {c c' : Ctx} (h : HkInv c) (ho : Ext IsHs c.outs c'.outs) (hl : c'.log = c.log) : HkInv c' := by
  unfold HkInv
  rw [hl]
  refine ⟨fun x hx => ?_, h.2⟩
  rcases ho.mem hx with hx | hx
  · exact h.1 x hx
  · exact HkOut.of_isHs hx

theorem connectSock_log (env : CryptoEnv) (o : Oracle) (c : Ctx) (a : NAddr) : (connectSock env o c a).log = c.log := by
  unfold connectSock
  simp only []
  split
  · rfl
  · simp only [newAttempt]; rfl

theorem foldl_log {β} (f : Ctx → β → Ctx) (hf : ∀ c x, (f c x).log = c.log) :
    ∀ (l : List β) (c : Ctx), (l.foldl f c).log = c.log
  | [], _ => rfl
  | x :: l, c => (foldl_log f hf l (f c x)).trans (hf c x)

theorem connect_log (env : CryptoEnv) (o : Oracle) (c : Ctx) (l : List NAddr) : (connect env o c l).log = c.log := by
  unfold connect
  simp only []
  split
  · rfl
  · exact foldl_log _ (connectSock_log env o) _ _

theorem connectSock_hk (env : CryptoEnv) (o : Oracle) (c : Ctx) (a : NAddr) (h : HkInv c) : HkInv (connectSock env o c a) :=
  h.ext_hs (connectSock_ext env o c a) (connectSock_log env o c a)

theorem connect_hk (env : CryptoEnv) (o : Oracle) (c : Ctx) (l : List NAddr) (h : HkInv c) : HkInv (connect env o c l) :=
  h.ext_hs (connect_ext env o c l) (connect_log env o c l)

/-- appending the log of a seal and (possibly) its datagram -/
theorem HkInv.step {c : Ctx} (h : HkInv c) (n' : Node) (log : Init.SealLog) (hl : LogHk log) :
    HkInv (addLog log { c with node := n' }) := by
  refine ⟨fun x hx => ?_, h.2.append hl⟩
  exact (h.1 x hx).mono (fun e he => List.mem_append_left _ he)

theorem HkInv.send {c : Ctx} (h : HkInv c) (a : NAddr) (b : Bytes) (hb : HkOut c.log (.dgram a b)) : HkInv (c.send a b) := by
  refine ⟨fun x hx => ?_, h.2⟩
  simp only [send_outs, List.mem_append, List.mem_singleton] at hx
  rcases hx with hx | hx
  · exact h.1 x hx
  · rw [hx]; exact hb

/-- what `every_second` of a session puts on the wire and into the seal log: nothing, a handshake datagram (retransmission), or the seal
    of a ROTATION message -/
def TickWire (rr : RotRand) : POutcome MsgResult → Prop
  | .ok pc' out res log =>
      (log = [] ∧ (res = .reply → ∃ b, out = Generated.INIT_MESSAGE_FIRST_BYTE :: b)) ∨
      (∃ pc4 body, PeerCrypto.sealMsg pc4 (Generated.MESSAGE_TYPE_ROTATION :: body) rr.ct = (pc', .ok (out, log)))
  | _ => True

theorem tickRot_wire (pc2 : PeerCrypto) (rr : RotRand) : TickWire rr (tickRot pc2 rr) := by
  unfold tickRot
  split
  · exact Or.inl ⟨rfl, fun h => by cases h⟩
  · simp only []
    split
    · exact Or.inl ⟨rfl, fun h => by cases h⟩
    · repeat' split
      all_goals first
        | exact Or.inl ⟨rfl, fun h => by cases h⟩
        | trivial
        | (rename_i hs; exact Or.inr ⟨_, _, hs⟩)

theorem everySecond_wire (pc : PeerCrypto) (rr : RotRand) : TickWire rr (PeerCrypto.everySecond pc rr) := by
  rw [everySecond_eq]
  rcases tick1 pc with ⟨pc1, r⟩
  cases r with
  | error e => trivial
  | ok out =>
    simp only []
    split
    · exact Or.inl ⟨rfl, fun _ => ⟨out, rfl⟩⟩
    · exact tickRot_wire _ rr

/-- one session tick inside `crypto_housekeep` -/
theorem tick_hk {c : Ctx} (h : HkInv c) (n' : Node) (a : NAddr) (rr : RotRand) (pc' : PeerCrypto) (out : Bytes) (res : MsgResult)
    (log : Init.SealLog) (hw : TickWire rr (.ok pc' out res log)) :
    HkInv (if res = .reply then (addLog log { c with node := n' }).send a out else addLog log { c with node := n' }) := by
  have hw : (log = [] ∧ (res = .reply → ∃ b, out = Generated.INIT_MESSAGE_FIRST_BYTE :: b)) ∨
      (∃ pc4 body, PeerCrypto.sealMsg pc4 (Generated.MESSAGE_TYPE_ROTATION :: body) rr.ct = (pc', .ok (out, log))) := hw
  have hl : LogHk log := by
    rcases hw with ⟨h0, _⟩ | ⟨pc4, body, hs⟩
    · rw [h0]; exact logHk_nil
    · exact sealMsg_logHk pc4 pc' _ body rr.ct out log (Or.inl rfl) hs
  have h1 := h.step n' log hl
  split
  · rename_i hr
    apply h1.send
    rcases hw with ⟨_, hb⟩ | ⟨pc4, body, hs⟩
    · obtain ⟨b, rfl⟩ := hb hr
      exact .hs a b
    · exact .rot a pc4 pc' body rr.ct out log hs (fun e he => List.mem_append_right _ he)
  · exact h1

theorem cryptoHousekeep_hk (env : CryptoEnv) (o : Oracle) (c : Ctx) (now : Int) (h : HkInv c) : HkInv (cryptoHousekeep env o c now) := by
  unfold cryptoHousekeep
  apply foldl_inv HkInv
  · intro c a hc
    split
    · exact hc
    · rename_i p hp
      split
      rename_i rr _ _
      have hw := everySecond_wire p.crypto rr
      split
      · apply connectSock_hk
        exact hc.of_eq rfl rfl
      · exact hc.of_eq rfl rfl
      · rename_i pc' out res log hok
        rw [hok] at hw
        exact tick_hk hc _ a rr pc' out res log hw
  · apply foldl_inv HkInv
    · intro c a hc
      split
      · exact hc
      · rename_i pc hp
        split
        rename_i rr _ _
        have hw := everySecond_wire pc rr
        split
        · exact hc.of_eq rfl rfl
        · exact hc.of_eq rfl rfl
        · rename_i pc' out res log hok
          rw [hok] at hw
          exact tick_hk hc _ a rr pc' out res log hw
    · exact h

/-- `send_msg` of a NODE_INFO message -/
theorem sendMsg_hk (o : Oracle) (c : Ctx) (a : NAddr) (m : Node) (h : HkInv c) :
    HkInv ((sendMsg o c a Generated.MESSAGE_TYPE_NODE_INFO (Codec.encodeNodeInfo (createNodeInfo m))).getD c) := by
  unfold sendMsg
  split
  · exact h
  · rename_i p hp
    simp only []
    split
    · rename_i pc' bytes log hs
      simp only [Option.getD_some]
      have hl : LogHk log := sealMsg_logHk _ pc' _ _ _ bytes log (Or.inr rfl) hs
      apply (h.step _ log hl).send
      exact .info a p.crypto pc' m _ bytes log hs (fun e he => List.mem_append_right _ he)
    · exact h

theorem broadcastMsg_hk (o : Oracle) (c : Ctx) (m : Node) (h : HkInv c) :
    HkInv (broadcastMsg o c Generated.MESSAGE_TYPE_NODE_INFO (Codec.encodeNodeInfo (createNodeInfo m))) := by
  unfold broadcastMsg
  exact foldl_inv HkInv _ (fun c a hc => sendMsg_hk o c a m hc) _ _ h

theorem hkAnnounce_hk (o : Oracle) (c : Ctx) (now : Int) (h : HkInv c) : HkInv (hkAnnounce o c now) := by
  unfold hkAnnounce
  split
  · simp only []
    have hb := broadcastMsg_hk o c c.node h
    split
    · exact hb.of_eq rfl rfl
    · exact hb.of_eq rfl rfl
  · exact h

theorem reconnectToPeers_hk (env : CryptoEnv) (o : Oracle) (c : Ctx) (now : Int) (h : HkInv c) : HkInv (reconnectToPeers env o c now) := by
  unfold reconnectToPeers
  simp only []
  have h1 : HkInv (c.node.reconnect.foldl (fun c e => if Generated.reconnectNotDue e.next now then c else connect env o c e.resolved) c) := by
    apply foldl_inv HkInv _ _ _ _ h
    intro c e hc
    split
    · exact hc
    · exact connect_hk env o c _ hc
  exact h1.of_eq rfl rfl

theorem hkDead_hk (env : CryptoEnv) (o : Oracle) (n : Node) (now : Int) : HkInv (hkDead env o n now) := by
  unfold hkDead
  apply foldl_inv HkInv
  · intro c a hc
    apply connectSock_hk
    exact hc.of_eq rfl rfl
  · exact ⟨fun x hx => (by cases hx), logHk_nil⟩

theorem housekeep_hk (env : CryptoEnv) (o : Oracle) (n : Node) (now : Int) : HkInv (housekeep env o n now) := by
  rw [housekeep_eq]
  have h5 : HkInv (reconnectToPeers env o (hkAnnounce o (cryptoHousekeep env o (hkSweep (hkDead env o n now) now) now) now) now) := by
    apply reconnectToPeers_hk
    apply hkAnnounce_hk
    apply cryptoHousekeep_hk
    exact (hkDead_hk env o n now).of_eq rfl rfl
  unfold hkOwn
  split
  · exact h5.of_eq rfl rfl
  · exact h5

/-! ## `send_msg` / `broadcast_msg`, exactly -/

theorem lookupA_map_ne {α} (l : List (NAddr × α)) {a b : NAddr} (v : α) (h : b ≠ a) :
    lookupA (l.map (fun p => if p.1 = a then (a, v) else p)) b = lookupA l b := by
  have hab : ¬ a = b := fun e => h e.symm
  have hba : ¬ b = a := h
  induction l with
  | nil => rfl
  | cons x l ih =>
    unfold lookupA at ih ⊢
    by_cases hx : x.1 = a
    · have hxb : ¬ x.1 = b := fun e => h (e.symm.trans hx)
      simp only [List.map_cons, hx, if_true, List.find?_cons, hab, decide_false]
      exact ih
    · by_cases hxb : x.1 = b
      · simp only [List.map_cons, if_false, List.find?_cons, hxb, hba, decide_true]
      · simp only [List.map_cons, hx, if_false, List.find?_cons, hxb, decide_false]
        exact ih

theorem lookupA_insertA_ne {α} (l : List (NAddr × α)) {a b : NAddr} (v : α) (h : b ≠ a) :
    lookupA (insertA l a v) b = lookupA l b := by
  have hab : ¬ a = b := fun e => h e.symm
  unfold insertA
  split
  · exact lookupA_map_ne l v h
  · simp only [lookupA, List.find?_append, List.find?_cons, hab, decide_false, List.find?_nil, Option.or_none]

/-- what `send_msg` puts on the wire for peer `a` in the context `c` (`none`: not a peer, or the session cannot seal) -/
def wireFor (o : Oracle) (c : Ctx) (ty : Nat) (body : Bytes) (a : NAddr) : Option Bytes :=
  match lookupA c.node.peers a with
  | none => none
  | some p =>
    match (PeerCrypto.sendMessage p.crypto ty body (rndFor o c a).2.1.ct).2 with
    | .ok (bytes, _) => some bytes
    | .error _ => none

theorem sendMsg_outs (o : Oracle) (c : Ctx) (a : NAddr) (ty : Nat) (body : Bytes) :
    ((sendMsg o c a ty body).getD c).outs = c.outs ++ ((wireFor o c ty body a).map (Out.dgram a)).toList := by
  unfold sendMsg wireFor
  cases lookupA c.node.peers a with
  | none => simp
  | some p =>
    simp only []
    rcases hs : PeerCrypto.sendMessage p.crypto ty body (rndFor o c a).2.1.ct with ⟨pc', r⟩
    cases r with
    | error e => simp
    | ok x =>
      rcases x with ⟨bytes, log⟩
      simp

/-- `send_msg` to `a` leaves the session and the emission counter of every other address alone -/
theorem sendMsg_other (o : Oracle) (c : Ctx) (a b : NAddr) (ty : Nat) (body : Bytes) (h : b ≠ a) :
    lookupA ((sendMsg o c a ty body).getD c).node.peers b = lookupA c.node.peers b ∧
    ((sendMsg o c a ty body).getD c).count b = c.count b := by
  unfold sendMsg
  split
  · exact ⟨rfl, rfl⟩
  · simp only []
    split
    · simp only [Option.getD_some, send_node, addLog_node]
      refine ⟨lookupA_insertA_ne _ _ h, ?_⟩
      simp only [Ctx.count, Ctx.send, addLog_cnt]
      rw [lookupA_insertA_ne _ _ h]
    · exact ⟨rfl, rfl⟩

/-- what `send_msg` puts on the wire for peer `a` of node `n` as the first datagram of a step -/
def sealFor (o : Oracle) (n : Node) (ty : Nat) (body : Bytes) (a : NAddr) : Option Bytes :=
  match lookupA n.peers a with
  | none => none
  | some p =>
    match (PeerCrypto.sendMessage p.crypto ty body (rndFor o { node := n } a).2.1.ct).2 with
    | .ok (bytes, _) => some bytes
    | .error _ => none

theorem wireFor_eq (o : Oracle) (n : Node) (c : Ctx) (ty : Nat) (body : Bytes) (a : NAddr)
    (hp : lookupA c.node.peers a = lookupA n.peers a) (hc : c.count a = 0) : wireFor o c ty body a = sealFor o n ty body a := by
  have hr : rndFor o c a = rndFor o { node := n } a := by
    unfold rndFor
    rw [hc]
    rfl
  unfold wireFor sealFor
  rw [hp, hr]

theorem foldl_sendMsg_outs (o : Oracle) (n : Node) (ty : Nat) (body : Bytes) :
    ∀ (l : List NAddr) (c : Ctx), l.Nodup → (∀ a ∈ l, lookupA c.node.peers a = lookupA n.peers a ∧ c.count a = 0) →
      (l.foldl (fun c a => (sendMsg o c a ty body).getD c) c).outs =
        c.outs ++ l.filterMap (fun a => (sealFor o n ty body a).map (Out.dgram a))
  | [], c, _, _ => by simp
  | a :: l, c, hnd, hc => by
    have hnd' := List.nodup_cons.1 hnd
    have ha := hc a (List.mem_cons_self ..)
    have ih := foldl_sendMsg_outs o n ty body l ((sendMsg o c a ty body).getD c) hnd'.2 (by
      intro b hb
      have hba : b ≠ a := fun e => hnd'.1 (e ▸ hb)
      have hso := sendMsg_other o c a b ty body hba
      have hcb := hc b (List.mem_cons_of_mem _ hb)
      exact ⟨hso.1.trans hcb.1, hso.2.trans hcb.2⟩)
    simp only [List.foldl_cons]
    rw [ih, sendMsg_outs, wireFor_eq o n c ty body a ha.1 ha.2, List.filterMap_cons]
    cases sealFor o n ty body a <;> simp

/-- `broadcast_msg` from the state at the beginning of a step, peer addresses pairwise distinct: one datagram for every peer whose session
    can seal, in the order of the peer list, each sealed by that peer's session as stored in `n` -/
theorem broadcastMsg_outs (o : Oracle) (n : Node) (ty : Nat) (body : Bytes) (hnd : (n.peers.map (·.1)).Nodup) :
    (broadcastMsg o { node := n } ty body).outs = (n.peers.map (·.1)).filterMap (fun a => (sealFor o n ty body a).map (Out.dgram a)) := by
  unfold broadcastMsg
  rw [foldl_sendMsg_outs o n ty body _ _ hnd (fun a _ => ⟨rfl, rfl⟩)]
  rfl

/-! ## round trip of one message between two sessions -/

open VpnCloud.Spec.C04 VpnCloud.Proofs.CoreLemmas in
/-- **session_roundtrip**: the sender's session seals a message of type `ty ≠ ROTATION`; the receiver's core is in sync with the sender's
    (same key in the sender's current slot, opposite halves, window floor not above the nonce, counter within 56 bits) and the ideal AEAD
    opens the emitted ciphertext as what was sealed (`hbody`): the receiver's session hands on exactly `.message ty data`. -/
theorem session_roundtrip (env : CryptoEnv) (bodyOf : Init.BodyOf) (ok : Bytes → Bool) (pA pB pA' : PeerCrypto) (s r : Core)
    (ks kr : SlotKey) (v ty : Nat) (data ct bytes tail : Bytes) (log : Init.SealLog) (rnd : Rand) (rr : RotRand)
    (huA : pA.unencrypted = false) (huB : pB.unencrypted = false) (hcA : pA.core = some s) (hcB : pB.core = some r)
    (hs : s.slots[s.cur]? = some ks) (hr : r.slots[s.cur]? = some kr) (hcur : s.cur < 4) (hkey : kr.key = ks.key)
    (hhalf : r.half = !s.half) (hsend : ks.send + 1 = base s.half + v) (hv : v < 2 ^ 56) (hmin : kr.min ≤ ks.send + 1)
    (hty : ty ≠ Generated.MESSAGE_TYPE_ROTATION)
    (hsm : PeerCrypto.sendMessage pA ty data ct = (pA', .ok (bytes, log)))
    (hbody : ∀ e ∈ log, bodyOf e.1 = e.2) :
    ∃ pB', PeerCrypto.handleMessage env bodyOf ok pB bytes tail rnd rr = .ok pB' [] (.message ty data) [] := by
  have hv95 : v < 2 ^ 95 := by rw [pow56] at hv; rw [pow95]; omega
  have hlt : ks.send + 1 < NONCE_MOD := by rw [hsend]; exact VpnCloud.Proofs.C02.base_add_lt _ _ hv95
  have hrt := VpnCloud.Proofs.C02.roundtrip s r (ty :: data) ks kr v hs hr hcur hkey hhalf hsend hv hmin
  have henc := (VpnCloud.Proofs.C04.encrypt_spec s (ty :: data) ks hs hlt).1
  -- what the sender put on the wire
  simp only [PeerCrypto.sendMessage, PeerCrypto.sealMsg, huA, Bool.false_eq_true, if_false, hcA, Prod.mk.injEq, Except.ok.injEq] at hsm
  obtain ⟨_, hbytes, hlog⟩ := hsm
  have hb2 : bodyOf ct = (s.encrypt (ty :: data)).2.body := hbody (ct, (s.encrypt (ty :: data)).2.body) (by rw [← hlog]; exact List.mem_singleton.2 rfl)
  rw [henc] at hbytes hb2
  simp only [] at hbytes hb2
  have hl : (s.cur :: Bytes.ofBE 7 (ks.send + 1)).length = 8 := by simp [ofBE_length]
  have htake : bytes.take 8 = s.cur :: Bytes.ofBE 7 (ks.send + 1) := by rw [← hbytes]; exact List.take_left' hl
  have hdrop : bytes.drop 8 = ct := by rw [← hbytes]; exact List.drop_left' hl
  have hne : ¬ s.cur = Generated.INIT_MESSAGE_FIRST_BYTE := by simp only [Generated.INIT_MESSAGE_FIRST_BYTE]; omega
  have hd : ({ hdr := bytes.take 8, body := bodyOf (bytes.drop 8) } : Dgram) = (s.encrypt (ty :: data)).2 := by
    rw [htake, hdrop, hb2, henc]
  rw [handleMessage_eq]
  rw [← hbytes]
  simp only [List.cons_append, hne, if_false]
  have hdec : decMsg bodyOf pB (s.cur :: (Bytes.ofBE 7 (ks.send + 1) ++ ct)) =
      ({ pB with core := some (r.decrypt (s.encrypt (ty :: data)).2).1 }, .ok (ty :: data)) := by
    have hb' : s.cur :: (Bytes.ofBE 7 (ks.send + 1) ++ ct) = bytes := by rw [← hbytes]; rfl
    rw [hb']
    unfold decMsg
    simp only [huB, Bool.false_eq_true, if_false, hcB, hd]
    rcases hdc : r.decrypt (s.encrypt (ty :: data)).2 with ⟨c', res⟩
    rw [hdc] at hrt
    simp only [] at hrt
    subst hrt
    rfl
  rw [hdec]
  simp only [hty, if_false]
  exact ⟨_, rfl⟩

/-- the same for two sessions in unencrypted mode (no common cipher was required): the message travels in the clear -/
theorem session_roundtrip_plain (env : CryptoEnv) (bodyOf : Init.BodyOf) (ok : Bytes → Bool) (pA pB pA' : PeerCrypto)
    (ty : Nat) (data ct bytes tail : Bytes) (log : Init.SealLog) (rnd : Rand) (rr : RotRand)
    (huA : pA.unencrypted = true) (huB : pB.unencrypted = true)
    (hty : ty ≠ Generated.MESSAGE_TYPE_ROTATION) (hty' : ty ≠ Generated.INIT_MESSAGE_FIRST_BYTE)
    (hsm : PeerCrypto.sendMessage pA ty data ct = (pA', .ok (bytes, log))) :
    PeerCrypto.handleMessage env bodyOf ok pB bytes tail rnd rr = .ok pB [] (.message ty data) [] := by
  simp only [PeerCrypto.sendMessage, PeerCrypto.sealMsg, huA, if_true, Prod.mk.injEq, Except.ok.injEq] at hsm
  obtain ⟨_, hbytes, _⟩ := hsm
  rw [← hbytes, handleMessage_eq]
  simp only [hty', if_false, decMsg, huB, if_true, hty]

end VpnCloud.Proofs.C10MoreLemmas
