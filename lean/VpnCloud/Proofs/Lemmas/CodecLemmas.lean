import VpnCloud.Model.NodeInfo
import VpnCloud.Spec.C16
/-
  Helper lemmas for C16 (wire codecs): primitive readers on `encoding ++ rest`,
  per-entry / per-part decoder steps, length monotonicity and fuel independence.
-/
namespace VpnCloud.Proofs.CodecLemmas
open VpnCloud VpnCloud.Codec VpnCloud.Spec.C16

/-! ### primitive readers -/

theorem take?_append (n : Nat) (a rest : Bytes) (h : a.length = n) :
    take? n (a ++ rest) = some (a, rest) := by
  subst h; simp [take?]

/-- reading exactly `a` through a `Take` whose limit is `a.length + k` leaves limit `k` -/
theorem takeLim_append (n k : Nat) (a rest : Bytes) (h : a.length = n) :
    takeLim n (n + k) (a ++ rest) = some (a, k, rest) := by
  subst h; simp [takeLim]

theorem takeLim_some {n lim : Nat} {r a r' : Bytes} {lim' : Nat}
    (h : takeLim n lim r = some (a, lim', r')) :
    a = r.take n ∧ lim' = lim - n ∧ r' = r.drop n ∧ n ≤ lim ∧ n ≤ r.length := by
  unfold takeLim at h
  split at h
  · rename_i hc
    simp only [Option.some.injEq, Prod.mk.injEq] at h
    obtain ⟨h1, h2, h3⟩ := h
    exact ⟨h1.symm, h2.symm, h3.symm, hc.1, hc.2⟩
  · simp at h

theorem ofU16_length (v : Nat) : (Bytes.ofU16 v).length = 2 := rfl

theorem readU16_ofU16 (v : Nat) (h : v < 65536) (rest : Bytes) :
    readU16 (Bytes.ofU16 v ++ rest) = some (v, rest) := by
  simp [readU16, Bytes.ofU16]; omega

/-! ### socket addresses -/

theorem readSock_sockBytes (a : SockAddr) (h : sockWF a = true) (k : Nat) (rest : Bytes) :
    readSock (!isV4 a) ((sockBytes a).length + k) (sockBytes a ++ rest) = some (a, k, rest) := by
  cases a with
  | v4 ip port =>
    simp [sockWF] at h
    obtain ⟨⟨h1, _⟩, h3⟩ := h
    have e1 : takeLim 4 (4 + (2 + k)) (ip ++ (Bytes.ofU16 port ++ rest)) = _ :=
      takeLim_append 4 (2 + k) ip _ h1
    have e2 : takeLim 2 (2 + k) (Bytes.ofU16 port ++ rest) = _ :=
      takeLim_append 2 k _ rest (ofU16_length port)
    have e0 : (ip ++ Bytes.ofU16 port).length + k = 4 + (2 + k) := by
      simp [h1, ofU16_length]; omega
    simp only [readSock, isV4, sockBytes, Bool.not_true, e0, List.append_assoc]
    simp only [Bool.false_eq_true, ↓reduceIte, e1, e2, Option.bind_eq_bind, Option.bind_some,
      Option.pure_def]
    simp [Bytes.ofU16]
    omega
  | v6 ip port =>
    simp [sockWF] at h
    obtain ⟨⟨h1, _⟩, h3⟩ := h
    have e1 : takeLim 16 (16 + (2 + k)) (ip ++ (Bytes.ofU16 port ++ rest)) = _ :=
      takeLim_append 16 (2 + k) ip _ h1
    have e2 : takeLim 2 (2 + k) (Bytes.ofU16 port ++ rest) = _ :=
      takeLim_append 2 k _ rest (ofU16_length port)
    have e0 : (ip ++ Bytes.ofU16 port).length + k = 16 + (2 + k) := by
      simp [h1, ofU16_length]; omega
    simp only [readSock, isV4, sockBytes, Bool.not_false, e0, List.append_assoc]
    simp only [↓reduceIte, e1, e2, Option.bind_eq_bind, Option.bind_some,
      Option.pure_def]
    simp [Bytes.ofU16]
    omega

theorem readSocks_flatMap (v6 : Bool) (l : List SockAddr)
    (h : ∀ a ∈ l, sockWF a = true ∧ (!isV4 a) = v6) (k : Nat) (rest : Bytes) :
    readSocks v6 l.length ((l.flatMap sockBytes).length + k) (l.flatMap sockBytes ++ rest)
      = some (l, k, rest) := by
  induction l with
  | nil => simp [readSocks]
  | cons a l ih =>
    have ha := h a (List.mem_cons_self)
    have hl := ih (fun b hb => h b (List.mem_cons_of_mem _ hb))
    have e0 : ((a :: l).flatMap sockBytes).length + k
        = (sockBytes a).length + ((l.flatMap sockBytes).length + k) := by
      simp [List.flatMap_cons]; omega
    have e1 := readSock_sockBytes a ha.1 ((l.flatMap sockBytes).length + k)
      (l.flatMap sockBytes ++ rest)
    rw [ha.2] at e1
    rw [e0, List.flatMap_cons, List.append_assoc, List.length_cons]
    simp only [readSocks, e1, hl, Option.bind_eq_bind, Option.bind_some, Option.pure_def]

/-- the address list reader on `v6 bytes ++ v4 bytes`, for any flags byte carrying the two counts -/
theorem readAddrListInner_lists (v6 v4 : List SockAddr) (nf : Nat) (hnf : nf = 0 ∨ nf = 128)
    (h6 : ∀ a ∈ v6, sockWF a = true ∧ (!isV4 a) = true) (h4 : ∀ a ∈ v4, sockWF a = true ∧ (!isV4 a) = false)
    (l6 : v6.length ≤ 7) (l4 : v4.length ≤ 7) (k : Nat) (rest : Bytes) :
    readAddrListInner (v6.length * 8 + v4.length + nf)
      ((v6.flatMap sockBytes ++ v4.flatMap sockBytes).length + k)
      ((v6.flatMap sockBytes ++ v4.flatMap sockBytes) ++ rest) = some (v6 ++ v4, k, rest) := by
  have f4 : (v6.length * 8 + v4.length + nf) % 8 = v4.length := by omega
  have f6 : (v6.length * 8 + v4.length + nf) / 8 % 8 = v6.length := by omega
  have e0 : (v6.flatMap sockBytes ++ v4.flatMap sockBytes).length + k
      = (v6.flatMap sockBytes).length + ((v4.flatMap sockBytes).length + k) := by
    rw [List.length_append]; omega
  have e6 := readSocks_flatMap true v6 h6 ((v4.flatMap sockBytes).length + k)
    (v4.flatMap sockBytes ++ rest)
  have e4 := readSocks_flatMap false v4 h4 k rest
  rw [e0, List.append_assoc]
  simp only [readAddrListInner, f4, f6, e6, e4, Option.bind_eq_bind, Option.bind_some,
    Option.pure_def]

theorem splitAddrs_fst_mem (l : List SockAddr) (h : ∀ a ∈ l, sockWF a = true) :
    ∀ a ∈ (splitAddrs l).1, sockWF a = true ∧ (!isV4 a) = false := by
  intro a ha
  have h1 := List.mem_of_mem_take ha
  rw [List.mem_filter] at h1
  exact ⟨h a h1.1, by simp [h1.2]⟩

theorem splitAddrs_snd_mem (l : List SockAddr) (h : ∀ a ∈ l, sockWF a = true) :
    ∀ a ∈ (splitAddrs l).2, sockWF a = true ∧ (!isV4 a) = true := by
  intro a ha
  have h1 := List.mem_of_mem_take ha
  rw [List.mem_filter] at h1
  exact ⟨h a h1.1, h1.2⟩

theorem splitAddrs_fst_len (l : List SockAddr) : (splitAddrs l).1.length ≤ 7 := by
  simp [splitAddrs]; omega

theorem splitAddrs_snd_len (l : List SockAddr) : (splitAddrs l).2.length ≤ 7 := by
  simp [splitAddrs]; omega

theorem encodeAddrList_eq (l : List SockAddr) (nf : Nat) :
    encodeAddrList l nf = ((splitAddrs l).2.length * 8 + (splitAddrs l).1.length + nf,
      (splitAddrs l).2.flatMap sockBytes ++ (splitAddrs l).1.flatMap sockBytes) := rfl

theorem normAddrs_eq (l : List SockAddr) : normAddrs l = (splitAddrs l).2 ++ (splitAddrs l).1 := rfl

theorem readAddrListInner_encode (l : List SockAddr) (h : ∀ a ∈ l, sockWF a = true)
    (nf : Nat) (hnf : nf = 0 ∨ nf = 128) (k : Nat) (rest : Bytes) :
    readAddrListInner (encodeAddrList l nf).1 ((encodeAddrList l nf).2.length + k)
      ((encodeAddrList l nf).2 ++ rest) = some (normAddrs l, k, rest) := by
  rw [encodeAddrList_eq, normAddrs_eq]
  exact readAddrListInner_lists _ _ nf hnf (splitAddrs_snd_mem l h) (splitAddrs_fst_mem l h)
    (splitAddrs_snd_len l) (splitAddrs_fst_len l) k rest

theorem encodeAddrList_flags_lt (l : List SockAddr) (nf : Nat) :
    (encodeAddrList l nf).1 < nf + 64 := by
  rw [encodeAddrList_eq]
  have := splitAddrs_snd_len l
  have := splitAddrs_fst_len l
  simp only; omega

theorem flatMap_sockBytes_len (l : List SockAddr) (h : ∀ a ∈ l, sockWF a = true) :
    (l.flatMap sockBytes).length ≤ 18 * l.length := by
  induction l with
  | nil => simp
  | cons a l ih =>
    have ha := h a List.mem_cons_self
    have := ih (fun b hb => h b (List.mem_cons_of_mem _ hb))
    have hs : (sockBytes a).length ≤ 18 := by
      cases a <;> simp [sockWF] at ha <;> simp [sockBytes, ha, ofU16_length]
    rw [List.flatMap_cons, List.length_append, List.length_cons]; omega

theorem encodeAddrList_body_len (l : List SockAddr) (h : ∀ a ∈ l, sockWF a = true) (nf : Nat) :
    (encodeAddrList l nf).2.length ≤ 252 := by
  rw [encodeAddrList_eq]
  have a1 := flatMap_sockBytes_len _ (fun a ha => (splitAddrs_snd_mem l h a ha).1)
  have a2 := flatMap_sockBytes_len _ (fun a ha => (splitAddrs_fst_mem l h a ha).1)
  have := splitAddrs_snd_len l
  have := splitAddrs_fst_len l
  simp only [List.length_append]; omega

/-! ### peer list entries -/

/-- normal form of a peer entry -/
def normPeer (p : PeerInfo) : PeerInfo := { p with addrs := normAddrs p.addrs }

def peerWF (p : PeerInfo) : Prop :=
  (∀ i, p.nodeId = some i → i.length = 16) ∧ ∀ a ∈ p.addrs, sockWF a = true

/-- one iteration of `decodePeers`, with the entry's fields abstracted -/
theorem decodePeers_cons (flags : Nat) (nid : Option Bytes) (body rest : Bytes) (addrs : List SockAddr)
    (f k : Nat) (h1 : flags ≥ 128 ↔ nid.isSome = true) (h2 : ∀ i, nid = some i → i.length = 16)
    (h3 : ∀ k' rest', readAddrListInner flags (body.length + k') (body ++ rest') = some (addrs, k', rest')) :
    decodePeers (f + 1) (1 + ((nid.getD []).length + (body.length + k)))
        (flags :: (nid.getD [] ++ (body ++ rest)))
      = (decodePeers f k rest).bind (fun x => some ({ nodeId := nid, addrs := addrs } :: x.1, x.2)) := by
  have hl : ¬ (1 + ((nid.getD []).length + (body.length + k)) = 0) := by omega
  have t1 : takeLim 1 (1 + ((nid.getD []).length + (body.length + k)))
      ([flags] ++ (nid.getD [] ++ (body ++ rest))) = _ := takeLim_append 1 _ [flags] _ rfl
  rw [List.singleton_append] at t1
  rw [decodePeers, if_neg hl]
  simp only [t1, Option.bind_eq_bind, Option.bind_some, List.getD_cons_zero]
  cases nid with
  | none =>
    have hf : ¬ flags ≥ 128 := by simpa using h1
    simp only [hf, ↓reduceIte, Option.getD_none, List.length_nil, Nat.zero_add, List.nil_append,
      Option.bind_some, h3, Option.pure_def]
  | some i =>
    have hf : flags ≥ 128 := by simpa using h1
    have hi := h2 i rfl
    have t2 : takeLim 16 (16 + (body.length + k)) (i ++ (body ++ rest)) = _ :=
      takeLim_append 16 _ i _ hi
    simp only [hf, ↓reduceIte, Option.getD_some, hi, Generated.NODE_ID_BYTES, t2, Option.map_some,
      Option.bind_some, h3, Option.pure_def]

theorem encodePeer_eq (p : PeerInfo) :
    encodePeer p = (encodeAddrList p.addrs (if p.nodeId.isSome then 0x80 else 0)).1 ::
      (p.nodeId.getD [] ++ (encodeAddrList p.addrs (if p.nodeId.isSome then 0x80 else 0)).2) := rfl

theorem decodePeers_step (p : PeerInfo) (h : peerWF p) (f k : Nat) (rest : Bytes) :
    decodePeers (f + 1) ((encodePeer p).length + k) (encodePeer p ++ rest)
      = (decodePeers f k rest).bind (fun x => some (normPeer p :: x.1, x.2)) := by
  have hnf : (if p.nodeId.isSome then 0x80 else 0) = 0 ∨ (if p.nodeId.isSome then 0x80 else 0) = 128 := by
    split <;> simp
  have hlt := encodeAddrList_flags_lt p.addrs (if p.nodeId.isSome then 0x80 else 0)
  have h1 : (encodeAddrList p.addrs (if p.nodeId.isSome then 0x80 else 0)).1 ≥ 128 ↔ p.nodeId.isSome = true := by
    rw [encodeAddrList_eq] at hlt ⊢
    cases hh : p.nodeId.isSome <;> simp [hh] at hlt ⊢ <;> omega
  have := decodePeers_cons _ p.nodeId _ rest (normAddrs p.addrs) f k h1 h.1
    (fun k' rest' => readAddrListInner_encode p.addrs h.2 _ hnf k' rest')
  rw [encodePeer_eq, List.cons_append, List.append_assoc, List.length_cons, List.length_append]
  rw [show ∀ a b : Nat, a + b + 1 + k = 1 + (a + (b + k)) by omega]
  exact this

theorem encodePeer_length_pos (p : PeerInfo) : 1 ≤ (encodePeer p).length := by
  rw [encodePeer_eq, List.length_cons]; omega

theorem flatMap_encodePeer_length (ps : List PeerInfo) : ps.length ≤ (ps.flatMap encodePeer).length := by
  induction ps with
  | nil => simp
  | cons p ps ih =>
    have := encodePeer_length_pos p
    rw [List.flatMap_cons, List.length_append, List.length_cons]; omega

theorem decodePeers_flatMap (ps : List PeerInfo) (h : ∀ p ∈ ps, peerWF p) (f : Nat) (hf : ps.length < f)
    (rest : Bytes) :
    decodePeers f (ps.flatMap encodePeer).length (ps.flatMap encodePeer ++ rest)
      = some (ps.map normPeer, rest) := by
  induction ps generalizing f with
  | nil =>
    obtain ⟨g, rfl⟩ : ∃ g, f = g + 1 := ⟨f - 1, by simp at hf; omega⟩
    simp [decodePeers]
  | cons p ps ih =>
    obtain ⟨g, rfl⟩ : ∃ g, f = g + 1 := ⟨f - 1, by omega⟩
    have hp := h p List.mem_cons_self
    have ih' := ih (fun q hq => h q (List.mem_cons_of_mem _ hq)) g (by simp at hf; omega)
    rw [List.flatMap_cons, List.length_append, List.append_assoc, decodePeers_step p hp, ih']
    rfl

/-! ### claims -/

theorem decodeClaims_step (r : Range) (h : rangeWF r = true) (f k : Nat) (rest : Bytes) :
    decodeClaims (f + 1) ((writeRange r).length + k) (writeRange r ++ rest)
      = (decodeClaims f k rest).bind (fun x => some (r :: x.1, x.2)) := by
  simp [rangeWF] at h
  obtain ⟨⟨hlen, _⟩, hp⟩ := h
  have hm : r.base.length % 256 = r.base.length := by omega
  have e0 : (writeRange r).length + k = 1 + (r.base.length + (1 + k)) := by
    simp [writeRange, writeAddress]; omega
  have e1 : writeRange r ++ rest = r.base.length :: (r.base ++ ([r.prefixLen] ++ rest)) := by
    simp [writeRange, writeAddress, hm]; omega
  have t1 : takeLim 1 (1 + (r.base.length + (1 + k))) ([r.base.length] ++ (r.base ++ ([r.prefixLen] ++ rest))) = _ :=
    takeLim_append 1 _ [r.base.length] _ rfl
  rw [List.singleton_append] at t1
  have t2 : takeLim r.base.length (r.base.length + (1 + k)) (r.base ++ ([r.prefixLen] ++ rest)) = _ :=
    takeLim_append _ _ r.base _ rfl
  have t3 : takeLim 1 (1 + k) ([r.prefixLen] ++ rest) = _ := takeLim_append 1 k [r.prefixLen] rest rfl
  have hl : ¬ (1 + (r.base.length + (1 + k)) = 0) := by omega
  have hg : ¬ (r.base.length > 16) := by omega
  rw [e0, e1, decodeClaims, if_neg hl]
  simp only [t1, Option.bind_eq_bind, Option.bind_some, List.getD_cons_zero, hg, ↓reduceIte, t2, t3,
    Option.pure_def]

theorem writeRange_length_pos (r : Range) : 1 ≤ (writeRange r).length := by
  simp [writeRange, writeAddress]

theorem flatMap_writeRange_length (cs : List Range) : cs.length ≤ (cs.flatMap writeRange).length := by
  induction cs with
  | nil => simp
  | cons c cs ih =>
    have := writeRange_length_pos c
    rw [List.flatMap_cons, List.length_append, List.length_cons]; omega

theorem decodeClaims_flatMap (cs : List Range) (h : ∀ c ∈ cs, rangeWF c = true) (f : Nat) (hf : cs.length < f)
    (rest : Bytes) :
    decodeClaims f (cs.flatMap writeRange).length (cs.flatMap writeRange ++ rest) = some (cs, rest) := by
  induction cs generalizing f with
  | nil =>
    obtain ⟨g, rfl⟩ : ∃ g, f = g + 1 := ⟨f - 1, by simp at hf; omega⟩
    simp [decodeClaims]
  | cons c cs ih =>
    obtain ⟨g, rfl⟩ : ∃ g, f = g + 1 := ⟨f - 1, by omega⟩
    have hc := h c List.mem_cons_self
    have ih' := ih (fun q hq => h q (List.mem_cons_of_mem _ hq)) g (by simp at hf; omega)
    rw [List.flatMap_cons, List.length_append, List.append_assoc, decodeClaims_step c hc, ih']
    rfl

/-! ### the part loop: one part = one step -/

/-- the part loop, given enough fuel for one iteration, consumes exactly `p` and continues with `b` -/
def Step (p : Bytes) (a b : Partial) : Prop :=
  ∀ f rest, decodeParts (f + 1) (p ++ rest) a = decodeParts f rest b

/-! unfolding of one loop iteration on a well-formed part header, per tag -/

theorem header_peers (f n : Nat) (r2 : Bytes) (acc : Partial) (hn : n < 65536) :
    decodeParts (f + 1) (Generated.NI_PART_PEERS :: (Bytes.ofU16 n ++ r2)) acc =
      (decodePeers (n + 1) n r2).bind (fun x => decodeParts f x.2 { acc with peers := x.1 }) := by
  rw [decodeParts]
  simp [readU8, readU16_ofU16 n hn, Generated.NI_PART_PEERS, Generated.NI_PART_END]

theorem header_claims (f n : Nat) (r2 : Bytes) (acc : Partial) (hn : n < 65536) :
    decodeParts (f + 1) (Generated.NI_PART_CLAIMS :: (Bytes.ofU16 n ++ r2)) acc =
      (decodeClaims (n + 1) n r2).bind (fun x => decodeParts f x.2 { acc with claims := x.1 }) := by
  rw [decodeParts]
  simp [readU8, readU16_ofU16 n hn, Generated.NI_PART_PEERS, Generated.NI_PART_END, Generated.NI_PART_CLAIMS]

theorem header_timeout (f n : Nat) (r2 : Bytes) (acc : Partial) (hn : n < 65536) :
    decodeParts (f + 1) (Generated.NI_PART_PEER_TIMEOUT :: (Bytes.ofU16 n ++ r2)) acc =
      (takeLim 2 n r2).bind (fun x => decodeParts f x.2.2
        { acc with peerTimeout := some (x.1.getD 0 0 * 256 + x.1.getD 1 0) }) := by
  rw [decodeParts]
  simp [readU8, readU16_ofU16 n hn, Generated.NI_PART_PEERS, Generated.NI_PART_END, Generated.NI_PART_CLAIMS,
    Generated.NI_PART_PEER_TIMEOUT]

theorem header_nodeid (f n : Nat) (r2 : Bytes) (acc : Partial) (hn : n < 65536) :
    decodeParts (f + 1) (Generated.NI_PART_NODEID :: (Bytes.ofU16 n ++ r2)) acc =
      (takeLim 16 n r2).bind (fun x => decodeParts f x.2.2 { acc with nodeId := some x.1 }) := by
  rw [decodeParts]
  simp [readU8, readU16_ofU16 n hn, Generated.NI_PART_PEERS, Generated.NI_PART_END, Generated.NI_PART_CLAIMS,
    Generated.NI_PART_PEER_TIMEOUT, Generated.NI_PART_NODEID, Generated.NODE_ID_BYTES]

theorem header_addrs (f n : Nat) (r2 : Bytes) (acc : Partial) (hn : n < 65536) :
    decodeParts (f + 1) (Generated.NI_PART_ADDRS :: (Bytes.ofU16 n ++ r2)) acc =
      (takeLim 1 n r2).bind (fun x => (readAddrListInner (x.1.getD 0 0) x.2.1 x.2.2).bind
        (fun y => decodeParts f y.2.2 { acc with addrs := y.1 })) := by
  rw [decodeParts]
  simp [readU8, readU16_ofU16 n hn, Generated.NI_PART_PEERS, Generated.NI_PART_END, Generated.NI_PART_CLAIMS,
    Generated.NI_PART_PEER_TIMEOUT, Generated.NI_PART_NODEID, Generated.NI_PART_ADDRS]

theorem header_unknown (f tag n : Nat) (r2 : Bytes) (acc : Partial) (hn : n < 65536) (ht : 6 ≤ tag) :
    decodeParts (f + 1) (tag :: (Bytes.ofU16 n ++ r2)) acc =
      (takeLim n n r2).bind (fun x => decodeParts f x.2.2 acc) := by
  have h0 : ¬ tag = 0 := by omega
  have h1 : ¬ tag = 1 := by omega
  have h2 : ¬ tag = 2 := by omega
  have h3 : ¬ tag = 3 := by omega
  have h4 : ¬ tag = 4 := by omega
  have h5 : ¬ tag = 5 := by omega
  rw [decodeParts]
  simp [readU8, readU16_ofU16 n hn, Generated.NI_PART_PEERS, Generated.NI_PART_END, Generated.NI_PART_CLAIMS,
    Generated.NI_PART_PEER_TIMEOUT, Generated.NI_PART_NODEID, Generated.NI_PART_ADDRS, h0, h1, h2, h3, h4, h5]

theorem step_nodeid (id : Bytes) (h : id.length = 16) (a : Partial) :
    Step (encodePart Generated.NI_PART_NODEID id) a { a with nodeId := some id } := by
  intro f rest
  have t : takeLim 16 16 (id ++ rest) = some (id, 0, rest) := takeLim_append 16 0 id rest h
  rw [encodePart, List.cons_append, List.append_assoc, header_nodeid _ _ _ _ (by omega), h, t]
  rfl

theorem step_peers (ps : List PeerInfo) (h : ∀ p ∈ ps, peerWF p) (hl : (ps.flatMap encodePeer).length < 65536)
    (a : Partial) :
    Step (encodePart Generated.NI_PART_PEERS (ps.flatMap encodePeer)) a { a with peers := ps.map normPeer } := by
  intro f rest
  have t := decodePeers_flatMap ps h ((ps.flatMap encodePeer).length + 1)
    (by have := flatMap_encodePeer_length ps; omega) rest
  rw [encodePart, List.cons_append, List.append_assoc, header_peers _ _ _ _ hl, t]
  rfl

theorem step_claims (cs : List Range) (h : ∀ c ∈ cs, rangeWF c = true) (hl : (cs.flatMap writeRange).length < 65536)
    (a : Partial) :
    Step (encodePart Generated.NI_PART_CLAIMS (cs.flatMap writeRange)) a { a with claims := cs } := by
  intro f rest
  have t := decodeClaims_flatMap cs h ((cs.flatMap writeRange).length + 1)
    (by have := flatMap_writeRange_length cs; omega) rest
  rw [encodePart, List.cons_append, List.append_assoc, header_claims _ _ _ _ hl, t]
  rfl

theorem step_timeout (t : Nat) (h : t < 65536) (a : Partial) :
    Step (encodePart Generated.NI_PART_PEER_TIMEOUT (Bytes.ofU16 t)) a { a with peerTimeout := some t } := by
  intro f rest
  have e : takeLim 2 2 (Bytes.ofU16 t ++ rest) = some (Bytes.ofU16 t, 0, rest) :=
    takeLim_append 2 0 _ rest (ofU16_length t)
  have hv : t / 256 % 256 * 256 + t % 256 = t := by omega
  rw [encodePart, List.cons_append, List.append_assoc, header_timeout _ _ _ _ (by simp [ofU16_length]),
    ofU16_length, e]
  simp [Bytes.ofU16, hv]

theorem step_addrs (l : List SockAddr) (h : ∀ x ∈ l, sockWF x = true) (a : Partial) :
    Step (encodePart Generated.NI_PART_ADDRS (let (f, b) := encodeAddrList l 0; f :: b)) a
      { a with addrs := normAddrs l } := by
  intro f rest
  have hb := encodeAddrList_body_len l h 0
  have e0 : (let (f, b) := encodeAddrList l 0; f :: b) = (encodeAddrList l 0).1 :: (encodeAddrList l 0).2 := rfl
  have t1 : takeLim 1 (1 + ((encodeAddrList l 0).2.length + 0)) ([(encodeAddrList l 0).1] ++ ((encodeAddrList l 0).2 ++ rest)) = _ :=
    takeLim_append 1 _ [_] _ rfl
  have t2 := readAddrListInner_encode l h 0 (Or.inl rfl) 0 rest
  have e1 : ((encodeAddrList l 0).1 :: (encodeAddrList l 0).2).length = 1 + ((encodeAddrList l 0).2.length + 0) := by
    rw [List.length_cons]; omega
  rw [List.singleton_append] at t1
  rw [e0, encodePart, List.cons_append, List.append_assoc,
    header_addrs _ _ _ _ (by rw [List.length_cons]; omega), e1, List.cons_append, t1]
  simp only [Option.bind_some, List.getD_cons_zero, t2]

/-- an unknown part is skipped as a whole -/
theorem step_unknown (tag : Nat) (body : Bytes) (ht : 6 ≤ tag) (hb : body.length < 65536) (a : Partial) :
    Step (tag :: (Bytes.ofU16 body.length ++ body)) a a := by
  intro f rest
  have t : takeLim body.length (body.length + 0) (body ++ rest) = _ := takeLim_append _ 0 body rest rfl
  simp only [Nat.add_zero] at t
  rw [List.cons_append, List.append_assoc, header_unknown _ _ _ _ _ hb ht, t]
  rfl

/-! ### readers never grow the input or the limit -/

theorem takeLim_le {n lim : Nat} {r a r' : Bytes} {lim' : Nat} (h : takeLim n lim r = some (a, lim', r')) :
    lim' + n = lim ∧ r'.length + n = r.length := by
  obtain ⟨_, h2, h3, h4, h5⟩ := takeLim_some h
  subst h2 h3; rw [List.length_drop]; omega

theorem readSock_le {v6 : Bool} {lim : Nat} {r : Bytes} {a : SockAddr} {lim' : Nat} {r' : Bytes}
    (h : readSock v6 lim r = some (a, lim', r')) : lim' ≤ lim ∧ r'.length ≤ r.length := by
  simp only [readSock, Option.bind_eq_bind, Option.pure_def, Option.bind_eq_some_iff] at h
  obtain ⟨⟨ip, l1, r1⟩, h1, ⟨pb, l2, r2⟩, h2, h3⟩ := h
  simp only [Option.some.injEq, Prod.mk.injEq] at h3
  obtain ⟨_, rfl, rfl⟩ := h3
  dsimp only at h2
  have := takeLim_le h1
  have := takeLim_le h2
  omega

theorem readSocks_le {v6 : Bool} {n lim : Nat} {r : Bytes} {l : List SockAddr} {lim' : Nat} {r' : Bytes}
    (h : readSocks v6 n lim r = some (l, lim', r')) : lim' ≤ lim ∧ r'.length ≤ r.length := by
  induction n generalizing lim r l with
  | zero =>
    simp only [readSocks, Option.some.injEq, Prod.mk.injEq] at h
    obtain ⟨_, rfl, rfl⟩ := h
    omega
  | succ n ih =>
    simp only [readSocks, Option.bind_eq_bind, Option.pure_def, Option.bind_eq_some_iff] at h
    obtain ⟨⟨a, l1, r1⟩, h1, ⟨as, l2, r2⟩, h2, h3⟩ := h
    simp only [Option.some.injEq, Prod.mk.injEq] at h3
    obtain ⟨_, rfl, rfl⟩ := h3
    dsimp only at h2
    have := readSock_le h1
    have := ih h2
    omega

theorem readAddrListInner_le {flags lim : Nat} {r : Bytes} {l : List SockAddr} {lim' : Nat} {r' : Bytes}
    (h : readAddrListInner flags lim r = some (l, lim', r')) : lim' ≤ lim ∧ r'.length ≤ r.length := by
  simp only [readAddrListInner, Option.bind_eq_bind, Option.pure_def, Option.bind_eq_some_iff] at h
  obtain ⟨⟨a, l1, r1⟩, h1, ⟨as, l2, r2⟩, h2, h3⟩ := h
  simp only [Option.some.injEq, Prod.mk.injEq] at h3
  obtain ⟨_, rfl, rfl⟩ := h3
  dsimp only at h2
  have := readSocks_le h1
  have := readSocks_le h2
  omega

/-- explicit form of one `decodePeers` iteration -/
theorem decodePeers_succ (f lim : Nat) (r : Bytes) :
    decodePeers (f + 1) lim r =
      if lim = 0 then some ([], r) else
        (takeLim 1 lim r).bind fun x =>
          (if x.1.getD 0 0 ≥ 128 then
              (takeLim Generated.NODE_ID_BYTES x.2.1 x.2.2).map
                (fun (y : Bytes × Nat × Bytes) => (some y.1, y.2.1, y.2.2))
            else some (none, x.2.1, x.2.2)).bind fun y =>
            (readAddrListInner (x.1.getD 0 0) y.2.1 y.2.2).bind fun z =>
              (decodePeers f z.2.1 z.2.2).bind fun w =>
                some ({ nodeId := y.1, addrs := z.1 } :: w.1, w.2) := by
  rw [decodePeers]
  split
  · rfl
  · cases takeLim 1 lim r with
    | none => rfl
    | some x =>
      obtain ⟨fl, l1, r1⟩ := x
      simp only [Option.bind_eq_bind, Option.bind_some]
      split
      · cases takeLim Generated.NODE_ID_BYTES l1 r1 with
        | none => rfl
        | some y =>
          obtain ⟨a, b, c⟩ := y
          simp only [Option.map_some, Option.bind_some]
          cases readAddrListInner (fl.getD 0 0) b c with
          | none => rfl
          | some z =>
            obtain ⟨a', b', c'⟩ := z
            simp only [Option.bind_some]
            cases decodePeers f b' c' <;> rfl
      · simp only [Option.bind_some]
        cases readAddrListInner (fl.getD 0 0) l1 r1 with
        | none => rfl
        | some z =>
          obtain ⟨a', b', c'⟩ := z
          simp only [Option.bind_some]
          cases decodePeers f b' c' <;> rfl

theorem decodeClaims_succ (f lim : Nat) (r : Bytes) :
    decodeClaims (f + 1) lim r =
      if lim = 0 then some ([], r) else
        (takeLim 1 lim r).bind fun x =>
          if x.1.getD 0 0 > 16 then none else
            (takeLim (x.1.getD 0 0) x.2.1 x.2.2).bind fun y =>
              (takeLim 1 y.2.1 y.2.2).bind fun z =>
                (decodeClaims f z.2.1 z.2.2).bind fun w =>
                  some ({ base := y.1, prefixLen := z.1.getD 0 0 } :: w.1, w.2) := by
  rw [decodeClaims]
  split
  · rfl
  · cases takeLim 1 lim r with
    | none => rfl
    | some x =>
      obtain ⟨fl, l1, r1⟩ := x
      simp only [Option.bind_eq_bind, Option.bind_some]
      split
      · rfl
      · cases takeLim (fl.getD 0 0) l1 r1 with
        | none => rfl
        | some y =>
          obtain ⟨a, b, c⟩ := y
          simp only [Option.bind_some]
          cases takeLim 1 b c with
          | none => rfl
          | some z =>
            obtain ⟨a', b', c'⟩ := z
            simp only [Option.bind_some]
            cases decodeClaims f b' c' <;> rfl

theorem nidStep_le {flags l1 : Nat} {r1 : Bytes} {nid : Option Bytes} {l2 : Nat} {r2 : Bytes}
    (h : (if flags ≥ 128 then
            (takeLim Generated.NODE_ID_BYTES l1 r1).map (fun (y : Bytes × Nat × Bytes) => (some y.1, y.2.1, y.2.2))
          else some (none, l1, r1)) = some (nid, l2, r2)) :
    l2 ≤ l1 ∧ r2.length ≤ r1.length := by
  split at h
  · simp only [Option.map_eq_some_iff] at h
    obtain ⟨⟨a, b, c⟩, hh, he⟩ := h
    simp only [Prod.mk.injEq] at he
    obtain ⟨_, rfl, rfl⟩ := he
    have := takeLim_le hh
    omega
  · simp only [Option.some.injEq, Prod.mk.injEq] at h
    obtain ⟨_, rfl, rfl⟩ := h
    omega

theorem decodePeers_le {f lim : Nat} {r : Bytes} {x : List PeerInfo} {r' : Bytes}
    (h : decodePeers f lim r = some (x, r')) : r'.length ≤ r.length := by
  induction f generalizing lim r x with
  | zero => simp [decodePeers] at h
  | succ f ih =>
    rw [decodePeers_succ] at h
    split at h
    · simp only [Option.some.injEq, Prod.mk.injEq] at h
      obtain ⟨_, rfl⟩ := h
      omega
    · simp only [Option.bind_eq_some_iff] at h
      obtain ⟨⟨fl, l1, r1⟩, h1, ⟨nid, l2, r2⟩, h2, ⟨ad, l3, r3⟩, h3, ⟨w, r4⟩, h4, h5⟩ := h
      dsimp only at h2 h3 h4 h5
      simp only [Option.some.injEq, Prod.mk.injEq] at h5
      obtain ⟨_, rfl⟩ := h5
      have := takeLim_le h1
      have := nidStep_le h2
      have := readAddrListInner_le h3
      have := ih h4
      omega

theorem decodeClaims_le {f lim : Nat} {r : Bytes} {x : List Range} {r' : Bytes}
    (h : decodeClaims f lim r = some (x, r')) : r'.length ≤ r.length := by
  induction f generalizing lim r x with
  | zero => simp [decodeClaims] at h
  | succ f ih =>
    rw [decodeClaims_succ] at h
    split at h
    · simp only [Option.some.injEq, Prod.mk.injEq] at h
      obtain ⟨_, rfl⟩ := h
      omega
    · simp only [Option.bind_eq_some_iff] at h
      obtain ⟨⟨fl, l1, r1⟩, h1, h⟩ := h
      dsimp only at h
      split at h
      · simp at h
      · simp only [Option.bind_eq_some_iff] at h
        obtain ⟨⟨b, l2, r2⟩, h2, ⟨pb, l3, r3⟩, h3, ⟨w, r4⟩, h4, h5⟩ := h
        dsimp only at h3 h4 h5
        simp only [Option.some.injEq, Prod.mk.injEq] at h5
        obtain ⟨_, rfl⟩ := h5
        have := takeLim_le h1
        have := takeLim_le h2
        have := takeLim_le h3
        have := ih h4
        omega

/-! ### fuel independence -/

/-- `decodePeers` with fuel above the limit never runs out of fuel -/
theorem decodePeers_fuel (f1 f2 lim : Nat) (r : Bytes) (h1 : lim + 1 ≤ f1) (h2 : lim + 1 ≤ f2) :
    decodePeers f1 lim r = decodePeers f2 lim r := by
  induction f1 generalizing f2 lim r with
  | zero => omega
  | succ f1 ih =>
    obtain ⟨g, rfl⟩ : ∃ g, f2 = g + 1 := ⟨f2 - 1, by omega⟩
    rw [decodePeers_succ, decodePeers_succ]
    split
    · rfl
    · apply Option.bind_congr; intro ⟨fl, l1, r1⟩ e1
      apply Option.bind_congr; intro ⟨nid, l2, r2⟩ e2
      apply Option.bind_congr; intro ⟨ad, l3, r3⟩ e3
      dsimp only at e2 e3 ⊢
      have := takeLim_le e1
      have := nidStep_le e2
      have := readAddrListInner_le e3
      rw [ih g l3 r3 (by omega) (by omega)]

/-- `decodeClaims` with fuel above the limit never runs out of fuel -/
theorem decodeClaims_fuel (f1 f2 lim : Nat) (r : Bytes) (h1 : lim + 1 ≤ f1) (h2 : lim + 1 ≤ f2) :
    decodeClaims f1 lim r = decodeClaims f2 lim r := by
  induction f1 generalizing f2 lim r with
  | zero => omega
  | succ f1 ih =>
    obtain ⟨g, rfl⟩ : ∃ g, f2 = g + 1 := ⟨f2 - 1, by omega⟩
    rw [decodeClaims_succ, decodeClaims_succ]
    split
    · rfl
    · apply Option.bind_congr; intro ⟨fl, l1, r1⟩ e1
      dsimp only
      split
      · rfl
      · apply Option.bind_congr; intro ⟨b, l2, r2⟩ e2
        apply Option.bind_congr; intro ⟨pb, l3, r3⟩ e3
        dsimp only at e2 e3 ⊢
        have := takeLim_le e1
        have := takeLim_le e2
        have := takeLim_le e3
        rw [ih g l3 r3 (by omega) (by omega)]

/-- the part loop with fuel above the input length never runs out of fuel -/
theorem decodeParts_fuel' (f1 f2 : Nat) (r : Bytes) (acc : Partial) (h1 : r.length + 1 ≤ f1) (h2 : r.length + 1 ≤ f2) :
    decodeParts f1 r acc = decodeParts f2 r acc := by
  induction f1 generalizing f2 r acc with
  | zero => omega
  | succ f1 ih =>
    obtain ⟨g, rfl⟩ : ∃ g, f2 = g + 1 := ⟨f2 - 1, by omega⟩
    rw [decodeParts, decodeParts]
    match r, h1, h2 with
    | [], _, _ => rfl
    | [part], _, _ => simp only [readU8, readU16, Option.bind_eq_bind, Option.bind_some, Option.bind_none]
    | [part, a], _, _ => simp only [readU8, readU16, Option.bind_eq_bind, Option.bind_some, Option.bind_none]
    | part :: a :: b :: r2, h1, h2 =>
      simp only [List.length_cons] at h1 h2
      simp only [readU8, readU16, Option.bind_eq_bind, Option.bind_some]
      split
      · rfl
      split
      · apply Option.bind_congr; intro ⟨x, r3⟩ e
        have := decodePeers_le e
        exact ih g r3 _ (by omega) (by omega)
      split
      · apply Option.bind_congr; intro ⟨x, r3⟩ e
        have := decodeClaims_le e
        exact ih g r3 _ (by omega) (by omega)
      split
      · apply Option.bind_congr; intro ⟨x, l, r3⟩ e
        have := takeLim_le e
        exact ih g r3 _ (by omega) (by omega)
      split
      · apply Option.bind_congr; intro ⟨x, l, r3⟩ e
        have := takeLim_le e
        exact ih g r3 _ (by omega) (by omega)
      split
      · apply Option.bind_congr; intro ⟨x, l, r3⟩ e
        apply Option.bind_congr; intro ⟨y, l', r4⟩ e'
        dsimp only at e'
        have := takeLim_le e
        have := readAddrListInner_le e'
        exact ih g r4 _ (by omega) (by omega)
      · apply Option.bind_congr; intro ⟨x, l, r3⟩ e
        have := takeLim_le e
        exact ih g r3 _ (by omega) (by omega)

/-! ### chains of parts -/

/-- `Chain ps a c`: decoding the parts `ps` one after the other takes the accumulator from `a` to `c` -/
inductive Chain : List Bytes → Partial → Partial → Prop
  | nil (a : Partial) : Chain [] a a
  | cons {p : Bytes} {ps : List Bytes} {a b c : Partial} : Step p a b → Chain ps b c → Chain (p :: ps) a c

theorem Chain.run {ps : List Bytes} {a c : Partial} (h : Chain ps a c) (f : Nat) (rest : Bytes) :
    decodeParts (f + ps.length) (ps.flatten ++ rest) a = decodeParts f rest c := by
  induction h generalizing f with
  | nil a => simp
  | cons hs _ ih =>
    rw [List.flatten_cons, List.append_assoc, List.length_cons, ← Nat.add_assoc, hs]
    exact ih f

/-- a part that leaves every accumulator alone can be inserted at any boundary -/
theorem Chain.insert {ps : List Bytes} {a c : Partial} (h : Chain ps a c) (u : Bytes) (hu : ∀ x, Step u x x)
    (k : Nat) (hk : k ≤ ps.length) : Chain (ps.take k ++ [u] ++ ps.drop k) a c := by
  induction h generalizing k with
  | nil a =>
    have : k = 0 := by simpa using hk
    subst this
    exact Chain.cons (hu a) (Chain.nil a)
  | cons hs hc ih =>
    cases k with
    | zero => exact Chain.cons (hu _) (Chain.cons hs hc)
    | succ k =>
      have := ih k (by simpa using hk)
      simpa using Chain.cons hs this

theorem decodeParts_end (f : Nat) (tail : Bytes) (acc : Partial) :
    decodeParts (f + 1) ([Generated.NI_PART_END] ++ tail) acc = some acc := by
  simp [decodeParts, readU8]

/-- all parts before the END marker -/
def bodyParts (n : NodeInfo) : List Bytes :=
  [encodePart Generated.NI_PART_NODEID n.nodeId,
   encodePart Generated.NI_PART_PEERS (n.peers.flatMap encodePeer),
   encodePart Generated.NI_PART_CLAIMS (n.claims.flatMap writeRange)] ++
  (match n.peerTimeout with
   | some t => [encodePart Generated.NI_PART_PEER_TIMEOUT (Bytes.ofU16 t)]
   | none => []) ++
  [encodePart Generated.NI_PART_ADDRS (let (f, b) := encodeAddrList n.addrs 0; f :: b)]

theorem partsOf_eq (n : NodeInfo) : partsOf n = bodyParts n ++ [[Generated.NI_PART_END]] := by
  cases h : n.peerTimeout <;> simp [partsOf, bodyParts, h]

theorem bodyParts_length (n : NodeInfo) : (bodyParts n).length + 1 = (partsOf n).length := by
  rw [partsOf_eq, List.length_append]; rfl

/-- the accumulator after all parts of `encodeNodeInfo n` -/
def finalAcc (n : NodeInfo) : Partial :=
  { peers := n.peers.map normPeer, claims := n.claims, peerTimeout := n.peerTimeout,
    nodeId := some n.nodeId, addrs := normAddrs n.addrs }

theorem WF_unpack {n : NodeInfo} (h : WF n = true) :
    n.nodeId.length = 16 ∧ (∀ p ∈ n.peers, peerWF p) ∧ (∀ c ∈ n.claims, rangeWF c = true) ∧
    (∀ a ∈ n.addrs, sockWF a = true) ∧ (∀ t, n.peerTimeout = some t → t < 65536) ∧
    (n.peers.flatMap encodePeer).length < 65536 ∧ (n.claims.flatMap writeRange).length < 65536 := by
  simp only [WF, Bool.and_eq_true, decide_eq_true_eq, List.all_eq_true] at h
  obtain ⟨⟨⟨⟨⟨⟨⟨h1, _⟩, h3⟩, h4⟩, h5⟩, h6⟩, h7⟩, h8⟩ := h
  refine ⟨h1, ?_, h4, h5, ?_, h7, h8⟩
  · intro p hp
    have := h3 p hp
    refine ⟨?_, this.2⟩
    intro i hi
    have h' := this.1
    rw [hi] at h'
    simp only [Bool.and_eq_true, decide_eq_true_eq] at h'
    exact h'.1
  · intro t ht
    rw [ht] at h6
    simpa using h6

theorem chain_body (n : NodeInfo) (h : WF n = true) : Chain (bodyParts n) {} (finalAcc n) := by
  obtain ⟨h1, h2, h3, h4, h5, h6, h7⟩ := WF_unpack h
  unfold bodyParts finalAcc
  cases ht : n.peerTimeout with
  | none =>
    exact Chain.cons (step_nodeid _ h1 _) (Chain.cons (step_peers _ h2 h6 _)
      (Chain.cons (step_claims _ h3 h7 _) (Chain.cons (step_addrs _ h4 _) (Chain.nil _))))
  | some t =>
    exact Chain.cons (step_nodeid _ h1 _) (Chain.cons (step_peers _ h2 h6 _)
      (Chain.cons (step_claims _ h3 h7 _) (Chain.cons (step_timeout t (h5 t ht) _)
        (Chain.cons (step_addrs _ h4 _) (Chain.nil _)))))

/-- whatever chain of parts leads to `finalAcc n`, followed by END and arbitrary bytes, decodes to `normalise n` -/
theorem decode_of_chain (n : NodeInfo) (ps : List Bytes) (h : Chain ps {} (finalAcc n)) (tail : Bytes) :
    decodeNodeInfo ((ps ++ [[Generated.NI_PART_END]]).flatten ++ tail) = some (normalise n) := by
  have e : (ps ++ [[Generated.NI_PART_END]]).flatten ++ tail
      = ps.flatten ++ ([Generated.NI_PART_END] ++ tail) := by simp
  unfold decodeNodeInfo
  rw [decodeParts_fuel' _ ((((ps ++ [[Generated.NI_PART_END]]).flatten ++ tail).length + 1) + ps.length) _ _
    (Nat.le_refl _) (by omega), e, h.run, decodeParts_end]
  rfl

/-! ### rotation message -/

theorem ofBE_length (n v : Nat) : (Bytes.ofBE n v).length = n := by
  induction n with
  | zero => rfl
  | succ n ih => simp [Bytes.ofBE, ih]

theorem beVal_ofBE (n v : Nat) : Bytes.beVal (Bytes.ofBE n v) = v % 256 ^ n := by
  induction n with
  | zero => simp [Bytes.ofBE, Bytes.beVal, Nat.mod_one]
  | succ n ih =>
    simp only [Bytes.ofBE, Bytes.beVal, ih, ofBE_length]
    rw [Nat.pow_succ, Nat.mod_mul, Nat.mul_comm]
    omega

end VpnCloud.Proofs.CodecLemmas
