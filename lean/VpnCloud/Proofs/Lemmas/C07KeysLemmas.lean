import VpnCloud.Proofs.C07
import VpnCloud.Proofs.Lemmas.RotLemmas
/-
  Helper definitions and lemmas for `Proofs/C07Keys.lean`: the ghost log of installed rotation keys
  (`processLog`, `cycleLog` — what a step installs, proved to be exactly the change of the slots), the
  instrumented two-party system `GSys`/`GStep`/`GReach`, the ownership invariant `SideInv` (every
  ephemeral number is drawn by exactly one end; an installed key consumes one own number that is never
  live again) and the log relation `LogRel` carried along the invariant `Ahead` of `Proofs/C07.lean`.
-/
namespace VpnCloud.Rot

/-! ### the symbolic ECDH keys -/

theorem K_inj (a b c d : Nat) : K a b = K c d ↔ (a = c ∧ b = d) ∨ (a = d ∧ b = c) := by
  unfold K
  constructor
  · intro h
    split at h <;> split at h <;> (injection h with h1 h2; omega)
  · rintro (⟨rfl, rfl⟩ | ⟨rfl, rfl⟩)
    · rfl
    · split <;> split <;> first | rfl | (congr 1 <;> omega) | (exfalso; omega)

theorem K_ne_init (a b : Nat) : K a b ≠ .init := by
  unfold K; split <;> exact fun h => Key.noConfusion h

theorem K_ne_dummy (a b side slot : Nat) : K a b ≠ .dummy side slot := by
  unfold K; split <;> exact fun h => Key.noConfusion h

theorem K_is_dh (a b : Nat) : ∃ lo hi, K a b = .dh lo hi ∧ lo ≤ hi := by
  unfold K; split
  · exact ⟨a, b, rfl, by omega⟩
  · exact ⟨b, a, rfl, by omega⟩

/-! ### the ghost log: what one step installs -/

/-- the `(message id, key)` that `process` hands to `rotate_key`, if it does -/
def processLog (s : Side) (m : Msg) : List (Nat × Key) :=
  if m.id ≤ s.id then [] else
  match m.confirm, s.proposed with
  | some c, some p => [(m.id, K p c)]
  | _, _ => []

/-- the `(message id, key)` that `cycle` hands to `rotate_key`, if it does -/
def cycleLog (s : Side) : List (Nat × Key) :=
  match s.proposed, s.pending with
  | none, some (key, _) => [(s.id + 2, key)]
  | _, _ => []

/-- replay a log (newest first) on a slot table -/
def installAll (sl : Nat → Key) (l : List (Nat × Key)) : Nat → Key :=
  l.foldr (fun r s => install s r.2 r.1) sl

theorem processLog_ignore {s : Side} {m : Msg} (h : m.id ≤ s.id) : processLog s m = [] := by
  simp [processLog, h]

theorem process_install {s : Side} {m : Msg} {c p : Nat} (f : Nat) (hle : ¬ m.id ≤ s.id)
    (hc : m.confirm = some c) (hp : s.proposed = some p) :
    process s m f = { s with timeout := false, pending := some (K f m.propose, f), proposed := none,
                             slots := install s.slots (K p c) m.id, cur := m.id % 4 } ∧
    processLog s m = [(m.id, K p c)] := by
  constructor <;> simp [process, processLog, hle, hc, hp]

theorem process_store {s : Side} {m : Msg} (f : Nat) (hle : ¬ m.id ≤ s.id)
    (h : m.confirm = none ∨ s.proposed = none) :
    process s m f = { s with timeout := false, pending := some (K f m.propose, f) } ∧ processLog s m = [] := by
  unfold process processLog
  simp only [hle, if_false]
  rcases h with h | h
  · rw [h]; exact ⟨rfl, rfl⟩
  · rw [h]; cases m.confirm <;> exact ⟨rfl, rfl⟩

/-- the ghost log is exact: the slots after `process` are the old slots with the logged installs -/
theorem process_slots (s : Side) (m : Msg) (f : Nat) :
    (process s m f).slots = installAll s.slots (processLog s m) := by
  by_cases hle : m.id ≤ s.id
  · rw [process_ignore f hle, processLog_ignore hle]; rfl
  · cases hc : m.confirm with
    | none => obtain ⟨h1, h2⟩ := process_store f hle (Or.inl hc); rw [h1, h2]; rfl
    | some c =>
      cases hp : s.proposed with
      | none => obtain ⟨h1, h2⟩ := process_store f hle (Or.inr hp); rw [h1, h2]; rfl
      | some p => obtain ⟨h1, h2⟩ := process_install f hle hc hp; rw [h1, h2]; rfl

/-- the ghost log is exact: the slots after `cycle` are the old slots with the logged installs -/
theorem cycle_slots (s : Side) (f : Nat) :
    (cycle s f).1.slots = installAll s.slots (cycleLog s) := by
  unfold cycle cycleLog
  cases hp : s.proposed with
  | some p =>
    dsimp only
    cases s.timeout
    · rfl
    · cases hc : s.confirmed with
      | none => rfl
      | some ci => rfl
  | none =>
    cases hq : s.pending with
    | none => rfl
    | some ke => rfl

theorem mem_processLog {s : Side} {m : Msg} {r : Nat × Key} (h : r ∈ processLog s m) :
    ¬ m.id ≤ s.id ∧ ∃ c p, m.confirm = some c ∧ s.proposed = some p ∧ r = (m.id, K p c) := by
  unfold processLog at h
  split at h
  · cases h
  · rename_i hle
    refine ⟨hle, ?_⟩
    split at h
    · rename_i c p hc hp
      exact ⟨c, p, hc, hp, by simpa using h⟩
    · cases h

theorem mem_cycleLog {s : Side} {r : Nat × Key} (h : r ∈ cycleLog s) :
    s.proposed = none ∧ ∃ key e, s.pending = some (key, e) ∧ r = (s.id + 2, key) := by
  unfold cycleLog at h
  split at h
  · rename_i key e hp hq
    exact ⟨hp, key, e, hq, by simpa using h⟩
  · cases h

theorem cycleLog_proposed {s : Side} {p : Nat} (h : s.proposed = some p) : cycleLog s = [] := by
  unfold cycleLog; rw [h]

theorem cycleLog_not_waiting {s : Side} (h : ¬ Waiting s) : cycleLog s = [] := by
  cases hl : cycleLog s with
  | nil => rfl
  | cons r l =>
    have : r ∈ cycleLog s := by rw [hl]; exact List.mem_cons_self
    obtain ⟨hp, key, e, hq, _⟩ := mem_cycleLog this
    exact absurd ⟨hp, _, hq⟩ h

/-! ### the instrumented system -/

/-- the two-party system with, per end, the list of all `(id, key)` ever installed (newest first) -/
structure GSys where
  sys : Sys
  logX : List (Nat × Key)
  logY : List (Nat × Key)

def ginit : GSys := ⟨initSys, [], []⟩

inductive GStep : GSys → GSys → Prop
  | cycleX (g : GSys) : GStep g
      ⟨{ g.sys with x := (cycle g.sys.x g.sys.fresh).1, sentX := addMsg g.sys.sentX (cycle g.sys.x g.sys.fresh).2,
                    fresh := g.sys.fresh + 1 }, cycleLog g.sys.x ++ g.logX, g.logY⟩
  | cycleY (g : GSys) : GStep g
      ⟨{ g.sys with y := (cycle g.sys.y g.sys.fresh).1, sentY := addMsg g.sys.sentY (cycle g.sys.y g.sys.fresh).2,
                    fresh := g.sys.fresh + 1 }, g.logX, cycleLog g.sys.y ++ g.logY⟩
  | delivX (g : GSys) (m : Msg) (h : m ∈ g.sys.sentY) : GStep g
      ⟨{ g.sys with x := process g.sys.x m g.sys.fresh, fresh := g.sys.fresh + 1 },
        processLog g.sys.x m ++ g.logX, g.logY⟩
  | delivY (g : GSys) (m : Msg) (h : m ∈ g.sys.sentX) : GStep g
      ⟨{ g.sys with y := process g.sys.y m g.sys.fresh, fresh := g.sys.fresh + 1 },
        g.logX, processLog g.sys.y m ++ g.logY⟩

inductive GReach : GSys → Prop
  | init : GReach ginit
  | step {g g'} : GReach g → GStep g g' → GReach g'

/-! ### ownership of ephemeral numbers -/

/-- what one end knows, in terms of who drew which ephemeral number: all own material is `mine`, a stored
pending key mixes one own and one foreign number, and every logged key `K a c` consumed an own number
`a` that is no longer live at this end. -/
structure SideInv (mine theirs : Nat → Prop) (S : Side) (sent : List Msg) (log : List (Nat × Key)) : Prop where
  prop : ∀ p, S.proposed = some p → mine p
  pend : ∀ k e, S.pending = some (k, e) → mine e ∧ ∃ q, theirs q ∧ k = K e q
  pp : ∀ p k e, S.proposed = some p → S.pending = some (k, e) → p ≠ e
  conf : ∀ c i, S.confirmed = some (c, i) → mine c
  msgs : ∀ m ∈ sent, mine m.propose ∧ ∀ c, m.confirm = some c → mine c
  logd : ∀ r ∈ log, ∃ a c, r.2 = K a c ∧ mine a ∧ theirs c ∧ S.proposed ≠ some a ∧ ∀ k, S.pending ≠ some (k, a)
  nodup : (log.map Prod.snd).Nodup

theorem SideInv.mono {mine theirs mine' theirs' : Nat → Prop} {S : Side} {sent : List Msg} {log : List (Nat × Key)}
    (h : SideInv mine theirs S sent log) (hm : ∀ n, mine n → mine' n) (ht : ∀ n, theirs n → theirs' n) :
    SideInv mine' theirs' S sent log where
  prop p hp := hm _ (h.prop p hp)
  pend k e hk := by
    obtain ⟨h1, q, h2, h3⟩ := h.pend k e hk
    exact ⟨hm _ h1, q, ht _ h2, h3⟩
  pp := h.pp
  conf c i hc := hm _ (h.conf c i hc)
  msgs m hmem := ⟨hm _ (h.msgs m hmem).1, fun c hc => hm _ ((h.msgs m hmem).2 c hc)⟩
  logd r hr := by
    obtain ⟨a, c, h1, h2, h3, h4, h5⟩ := h.logd r hr
    exact ⟨a, c, h1, hm _ h2, ht _ h3, h4, h5⟩
  nodup := h.nodup

theorem sideInv_timeout {mine theirs : Nat → Prop} {S : Side} {sent : List Msg} {log : List (Nat × Key)}
    (h : SideInv mine theirs S sent log) (b : Bool) : SideInv mine theirs { S with timeout := b } sent log :=
  ⟨h.prop, h.pend, h.pp, h.conf, h.msgs, h.logd, h.nodup⟩

/-- a cycle at an end that draws the number `f`, which nobody owns yet -/
theorem sideInv_cycle {mine theirs : Nat → Prop} {S : Side} {sent : List Msg} {log : List (Nat × Key)} (f : Nat)
    (h : SideInv mine theirs S sent log) (hf : ¬ mine f) (hd : ∀ n, mine n → theirs n → False) :
    SideInv (fun n => mine n ∨ n = f) theirs (cycle S f).1 (addMsg sent (cycle S f).2) (cycleLog S ++ log) := by
  have h' : SideInv (fun n => mine n ∨ n = f) theirs S sent log := h.mono (fun _ => Or.inl) (fun _ => id)
  cases hp : S.proposed with
  | some p =>
    rw [cycleLog_proposed hp, List.nil_append]
    cases ht : S.timeout
    · rw [cycle_proposed_notimeout hp ht]; exact sideInv_timeout h' true
    · rw [cycle_proposed_timeout hp ht]
      refine { h' with msgs := ?_ }
      intro m hm
      rcases List.mem_cons.1 hm with rfl | hm
      · cases hc : S.confirmed with
        | none => exact ⟨h'.prop p hp, fun c hc' => by cases hc'⟩
        | some ci =>
          obtain ⟨c, i⟩ := ci
          refine ⟨h'.prop p hp, fun c' hc' => ?_⟩
          cases hc'
          exact h'.conf c i hc
      · exact h'.msgs m hm
  | none =>
    cases hq : S.pending with
    | none =>
      have : cycleLog S = [] := by unfold cycleLog; rw [hp, hq]
      rw [this, cycle_idle hp hq]; exact h'
    | some ke =>
      obtain ⟨key, e⟩ := ke
      have hl : cycleLog S = [(S.id + 2, key)] := by unfold cycleLog; rw [hp, hq]
      obtain ⟨he, q, hq', hkey⟩ := h.pend key e hq
      have hef : e ≠ f := fun heq => hf (heq ▸ he)
      rw [hl, cycle_advance hp hq]
      refine ⟨?_, ?_, ?_, ?_, ?_, ?_, ?_⟩
      · intro p hp'; cases hp'; exact Or.inr rfl
      · intro k e' hk; cases hk
      · intro p k e' _ hk; cases hk
      · intro c i hc; cases hc; exact Or.inl he
      · intro m hm
        rcases List.mem_cons.1 hm with rfl | hm
        · exact ⟨Or.inr rfl, fun c hc => by cases hc; exact Or.inl he⟩
        · exact h'.msgs m hm
      · intro r hr
        rcases List.mem_cons.1 hr with rfl | hr
        · refine ⟨e, q, hkey, Or.inl he, hq', ?_, fun k hk => by cases hk⟩
          intro heq; cases heq; exact hef rfl
        · obtain ⟨a, c, h1, h2, h3, _, _⟩ := h.logd r hr
          refine ⟨a, c, h1, Or.inl h2, h3, ?_, fun k hk => by cases hk⟩
          intro heq; cases heq; exact hf h2
      · simp only [List.singleton_append, List.map_cons, List.nodup_cons]
        refine ⟨?_, h.nodup⟩
        intro hmem
        obtain ⟨r, hr, hrk⟩ := List.mem_map.1 hmem
        obtain ⟨a, c, h1, h2, h3, _, h5⟩ := h.logd r hr
        rw [h1, hkey, K_inj] at hrk
        rcases hrk with ⟨rfl, rfl⟩ | ⟨rfl, rfl⟩
        · exact h5 _ hq
        · exact hd _ he h3

/-- delivery of a message whose numbers all belong to the other end; the receiver draws `f` -/
theorem sideInv_process {mine theirs : Nat → Prop} {S : Side} {sent : List Msg} {log : List (Nat × Key)} (f : Nat)
    (m : Msg) (h : SideInv mine theirs S sent log) (hf : ¬ mine f) (hd : ∀ n, mine n → theirs n → False)
    (hm : theirs m.propose ∧ ∀ c, m.confirm = some c → theirs c) :
    SideInv (fun n => mine n ∨ n = f) theirs (process S m f) sent (processLog S m ++ log) := by
  have h' : SideInv (fun n => mine n ∨ n = f) theirs S sent log := h.mono (fun _ => Or.inl) (fun _ => id)
  by_cases hle : m.id ≤ S.id
  · rw [process_ignore f hle, processLog_ignore hle]; exact h'
  · have hpend : ∀ k e, some (K f m.propose, f) = some (k, e) →
        (mine e ∨ e = f) ∧ ∃ q, theirs q ∧ k = K e q := by
      intro k e hk; cases hk; exact ⟨Or.inr rfl, _, hm.1, rfl⟩
    have store : ∀ (_ : m.confirm = none ∨ S.proposed = none),
        SideInv (fun n => mine n ∨ n = f) theirs (process S m f) sent (processLog S m ++ log) := by
      intro hcase
      obtain ⟨e1, e2⟩ := process_store f hle hcase
      rw [e1, e2, List.nil_append]
      refine ⟨h'.prop, hpend, ?_, h'.conf, h'.msgs, ?_, h.nodup⟩
      · intro p k e hp hk; cases hk
        intro heq; exact hf (heq ▸ h.prop p hp)
      · intro r hr
        obtain ⟨a, c', h1, h2, h3, h4, _⟩ := h.logd r hr
        refine ⟨a, c', h1, Or.inl h2, h3, h4, ?_⟩
        intro k hk; cases hk; exact hf h2
    cases hc : m.confirm with
    | none => exact store (Or.inl hc)
    | some c =>
    cases hp : S.proposed with
    | none => exact store (Or.inr hp)
    | some p =>
      obtain ⟨e1, e2⟩ := process_install f hle hc hp
      rw [e1, e2]
      have hmp : mine p := h.prop p hp
      have hpf : p ≠ f := fun heq => hf (heq ▸ hmp)
      refine ⟨?_, hpend, ?_, h'.conf, h'.msgs, ?_, ?_⟩
      · intro p' hp'; cases hp'
      · intro p' k e hp'; cases hp'
      · intro r hr
        rcases List.mem_cons.1 hr with rfl | hr
        · refine ⟨p, c, rfl, Or.inl hmp, hm.2 c hc, (fun h0 => by cases h0), ?_⟩
          intro k hk; cases hk; exact hpf rfl
        · obtain ⟨a, c', h1, h2, h3, _, _⟩ := h.logd r hr
          refine ⟨a, c', h1, Or.inl h2, h3, (fun h0 => by cases h0), ?_⟩
          intro k hk; cases hk; exact hf h2
      · simp only [List.singleton_append, List.map_cons, List.nodup_cons]
        refine ⟨?_, h.nodup⟩
        intro hmem
        obtain ⟨r, hr, hrk⟩ := List.mem_map.1 hmem
        obtain ⟨a, c', h1, h2, h3, h4, _⟩ := h.logd r hr
        rw [h1, K_inj] at hrk
        rcases hrk with ⟨rfl, rfl⟩ | ⟨rfl, rfl⟩
        · exact h4 hp
        · exact hd _ hmp h3

/-- the ownership invariant of the instrumented system -/
def KInv (g : GSys) : Prop :=
  ∃ ox oy : Nat → Prop, (∀ n, ox n → n < g.sys.fresh) ∧ (∀ n, oy n → n < g.sys.fresh) ∧
    (∀ n, ox n → oy n → False) ∧
    SideInv ox oy g.sys.x g.sys.sentX g.logX ∧ SideInv oy ox g.sys.y g.sys.sentY g.logY

theorem kinv_init : KInv ginit := by
  refine ⟨fun n => n = 0, fun _ => False, ?_, ?_, ?_, ?_, ?_⟩
  · intro n hn; subst hn; decide
  · intro n hn; exact hn.elim
  · intro n _ hn; exact hn
  · refine ⟨?_, ?_, ?_, ?_, ?_, ?_, ?_⟩
    · intro p hp; simp [ginit, initSys] at hp; exact hp.symm
    · intro k e hk; simp [ginit, initSys] at hk
    · intro p k e _ hk; simp [ginit, initSys] at hk
    · intro c i hc; simp [ginit, initSys] at hc
    · intro m hm; simp [ginit, initSys] at hm; subst hm; exact ⟨rfl, fun c hc => by cases hc⟩
    · intro r hr; simp [ginit] at hr
    · simp [ginit]
  · refine ⟨?_, ?_, ?_, ?_, ?_, ?_, ?_⟩
    · intro p hp; simp [ginit, initSys] at hp
    · intro k e hk; simp [ginit, initSys] at hk
    · intro p k e _ hk; simp [ginit, initSys] at hk
    · intro c i hc; simp [ginit, initSys] at hc
    · intro m hm; simp [ginit, initSys] at hm
    · intro r hr; simp [ginit] at hr
    · simp [ginit]

theorem kinv_step {g g' : GSys} (h : KInv g) (st : GStep g g') : KInv g' := by
  obtain ⟨ox, oy, bx, by', hd, hx, hy⟩ := h
  have nfx : ¬ ox g.sys.fresh := fun h0 => Nat.lt_irrefl _ (bx _ h0)
  have nfy : ¬ oy g.sys.fresh := fun h0 => Nat.lt_irrefl _ (by' _ h0)
  have hd' : ∀ n, oy n → ox n → False := fun n a b => hd n b a
  have bx1 : ∀ n, ox n → n < g.sys.fresh + 1 := fun n h0 => Nat.lt_succ_of_lt (bx n h0)
  have by1 : ∀ n, oy n → n < g.sys.fresh + 1 := fun n h0 => Nat.lt_succ_of_lt (by' n h0)
  have bx2 : ∀ n, (ox n ∨ n = g.sys.fresh) → n < g.sys.fresh + 1 := by
    rintro n (h0 | rfl); exact bx1 n h0; exact Nat.lt_succ_self _
  have by2 : ∀ n, (oy n ∨ n = g.sys.fresh) → n < g.sys.fresh + 1 := by
    rintro n (h0 | rfl); exact by1 n h0; exact Nat.lt_succ_self _
  have dx : ∀ n, (ox n ∨ n = g.sys.fresh) → oy n → False := by
    rintro n (h0 | rfl) h1; exact hd n h0 h1; exact nfy h1
  have dy : ∀ n, ox n → (oy n ∨ n = g.sys.fresh) → False := by
    rintro n h0 (h1 | rfl); exact hd n h0 h1; exact nfx h0
  cases st with
  | cycleX =>
    exact ⟨_, oy, bx2, by1, dx, sideInv_cycle _ hx nfx hd, hy.mono (fun _ => id) (fun _ => Or.inl)⟩
  | cycleY =>
    exact ⟨ox, _, bx1, by2, dy, hx.mono (fun _ => id) (fun _ => Or.inl), sideInv_cycle _ hy nfy hd'⟩
  | delivX m hm =>
    exact ⟨_, oy, bx2, by1, dx, sideInv_process _ m hx nfx hd (hy.msgs m hm),
      hy.mono (fun _ => id) (fun _ => Or.inl)⟩
  | delivY m hm =>
    exact ⟨ox, _, bx1, by2, dy, hx.mono (fun _ => id) (fun _ => Or.inl),
      sideInv_process _ m hy nfy hd' (hx.msgs m hm)⟩

theorem kinv_reach {g : GSys} (h : GReach g) : KInv g := by
  induction h with
  | init => exact kinv_init
  | step _ st ih => exact kinv_step ih st

/-! ### the logs of the two ends, along the invariant `Ahead` -/

/-- `X` is the end that is ahead: all logged ids are at most `X.id`, the two logs agree on every id they
share, and the key `X` logged under its latest id is the one `Y` will derive when the confirmation arrives. -/
structure LogRel (X Y : Side) (lx ly : List (Nat × Key)) : Prop where
  lxle : ∀ r ∈ lx, r.1 ≤ X.id
  lyle : ∀ r ∈ ly, r.1 ≤ X.id
  agree : ∀ i k k', (i, k) ∈ lx → (i, k') ∈ ly → k = k'
  top : ∀ k, (X.id, k) ∈ lx → ∀ q, Y.proposed = some q → ∀ c, X.confirmed = some (c, X.id) → k = K c q

theorem process_proposed_some {s : Side} {m : Msg} {f q : Nat} (h : (process s m f).proposed = some q) :
    s.proposed = some q := by
  by_cases hle : m.id ≤ s.id
  · rw [process_ignore f hle] at h; exact h
  · cases hc : m.confirm with
    | none => rw [(process_store f hle (Or.inl hc)).1] at h; exact h
    | some c =>
      cases hp : s.proposed with
      | none => rw [(process_store f hle (Or.inr hp)).1] at h; rw [hp] at h; exact h
      | some p => rw [(process_install f hle hc hp).1] at h; cases h

theorem cycle_proposed_of_not_waiting {s : Side} (h : ¬ Waiting s) (f : Nat) :
    (cycle s f).1.proposed = s.proposed := by
  cases hp : s.proposed with
  | some p =>
    cases ht : s.timeout
    · rw [cycle_proposed_notimeout hp ht]; exact hp
    · rw [cycle_proposed_timeout hp ht]; exact hp
  | none =>
    cases hq : s.pending with
    | none => rw [cycle_idle hp hq]; exact hp
    | some ke => exact absurd ⟨hp, ke, hq⟩ h

theorem cycle_confirmed_of_not_waiting {s : Side} (h : ¬ Waiting s) (f : Nat) :
    (cycle s f).1.confirmed = s.confirmed := by
  cases hp : s.proposed with
  | some p =>
    cases ht : s.timeout
    · rw [cycle_proposed_notimeout hp ht]
    · rw [cycle_proposed_timeout hp ht]
  | none =>
    cases hq : s.pending with
    | none => rw [cycle_idle hp hq]
    | some ke => exact absurd ⟨hp, ke, hq⟩ h

theorem logRel_cycleX {X Y : Side} {sx sy : List Msg} {lx ly : List (Nat × Key)} (ha : Ahead X Y sx sy)
    (h : LogRel X Y lx ly) (f : Nat) : LogRel (cycle X f).1 Y (cycleLog X ++ lx) ly := by
  have hw := ahead_not_waiting ha
  rw [cycleLog_not_waiting hw, List.nil_append]
  have hid := cycle_id_of_not_waiting hw f
  have hcf := cycle_confirmed_of_not_waiting hw f
  refine ⟨?_, ?_, h.agree, ?_⟩
  · rw [hid]; exact h.lxle
  · rw [hid]; exact h.lyle
  · rw [hid, hcf]; exact h.top

theorem logRel_delivX {X Y : Side} {sx sy : List Msg} {lx ly : List (Nat × Key)} (ha : Ahead X Y sx sy)
    (h : LogRel X Y lx ly) {m : Msg} (hm : m ∈ sy) (f : Nat) :
    LogRel (process X m f) Y (processLog X m ++ lx) ly := by
  have hle : m.id ≤ X.id := by have := ha.syle m hm; omega
  rw [process_ignore f hle, processLog_ignore hle]; exact h

theorem logRel_delivY {X Y : Side} {sx sy : List Msg} {lx ly : List (Nat × Key)} (ha : Ahead X Y sx sy)
    (h : LogRel X Y lx ly) {m : Msg} (hm : m ∈ sx) (f : Nat) :
    LogRel X (process Y m f) lx (processLog Y m ++ ly) := by
  refine ⟨h.lxle, ?_, ?_, ?_⟩
  · intro r hr
    rcases List.mem_append.1 hr with hr | hr
    · obtain ⟨_, c, q, _, _, rfl⟩ := mem_processLog hr
      exact ha.sxle m hm
    · exact h.lyle r hr
  · intro i k k' hk hk'
    rcases List.mem_append.1 hk' with hr | hr
    · obtain ⟨hle, c, q, hc, hq, heq⟩ := mem_processLog hr
      cases heq
      have hid := ha.idrel
      have hmid : m.id = X.id := by
        have h1 := ha.sxle m hm
        by_cases hlt : m.id < X.id
        · have := ha.sxpar m hm hlt; omega
        · omega
      obtain ⟨p, hp⟩ := ha.xprop
      have hmeq := ha.sxeq m hm hmid p hp
      have hconf : X.confirmed = some (c, X.id) := by
        rcases ha.xconf with ⟨_, hn⟩ | ⟨_, c', hc'⟩
        · rw [hmeq, hn] at hc; cases hc
        · rw [hmeq, hc'] at hc; cases hc; exact hc'
      rw [hmid] at hk
      rw [h.top k hk q hq c hconf, K_comm]
    · exact h.agree i k k' hk hr
  · intro k hk q hq c hc
    exact h.top k hk q (process_proposed_some hq) c hc

theorem logRel_cycleY_not_waiting {X Y : Side} {lx ly : List (Nat × Key)}
    (h : LogRel X Y lx ly) (hw : ¬ Waiting Y) (f : Nat) :
    LogRel X (cycle Y f).1 lx (cycleLog Y ++ ly) := by
  rw [cycleLog_not_waiting hw, List.nil_append]
  refine ⟨h.lxle, h.lyle, h.agree, ?_⟩
  rw [cycle_proposed_of_not_waiting hw f]; exact h.top

theorem logRel_cycleY_waiting {X Y : Side} {sx sy : List Msg} {lx ly : List (Nat × Key)} (ha : Ahead X Y sx sy)
    (h : LogRel X Y lx ly) (hw : Waiting Y) (f : Nat) :
    LogRel (cycle Y f).1 X (cycleLog Y ++ ly) lx := by
  obtain ⟨hyp, ⟨key, e⟩, hpe⟩ := hw
  have hid := ha.idrel
  have hsub : ∃ e' p', X.proposed = some p' ∧ Y.pending = some (K e' p', e') := by
    rcases ha.ysub with ⟨hn, _⟩ | ⟨_, hh⟩
    · rw [hpe] at hn; cases hn
    · exact hh
  obtain ⟨e', p', hp', hpe'⟩ := hsub
  rw [hpe] at hpe'; cases hpe'
  have hl : cycleLog Y = [(Y.id + 2, K e p')] := by unfold cycleLog; rw [hyp, hpe]
  rw [hl, cycle_advance hyp hpe]
  refine ⟨?_, ?_, ?_, ?_⟩
  · intro r hr
    rcases List.mem_cons.1 hr with rfl | hr
    · exact Nat.le_refl _
    · have := h.lyle r hr; show r.1 ≤ Y.id + 2; omega
  · intro r hr
    have := h.lxle r hr; show r.1 ≤ Y.id + 2; omega
  · intro i k k' hk hk'
    rcases List.mem_cons.1 hk with heq | hk
    · cases heq
      have := h.lxle _ hk'; simp only at this; omega
    · exact (h.agree i k' k hk' hk).symm
  · intro k hk q hq c hc
    cases hc
    rw [hp'] at hq; cases hq
    rcases List.mem_cons.1 hk with heq | hk
    · cases heq; rfl
    · have := h.lyle _ hk; simp only at this; omega

/-- `Ahead` together with the log relation, for the instrumented system -/
def GInv (g : GSys) : Prop :=
  (Ahead g.sys.x g.sys.y g.sys.sentX g.sys.sentY ∧ LogRel g.sys.x g.sys.y g.logX g.logY) ∨
  (Ahead g.sys.y g.sys.x g.sys.sentY g.sys.sentX ∧ LogRel g.sys.y g.sys.x g.logY g.logX)

theorem ginv_init : GInv ginit := by
  left
  refine ⟨?_, ?_⟩
  · have := inv_init
    rcases this with h | h
    · exact h
    · have := h.idrel; simp [initSys] at this
  · refine ⟨?_, ?_, ?_, ?_⟩ <;> simp [ginit]

theorem ahead_cycleY_waiting {X Y : Side} {sx sy : List Msg} (h : Ahead X Y sx sy) (hw : Waiting Y) (f : Nat) :
    Ahead (cycle Y f).1 X (addMsg sy (cycle Y f).2) sx := by
  obtain ⟨key, e, hc⟩ := cycle_waiting hw f
  have hid : (cycle Y f).1.id = Y.id + 2 := by rw [hc]
  rcases ahead_cycleY h f with h' | h'
  · have := h'.idrel; have := h.idrel; omega
  · exact h'

theorem ahead_cycleY_not_waiting {X Y : Side} {sx sy : List Msg} (h : Ahead X Y sx sy) (hw : ¬ Waiting Y) (f : Nat) :
    Ahead X (cycle Y f).1 sx (addMsg sy (cycle Y f).2) := by
  have hid := cycle_id_of_not_waiting hw f
  rcases ahead_cycleY h f with h' | h'
  · exact h'
  · have := h'.idrel; have := h.idrel; omega

theorem ginv_step {g g' : GSys} (h : GInv g) (st : GStep g g') : GInv g' := by
  cases st with
  | cycleX =>
    rcases h with ⟨h, l⟩ | ⟨h, l⟩
    · left; exact ⟨ahead_cycleX h _, logRel_cycleX h l _⟩
    · by_cases hw : Waiting g.sys.x
      · left; exact ⟨ahead_cycleY_waiting h hw _, logRel_cycleY_waiting h l hw _⟩
      · right; exact ⟨ahead_cycleY_not_waiting h hw _, logRel_cycleY_not_waiting l hw _⟩
  | cycleY =>
    rcases h with ⟨h, l⟩ | ⟨h, l⟩
    · by_cases hw : Waiting g.sys.y
      · right; exact ⟨ahead_cycleY_waiting h hw _, logRel_cycleY_waiting h l hw _⟩
      · left; exact ⟨ahead_cycleY_not_waiting h hw _, logRel_cycleY_not_waiting l hw _⟩
    · right; exact ⟨ahead_cycleX h _, logRel_cycleX h l _⟩
  | delivX m hm =>
    rcases h with ⟨h, l⟩ | ⟨h, l⟩
    · left
      refine ⟨?_, logRel_delivX h l hm _⟩
      show Ahead (process g.sys.x m g.sys.fresh) g.sys.y g.sys.sentX g.sys.sentY
      rw [ahead_delivX h hm]; exact h
    · right; exact ⟨ahead_delivY h hm _, logRel_delivY h l hm _⟩
  | delivY m hm =>
    rcases h with ⟨h, l⟩ | ⟨h, l⟩
    · left; exact ⟨ahead_delivY h hm _, logRel_delivY h l hm _⟩
    · right
      refine ⟨?_, logRel_delivX h l hm _⟩
      show Ahead (process g.sys.y m g.sys.fresh) g.sys.x g.sys.sentY g.sys.sentX
      rw [ahead_delivX h hm]; exact h

theorem ginv_reach {g : GSys} (h : GReach g) : GInv g := by
  induction h with
  | init => exact ginv_init
  | step _ st ih => exact ginv_step ih st

end VpnCloud.Rot
