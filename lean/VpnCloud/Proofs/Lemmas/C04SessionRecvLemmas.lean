import VpnCloud.Proofs.Lemmas.C04SessionLemmas
/-
  Helper lemmas for the receiver half of `Proofs/C04Session.lean` (C03 lifted to sessions):
  per-slot histories of a trace, the window invariant, slot independence, rotation, and the
  two-tick death of replays.
-/
namespace VpnCloud.Proofs.C04Session

open VpnCloud VpnCloud.Spec.C04 VpnCloud.Spec.C03
open VpnCloud.Proofs.CoreLemmas

/-! ## per-slot histories of a trace -/

/-- did the core accept the datagram? -/
def accepted (c : Core) (d : Dgram) : Bool :=
  match (c.decrypt d).2 with
  | .ok _ => true
  | .error _ => false

theorem accepted_iff (c : Core) (d : Dgram) : accepted c d = true ↔ ∃ p, (c.decrypt d).2 = .ok p := by
  unfold accepted
  split
  · rename_i p h; simp [h]
  · rename_i e h; simp [h]

/-- what one operation on core `c` does to the history `h` of slot `i` (history = events since the key
    now in the slot was installed): an accepted datagram addressed to the slot appends `accept nonce`,
    a tick appends `tick`, a rotation into the slot starts a new history, everything else nothing -/
def histStep (i : Nat) (c : Core) (h : List Ev) : SOp → List Ev
  | .open d => if d.keyId = i ∧ accepted c d = true then h ++ [.accept (c.reconstruct d.counter)] else h
  | .tick => h ++ [.tick]
  | .rotate _ id _ _ => if id % 4 = i then [] else h
  | .seal _ => h

/-- the history of slot `i` after a trace that starts at core `c` with history `h` -/
def slotHist (i : Nat) : Core → List Ev → List SOp → List Ev
  | _, h, [] => h
  | c, h, op :: ops => slotHist i (step c op).1 (histStep i c h op) ops

/-- the key in slot `i` after one operation, as a function of the trace alone -/
def keyStep (i : Nat) (K : KeyRef) : SOp → KeyRef
  | .rotate K' id _ _ => if id % 4 = i then K' else K
  | .open _ => K
  | .tick => K
  | .seal _ => K

/-- the key slot `i` holds after a trace if it held `K` before: the one rotated into it last -/
def slotKeyAfter (i : Nat) (K : KeyRef) (ops : List SOp) : KeyRef := ops.foldl (keyStep i) K

/-- the datagrams a trace receives -/
def delivered : List SOp → List Dgram
  | [] => []
  | .open d :: ops => d :: delivered ops
  | .seal _ :: ops => delivered ops
  | .tick :: ops => delivered ops
  | .rotate _ _ _ _ :: ops => delivered ops

/-- received datagrams are byte strings: every header element is a byte -/
def DeliveredWF (ops : List SOp) : Prop := ∀ d ∈ delivered ops, Bytes.WF d.hdr

instance (ops : List SOp) : Decidable (DeliveredWF ops) := by unfold DeliveredWF; infer_instance

theorem delivered_append (a b : List SOp) : delivered (a ++ b) = delivered a ++ delivered b := by
  induction a with
  | nil => rfl
  | cons op a ih => cases op <;> simp [delivered, ih]

/-- number of ticks of a trace -/
def numTicks : List SOp → Nat
  | [] => 0
  | .tick :: ops => numTicks ops + 1
  | .seal _ :: ops => numTicks ops
  | .open _ :: ops => numTicks ops
  | .rotate _ _ _ _ :: ops => numTicks ops

theorem numTicks_cons (op : SOp) (ops : List SOp) : numTicks (op :: ops) = numTicks [op] + numTicks ops := by
  cases op <;> simp [numTicks] <;> omega

/-! ## the counter of a real datagram fits 56 bits -/

theorem counter_lt (d : Dgram) (h : Bytes.WF d.hdr) : d.counter < 2 ^ 56 := by
  unfold Dgram.counter
  have hwf : Bytes.WF ((d.hdr.drop 1).take 7) := Bytes.wf_take 7 (Bytes.wf_drop 1 h)
  have h1 := beVal_lt _ hwf
  have h2 : ((d.hdr.drop 1).take 7).length ≤ 7 := List.length_take_le _ _
  have h3 : 256 ^ ((d.hdr.drop 1).take 7).length ≤ 256 ^ 7 := Nat.pow_le_pow_right (by omega) h2
  rw [pow256_7] at h3
  rw [pow56]
  omega

theorem reconstruct_lt (c : Core) (d : Dgram) (h : Bytes.WF d.hdr) : c.reconstruct d.counter + 1 < NONCE_MOD := by
  have := counter_lt d h
  rw [pow56] at this
  rw [nonce_mod_eq]
  unfold Core.reconstruct
  rw [half_eq]
  split <;> omega

/-! ## the window invariant -/

/-- the window state of a slot is the one the history prescribes (the invariant of `CoreLemmas.run_inv`) -/
def W (k : SlotKey) (h : List Ev) : Prop :=
  k.min = threshold h ∧ k.nextMin = pending h ∧ k.seen + 1 = top h ∧ k.seen + 1 < NONCE_MOD

theorem w_new (K : KeyRef) (half : Bool) (start : Nat) : W (SlotKey.new K half start) [] := by
  refine ⟨rfl, rfl, rfl, ?_⟩
  show 0 + 1 < NONCE_MOD
  rw [nonce_mod_eq]; omega

theorem w_tick {k : SlotKey} {h : List Ev} (w : W k h) : W k.updateMinNonce (h ++ [.tick]) := by
  obtain ⟨i1, i2, i3, i4⟩ := w
  rw [W, threshold_snoc_tick, pending_snoc_tick, top_snoc_tick]
  simp only [SlotKey.updateMinNonce]
  refine ⟨i2, ?_, i3, i4⟩
  rw [Nat.mod_eq_of_lt i4]; exact i3

theorem w_accept {k : SlotKey} {h : List Ev} (w : W k h) (n : Nat) (hn : n + 1 < NONCE_MOD) :
    W (slotStep k (.accept n)) (h ++ [.accept n]) := by
  obtain ⟨i1, i2, i3, i4⟩ := w
  rw [W, threshold_snoc_accept, pending_snoc_accept, top_snoc_accept]
  simp only [slotStep]
  split
  · exact ⟨i1, i2, by show n + 1 = _; omega, hn⟩
  · exact ⟨i1, i2, by omega, i4⟩

theorem w_send {k : SlotKey} {h : List Ev} (w : W k h) (s : Nat) : W { k with send := s } h := w

/-- one step keeps the window invariant of slot `i` (with the history advanced by `histStep`) and the
    key follows `keyStep` -/
theorem win_step (i : Nat) (hi : i < 4) (c : Core) (h : List Ev) (op : SOp) (k : SlotKey)
    (hlen : c.slots.length = 4) (hk : c.slots[i]? = some k) (w : W k h)
    (hwf : ∀ d, op = .open d → Bytes.WF d.hdr) :
    ∃ k', (step c op).1.slots[i]? = some k' ∧ W k' (histStep i c h op) ∧ k'.key = keyStep i k.key op := by
  cases op with
  | «seal» p =>
    refine ⟨_, encrypt_slots c p i k hk, ?_, ?_⟩
    · split
      · exact w_send w _
      · exact w
    · split <;> rfl
  | tick =>
    refine ⟨k.updateMinNonce, ?_, w_tick w, rfl⟩
    simp only [step]; rw [tick_slots, hk]; rfl
  | rotate K id use start =>
    simp only [step, histStep, keyStep]
    rw [rotate_slots]
    by_cases hij : id % 4 = i
    · have : id % 4 < c.slots.length := by rw [hlen]; omega
      rw [if_pos hij, if_pos this, if_pos hij, if_pos hij]
      exact ⟨_, rfl, w_new _ _ _, rfl⟩
    · rw [if_neg hij, if_neg hij, if_neg hij]
      exact ⟨k, hk, w, rfl⟩
  | «open» d =>
    simp only [step, histStep, keyStep]
    rcases open_slots c d i k hk with h1 | ⟨hid, hacc, _, h1⟩
    · -- slot unchanged: then the datagram was not an accepted one for this slot
      by_cases hcond : d.keyId = i ∧ accepted c d = true
      · -- accepted for this slot: the slot is `slotStep`ped, which must then equal `k`
        rcases open_slots c d i k hk with h2 | ⟨_, _, _, h2⟩
        · -- derive from decrypt_cases that the slot was set
          rcases decrypt_cases c d with ⟨e, he⟩ | ⟨k0, p, _, _, hk0, _, _, hd⟩
          · have := (accepted_iff c d).1 hcond.2
            rw [he] at this
            obtain ⟨p, hp⟩ := this
            cases hp
          · rw [hcond.1, hk] at hk0
            cases hk0
            rw [if_pos hcond]
            refine ⟨_, ?_, w_accept w _ (reconstruct_lt c d (hwf d rfl)), (slotStep_accept_key k _).1⟩
            rw [hd]
            have hlt : d.keyId < c.slots.length := by rw [hlen, hcond.1]; exact hi
            simp only
            rw [← hcond.1]
            exact List.getElem?_set_self hlt
        · rw [if_pos hcond]
          exact ⟨_, h2, w_accept w _ (reconstruct_lt c d (hwf d rfl)), (slotStep_accept_key k _).1⟩
      · rw [if_neg hcond]
        exact ⟨k, h1, w, rfl⟩
    · have hcond : d.keyId = i ∧ accepted c d = true := ⟨hid, (accepted_iff c d).2 hacc⟩
      rw [if_pos hcond]
      exact ⟨_, h1, w_accept w _ (reconstruct_lt c d (hwf d rfl)), (slotStep_accept_key k _).1⟩

/-- the window invariant along a whole trace -/
theorem win_run (i : Nat) (hi : i < 4) : ∀ (ops : List SOp) (c : Core) (h : List Ev) (k : SlotKey),
    c.slots.length = 4 → c.slots[i]? = some k → W k h → DeliveredWF ops →
    ∃ k', (run c ops).1.slots[i]? = some k' ∧ W k' (slotHist i c h ops) ∧ k'.key = slotKeyAfter i k.key ops := by
  intro ops
  induction ops with
  | nil => intro c h k _ hk w _; exact ⟨k, hk, w, rfl⟩
  | cons op ops ih =>
    intro c h k hlen hk w hwf
    obtain ⟨k1, hk1, w1, hkey1⟩ := win_step i hi c h op k hlen hk w
      (fun d hd => hwf d (by rw [hd]; simp [delivered]))
    have hwf' : DeliveredWF ops := by
      intro d hd
      apply hwf d
      cases op <;> simp [delivered, hd]
    obtain ⟨k2, hk2, w2, hkey2⟩ := ih (step c op).1 (histStep i c h op) k1 (by rw [step_len, hlen]) hk1 w1 hwf'
    refine ⟨k2, by rw [run_cons]; exact hk2, w2, ?_⟩
    rw [hkey2, hkey1]
    rfl

/-! ## the decision of `decrypt` depends on the addressed slot only -/

-- all four generated guards of `decrypt` are listed in each `simp only`, whether the branch at hand needs them or not
set_option linter.unusedSimpArgs false in
/-- the verdict of `decrypt` is a function of the half, and of key and window floor of the addressed slot -/
theorem decrypt_congr (c c' : Core) (d : Dgram) (hhalf : c'.half = c.half)
    (hslot : (c'.slots[d.keyId]?).map (fun k => (k.key, k.min)) = (c.slots[d.keyId]?).map (fun k => (k.key, k.min))) :
    (c'.decrypt d).2 = (c.decrypt d).2 := by
  have hrec : c'.reconstruct d.counter = c.reconstruct d.counter := by simp only [Core.reconstruct, hhalf]
  rcases decrypt_cases c d with ⟨e, he⟩ | ⟨k, p, hlen, hid, hk, hmin, hb, hd⟩
  · -- `c` rejects: so does `c'`, with the same error
    rcases decrypt_cases c' d with ⟨e', he'⟩ | ⟨k', p', hlen', hid', hk', hmin', hb', hd'⟩
    · rw [he, he']
      simp only
      -- both errors are computed by the same tests
      by_cases h1 : d.len < Generated.EXTRA_LEN + Generated.TAG_LEN
      · simp only [Core.decrypt, Generated.datagramTooShort, Generated.keyIdInvalid, Generated.nonceTooOld,
                Generated.seenAdvances, decide_eq_true_eq, h1, if_true] at he he'
        rw [← (Prod.mk.inj he).2, ← (Prod.mk.inj he').2]
      by_cases h2 : d.keyId ≥ 4
      · simp only [Core.decrypt, Generated.datagramTooShort, Generated.keyIdInvalid, Generated.nonceTooOld,
                Generated.seenAdvances, decide_eq_true_eq, h1, h2, if_true, if_false] at he he'
        rw [← (Prod.mk.inj he).2, ← (Prod.mk.inj he').2]
      cases hk : c.slots[d.keyId]? with
      | none =>
        rw [hk] at hslot
        cases hk' : c'.slots[d.keyId]? with
        | none =>
          simp only [Core.decrypt, Generated.datagramTooShort, Generated.keyIdInvalid, Generated.nonceTooOld,
                Generated.seenAdvances, decide_eq_true_eq, h1, h2, hk, hk', if_false] at he he'
          rw [← (Prod.mk.inj he).2, ← (Prod.mk.inj he').2]
        | some k' => rw [hk'] at hslot; cases hslot
      | some k =>
        rw [hk] at hslot
        cases hk' : c'.slots[d.keyId]? with
        | none => rw [hk'] at hslot; cases hslot
        | some k' =>
          rw [hk'] at hslot
          simp only [Option.map_some, Option.some.injEq, Prod.mk.injEq] at hslot
          by_cases h3 : c.reconstruct d.counter < k.min
          · have h3' : c'.reconstruct d.counter < k'.min := by rw [hrec, hslot.2]; exact h3
            simp only [Core.decrypt, Generated.datagramTooShort, Generated.keyIdInvalid, Generated.nonceTooOld,
                Generated.seenAdvances, decide_eq_true_eq, h1, h2, hk, h3, if_true, if_false] at he
            simp only [Core.decrypt, Generated.datagramTooShort, Generated.keyIdInvalid, Generated.nonceTooOld,
                Generated.seenAdvances, decide_eq_true_eq, h1, h2, hk', h3', if_true, if_false] at he'
            rw [← (Prod.mk.inj he).2, ← (Prod.mk.inj he').2]
          · have h3' : ¬ c'.reconstruct d.counter < k'.min := by rw [hrec, hslot.2]; exact h3
            cases hb : d.body with
            | garbage n =>
              simp only [Core.decrypt, Generated.datagramTooShort, Generated.keyIdInvalid, Generated.nonceTooOld,
                Generated.seenAdvances, decide_eq_true_eq, h1, h2, hk, h3, hb, if_false] at he
              simp only [Core.decrypt, Generated.datagramTooShort, Generated.keyIdInvalid, Generated.nonceTooOld,
                Generated.seenAdvances, decide_eq_true_eq, h1, h2, hk', h3', hb, if_false] at he'
              rw [← (Prod.mk.inj he).2, ← (Prod.mk.inj he').2]
            | sealed key n p =>
              by_cases hkn : key = k.key ∧ n = c.reconstruct d.counter
              · simp only [Core.decrypt, Generated.datagramTooShort, Generated.keyIdInvalid, Generated.nonceTooOld,
                Generated.seenAdvances, decide_eq_true_eq, h1, h2, hk, h3, hb, hkn, if_false, if_true, and_self] at he
                have := (Prod.mk.inj he).2
                cases this
              · have hkn' : ¬ (key = k'.key ∧ n = c'.reconstruct d.counter) := by rw [hrec, hslot.1]; exact hkn
                simp only [Core.decrypt, Generated.datagramTooShort, Generated.keyIdInvalid, Generated.nonceTooOld,
                Generated.seenAdvances, decide_eq_true_eq, h1, h2, hk, h3, hb, hkn, if_false] at he
                simp only [Core.decrypt, Generated.datagramTooShort, Generated.keyIdInvalid, Generated.nonceTooOld,
                Generated.seenAdvances, decide_eq_true_eq, h1, h2, hk', h3', hb, hkn', if_false] at he'
                rw [← (Prod.mk.inj he).2, ← (Prod.mk.inj he').2]
    · -- `c'` accepts: then `c` accepts too, contradiction
      rw [hk'] at hslot
      cases hk : c.slots[d.keyId]? with
      | none => rw [hk] at hslot; cases hslot
      | some k =>
        rw [hk] at hslot
        simp only [Option.map_some, Option.some.injEq, Prod.mk.injEq] at hslot
        have := (C03.decrypt_authentic c d k p' hlen' hid' hk (by rw [← hslot.1, ← hrec]; exact hb')).1
          (by rw [← hslot.2, ← hrec]; exact hmin')
        rw [he] at this
        cases this.1
  · rw [hk] at hslot
    cases hk' : c'.slots[d.keyId]? with
    | none => rw [hk'] at hslot; cases hslot
    | some k' =>
      rw [hk'] at hslot
      simp only [Option.map_some, Option.some.injEq, Prod.mk.injEq] at hslot
      have := (C03.decrypt_authentic c' d k' p hlen hid hk' (by rw [hslot.1, hrec]; exact hb)).1
        (by rw [hslot.2, hrec]; exact hmin)
      rw [this.1, hd]

/-- does the operation touch the receive window of slot `i`?  (a tick ages all four slots) -/
def affects (op : SOp) (i : Nat) : Prop :=
  match op with
  | .open d => d.keyId = i
  | .rotate _ id _ _ => id % 4 = i
  | .tick => True
  | .seal _ => False

instance (op : SOp) (i : Nat) : Decidable (affects op i) := by
  cases op <;> simp only [affects] <;> infer_instance

/-- an operation that does not touch slot `i` leaves key and window of slot `i` as they were -/
theorem step_unaffected (c : Core) (op : SOp) (i : Nat) (hna : ¬ affects op i) :
    ((step c op).1.slots[i]?).map (fun k => (k.key, k.min, k.nextMin, k.seen)) =
      (c.slots[i]?).map (fun k => (k.key, k.min, k.nextMin, k.seen)) := by
  cases hk : c.slots[i]? with
  | none =>
    have : (step c op).1.slots[i]? = none := by
      rw [List.getElem?_eq_none_iff, step_len, ← List.getElem?_eq_none_iff]; exact hk
    rw [this]
  | some k =>
    cases op with
    | «seal» p =>
      simp only [step]
      rw [encrypt_slots c p i k hk]
      split <;> rfl
    | tick => exact absurd trivial hna
    | rotate K id use start =>
      simp only [affects] at hna
      simp only [step]
      rw [rotate_slots, if_neg hna, hk]
    | «open» d =>
      simp only [affects] at hna
      simp only [step]
      rcases open_slots c d i k hk with h1 | ⟨hid, _⟩
      · rw [h1]
      · exact absurd hid hna

theorem run_unaffected (c : Core) (ops : List SOp) (i : Nat) (hna : ∀ op ∈ ops, ¬ affects op i) :
    ((run c ops).1.slots[i]?).map (fun k => (k.key, k.min, k.nextMin, k.seen)) =
      (c.slots[i]?).map (fun k => (k.key, k.min, k.nextMin, k.seen)) := by
  induction ops generalizing c with
  | nil => rfl
  | cons op ops ih =>
    rw [run_cons]
    simp only
    rw [ih _ (fun o ho => hna o (List.mem_cons_of_mem _ ho)), step_unaffected c op i (hna op List.mem_cons_self)]

theorem slotHist_unaffected (i : Nat) (c : Core) (h : List Ev) (ops : List SOp) (hna : ∀ op ∈ ops, ¬ affects op i) :
    slotHist i c h ops = h := by
  induction ops generalizing c h with
  | nil => rfl
  | cons op ops ih =>
    have h1 : histStep i c h op = h := by
      have := hna op List.mem_cons_self
      cases op with
      | «seal» p => rfl
      | tick => exact absurd trivial this
      | rotate K id use start => simp only [affects] at this; simp only [histStep, if_neg this]
      | «open» d => simp only [affects] at this; simp only [histStep, this, false_and, if_false]
    simp only [slotHist, h1]
    exact ih _ _ (fun o ho => hna o (List.mem_cons_of_mem _ ho))

/-! ## keys that are gone stay gone -/

/-- a key that slot `j` does not hold and that is not rotated in later is never held by slot `j` again -/
theorem slot_avoids_key (K : KeyRef) (j : Nat) (ops : List SOp) (c : Core)
    (h0 : ∀ k, c.slots[j]? = some k → k.key ≠ K) (hf : K ∉ rotatedKeys ops) :
    ∀ k, (run c ops).1.slots[j]? = some k → k.key ≠ K := by
  induction ops generalizing c with
  | nil => exact h0
  | cons op ops ih =>
    rw [run_cons]
    simp only
    apply ih
    · intro k' hk'
      rcases step_slot_key c op j k' hk' with ⟨k, hk, hkey⟩ | ⟨K', id, use, start, rfl, _, hkey⟩
      · rw [hkey]; exact h0 k hk
      · rw [hkey]
        intro heq
        exact hf (by simp [rotatedKeys, heq])
    · intro hmem
      apply hf
      cases op <;> simp [rotatedKeys, hmem]

/-- every key held by a slot after a trace was held before or was rotated in by the trace -/
theorem slot_keys_used (ops : List SOp) (c : Core) (used : List KeyRef)
    (h0 : ∀ (j : Nat) (k : SlotKey), c.slots[j]? = some k → k.key ∈ used) :
    ∀ (j : Nat) (k : SlotKey), (run c ops).1.slots[j]? = some k → k.key ∈ used ++ rotatedKeys ops := by
  induction ops generalizing c used with
  | nil => simpa [run, rotatedKeys] using h0
  | cons op ops ih =>
    rw [run_cons]
    simp only
    have h1 : ∀ (j : Nat) (k : SlotKey), (step c op).1.slots[j]? = some k → k.key ∈ used ++ rotatedKeys [op] := by
      intro j k' hk'
      rcases step_slot_key c op j k' hk' with ⟨k, hk, hkey⟩ | ⟨K', id, use, start, rfl, _, hkey⟩
      · rw [hkey]; exact List.mem_append_left _ (h0 j k hk)
      · rw [hkey]; simp [rotatedKeys]
    intro j k hk
    have := ih (step c op).1 _ h1 j k hk
    have e : rotatedKeys (op :: ops) = rotatedKeys [op] ++ rotatedKeys ops := by
      cases op <;> simp [rotatedKeys]
    rw [e, ← List.append_assoc]
    exact this

/-- a datagram sealed under a key that the addressed slot does not hold is rejected -/
theorem rejected_of_other_key (c : Core) (d : Dgram) (K : KeyRef) (n : Nat) (p : Bytes)
    (hb : d.body = .sealed K n p) (h : ∀ k, c.slots[d.keyId]? = some k → k.key ≠ K) :
    ∃ e, (c.decrypt d).2 = .error e := by
  rcases decrypt_cases c d with ⟨e, he⟩ | ⟨k, p', _, _, hk, _, hb', _⟩
  · exact ⟨e, by rw [he]⟩
  · rw [hb] at hb'
    cases hb'
    exact absurd rfl (h k hk)

/-! ## a replay dies in two ticks -/

/-- stage `t` (number of ticks so far, 0 / 1 / ≥ 2) of the death of the nonces `≤ n'` under key `K` in a
    slot: while the slot holds `K`, `n'` has been seen, after one tick it is below the pending floor,
    after two ticks below the floor -/
def Stage (K : KeyRef) (n' t : Nat) (k : SlotKey) : Prop :=
  k.seen + 1 < NONCE_MOD ∧ (k.key = K → n' ≤ k.seen ∧ (1 ≤ t → n' < k.nextMin) ∧ (2 ≤ t → n' < k.min))

theorem stage_step (K : KeyRef) (n' t j : Nat) (c : Core) (op : SOp) (k : SlotKey)
    (hk : c.slots[j]? = some k) (st : Stage K n' t k)
    (hrot : ∀ K' id use start, op = .rotate K' id use start → K' ≠ K)
    (hwf : ∀ d, op = .open d → Bytes.WF d.hdr) :
    ∃ k', (step c op).1.slots[j]? = some k' ∧ Stage K n' (t + numTicks [op]) k' := by
  have hjlt : j < c.slots.length := (List.getElem?_eq_some_iff.1 hk).1
  cases op with
  | «seal» p =>
    refine ⟨_, encrypt_slots c p j k hk, ?_⟩
    split
    · exact st
    · exact st
  | tick =>
    refine ⟨k.updateMinNonce, by simp only [step]; rw [tick_slots, hk]; rfl, ?_⟩
    obtain ⟨s1, s2⟩ := st
    refine ⟨s1, fun hkey => ?_⟩
    obtain ⟨a, b, c'⟩ := s2 hkey
    simp only [SlotKey.updateMinNonce, numTicks]
    rw [Nat.mod_eq_of_lt s1]
    exact ⟨a, fun _ => by omega, fun h2 => b (by omega)⟩
  | rotate K' id use start =>
    simp only [step]
    rw [rotate_slots]
    by_cases hij : id % 4 = j
    · rw [if_pos hij, if_pos (by rw [hij]; exact hjlt)]
      refine ⟨_, rfl, ?_, fun hkey => absurd hkey (hrot K' id use start rfl)⟩
      show 0 + 1 < NONCE_MOD
      rw [nonce_mod_eq]; omega
    · rw [if_neg hij]
      exact ⟨k, hk, st⟩
  | «open» d =>
    rcases open_slots c d j k hk with h1 | ⟨_, _, _, h1⟩
    · exact ⟨k, h1, st⟩
    · refine ⟨_, h1, ?_⟩
      obtain ⟨s1, s2⟩ := st
      have hn := reconstruct_lt c d (hwf d rfl)
      simp only [slotStep]
      split
      · refine ⟨hn, fun hkey => ?_⟩
        obtain ⟨a, b, c'⟩ := s2 hkey
        exact ⟨by show n' ≤ c.reconstruct d.counter; omega, b, c'⟩
      · exact ⟨s1, s2⟩

theorem stage_run (K : KeyRef) (n' j : Nat) : ∀ (ops : List SOp) (t : Nat) (c : Core) (k : SlotKey),
    c.slots[j]? = some k → Stage K n' t k → K ∉ rotatedKeys ops → DeliveredWF ops →
    ∃ k', (run c ops).1.slots[j]? = some k' ∧ Stage K n' (t + numTicks ops) k' := by
  intro ops
  induction ops with
  | nil => intro t c k hk st _ _; exact ⟨k, hk, st⟩
  | cons op ops ih =>
    intro t c k hk st hf hwf
    obtain ⟨k1, hk1, st1⟩ := stage_step K n' t j c op k hk st
      (fun K' id use start h heq => hf (by rw [h, heq]; simp [rotatedKeys]))
      (fun d hd => hwf d (by rw [hd]; simp [delivered]))
    have hf' : K ∉ rotatedKeys ops := by
      intro hmem; apply hf; cases op <;> simp [rotatedKeys, hmem]
    have hwf' : DeliveredWF ops := by
      intro d hd; apply hwf d; cases op <;> simp [delivered, hd]
    obtain ⟨k2, hk2, st2⟩ := ih _ _ k1 hk1 st1 hf' hwf'
    refine ⟨k2, by rw [run_cons]; exact hk2, ?_⟩
    rw [numTicks_cons, ← Nat.add_assoc]
    exact st2

/-- in stage ≥ 2 every datagram under `K` with a nonce `≤ n'` addressed to the slot is rejected -/
theorem stage_rejects (K : KeyRef) (n' t : Nat) (c : Core) (d : Dgram) (k : SlotKey) (n : Nat) (p : Bytes)
    (hk : c.slots[d.keyId]? = some k) (st : Stage K n' t k) (ht : 2 ≤ t)
    (hb : d.body = .sealed K n p) (hle : n ≤ n') : ∃ e, (c.decrypt d).2 = .error e := by
  rcases decrypt_cases c d with ⟨e, he⟩ | ⟨k0, p', _, _, hk0, hmin, hb', _⟩
  · exact ⟨e, by rw [he]⟩
  · rw [hk] at hk0
    cases hk0
    rw [hb] at hb'
    simp only [Body.sealed.injEq] at hb'
    obtain ⟨hkey, hn, _⟩ := hb'
    have := (st.2 hkey.symm).2.2 ht
    omega

/-- the slot that has just accepted a datagram under `K` with nonce `n'` is in stage 0 -/
theorem stage_zero (c : Core) (d' : Dgram) (K : KeyRef) (n' : Nat) (p' : Bytes) (k : SlotKey)
    (hk : c.slots[d'.keyId]? = some k) (hseen : k.seen + 1 < NONCE_MOD) (hwf : Bytes.WF d'.hdr)
    (hacc : (c.decrypt d').2 = .ok p') (hb : d'.body = .sealed K n' p') :
    ∃ k', (c.decrypt d').1.slots[d'.keyId]? = some k' ∧ Stage K n' 0 k' := by
  rcases decrypt_cases c d' with ⟨e, he⟩ | ⟨k0, p, _, _, hk0, hmin, hb', hd⟩
  · rw [he] at hacc; cases hacc
  · rw [hk] at hk0
    cases hk0
    rw [hb] at hb'
    simp only [Body.sealed.injEq] at hb'
    obtain ⟨_, hn, _⟩ := hb'
    have hlt : d'.keyId < c.slots.length := (List.getElem?_eq_some_iff.1 hk).1
    refine ⟨_, by rw [hd]; exact List.getElem?_set_self hlt, ?_⟩
    have hrl := reconstruct_lt c d' hwf
    rw [← hn] at hrl ⊢
    simp only [slotStep]
    split
    · exact ⟨hrl, fun _ => ⟨Nat.le_refl _, fun h => absurd h (by omega), fun h => absurd h (by omega)⟩⟩
    · exact ⟨hseen, fun _ => ⟨by omega, fun h => absurd h (by omega), fun h => absurd h (by omega)⟩⟩

/-! ## the slot histories of a trace are admissible histories in the sense of `Spec/C03Slot.lean` -/

theorem admissible_snoc (k : SlotKey) (h : List Ev) (e : Ev) :
    Admissible k (h ++ [e]) ↔ Admissible k h ∧
      (∀ n, e = .accept n → (slotRun k h).min ≤ n ∧ n + 1 < NONCE_MOD) := by
  induction h generalizing k with
  | nil =>
    cases e with
    | accept n => simp [Admissible, slotRun]
    | tick => simp [Admissible]
  | cons x h ih =>
    cases x with
    | accept m =>
      simp only [List.cons_append, Admissible, ih, slotRun, List.foldl_cons]
      constructor
      · rintro ⟨a, b, c, d⟩; exact ⟨⟨a, b, c⟩, d⟩
      · rintro ⟨⟨a, b, c⟩, d⟩; exact ⟨a, b, c, d⟩
    | tick =>
      simp only [List.cons_append, Admissible, ih, slotRun, List.foldl_cons]

/-- what opening a datagram does to slot `j`, by the condition under which `histStep` records an accept -/
theorem open_slot_cases (c : Core) (d : Dgram) (j : Nat) (k : SlotKey) (hk : c.slots[j]? = some k) :
    if d.keyId = j ∧ accepted c d = true then
      k.min ≤ c.reconstruct d.counter ∧
        (c.decrypt d).1.slots[j]? = some (slotStep k (.accept (c.reconstruct d.counter)))
    else (c.decrypt d).1.slots[j]? = some k := by
  rcases decrypt_cases c d with ⟨e, he⟩ | ⟨k0, p, _, _, hk0, hmin, _, hd⟩
  · have : ¬ (d.keyId = j ∧ accepted c d = true) := by
      rintro ⟨_, ha⟩
      obtain ⟨p, hp⟩ := (accepted_iff c d).1 ha
      rw [he] at hp; cases hp
    rw [if_neg this, he]; exact hk
  · have hacc : accepted c d = true := (accepted_iff c d).2 ⟨p, by rw [hd]⟩
    by_cases hj : d.keyId = j
    · rw [if_pos ⟨hj, hacc⟩]
      subst hj
      rw [hk] at hk0; cases hk0
      have hlt : d.keyId < c.slots.length := (List.getElem?_eq_some_iff.1 hk).1
      exact ⟨hmin, by rw [hd]; exact List.getElem?_set_self hlt⟩
    · rw [if_neg (fun h => hj h.1), hd]
      simp only
      rw [List.getElem?_set_ne hj, hk]

theorem adm_step (i : Nat) (c : Core) (h : List Ev) (op : SOp) (k : SlotKey) (K : KeyRef) (half : Bool) (start : Nat)
    (hk : c.slots[i]? = some k) (w : W k h) (a : Admissible (SlotKey.new K half start) h)
    (hwf : ∀ d, op = .open d → Bytes.WF d.hdr) :
    Admissible (SlotKey.new K half start) (histStep i c h op) := by
  cases op with
  | «seal» p => exact a
  | tick =>
    simp only [histStep]
    rw [admissible_snoc]
    exact ⟨a, fun n hn => by cases hn⟩
  | rotate K' id use start' =>
    simp only [histStep]
    split
    · trivial
    · exact a
  | «open» d =>
    simp only [histStep]
    have hc := open_slot_cases c d i k hk
    split
    · rename_i hcond
      rw [if_pos hcond] at hc
      rw [admissible_snoc]
      refine ⟨a, fun n hn => ?_⟩
      cases hn
      refine ⟨?_, reconstruct_lt c d (hwf d rfl)⟩
      rw [C03.window_refines K half start h a, ← w.1]
      exact hc.1
    · exact a

theorem adm_run (i : Nat) (hi : i < 4) (K : KeyRef) (half : Bool) (start : Nat) :
    ∀ (ops : List SOp) (c : Core) (h : List Ev) (k : SlotKey),
    c.slots.length = 4 → c.slots[i]? = some k → W k h → Admissible (SlotKey.new K half start) h → DeliveredWF ops →
    Admissible (SlotKey.new K half start) (slotHist i c h ops) := by
  intro ops
  induction ops with
  | nil => intro c h k _ _ _ a _; exact a
  | cons op ops ih =>
    intro c h k hlen hk w a hwf
    have hwf1 : ∀ d, op = .open d → Bytes.WF d.hdr := fun d hd => hwf d (by rw [hd]; simp [delivered])
    obtain ⟨k1, hk1, w1, _⟩ := win_step i hi c h op k hlen hk w hwf1
    have hwf' : DeliveredWF ops := by
      intro d hd; apply hwf d; cases op <;> simp [delivered, hd]
    exact ih (step c op).1 (histStep i c h op) k1 (by rw [step_len, hlen]) hk1 w1
      (adm_step i c h op k K half start hk w a hwf1) hwf'

end VpnCloud.Proofs.C04Session
