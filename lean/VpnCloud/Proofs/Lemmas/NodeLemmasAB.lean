import VpnCloud.Model.Node
/-
  Helper lemmas for the node-level properties C14 / C15: `connect` / `connectSock` do not touch the
  reconnect list.
-/
namespace VpnCloud.Proofs.NodeLemmasAB
open VpnCloud VpnCloud.Node

theorem send_node (c : Ctx) (a : NAddr) (b : Bytes) : (c.send a b).node = c.node := rfl

theorem connectSock_reconnect (env : CryptoEnv) (o : Oracle) (c : Ctx) (a : NAddr) :
    (connectSock env o c a).node.reconnect = c.node.reconnect := by
  unfold connectSock
  simp only
  split
  · rfl
  · simp [newAttempt, send_node]

theorem foldl_connectSock_reconnect (env : CryptoEnv) (o : Oracle) (l : List NAddr) (c : Ctx) :
    (l.foldl (connectSock env o) c).node.reconnect = c.node.reconnect := by
  induction l generalizing c with
  | nil => rfl
  | cons a l ih => simp [List.foldl_cons, ih, connectSock_reconnect]

theorem connect_reconnect (env : CryptoEnv) (o : Oracle) (c : Ctx) (addrs : List NAddr) :
    (connect env o c addrs).node.reconnect = c.node.reconnect := by
  unfold connect
  simp only
  split
  · rfl
  · exact foldl_connectSock_reconnect env o _ c

theorem foldl_connect_reconnect (env : CryptoEnv) (o : Oracle) (now : Int) (l : List Reconnect) (c : Ctx) :
    (l.foldl (fun c e => if Generated.reconnectNotDue e.next now then c else connect env o c e.resolved) c).node.reconnect = c.node.reconnect := by
  induction l generalizing c with
  | nil => rfl
  | cons e l ih =>
    simp only [List.foldl_cons]
    rw [ih]
    split
    · rfl
    · exact connect_reconnect env o c e.resolved

end VpnCloud.Proofs.NodeLemmasAB
