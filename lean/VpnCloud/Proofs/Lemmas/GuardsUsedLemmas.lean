import VpnCloud.Model.Node
import VpnCloud.Proofs.Lemmas.C15MoreLemmas
import VpnCloud.Proofs.C15
/-
  Helper lemmas for `Proofs/GuardsUsed.lean`: the time of the next reset of the own addresses is read and written by the last
  step of `housekeep` only; the announcement step with the delay it computes.
-/
namespace VpnCloud.Proofs.GuardsUsedLemmas

open VpnCloud VpnCloud.Node
open VpnCloud.Proofs.NodeLemmas VpnCloud.Proofs.NodeLemmas2 VpnCloud.Proofs.NodeInvLemmas
open VpnCloud.Proofs.C15MoreLemmas

/-! ## `next_own_address_reset` is left alone by every step before the last -/

theorem connectSock_nor (env : CryptoEnv) (o : Oracle) (c : Ctx) (a : NAddr) :
    (connectSock env o c a).node.nextOwnReset = c.node.nextOwnReset := by
  unfold connectSock
  simp only []
  split
  · rfl
  · simp only [newAttempt]; rfl

theorem connect_nor (env : CryptoEnv) (o : Oracle) (c : Ctx) (l : List NAddr) :
    (connect env o c l).node.nextOwnReset = c.node.nextOwnReset := by
  unfold connect
  simp only []
  split
  · rfl
  · exact foldl_proj (·.node.nextOwnReset) _ (connectSock_nor env o) _ _

theorem hkDead_nor (env : CryptoEnv) (o : Oracle) (n : Node) (now : Int) :
    (hkDead env o n now).node.nextOwnReset = n.nextOwnReset := by
  unfold hkDead
  refine (foldl_proj (·.node.nextOwnReset) _ ?_ _ _).trans rfl
  intro c a
  exact (connectSock_nor env o _ a).trans rfl

theorem sendMsg_nor (o : Oracle) (c : Ctx) (a : NAddr) (ty : Nat) (body : Bytes) :
    ((sendMsg o c a ty body).getD c).node.nextOwnReset = c.node.nextOwnReset := by
  unfold sendMsg
  split
  · rfl
  · simp only []
    split
    · rfl
    · rfl

theorem broadcastMsg_nor (o : Oracle) (c : Ctx) (ty : Nat) (body : Bytes) :
    (broadcastMsg o c ty body).node.nextOwnReset = c.node.nextOwnReset := by
  unfold broadcastMsg
  exact foldl_proj (·.node.nextOwnReset) _ (fun c a => sendMsg_nor o c a ty body) _ _

theorem cryptoHousekeep_nor (env : CryptoEnv) (o : Oracle) (c : Ctx) (now : Int) :
    (cryptoHousekeep env o c now).node.nextOwnReset = c.node.nextOwnReset := by
  unfold cryptoHousekeep
  refine (foldl_proj (·.node.nextOwnReset) _ ?_ _ _).trans (foldl_proj (·.node.nextOwnReset) _ ?_ _ _)
  · intro c a
    split
    · rfl
    · split
      split
      · exact (connectSock_nor env o _ a).trans rfl
      · rfl
      · split <;> rfl
  · intro c a
    split
    · rfl
    · split
      split
      · rfl
      · rfl
      · split <;> rfl

theorem preAnnounce_nor (env : CryptoEnv) (o : Oracle) (n : Node) (now : Int) :
    (preAnnounce env o n now).node.nextOwnReset = n.nextOwnReset := by
  unfold preAnnounce
  rw [cryptoHousekeep_nor]
  exact hkDead_nor env o n now

theorem hkAnnounce_nor (o : Oracle) (c : Ctx) (now : Int) :
    (hkAnnounce o c now).node.nextOwnReset = c.node.nextOwnReset := by
  unfold hkAnnounce
  split
  · simp only []
    have hs := broadcastMsg_nor o c Generated.MESSAGE_TYPE_NODE_INFO (Codec.encodeNodeInfo (createNodeInfo c.node))
    split
    · exact hs
    · exact hs
  · rfl

theorem reconnectToPeers_nor (env : CryptoEnv) (o : Oracle) (c : Ctx) (now : Int) :
    (reconnectToPeers env o c now).node.nextOwnReset = c.node.nextOwnReset := by
  show (rcDial env o c now).node.nextOwnReset = _
  unfold rcDial
  refine foldl_proj (·.node.nextOwnReset) _ ?_ _ _
  intro c e
  split
  · rfl
  · exact connect_nor env o c _

/-- the value of `next_own_address_reset` that the last step of `housekeep` tests is the one the tick started with -/
theorem housekeep_own_step (env : CryptoEnv) (o : Oracle) (n : Node) (now : Int) :
    ∃ c5 : Ctx, housekeep env o n now = hkOwn c5 now ∧ c5.node.nextOwnReset = n.nextOwnReset :=
  ⟨_, housekeep_eq' env o n now, by rw [reconnectToPeers_nor, hkAnnounce_nor, preAnnounce_nor]⟩

/-! ## the announcement step with its delay -/

/-- a due announcement is followed by the next one after the generated interval, computed from the node's own `updateFreq` -/
theorem hkAnnounce_due_delay (o : Oracle) (c3 : Ctx) (now : Int) (hdue : c3.node.nextPeers ≤ now) :
    ∃ m d : Nat, Generated.housekeepInterval c3.node.cfg.updateFreq m = some d ∧ (hkAnnounce o c3 now).node.nextPeers = now + d := by
  unfold hkAnnounce
  rw [if_pos (show Generated.announceDue c3.node.nextPeers now = true by
    simp only [Generated.announceDue, decide_eq_true_eq]; exact hdue)]
  simp only []
  have hcfg := sched_cfg (broadcastMsg_sched o c3 Generated.MESSAGE_TYPE_NODE_INFO (Codec.encodeNodeInfo (createNodeInfo c3.node)))
  generalize broadcastMsg o c3 Generated.MESSAGE_TYPE_NODE_INFO (Codec.encodeNodeInfo (createNodeInfo c3.node)) = c' at hcfg ⊢
  obtain ⟨d, hd, _⟩ := C15.interval_safe c'.node.cfg.updateFreq
    ((c'.node.peers.map (fun (_, p) => p.peerTimeout)).foldl min (if c'.node.peers.isEmpty then Generated.DEFAULT_PEER_TIMEOUT else 65535))
  unfold announceInterval
  rw [hd]
  exact ⟨_, d, by rw [← hcfg]; exact hd, rfl⟩

-- the generated expression changes with the Rust source
set_option linter.unusedSimpArgs false

/-- with an own `updateFreq` of at least one second the generated interval is at least one second -/
theorem interval_pos (updateFreq m d : Nat) (h : Generated.housekeepInterval updateFreq m = some d) (hu : 1 ≤ updateFreq) : 1 ≤ d := by
  simp [Generated.housekeepInterval, Generated.oMin, Generated.oMax, Generated.oSatSub,
     Generated.oDiv, Generated.oAdd, Generated.oMul, Generated.oCheckedSub] at h
  omega

end VpnCloud.Proofs.GuardsUsedLemmas
