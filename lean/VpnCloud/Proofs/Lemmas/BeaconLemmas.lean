import VpnCloud.Model.Beacon
import VpnCloud.Spec.C17
import VpnCloud.Proofs.C18
/-
  Helper lemmas for C17 (beacon text codec): key stream masking, the seed byte, the address
  readers, substring search.
-/
namespace VpnCloud.Proofs.C17

/-- hypotheses on the hash parameter: it returns proper bytes -/
structure EnvWF (env : BeaconEnv) : Prop where
  ks_wf : ∀ t s i, Bytes.WF (env.ks t s i) ∧ (env.ks t s i).length = 64
  h0_lt : ∀ d, env.h0 d < 256

end VpnCloud.Proofs.C17

namespace VpnCloud.Proofs.BeaconLemmas
open VpnCloud VpnCloud.Beacon VpnCloud.Codec VpnCloud.Base62 VpnCloud.Spec.C17 VpnCloud.Proofs.C17

/-! ## xor on bytes -/

theorem xor_cancel (a b : Nat) : (a ^^^ b) ^^^ b = a := by
  rw [Nat.xor_assoc, Nat.xor_self, Nat.xor_zero]

theorem xor_byte {a b : Nat} (ha : a < 256) (hb : b < 256) : a ^^^ b < 256 :=
  Nat.xor_lt_two_pow (n := 8) ha hb

theorem getD_byte {l : Bytes} (h : Bytes.WF l) (i : Nat) : l.getD i 0 < 256 := by
  rw [List.getD_eq_getElem?_getD]
  cases hi : l[i]? with
  | none => simp
  | some x => simp only [Option.getD_some]; exact h x (List.mem_of_getElem? hi)

/-! ## masking -/

theorem maskFrom_nil (env : BeaconEnv) (t s i p : Nat) : maskFrom env t s [] i p = [] := by
  simp only [maskFrom]

theorem maskFrom_cons (env : BeaconEnv) (t s b : Nat) (r : Bytes) (i p : Nat) :
    maskFrom env t s (b :: r) i p =
      (b ^^^ (env.ks t s i).getD p 0) ::
        (if p + 1 = 16 then maskFrom env t s r ((i + 1) % 256) 0 else maskFrom env t s r i (p + 1)) := by
  simp only [maskFrom]

theorem maskFrom_length (env : BeaconEnv) (t s : Nat) (d : Bytes) :
    ∀ i p, (maskFrom env t s d i p).length = d.length := by
  induction d with
  | nil => intro i p; simp only [maskFrom_nil]
  | cons b r ih =>
    intro i p
    rw [maskFrom_cons]
    split <;> simp only [List.length_cons, ih]

theorem maskFrom_involutive (env : BeaconEnv) (t s : Nat) (d : Bytes) :
    ∀ i p, maskFrom env t s (maskFrom env t s d i p) i p = d := by
  induction d with
  | nil => intro i p; simp only [maskFrom_nil]
  | cons b r ih =>
    intro i p
    rw [maskFrom_cons, maskFrom_cons, xor_cancel]
    split <;> simp only [ih]

theorem maskFrom_wf (env : BeaconEnv) (h : EnvWF env) (t s : Nat) (d : Bytes) (hd : Bytes.WF d) :
    ∀ i p, Bytes.WF (maskFrom env t s d i p) := by
  induction d with
  | nil => intro i p; simp only [maskFrom_nil, Bytes.wf_nil]
  | cons b r ih =>
    intro i p
    rw [Bytes.wf_cons] at hd
    rw [maskFrom_cons, Bytes.wf_cons]
    refine ⟨xor_byte hd.1 (getD_byte (h.ks_wf t s i).1 p), ?_⟩
    split
    · exact ih hd.2 _ _
    · exact ih hd.2 _ _

/-! ## the wrapped block counter: closed form of the key stream

  Since the fix of `mask_with_keystream` (`iter = iter.wrapping_add(1)`) the block counter of the model is a
  `u8` that wraps: the byte at index `n` of the data is masked with byte `n % 16` of key stream block
  `(n / 16) % 256`, whatever the length of the data. -/

/-- the key stream byte applied to the data byte at index `n` -/
def ksByte (env : BeaconEnv) (t s n : Nat) : Nat := (env.ks t s ((n / 16) % 256)).getD (n % 16) 0

/-- xor of the data with the key stream bytes `n, n + 1, …` -/
def xorStream (env : BeaconEnv) (t s : Nat) : Bytes → Nat → Bytes
  | [], _ => []
  | b :: r, n => (b ^^^ ksByte env t s n) :: xorStream env t s r (n + 1)

theorem ksByte_block (env : BeaconEnv) (t s i p : Nat) (hp : p < 16) :
    ksByte env t s (16 * i + p) = (env.ks t s (i % 256)).getD p 0 := by
  unfold ksByte
  rw [show (16 * i + p) / 16 = i by omega, show (16 * i + p) % 16 = p by omega]

theorem ksByte_period (env : BeaconEnv) (t s n : Nat) : ksByte env t s (n + 4096) = ksByte env t s n := by
  unfold ksByte
  rw [show (n + 4096) / 16 % 256 = n / 16 % 256 by omega, show (n + 4096) % 16 = n % 16 by omega]

theorem ksByte_period_mul (env : BeaconEnv) (t s n k : Nat) : ksByte env t s (n + 4096 * k) = ksByte env t s n := by
  induction k with
  | zero => rfl
  | succ k ih => rw [show n + 4096 * (k + 1) = n + 4096 * k + 4096 by omega, ksByte_period, ih]

/-- the loop of the code (block counter `iter`, position `pos` inside the block) is the xor with the key
    stream from any index `n` that is congruent to `16 * iter + pos` modulo 4096 -/
theorem maskFrom_eq_xorStream (env : BeaconEnv) (t s : Nat) (d : Bytes) :
    ∀ i p n, i < 256 → p < 16 → n % 4096 = 16 * i + p → maskFrom env t s d i p = xorStream env t s d n := by
  induction d with
  | nil => intro i p n _ _ _; rw [maskFrom_nil]; rfl
  | cons b r ih =>
    intro i p n hi hp hn
    rw [maskFrom_cons, xorStream]
    have e1 : n / 16 % 256 = i := by omega
    have e2 : n % 16 = p := by omega
    congr 1
    · unfold ksByte; rw [e1, e2]
    · split
      · exact ih _ 0 (n + 1) (Nat.mod_lt _ (by omega)) (by omega) (by omega)
      · exact ih i (p + 1) (n + 1) hi (by omega) (by omega)

theorem mask_eq_xorStream (env : BeaconEnv) (d : Bytes) (t s : Nat) : mask env d t s = xorStream env t s d 0 :=
  maskFrom_eq_xorStream env t s d 0 0 0 (by omega) (by omega) rfl

theorem xorStream_getElem? (env : BeaconEnv) (t s : Nat) (d : Bytes) :
    ∀ n j, (xorStream env t s d n)[j]? = d[j]?.map (fun b => b ^^^ ksByte env t s (n + j)) := by
  induction d with
  | nil => intro n j; simp only [xorStream, List.getElem?_nil, Option.map_none]
  | cons b r ih =>
    intro n j
    cases j with
    | zero => simp only [xorStream, List.getElem?_cons_zero, Option.map_some, Nat.add_zero]
    | succ j =>
      simp only [xorStream, List.getElem?_cons_succ, ih]
      rw [show n + 1 + j = n + (j + 1) by omega]

theorem xorStream_append (env : BeaconEnv) (t s : Nat) (a b : Bytes) :
    ∀ n, xorStream env t s (a ++ b) n = xorStream env t s a n ++ xorStream env t s b (n + a.length) := by
  induction a with
  | nil => intro n; rfl
  | cons x r ih =>
    intro n
    simp only [List.cons_append, xorStream, ih, List.length_cons]
    rw [show n + 1 + r.length = n + (r.length + 1) by omega]

theorem xorStream_period (env : BeaconEnv) (t s : Nat) (d : Bytes) :
    ∀ n k, xorStream env t s d (n + 4096 * k) = xorStream env t s d n := by
  induction d with
  | nil => intro n k; rfl
  | cons b r ih =>
    intro n k
    simp only [xorStream, ksByte_period_mul]
    rw [show n + 4096 * k + 1 = n + 1 + 4096 * k by omega, ih]

/-! ## the seed byte -/

theorem encryptData_eq (env : BeaconEnv) (d : Bytes) :
    encryptData env d = mask env d TYPE_DATA (env.h0 d) ++ [env.h0 d ^^^ (env.ks TYPE_SEED 0 0).getD 0 0] := rfl

theorem encryptData_length (env : BeaconEnv) (d : Bytes) : (encryptData env d).length = d.length + 1 := by
  rw [encryptData_eq, List.length_append, mask, maskFrom_length]; rfl

theorem encryptData_wf (env : BeaconEnv) (h : EnvWF env) (d : Bytes) (hd : Bytes.WF d) :
    Bytes.WF (encryptData env d) := by
  rw [encryptData_eq, Bytes.wf_append]
  refine ⟨maskFrom_wf env h _ _ d hd 0 0, ?_⟩
  rw [Bytes.wf_cons]
  exact ⟨xor_byte (h.h0_lt d) (getD_byte (h.ks_wf _ _ _).1 0), Bytes.wf_nil⟩

theorem decrypt_encrypt (env : BeaconEnv) (d : Bytes) : decryptData env (encryptData env d) = some d := by
  rw [encryptData_eq]
  unfold decryptData
  simp only [List.getLast?_append, List.getLast?_singleton, Option.some_or, List.dropLast_concat, xor_cancel]
  simp only [mask, maskFrom_involutive, if_true]

/-! ## the age test -/

theorem tooOld_eq (now thn ttl : Nat) (ht : thn < 65536) :
    tooOld now thn ttl = !ageOk now thn (some ttl) := by
  have e : thn % 65536 = thn := Nat.mod_eq_of_lt ht
  simp only [tooOld, ageOk, e]
  by_cases h1 : (now + 65536 - thn) % 65536 ≤ ttl <;> by_cases h2 : (thn + 65536 - now) % 65536 ≤ ttl <;>
    simp [h1, h2] <;> omega

/-! ## the plain body and the address readers -/

theorem ofU16_wf (v : Nat) : Bytes.WF (Bytes.ofU16 v) := by
  simp only [Bytes.ofU16, Bytes.wf_cons, Bytes.wf_nil, and_true]
  omega

theorem sockBytes_wf (a : SockAddr) (h : sockWF a = true) : Bytes.WF (sockBytes a) := by
  cases a with
  | v4 ip port =>
    simp only [sockWF, Bool.and_eq_true, decide_eq_true_eq] at h
    simp only [sockBytes, Bytes.wf_append]; exact ⟨h.1.2, ofU16_wf _⟩
  | v6 ip port =>
    simp only [sockWF, Bool.and_eq_true, decide_eq_true_eq] at h
    simp only [sockBytes, Bytes.wf_append]; exact ⟨h.1.2, ofU16_wf _⟩

theorem flatMap_sockBytes_wf (l : List SockAddr) (h : ∀ a ∈ l, sockWF a = true) :
    Bytes.WF (l.flatMap sockBytes) := by
  intro b hb
  rw [List.mem_flatMap] at hb
  obtain ⟨a, ha, hb⟩ := hb
  exact sockBytes_wf a (h a ha) b hb

/-- the plain body, as a cons list -/
theorem plainBody_eq (peers : List SockAddr) (hour : Nat) :
    plainBody peers hour = (hour / 256) % 256 :: hour % 256 :: (peers.filter isV4).length % 256 ::
      ((peers.filter isV4).flatMap sockBytes ++ (peers.filter (fun a => !isV4 a)).flatMap sockBytes) := by
  simp only [plainBody, Bytes.ofU16, List.cons_append, List.nil_append]

theorem plainBody_wf (peers : List SockAddr) (hour : Nat) (hp : ∀ a ∈ peers, sockWF a = true) :
    Bytes.WF (plainBody peers hour) := by
  rw [plainBody_eq]
  simp only [Bytes.wf_cons, Bytes.wf_append]
  refine ⟨by omega, by omega, by omega, ?_, ?_⟩
  · exact flatMap_sockBytes_wf _ (fun a ha => hp a (List.mem_filter.mp ha).1)
  · exact flatMap_sockBytes_wf _ (fun a ha => hp a (List.mem_filter.mp ha).1)

theorem u16_read (v : Nat) (h : v < 65536) : (v / 256) % 256 * 256 + v % 256 = v := by omega

theorem readV4s_flatMap (l : List SockAddr) (h : ∀ a ∈ l, sockWF a = true ∧ isV4 a = true) (tail : Bytes) :
    readV4s l.length (l.flatMap sockBytes ++ tail) = l := by
  induction l with
  | nil => simp only [List.length_nil, readV4s]
  | cons a r ih =>
    have ha := h a (List.mem_cons_self)
    cases a with
    | v6 ip port => simp [isV4] at ha
    | v4 ip port =>
      obtain ⟨⟨⟨hl, _⟩, hport⟩, _⟩ := by simpa only [sockWF, Bool.and_eq_true, decide_eq_true_eq] using ha
      match ip, hl with
      | [a0, a1, a2, a3], _ =>
        simp only [List.length_cons, readV4s, List.flatMap_cons, sockBytes, Bytes.ofU16, List.cons_append,
          List.nil_append, List.take_succ_cons, List.take_zero, List.getD_cons_succ,
          List.getD_cons_zero, List.drop_succ_cons, List.drop_zero, u16_read port hport]
        rw [ih (fun b hb => h b (List.mem_cons_of_mem _ hb))]

theorem readV6s_flatMap (l : List SockAddr) (h : ∀ a ∈ l, sockWF a = true ∧ isV4 a = false) (tail : Bytes) :
    readV6s l.length (l.flatMap sockBytes ++ tail) = l := by
  induction l with
  | nil => simp only [List.length_nil, readV6s]
  | cons a r ih =>
    have ha := h a (List.mem_cons_self)
    cases a with
    | v4 ip port => simp [isV4] at ha
    | v6 ip port =>
      obtain ⟨⟨⟨hl, _⟩, hport⟩, _⟩ := by simpa only [sockWF, Bool.and_eq_true, decide_eq_true_eq] using ha
      match ip, hl with
      | [a0, a1, a2, a3, a4, a5, a6, a7, a8, a9, a10, a11, a12, a13, a14, a15], _ =>
        simp only [List.length_cons, readV6s, List.flatMap_cons, sockBytes, Bytes.ofU16, List.cons_append,
          List.nil_append, List.take_succ_cons, List.take_zero, List.getD_cons_succ,
          List.getD_cons_zero, List.drop_succ_cons, List.drop_zero, u16_read port hport]
        rw [ih (fun b hb => h b (List.mem_cons_of_mem _ hb))]

theorem flatMap_v4_length (l : List SockAddr) (h : ∀ a ∈ l, sockWF a = true ∧ isV4 a = true) :
    (l.flatMap sockBytes).length = l.length * 6 := by
  induction l with
  | nil => rfl
  | cons a r ih =>
    have ha := h a (List.mem_cons_self)
    cases a with
    | v6 ip port => simp [isV4] at ha
    | v4 ip port =>
      obtain ⟨⟨⟨hl, _⟩, _⟩, _⟩ := by simpa only [sockWF, Bool.and_eq_true, decide_eq_true_eq] using ha
      simp only [List.flatMap_cons, List.length_append, sockBytes, Bytes.ofU16, List.length_cons, List.length_nil,
        hl, ih (fun b hb => h b (List.mem_cons_of_mem _ hb))]
      omega

theorem flatMap_v6_length (l : List SockAddr) (h : ∀ a ∈ l, sockWF a = true ∧ isV4 a = false) :
    (l.flatMap sockBytes).length = l.length * 18 := by
  induction l with
  | nil => rfl
  | cons a r ih =>
    have ha := h a (List.mem_cons_self)
    cases a with
    | v4 ip port => simp [isV4] at ha
    | v6 ip port =>
      obtain ⟨⟨⟨hl, _⟩, _⟩, _⟩ := by simpa only [sockWF, Bool.and_eq_true, decide_eq_true_eq] using ha
      simp only [List.flatMap_cons, List.length_append, sockBytes, Bytes.ofU16, List.length_cons, List.length_nil,
        hl, ih (fun b hb => h b (List.mem_cons_of_mem _ hb))]
      omega

theorem dlz_id (b : Bytes) (h : b.head? ≠ some 0) : dropLeadingZeros b = b := by
  cases b with
  | nil => rfl
  | cons x r =>
    unfold dropLeadingZeros
    split
    · rename_i heq
      simp only [List.cons.injEq] at heq
      simp [heq.1] at h
    · rfl

/-! ## substring search -/

theorem go_zero (needle h : List Char) (i : Nat) : findSub.go needle h i 0 = none := by
  simp only [findSub.go]

theorem go_succ (needle h : List Char) (i fuel : Nat) :
    findSub.go needle h i (fuel + 1) =
      if needle.isPrefixOf h then some i
      else match h with
        | [] => none
        | _ :: t => findSub.go needle t (i + 1) fuel := by
  rw [findSub.go.eq_def]; rfl

theorem go_some (needle : List Char) (fuel : Nat) : ∀ (h : List Char) (i k : Nat),
    findSub.go needle h i fuel = some k →
    ∃ j, k = i + j ∧ j ≤ h.length ∧ needle.isPrefixOf (h.drop j) = true ∧
      ∀ j', j' < j → needle.isPrefixOf (h.drop j') = false := by
  induction fuel with
  | zero => intro h i k e; rw [go_zero] at e; cases e
  | succ fuel ih =>
    intro h i k e
    rw [go_succ] at e
    by_cases hp : needle.isPrefixOf h = true
    · rw [if_pos hp] at e
      exact ⟨0, by cases e; rfl, Nat.zero_le _, by simpa only [List.drop_zero] using hp, fun j' hj => absurd hj (Nat.not_lt_zero _)⟩
    · rw [if_neg hp] at e
      cases h with
      | nil => cases e
      | cons x t =>
        obtain ⟨j, hk, hj, hpre, hmin⟩ := ih t (i + 1) k e
        refine ⟨j + 1, by omega, by simp only [List.length_cons]; omega, by simpa only [List.drop_succ_cons] using hpre, ?_⟩
        intro j' hj'
        cases j' with
        | zero => simpa only [List.drop_zero, Bool.not_eq_true] using hp
        | succ m => simpa only [List.drop_succ_cons] using hmin m (by omega)

theorem go_none (needle : List Char) (fuel : Nat) : ∀ (h : List Char) (i : Nat), h.length + 1 ≤ fuel →
    findSub.go needle h i fuel = none → ∀ j, j ≤ h.length → needle.isPrefixOf (h.drop j) = false := by
  induction fuel with
  | zero => intro h i hf; omega
  | succ fuel ih =>
    intro h i hf e j hj
    rw [go_succ] at e
    by_cases hp : needle.isPrefixOf h = true
    · rw [if_pos hp] at e; cases e
    · rw [if_neg hp] at e
      cases j with
      | zero => simpa only [List.drop_zero, Bool.not_eq_true] using hp
      | succ m =>
        cases h with
        | nil => simp only [List.length_nil] at hj; omega
        | cons x t =>
          simp only [List.length_cons] at hf hj
          simpa only [List.drop_succ_cons] using ih t (i + 1) (by omega) e m (by omega)

theorem findSub_some {hay needle : List Char} {i : Nat} (h : findSub hay needle = some i) :
    i ≤ hay.length ∧ needle.isPrefixOf (hay.drop i) = true ∧ ∀ j, j < i → needle.isPrefixOf (hay.drop j) = false := by
  obtain ⟨j, hk, hj, hpre, hmin⟩ := go_some needle _ hay 0 i h
  have : i = j := by omega
  subst this
  exact ⟨hj, hpre, hmin⟩

theorem findSub_none' {hay needle : List Char} (h : findSub hay needle = none) :
    ∀ j, j ≤ hay.length → needle.isPrefixOf (hay.drop j) = false :=
  go_none needle _ hay 0 (Nat.le_refl _) h

/-- completeness: the first occurrence is found -/
theorem findSub_first (hay needle : List Char) (i : Nat) (hi : i ≤ hay.length)
    (hpre : needle.isPrefixOf (hay.drop i) = true) (hmin : ∀ j, j < i → needle.isPrefixOf (hay.drop j) = false) :
    findSub hay needle = some i := by
  cases e : findSub hay needle with
  | none => have := findSub_none' e i hi; rw [hpre] at this; cases this
  | some k =>
    obtain ⟨_, hk, hkmin⟩ := findSub_some e
    rcases Nat.lt_trichotomy k i with hlt | heq | hgt
    · have := hmin k hlt; rw [hk] at this; cases this
    · rw [heq]
    · have := hkmin i hgt; rw [hpre] at this; cases this

theorem findSub_absent (hay needle : List Char)
    (h : ∀ j, j ≤ hay.length → needle.isPrefixOf (hay.drop j) = false) : findSub hay needle = none := by
  cases e : findSub hay needle with
  | none => rfl
  | some k =>
    obtain ⟨hk, hpre, _⟩ := findSub_some e
    have := h k hk; rw [hpre] at this; cases this

theorem isPrefixOf_append_self (a b : List Char) : a.isPrefixOf (a ++ b) = true := by
  rw [List.isPrefixOf_iff_prefix]; exact List.prefix_append a b

/-! ## decoding an encoded body -/

/-- the part of `peerlist_decode` behind the seed check -/
def bodyParse (d : Bytes) (ttl : Option Nat) (now : Nat) : List SockAddr :=
  let thn := d.getD 0 0 * 256 + d.getD 1 0
  if (match ttl with | some t => tooOld now thn t | none => false) then [] else
  let v4count := d.getD 2 0
  let rest := d.length - 3
  if v4count * 6 > rest ∨ (rest - v4count * 6) % 18 > 0 then [] else
  readV4s v4count (d.drop 3) ++ readV6s ((rest - v4count * 6) / 18) (d.drop (3 + v4count * 6))

theorem peerlistDecode_eq (env : BeaconEnv) (text : List Char) (ttl : Option Nat) (now : Nat) :
    peerlistDecode env text ttl now =
      match fromBase62 text with
      | .error _ => []
      | .ok data =>
        if data.length < 4 then [] else
        match decryptData env data with
        | none => []
        | some d => bodyParse d ttl now := rfl

/-- the age verdict of the decoder for a beacon stamped `hour` -/
def rejected (now hour : Nat) (ttl : Option Nat) : Bool :=
  match ttl with | some t => tooOld now hour t | none => false

theorem bodyParse_plain (peers : List SockAddr) (hour now : Nat) (ttl : Option Nat)
    (hp : ∀ a ∈ peers, sockWF a = true) (h4 : (peers.filter isV4).length ≤ 255) (hh : hour < 65536) :
    bodyParse (plainBody peers hour) ttl now = if rejected now hour ttl then [] else normPeers peers := by
  have hV4 : ∀ a ∈ peers.filter isV4, sockWF a = true ∧ isV4 a = true :=
    fun a ha => ⟨hp a (List.mem_filter.mp ha).1, (List.mem_filter.mp ha).2⟩
  have hV6 : ∀ a ∈ peers.filter (fun a => !isV4 a), sockWF a = true ∧ isV4 a = false :=
    fun a ha => ⟨hp a (List.mem_filter.mp ha).1, by simpa using (List.mem_filter.mp ha).2⟩
  have l4 := flatMap_v4_length _ hV4
  have l6 := flatMap_v6_length _ hV6
  have r4 := readV4s_flatMap _ hV4 ((peers.filter (fun a => !isV4 a)).flatMap sockBytes)
  have r6 := readV6s_flatMap _ hV6 []
  rw [List.append_nil] at r6
  have c : (peers.filter isV4).length % 256 = (peers.filter isV4).length := Nat.mod_eq_of_lt (by omega)
  rw [plainBody_eq, c]
  unfold normPeers
  generalize peers.filter isV4 = V4 at *
  generalize peers.filter (fun a => !isV4 a) = V6 at *
  generalize V4.flatMap sockBytes = A at *
  generalize V6.flatMap sockBytes = B at *
  unfold bodyParse
  simp only [List.getD_cons_zero, List.getD_cons_succ, u16_read hour hh, List.length_cons, List.length_append,
    List.drop_succ_cons, List.drop_zero, l4, l6]
  have e1 : V4.length * 6 + V6.length * 18 + 1 + 1 + 1 - 3 = V4.length * 6 + V6.length * 18 := by omega
  have e2 : V4.length * 6 + V6.length * 18 - V4.length * 6 = V6.length * 18 := by omega
  have e3 : ¬ (V4.length * 6 > V4.length * 6 + V6.length * 18 ∨ V6.length * 18 % 18 > 0) := by omega
  have e4 : V6.length * 18 / 18 = V6.length := by omega
  have e5 : (hour / 256 % 256 :: hour % 256 :: V4.length :: (A ++ B)).drop (3 + V4.length * 6) = B := by
    rw [show 3 + V4.length * 6 = V4.length * 6 + 1 + 1 + 1 by omega]
    simp only [List.drop_succ_cons]
    rw [← l4]; exact List.drop_left
  simp only [e1, e2, e3, e4, if_false, r4, rejected]
  rw [e5, r6]
  rfl

theorem encoded_decodes (env : BeaconEnv) (h : EnvWF env) (peers : List SockAddr) (hour now : Nat) (ttl : Option Nat)
    (hp : ∀ a ∈ peers, sockWF a = true) (h4 : (peers.filter isV4).length ≤ 255) (hh : hour < 65536)
    (hz : (encryptData env (plainBody peers hour)).head? ≠ some 0) :
    ∃ text, peerlistEncode env peers hour = some text ∧
      peerlistDecode env text ttl now = if rejected now hour ttl then [] else normPeers peers := by
  obtain ⟨cs, e1, e2⟩ := VpnCloud.Proofs.C18.from_to _ (encryptData_wf env h _ (plainBody_wf peers hour hp))
  rw [dlz_id _ hz] at e2
  refine ⟨cs, e1, ?_⟩
  have hlen : ¬ (encryptData env (plainBody peers hour)).length < 4 := by
    rw [encryptData_length, plainBody_eq]; simp only [List.length_cons]; omega
  rw [peerlistDecode_eq, e2]
  simp only [hlen, if_false, decrypt_encrypt]
  exact bodyParse_plain peers hour now ttl hp h4 hh

/-! ## the scanning loop -/

theorem decodeLoop_zero (env : BeaconEnv) (data : List Char) (ttl : Option Nat) (now pos : Nat) :
    decodeLoop env data ttl now 0 pos = [] := rfl

theorem decodeLoop_succ (env : BeaconEnv) (data : List Char) (ttl : Option Nat) (now fuel pos : Nat) :
    decodeLoop env data ttl now (fuel + 1) pos =
      match findSub (data.drop pos) (beginMarker env) with
      | none => []
      | some f =>
        match findSub (data.drop (pos + f + (beginMarker env).length)) (endMarker env) with
        | none => []
        | some g =>
          peerlistDecode env ((data.drop (pos + f + (beginMarker env).length)).take
              (pos + f + (beginMarker env).length + g - (pos + f + (beginMarker env).length))) ttl now ++
            decodeLoop env data ttl now fuel (pos + f + (beginMarker env).length) := rfl

/-- no further beacon behind position `pos`: the loop stops -/
theorem decodeLoop_absent (env : BeaconEnv) (data : List Char) (ttl : Option Nat) (now fuel pos : Nat)
    (h : ∀ j, j ≤ (data.drop pos).length → (beginMarker env).isPrefixOf ((data.drop pos).drop j) = false) :
    decodeLoop env data ttl now fuel pos = [] := by
  cases fuel with
  | zero => rfl
  | succ n => rw [decodeLoop_succ, findSub_absent _ _ h]

theorem decode_single (env : BeaconEnv) (body : List Char) (ttl : Option Nat) (now : Nat)
    (hal : ∀ c ∈ beginMarker env ++ body ++ endMarker env, c.isAlphanum = true)
    (hE : ∀ j, j < body.length → (endMarker env).isPrefixOf ((body ++ endMarker env).drop j) = false)
    (hB : ∀ j, j ≤ (body ++ endMarker env).length →
      (beginMarker env).isPrefixOf ((body ++ endMarker env).drop j) = false) :
    decode env (beginMarker env ++ body ++ endMarker env) ttl now = peerlistDecode env body ttl now := by
  have hs : sanitize (beginMarker env ++ body ++ endMarker env) = beginMarker env ++ body ++ endMarker env :=
    List.filter_eq_self.mpr hal
  have d1 : (beginMarker env ++ body ++ endMarker env).drop (0 + 0 + (beginMarker env).length) =
      body ++ endMarker env := by
    rw [Nat.zero_add, List.append_assoc]; exact List.drop_left
  have f1 : findSub ((beginMarker env ++ body ++ endMarker env).drop 0) (beginMarker env) = some 0 := by
    apply findSub_first _ _ 0 (Nat.zero_le _)
    · rw [List.drop_zero, List.drop_zero, List.append_assoc]; exact isPrefixOf_append_self _ _
    · intro j hj; exact absurd hj (Nat.not_lt_zero _)
  have f2 : findSub (body ++ endMarker env) (endMarker env) = some body.length := by
    apply findSub_first _ _ body.length (by rw [List.length_append]; omega)
    · rw [List.drop_left]; simp
    · exact hE
  have t1 : (body ++ endMarker env).take (0 + 0 + (beginMarker env).length + body.length -
      (0 + 0 + (beginMarker env).length)) = body := by
    rw [Nat.add_sub_cancel_left]; exact List.take_left
  unfold decode
  simp only [hs]
  rw [decodeLoop_succ, f1]
  simp only [d1, f2, t1]
  rw [decodeLoop_absent env _ ttl now _ _ (by rw [d1]; exact hB), List.append_nil]

end VpnCloud.Proofs.BeaconLemmas
